/-
  C11 — lemmas for the mixed histories of `Model/C11Mixed.lean`.
-/
import PercevalModel.Model.C11Mixed
import PercevalModel.Lemmas.C11
import PercevalModel.Lemmas.C11Lists
import PercevalModel.Lemmas.C11Heur
import PercevalModel.Lemmas.C11Regroup
import PercevalModel.Lemmas.C11Chain

open Matrix PM

namespace PM.C11
variable {P R : Type}

/-- the matrix of a component of the flattened view -/
def FK.mat [CommRing R] (I : R) (e : P → R) : (k : FK P R) → Matrix (Fin k.size) (Fin k.size) R
  | .perm n σ => permMatL n σ
  | .ps φ => Matrix.of fun _ _ => e φ
  | .leaf l => l.mat I

theorem MS.U_cons [CommRing R] (I : R) (e : P → R) (m : ℕ) (p : ℕ × FK P R) (rest : MS P R) :
    MS.U I e m (p :: rest) = MS.U I e m rest * embed m p.1 (p.2.mat I e) := by
  obtain ⟨o, k⟩ := p
  cases k <;> simp [MS.U, MS.cmps, prodList, FK.toCmp, Cmp.toC01, FK.mat, FK.size, Leaf.size, Leaf.mat] <;> rfl

theorem MS.U_append [CommRing R] (I : R) (e : P → R) (m : ℕ) (a b : MS P R) :
    MS.U I e m (a ++ b) = MS.U I e m b * MS.U I e m a := by
  simp [MS.U, MS.cmps, prodList_append]

/-- what the laws need of a component: a `PERM` holds a permutation, a beam splitter real angles -/
def FK.OK [CommRing R] [StarRing R] : FK P R → Prop
  | .perm n σ => IsPermList n σ
  | .ps _ => True
  | .leaf l => l.Real

/-- the invariant of a history: every component has a positive width, fits the `m` modes and is admissible -/
def MS.OK [CommRing R] [StarRing R] (m : ℕ) (st : MS P R) : Prop :=
  ∀ p ∈ st, p.1 + p.2.size ≤ m ∧ 0 < p.2.size ∧ p.2.OK

/-! ### `perm_vector` of the flipped matrix -/

theorem flipPerm_getD {n : ℕ} (σ : List ℕ) {j : ℕ} (hj : j < n) :
    (flipPerm n σ).getD j n = n - 1 - σ.getD (n - 1 - j) n := by
  simp [flipPerm, List.getD_eq_getElem?_getD, hj]

theorem isPermList_getD_lt {n : ℕ} {σ : List ℕ} (h : IsPermList n σ) {j : ℕ} (hj : j < n) :
    σ.getD j n < n := by
  have hj' : j < σ.length := by rw [h.1]; exact hj
  rw [List.getD_eq_getElem?_getD, List.getElem?_eq_getElem hj']
  exact h.2.2 _ (List.getElem_mem hj')

theorem flipPerm_isPerm {n : ℕ} {σ : List ℕ} (h : IsPermList n σ) : IsPermList n (flipPerm n σ) := by
  refine ⟨by simp [flipPerm], ?_, ?_⟩
  · unfold flipPerm
    refine List.Nodup.map_on ?_ List.nodup_range
    intro a ha b hb hab
    rw [List.mem_range] at ha hb
    have ha' : n - 1 - a < σ.length := by rw [h.1]; omega
    have hb' : n - 1 - b < σ.length := by rw [h.1]; omega
    have la := isPermList_getD_lt h (j := n - 1 - a) (by omega)
    have lb := isPermList_getD_lt h (j := n - 1 - b) (by omega)
    have e : σ.getD (n - 1 - a) n = σ.getD (n - 1 - b) n := by omega
    rw [List.getD_eq_getElem?_getD, List.getD_eq_getElem?_getD, List.getElem?_eq_getElem ha',
      List.getElem?_eq_getElem hb'] at e
    simp only [Option.getD_some] at e
    have := (List.Nodup.getElem_inj_iff h.2.1).1 e
    omega
  · intro x hx
    simp only [flipPerm, List.mem_map, List.mem_range] at hx
    obtain ⟨j, hj, rfl⟩ := hx
    omega

theorem permMatL_flip [Zero R] [One R] {n : ℕ} {σ : List ℕ} (h : IsPermList n σ) :
    permMatL (R := R) n (flipPerm n σ) = vflip (permMatL n σ) := by
  ext i j
  simp only [permMatL, vflip, Matrix.submatrix_apply]
  rw [flipPerm_getD σ j.isLt]
  have hb := isPermList_getD_lt h (j := n - 1 - j.val) (by omega)
  have hi := i.isLt
  have hj := j.isLt
  have e1 : (Fin.rev j).val = n - 1 - j.val := by simp [Fin.val_rev]; omega
  have e2 : (Fin.rev i).val = n - 1 - i.val := by simp [Fin.val_rev]; omega
  rw [e1, e2]
  have : (n - 1 - σ.getD (n - 1 - j.val) n = i.val) ↔ (σ.getD (n - 1 - j.val) n = n - 1 - i.val) := by
    omega
  simp only [this]

theorem permInv_isPerm {n : ℕ} {σ : List ℕ} (h : IsPermList n σ) (v hh : Bool) :
    IsPermList n (permInv v hh n σ) := by
  have h1 : IsPermList n (if v then flipPerm n σ else σ) := by
    cases v
    · exact h
    · exact flipPerm_isPerm h
  unfold permInv
  cases hh
  · exact h1
  · exact invertPerm_isPerm h1

theorem vecMat_eq_conjTranspose [CommRing R] [StarRing R] {n : ℕ} {σ : List ℕ} (h : IsPermList n σ) :
    permMatL (R := R) n (invertPerm σ) = (permMatL n σ)ᴴ := by
  have e := vecMat_invertPerm (R := R) h
  ext i j
  have := congrFun (congrFun e j) i
  simp only [vecMat, permMatL] at this
  simp only [permMatL, conjTranspose_apply]
  rw [this]
  split <;> simp

theorem permMatL_permInv [CommRing R] [StarRing R] {n : ℕ} {σ : List ℕ} (h : IsPermList n σ)
    (v hh : Bool) : permMatL (R := R) n (permInv v hh n σ) = xform v hh (permMatL n σ) := by
  have h1 : IsPermList n (if v then flipPerm n σ else σ) := by
    cases v
    · exact h
    · exact flipPerm_isPerm h
  have e1 : permMatL (R := R) n (if v then flipPerm n σ else σ) =
      (if v then vflip (permMatL n σ) else permMatL n σ) := by
    cases v
    · rfl
    · exact permMatL_flip h
  unfold permInv xform
  cases hh
  · simpa using e1
  · simp only [if_true]
    rw [vecMat_eq_conjTranspose h1, e1]

/-! ### `inverse(v, h)` on the flattened view -/

theorem FK.size_inv [Neg R] [Star R] [PhaseNeg P] (v h : Bool) (k : FK P R) :
    (k.inv v h).size = k.size := by
  cases k with
  | perm n σ => rfl
  | ps φ => rfl
  | leaf l => exact Leaf.size_inv true v h l

theorem FK.inv_embed [CommRing R] [StarRing R] [PhaseNeg P] {I : R} (hI : ImagUnit I) (e : P → R)
    (hneg : ∀ φ : P, e (PhaseNeg.neg φ) = star (e φ)) (v h : Bool) (k : FK P R) (hk : k.OK)
    {N off : ℕ} (hfit : off + k.size ≤ N) :
    embed N (if v then N - off - k.size else off) ((k.inv v h).mat I e) =
      xform v h (embed N off (k.mat I e)) := by
  cases k with
  | perm n σ =>
    rw [xform_embed hfit]
    exact congrArg _ (permMatL_permInv hk v h)
  | ps φ =>
    have := leaf_inv_embed hI v h (.ps (e φ)) trivial (N := N) (off := off) hfit
    refine Eq.trans ?_ this
    cases h <;> simp [FK.inv, FK.mat, Leaf.inv, Leaf.mat, hneg, FK.size, Leaf.size] <;> rfl
  | leaf l => exact leaf_inv_embed hI v h l hk hfit

theorem MS.U_map_inv [CommRing R] [StarRing R] [PhaseNeg P] {I : R} (hI : ImagUnit I) (e : P → R)
    (hneg : ∀ φ : P, e (PhaseNeg.neg φ) = star (e φ)) (m : ℕ) (v : Bool) (st : MS P R) (hok : st.OK m) :
    MS.U I e m (st.map fun p => (if v then m - p.1 - p.2.size else p.1, p.2.inv v false)) =
      xform v false (MS.U I e m st) := by
  induction st with
  | nil => simp [MS.U, MS.cmps, prodList, xform_one]
  | cons p rest ih =>
    have hp := hok p (by simp)
    rw [List.map_cons, MS.U_cons, MS.U_cons, xform_mul, ih (fun q hq => hok q (by simp [hq]))]
    simp only [Bool.false_eq_true, if_false]
    rw [FK.inv_embed hI e hneg v false p.2 hp.2.2 hp.1]

theorem MS.U_map_inv_rev [CommRing R] [StarRing R] [PhaseNeg P] {I : R} (hI : ImagUnit I) (e : P → R)
    (hneg : ∀ φ : P, e (PhaseNeg.neg φ) = star (e φ)) (m : ℕ) (v : Bool) (st : MS P R) (hok : st.OK m) :
    MS.U I e m (st.map fun p => (if v then m - p.1 - p.2.size else p.1, p.2.inv v true)).reverse =
      xform v true (MS.U I e m st) := by
  induction st with
  | nil => simp [MS.U, MS.cmps, prodList, xform_one]
  | cons p rest ih =>
    have hp := hok p (by simp)
    rw [List.map_cons, List.reverse_cons, MS.U_append, MS.U_cons, MS.U_cons, xform_mul,
      ih (fun q hq => hok q (by simp [hq]))]
    simp only [if_true]
    rw [FK.inv_embed hI e hneg v true p.2 hp.2.2 hp.1]
    simp [MS.U, MS.cmps, prodList]

theorem MS.inv_matrix [CommRing R] [StarRing R] [PhaseNeg P] {I : R} (hI : ImagUnit I) (e : P → R)
    (hneg : ∀ φ : P, e (PhaseNeg.neg φ) = star (e φ)) (m : ℕ) (v h : Bool) (st : MS P R) (hok : st.OK m) :
    MS.U I e m (st.inv m v h) = xform v h (MS.U I e m st) := by
  unfold MS.inv
  cases h
  · exact MS.U_map_inv hI e hneg m v st hok
  · exact MS.U_map_inv_rev hI e hneg m v st hok

theorem FK.OK_inv [CommRing R] [StarRing R] [PhaseNeg P] (v h : Bool) (k : FK P R) (hk : k.OK) :
    (k.inv v h).OK := by
  cases k with
  | perm n σ => exact permInv_isPerm hk v h
  | ps φ => trivial
  | leaf l => exact Leaf.Real_inv v h l hk

theorem MS.inv_OK [CommRing R] [StarRing R] [PhaseNeg P] (m : ℕ) (v h : Bool) (st : MS P R)
    (hok : st.OK m) : (st.inv m v h).OK m := by
  have key : MS.OK m (st.map fun p => (if v then m - p.1 - p.2.size else p.1, p.2.inv v h)) := by
    intro q hq
    simp only [List.mem_map] at hq
    obtain ⟨p, hp, rfl⟩ := hq
    obtain ⟨h1, h2, h3⟩ := hok p hp
    refine ⟨?_, by rw [FK.size_inv]; exact h2, FK.OK_inv v h p.2 h3⟩
    simp only [FK.size_inv]
    split <;> omega
  unfold MS.inv
  cases h
  · exact key
  · intro q hq
    exact key q (List.mem_reverse.1 hq)

/-! ### `decompose_perms` -/

theorem bubble_prod [CommRing R] {n : ℕ} {σ : List ℕ} (h : IsPermList n σ) :
    prodSwaps (R := R) n (bubble σ) = permMatL n σ ∧ ∀ k ∈ bubble σ, k + 2 ≤ n := by
  obtain ⟨hs, hf⟩ := bubble_ok h
  refine ⟨?_, hs⟩
  have e := prodSwaps_mul_vecMat (R := R) n (bubble σ) (List.range n) (by simp) hs
  rw [vecMat_range, Matrix.mul_one] at e
  rw [e, ← vecMat_invertPerm h, ← hf]
  congr 1
  have := bubbleOuter_applySwaps σ (List.range σ.length) (List.range σ.length)
  rw [h.1] at this
  simp only [bubble, bubbleFinal, h.1]
  exact this.symm

theorem MS.U_swaps [CommRing R] (I : R) (e : P → R) {m n o : ℕ} (hfit : o + n ≤ m) (l : List ℕ)
    (hl : ∀ k ∈ l, k + 2 ≤ n) :
    MS.U I e m (l.map fun k => ((o + k, FK.perm 2 [1, 0]) : ℕ × FK P R)) = embed m o (prodSwaps n l) := by
  induction l with
  | nil => simp [MS.U, MS.cmps, prodList, prodSwaps, embed_one hfit]
  | cons k rest ih =>
    rw [List.map_cons, MS.U_cons, ih (fun x hx => hl x (by simp [hx]))]
    simp only [prodSwaps, FK.mat]
    rw [← embed_mul hfit, embed_embed hfit (hl k (by simp))]
    rfl

theorem MS.decomp_spec [CommRing R] [StarRing R] (I : R) (e : P → R) (m : ℕ) (st : MS P R)
    (hok : st.OK m) : st.decomp.OK m ∧ MS.U I e m st.decomp = MS.U I e m st := by
  induction st with
  | nil => exact ⟨by intro p hp; simp [MS.decomp] at hp, rfl⟩
  | cons p rest ih =>
    obtain ⟨ih1, ih2⟩ := ih (fun q hq => hok q (by simp [hq]))
    obtain ⟨h1, h2, h3⟩ := hok p (by simp)
    have hsplit : MS.decomp (p :: rest) = MS.decomp [p] ++ MS.decomp rest := by
      simp [MS.decomp]
    have hone : (MS.decomp [p]).OK m ∧ MS.U I e m (MS.decomp [p]) = MS.U I e m [p] := by
      obtain ⟨o, k⟩ := p
      cases k with
      | perm n σ =>
        by_cases h2' : n = 2
        · subst h2'
          refine ⟨?_, by simp [MS.decomp]⟩
          intro q hq
          simp only [MS.decomp, List.flatMap_cons, List.flatMap_nil, if_true, List.append_nil,
            List.mem_singleton] at hq
          subst hq
          exact ⟨h1, h2, h3⟩
        · obtain ⟨hb, hs⟩ := bubble_prod (R := R) h3
          have e1 : MS.decomp [((o, FK.perm n σ) : ℕ × FK P R)] =
              (bubble σ).map fun k => ((o + k, FK.perm 2 [1, 0]) : ℕ × FK P R) := by
            simp [MS.decomp, h2']
          rw [e1]
          refine ⟨?_, ?_⟩
          · intro q hq
            simp only [List.mem_map] at hq
            obtain ⟨k, hk, rfl⟩ := hq
            have := hs k hk
            simp only [FK.size] at h1 ⊢
            refine ⟨by omega, by omega, ?_⟩
            show IsPermList 2 [1, 0]
            decide
          · have h1' : o + n ≤ m := h1
            rw [MS.U_swaps I e h1' (bubble σ) hs, hb, MS.U_cons]
            simp [MS.U, MS.cmps, prodList, FK.mat]
            rfl
      | ps φ =>
        refine ⟨?_, by simp [MS.decomp]⟩
        intro q hq
        simp only [MS.decomp, List.flatMap_cons, List.flatMap_nil, List.append_nil,
          List.mem_singleton] at hq
        subst hq
        exact ⟨h1, h2, h3⟩
      | leaf l =>
        refine ⟨?_, by simp [MS.decomp]⟩
        intro q hq
        simp only [MS.decomp, List.flatMap_cons, List.flatMap_nil, List.append_nil,
          List.mem_singleton] at hq
        subst hq
        exact ⟨h1, h2, h3⟩
    rw [hsplit]
    refine ⟨?_, ?_⟩
    · intro q hq
      rcases List.mem_append.1 hq with h | h
      · exact hone.1 q h
      · exact ih1 q h
    · rw [MS.U_append, ih2, hone.2, MS.U_cons, MS.U_cons]
      simp [MS.U, MS.cmps, prodList]

/-! ### regrouping of an all-unitary circuit -/

theorem FK.toCmp_size [CommRing R] (I : R) (e : P → R) (k : FK P R) :
    ((k.toCmp e).toC01 I).size = k.size := by
  cases k <;> rfl

theorem MS.regroup_spec [CommRing R] [StarRing R] (I : R) (e : P → R) (m : ℕ) (st : MS P R)
    (hok : st.OK m) : (st.regroup I e m).OK m ∧ MS.U I e m (st.regroup I e m) = MS.U I e m st := by
  unfold MS.regroup
  cases st with
  | nil => exact ⟨by intro p hp; simp at hp, rfl⟩
  | cons p rest =>
    simp only [List.isEmpty_cons, Bool.false_eq_true, if_false]
    set cs := MS.cmps e (p :: rest) with hcs
    have hfit : ∀ q ∈ cs, q.1 + (q.2.toC01 I).size ≤ m := by
      intro q hq
      simp only [hcs, MS.cmps, List.mem_map] at hq
      obtain ⟨x, hx, rfl⟩ := hq
      simp only [FK.toCmp_size]
      exact (hok x hx).1
    have h2 : (pendingRange I m cs).2 ≤ m := pendingRange_le I m cs m 0 (Nat.zero_le _) hfit
    obtain ⟨h1, _, h3⟩ := pendingRange_foldl I cs m 0
    have hp : (p.1, p.2.toCmp e) ∈ cs := by simp [hcs, MS.cmps]
    have hin := h3 _ hp
    simp only [FK.toCmp_size] at hin
    have hpos := (hok p (by simp)).2.1
    have hr : pendingRange I m cs = cs.foldl
        (fun mm p => (min mm.1 p.1, max mm.2 (p.1 + (p.2.toC01 I).size))) (m, 0) := rfl
    rw [← hr] at h1 hin
    refine ⟨?_, ?_⟩
    · intro q hq
      simp only [List.mem_singleton] at hq
      subst hq
      refine ⟨?_, ?_, trivial⟩
      · show (pendingRange I m cs).1 + ((pendingRange I m cs).2 - (pendingRange I m cs).1) ≤ m
        omega
      · show 0 < (pendingRange I m cs).2 - (pendingRange I m cs).1
        omega
    · rw [MS.U_cons]
      show MS.U I e m [] * embed m (pendingRange I m cs).1
        (Group.blockMat I m (pendingRange I m cs).1
          ((pendingRange I m cs).2 - (pendingRange I m cs).1) cs) = prodList I m cs
      rw [block_embed_pending I m cs hfit]
      simp [MS.U, MS.cmps, prodList]

/-! ### `simplify` -/

/-- what the simplifier's abstract items stand for -/
def mkInterp [CommRing R] (I : R) (e : P → R) (tbl : ℕ → Leaf R) : Interp P R where
  e := e
  var := fun _ => 1
  otherW := fun i => (tbl i).size
  other := fun i => (tbl i).mat I

/-- the table holds the opaque components of the list, positions counted from `k` -/
def TblOK (tbl : ℕ → Leaf R) (k : ℕ) (st : MS P R) : Prop :=
  ∀ j o l, st[j]? = some (o, FK.leaf l) → tbl (k + j) = l

theorem TblOK.tail {tbl : ℕ → Leaf R} {k : ℕ} {p : ℕ × FK P R} {rest : MS P R}
    (H : TblOK tbl k (p :: rest)) : TblOK tbl (k + 1) rest := by
  intro j o l h
  have := H (j + 1) o l (by simpa using h)
  rw [show k + 1 + j = k + (j + 1) by omega]
  exact this

theorem TblOK.head {tbl : ℕ → Leaf R} {k o : ℕ} {l : Leaf R} {rest : MS P R}
    (H : TblOK tbl k (((o, FK.leaf l) : ℕ × FK P R) :: rest)) : tbl k = l := by
  simpa using H 0 o l rfl

theorem tblOK_self (st : MS P R) : TblOK st.tbl 0 st := by
  intro j o l h
  simp [MS.tbl, h]

theorem listU_itemsFrom [CommRing R] [StarRing R] (I : R) (e : P → R) (m : ℕ) (tbl : ℕ → Leaf R) :
    (st : MS P R) → (k : ℕ) → TblOK tbl k st → st.OK m →
    listU (mkInterp I e tbl) m (st.itemsFrom k) = MS.U I e m st ∧
      ∀ it ∈ st.itemsFrom k, it.WF (mkInterp I e tbl) m ∧ 0 < it.w
  | [], _, _, _ => ⟨rfl, by intro it hit; simp [MS.itemsFrom] at hit⟩
  | p :: rest, k, H, hok => by
    obtain ⟨ih1, ih2⟩ := listU_itemsFrom I e m tbl rest (k + 1) H.tail (fun q hq => hok q (by simp [hq]))
    obtain ⟨h1, h2, h3⟩ := hok p (by simp)
    obtain ⟨o, fk⟩ := p
    have key : itemU (mkInterp I e tbl) m ⟨o, fk.size, fk.kind k⟩ = embed m o (fk.mat I e) ∧
        (⟨o, fk.size, fk.kind k⟩ : Item P).WF (mkInterp I e tbl) m := by
      cases fk with
      | perm n σ =>
        obtain ⟨hlen, hnd, hlt⟩ := h3
        subst hlen
        exact ⟨rfl, h1, rfl, ⟨rfl, hnd, hlt⟩⟩
      | ps φ => exact ⟨rfl, h1, rfl⟩
      | leaf l =>
        have ht : tbl k = l := H.head
        subst ht
        exact ⟨rfl, h1, rfl⟩
    refine ⟨?_, ?_⟩
    · rw [MS.U_cons, ← ih1]
      simp only [MS.itemsFrom, listU]
      rw [key.1]
    · intro it hit
      simp only [MS.itemsFrom, List.mem_cons] at hit
      rcases hit with rfl | hit
      · exact ⟨key.2, h2⟩
      · exact ih2 it hit

theorem Item.toFK_spec [CommRing R] [StarRing R] (I : R) (e : P → R) (m : ℕ) (tbl : ℕ → Leaf R)
    (htbl : ∀ i, (tbl i).Real) (x : Item P) (hwf : x.WF (mkInterp I e tbl) m) :
    (x.toFK tbl).1 = x.r0 ∧ (x.toFK tbl).2.size = x.w ∧ (x.toFK tbl).2.OK ∧
      embed m x.r0 ((x.toFK tbl).2.mat I e) = itemU (mkInterp I e tbl) m x := by
  obtain ⟨r0, w, k⟩ := x
  obtain ⟨_, hk⟩ := hwf
  cases k with
  | perm σ =>
    obtain ⟨hlen, hp⟩ := hk
    simp only at hlen
    subst hlen
    exact ⟨rfl, rfl, hp, rfl⟩
  | ps φ =>
    have hk' : w = 1 := hk
    subst hk'
    exact ⟨rfl, rfl, trivial, rfl⟩
  | psVar i =>
    have hk' : w = 1 := hk
    subst hk'
    exact ⟨rfl, rfl, trivial, rfl⟩
  | other i =>
    have hk' : (tbl i).size = w := hk
    subst hk'
    exact ⟨rfl, rfl, htbl i, rfl⟩

theorem MS.U_map_toFK [CommRing R] [StarRing R] (I : R) (e : P → R) (m : ℕ) (tbl : ℕ → Leaf R)
    (htbl : ∀ i, (tbl i).Real) (l : List (Item P)) (hwf : ∀ x ∈ l, x.WF (mkInterp I e tbl) m)
    (hpos : Pos l) :
    MS.OK m (l.map (Item.toFK tbl)) ∧ MS.U I e m (l.map (Item.toFK tbl)) = listU (mkInterp I e tbl) m l := by
  induction l with
  | nil => exact ⟨by intro p hp; simp at hp, rfl⟩
  | cons x rest ih =>
    obtain ⟨ih1, ih2⟩ := ih (fun y hy => hwf y (by simp [hy])) (fun y hy => hpos y (by simp [hy]))
    obtain ⟨s1, s2, s3, s4⟩ := Item.toFK_spec I e m tbl htbl x (hwf x (by simp))
    have hx := hwf x (by simp)
    have hp := hpos x (by simp)
    refine ⟨?_, ?_⟩
    · intro q hq
      simp only [List.map_cons, List.mem_cons] at hq
      rcases hq with rfl | hq
      · rw [s1, s2]
        exact ⟨hx.1, hp, s3⟩
      · exact ih1 q hq
    · rw [List.map_cons, MS.U_cons, ih2, s1, s4]
      rfl

theorem MS.tbl_real [CommRing R] [StarRing R] (m : ℕ) (st : MS P R) (hok : st.OK m) (i : ℕ) :
    (st.tbl i).Real := by
  unfold MS.tbl
  split
  · rename_i o l heq
    exact (hok _ (List.mem_of_getElem? heq)).2.2
  · trivial

theorem withDrops_fst : (l : List (Item P)) → (d : List Bool) → (withDrops l d).map (·.1) = l
  | [], _ => rfl
  | it :: r, [] => by simp [withDrops, withDrops_fst r []]
  | it :: r, d :: ds => by simp [withDrops, withDrops_fst r ds]

theorem MS.simp_spec [CommRing R] [StarRing R] [PhaseAlg P] (I : R) (e : P → R)
    (hadd : ∀ a b : P, e (PhaseAlg.add a b) = e a * e b)
    (hdrop : ∀ a : P, PhaseAlg.canDrop a = true → e a = 1)
    (m : ℕ) (display : Bool) (drops : List Bool) (st : MS P R) (hok : st.OK m) :
    (st.simp m display drops).OK m ∧ MS.U I e m (st.simp m display drops) = MS.U I e m st := by
  obtain ⟨hU, hW⟩ := listU_itemsFrom I e m st.tbl st 0 (tblOK_self st) hok
  have hs : ∀ s ∈ withDrops (st.itemsFrom 0) drops,
      s.1.WF (mkInterp I e st.tbl) m ∧ 0 < s.1.w := by
    intro s hs
    apply hW
    rw [← withDrops_fst (st.itemsFrom 0) drops]
    exact List.mem_map_of_mem hs
  obtain ⟨l, h1, h2, h3, h4⟩ := simplifyDet_sound (mkInterp I e st.tbl) hadd hdrop display
    (withDrops (st.itemsFrom 0) drops) [] hs (by simp) (fun x hx => by simp at hx)
  obtain ⟨b1, b2⟩ := MS.U_map_toFK I e m st.tbl (MS.tbl_real m st hok) l h2 h3
  unfold MS.simp
  rw [h1]
  refine ⟨b1, ?_⟩
  show MS.U I e m (l.map (Item.toFK st.tbl)) = _
  rw [b2, h4, List.nil_append, withDrops_fst, hU]

end PM.C11
