/-
  C04 — the `Simulator.evolve` / `evolve_svd` path: model of the logical-performance bookkeeping (new
  definitions, nothing of `Model/C04.lean` is touched) and its reduction to the specification.

  Level of description: squared amplitudes.  `_merge_sv` of two state vectors carrying different tags multiplies
  amplitudes of *distinct* annotated components, so the list of squared amplitudes of the product is `conv`
  (keys: un-annotated occupations, duplicates allowed — `post_select_statevector` tests heralds and post-selection
  on the occupation and adds `|amplitude|²` of every accepted annotated component).
-/
import PercevalModel.Lemmas.C04
import PercevalModel.Lemmas.C04Mass

namespace PM.C04
open PM.Fock PM.Dist PM.SimSpec

/-- `_evolve_no_compute`, the output of one tag group of an input holding `nExt` photons in total: a vacuum group
is appended as it is (no engine call, no mask); any other group is the cached engine output computed under the
herald mask instantiated with `_best_n(nExt, n_own)` (`evolve` calls `init_use_mask(True)`: no detectors). -/
def evolveGroup (eng : Fock → D) (c : Cfg) (nExt : ℕ) (s : Fock) : D :=
  if s.sum = 0 then [(s, 1)] else groupDist eng { c with pnr := true } nExt s

/-- the recombined (repaired loop `mergeGroups`) squared amplitudes of one annotated Fock input -/
def evolveMerged (eng : Fock → D) (c : Cfg) (groups : List Fock) : D :=
  mergeGroups (groups.map (evolveGroup eng c (groups.map List.sum).sum))

/-- `post_select_statevector`'s second result after `evolve(BasicState)`: `Simulator.logical_perf` -/
def evolveLogical (eng : Fock → D) (c : Cfg) (groups : List Fock) : ℚ :=
  if !(hasCond c.ps || !c.heralds.isEmpty) then 1
  else mass (restrict (logicOk (cond c)) (evolveMerged eng c groups))

/-- `evolve_svd` on a mixture of annotated Fock states: (`physical_perf`, `logical_perf`) — inputs below the photon
filter are skipped, `global_perf += p * logical_perf(input)`, `physical_perf += p`, ratio at the end -/
def evolveSvd (eng : Fock → D) (c : Cfg) (members : List Member) : ℚ × ℚ :=
  let phys := ((kept c members).map (·.w)).sum
  let glob := ((kept c members).map fun mb => mb.w * evolveLogical eng c mb.groups).sum
  (phys, if phys ≠ 0 then glob / phys else 0)

/-! ### lemmas -/

theorem fadd_zeros_left : ∀ (m : ℕ) (t : Fock), t.length = m → fadd (zeros m) t = t
  | 0, t, h => by
    have : t = [] := List.length_eq_zero_iff.mp h
    subst this; rfl
  | m + 1, [], h => by simp at h
  | m + 1, a :: t, h => by
    have ih := fadd_zeros_left m t (by simpa using h)
    simp only [zeros, List.replicate_succ, fadd_cons_cons, Nat.zero_add] at ih ⊢
    rw [ih]

theorem conv_zeros_left (m : ℕ) (d : D) (h : ∀ q ∈ d, q.1.length = m) : conv [(zeros m, 1)] d = d := by
  rw [conv_cons, conv_nil, List.append_nil]
  calc d.map (fun q => (fadd (zeros m) q.1, (1 : ℚ) * q.2)) = d.map id := by
        apply List.map_congr_left
        intro q hq
        simp [fadd_zeros_left m q.1 (h q hq)]
    _ = d := List.map_id d

/-- the filter `evolveGroup` applies to the engine's distribution -/
def evolveFilter (c : Cfg) (nExt : ℕ) (s : Fock) : Fock → Bool :=
  if s.sum = 0 then fun _ => true else groupFilter { c with pnr := true } nExt s

theorem evolveGroup_eq (eng : Fock → D) (c : Cfg) (nExt : ℕ) (s : Fock) (hvac : s.sum = 0 → eng s = [(s, 1)]) :
    evolveGroup eng c nExt s = restrict (evolveFilter c nExt s) (eng s) := by
  unfold evolveGroup evolveFilter
  split
  · next h0 => rw [hvac h0]; rfl
  · rw [groupDist_fun]

theorem evolveFilter_weaker (c : Cfg) (nExt : ℕ) (s y : Fock)
    (h : maskOk (heraldMask c.m c.heralds) (min nExt (s.sum + nHeralds c.heralds) - s.sum) y = true) :
    evolveFilter c nExt s y = true := by
  unfold evolveFilter
  split
  · rfl
  · exact groupFilter_weaker { c with pnr := true } nExt s y h

/-- what `_evolve_no_compute` recombines, as a product started from the vacuum -/
theorem evolveMerged_eq (eng : Fock → D) (c : Cfg) (groups : List Fock) (hne : groups ≠ [])
    (hlen : ∀ s ∈ groups, ∀ q ∈ eng s, q.1.length = c.m)
    (hvac : ∀ s ∈ groups, s.sum = 0 → eng s = [(s, 1)]) :
    evolveMerged eng c groups =
      convAll [(zeros c.m, 1)]
        (groups.map fun s => restrict (evolveFilter c (groups.map List.sum).sum s) (eng s)) := by
  have e : groups.map (evolveGroup eng c (groups.map List.sum).sum) =
      groups.map fun s => restrict (evolveFilter c (groups.map List.sum).sum s) (eng s) :=
    List.map_congr_left fun s hs => evolveGroup_eq eng c _ s (hvac s hs)
  unfold evolveMerged
  rw [e]
  cases groups with
  | nil => exact absurd rfl hne
  | cons s r =>
    simp only [List.map_cons]
    rw [mergeGroups_eq_convAll', convAll_cons, conv_zeros_left]
    intro q hq
    exact hlen s List.mem_cons_self q (mem_restrict hq)
where
  mergeGroups_eq_convAll' (d : D) (ds : List D) : mergeGroups (d :: ds) = convAll d ds := by
    unfold mergeGroups convAll
    induction ds generalizing d with
    | nil => rfl
    | cons x r ih =>
      simp only [List.foldl_cons]
      by_cases h : d.isEmpty = true
      · have hd : d = [] := by simpa using h
        subst hd
        simpa using ih []
      · simpa [h] using ih (conv d x)

/-- **mask invariance for `evolve`**: after conditioning on the heralds (and the post-selection), the squared
amplitudes recombined from the masked, budgeted group outputs are those of the unconditioned product — as lists -/
theorem evolve_accepted_eq (eng : Fock → D) (c : Cfg) (groups : List Fock) (hne : groups ≠ [])
    (wf : HeraldsWF c.m c.heralds)
    (hshape : ∀ s ∈ groups, ∀ q ∈ eng s, q.1.length = c.m ∧ q.1.sum = s.sum)
    (hvac : ∀ s ∈ groups, s.sum = 0 → eng s = [(s, 1)]) :
    restrict (logicOk (cond c)) (evolveMerged eng c groups) =
    restrict (logicOk (cond c)) (fullMember eng c.m ⟨1, groups⟩) := by
  rw [evolveMerged_eq eng c groups hne (fun s hs q hq => (hshape s hs q hq).1) hvac]
  have split : ∀ d : D, restrict (logicOk (cond c)) d =
      restrict (fun t => c.ps.eval t) (restrict (heraldsOk c.heralds) d) := by
    intro d; rw [restrict_restrict]; rfl
  rw [split, split]
  congr 1
  have hz : ∀ p ∈ [(zeros c.m, (1 : ℚ))], p.1.length = c.m := by
    intro p hp
    simp only [List.mem_singleton] at hp
    simp [hp, zeros_length]
  have hl1 : ∀ x ∈ convAll [(zeros c.m, 1)]
      (groups.map fun s => restrict (evolveFilter c (groups.map List.sum).sum s) (eng s)), x.1.length = c.m := by
    apply length_convAll _ _ _ hz
    intro d hd q hq
    obtain ⟨s, hs, rfl⟩ := List.mem_map.1 hd
    exact (hshape s hs q (mem_restrict hq)).1
  have hl2 : ∀ x ∈ fullMember eng c.m ⟨1, groups⟩, x.1.length = c.m :=
    fun x hx => (fullMember_keys eng c.m ⟨1, groups⟩ hshape x hx).1
  rw [restrict_congr (g := maskOk (heraldMask c.m c.heralds) 0)
        (fun p hp => heraldsOk_eq_maskOk wf p.1 (hl1 p hp)),
      restrict_congr (g := maskOk (heraldMask c.m c.heralds) 0)
        (fun p hp => heraldsOk_eq_maskOk wf p.1 (hl2 p hp))]
  have key := restrict_convAll_masked (heraldMask c.m c.heralds) (groups.map List.sum).sum (nHeralds c.heralds)
    (maskTotal_heraldMask_le _ _)
    (groups.map fun s => (⟨s.sum, eng s, evolveFilter c (groups.map List.sum).sum s⟩ : Grp)) ?_ ?_
    [(zeros c.m, 1)] 0 ?_ ?_
  · simpa [fullMember, List.map_map, Function.comp_def] using key
  · intro g hg q hq
    obtain ⟨s, hs, rfl⟩ := List.mem_map.1 hg
    exact le_of_eq (hshape s hs q hq).2
  · intro g hg y hy
    obtain ⟨s, hs, rfl⟩ := List.mem_map.1 hg
    exact evolveFilter_weaker c _ s y hy
  · intro p hp
    simp only [List.mem_singleton] at hp
    simp [hp, zeros_sum]
  · simp [List.map_map, Function.comp_def]

/-- on `m`-mode states that satisfy the heralds the threshold `sum(heralds.values())` is met -/
theorem physOk_of_heraldsOk (c : Cfg) (wf : HeraldsWF c.m c.heralds) (t : Fock) (ht : t.length = c.m)
    (hh : heraldsOk c.heralds t = true) : physOk (cond { c with userFilter := 0 }) t = true := by
  rw [heraldsOk_eq_maskOk wf t ht] at hh
  have hs := sum_removeM (heraldMask c.m c.heralds) t (by rw [heraldMask_length, ht]) hh
  rw [maskTotal_heraldMask_eq c.m c.heralds wf] at hs
  show decide (0 + nHeralds c.heralds ≤ t.sum) = true
  exact decide_eq_true (by omega)

/-- the retained part (filter value 0) of the unconditioned distribution of a single input -/
theorem retained_single (eng : Fock → D) (c : Cfg) (groups : List Fock) (wf : HeraldsWF c.m c.heralds)
    (hshape : ∀ s ∈ groups, ∀ q ∈ eng s, q.1.length = c.m ∧ q.1.sum = s.sum) :
    mass (retained (cond { c with userFilter := 0 }) (full eng c.m [⟨1, groups⟩])) =
      mass (restrict (logicOk (cond c)) (fullMember eng c.m ⟨1, groups⟩)) := by
  have e : full eng c.m [⟨1, groups⟩] = scale 1 (fullMember eng c.m ⟨1, groups⟩) ++ [] := rfl
  rw [e, List.append_nil, retained, restrict_scale, mass_scale, one_mul]
  congr 1
  apply restrict_congr
  intro p hp
  have hl := (fullMember_keys eng c.m ⟨1, groups⟩ hshape p hp).1
  have hlo : logicOk (cond { c with userFilter := 0 }) p.1 = logicOk (cond c) p.1 := rfl
  rw [hlo]
  by_cases hL : logicOk (cond c) p.1 = true
  · have hh : heraldsOk c.heralds p.1 = true := by
      simp only [logicOk, cond, Bool.and_eq_true] at hL
      exact hL.1
    rw [physOk_of_heraldsOk c wf p.1 hl hh, Bool.true_and]
  · have hL' : logicOk (cond c) p.1 = false := by simpa using hL
    rw [hL', Bool.and_false]

/-! ### the vacuum through the Fock-space engine -/

theorem allStates_zero : ∀ m : ℕ, allStates m 0 = [zeros m]
  | 0 => rfl
  | m + 1 => by
    have ih := allStates_zero m
    simp only [allStates, zeros] at ih ⊢
    simp [ih, List.replicate_succ]

theorem eq_zeros_of_sum_zero : ∀ (s : Fock), s.sum = 0 → s = zeros s.length
  | [], _ => rfl
  | a :: r, h => by
    simp only [List.sum_cons] at h
    have ha : a = 0 := by omega
    have ih := eq_zeros_of_sum_zero r (by omega)
    subst ha
    simp only [zeros, List.length_cons, List.replicate_succ] at ih ⊢
    rw [← ih]

/-- the Fock-space engine sends the vacuum to the vacuum with probability one, for any matrix: the hypothesis
`hvac` of the `evolve` theorems holds for `probsFock` -/
theorem probsFock_vacuum {m : ℕ} (U : Matrix (Fin m) (Fin m) GQ) (s : Fock) (hl : s.length = m) (h0 : s.sum = 0) :
    probsFock U s = [(s, 1)] := by
  have hs : s = zeros m := by rw [← hl]; exact eq_zeros_of_sum_zero s h0
  have hz : (zeros m).sum = 0 := zeros_sum m
  simp only [probsFock, h0, allStates_zero, List.map_cons, List.map_nil]
  rw [← hs]
  simp [prob, PM.C02.pamp_vacuum U s s h0 h0, PM.C02.prodFact_of_sum_zero s h0, GQ.normSq]

end PM.C04
