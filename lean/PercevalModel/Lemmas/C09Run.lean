/-
  C09 (extension) — lemmas about `Model/C09Run.lean`:
    * association lists,
    * the pooled provider refines the lazy provider on the re-ordered streams (simulation),
    * the re-ordering is a value-independent permutation of a prefix of every stream,
    * the loop as a fold over the detected states of its shots.
-/
import PercevalModel.Model.C09Run
import Mathlib.Data.List.Perm.Basic
import Mathlib.Tactic.Ring

set_option linter.unusedSimpArgs false
set_option linter.unusedVariables false

namespace PM.C09

/-! ### association lists -/

theorem findKey_aset_same {V : Type} (k : Fock) (v : V) (l : AL V) : findKey k (aset k v l) = some v := by
  induction l with
  | nil => simp [aset, findKey]
  | cons a t ih =>
    obtain ⟨k', v'⟩ := a
    by_cases h : k' = k
    · simp [aset, h, findKey]
    · simp [aset, h, findKey, ih]

theorem findKey_aset_ne {V : Type} (k k' : Fock) (v : V) (l : AL V) (h : k' ≠ k) :
    findKey k' (aset k v l) = findKey k' l := by
  induction l with
  | nil => simp [aset, findKey, Ne.symm h]
  | cons a t ih =>
    obtain ⟨k'', v''⟩ := a
    by_cases h2 : k'' = k
    · subst h2
      simp [aset, findKey, Ne.symm h]
    · by_cases h3 : k'' = k'
      · subst h3
        simp [aset, h2, findKey]
      · simp [aset, h2, findKey, h3, ih]

theorem aget_aset_same {V : Type} (k : Fock) (v : V) (l : AL V) : aget k (aset k v l) = some v :=
  findKey_aset_same k v l

theorem aget_aset_ne {V : Type} (k k' : Fock) (v : V) (l : AL V) (h : k' ≠ k) :
    aget k' (aset k v l) = aget k' l := findKey_aset_ne k k' v l h

theorem agetD_aset_same {V : Type} (k : Fock) (v d : V) (l : AL V) : agetD k (aset k v l) d = v := by
  simp [agetD, findKey_aset_same]

theorem agetD_aset_ne {V : Type} (k k' : Fock) (v d : V) (l : AL V) (h : k' ≠ k) :
    agetD k' (aset k v l) d = agetD k' l d := by
  simp [agetD, findKey_aset_ne k k' v l h]

/-! ### the re-ordering -/

theorem reorder_eq (w : Option Nat) (s : List Fock) :
    reorder w s =
      if min (w.getD minS) maxS = 0 ∨ s.length < min (w.getD minS) maxS then []
      else (s.take (min (w.getD minS) maxS)).reverse ++
        reorder (some (grow (w.getD minS))) (s.drop (min (w.getD minS) maxS)) := by
  rw [reorder]
  simp only [dite_eq_ite]

/-- the re-ordering does not look at the values: it commutes with every relabelling of the draws -/
theorem reorder_map (g : Fock → Fock) (s : List Fock) : ∀ w, reorder w (s.map g) = (reorder w s).map g := by
  induction hn : s.length using Nat.strong_induction_on generalizing s with
  | _ n ih =>
    intro w
    rw [reorder_eq w (s.map g), reorder_eq w s]
    simp only [List.length_map]
    by_cases hc : min (w.getD minS) maxS = 0 ∨ s.length < min (w.getD minS) maxS
    · rw [if_pos hc, if_pos hc]; rfl
    · rw [if_neg hc, if_neg hc]
      simp only [List.map_append, List.map_reverse, List.map_take]
      congr 1
      rw [← List.map_drop]
      have hlt : (s.drop (min (w.getD minS) maxS)).length < n := by
        simp only [List.length_drop]
        omega
      exact ih _ hlt _ rfl _

/-- the re-ordering hands out a permutation of a prefix of the stream: no draw twice, none invented -/
theorem reorder_perm (s : List Fock) : ∀ w, (reorder w s).Perm (s.take (reorder w s).length) := by
  induction hn : s.length using Nat.strong_induction_on generalizing s with
  | _ n ih =>
    intro w
    rw [reorder_eq w s]
    by_cases hc : min (w.getD minS) maxS = 0 ∨ s.length < min (w.getD minS) maxS
    · rw [if_pos hc]; simp
    · rw [if_neg hc]
      have hlt : (s.drop (min (w.getD minS) maxS)).length < n := by
        simp only [List.length_drop]
        omega
      have h := ih _ hlt (s.drop (min (w.getD minS) maxS)) rfl (some (grow (w.getD minS)))
      set k := min (w.getD minS) maxS with hk
      set r := reorder (some (grow (w.getD minS))) (s.drop k) with hr
      have hlen : ((s.take k).reverse ++ r).length = k + r.length := by
        simp only [List.length_append, List.length_reverse, List.length_take]
        omega
      rw [hlen]
      have hsplit : s.take (k + r.length) = s.take k ++ (s.drop k).take r.length := by
        rw [List.take_add]
      rw [hsplit]
      exact List.Perm.append (List.reverse_perm _) h

/-- the number of draws handed out depends on the length of the stream only -/
theorem reorder_length (s s' : List Fock) (h : s.length = s'.length) :
    ∀ w, (reorder w s).length = (reorder w s').length := by
  induction hn : s.length using Nat.strong_induction_on generalizing s s' with
  | _ n ih =>
    intro w
    rw [reorder_eq w s, reorder_eq w s', ← h]
    by_cases hc : min (w.getD minS) maxS = 0 ∨ s.length < min (w.getD minS) maxS
    · rw [if_pos hc, if_pos hc]
    · rw [if_neg hc, if_neg hc]
      simp only [List.length_append, List.length_reverse, List.length_take]
      have hlt : (s.drop (min (w.getD minS) maxS)).length < n := by
        simp only [List.length_drop]
        omega
      have := ih _ hlt (s.drop (min (w.getD minS) maxS)) (s'.drop (min (w.getD minS) maxS))
        (by simp [List.length_drop, h]) rfl (some (grow (w.getD minS)))
      rw [this, h]

/-! ### the pooled provider refines the lazy one -/

/-- the lazy streams `q` are what the pooled provider `p` will hand out -/
def Sim (p : Prov) (q : Fock → List Fock) : Prop := ∀ k, q k = lazyOf p k

theorem sim_lazyOf (p : Prov) : Sim p (lazyOf p) := fun _ => rfl

theorem sfPool_sim (p : Prov) (q : Fock → List Fock) (k v : Fock) (p' : Prov)
    (hR : Sim p q) (h : sfPool p k = .ok (v, p')) :
    ∃ q', sfLazy q k = .ok (v, q') ∧ Sim p' q' := by
  unfold sfPool at h
  have hq := hR k
  unfold lazyOf at hq
  cases hpool : agetD k p.pools [] with
  | cons x xs =>
    rw [hpool] at h hq
    simp only [Except.ok.injEq, Prod.mk.injEq] at h
    obtain ⟨hv, hp'⟩ := h
    subst hv
    refine ⟨fun k' => if k' = k then xs ++ reorder (aget k p.weights) (agetD k p.streams []) else q k', ?_, ?_⟩
    · simp [sfLazy, hq]
    · intro k'
      subst hp'
      by_cases hk : k' = k
      · subst hk
        simp [lazyOf, agetD_aset_same]
      · simp only [hk, ↓reduceIte, lazyOf]
        rw [agetD_aset_ne _ _ _ _ _ hk]
        exact hR k'
  | nil =>
    rw [hpool] at h hq
    simp only at h
    set w := (aget k p.weights).getD minS with hw
    set s := agetD k p.streams [] with hs
    by_cases hlen : s.length < min w maxS
    · simp [hlen] at h
    · simp only [hlen, ↓reduceIte] at h
      cases hrev : (List.take (min w maxS) s).reverse with
      | nil => rw [hrev] at h; simp at h
      | cons x xs =>
        rw [hrev] at h
        simp only [Except.ok.injEq, Prod.mk.injEq] at h
        obtain ⟨hv, hp'⟩ := h
        subst hv
        have hn0 : min w maxS ≠ 0 := by
          intro h0
          rw [h0] at hrev
          simp at hrev
        have hre : reorder (aget k p.weights) s =
            (x :: xs) ++ reorder (some (grow w)) (s.drop (min w maxS)) := by
          rw [reorder_eq]
          have : ¬ (min ((aget k p.weights).getD minS) maxS = 0 ∨
              s.length < min ((aget k p.weights).getD minS) maxS) := by
            rw [← hw]
            intro hor
            rcases hor with h0 | h1
            · exact hn0 h0
            · exact hlen h1
          rw [if_neg this, ← hw, hrev]
        refine ⟨fun k' => if k' = k then xs ++ reorder (some (grow w)) (s.drop (min w maxS)) else q k', ?_, ?_⟩
        · simp [sfLazy, hq, hre]
        · intro k'
          subst hp'
          by_cases hk : k' = k
          · subst hk
            simp [lazyOf, agetD_aset_same, aget_aset_same]
          · simp only [hk, ↓reduceIte, lazyOf]
            rw [agetD_aset_ne _ _ _ _ _ hk, agetD_aset_ne _ _ _ _ _ hk, aget_aset_ne _ _ _ _ hk]
            exact hR k'

/-- generic simulation: two providers related step by step give the same run -/
theorem sampleAll_sim {P Q : Type} (R : P → Q → Prop)
    (sf₁ : P → Fock → Except String (Fock × P)) (sf₂ : Q → Fock → Except String (Fock × Q))
    (hstep : ∀ p q k v p', R p q → sf₁ p k = .ok (v, p') → ∃ q', sf₂ q k = .ok (v, q') ∧ R p' q') :
    ∀ (ks : List Fock) (p : P) (q : Q) (vs : List Fock) (p' : P), R p q →
      sampleAll sf₁ p ks = .ok (vs, p') → ∃ q', sampleAll sf₂ q ks = .ok (vs, q') ∧ R p' q' := by
  intro ks
  induction ks with
  | nil =>
    intro p q vs p' hR h
    simp only [sampleAll, Except.ok.injEq, Prod.mk.injEq] at h
    obtain ⟨rfl, rfl⟩ := h
    exact ⟨q, rfl, hR⟩
  | cons k ks ih =>
    intro p q vs p' hR h
    simp only [sampleAll] at h
    cases h1 : sf₁ p k with
    | error e => rw [h1] at h; simp at h
    | ok r =>
      obtain ⟨v, p1⟩ := r
      rw [h1] at h
      simp only at h
      cases h2 : sampleAll sf₁ p1 ks with
      | error e => rw [h2] at h; simp at h
      | ok r2 =>
        obtain ⟨vs2, p2⟩ := r2
        rw [h2] at h
        simp only [Except.ok.injEq, Prod.mk.injEq] at h
        obtain ⟨rfl, rfl⟩ := h
        obtain ⟨q1, hq1, hR1⟩ := hstep p q k v p1 hR h1
        obtain ⟨q2, hq2, hR2⟩ := ih p1 q1 vs2 p2 hR1 h2
        exact ⟨q2, by simp [sampleAll, hq1, hq2], hR2⟩

theorem shotG_sim {P Q : Type} (R : P → Q → Prop)
    (sf₁ : P → Fock → Except String (Fock × P)) (sf₂ : Q → Fock → Except String (Fock × Q))
    (hstep : ∀ p q k v p', R p q → sf₁ p k = .ok (v, p') → ∃ q', sf₂ q k = .ok (v, q') ∧ R p' q')
    (c : SelCfg) (p : P) (q : Q) (s : Core) (inp : InDraw) (rest : List InDraw) (p' : P) (s' : Core)
    (hR : R p q) (h : shotG sf₁ c p s inp rest = .ok (p', s')) :
    ∃ q', shotG sf₂ c q s inp rest = .ok (q', s') ∧ R p' q' := by
  unfold shotG at h
  cases h1 : sampleAll sf₁ p inp with
  | error e => rw [h1] at h; simp at h
  | ok r =>
    obtain ⟨vs, p1⟩ := r
    obtain ⟨q1, hq1, hR1⟩ := sampleAll_sim R sf₁ sf₂ hstep inp p q vs p1 hR h1
    rw [h1] at h
    simp only at h
    unfold shotG
    rw [hq1]
    simp only
    cases hm : mergeAll vs with
    | none => rw [hm] at h; simp at h
    | some st0 =>
      rw [hm] at h
      simp only at h ⊢
      cases hd : detect c st0 s.det with
      | error e => rw [hd] at h; simp at h
      | ok r =>
        obtain ⟨st, d⟩ := r
        rw [hd] at h
        simp only at h ⊢
        cases ho : shotOutcome true c.filter c.heralds (c.psf st) st <;> rw [ho] at h <;>
          simp only [Except.ok.injEq, Prod.mk.injEq] at h ⊢ <;> obtain ⟨rfl, rfl⟩ := h <;>
          exact ⟨q1, ⟨rfl, rfl⟩, hR1⟩

theorem loopG_sim {P Q : Type} (R : P → Q → Prop)
    (sf₁ : P → Fock → Except String (Fock × P)) (sf₂ : Q → Fock → Except String (Fock × Q))
    (hstep : ∀ p q k v p', R p q → sf₁ p k = .ok (v, p') → ∃ q', sf₂ q k = .ok (v, q') ∧ R p' q')
    (c : SelCfg) (ms : Nat) (sh : Option Nat) (ge : Option String) :
    ∀ (fuel : Nat) (p : P) (q : Q) (s : Core) (p' : P) (s' : Core), R p q →
      loopG sf₁ c ms sh ge fuel p s = .ok (p', s') →
      ∃ q', loopG sf₂ c ms sh ge fuel q s = .ok (q', s') ∧ R p' q' := by
  intro fuel
  induction fuel with
  | zero => intro p q s p' s' _ h; simp [loopG] at h
  | succ fuel ih =>
    intro p q s p' s' hR h
    unfold loopG at h ⊢
    by_cases hc : (!condR ms sh s) = true
    · simp only [hc, ↓reduceIte, Except.ok.injEq, Prod.mk.injEq] at h ⊢
      obtain ⟨rfl, rfl⟩ := h
      exact ⟨q, ⟨rfl, rfl⟩, hR⟩
    · simp only [hc, Bool.false_eq_true, ↓reduceIte] at h ⊢
      obtain ⟨out, seen, shots, notSel, notSelPhys, batch, gens, asked, det⟩ := s
      cases batch with
      | cons inp rest =>
        simp only at h ⊢
        cases h1 : shotG sf₁ c p ⟨out, seen, shots, notSel, notSelPhys, inp :: rest, gens, asked, det⟩ inp rest with
        | error e => rw [h1] at h; simp at h
        | ok r =>
          obtain ⟨p1, s1⟩ := r
          rw [h1] at h
          simp only at h
          obtain ⟨q1, hq1, hR1⟩ := shotG_sim R sf₁ sf₂ hstep c p q _ inp rest p1 s1 hR h1
          rw [hq1]
          exact ih p1 q1 s1 p' s' hR1 h
      | nil =>
        simp only at h ⊢
        cases ge with
        | some e => simp at h
        | none =>
          cases gens with
          | nil => simp at h
          | cons b gs =>
            simp only at h ⊢
            cases b with
            | nil => simp at h
            | cons inp rest =>
              simp only at h ⊢
              cases h1 : shotG sf₁ c p ⟨out, seen, shots, notSel, notSelPhys, [], gs,
                  nbGenR ms sh ⟨out, seen, shots, notSel, notSelPhys, [], (inp :: rest) :: gs, asked, det⟩ :: asked,
                  det⟩ inp rest with
              | error e => rw [h1] at h; simp at h
              | ok r =>
                obtain ⟨p1, s1⟩ := r
                rw [h1] at h
                simp only at h
                obtain ⟨q1, hq1, hR1⟩ := shotG_sim R sf₁ sf₂ hstep c p q _ inp rest p1 s1 hR h1
                rw [hq1]
                exact ih p1 q1 s1 p' s' hR1 h

/-! ### the loop as a fold over the detected states of its shots -/

/-- what a shot appends, if anything -/
def selOf (c : SelCfg) (st : Fock) : Option Fock :=
  match shotOutcome true c.filter c.heralds (c.psf st) st with
  | .sel => some (emitted c.heralds c.keep st)
  | _ => none

def isOutcome (c : SelCfg) (o : Outcome) (st : Fock) : Bool :=
  decide (shotOutcome true c.filter c.heralds (c.psf st) st = o)

/-- accounting invariant: the counters are functions of the list of detected states -/
structure Acc (c : SelCfg) (ms : Nat) (sh : Option Nat) (s : Core) : Prop where
  out_eq : s.out = s.seen.filterMap (selOf c)
  shots_eq : s.shots = s.seen.length
  notSel_eq : s.notSel = (s.seen.filter (isOutcome c .logic)).length
  phys_eq : s.notSelPhys = (s.seen.filter (isOutcome c .phys)).length
  out_le : s.out.length ≤ ms
  shots_le : ∀ k, sh = some k → s.shots ≤ k

theorem condR_true_iff (ms : Nat) (sh : Option Nat) (s : Core) :
    condR ms sh s = true ↔ s.out.length < ms ∧ ∀ k, sh = some k → s.shots < k := by
  unfold condR
  cases sh with
  | none => simp
  | some k => simp

theorem shotG_acc {P : Type} (sf : P → Fock → Except String (Fock × P)) (c : SelCfg) (ms : Nat) (sh : Option Nat)
    (p : P) (s : Core) (inp : InDraw) (rest : List InDraw) (p' : P) (s' : Core)
    (hA : Acc c ms sh s) (hc : condR ms sh s = true) (h : shotG sf c p s inp rest = .ok (p', s')) :
    Acc c ms sh s' ∧ s'.gens = s.gens ∧ s'.asked = s.asked := by
  obtain ⟨h1, h2⟩ := (condR_true_iff ms sh s).1 hc
  obtain ⟨a1, a2, a3, a4, a5, a6⟩ := hA
  unfold shotG at h
  cases hs : sampleAll sf p inp with
  | error e => rw [hs] at h; simp at h
  | ok r =>
    obtain ⟨vs, p1⟩ := r
    rw [hs] at h
    simp only at h
    cases hm : mergeAll vs with
    | none => rw [hm] at h; simp at h
    | some st0 =>
      rw [hm] at h
      simp only at h
      cases hd : detect c st0 s.det with
      | error e => rw [hd] at h; simp at h
      | ok r =>
        obtain ⟨st, d⟩ := r
        rw [hd] at h
        simp only at h
        cases ho : shotOutcome true c.filter c.heralds (c.psf st) st <;> rw [ho] at h <;>
          simp only [Except.ok.injEq, Prod.mk.injEq] at h <;> obtain ⟨_, rfl⟩ := h <;>
          refine ⟨⟨?_, ?_, ?_, ?_, ?_, ?_⟩, rfl, rfl⟩ <;>
          simp only [List.filterMap_cons, List.filter_cons, selOf, isOutcome, ho, List.length_cons,
            decide_true, decide_false, ↓reduceIte, reduceCtorEq, Bool.false_eq_true] <;>
          first
            | omega
            | (intro k hk; have := h2 k hk; omega)
            | (rw [a1])

theorem loopG_acc {P : Type} (sf : P → Fock → Except String (Fock × P)) (c : SelCfg) (ms : Nat) (sh : Option Nat)
    (ge : Option String) :
    ∀ (fuel : Nat) (p : P) (s : Core) (p' : P) (s' : Core), Acc c ms sh s →
      loopG sf c ms sh ge fuel p s = .ok (p', s') → Acc c ms sh s' ∧ condR ms sh s' = false := by
  intro fuel
  induction fuel with
  | zero => intro p s p' s' _ h; simp [loopG] at h
  | succ fuel ih =>
    intro p s p' s' hA h
    unfold loopG at h
    by_cases hc : condR ms sh s = true
    · simp only [hc, Bool.not_true, Bool.false_eq_true, ↓reduceIte] at h
      obtain ⟨out, seen, shots, notSel, notSelPhys, batch, gens, asked, det⟩ := s
      cases batch with
      | cons inp rest =>
        simp only at h
        cases h1 : shotG sf c p ⟨out, seen, shots, notSel, notSelPhys, inp :: rest, gens, asked, det⟩ inp rest with
        | error e => rw [h1] at h; simp at h
        | ok r =>
          obtain ⟨p1, s1⟩ := r
          rw [h1] at h
          exact ih p1 s1 p' s' (shotG_acc sf c ms sh p _ inp rest p1 s1 hA hc h1).1 h
      | nil =>
        simp only at h
        cases ge with
        | some e => simp at h
        | none =>
          cases gens with
          | nil => simp at h
          | cons b gs =>
            simp only at h
            cases b with
            | nil => simp at h
            | cons inp rest =>
              simp only at h
              cases h1 : shotG sf c p ⟨out, seen, shots, notSel, notSelPhys, [], gs,
                  nbGenR ms sh ⟨out, seen, shots, notSel, notSelPhys, [], (inp :: rest) :: gs, asked, det⟩ :: asked,
                  det⟩ inp rest with
              | error e => rw [h1] at h; simp at h
              | ok r =>
                obtain ⟨p1, s1⟩ := r
                rw [h1] at h
                have hA' : Acc c ms sh ⟨out, seen, shots, notSel, notSelPhys, [], gs,
                    nbGenR ms sh ⟨out, seen, shots, notSel, notSelPhys, [], (inp :: rest) :: gs, asked, det⟩ :: asked,
                    det⟩ := by
                  obtain ⟨a1, a2, a3, a4, a5, a6⟩ := hA
                  exact ⟨a1, a2, a3, a4, a5, a6⟩
                have hc' : condR ms sh ⟨out, seen, shots, notSel, notSelPhys, [], gs,
                    nbGenR ms sh ⟨out, seen, shots, notSel, notSelPhys, [], (inp :: rest) :: gs, asked, det⟩ :: asked,
                    det⟩ = true := by
                  simpa [condR] using hc
                exact ih p1 s1 p' s' (shotG_acc sf c ms sh p _ inp rest p1 s1 hA' hc' h1).1 h
    · have hcf : condR ms sh s = false := by simpa using hc
      simp only [hcf, Bool.not_false, ↓reduceIte, Except.ok.injEq, Prod.mk.injEq] at h
      obtain ⟨_, rfl⟩ := h
      exact ⟨hA, hcf⟩

end PM.C09
