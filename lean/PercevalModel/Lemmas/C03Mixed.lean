/-
  Lemmas for C03, section 12 of Props/C03.lean: states mixing annotated and un-annotated photons.
-/
import PercevalModel.Model.C03Mixed
import PercevalModel.Lemmas.C03

namespace PM.C03
open PM.Fock PM.Dist PM.SimSpec

theorem mem_tagsOf (st : AState) (t : ℕ) : t ∈ tagsOf st ↔ t ∈ st.flatten := by
  simp [tagsOf]

theorem tagsOf_nodup (st : AState) : (tagsOf st).Nodup :=
  List.nodup_reverse.mpr (List.nodup_dedup _)

theorem mem_nzTags (st : AState) (t : ℕ) : t ∈ nzTags st ↔ t ∈ st.flatten ∧ t ≠ 0 := by
  simp [nzTags, mem_tagsOf]

theorem nzTags_nodup (st : AState) : (nzTags st).Nodup := (tagsOf_nodup st).filter _

theorem mem_flatten_of_mem {st : AState} {mode : List ℕ} {t : ℕ} (hm : mode ∈ st) (ht : t ∈ mode) :
    t ∈ st.flatten := List.mem_flatten.mpr ⟨mode, hm, ht⟩

theorem flatten_allTo (l : ℕ) (st : AState) : (allTo l st).flatten = st.flatten.map fun _ => l := by
  rw [allTo, List.map_flatten]

theorem flatten_relabel (f : ℕ) (st : AState) :
    (relabel f st).flatten = st.flatten.map fun t => if t = 0 then f else t := by
  rw [relabel, List.map_flatten]

theorem occ_allTo (l : ℕ) (st : AState) : occ (allTo l st) = occ st := by
  simp [occ, allTo, List.map_map, Function.comp_def]

theorem occ_relabel (f : ℕ) (st : AState) : occ (relabel f st) = occ st := by
  simp [occ, relabel, List.map_map, Function.comp_def]

/-- a state all of whose photons carry one label is one group: the whole state -/
theorem separate_of_const (st : AState) (l : ℕ) (h : ∀ t ∈ st.flatten, t = l) : separate st = [occ st] := by
  unfold separate
  by_cases h0 : tagsOf st = []
  · simp [h0]
  · simp only [h0, ↓reduceIte]
    have hall : ∀ t ∈ tagsOf st, t = l := fun t ht => h t ((mem_tagsOf st t).mp ht)
    have hnd := tagsOf_nodup st
    have htl : tagsOf st = [l] := by
      match hts : tagsOf st with
      | [] => exact absurd hts h0
      | [a] => rw [hts] at hall; simp [hall a (by simp)]
      | a :: b :: r =>
        rw [hts] at hall hnd
        have ha := hall a (by simp)
        have hb := hall b (by simp)
        simp [ha, hb] at hnd
    rw [htl]
    simp only [List.map_cons, List.map_nil, groupOf, occ, List.cons.injEq, and_true]
    apply List.map_congr_left
    intro mode hm
    rw [List.count_eq_length]
    intro t ht
    exact (h t (mem_flatten_of_mem hm ht)).symm

theorem count_relabel_first (f : ℕ) (hf : f ≠ 0) (mode : List ℕ) :
    (mode.map fun t => if t = 0 then f else t).count f = mode.count f + mode.count 0 := by
  induction mode with
  | nil => rfl
  | cons a r ih =>
    simp only [List.map_cons, List.count_cons, ih]
    by_cases h0 : a = 0
    · subst h0
      have : (0 : ℕ) ≠ f := fun e => hf e.symm
      simp [this]
      omega
    · by_cases hfa : a = f
      · subst hfa; simp [h0]; omega
      · simp [h0, hfa]

theorem count_relabel_other (f x : ℕ) (hx0 : x ≠ 0) (hxf : x ≠ f) (mode : List ℕ) :
    (mode.map fun t => if t = 0 then f else t).count x = mode.count x := by
  induction mode with
  | nil => rfl
  | cons a r ih =>
    simp only [List.map_cons, List.count_cons, ih]
    by_cases h0 : a = 0
    · subst h0
      have h1 : ¬ (f = x) := fun e => hxf e.symm
      have h2 : ¬ ((0 : ℕ) = x) := fun e => hx0 e.symm
      simp [h1, h2]
    · simp [h0]

theorem fadd_map_map (st : AState) (p q : List ℕ → ℕ) :
    fadd (st.map p) (st.map q) = st.map fun mode => p mode + q mode := by
  induction st with
  | nil => rfl
  | cons a r ih => simp [fadd, ih]

theorem groupOf_relabel_first (f : ℕ) (hf : f ≠ 0) (st : AState) :
    groupOf f (relabel f st) = fadd (groupOf f st) (groupOf 0 st) := by
  simp only [groupOf, relabel, List.map_map, fadd_map_map]
  apply List.map_congr_left
  intro mode _
  exact count_relabel_first f hf mode

theorem groupOf_relabel_other (f x : ℕ) (hx0 : x ≠ 0) (hxf : x ≠ f) (st : AState) :
    groupOf x (relabel f st) = groupOf x st := by
  simp only [groupOf, relabel, List.map_map]
  apply List.map_congr_left
  intro mode _
  exact count_relabel_other f x hx0 hxf mode

/-- after the relabelling the tags present are exactly the annotations of the state -/
theorem tagsOf_relabel_perm (f : ℕ) (st : AState) (hf : f ∈ nzTags st) :
    (tagsOf (relabel f st)).Perm (nzTags st) := by
  rw [List.perm_ext_iff_of_nodup (tagsOf_nodup _) (nzTags_nodup _)]
  intro t
  have hf' := (mem_nzTags st f).mp hf
  rw [mem_tagsOf, flatten_relabel, mem_nzTags, List.mem_map]
  constructor
  · rintro ⟨s, hs, rfl⟩
    by_cases h0 : s = 0
    · simp [h0, hf'.1, hf'.2]
    · simp [h0, hs]
  · rintro ⟨ht, h0⟩
    exact ⟨t, ht, by simp [h0]⟩

/-- every photon is annotated with `f` or un-annotated: the whole state is the two counts together -/
theorem occ_eq_two (f : ℕ) (hf : f ≠ 0) (st : AState) (h : ∀ t ∈ st.flatten, t = 0 ∨ t = f) :
    occ st = fadd (groupOf f st) (groupOf 0 st) := by
  simp only [groupOf, occ, fadd_map_map]
  apply List.map_congr_left
  intro mode hm
  have hmode : ∀ t ∈ mode, t = 0 ∨ t = f := fun t ht => h t (mem_flatten_of_mem hm ht)
  clear hm h
  induction mode with
  | nil => rfl
  | cons a r ih =>
    have hr := ih fun t ht => hmode t (List.mem_cons_of_mem _ ht)
    simp only [List.length_cons, List.count_cons, hr]
    rcases hmode a (by simp) with h0 | h1
    · subst h0
      have : ¬ ((0 : ℕ) = f) := fun e => hf e.symm
      simp [this]; omega
    · subst h1; simp [hf]; omega

end PM.C03
