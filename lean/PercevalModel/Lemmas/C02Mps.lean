/-
  C02 helper lemmas: the closed formulas of the MPS transition tensors are the permanent.
  Route: `pamp = ∏t! · slosCoef` (`Lemmas/C02.lean`); on two modes the SLOS coefficient of
  `x₀^{m1} x₁^{m2}` in `∏ₖ (U[0,cₖ] x₀ + U[1,cₖ] x₁)` is the coefficient of `X^{m1}` in the
  one-variable polynomial `∏ₖ (U[0,cₖ] X + U[1,cₖ])`; for the input `|n1,n2>` that polynomial is
  `(U₀₀X+U₁₀)^{n1} (U₀₁X+U₁₁)^{n2}` and its coefficients are the double binomial sum of the code.
-/
import PercevalModel.Model.C02
import PercevalModel.Lemmas.C02
import Mathlib.Algebra.Polynomial.Coeff
import Mathlib.Algebra.Polynomial.Degree.SmallDegree
import Mathlib.Algebra.Polynomial.BigOperators
import Mathlib.Data.Nat.Choose.Sum

open Matrix Polynomial

namespace PM.C02
open PM.Fock

variable {R : Type*} [CommRing R]

/-- the specification amplitude is the rescaled SLOS coefficient (`Props/C02.lean` restates this
as `slosPamp_eq_pamp`) -/
theorem pamp_eq_slosPamp' {m : ℕ} (U : Matrix (Fin m) (Fin m) R) (s t : List ℕ)
    (ht : t.length = m) : pamp U s t = slosPamp U s t := by
  unfold slosPamp
  by_cases h : s.sum = t.sum
  · rw [if_pos h, mul_comm,
      slosCoef_eq_permRec U (expand s) t ht (by rw [expand_length, h]),
      permRec_eq_permanent _ _ _ (by rw [expand_length, expand_length, h])]
    unfold pamp
    rw [if_pos h, ← permanent_submatrix_equiv_self (finCongr (expand_length s).symm)]
    rfl
  · rw [if_neg h]; simp [pamp, h]

/-- the linear form of input mode `c` on two modes, dehomogenised (`x₁ = 1`) -/
noncomputable def lin2 (U : Matrix (Fin 2) (Fin 2) R) (c : ℕ) : R[X] :=
  C (entry U 0 c) * X + C (entry U 1 c)

noncomputable def poly2 (U : Matrix (Fin 2) (Fin 2) R) (cs : List ℕ) : R[X] :=
  (cs.map (lin2 U)).prod

theorem natDegree_poly2_le (U : Matrix (Fin 2) (Fin 2) R) (cs : List ℕ) :
    (poly2 U cs).natDegree ≤ cs.length := by
  induction cs with
  | nil => simp [poly2]
  | cons c cs ih =>
    have h : poly2 U (c :: cs) = lin2 U c * poly2 U cs := by simp [poly2]
    rw [h, List.length_cons, Nat.add_comm]
    exact natDegree_mul_le_of_le natDegree_linear_le ih

theorem coeff_lin2_mul (U : Matrix (Fin 2) (Fin 2) R) (c : ℕ) (P : R[X]) (k : ℕ) :
    (lin2 U c * P).coeff k =
      (if 0 < k then P.coeff (k - 1) * entry U 0 c else 0) + P.coeff k * entry U 1 c := by
  unfold lin2
  rw [add_mul, coeff_add, mul_assoc, coeff_C_mul, coeff_C_mul]
  cases k with
  | zero => simp [mul_comm]
  | succ k => simp [coeff_X_mul]; ring

theorem slosCoef_two_step (U : Matrix (Fin 2) (Fin 2) R) (c : ℕ) (cs : List ℕ) (m1 m2 : ℕ) :
    slosCoef U (c :: cs) [m1, m2] =
      (if 0 < m1 then slosCoef U cs [m1 - 1, m2] * entry U 0 c else 0) +
        (if 0 < m2 then slosCoef U cs [m1, m2 - 1] * entry U 1 c else 0) := by
  rw [slosCoef]
  simp only [List.range_succ, List.range_zero, List.nil_append, List.map_cons, List.map_nil,
    List.sum_cons, List.sum_nil, add_zero, List.cons_append, decr_eq]
  have h0 : [m1, m2].getD 0 0 = m1 := rfl
  have h1 : [m1, m2].getD 1 0 = m2 := rfl
  have d0 : dec [m1, m2] 0 = [m1 - 1, m2] := rfl
  have d1 : dec [m1, m2] 1 = [m1, m2 - 1] := rfl
  rw [h0, h1, d0, d1]
  by_cases hm1 : 0 < m1 <;> by_cases hm2 : 0 < m2 <;> simp only [hm1, hm2, ↓reduceIte]

/-- the SLOS coefficient on two modes is a polynomial coefficient -/
theorem slosCoef_two (U : Matrix (Fin 2) (Fin 2) R) : ∀ (cs : List ℕ) (m1 m2 : ℕ),
    slosCoef U cs [m1, m2] = if m1 + m2 = cs.length then (poly2 U cs).coeff m1 else 0
  | [], m1, m2 => by
    simp only [slosCoef, poly2, List.map_nil, List.prod_nil, List.length_nil, coeff_one]
    rcases m1 with _ | m1 <;> rcases m2 with _ | m2 <;> simp
  | c :: cs, m1, m2 => by
    have hP : poly2 U (c :: cs) = lin2 U c * poly2 U cs := by simp [poly2]
    rw [slosCoef_two_step, hP, coeff_lin2_mul, List.length_cons]
    by_cases hsum : m1 + m2 = cs.length + 1
    · rw [if_pos hsum]
      congr 1
      · by_cases hm1 : 0 < m1
        · rw [if_pos hm1, if_pos hm1, slosCoef_two U cs (m1 - 1) m2, if_pos (by omega)]
        · rw [if_neg hm1, if_neg hm1]
      · by_cases hm2 : 0 < m2
        · rw [if_pos hm2, slosCoef_two U cs m1 (m2 - 1), if_pos (by omega)]
        · rw [if_neg hm2]
          have : (poly2 U cs).coeff m1 = 0 :=
            coeff_eq_zero_of_natDegree_lt
              (lt_of_le_of_lt (natDegree_poly2_le U cs) (by omega))
          rw [this, zero_mul]
    · rw [if_neg hsum]
      have e0 : (if 0 < m1 then slosCoef U cs [m1 - 1, m2] * entry U 0 c else 0) = 0 := by
        split_ifs with hm1
        · rw [slosCoef_two U cs (m1 - 1) m2, if_neg (by omega), zero_mul]
        · rfl
      have e1 : (if 0 < m2 then slosCoef U cs [m1, m2 - 1] * entry U 1 c else 0) = 0 := by
        split_ifs with hm2
        · rw [slosCoef_two U cs m1 (m2 - 1), if_neg (by omega), zero_mul]
        · rfl
      rw [e0, e1, add_zero]

/-- binomial coefficients of a linear form -/
theorem coeff_linear_pow (a b : R) (n k : ℕ) :
    ((C a * X + C b) ^ n).coeff k = (n.choose k : R) * (a ^ k * b ^ (n - k)) := by
  rw [add_pow, finsetSum_coeff]
  have hterm : ∀ i ∈ Finset.range (n + 1),
      ((C a * X) ^ i * C b ^ (n - i) * (n.choose i : R[X])).coeff k =
        if k = i then (n.choose i : R) * (a ^ i * b ^ (n - i)) else 0 := by
    intro i _
    have : (C a * X) ^ i * C b ^ (n - i) * (n.choose i : R[X]) =
        C ((n.choose i : R) * (a ^ i * b ^ (n - i))) * X ^ i := by
      rw [mul_pow, ← C_pow, ← C_pow, ← C_eq_natCast, C_mul, C_mul]
      ring
    rw [this, coeff_C_mul_X_pow]
  rw [Finset.sum_congr rfl hterm, Finset.sum_ite_eq]
  split_ifs with hk
  · rfl
  · have : n < k := by simpa [Finset.mem_range] using hk
    rw [Nat.choose_eq_zero_of_lt this, Nat.cast_zero, zero_mul]

theorem expand_two (n1 n2 : ℕ) :
    expand [n1, n2] = List.replicate n1 0 ++ List.replicate n2 1 := by
  simp [expand, expandFrom]

theorem poly2_expand (U : Matrix (Fin 2) (Fin 2) R) (n1 n2 : ℕ) :
    poly2 U (expand [n1, n2]) =
      (C (U 0 0) * X + C (U 1 0)) ^ n1 * (C (U 0 1) * X + C (U 1 1)) ^ n2 := by
  rw [expand_two, poly2, List.map_append, List.prod_append, List.map_replicate,
    List.map_replicate, List.prod_replicate, List.prod_replicate]
  rfl

/-- the double sum of the code is the coefficient of the product of the two binomial powers -/
theorem tm2_sum_eq_coeff (a b c d : R) (n1 n2 m1 : ℕ) :
    (∑ k1 ∈ Finset.range (n1 + 1), ∑ k2 ∈ Finset.range (n2 + 1),
      if k1 + k2 = m1 then
        (n1.choose k1 : R) * (n2.choose k2 : R) * (a ^ k1 * b ^ (n1 - k1) * c ^ k2 * d ^ (n2 - k2))
      else 0) = ((C a * X + C b) ^ n1 * (C c * X + C d) ^ n2).coeff m1 := by
  rw [coeff_mul, ← Finset.sum_product', ← Finset.sum_filter]
  symm
  rw [← Finset.sum_subset (s₁ := (Finset.range (n1 + 1) ×ˢ Finset.range (n2 + 1)).filter
    fun p => p.1 + p.2 = m1)]
  · refine Finset.sum_congr rfl fun p _ => ?_
    rw [coeff_linear_pow, coeff_linear_pow]
    ring
  · intro p hp
    simp only [Finset.mem_filter] at hp
    exact Finset.mem_antidiagonal.2 hp.2
  · intro p hp hnp
    have hsum := Finset.mem_antidiagonal.1 hp
    simp only [Finset.mem_filter, Finset.mem_product, Finset.mem_range, not_and] at hnp
    rw [coeff_linear_pow, coeff_linear_pow]
    by_cases h1 : p.1 < n1 + 1
    · have h2 : n2 < p.2 := by
        by_contra hcon
        exact hnp ⟨h1, by omega⟩ hsum
      rw [Nat.choose_eq_zero_of_lt h2, Nat.cast_zero, zero_mul, mul_zero]
    · rw [Nat.choose_eq_zero_of_lt (by omega), Nat.cast_zero, zero_mul, zero_mul]

/-- **MPS two-mode closed formula = permanent**, every photon number -/
theorem tm2_mul_eq_pamp (U : Matrix (Fin 2) (Fin 2) R) (nmax n1 n2 m1 m2 : ℕ)
    (hn : n1 + n2 ≤ nmax) :
    ((m1.factorial * m2.factorial : ℕ) : R) * tm2 U nmax n1 n2 m1 m2 =
      pamp U [n1, n2] [m1, m2] := by
  have hpf : prodFact [m1, m2] = m1.factorial * m2.factorial := by simp [prodFact]
  rw [pamp_eq_slosPamp' U _ _ rfl]
  unfold slosPamp tm2
  rw [if_pos hn]
  by_cases h : n1 + n2 = m1 + m2
  · have h' : [n1, n2].sum = [m1, m2].sum := by simpa using h
    rw [if_pos h', slosCoef_two, expand_length, if_pos (by simpa using h.symm), poly2_expand,
      ← tm2_sum_eq_coeff, hpf, mul_comm]
    congr 1
    refine Finset.sum_congr rfl fun k1 hk1 => Finset.sum_congr rfl fun k2 hk2 => ?_
    have hk1' := Finset.mem_range.1 hk1
    have hk2' := Finset.mem_range.1 hk2
    have : (k1 + k2 = m1 ∧ n1 + n2 - (k1 + k2) = m2) ↔ k1 + k2 = m1 := by
      constructor
      · exact fun hh => hh.1
      · intro hh; exact ⟨hh, by omega⟩
    simp only [this]
  · have h' : ¬ [n1, n2].sum = [m1, m2].sum := by simpa using h
    rw [if_neg h']
    have : ∀ k1 ∈ Finset.range (n1 + 1), ∀ k2 ∈ Finset.range (n2 + 1),
        ¬ (k1 + k2 = m1 ∧ n1 + n2 - (k1 + k2) = m2) := by
      intro k1 hk1 k2 hk2 hh
      have hk1' := Finset.mem_range.1 hk1
      have hk2' := Finset.mem_range.1 hk2
      omega
    rw [Finset.sum_eq_zero fun k1 hk1 => Finset.sum_eq_zero fun k2 hk2 => if_neg (this k1 hk1 k2 hk2),
      mul_zero]

/-! ### one mode -/

theorem slosCoef_one (U : Matrix (Fin 1) (Fin 1) R) : ∀ (i j : ℕ),
    slosCoef U (List.replicate i 0) [j] = if j = i then U 0 0 ^ i else 0
  | 0, j => by
    simp only [List.replicate_zero, slosCoef, pow_zero]
    rcases j with _ | j <;> simp
  | i + 1, j => by
    rw [List.replicate_succ, slosCoef]
    simp only [List.range_succ, List.range_zero, List.nil_append, List.map_cons, List.map_nil,
      List.sum_cons, List.sum_nil, add_zero, decr_eq]
    have h0 : [j].getD 0 0 = j := rfl
    have d0 : dec [j] 0 = [j - 1] := rfl
    rw [h0, d0]
    have hU : entry U 0 0 = U 0 0 := rfl
    by_cases hj : 0 < j
    · simp only [hj, ↓reduceIte]
      rw [slosCoef_one U i (j - 1), hU]
      by_cases hji : j = i + 1
      · rw [if_pos (by omega), if_pos hji, pow_succ]
      · rw [if_neg (by omega), if_neg hji, zero_mul]
    · simp only [hj, ↓reduceIte]
      rw [if_neg (by omega)]

/-- **MPS one-mode formula = permanent**: a phase shifter acts as `u^k` on the `k`-photon
component -/
theorem tm1_mul_eq_pamp (U : Matrix (Fin 1) (Fin 1) R) (d i j : ℕ) (hi : i < d) (hj : j < d) :
    ((i.factorial : ℕ) : R) * tm1 U d i j = pamp U [i] [j] := by
  rw [pamp_eq_slosPamp' U _ _ rfl]
  unfold slosPamp tm1
  have he : expand [i] = List.replicate i 0 := by simp [expand, expandFrom]
  by_cases h : i = j
  · subst h
    rw [if_pos ⟨hi, hj, rfl⟩, if_pos rfl, he, slosCoef_one, if_pos rfl]
    simp [prodFact, mul_comm]
  · have h' : ¬ [i].sum = [j].sum := by simpa using h
    rw [if_neg h', if_neg (fun hh => h hh.2.2), mul_zero]

end PM.C02
