/-
  C04 — lemmas for `Model/C04Split.lean`: `_preprocess_svd`'s photon-count split with the photon filter in front of the
  generic path.

  (A) two lists that give every outcome the same probability have the same conditioning (performances, conditioned
      probabilities);
  (B) the mixture of the photon-number sectors gives every outcome the probability the un-split mixture gives
      (C03's `mixAt_splitByN`: components of different photon number never interfere);
  (C) the two passes of `_preprocess_svd` + the generic path = the generic path (`probsSvdGen`) on the mixture of the
      sectors (`splitAll`);
  (D) the hypotheses of `condition_spec_superposed` hold for the mixture of the sectors.
-/
import PercevalModel.Model.C04Split
import PercevalModel.Lemmas.C04Generic
import PercevalModel.Lemmas.C04TrimGen
import PercevalModel.Lemmas.C03More

namespace PM.C04
open PM.Fock PM.Dist PM.SimSpec Matrix

/-! ### (A) pointwise equal distributions -/

theorem mass_restrict_congr_get {d d' : D} (h : ∀ t, get d t = get d' t) (f : Fock → Bool) :
    mass (restrict f d) = mass (restrict f d') := by
  classical
  set S : Finset Fock := (d.map (·.1)).toFinset ∪ (d'.map (·.1)).toFinset with hS
  have h1 : ∀ x ∈ d, x.1 ∈ S := fun x hx =>
    Finset.mem_union_left _ (List.mem_toFinset.2 (List.mem_map_of_mem hx))
  have h2 : ∀ x ∈ d', x.1 ∈ S := fun x hx =>
    Finset.mem_union_right _ (List.mem_toFinset.2 (List.mem_map_of_mem hx))
  rw [mass_restrict_eq_sum f d S h1, mass_restrict_eq_sum f d' S h2]
  exact Finset.sum_congr rfl fun t _ => by rw [h t]

theorem physPerf_congr_get (sc : Cond) {d d' : D} (h : ∀ t, get d t = get d' t) :
    physPerf sc d = physPerf sc d' := mass_restrict_congr_get h _

theorem retained_mass_congr_get (sc : Cond) {d d' : D} (h : ∀ t, get d t = get d' t) :
    mass (retained sc d) = mass (retained sc d') := mass_restrict_congr_get h _

theorem logicalPerf_congr_get (sc : Cond) {d d' : D} (h : ∀ t, get d t = get d' t) :
    logicalPerf sc d = logicalPerf sc d' := by
  unfold logicalPerf
  rw [physPerf_congr_get sc h, retained_mass_congr_get sc h]

theorem get_mapKeys (f : Fock → Fock) (t : Fock) : ∀ d : D,
    get (mapKeys f d) t = mass (restrict (fun k => f k == t) d)
  | [] => rfl
  | x :: r => by
    have ih := get_mapKeys f t r
    by_cases hx : (f x.1 == t) = true
    · have e1 : get (mapKeys f (x :: r)) t = x.2 + get (mapKeys f r) t := by
        simp [Dist.get, mapKeys, List.filter_cons, hx]
      have e2 : restrict (fun k => f k == t) (x :: r) = x :: restrict (fun k => f k == t) r := by
        simp [restrict, List.filter_cons, hx]
      rw [e1, e2, ih]
      simp [mass]
    · have hx' : (f x.1 == t) = false := by simpa using hx
      have e1 : get (mapKeys f (x :: r)) t = get (mapKeys f r) t := by
        simp [Dist.get, mapKeys, List.filter_cons, hx']
      have e2 : restrict (fun k => f k == t) (x :: r) = restrict (fun k => f k == t) r := by
        simp [restrict, List.filter_cons, hx']
      rw [e1, e2, ih]

theorem get_conditioned_congr (sc : Cond) {d d' : D} (h : ∀ t, get d t = get d' t) (t : Fock) :
    get (conditioned sc d) t = get (conditioned sc d') t := by
  have hk : get (mapKeys (reported sc) (retained sc d)) t = get (mapKeys (reported sc) (retained sc d')) t := by
    rw [get_mapKeys, get_mapKeys, retained, retained, restrict_restrict, restrict_restrict]
    exact mass_restrict_congr_get h _
  have hm : mass (mapKeys (reported sc) (retained sc d)) = mass (mapKeys (reported sc) (retained sc d')) := by
    rw [mass_mapKeys, mass_mapKeys]
    exact retained_mass_congr_get sc h
  unfold conditioned Dist.normalize
  rw [hm]
  by_cases h0 : mass (mapKeys (reported sc) (retained sc d')) = 0
  · rw [if_pos h0, if_pos h0, hk]
  · rw [if_neg h0, if_neg h0, get_scale, get_scale, hk]

/-! ### (B) the mixture of the sectors -/

theorem get_probsSVD {m : ℕ} (U : Matrix (Fin m) (Fin m) GQ) (ms : List GMember) (t : Fock) :
    get (probsSVD U (ms.map fun g => (g.w, g.terms))) t = PM.C03.mixAt (probsSV U) (ms.map GMember.mb) t := by
  unfold probsSVD PM.C03.mixAt
  rw [get_mix]
  simp [List.map_map, Function.comp_def, GMember.mb]

theorem map_mb_flatMap_sectorsG : ∀ l : List GMember,
    (l.flatMap sectorsG).map GMember.mb = (l.map GMember.mb).flatMap PM.C03.splitByN
  | [] => rfl
  | g :: r => by
    rw [List.flatMap_cons, List.map_append, List.map_cons, List.flatMap_cons, map_mb_flatMap_sectorsG r]
    congr 1
    unfold sectorsG
    rw [List.map_map]
    have : (GMember.mb ∘ ofMb) = id := by
      funext x
      rfl
    rw [this, List.map_id]

theorem mixAt_partition {m : ℕ} (U : Matrix (Fin m) (Fin m) GQ) (ms : List GMember) (p : GMember → Bool) (t : Fock) :
    PM.C03.mixAt (probsSV U) ((ms.filter fun g => !p g).map GMember.mb) t +
      PM.C03.mixAt (probsSV U) ((ms.filter p).map GMember.mb) t =
    PM.C03.mixAt (probsSV U) (ms.map GMember.mb) t := by
  have := sum_filter_partition (fun g : GMember => g.w * get (probsSV U g.terms) t) p ms
  simp only [PM.C03.mixAt, List.map_map, Function.comp_def, GMember.mb]
  linarith

/-- the mixture of the photon-number sectors gives every outcome the probability the mixture itself gives -/
theorem get_probsSVD_splitAll {m : ℕ} (U : Matrix (Fin m) (Fin m) GQ) (ms : List GMember) (t : Fock) :
    get (probsSVD U ((splitAll ms).map fun g => (g.w, g.terms))) t =
      get (probsSVD U (ms.map fun g => (g.w, g.terms))) t := by
  rw [get_probsSVD, get_probsSVD, splitAll, List.map_append, PM.C03.mixAt_append, map_mb_flatMap_sectorsG,
    PM.C03.mixAt_flatMap_splitByN]
  exact mixAt_partition U ms multiN t

/-! ### photon numbers of members and sectors -/

theorem le_foldl_max_init : ∀ (l : List ℕ) (a : ℕ), a ≤ l.foldl max a
  | [], _ => le_rfl
  | y :: r, a => by
    rw [List.foldl_cons]
    exact le_trans (le_max_left a y) (le_foldl_max_init r (max a y))

theorem le_foldl_max : ∀ (l : List ℕ) (a x : ℕ), x ∈ l → x ≤ l.foldl max a
  | [], _, _, h => absurd h List.not_mem_nil
  | y :: r, a, x, h => by
    rw [List.foldl_cons]
    rcases List.mem_cons.1 h with rfl | h'
    · exact le_trans (le_max_right a x) (le_foldl_max_init r (max a x))
    · exact le_foldl_max r (max a y) x h'

theorem foldl_max_const (n : ℕ) : ∀ (l : List ℕ) (a : ℕ), a ≤ n → l ≠ [] → (∀ x ∈ l, x = n) → l.foldl max a = n
  | [], _, _, h, _ => absurd rfl h
  | x :: r, a, ha, _, h => by
    have hx : x = n := h x List.mem_cons_self
    have e : max a x = n := by rw [hx]; exact max_eq_right ha
    rw [List.foldl_cons, e]
    by_cases hr : r = []
    · subst hr; rfl
    · exact foldl_max_const n r n le_rfl hr (fun y hy => h y (List.mem_cons_of_mem _ hy))

theorem termN_le_maxN (ts : List Term) (t : Term) (h : t ∈ ts) : PM.C03.termN t ≤ maxN ts :=
  le_foldl_max _ 0 _ (List.mem_map_of_mem h)

/-- every term holds `n` photons -/
def Uniform (ts : List Term) (n : ℕ) : Prop := ∀ t ∈ ts, PM.C03.termN t = n

theorem svN_of_uniform {ts : List Term} {n : ℕ} (h : Uniform ts n) (hne : ts ≠ []) : svN ts = n := by
  match ts, hne with
  | t :: _, _ => exact h t List.mem_cons_self

theorem maxN_of_uniform {ts : List Term} {n : ℕ} (h : Uniform ts n) (hne : ts ≠ []) : maxN ts = n := by
  unfold maxN
  apply foldl_max_const n _ 0 (Nat.zero_le _)
  · simpa using hne
  · intro x hx
    obtain ⟨t, ht, rfl⟩ := List.mem_map.1 hx
    exact h t ht

theorem svN_eq_maxN_of_uniform {ts : List Term} {n : ℕ} (h : Uniform ts n) : svN ts = maxN ts := by
  by_cases hne : ts = []
  · subst hne; rfl
  · rw [svN_of_uniform h hne, maxN_of_uniform h hne]

/-- a member that is not split holds one photon number -/
theorem uniform_of_not_multiN (g : GMember) (h : multiN g = false) : ∃ n, Uniform g.terms n := by
  unfold multiN PM.C03.needsSplit at h
  simp only [GMember.mb, Bool.and_eq_false_iff, bne_eq_false_iff_eq] at h
  rcases h with h | h
  · match hg : g.terms, h with
    | [t], _ =>
      refine ⟨PM.C03.termN t, ?_⟩
      intro u hu
      simp only [List.mem_singleton] at hu
      rw [hu]
  · match hp : PM.C03.photonCounts g.terms, h with
    | [n], _ =>
      refine ⟨n, ?_⟩
      intro u hu
      have : PM.C03.termN u ∈ PM.C03.photonCounts g.terms := (PM.C03.mem_photonCounts _ _).2 ⟨u, hu, rfl⟩
      rw [hp] at this
      simpa using this

/-- the sectors of a member: one per photon number that occurs -/
theorem mem_sectorsG (g s : GMember) (h : s ∈ sectorsG g) :
    ∃ n ∈ PM.C03.photonCounts g.terms,
      s = ⟨g.w * (svNorm2 (PM.C03.sector g.terms n) / svNorm2 g.terms), PM.C03.sector g.terms n⟩ := by
  unfold sectorsG at h
  obtain ⟨x, hx, rfl⟩ := List.mem_map.1 h
  obtain ⟨n, hn, rfl⟩ := PM.C03.mem_splitByN _ _ hx
  exact ⟨n, hn, rfl⟩

theorem uniform_sector (ts : List Term) (n : ℕ) : Uniform (PM.C03.sector ts n) n := by
  intro t ht
  simpa using (List.mem_filter.1 ht).2

theorem sector_ne_nil (ts : List Term) (n : ℕ) (hn : n ∈ PM.C03.photonCounts ts) : PM.C03.sector ts n ≠ [] := by
  obtain ⟨t, ht, htn⟩ := (PM.C03.mem_photonCounts ts n).1 hn
  have : t ∈ PM.C03.sector ts n := List.mem_filter.2 ⟨ht, by simpa using htn⟩
  exact List.ne_nil_of_mem this

theorem svN_eq_maxN_sector (g s : GMember) (h : s ∈ sectorsG g) : svN s.terms = maxN s.terms := by
  obtain ⟨n, _, rfl⟩ := mem_sectorsG g s h
  exact svN_eq_maxN_of_uniform (uniform_sector _ n)

/-- a sector never holds more photons than the largest component of the member -/
theorem maxN_sector_le (g s : GMember) (h : s ∈ sectorsG g) : maxN s.terms ≤ maxN g.terms := by
  obtain ⟨n, hn, rfl⟩ := mem_sectorsG g s h
  rw [maxN_of_uniform (uniform_sector _ n) (sector_ne_nil _ n hn)]
  obtain ⟨t, ht, rfl⟩ := (PM.C03.mem_photonCounts _ _).1 hn
  exact termN_le_maxN _ t ht

/-- the filter of `_probs_svd`'s bookkeeping (`AM.kept`: on `next(iter(sv.n))`) -/
def passQ (c : Cfg) (g : GMember) : Bool := decide (minFilter c ≤ svN g.terms)

theorem passQ_eq_passF_of_not_multiN (c : Cfg) (g : GMember) (h : multiN g = false) : passQ c g = passF c g := by
  obtain ⟨n, hn⟩ := uniform_of_not_multiN g h
  unfold passQ passF
  rw [svN_eq_maxN_of_uniform hn]

theorem passQ_eq_passF_sector (c : Cfg) (g s : GMember) (h : s ∈ sectorsG g) : passQ c s = passF c s := by
  unfold passQ passF
  rw [svN_eq_maxN_sector g s h]

theorem passF_sector_false (c : Cfg) (g s : GMember) (h : s ∈ sectorsG g) (hg : passF c g = false) :
    passF c s = false := by
  unfold passF at hg ⊢
  have := maxN_sector_le g s h
  simp only [decide_eq_false_iff_not, not_le] at hg ⊢
  omega

/-- the sectors' weights add up to the member's weight -/
theorem sectorsG_weights (g : GMember) (hN : svNorm2 g.terms ≠ 0) : ((sectorsG g).map (·.w)).sum = g.w := by
  unfold sectorsG
  rw [List.map_map, PM.C03.splitByN_eq, List.map_map]
  have : ((PM.C03.photonCounts g.mb.terms).map (((fun s : GMember => s.w) ∘ ofMb) ∘ fun n =>
      (⟨g.mb.w * (svNorm2 (PM.C03.sector g.mb.terms n) / svNorm2 g.mb.terms), PM.C03.sector g.mb.terms n⟩ :
        PM.C03.Member))) =
      (PM.C03.photonCounts g.terms).map fun n => g.w / svNorm2 g.terms * svNorm2 (PM.C03.sector g.terms n) := by
    apply List.map_congr_left
    intro n _
    simp only [Function.comp_apply, ofMb, GMember.mb]
    ring
  rw [this, List.sum_map_mul_left, PM.C03.svNorm2_sectors]
  field_simp

/-! ### (C) the two passes = the generic path on the mixture of the sectors -/

theorem sum_filter_ite {α : Type} (G : α → Bool) (h : α → ℚ) : ∀ l : List α,
    ((l.filter G).map h).sum = (l.map fun a => if G a then h a else 0).sum
  | [] => rfl
  | a :: r => by
    have ih := sum_filter_ite G h r
    by_cases hg : G a = true
    · simp only [List.filter_cons, hg, if_true, List.map_cons, List.sum_cons, ih]
    · have hg' : G a = false := by simpa using hg
      simp only [List.filter_cons, hg', Bool.false_eq_true, if_false, List.map_cons, List.sum_cons, ih, zero_add]

theorem sum_flatMap' {α β : Type} (f : α → List β) (h : β → ℚ) : ∀ l : List α,
    ((l.flatMap f).map h).sum = (l.map fun a => ((f a).map h).sum).sum
  | [] => rfl
  | a :: r => by
    rw [List.flatMap_cons, List.map_append, List.sum_append, sum_flatMap' f h r, List.map_cons, List.sum_cons]

theorem filter_flatMap_guard {α β : Type} (f : α → List β) (P P' : β → Bool) (G : α → Bool) : ∀ l : List α,
    (∀ a ∈ l, ∀ b ∈ f a, P b = P' b) → (∀ a ∈ l, G a = false → ∀ b ∈ f a, P b = false) →
    ((l.filter G).flatMap f).filter P = (l.flatMap f).filter P'
  | [], _, _ => rfl
  | a :: r, h1, h2 => by
    have ih := filter_flatMap_guard f P P' G r (fun x hx => h1 x (List.mem_cons_of_mem _ hx))
      (fun x hx => h2 x (List.mem_cons_of_mem _ hx))
    have hc : (f a).filter P = (f a).filter P' :=
      List.filter_congr fun b hb => h1 a List.mem_cons_self b hb
    by_cases hg : G a = true
    · rw [List.filter_cons, if_pos hg, List.flatMap_cons, List.flatMap_cons, List.filter_append, List.filter_append,
        ih, hc]
    · have hg' : G a = false := by simpa using hg
      have hn : (f a).filter P' = [] := by
        rw [← hc, List.filter_eq_nil_iff]
        intro b hb
        rw [h2 a List.mem_cons_self hg' b hb]
        simp
      rw [List.filter_cons, if_neg hg, List.flatMap_cons, List.filter_append, hn, List.nil_append, ih]

/-- the members `_probs_svd_generic` receives are the sectors (and un-split members) that pass the filter -/
theorem keptS_eq (c : Cfg) (ms : List GMember) : keptS c ms = (splitAll ms).filter (passQ c) := by
  unfold keptS splitAll toSplit pass1
  rw [List.filter_append]
  congr 1
  · rw [List.filter_filter, List.filter_filter]
    apply List.filter_congr
    intro g _
    by_cases hm : multiN g = true
    · simp [hm]
    · have hm' : multiN g = false := by simpa using hm
      rw [passQ_eq_passF_of_not_multiN c g hm']
      simp [hm', Bool.and_comm]
  · have e : (ms.filter (passF c)).filter multiN = (ms.filter multiN).filter (passF c) := by
      rw [List.filter_filter, List.filter_filter]
      apply List.filter_congr
      intro g _
      exact Bool.and_comm _ _
    rw [e]
    apply filter_flatMap_guard
    · intro g _ s hs
      exact (passQ_eq_passF_sector c g s hs).symm
    · intro g _ hg s hs
      exact passF_sector_false c g s hs hg

theorem physS_eq (c : Cfg) (ms : List GMember) (hN : ∀ g ∈ ms, svNorm2 g.terms ≠ 0) :
    physS c ms = 1 - (((splitAll ms).filter fun g => !passQ c g).map (·.w)).sum := by
  unfold physS splitAll toSplit pass1
  have e : (ms.filter (passF c)).filter multiN = ms.filter fun g => multiN g && passF c g := by
    rw [List.filter_filter]
  rw [e, List.filter_append, List.map_append, List.sum_append, filter_flatMap', filter_flatMap', sum_flatMap',
    sum_flatMap', sum_filter_ite, sum_filter_ite, sum_filter_ite, sum_filter_ite, sum_filter_ite]
  have key : ∀ g ∈ ms,
      (if (!passF c g) = true then g.w else 0) +
        (if (multiN g && passF c g) = true then (((sectorsG g).filter fun s => !passF c s).map (·.w)).sum else 0) =
      (if (!multiN g) = true then (if (!passQ c g) = true then g.w else 0) else 0) +
        (if multiN g = true then (((sectorsG g).filter fun s => !passQ c s).map (·.w)).sum else 0) := by
    intro g hg
    by_cases hm : multiN g = true
    · have hcongr : (sectorsG g).filter (fun s => !passQ c s) = (sectorsG g).filter (fun s => !passF c s) :=
        List.filter_congr fun s hs => by rw [passQ_eq_passF_sector c g s hs]
      rw [hcongr]
      by_cases hp : passF c g = true
      · simp [hm, hp]
      · have hp' : passF c g = false := by simpa using hp
        have hall : (sectorsG g).filter (fun s => !passF c s) = sectorsG g := by
          rw [List.filter_eq_self]
          intro s hs
          rw [passF_sector_false c g s hs hp']
          rfl
        rw [hall, sectorsG_weights g (hN g hg)]
        simp [hm, hp']
    · have hm' : multiN g = false := by simpa using hm
      rw [passQ_eq_passF_of_not_multiN c g hm']
      simp [hm']
  have hsum := congrArg List.sum (List.map_congr_left (l := ms) key)
  rw [List.sum_map_add, List.sum_map_add] at hsum
  linarith

/-- **the two passes of `_preprocess_svd` followed by the generic path are the generic path on the mixture of the
photon-number sectors** (as `Out`: the three outputs, lists included) -/
theorem probsSvdGenS_eq {m : ℕ} (U : Matrix (Fin m) (Fin m) GQ) (c : Cfg) (ms : List GMember)
    (hN : ∀ g ∈ ms, svNorm2 g.terms ≠ 0) : probsSvdGenS U c ms = probsSvdGen U c (splitAll ms) := by
  unfold probsSvdGenS probsSvdGen AM.out
  have h1 : physS c ms = AM.phys c ((splitAll ms).map (toAM U c)) := by
    rw [physS_eq c ms hN]
    unfold AM.phys
    rw [List.filter_map, List.map_map]
    rfl
  have h2 : resS U c ms = AM.res c ((splitAll ms).map (toAM U c)) := by
    unfold resS AM.res AM.kept
    rw [keptS_eq, List.filter_map, List.map_map]
    rfl
  rw [h1, h2]

/-! ### (D) the mixture of the sectors satisfies the hypotheses of the same-photon-number theorems -/

theorem mem_splitAll (ms : List GMember) (x : GMember) (h : x ∈ splitAll ms) :
    (x ∈ ms ∧ multiN x = false) ∨ ∃ g ∈ ms, x ∈ sectorsG g := by
  unfold splitAll at h
  rcases List.mem_append.1 h with h | h
  · obtain ⟨h1, h2⟩ := List.mem_filter.1 h
    exact Or.inl ⟨h1, by simpa using h2⟩
  · obtain ⟨g, hg, hx⟩ := List.mem_flatMap.1 h
    exact Or.inr ⟨g, (List.mem_filter.1 hg).1, hx⟩

theorem svok_of_uniform {m : ℕ} {ts : List Term} {n : ℕ} (hlen : ∀ t ∈ ts, ∀ s ∈ t.groups, s.length = m)
    (h : Uniform ts n) : SVOK m ts := by
  refine ⟨hlen, ?_⟩
  intro t ht
  rw [svN_of_uniform h (List.ne_nil_of_mem ht)]
  exact h t ht

theorem svok_splitAll {m : ℕ} (ms : List GMember) (hlen : ∀ g ∈ ms, ∀ t ∈ g.terms, ∀ s ∈ t.groups, s.length = m) :
    ∀ x ∈ splitAll ms, SVOK m x.terms := by
  intro x hx
  rcases mem_splitAll ms x hx with ⟨h1, h2⟩ | ⟨g, hg, hs⟩
  · obtain ⟨n, hn⟩ := uniform_of_not_multiN x h2
    exact svok_of_uniform (hlen x h1) hn
  · obtain ⟨n, _, rfl⟩ := mem_sectorsG g x hs
    exact svok_of_uniform (fun t ht => hlen g hg t (List.mem_filter.1 ht).1) (uniform_sector _ n)

theorem wsum_splitAll (ms : List GMember) (hN : ∀ g ∈ ms, svNorm2 g.terms ≠ 0) :
    ((splitAll ms).map (·.w)).sum = (ms.map (·.w)).sum := by
  unfold splitAll
  rw [List.map_append, List.sum_append, sum_flatMap', sum_filter_ite, sum_filter_ite, ← List.sum_map_add]
  congr 1
  apply List.map_congr_left
  intro g hg
  by_cases hm : multiN g = true
  · simp [hm, sectorsG_weights g (hN g hg)]
  · have hm' : multiN g = false := by simpa using hm
    simp [hm']

theorem wpos_splitAll (ms : List GMember) (hpos : ∀ g ∈ ms, 0 ≤ g.w) : ∀ x ∈ splitAll ms, 0 ≤ x.w := by
  intro x hx
  rcases mem_splitAll ms x hx with ⟨h1, _⟩ | ⟨g, hg, hs⟩
  · exact hpos x h1
  · obtain ⟨n, _, rfl⟩ := mem_sectorsG g x hs
    exact mul_nonneg (hpos g hg) (div_nonneg (svNorm2_nonneg _) (svNorm2_nonneg _))

/-- unit mass of every sector for a unitary circuit (C03: Parseval for permanents with interference) -/
theorem massOne_splitAll {m : ℕ} (U : Matrix (Fin m) (Fin m) GQ) (hU : Uᴴ * U = 1) (ms : List GMember)
    (hlen : ∀ g ∈ ms, ∀ t ∈ g.terms, ∀ s ∈ t.groups, s.length = m)
    (hnd : ∀ g ∈ ms, (g.terms.map (·.groups)).Nodup)
    (hnz : ∀ g ∈ ms, g.terms ≠ [] ∧ ∀ t ∈ g.terms, t.coef ≠ 0) :
    ∀ x ∈ splitAll ms, mass (probsSV U x.terms) = 1 := by
  intro x hx
  rcases mem_splitAll ms x hx with ⟨h1, _⟩ | ⟨g, hg, hs⟩
  · obtain ⟨t, ht⟩ := List.exists_mem_of_ne_nil _ (hnz x h1).1
    exact PM.C03.probsSV_mass_one_aux U hU x.terms (hlen x h1) (hnd x h1)
      (PM.C03.svNorm2_ne_zero _ ⟨t, ht, (hnz x h1).2 t ht⟩)
  · obtain ⟨n, hn, rfl⟩ := mem_sectorsG g x hs
    obtain ⟨t, ht⟩ := List.exists_mem_of_ne_nil _ (sector_ne_nil g.terms n hn)
    have htg : t ∈ g.terms := (List.mem_filter.1 ht).1
    exact PM.C03.probsSV_mass_one_aux U hU _ (fun u hu => hlen g hg u (List.mem_filter.1 hu).1)
      ((hnd g hg).sublist (List.Sublist.map _ List.filter_sublist))
      (PM.C03.svNorm2_ne_zero _ ⟨t, ht, (hnz g hg).2 t htg⟩)

end PM.C04
