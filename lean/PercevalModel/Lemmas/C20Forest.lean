/-
  C20 — circuits that contain POST-PROCESSED (leaky) gates: the global photon-number argument.

  A post-processed CNOT on the qubits `a, b` sends a logical state, with non-zero amplitude, to states with two
  photons in one of its qubit pairs and none in the other; its post-selection rejects them only at the END of the
  circuit.  The product formula for logical tables (`gateTable_comp`) therefore needs that nothing a leaky gate
  leaks is ever brought back to the logical space by the gates that follow (`NoLeakReturn` at every step).

  The argument proved here.  Every gate conserves the number of photons on the qubit pairs it touches (heralds are
  enforced midway, `heraldsOk_mid`) and leaves the other pairs alone.  Call a set `A` of qubits *closed under a
  gate* when the gate's qubits are all inside or all outside `A` (`Step.respects`): such a gate conserves
  `cutSum A` = the photons on the pairs of `A`.  `CutOk`: for every leaky two-qubit gate on `a, b` there is a set
  `A ∋ a`, `A ∌ b` closed under all LATER gates — equivalently `a` and `b` are not connected by the two-qubit
  gates that follow.  Then a state leaked by that gate has `cutSum A ≠ |A|` for ever after, hence is never
  logical again (`Reach`, the invariant of the induction), hence `NoLeakReturn` holds at every step and

      `forest_circuit_implements`:  table(whole circuit) = (∏ cₖ) • (Gₙ ⋯ G₁).

  `cutCheck` is the executable check of `CutOk` on the shape of a circuit (qubits of every gate, leaky flag); it
  computes the component of `a` under the later gates and CHECKS the three conditions, so its soundness
  (`cutCheck_sound`) does not depend on how the component was computed.
-/
import PercevalModel.Lemmas.C20Comp
import PercevalModel.Model.C20Conv

open Matrix Finset

namespace PM.C20
open PM.Fock PM.SimSpec

variable {R : Type*}

/-! ### photons on qubit pairs -/

/-- photons on the dual-rail pair whose first mode is `p` -/
def pairAt (u : List ℕ) (p : ℕ) : ℕ := u.getD p 0 + u.getD (p + 1) 0

/-- photons on the qubit pairs selected by `A` (a predicate on the first mode of a pair) -/
def cutSum (L : Layout) (A : ℕ → Bool) (u : List ℕ) : ℕ := ((L.qubits.filter A).map (pairAt u)).sum

theorem isLogical_iff (L : Layout) (u : List ℕ) : isLogical L u = true ↔ ∀ p ∈ L.qubits, pairAt u p = 1 := by
  unfold isLogical pairCounts
  rw [List.all_eq_true]
  constructor
  · intro h p hp
    exact beq_iff_eq.1 (h _ (List.mem_map_of_mem hp))
  · intro h x hx
    obtain ⟨p, hp, rfl⟩ := List.mem_map.1 hx
    exact beq_iff_eq.2 (h p hp)

theorem logical_cutSum (L : Layout) (A : ℕ → Bool) (u : List ℕ) (h : isLogical L u = true) :
    cutSum L A u = (L.qubits.filter A).length := by
  unfold cutSum
  have : (L.qubits.filter A).map (pairAt u) = (L.qubits.filter A).map fun _ => 1 := by
    apply List.map_congr_left
    intro p hp
    exact (isLogical_iff L u).1 h p (List.mem_filter.1 hp).1
  rw [this, List.map_const', List.sum_replicate, smul_eq_mul, mul_one]

theorem list_sum_filter_split (f : ℕ → ℕ) (A : ℕ → Bool) : ∀ l : List ℕ,
    ((l.filter A).map f).sum + ((l.filter fun p => !A p).map f).sum = (l.map f).sum
  | [] => rfl
  | x :: xs => by
    have ih := list_sum_filter_split f A xs
    cases hA : A x <;> simp [List.filter_cons, hA] <;> omega

theorem list_sum_filter_erase (f : ℕ → ℕ) (P : ℕ → Bool) (a : ℕ) : ∀ l : List ℕ, l.Nodup → a ∈ l →
    P a = true →
    ((l.filter P).map f).sum = f a + ((l.filter fun p => P p && (p != a)).map f).sum
  | [], _, h, _ => by simp at h
  | x :: xs, hnd, hmem, hP => by
    obtain ⟨hx, hnd'⟩ := List.nodup_cons.1 hnd
    by_cases hxa : x = a
    · subst hxa
      have hsame : (xs.filter fun p => P p && (p != x)) = xs.filter P := by
        apply List.filter_congr
        intro p hp
        have : p ≠ x := fun e => hx (e ▸ hp)
        simp [this]
      simp [List.filter_cons, hP, hsame]
    · have hmem' : a ∈ xs := by
        rcases List.mem_cons.1 hmem with h | h
        · exact absurd h.symm hxa
        · exact h
      have ih := list_sum_filter_erase f P a xs hnd' hmem' hP
      cases hPx : P x <;> simp [List.filter_cons, hPx, hxa, ih] <;> omega

theorem qubits_nodup (L : Layout) (hok : L.ok = true) : L.qubits.Nodup := by
  have hn := ((ok_iff L).1 hok).2.1
  unfold used at hn
  have hq := (List.nodup_append.1 hn).1
  rw [List.nodup_flatMap] at hq
  refine hq.2.imp ?_
  intro p q hd hpq
  subst hpq
  exact hd (a := p) (by simp) (by simp)

theorem used_perm_range (L : Layout) (hok : L.ok = true) : (used L).Perm (List.range L.m) := by
  obtain ⟨hlt, hnd, hlen⟩ := (ok_iff L).1 hok
  apply (List.subperm_of_subset hnd (fun k hk => List.mem_range.2 (hlt k hk))).perm_of_length_le
  rw [List.length_range, hlen]

theorem sum_flatMap_pairs (g : ℕ → ℕ) : ∀ qs : List ℕ,
    ((qs.flatMap fun p => [p, p + 1]).map g).sum = (qs.map fun p => g p + g (p + 1)).sum
  | [] => rfl
  | q :: qs => by
    have ih := sum_flatMap_pairs g qs
    simp only [List.flatMap_cons, List.map_append, List.sum_append, List.map_cons, List.map_nil,
      List.sum_cons, List.sum_nil, ih]
    omega

/-- the photons of a herald-satisfying state: those on the qubit pairs plus the herald values -/
theorem sum_eq_pairs_add_heralds (L : Layout) (hok : L.ok = true) (u : List ℕ) (hu : u.length = L.m)
    (hh : heraldsOk L.heralds u = true) : u.sum = (L.qubits.map (pairAt u)).sum + heraldSum L := by
  have h1 : (List.range L.m).map (fun k => u.getD k 0) = u := by
    apply List.ext_getElem
    · simp [hu]
    · intro i h1 h2
      simp only [List.getElem_map, List.getElem_range]
      rw [List.getD_eq_getElem?_getD, List.getElem?_eq_getElem h2, Option.getD_some]
  have h2 := ((used_perm_range L hok).map fun k => u.getD k 0).sum_eq
  rw [h1] at h2
  rw [← h2]
  unfold used
  rw [List.map_append, List.sum_append, sum_flatMap_pairs]
  congr 1
  unfold heraldSum
  rw [List.map_map]
  congr 1
  apply List.map_congr_left
  intro h hm
  exact (heraldsOk_iff L.heralds u).1 hh h hm

/-! ### gates of a circuit with leaky gates -/

/-- one gate of a converted circuit: support (modes), the qubit pairs it touches (first modes), its matrix on all
the modes, the logical gate, the scalar, and whether it may leak (post-processed) or is heralded -/
structure Step (L : Layout) (R : Type*) where
  S : List ℕ
  Q : List ℕ
  U : Matrix (Fin L.m) (Fin L.m) R
  G : Matrix (Fin (basis L.qubits.length).length) (Fin (basis L.qubits.length).length) R
  c : R
  leaky : Bool

/-- local on its support, table `c • G`, heralded unless flagged leaky, and the only qubit pairs its support
meets are those listed in `Q` -/
def Step.Ok [CommRing R] {L : Layout} (g : Step L R) : Prop :=
  LocalOn g.S g.U ∧ gateTable g.U L PS.tt = g.c • g.G ∧ (g.leaky = false → NoLeak L g.U) ∧
    (∀ p ∈ L.qubits, p ∉ g.Q → p ∉ g.S ∧ p + 1 ∉ g.S) ∧ (∀ p ∈ g.Q, p ∈ L.qubits)

/-- the set `A` of qubits is closed under the gate: its qubits are all inside or all outside -/
def Step.respects {L : Layout} (g : Step L R) (A : ℕ → Bool) : Prop :=
  (∀ p ∈ g.Q, A p = true) ∨ (∀ p ∈ g.Q, A p = false)

/-- **the condition on the circuit**: every leaky gate acts on two qubits that are separated by a set closed
under all the gates that come later -/
def CutOk {L : Layout} : List (Step L R) → Prop
  | [] => True
  | g :: gs => (g.leaky = true → ∃ (a b : ℕ) (A : ℕ → Bool), g.Q = [a, b] ∧ A a = true ∧ A b = false ∧
      ∀ g' ∈ gs, g'.respects A) ∧ CutOk gs

section ring
variable [CommRing R]

theorem cutSum_outside {L : Layout} (g : Step L R) (hg : g.Ok) (A : ℕ → Bool)
    (hA : ∀ p ∈ g.Q, A p = false) (u t : List ℕ) (hu : u.length = L.m) (ht : t.length = L.m)
    (hne : pamp g.U u t ≠ 0) : cutSum L A t = cutSum L A u := by
  unfold cutSum
  congr 1
  apply List.map_congr_left
  intro p hp
  obtain ⟨hpq, hAp⟩ := List.mem_filter.1 hp
  have hnQ : p ∉ g.Q := fun h => by rw [hA p h] at hAp; cases hAp
  obtain ⟨h0, h1⟩ := hg.2.2.2.1 p hpq hnQ
  unfold pairAt
  rw [pamp_local_eq hg.1 u t hu ht hne p h0, pamp_local_eq hg.1 u t hu ht hne (p + 1) h1]

/-- **a gate conserves the photons on every set of qubits closed under it** (between herald-satisfying states) -/
theorem cutSum_conserved {L : Layout} (hok : L.ok = true) (g : Step L R) (hg : g.Ok) (A : ℕ → Bool)
    (hA : g.respects A) (u t : List ℕ) (hu : u.length = L.m) (ht : t.length = L.m)
    (huh : heraldsOk L.heralds u = true) (hth : heraldsOk L.heralds t = true)
    (hne : pamp g.U u t ≠ 0) : cutSum L A t = cutSum L A u := by
  rcases hA with hin | hout
  · have hsum : u.sum = t.sum := by
      by_contra h
      exact hne (PM.C02.pamp_zero_of_sum_ne _ _ _ h)
    have e1 := sum_eq_pairs_add_heralds L hok u hu huh
    have e2 := sum_eq_pairs_add_heralds L hok t ht hth
    have hc := cutSum_outside g hg (fun p => !A p) (fun p hp => by simp [hin p hp]) u t hu ht hne
    have s1 := list_sum_filter_split (pairAt t) A L.qubits
    have s2 := list_sum_filter_split (pairAt u) A L.qubits
    unfold cutSum at hc ⊢
    omega
  · exact cutSum_outside g hg A hout u t hu ht hne

/-- **what a leaky two-qubit gate leaks is visible on every set that separates its qubits** -/
theorem cutSum_ne_of_leak {L : Layout} (hok : L.ok = true) (g : Step L R) (hg : g.Ok) (a b : ℕ)
    (A : ℕ → Bool) (hQ : g.Q = [a, b]) (ha : A a = true) (hb : A b = false) (u t : List ℕ)
    (hu : u.length = L.m) (ht : t.length = L.m) (huh : heraldsOk L.heralds u = true)
    (hth : heraldsOk L.heralds t = true) (hul : isLogical L u = true) (htl : isLogical L t = false)
    (hne : pamp g.U u t ≠ 0) : cutSum L A t ≠ (L.qubits.filter A).length := by
  intro heq
  have hnd := qubits_nodup L hok
  have haq : a ∈ L.qubits := hg.2.2.2.2 a (by rw [hQ]; simp)
  have hbq : b ∈ L.qubits := hg.2.2.2.2 b (by rw [hQ]; simp)
  have hab : b ≠ a := fun e => by rw [e, ha] at hb; cases hb
  have hua : pairAt u a = 1 := (isLogical_iff L u).1 hul a haq
  have hub : pairAt u b = 1 := (isLogical_iff L u).1 hul b hbq
  -- `A` without `a` is outside the gate
  have c1 := cutSum_outside g hg (fun p => A p && (p != a))
    (fun p hp => by
      rw [hQ] at hp
      rcases List.mem_cons.1 hp with rfl | hp
      · simp
      · rw [List.mem_singleton] at hp; subst hp; simp [hb]) u t hu ht hne
  have e1 := list_sum_filter_erase (pairAt t) A a L.qubits hnd haq ha
  have e2 := list_sum_filter_erase (pairAt u) A a L.qubits hnd haq ha
  have l1 := logical_cutSum L A u hul
  have hta : pairAt t a = 1 := by
    unfold cutSum at c1 heq l1
    omega
  -- all the qubits: inside
  have cT := cutSum_conserved hok g hg (fun _ => true) (Or.inl fun _ _ => rfl) u t hu ht huh hth hne
  have cT2 := cutSum_outside g hg (fun p => ((true && (p != a)) && (p != b)))
    (fun p hp => by
      rw [hQ] at hp
      rcases List.mem_cons.1 hp with rfl | hp
      · simp
      · rw [List.mem_singleton] at hp; subst hp; simp) u t hu ht hne
  have f1 := list_sum_filter_erase (pairAt t) (fun _ => true) a L.qubits hnd haq rfl
  have f2 := list_sum_filter_erase (pairAt u) (fun _ => true) a L.qubits hnd haq rfl
  have f3 := list_sum_filter_erase (pairAt t) (fun p => true && (p != a)) b L.qubits hnd hbq (by simp [hab])
  have f4 := list_sum_filter_erase (pairAt u) (fun p => true && (p != a)) b L.qubits hnd hbq (by simp [hab])
  have htb : pairAt t b = 1 := by
    unfold cutSum at cT cT2
    omega
  -- every pair of `t` holds one photon: `t` is logical
  have : isLogical L t = true := by
    rw [isLogical_iff]
    intro p hp
    by_cases hpa : p = a
    · rw [hpa]; exact hta
    · by_cases hpb : p = b
      · rw [hpb]; exact htb
      · have hnQ : p ∉ g.Q := by rw [hQ]; simp [hpa, hpb]
        obtain ⟨h0, h1⟩ := hg.2.2.2.1 p hp hnQ
        have := (isLogical_iff L u).1 hul p hp
        unfold pairAt at this ⊢
        rw [pamp_local_eq hg.1 u t hu ht hne p h0, pamp_local_eq hg.1 u t hu ht hne (p + 1) h1]
        exact this
  rw [this] at htl
  cases htl

/-- the invariant of the induction: whatever the circuit `M` built so far reaches from a logical input (with
the heralds satisfied) is either logical or shows a photon surplus/deficit on a set of qubits closed under all
the remaining gates — so it will never be logical again -/
def Reach (L : Layout) (M : Matrix (Fin L.m) (Fin L.m) R) (gs : List (Step L R)) : Prop :=
  ∀ bi : List Bool, bi.length = L.qubits.length → ∀ u : List ℕ, u.length = L.m →
    heraldsOk L.heralds u = true → pamp M (encode L bi) u ≠ 0 →
    isLogical L u = true ∨
      ∃ A : ℕ → Bool, (∀ g ∈ gs, g.respects A) ∧ cutSum L A u ≠ (L.qubits.filter A).length

theorem reach_one (L : Layout) (hok : L.ok = true) (gs : List (Step L R)) :
    Reach L (1 : Matrix (Fin L.m) (Fin L.m) R) gs := by
  intro bi hbi u hul _ hne
  left
  by_contra hl
  apply hne
  apply PM.FockComp.pamp_one_of_ne _ _ (encode_length L bi) hul
  intro he
  rw [he, encode_isLogical L hok bi hbi] at hl
  exact hl rfl

end ring

section field
variable [Field R] [CharZero R]

theorem forest_circuit_aux (L : Layout) (hok : L.ok = true) (hh : ∀ p ∈ L.heralds, p.2 ≤ 1) :
    ∀ (gs : List (Step L R)) (SM : List ℕ) (M : Matrix (Fin L.m) (Fin L.m) R)
      (GM : Matrix (Fin (basis L.qubits.length).length) (Fin (basis L.qubits.length).length) R) (cM : R),
      LocalOn SM M → Reach L M gs → gateTable M L PS.tt = cM • GM →
      (∀ g ∈ gs, g.Ok) → CutOk gs →
      gs.Pairwise (fun g g' => ∀ h ∈ L.heralds, h.1 ∉ g.S ∨ h.1 ∉ g'.S) →
      (∀ g ∈ gs, ∀ h ∈ L.heralds, h.1 ∉ SM ∨ h.1 ∉ g.S) →
      gateTable ((gs.map (·.U)).foldl (fun M A => A * M) M) L PS.tt =
          (cM * (gs.map (·.c)).prod) • gs.foldl (fun M g => g.G * M) GM ∧
        Reach L ((gs.map (·.U)).foldl (fun M A => A * M) M) []
  | [], SM, M, GM, cM, _, hR, hT, _, _, _, _ => by
    simp only [List.map_nil, List.foldl_nil, List.prod_nil, mul_one]
    exact ⟨hT, hR⟩
  | g :: gs, SM, M, GM, cM, hL, hR, hT, hg, hcut, hp, hM => by
    have hgo := hg g List.mem_cons_self
    have gL := hgo.1
    have gT := hgo.2.1
    have gN := hgo.2.2.1
    have hsep : Separated L SM g.S M g.U := ⟨hL, gL, hM g List.mem_cons_self⟩
    -- nothing leaks and returns at this step
    have hleak : ∀ bo bi : List Bool, bo.length = L.qubits.length → bi.length = L.qubits.length →
        NoLeakReturn L M g.U bo bi := by
      intro bo bi hbo hbi
      refine noLeakReturn_of_separated L hok hsep bo bi hbo hbi (fun u hul huh hulog => ?_)
      by_contra hne
      have h1 := left_ne_zero_of_mul hne
      have h2 := right_ne_zero_of_mul hne
      rcases hR bi hbi u hul huh h2 with hl | ⟨A, hA, hAne⟩
      · rw [hl] at hulog
        cases hulog
      · have hc := cutSum_conserved hok g hgo A (hA g List.mem_cons_self) u (encode L bo) hul
          (encode_length L bo) huh (encode_heraldsOk L hok bo hbo) h1
        rw [logical_cutSum L A _ (encode_isLogical L hok bo hbo)] at hc
        exact hAne hc.symm
    have hT' : gateTable (g.U * M) L PS.tt = (g.c * cM) • (g.G * GM) := by
      have := implements_fock_comp L hok M g.U PS.tt PS.tt hT gT (fun _ _ => rfl)
        (fun bo bi hbo hbi _ => hleak bo bi hbo hbi)
      rw [this, heraldFact_eq_one L hh, Nat.cast_one, inv_one, one_mul]
    -- the invariant after this step
    have hR' : Reach L (g.U * M) gs := by
      intro bi hbi t htl hth hne
      have hsum : (encode L bi).sum = t.sum := by
        by_contra h
        exact hne (PM.C02.pamp_zero_of_sum_ne _ _ _ h)
      rw [PM.C02.fock_comp g.U M (encode L bi) t (encode_length L bi) htl hsum] at hne
      have hex : ∃ u ∈ allStates L.m (encode L bi).sum,
          pamp g.U u t * pamp M (encode L bi) u / (prodFact u : R) ≠ 0 := by
        by_contra hall
        apply hne
        apply List.sum_eq_zero
        intro x hx
        obtain ⟨u, hu, rfl⟩ := List.mem_map.1 hx
        by_contra hx0
        exact hall ⟨u, hu, hx0⟩
      obtain ⟨u, hu, hterm⟩ := hex
      have hprod : pamp g.U u t * pamp M (encode L bi) u ≠ 0 := fun h0 => hterm (by rw [h0, zero_div])
      obtain ⟨hul, _⟩ := (mem_allStates_iff _ _ u).1 hu
      have hmid := heraldsOk_mid hsep.localA hsep.localB L.heralds hsep.heralds (encode L bi) t u
        (encode_length L bi) htl hul (encode_heraldsOk L hok bi hbi) hth hprod
      have h1 := left_ne_zero_of_mul hprod
      have h2 := right_ne_zero_of_mul hprod
      rcases hR bi hbi u hul hmid h2 with hl | ⟨A, hA, hAne⟩
      · by_cases htlog : isLogical L t = true
        · exact Or.inl htlog
        · right
          have htlog' : isLogical L t = false := by simpa using htlog
          cases hlk : g.leaky
          · exfalso
            obtain ⟨bu, hbu, rfl⟩ := exists_bits_of_logical L hok u hul hmid hl
            exact h1 (gN hlk bu hbu t htl hth htlog')
          · obtain ⟨a, b, A, hQ, ha, hb, hA⟩ := hcut.1 hlk
            exact ⟨A, hA, cutSum_ne_of_leak hok g hgo a b A hQ ha hb u t hul htl hmid hth hl htlog' h1⟩
      · right
        refine ⟨A, fun g' hg' => hA g' (List.mem_cons_of_mem _ hg'), ?_⟩
        rw [cutSum_conserved hok g hgo A (hA g List.mem_cons_self) u t hul htl hmid hth h1]
        exact hAne
    have hp' := List.pairwise_cons.1 hp
    have := forest_circuit_aux L hok hh gs (SM ++ g.S) (g.U * M) (g.G * GM) (g.c * cM)
      (hL.mul gL) hR' hT'
      (fun g' hg' => hg g' (List.mem_cons_of_mem _ hg')) hcut.2 hp'.2
      (fun g' hg' h hh' => by
        rcases hM g' (List.mem_cons_of_mem _ hg') h hh' with h1 | h2
        · rcases hp'.1 g' hg' h hh' with h3 | h4
          · exact Or.inl fun hm => (List.mem_append.1 hm).elim h1 h3
          · exact Or.inr h4
        · exact Or.inr h2)
    simp only [List.map_cons, List.foldl_cons, List.prod_cons]
    rw [show cM * (g.c * (gs.map (·.c)).prod) = g.c * cM * (gs.map (·.c)).prod by ring]
    exact this

/-- **a circuit with leaky (post-processed) gates implements the product of its gates** when every leaky gate's
two qubits are separated by a set of qubits closed under all later gates (`CutOk`): every gate local on its
support with table `cₖ • Gₖ`, the non-leaky ones heralded, no herald mode shared by two supports, herald values
`0/1`, a final post-selection that accepts the logical states.  The logical table of the whole circuit is
`(∏ cₖ) • (Gₙ ⋯ G₁)`; and every herald-satisfying output the circuit reaches from a logical input is logical or
violates the photon count of some set of qubits. -/
theorem forest_circuit_implements (L : Layout) (hok : L.ok = true) (hh : ∀ p ∈ L.heralds, p.2 ≤ 1) (ps : PS)
    (hps : ∀ b : List Bool, b.length = L.qubits.length → ps.eval (encode L b) = true)
    (gs : List (Step L R)) (hg : ∀ g ∈ gs, g.Ok) (hcut : CutOk gs)
    (hp : gs.Pairwise (fun g g' => ∀ h ∈ L.heralds, h.1 ∉ g.S ∨ h.1 ∉ g'.S)) :
    gateTable (PM.C02.circuitMatrix (gs.map (·.U))) L ps =
        ((gs.map (·.c)).prod) • gs.foldl (fun M g => g.G * M) 1 ∧
      ∀ bi : List Bool, bi.length = L.qubits.length → ∀ u : List ℕ, u.length = L.m →
        heraldsOk L.heralds u = true → pamp (PM.C02.circuitMatrix (gs.map (·.U))) (encode L bi) u ≠ 0 →
        isLogical L u = true ∨ ∃ A : ℕ → Bool, cutSum L A u ≠ (L.qubits.filter A).length := by
  have h1 : gateTable (1 : Matrix (Fin L.m) (Fin L.m) R) L PS.tt = (1 : R) • 1 := by
    rw [gateTable_one L hok PS.tt (fun _ _ => rfl), heraldFact_eq_one L hh, Nat.cast_one]
  have := forest_circuit_aux L hok hh gs [] 1 1 1 (localOn_one []) (reach_one L hok gs) h1 hg hcut hp
    (fun _ _ _ _ => Or.inl (by simp))
  rw [one_mul] at this
  refine ⟨?_, fun bi hbi u hul huh hne => ?_⟩
  · rw [gateTable_ps_irrelevant L _ ps hps]
    exact this.1
  · rcases this.2 bi hbi u hul huh hne with h | ⟨A, _, hA⟩
    · exact Or.inl h
    · exact Or.inr ⟨A, hA⟩

end field

/-! ### the executable check of `CutOk` on the shape of a circuit -/

theorem leakyOk_spec (Q : List ℕ) (later : List (List ℕ)) (h : leakyOk Q later = true) :
    ∃ (a b : ℕ) (A : ℕ → Bool), Q = [a, b] ∧ A a = true ∧ A b = false ∧ ∀ Q' ∈ later, respectsB A Q' = true := by
  match Q, h with
  | [a, b], h =>
    simp only [leakyOk, Bool.and_eq_true, Bool.not_eq_eq_eq_not, Bool.not_true, List.all_eq_true] at h
    exact ⟨a, b, fun p => (compOf a later).contains p, rfl, h.1.1, h.1.2, h.2⟩

theorem respectsB_sound {L : Layout} (g : Step L R) (A : ℕ → Bool) :
    respectsB A g.Q = true → g.respects A := by
  unfold respectsB Step.respects
  rw [Bool.or_eq_true, List.all_eq_true, List.all_eq_true]
  rintro (h | h)
  · exact Or.inl h
  · exact Or.inr fun p hp => by simpa using h p hp

/-- **soundness of the executable check** -/
theorem cutCheck_sound {L : Layout} : ∀ gs : List (Step L R),
    cutCheck (gs.map fun g => (g.Q, g.leaky)) = true → CutOk gs
  | [], _ => trivial
  | g :: gs, h => by
    rw [List.map_cons, cutCheck, Bool.and_eq_true, Bool.or_eq_true] at h
    refine ⟨fun hlk => ?_, cutCheck_sound gs h.2⟩
    rcases h.1 with h0 | h1
    · simp only [hlk, Bool.not_true] at h0
      cases h0
    · obtain ⟨a, b, A, hQ, ha, hb, hall⟩ := leakyOk_spec _ _ h1
      refine ⟨a, b, A, hQ, ha, hb, fun g' hg' => respectsB_sound g' A (hall g'.Q ?_)⟩
      rw [List.map_map]
      exact List.mem_map.2 ⟨g', hg', rfl⟩

end PM.C20
