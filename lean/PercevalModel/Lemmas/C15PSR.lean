/-
  C15 (part "PS", wave 7) — what the reader makes of the text of the writer AS FOUND, for EVERY
  well-formed expression.  Core Lean only.

  `rr x` ("re-read") is the tree `PostSelect(str(x))` builds: a negation that is a non-last operand
  of an n-ary node swallows the rest of the node, `(a o !b o c o d)` comes back as
  `(a o !(b o c o d))`, `(!a o b)` as `!(a o b)`, at every depth, any number of `!` in a row.

  * `parse_print_asfound_eq`   parse (print false x) = some (rr x)   for every well-formed x
                               (so the reader never raises on the text of the writer as found)
  * `rr_fixed`                 rr x = x → x.NotLastFree
  * `parse_print_asfound_iff`  parse (print false x) = some x ↔ x.NotLastFree   (the full converse of
                               `parse_print_asfound_partial`, which the harness only counted so far)
  * `eval_asfound_xorOnly`     when every n-ary node is a `^` the tree read back may differ but the
                               predicate is the same on every state (¬a ⊕ b ⊕ … = ¬(a ⊕ b ⊕ …))
-/
import PercevalModel.Lemmas.C15PS

namespace PM.C15.PS

def unNot : Expr → Expr
  | .not e => e
  | e => e

/-- how `pSeq` reads `x o <operands already read as as'>`: the leading negations of `x` capture the
    whole sequence.  `x'` is `x` re-read. -/
def sr (o : BOp) : Expr → Expr → Args → Expr
  | .not z, x', as' => .not (sr o z (unNot x') as')
  | _, x', as' => .nary o (.cons x' as')

mutual
  /-- the tree the reader builds from the text of the writer as found -/
  def rr : Expr → Expr
    | .cond ms c n => .cond ms c n
    | .not x => .not (rr x)
    | .nary o as => rrS o as
  def rrS (o : BOp) : Args → Expr
    | .nil => .nary o .nil
    | .cons x .nil => .nary o (.cons (rr x) .nil)
    | .cons x (.cons y r) => sr o x (rr x) (rrL o (.cons y r))
  /-- the operands `pLoop` collects -/
  def rrL (o : BOp) : Args → Args
    | .nil => .nil
    | .cons x .nil => .cons (rr x) .nil
    | .cons x (.cons y r) =>
      if x.isNot then .cons (sr o x (rr x) (rrL o (.cons y r))) .nil
      else .cons (rr x) (rrL o (.cons y r))
end

theorem sr_not (o : BOp) (z e : Expr) (as' : Args) : sr o (.not z) (.not e) as' = .not (sr o z e as') := by
  simp [sr, unNot]

theorem sr_of_isNot_false (o : BOp) (x x' : Expr) (as' : Args) (h : x.isNot = false) :
    sr o x x' as' = .nary o (.cons x' as') := by
  cases x with
  | cond ms c n => simp [sr]
  | nary o' as => simp [sr]
  | not z => simp [Expr.isNot] at h

theorem pOperand_bang_eq_pSeq (f : Nat) (ts : List Tok) : pOperand f (.bang :: ts) = pSeq f (.bang :: ts) := by
  cases f with
  | zero => simp [pOperand, pSeq]
  | succ f => simp [pOperand, pSeq]

/-- what the parser does with the token view of `x` as written by the writer as found -/
structure Rd (x : Expr) : Prop where
  opnd : x.isNot = false → ∀ f r, sz x ≤ f → pOperand f (toks false x ++ r) = some (rr x, r)
  opndC : ∀ f r, Closed r → sz x ≤ f → pOperand f (toks false x ++ r) = some (rr x, r)
  seqC : ∀ f r, Closed r → sz x + 1 ≤ f → pSeq f (toks false x ++ r) = some (rr x, r)
  /-- as the head of a sequence that goes on with `o …` -/
  seqO : ∀ (o : BOp) (r : List Tok) (as' : Args) (r' : List Tok) (g : Nat), 1 ≤ g →
    (∀ f, g ≤ f → pLoop f o r = some (as', r')) →
    ∀ f, g + sz x ≤ f → pSeq f (toks false x ++ .bop o :: r) = some (sr o x (rr x) as', r')

theorem rd_of_selfDelim {x : Expr} (hsd : x.isNot = false)
    (h1 : ∀ f r, sz x ≤ f → pOperand f (toks false x ++ r) = some (rr x, r)) : Rd x where
  opnd := fun _ => h1
  opndC := fun f r _ hf => h1 f r hf
  seqC := fun f r hc hf => by
    obtain ⟨f', rfl⟩ : ∃ f', f = f' + 1 := ⟨f - 1, by omega⟩
    exact pSeq_closed f' _ (toks_notBang false x r (Or.inr hsd)) (h1 f' r (by omega)) hc
  seqO := fun o r as' r' g hg hl f hf => by
    obtain ⟨f', rfl⟩ : ∃ f', f = f' + 1 := ⟨f - 1, by omega⟩
    rw [sr_of_isNot_false o x _ _ hsd]
    have hs : 1 ≤ sz x := by cases x <;> simp [sz]
    exact pSeq_bop f' _ (toks_notBang false x _ (Or.inr hsd)) (h1 f' _ (by omega)) (hl f' (by omega))

theorem szA_pos : ∀ (as : Args), as ≠ .nil → 1 ≤ szA as
  | .nil, h => absurd rfl h
  | .cons _ _, _ => by simp [szA]

mutual
  theorem rd : ∀ (x : Expr), x.wfb = true → Rd x
    | .cond ms c n, hw => by
      refine rd_of_selfDelim rfl ?_
      intro f r hf
      obtain ⟨f', rfl⟩ : ∃ f', f = f' + 1 := ⟨f - 1, by simp [sz] at hf; omega⟩
      simp only [toks, List.cons_append, List.append_assoc, rr]
      rw [pOperand_lbr]
      exact pCond_toks ms c n r hw
    | .not y, hw => by
      have hwy : y.wfb = true := by simpa [Expr.wfb] using hw
      have ih := rd y hwy
      refine ⟨?_, ?_, ?_, ?_⟩
      · intro h; simp [Expr.isNot] at h
      · intro f r hc hf
        simp only [sz] at hf
        obtain ⟨f', rfl⟩ : ∃ f', f = f' + 1 := ⟨f - 1, by omega⟩
        simp only [toks, Bool.false_eq_true, if_false, List.cons_append, rr]
        apply pOperand_bang
        exact ih.seqC f' r hc (by omega)
      · intro f r hc hf
        simp only [sz] at hf
        obtain ⟨f', rfl⟩ : ∃ f', f = f' + 1 := ⟨f - 1, by omega⟩
        simp only [toks, Bool.false_eq_true, if_false, List.cons_append, rr]
        apply pSeq_bang
        exact ih.seqC f' r hc (by omega)
      · intro o r as' r' g hg hl f hf
        simp only [sz] at hf
        obtain ⟨f', rfl⟩ : ∃ f', f = f' + 1 := ⟨f - 1, by omega⟩
        simp only [toks, Bool.false_eq_true, if_false, List.cons_append, rr]
        rw [sr_not]
        apply pSeq_bang
        exact ih.seqO o r as' r' g hg hl f' (by omega)
    | .nary o .nil, hw => by simp [Expr.wfb, Args.length] at hw
    | .nary o (.cons a1 .nil), hw => by simp [Expr.wfb, Args.length] at hw
    | .nary o (.cons a1 (.cons a2 rest)), hw => by
      simp only [Expr.wfb, Args.wfb, Bool.and_eq_true] at hw
      have hw1 : a1.wfb = true := hw.2.1
      have hwr : (Args.cons a2 rest).wfb = true := by simp [Args.wfb, hw.2.2.1, hw.2.2.2]
      have ih1 := rd a1 hw1
      have ihr := rdArgs o (.cons a2 rest) hwr
      refine rd_of_selfDelim rfl ?_
      intro f r hf
      simp only [sz, szA] at hf
      obtain ⟨f', rfl⟩ : ∃ f', f = f' + 1 := ⟨f - 1, by omega⟩
      simp only [toks, toksArgs, toksTail, List.cons_append, List.append_assoc, List.nil_append, rr, rrS]
      apply pOperand_lpar
      have hl : ∀ f, szA (.cons a2 rest) ≤ f →
          pLoop f o (toksArgs false o (.cons a2 rest) ++ .rpar :: r) = some (rrL o (.cons a2 rest), .rpar :: r) :=
        fun f hf => ihr f (.rpar :: r) (closed_rpar r) hf (by simp)
      have := ih1.seqO o _ _ _ (szA (.cons a2 rest)) (szA_pos _ (by simp)) hl f' (by simp only [szA]; omega)
      simpa only [toksArgs, List.append_assoc] using this
  theorem rdArgs (o : BOp) : ∀ (as : Args), as.wfb = true →
      ∀ f r, Closed r → szA as ≤ f → as ≠ .nil → pLoop f o (toksArgs false o as ++ r) = some (rrL o as, r)
    | .nil, _ => fun _ _ _ _ h => absurd rfl h
    | .cons x .nil, hw => by
      intro f r hc hf _
      simp only [Args.wfb, Bool.and_eq_true] at hw
      have ih := rd x hw.1
      simp only [szA] at hf
      obtain ⟨f', rfl⟩ : ∃ f', f = f' + 1 := ⟨f - 1, by omega⟩
      simp only [toksArgs, toksTail, List.append_nil, rrL]
      exact pLoop_last f' o _ (ih.opndC f' r hc (by omega)) hc
    | .cons x (.cons y r2), hw => by
      intro f r hc hf _
      simp only [Args.wfb, Bool.and_eq_true] at hw
      have hwr : (Args.cons y r2).wfb = true := by simp [Args.wfb, hw.2.1, hw.2.2]
      have ih := rd x hw.1
      have ihr := rdArgs o (.cons y r2) hwr
      simp only [szA] at hf
      obtain ⟨f', rfl⟩ : ∃ f', f = f' + 1 := ⟨f - 1, by omega⟩
      have hl : ∀ f, szA (.cons y r2) ≤ f →
          pLoop f o (toksArgs false o (.cons y r2) ++ r) = some (rrL o (.cons y r2), r) :=
        fun f hf => ihr f r hc hf (by simp)
      cases hx : x.isNot with
      | false =>
        simp only [toksArgs, toksTail, List.cons_append, List.append_assoc, rrL, hx, Bool.false_eq_true, if_false]
        refine pLoop_more f' o _ (ih.opnd hx f' _ (by omega)) ?_
        have := hl f' (by simp only [szA]; omega)
        simpa only [toksArgs, List.append_assoc] using this
      | true =>
        simp only [rrL, hx, if_true]
        have hs := ih.seqO o _ _ _ (szA (.cons y r2)) (szA_pos _ (by simp)) hl f' (by simp only [szA]; omega)
        have hop : pOperand f' (toks false x ++ .bop o :: (toksArgs false o (.cons y r2) ++ r))
            = some (sr o x (rr x) (rrL o (.cons y r2)), r) := by
          cases x with
          | cond ms c n => simp [Expr.isNot] at hx
          | nary o' as => simp [Expr.isNot] at hx
          | not z =>
            simp only [toks, Bool.false_eq_true, if_false, List.cons_append] at hs ⊢
            rw [pOperand_bang_eq_pSeq]
            exact hs
        have := pLoop_last f' o _ hop hc
        simpa only [toksArgs, toksTail, List.cons_append, List.append_assoc] using this
end

/-- the token parser on the token view of the writer as found -/
theorem parseToks_toks_asfound (x : Expr) (hw : x.WF) : parseToks (toks false x) = some (rr x) := by
  have h := (rd x hw).seqC (fuelFor (toks false x)) [] closed_nil (by
    have := sz_le false x
    simp only [fuelFor]; omega)
  simp only [List.append_nil] at h
  simp [parseToks, h]

/-- **What `PostSelect(str(x))` is, for every well-formed `x`.**  The reader accepts every text of the
    writer as found and builds `rr x`. -/
theorem parse_print_asfound_eq (x : Expr) (hw : x.WF) : parse (print false x) = some (rr x) := by
  simp only [parse, lex_print]
  exact parseToks_toks_asfound x hw

/-! ## `rr x = x` only when no negation is a non-last operand -/

mutual
  theorem rr_fixed : ∀ (x : Expr), rr x = x → x.nlfb = true
    | .cond .., _ => rfl
    | .not y, h => by
      simp only [rr, Expr.not.injEq] at h
      simpa [Expr.nlfb] using rr_fixed y h
    | .nary o .nil, _ => rfl
    | .nary o (.cons x .nil), h => by
      simp only [rr, rrS, Expr.nary.injEq, Args.cons.injEq, true_and, and_true] at h
      simpa [Expr.nlfb, Args.nlfb] using rr_fixed x h
    | .nary o (.cons x (.cons y r)), h => by
      simp only [rr, rrS] at h
      cases hx : x.isNot with
      | true =>
        cases x with
        | cond ms c n => simp [Expr.isNot] at hx
        | nary o' as => simp [Expr.isNot] at hx
        | not z => simp [sr] at h
      | false =>
        rw [sr_of_isNot_false o x _ _ hx] at h
        simp only [Expr.nary.injEq, Args.cons.injEq, true_and] at h
        have h1 := rr_fixed x h.1
        have h2 := rrL_fixed o (.cons y r) h.2
        simp only [Expr.nlfb, Args.nlfb, hx, h1, Bool.not_false, Bool.true_and]
        exact h2
  theorem rrL_fixed (o : BOp) : ∀ (as : Args), rrL o as = as → as.nlfb = true
    | .nil, _ => rfl
    | .cons x .nil, h => by
      simp only [rrL, Args.cons.injEq, and_true] at h
      simpa [Args.nlfb] using rr_fixed x h
    | .cons x (.cons y r), h => by
      cases hx : x.isNot with
      | true => simp [rrL, hx] at h
      | false =>
        simp only [rrL, hx, Bool.false_eq_true, if_false, Args.cons.injEq] at h
        have h1 := rr_fixed x h.1
        have h2 := rrL_fixed o (.cons y r) h.2
        simp only [Args.nlfb, hx, h1, Bool.not_false, Bool.true_and]
        exact h2
end

/-- **The full converse of `parse_print_asfound_partial`.**  The writer as found round-trips a
    well-formed expression exactly when no negation is a non-last operand of an n-ary node (any
    position, any depth). -/
theorem parse_print_asfound_iff (x : Expr) (hw : x.WF) :
    parse (print false x) = some x ↔ x.NotLastFree := by
  constructor
  · intro h
    rw [parse_print_asfound_eq x hw] at h
    exact rr_fixed x (Option.some.inj h)
  · exact parse_print_asfound_partial x hw

theorem rr_of_notLastFree (x : Expr) (hw : x.WF) (hn : x.NotLastFree) : rr x = x := by
  have h := parse_print_asfound_partial x hw hn
  rw [parse_print_asfound_eq x hw] at h
  exact Option.some.inj h

/-- including the empty PostSelect: the reader never raises on the text of the writer as found -/
theorem parseTop_printTop_asfound_eq :
    ∀ x : Option Expr, (∀ e, x = some e → e.WF) → parseTop (printTop false x) = some (x.map rr)
  | none, _ => rfl
  | some e, h => by
    obtain ⟨c, cs, hp, hc⟩ := print_head false e
    simp only [printTop, parseTop, parse_print_asfound_eq e (h e rfl), Option.map]
    rw [hp]
    simp [hc]

/-- the shape of the misreading, any position: `(a o !b o c …)` is read as `(a o !(b o c …))` -/
example :
    let a : Expr := .cond [0] .eq 1
    let b : Expr := .cond [1] .eq 1
    let c : Expr := .cond [2] .eq 1
    rr (.nary .and (.cons a (.cons (.not b) (.cons c .nil))))
      = .nary .and (.cons a (.cons (.not (.nary .and (.cons b (.cons c .nil)))) .nil)) := by
  decide

/-! ## `^`-only expressions: the misreading never changes the predicate -/

mutual
  /-- every n-ary node of the expression is a `^` -/
  def Expr.xorOnly : Expr → Bool
    | .cond .. => true
    | .not x => x.xorOnly
    | .nary o as => decide (o = .xor) && as.xorOnly
  def Args.xorOnly : Args → Bool
    | .nil => true
    | .cons x r => x.xorOnly && r.xorOnly
end

/-- `¬a ⊕ b ⊕ … = ¬(a ⊕ b ⊕ …)` -/
theorem eval_sr_xor_rr (st : List Nat) : ∀ (x : Expr) (as' : Args),
    eval (sr .xor x (rr x) as') st = (eval (rr x) st != parity (evalArgs as' st))
  | .not z, as' => by
    have ih := eval_sr_xor_rr st z as'
    simp only [rr, sr_not, eval, ih]
    cases eval (rr z) st <;> cases parity (evalArgs as' st) <;> rfl
  | .cond ms c n, as' => by simp [sr, rr, eval, evalArgs, BOp.fold, parity]
  | .nary o as, as' => by simp [sr, eval, evalArgs, BOp.fold, parity]

mutual
  theorem eval_rr_xor (st : List Nat) : ∀ (x : Expr), x.xorOnly = true → eval (rr x) st = eval x st
    | .cond .., _ => rfl
    | .not y, h => by
      simp only [Expr.xorOnly] at h
      simp only [rr, eval, eval_rr_xor st y h]
    | .nary o .nil, h => by
      simp only [Expr.xorOnly, Bool.and_eq_true, decide_eq_true_eq] at h
      simp [rr, rrS]
    | .nary o (.cons x .nil), h => by
      simp only [Expr.xorOnly, Args.xorOnly, Bool.and_eq_true, decide_eq_true_eq] at h
      simp [rr, rrS, eval, evalArgs, eval_rr_xor st x h.2.1]
    | .nary o (.cons x (.cons y r)), h => by
      simp only [Expr.xorOnly, Args.xorOnly, Bool.and_eq_true, decide_eq_true_eq] at h
      obtain ⟨ho, hx, hy, hr⟩ := h
      subst ho
      have h1 := eval_rr_xor st x hx
      have h2 := parity_rrL_xor st (.cons y r) (by simp [Args.xorOnly, hy, hr])
      simp only [rr, rrS, eval_sr_xor_rr, h1, h2]
      simp [eval, evalArgs, BOp.fold, parity]
  theorem parity_rrL_xor (st : List Nat) : ∀ (as : Args), as.xorOnly = true →
      parity (evalArgs (rrL .xor as) st) = parity (evalArgs as st)
    | .nil, _ => rfl
    | .cons x .nil, h => by
      simp only [Args.xorOnly, Bool.and_eq_true] at h
      simp [rrL, evalArgs, parity, eval_rr_xor st x h.1]
    | .cons x (.cons y r), h => by
      simp only [Args.xorOnly, Bool.and_eq_true] at h
      obtain ⟨hx, hy, hr⟩ := h
      have h1 := eval_rr_xor st x hx
      have h2 := parity_rrL_xor st (.cons y r) (by simp [Args.xorOnly, hy, hr])
      cases hn : x.isNot with
      | true =>
        simp only [rrL, hn, if_true, evalArgs, parity, eval_sr_xor_rr, h1, h2]
        simp
      | false =>
        simp only [rrL, hn, Bool.false_eq_true, if_false]
        simp only [evalArgs, parity, h1] at h2 ⊢
        rw [h2]
end

/-- for `^`-only expressions the defect of the writer as found never changes the predicate -/
theorem eval_asfound_xorOnly (x : Expr) (hw : x.WF) (hx : x.xorOnly = true) (st : List Nat) :
    (parse (print false x)).map (fun y => eval y st) = some (eval x st) := by
  rw [parse_print_asfound_eq x hw]
  simp [eval_rr_xor st x hx]

end PM.C15.PS
