/-
  C12 — helper lemmas for the model of `solve` (`Model/C12Solve.lean`) and for the link between a solved cell of
  `decompose_triangle` and the equation handed to `solve`.
-/
import PercevalModel.Model.C12Solve
import PercevalModel.Lemmas.C12

open Matrix

namespace PM.C12.Solve

variable {α β : Type}

theorem firstSome_get : ∀ {cs : List (Option α)} {i : ℕ} {c : α}, firstSome cs = some (i, c) → cs[i]? = some (some c)
  | [], _, _, h => by simp [firstSome] at h
  | some _ :: _, i, c, h => by
    simp only [firstSome, Option.some.injEq, Prod.mk.injEq] at h
    simp [← h.1, h.2]
  | none :: cs, i, c, h => by
    simp only [firstSome, Option.map_eq_some_iff] at h
    obtain ⟨⟨i', c'⟩, h', he⟩ := h
    have := firstSome_get h'
    simp only [Prod.mk.injEq] at he
    obtain ⟨rfl, rfl⟩ := he
    simpa using this

theorem firstSome_none : ∀ {cs : List (Option α)}, firstSome cs = none → ∀ (k : ℕ) (c : α), cs[k]? ≠ some (some c)
  | [], _, k, c => by simp
  | some _ :: _, h, _, _ => by simp [firstSome] at h
  | none :: cs, h, k, c => by
    simp only [firstSome, Option.map_eq_none_iff] at h
    cases k with
    | zero => simp
    | succ k => simpa using firstSome_none h k c

theorem splice_length (i : ℕ) (c : α) (y : List α) : (splice i c y).length = y.length + 1 := by
  simp only [splice, List.length_append, List.length_take, List.length_cons, List.length_drop]
  omega

theorem splice_getElem? {i : ℕ} (c : α) {y : List α} (hi : i ≤ y.length) (k : ℕ) :
    (splice i c y)[k]? = if k < i then y[k]? else if k = i then some c else y[k - 1]? := by
  unfold splice
  have hl : (y.take i).length = i := by simp [hi]
  split_ifs with h1 h2
  · rw [List.getElem?_append_left (by omega)]
    simp [h1]
  · subst h2
    rw [List.getElem?_append_right (by omega)]
    simp [hl]
  · rw [List.getElem?_append_right (by omega)]
    rw [hl]
    obtain ⟨d, hd⟩ : ∃ d, k - i = d + 1 := ⟨k - i - 1, by omega⟩
    rw [hd, List.getElem?_cons_succ, List.getElem?_drop]
    congr 1
    omega

end PM.C12.Solve

namespace PM.C12

variable {R : Type}

/-- row `n` of `embed m n Binv · M`: the quantity `cU_inv[0,0]·u[n,j] + cU_inv[0,1]·u[n+1,j]` of the code -/
theorem embed2_mul_row [CommRing R] {m n : ℕ} (hn : n + 1 < m) (Binv : Matrix (Fin 2) (Fin 2) R)
    (M : Matrix (Fin m) (Fin m) R) (j : Fin m) :
    (embed m n Binv * M) ⟨n, by omega⟩ j
      = Binv 0 0 * M ⟨n, by omega⟩ j + Binv 0 1 * M ⟨n + 1, hn⟩ j := by
  rw [Matrix.mul_apply]
  have hne : (⟨n, by omega⟩ : Fin m) ≠ ⟨n + 1, hn⟩ := by
    intro h; have := congrArg Fin.val h; simp at this
  rw [Finset.sum_eq_add (⟨n, by omega⟩ : Fin m) ⟨n + 1, hn⟩ hne]
  · have h0 : unshift m n 2 ⟨n, by omega⟩ = some 0 := by
      unfold unshift; rw [dif_pos (by constructor <;> simp)]; simp
    have h1 : unshift m n 2 ⟨n + 1, hn⟩ = some 1 := by
      unfold unshift; rw [dif_pos (by constructor <;> simp)]; simp
    simp only [embed, place, h0, h1]
  · intro c _ hc
    have hcn : unshift m n 2 c = none := by
      unfold unshift
      rw [dif_neg]
      intro h
      have h1 : c ≠ ⟨n, by omega⟩ := hc.1
      have h2 : c ≠ ⟨n + 1, hn⟩ := hc.2
      have h1' : c.val ≠ n := fun e => h1 (Fin.ext e)
      have h2' : c.val ≠ n + 1 := fun e => h2 (Fin.ext e)
      omega
    have h0 : unshift m n 2 ⟨n, by omega⟩ = some 0 := by
      unfold unshift; rw [dif_pos (by constructor <;> simp)]; simp
    simp only [embed, place, h0, hcn, zero_mul]
  · intro h; exact absurd (Finset.mem_univ _) h
  · intro h; exact absurd (Finset.mem_univ _) h
end PM.C12
