/-
  C02 helper lemmas: the SLOS polynomial-coefficient recursion equals the permanent.
-/
import PercevalModel.Model.C02
import PercevalModel.Lemmas.Permanent

open Matrix

namespace PM.C02
open PM.Fock

variable {R : Type*}

/-- decrement the count of mode `p` -/
def dec (t : List ℕ) (p : ℕ) : List ℕ := t.set p (t.getD p 0 - 1)

theorem decr_eq (t : List ℕ) (j : ℕ) :
    decr t j = if 0 < t.getD j 0 then some (dec t j) else none := rfl

@[simp] theorem dec_length (t : List ℕ) (p : ℕ) : (dec t p).length = t.length := by simp [dec]

theorem dec_cons_zero (c : ℕ) (r : List ℕ) : dec (c :: r) 0 = (c - 1) :: r := by simp [dec]
theorem dec_cons_succ (c : ℕ) (r : List ℕ) (p : ℕ) : dec (c :: r) (p + 1) = c :: dec r p := by
  simp [dec]

/-- erasing the `i`-th photon of the expanded list removes one photon from its mode -/
theorem expandFrom_eraseIdx : ∀ (s : List ℕ) (k i : ℕ), i < (expandFrom k s).length →
    ∃ p, p < s.length ∧ (expandFrom k s).getD i 0 = k + p ∧ 0 < s.getD p 0 ∧
      (expandFrom k s).eraseIdx i = expandFrom k (dec s p)
  | [], k, i, h => by simp [expandFrom] at h
  | c :: r, k, i, h => by
    simp only [expandFrom, List.length_append, List.length_replicate] at h
    by_cases hi : i < c
    · refine ⟨0, by simp, ?_, by simpa using (by omega : 0 < c), ?_⟩
      · simp [expandFrom, List.getD_eq_getElem?_getD, List.getElem?_append_left, hi]
      · rw [dec_cons_zero]
        simp only [expandFrom]
        rw [List.eraseIdx_append_of_lt_length (by simpa using hi)]
        congr 1
        simp [List.eraseIdx_replicate, hi]
    · have hi' : c ≤ i := by omega
      obtain ⟨p, hp, hv, hpos, he⟩ := expandFrom_eraseIdx r (k + 1) (i - c) (by omega)
      refine ⟨p + 1, by simpa using hp, ?_, by simpa using hpos, ?_⟩
      · simp only [expandFrom, List.getD_eq_getElem?_getD] at hv ⊢
        rw [List.getElem?_append_right (by simpa using hi')]
        simp only [List.length_replicate]
        rw [hv]; omega
      · rw [dec_cons_succ]
        simp only [expandFrom]
        rw [List.eraseIdx_append_of_length_le (by simpa using hi')]
        simp only [List.length_replicate]
        rw [he]

/-- summing a function of the mode over the expanded list groups by mode with multiplicity -/
theorem sum_map_expandFrom [CommRing R] (F : ℕ → R) : ∀ (s : List ℕ) (k : ℕ),
    ((expandFrom k s).map F).sum =
      ((List.range s.length).map fun p => (s.getD p 0 : R) * F (k + p)).sum
  | [], k => by simp [expandFrom]
  | c :: r, k => by
    simp only [expandFrom, List.map_append, List.sum_append, List.map_replicate,
      List.sum_replicate, List.length_cons]
    rw [sum_map_expandFrom F r (k + 1), List.range_succ_eq_map]
    simp only [List.map_cons, List.sum_cons, List.map_map, nsmul_eq_mul, List.getD_cons_zero,
      Nat.add_zero]
    congr 1
    apply congrArg
    apply List.map_congr_left
    intro p _
    simp only [Function.comp, List.getD_cons_succ]
    congr 2
    omega

theorem map_getD_range (l : List ℕ) (G : ℕ → R) :
    (List.range l.length).map (fun i => G (l.getD i 0)) = l.map G := by
  apply List.ext_getElem
  · simp
  · intro i h1 h2
    simp only [List.getElem_map, List.getElem_range, List.getD_eq_getElem?_getD]
    rw [List.getElem?_eq_getElem (by simpa using h1)]
    rfl

theorem prodFact_dec (t : List ℕ) (p : ℕ) (h : 0 < t.getD p 0) :
    prodFact t = t.getD p 0 * prodFact (dec t p) := by
  induction t generalizing p with
  | nil => simp at h
  | cons c r ih =>
    cases p with
    | zero =>
      simp only [List.getD_cons_zero] at h ⊢
      rw [dec_cons_zero]
      simp only [prodFact, List.map_cons, List.prod_cons]
      obtain ⟨c', rfl⟩ : ∃ c', c = c' + 1 := ⟨c - 1, by omega⟩
      simp [Nat.factorial_succ, Nat.mul_assoc]
    | succ p =>
      simp only [List.getD_cons_succ] at h ⊢
      rw [dec_cons_succ]
      simp only [prodFact, List.map_cons, List.prod_cons] at ih ⊢
      rw [ih p h]; ring

theorem sum_dec (t : List ℕ) (p : ℕ) (h : 0 < t.getD p 0) : (dec t p).sum + 1 = t.sum := by
  induction t generalizing p with
  | nil => simp at h
  | cons c r ih =>
    cases p with
    | zero =>
      simp only [List.getD_cons_zero] at h
      rw [dec_cons_zero]; simp; omega
    | succ p =>
      simp only [List.getD_cons_succ] at h
      rw [dec_cons_succ]
      have := ih p h
      simp; omega

theorem all_zero_of_sum_zero (t : List ℕ) (h : t.sum = 0) : t.all (· == 0) = true := by
  induction t with
  | nil => rfl
  | cons c r ih =>
    simp only [List.sum_cons] at h
    simp only [List.all_cons, Bool.and_eq_true, beq_iff_eq]
    exact ⟨by omega, ih (by omega)⟩

theorem prodFact_of_sum_zero (t : List ℕ) (h : t.sum = 0) : prodFact t = 1 := by
  induction t with
  | nil => rfl
  | cons c r ih =>
    simp only [List.sum_cons] at h
    have hc : c = 0 := by omega
    subst hc
    simp only [prodFact, List.map_cons, List.prod_cons, Nat.factorial_zero, one_mul] at ih ⊢
    exact ih (by omega)

/-- **SLOS layer recursion = permanent.**  Injecting the photons of input modes `cs` one layer
at a time, the coefficient of `x^t` times `∏ t!` is the permanent of the matrix with the rows
of `t` repeated and the columns `cs`. -/
theorem slosCoef_eq_permRec [CommRing R] {m : ℕ} (U : Matrix (Fin m) (Fin m) R) :
    ∀ (cs t : List ℕ), t.length = m → cs.length = t.sum →
      (prodFact t : R) * slosCoef U cs t = permRec (entry U) (expand t) cs
  | [], t, _, hs => by
    have h0 : t.sum = 0 := by simpa using hs.symm
    simp [slosCoef, permRec, all_zero_of_sum_zero t h0, prodFact_of_sum_zero t h0]
  | c :: cs, t, hm, hs => by
    have hs' : t.sum = cs.length + 1 := by simpa using hs.symm
    rw [permRec]
    -- rewrite every term of the expansion as a function of the erased photon's mode
    have hterm : ∀ i ∈ List.range (expand t).length,
        entry U ((expand t).getD i 0) c * permRec (entry U) ((expand t).eraseIdx i) cs =
        (fun p => entry U p c * permRec (entry U) (expand (dec t p)) cs) ((expand t).getD i 0) := by
      intro i hi
      obtain ⟨p, _, hv, _, he⟩ := expandFrom_eraseIdx t 0 i (by simpa [expand] using hi)
      simp only [expand] at hv he ⊢
      rw [he, hv]; simp
    rw [List.map_congr_left hterm, map_getD_range (expand t)
      (fun p => entry U p c * permRec (entry U) (expand (dec t p)) cs)]
    unfold expand
    rw [sum_map_expandFrom, hm, slosCoef, ← List.sum_map_mul_left]
    simp only [Nat.zero_add]
    apply congrArg
    apply List.map_congr_left
    intro j _
    simp only [Function.comp, decr_eq]
    by_cases hj : 0 < t.getD j 0
    · simp only [hj, ↓reduceIte]
      have ih := slosCoef_eq_permRec U cs (dec t j) (by simpa using hm)
        (by have := sum_dec t j hj; omega)
      rw [prodFact_dec t j hj]
      push_cast
      unfold expand at ih
      rw [← ih]; ring
    · have h0 : t[j]?.getD 0 = 0 := by rw [← List.getD_eq_getElem?_getD]; omega
      simp [h0]

end PM.C02
