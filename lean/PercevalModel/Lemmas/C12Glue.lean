/-
  C12 — the control flow of `Circuit.decomposition` (`Model/C12Glue.lean`), the order of the constraint loop of
  `decompose_triangle` and what `allow_error=True` does to `solve` (`Model/C12Solve.lean`).
-/
import PercevalModel.Model.C12Glue
import PercevalModel.Lemmas.C12Solve

namespace PM.C12.Glue

theorem loop_circuit (attempts : Nat → Bool) :
    ∀ (fuel count k : Nat), loop .triangle attempts fuel count = .circuit k ↔
      count ≤ k ∧ k < count + fuel ∧ attempts k = true ∧ ∀ i, count ≤ i → i < k → attempts i = false := by
  intro fuel
  induction fuel with
  | zero => intro count k; simp [loop]; intro h1 h2; omega
  | succ fuel ih =>
    intro count k
    unfold loop
    by_cases ha : attempts count = true
    · simp only [ha, if_true, Outcome.circuit.injEq]
      constructor
      · rintro rfl
        exact ⟨le_refl _, by omega, ha, fun i h1 h2 => by omega⟩
      · rintro ⟨h1, _, _, h4⟩
        by_contra hne
        have := h4 count (le_refl _) (by omega)
        rw [ha] at this
        cases this
    · have ha' : attempts count = false := by simpa using ha
      rw [ha']
      simp only [Bool.false_eq_true, if_false]
      rw [ih]
      constructor
      · rintro ⟨h1, h2, h3, h4⟩
        refine ⟨by omega, by omega, h3, fun i hi1 hi2 => ?_⟩
        by_cases hic : i = count
        · rw [hic]; exact ha'
        · exact h4 i (by omega) hi2
      · rintro ⟨h1, h2, h3, h4⟩
        have hk : k ≠ count := fun e => by rw [e, ha'] at h3; cases h3
        exact ⟨by omega, by omega, h3, fun i hi1 hi2 => h4 i (by omega) hi2⟩

theorem loop_none_triangle (attempts : Nat → Bool) :
    ∀ (fuel count : Nat), loop .triangle attempts fuel count = .none ↔
      ∀ i, count ≤ i → i < count + fuel → attempts i = false := by
  intro fuel
  induction fuel with
  | zero => intro count; simp [loop]; intro i h1 h2; omega
  | succ fuel ih =>
    intro count
    unfold loop
    by_cases ha : attempts count = true
    · simp only [ha, if_true]
      constructor
      · intro h; cases h
      · intro h
        have := h count (le_refl _) (by omega)
        rw [ha] at this
        cases this
    · have ha' : attempts count = false := by simpa using ha
      rw [ha']
      simp only [Bool.false_eq_true, if_false]
      rw [ih]
      constructor
      · intro h i h1 h2
        by_cases hic : i = count
        · rw [hic]; exact ha'
        · exact h i (by omega) (by omega)
      · intro h i h1 h2
        exact h i (by omega) (by omega)

theorem loop_not_triangle (sh : Shape) (hsh : sh ≠ .triangle) (attempts : Nat → Bool) (fuel count : Nat) :
    loop sh attempts fuel count = if fuel = 0 then .none else .notImplementedError := by
  cases fuel with
  | zero => rfl
  | succ fuel => cases sh <;> first | exact absurd rfl hsh | rfl

/-- the request passes the three checks made before the loop -/
def Valid (r : Req) (sh : Shape) : Prop :=
  resolve r.shape = some sh ∧ r.unitary = true ∧ r.symbolic = false ∧ constraintsOk r.constraints r.nparams = true

theorem outcome_of_valid {r : Req} {sh : Shape} (h : Valid r sh) (attempts : Nat → Bool) :
    outcome r attempts = loop sh attempts r.maxTry 0 := by
  obtain ⟨h1, h2, h3, h4⟩ := h
  simp [outcome, h1, h2, h3, h4]

theorem outcome_of_invalid {r : Req} (h : ∀ sh, ¬ Valid r sh) (attempts : Nat → Bool) :
    outcome r attempts = .valueError ∨ outcome r attempts = .assertionError := by
  unfold outcome
  cases hr : resolve r.shape with
  | none => exact Or.inl rfl
  | some sh =>
    simp only
    by_cases hu : (!r.unitary || r.symbolic) = true
    · rw [if_pos hu]; exact Or.inl rfl
    · rw [if_neg hu]
      by_cases hc : (!constraintsOk r.constraints r.nparams) = true
      · rw [if_pos hc]; exact Or.inr rfl
      · exfalso
        apply h sh
        simp only [Bool.or_eq_true, Bool.not_eq_true', not_or, Bool.not_eq_false, Bool.not_eq_true] at hu hc
        exact ⟨hr, hu.1, hu.2, hc⟩

end PM.C12.Glue

namespace PM.C12.Solve

variable {α β : Type}

/-- a parameter vector that has one value per parameter and carries every imposed value of the constraint entry -/
def Respects (c : List (Option α)) (x : List α) : Prop :=
  x.length = c.length ∧ ∀ (k : ℕ) (v : α), c[k]? = some (some v) → x[k]? = some v

/-- `allow_error=True`: `solve` never answers `None` -/
theorem solve_allow_error_isSome [AddGroup β] [LinearOrder β] (opt : (List α → β) → List α → List α) (prec : β)
    (f : List α → β) (x0 : List α) (cs : List (Option α)) : (solve opt true prec f x0 cs).isSome = true := by
  fun_induction solve opt true prec f x0 cs with
  | case1 f x0 cs hc => rfl
  | case2 f x0 cs hc i c hfs ih => simpa using ih
  | case3 f x0 cs hc hfs x' hbad => simp at hbad
  | case4 f x0 cs hc hfs x' hok => rfl

/-- the constraint loop of `decompose_triangle` (`for c in constraints: res = solve(…); if res is not None: break`):
the entries are tried IN ORDER, the retained vector is the answer of the first entry `solve` accepts -/
theorem solveCell_first [AddGroup β] [LinearOrder β] (opt : (List α → β) → List α → List α) (ae : Bool) (prec : β)
    (f : List α → β) (x0 : List α) (constraints : List (List (Option α))) (x : List α)
    (h : solveCell opt ae prec f x0 constraints = some x) :
    ∃ before c after, constraints = before ++ c :: after ∧ solve opt ae prec f x0 c = some x ∧
      ∀ c' ∈ before, solve opt ae prec f x0 c' = none := by
  obtain ⟨l₁, c, l₂, hl, hc, hb⟩ := List.findSome?_eq_some_iff.1 h
  exact ⟨l₁, c, l₂, hl, hc, hb⟩

/-- every parameter vector the constraint loop retains respects one of the listed constraints — the first one `solve`
accepts: one value per parameter, every imposed value at its own position (with or without `allow_error`; `hlen` is
the assertion of `Circuit.decomposition`: every entry has as many components as the block has free parameters) -/
theorem solveCell_respects [AddGroup β] [LinearOrder β] (opt : (List α → β) → List α → List α)
    (hopt : ∀ g y, (opt g y).length = y.length) (ae : Bool) (prec : β)
    (f : List α → β) (x0 : List α) (constraints : List (List (Option α)))
    (hlen : ∀ c ∈ constraints, x0.length = c.length) (x : List α)
    (h : solveCell opt ae prec f x0 constraints = some x) :
    ∃ before c after, constraints = before ++ c :: after ∧ Respects c x ∧
      ∀ c' ∈ before, solve opt ae prec f x0 c' = none := by
  obtain ⟨l₁, c, l₂, hl, hc, hb⟩ := solveCell_first opt ae prec f x0 constraints x h
  refine ⟨l₁, c, l₂, hl, ?_, hb⟩
  have hcm : c ∈ constraints := by rw [hl]; simp
  -- `solve_imposed` (Props/C12.lean) restated here to keep the lemma files free of a dependency on Props
  have key : ∀ (f : List α → β) (x0 : List α) (cs : List (Option α)) (x : List α), x0.length = cs.length →
      solve opt ae prec f x0 cs = some x → Respects cs x := by
    intro f x0 cs
    fun_induction solve opt ae prec f x0 cs with
    | case1 f x0 cs hc =>
      intro x hlen h
      simp only [Option.some.injEq] at h
      subst h
      have h0 : x0 = [] := by simpa using hc.1
      subst h0
      have hcs : cs = [] := List.length_eq_zero_iff.mp (by simpa using hlen.symm)
      subst hcs
      exact ⟨rfl, by simp⟩
    | case2 f x0 cs hc i c hfs ih =>
      intro x hlen h
      simp only [Option.map_eq_some_iff] at h
      obtain ⟨y, hy, rfl⟩ := h
      have hi := firstSome_lt hfs
      have hlen' : (x0.eraseIdx i).length = (cs.eraseIdx i).length := by
        rw [List.length_eraseIdx, List.length_eraseIdx, hlen]
      obtain ⟨hyl, hyv⟩ := ih y hlen' hy
      rw [List.length_eraseIdx, if_pos hi] at hyl
      have hiy : i ≤ y.length := by omega
      refine ⟨by rw [splice_length]; omega, ?_⟩
      intro k c' hk
      rw [splice_getElem? c hiy]
      split_ifs with h1 h2
      · apply hyv
        rw [List.getElem?_eraseIdx_of_lt h1]
        exact hk
      · subst h2
        rw [firstSome_get hfs] at hk
        simpa using hk
      · apply hyv
        rw [List.getElem?_eraseIdx_of_ge (by omega)]
        have : k - 1 + 1 = k := by omega
        rw [this]
        exact hk
    | case3 f x0 cs hc hfs x' hbad =>
      intro x hlen h
      exact absurd h (by simp)
    | case4 f x0 cs hc hfs x' hok =>
      intro x hlen h
      simp only [Option.some.injEq] at h
      subst h
      refine ⟨?_, fun k c hk => absurd hk (firstSome_none hfs k c)⟩
      show (if x0.isEmpty then [] else opt f x0).length = cs.length
      split_ifs with he
      · have : x0 = [] := by simpa using he
        simp [← hlen, this]
      · rw [hopt, hlen]
  exact key f x0 c x (hlen c hcm) hc

end PM.C12.Solve
