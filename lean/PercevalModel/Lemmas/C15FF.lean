/-
  C15 — helper lemmas for the feed-forward provider bookkeeping (`Model/C15FF.lean`).
-/
import PercevalModel.Model.C15FF

set_option linter.unusedSectionVars false

namespace PM.C15.FF

variable {κ α β : Type} [DecidableEq κ]

@[simp] theorem keys_nil : keys ([] : List (κ × α)) = [] := rfl
@[simp] theorem keys_cons (e : κ × α) (l : List (κ × α)) : keys (e :: l) = e.1 :: keys l := rfl
@[simp] theorem keys_append (l₁ l₂ : List (κ × α)) : keys (l₁ ++ l₂) = keys l₁ ++ keys l₂ := by
  simp [keys]

/-- assigning a new key appends -/
theorem assign_of_not_mem (k : κ) (c : α) :
    ∀ (l : List (κ × α)), k ∉ keys l → assign k c l = l ++ [(k, c)]
  | [], _ => rfl
  | (k', c') :: t, h => by
    rw [keys_cons, List.mem_cons, not_or] at h
    have hne : ¬ k' = k := fun e => h.1 e.symm
    simp only [assign, if_neg hne, assign_of_not_mem k c t h.2, List.cons_append]

theorem nodup_snoc {l : List κ} {k : κ} (h : l.Nodup) (hk : k ∉ l) : (l ++ [k]).Nodup := by
  induction l with
  | nil => simp
  | cons a t ih =>
    rw [List.nodup_cons] at h
    rw [List.mem_cons, not_or] at hk
    rw [List.cons_append, List.nodup_cons]
    refine ⟨?_, ih h.2 hk.2⟩
    rw [List.mem_append, List.mem_singleton, not_or]
    exact ⟨h.1, fun e => hk.1 e.symm⟩

/-! ### the maximum -/

theorem isMax_new (size : α → Nat) (d : α) : IsMax size d ([] : List (κ × α)) (size d) :=
  by
  refine ⟨Nat.le_refl _, ?_, Or.inl rfl⟩
  intro e he; cases he

theorem isMax_snoc_unblocked {size : α → Nat} {d : α} {l : List (κ × α)} {M : Nat}
    (h : IsMax size d l M) (k : κ) (c : α) : IsMax size d (l ++ [(k, c)]) (max M (size c)) := by
  obtain ⟨h1, h2, h3⟩ := h
  refine ⟨Nat.le_trans h1 (Nat.le_max_left _ _), ?_, ?_⟩
  · intro e he
    rw [List.mem_append, List.mem_singleton] at he
    rcases he with he | he
    · exact Nat.le_trans (h2 e he) (Nat.le_max_left _ _)
    · subst he; exact Nat.le_max_right _ _
  · by_cases hc : size c ≤ M
    · rw [Nat.max_eq_left hc]
      rcases h3 with h3 | ⟨e, he, hs⟩
      · exact Or.inl h3
      · exact Or.inr ⟨e, List.mem_append_left _ he, hs⟩
    · refine Or.inr ⟨(k, c), by simp, ?_⟩
      exact (Nat.max_eq_right (Nat.le_of_lt (Nat.lt_of_not_le hc))).symm

theorem isMax_snoc_blocked {size : α → Nat} {d : α} {l : List (κ × α)} {M : Nat}
    (h : IsMax size d l M) (k : κ) (c : α) (hc : size c = M) : IsMax size d (l ++ [(k, c)]) M := by
  obtain ⟨h1, h2, h3⟩ := h
  refine ⟨h1, ?_, ?_⟩
  · intro e he
    rw [List.mem_append, List.mem_singleton] at he
    rcases he with he | he
    · exact h2 e he
    · subst he; exact Nat.le_of_eq hc
  · rcases h3 with h3 | ⟨e, he, hs⟩
    · exact Or.inl h3
    · exact Or.inr ⟨e, List.mem_append_left _ he, hs⟩

/-- the maximum only depends on which entries there are -/
theorem isMax_unique {size : α → Nat} {d : α} {l l' : List (κ × α)} {M M' : Nat}
    (h : IsMax size d l M) (h' : IsMax size d l' M') (hmem : ∀ e, e ∈ l ↔ e ∈ l') : M = M' := by
  obtain ⟨a1, a2, a3⟩ := h
  obtain ⟨b1, b2, b3⟩ := h'
  have h1 : M ≤ M' := by
    rcases a3 with a3 | ⟨e, he, hs⟩
    · omega
    · have := b2 e ((hmem e).1 he); omega
  have h2 : M' ≤ M := by
    rcases b3 with b3 | ⟨e, he, hs⟩
    · omega
    · have := a2 e ((hmem e).2 he); omega
  omega

/-! ### calls on the object -/

theorem good_new (size : α → Nat) (m : Nat) (offset : Int) (name : String) (d : α) :
    Good size (Prov.new size m offset name d : Prov κ α) :=
  ⟨isMax_new size d, List.nodup_nil⟩

/-- adding a key that is not there yet keeps the invariant and appends the entry -/
theorem step_add_good {size : α → Nat} {p q : Prov κ α} {k : κ} {c : α} (hg : Good size p)
    (hk : k ∉ keys p.map) (hs : step size p (.add k c) = some q) :
    Good size q ∧ q.map = p.map ++ [(k, c)] := by
  have hmap := assign_of_not_mem k c p.map hk
  simp only [step] at hs
  split at hs
  · split at hs
    · rename_i hsz
      simp only [Option.some.injEq] at hs
      subst hs
      refine ⟨⟨?_, ?_⟩, hmap⟩
      · show IsMax size p.default (assign k c p.map) p.maxSize
        rw [hmap]; exact isMax_snoc_blocked hg.isMax k c hsz
      · show (keys (assign k c p.map)).Nodup
        rw [hmap, keys_append]; exact nodup_snoc hg.nodup hk
    · cases hs
  · simp only [Option.some.injEq] at hs
    subst hs
    refine ⟨⟨?_, ?_⟩, hmap⟩
    · show IsMax size p.default (assign k c p.map) (max p.maxSize (size c))
      rw [hmap]; exact isMax_snoc_unblocked hg.isMax k c
    · show (keys (assign k c p.map)).Nodup
      rw [hmap, keys_append]; exact nodup_snoc hg.nodup hk

/-- every history that never re-assigns a key keeps the invariant -/
theorem runOps_good (size : α → Nat) :
    ∀ (ops : List (Op κ α)) (p q : Prov κ α), Good size p →
      (∀ k ∈ addKeys ops, k ∉ keys p.map) → (addKeys ops).Nodup →
      runOps size p ops = some q → Good size q
  | [], p, q, hg, _, _, h => by
    simp only [runOps, Option.some.injEq] at h
    subst h; exact hg
  | .block :: t, p, q, hg, hk, hn, h =>
    runOps_good size t { p with blocked := true } q ⟨hg.isMax, hg.nodup⟩ hk hn h
  | .add k c :: t, p, q, hg, hk, hn, h => by
    have hk0 : k ∉ keys p.map := hk k (by simp [addKeys])
    cases hs : step size p (.add k c) with
    | none => simp [runOps, hs] at h
    | some p' =>
      have h' : runOps size p' t = some q := by simpa [runOps, hs] using h
      obtain ⟨hg', hm⟩ := step_add_good hg hk0 hs
      have hn' : k ∉ addKeys t ∧ (addKeys t).Nodup := by simpa [addKeys] using hn
      refine runOps_good size t p' q hg' ?_ hn'.2 h'
      intro k' hk'
      rw [hm, keys_append, List.mem_append, not_or]
      refine ⟨hk k' (by simp [addKeys, hk']), ?_⟩
      intro hmem
      have : k' = k := by simpa using hmem
      subst this
      exact hn'.1 hk'

/-! ### the reader -/

/-- reading the entries into an object that is not blocked never raises, appends them in the order met and
keeps the maximum -/
theorem readAll_unblocked {size : α → Nat} {enc : α → β} {dec : β → Option α} :
    ∀ (wire : List (κ × α)) (p : Prov κ α), p.blocked = false →
      (∀ e ∈ wire, dec (enc e.2) = some e.2) → (keys wire).Nodup → (∀ k ∈ keys wire, k ∉ keys p.map) →
      IsMax size p.default p.map p.maxSize →
      ∃ q, readAll dec size p (wire.map fun e => (e.1, enc e.2)) = some q ∧ q.map = p.map ++ wire ∧
        q.blocked = false ∧ q.m = p.m ∧ q.offset = p.offset ∧ q.name = p.name ∧ q.default = p.default ∧
        IsMax size q.default q.map q.maxSize
  | [], p, hb, _, _, _, hm => ⟨p, rfl, by simp, hb, rfl, rfl, rfl, rfl, hm⟩
  | (k, c) :: t, p, hb, hd, hn, hk, hm => by
    have hdc : dec (enc c) = some c := hd (k, c) (by simp)
    have hk0 : k ∉ keys p.map := hk k (by simp)
    have hmap : assign k c p.map = p.map ++ [(k, c)] := assign_of_not_mem k c p.map hk0
    have hs : step size p (.add k c)
        = some { p with maxSize := max p.maxSize (size c), map := p.map ++ [(k, c)] } := by
      simp [step, hb, hmap]
    rw [keys_cons, List.nodup_cons] at hn
    have hk' : ∀ k' ∈ keys t, k' ∉ keys (p.map ++ [(k, c)]) := by
      intro k' hk'
      rw [keys_append, List.mem_append, not_or]
      refine ⟨hk k' (by simp [hk']), ?_⟩
      intro hmem
      have : k' = k := by simpa using hmem
      subst this
      exact hn.1 hk'
    obtain ⟨q, hq, hqm, hqb, h1, h2, h3, h4, h5⟩ :=
      readAll_unblocked (size := size) (enc := enc) (dec := dec) t
        { p with maxSize := max p.maxSize (size c), map := p.map ++ [(k, c)] } hb
        (fun e he => hd e (List.mem_cons_of_mem _ he)) hn.2 hk' (isMax_snoc_unblocked hm k c)
    refine ⟨q, ?_, ?_, hqb, h1, h2, h3, h4, h5⟩
    · simp only [List.map_cons, readAll, hdc, hs, Option.bind]
      exact hq
    · rw [hqm]; simp

/-- the reader of the code, once the default circuit is decoded -/
theorem decProv_false (dec : β → Option α) (size : α → Nat) (m : Nat) (w : PbProv κ β) (d : α)
    (hd : dec w.default = some d) :
    decProv dec size false m w
      = (readAll dec size (Prov.new size m w.offset (if w.name = "" then "FFC" else w.name) d) w.configs).map
          (fun p => if w.block then { p with blocked := true } else p) := by
  simp [decProv, hd]

end PM.C15.FF
