/-
  C15 — helper lemmas for the feed-forward provider bookkeeping (`Model/C15FF.lean`).
-/
import PercevalModel.Model.C15FF

set_option linter.unusedSectionVars false

namespace PM.C15.FF

variable {κ α β : Type} [DecidableEq κ]

@[simp] theorem keys_nil : keys ([] : List (κ × α)) = [] := rfl
@[simp] theorem keys_cons (e : κ × α) (l : List (κ × α)) : keys (e :: l) = e.1 :: keys l := rfl
@[simp] theorem keys_append (l₁ l₂ : List (κ × α)) : keys (l₁ ++ l₂) = keys l₁ ++ keys l₂ := by
  simp [keys]

/-- assigning a new key appends -/
theorem assign_of_not_mem (k : κ) (c : α) :
    ∀ (l : List (κ × α)), k ∉ keys l → assign k c l = l ++ [(k, c)]
  | [], _ => rfl
  | (k', c') :: t, h => by
    rw [keys_cons, List.mem_cons, not_or] at h
    have hne : ¬ k' = k := fun e => h.1 e.symm
    simp only [assign, if_neg hne, assign_of_not_mem k c t h.2, List.cons_append]

theorem nodup_snoc {l : List κ} {k : κ} (h : l.Nodup) (hk : k ∉ l) : (l ++ [k]).Nodup := by
  induction l with
  | nil => simp
  | cons a t ih =>
    rw [List.nodup_cons] at h
    rw [List.mem_cons, not_or] at hk
    rw [List.cons_append, List.nodup_cons]
    refine ⟨?_, ih h.2 hk.2⟩
    rw [List.mem_append, List.mem_singleton, not_or]
    exact ⟨h.1, fun e => hk.1 e.symm⟩

/-! ### the maximum -/

theorem isMax_new (size : α → Nat) (d : α) : IsMax size d ([] : List (κ × α)) (size d) :=
  by
  refine ⟨Nat.le_refl _, ?_, Or.inl rfl⟩
  intro e he; cases he

theorem isMax_snoc_unblocked {size : α → Nat} {d : α} {l : List (κ × α)} {M : Nat}
    (h : IsMax size d l M) (k : κ) (c : α) : IsMax size d (l ++ [(k, c)]) (max M (size c)) := by
  obtain ⟨h1, h2, h3⟩ := h
  refine ⟨Nat.le_trans h1 (Nat.le_max_left _ _), ?_, ?_⟩
  · intro e he
    rw [List.mem_append, List.mem_singleton] at he
    rcases he with he | he
    · exact Nat.le_trans (h2 e he) (Nat.le_max_left _ _)
    · subst he; exact Nat.le_max_right _ _
  · by_cases hc : size c ≤ M
    · rw [Nat.max_eq_left hc]
      rcases h3 with h3 | ⟨e, he, hs⟩
      · exact Or.inl h3
      · exact Or.inr ⟨e, List.mem_append_left _ he, hs⟩
    · refine Or.inr ⟨(k, c), by simp, ?_⟩
      exact (Nat.max_eq_right (Nat.le_of_lt (Nat.lt_of_not_le hc))).symm

theorem isMax_snoc_blocked {size : α → Nat} {d : α} {l : List (κ × α)} {M : Nat}
    (h : IsMax size d l M) (k : κ) (c : α) (hc : size c = M) : IsMax size d (l ++ [(k, c)]) M := by
  obtain ⟨h1, h2, h3⟩ := h
  refine ⟨h1, ?_, ?_⟩
  · intro e he
    rw [List.mem_append, List.mem_singleton] at he
    rcases he with he | he
    · exact h2 e he
    · subst he; exact Nat.le_of_eq hc
  · rcases h3 with h3 | ⟨e, he, hs⟩
    · exact Or.inl h3
    · exact Or.inr ⟨e, List.mem_append_left _ he, hs⟩

/-- the maximum only depends on which entries there are -/
theorem isMax_unique {size : α → Nat} {d : α} {l l' : List (κ × α)} {M M' : Nat}
    (h : IsMax size d l M) (h' : IsMax size d l' M') (hmem : ∀ e, e ∈ l ↔ e ∈ l') : M = M' := by
  obtain ⟨a1, a2, a3⟩ := h
  obtain ⟨b1, b2, b3⟩ := h'
  have h1 : M ≤ M' := by
    rcases a3 with a3 | ⟨e, he, hs⟩
    · omega
    · have := b2 e ((hmem e).1 he); omega
  have h2 : M' ≤ M := by
    rcases b3 with b3 | ⟨e, he, hs⟩
    · omega
    · have := a2 e ((hmem e).2 he); omega
  omega

/-! ### calls on the object -/

theorem good_new (size : α → Nat) (m : Nat) (offset : Int) (name : String) (d : α) :
    Good size (Prov.new size m offset name d : Prov κ α) :=
  ⟨isMax_new size d, List.nodup_nil⟩

/-- adding a key that is not there yet keeps the invariant and appends the entry -/
theorem step_add_good {size : α → Nat} {p q : Prov κ α} {k : κ} {c : α} (hg : Good size p)
    (hk : k ∉ keys p.map) (hs : step size p (.add k c) = some q) :
    Good size q ∧ q.map = p.map ++ [(k, c)] := by
  have hmap := assign_of_not_mem k c p.map hk
  simp only [step] at hs
  split at hs
  · split at hs
    · rename_i hsz
      simp only [Option.some.injEq] at hs
      subst hs
      refine ⟨⟨?_, ?_⟩, hmap⟩
      · show IsMax size p.default (assign k c p.map) p.maxSize
        rw [hmap]; exact isMax_snoc_blocked hg.isMax k c hsz
      · show (keys (assign k c p.map)).Nodup
        rw [hmap, keys_append]; exact nodup_snoc hg.nodup hk
    · cases hs
  · simp only [Option.some.injEq] at hs
    subst hs
    refine ⟨⟨?_, ?_⟩, hmap⟩
    · show IsMax size p.default (assign k c p.map) (max p.maxSize (size c))
      rw [hmap]; exact isMax_snoc_unblocked hg.isMax k c
    · show (keys (assign k c p.map)).Nodup
      rw [hmap, keys_append]; exact nodup_snoc hg.nodup hk

/-- every history that never re-assigns a key keeps the invariant -/
theorem runOps_good (size : α → Nat) :
    ∀ (ops : List (Op κ α)) (p q : Prov κ α), Good size p →
      (∀ k ∈ addKeys ops, k ∉ keys p.map) → (addKeys ops).Nodup →
      runOps size p ops = some q → Good size q
  | [], p, q, hg, _, _, h => by
    simp only [runOps, Option.some.injEq] at h
    subst h; exact hg
  | .block :: t, p, q, hg, hk, hn, h =>
    runOps_good size t { p with blocked := true } q ⟨hg.isMax, hg.nodup⟩ hk hn h
  | .add k c :: t, p, q, hg, hk, hn, h => by
    have hk0 : k ∉ keys p.map := hk k (by simp [addKeys])
    cases hs : step size p (.add k c) with
    | none => simp [runOps, hs] at h
    | some p' =>
      have h' : runOps size p' t = some q := by simpa [runOps, hs] using h
      obtain ⟨hg', hm⟩ := step_add_good hg hk0 hs
      have hn' : k ∉ addKeys t ∧ (addKeys t).Nodup := by simpa [addKeys] using hn
      refine runOps_good size t p' q hg' ?_ hn'.2 h'
      intro k' hk'
      rw [hm, keys_append, List.mem_append, not_or]
      refine ⟨hk k' (by simp [addKeys, hk']), ?_⟩
      intro hmem
      have : k' = k := by simpa using hmem
      subst this
      exact hn'.1 hk'

/-! ### the reader -/

/-- reading the entries into an object that is not blocked never raises, appends them in the order met and
keeps the maximum -/
theorem readAll_unblocked {size : α → Nat} {enc : α → β} {dec : β → Option α} :
    ∀ (wire : List (κ × α)) (p : Prov κ α), p.blocked = false →
      (∀ e ∈ wire, dec (enc e.2) = some e.2) → (keys wire).Nodup → (∀ k ∈ keys wire, k ∉ keys p.map) →
      IsMax size p.default p.map p.maxSize →
      ∃ q, readAll dec size p (wire.map fun e => (e.1, enc e.2)) = some q ∧ q.map = p.map ++ wire ∧
        q.blocked = false ∧ q.m = p.m ∧ q.offset = p.offset ∧ q.name = p.name ∧ q.default = p.default ∧
        IsMax size q.default q.map q.maxSize
  | [], p, hb, _, _, _, hm => ⟨p, rfl, by simp, hb, rfl, rfl, rfl, rfl, hm⟩
  | (k, c) :: t, p, hb, hd, hn, hk, hm => by
    have hdc : dec (enc c) = some c := hd (k, c) (by simp)
    have hk0 : k ∉ keys p.map := hk k (by simp)
    have hmap : assign k c p.map = p.map ++ [(k, c)] := assign_of_not_mem k c p.map hk0
    have hs : step size p (.add k c)
        = some { p with maxSize := max p.maxSize (size c), map := p.map ++ [(k, c)] } := by
      simp [step, hb, hmap]
    rw [keys_cons, List.nodup_cons] at hn
    have hk' : ∀ k' ∈ keys t, k' ∉ keys (p.map ++ [(k, c)]) := by
      intro k' hk'
      rw [keys_append, List.mem_append, not_or]
      refine ⟨hk k' (by simp [hk']), ?_⟩
      intro hmem
      have : k' = k := by simpa using hmem
      subst this
      exact hn.1 hk'
    obtain ⟨q, hq, hqm, hqb, h1, h2, h3, h4, h5⟩ :=
      readAll_unblocked (size := size) (enc := enc) (dec := dec) t
        { p with maxSize := max p.maxSize (size c), map := p.map ++ [(k, c)] } hb
        (fun e he => hd e (List.mem_cons_of_mem _ he)) hn.2 hk' (isMax_snoc_unblocked hm k c)
    refine ⟨q, ?_, ?_, hqb, h1, h2, h3, h4, h5⟩
    · simp only [List.map_cons, readAll, hdc, hs, Option.bind]
      exact hq
    · rw [hqm]; simp

/-- the reader of the code, once the default circuit is decoded -/
theorem decProv_false (dec : β → Option α) (size : α → Nat) (m : Nat) (w : PbProv κ β) (d : α)
    (hd : dec w.default = some d) :
    decProv dec size false m w
      = (readAll dec size (Prov.new size m w.offset (if w.name = "" then "FFC" else w.name) d) w.configs).map
          (fun p => if w.block then { p with blocked := true } else p) := by
  simp [decProv, hd]

/-! ### any history: re-assigned keys included -/

theorem mem_assign {k : κ} {c : α} : ∀ {l : List (κ × α)} {e : κ × α}, e ∈ assign k c l → e = (k, c) ∨ e ∈ l
  | [], e, h => by
    simp only [assign, List.mem_singleton] at h
    exact Or.inl h
  | (k', c') :: t, e, h => by
    simp only [assign] at h
    split at h
    · rw [List.mem_cons] at h
      rcases h with h | h
      · exact Or.inl h
      · exact Or.inr (List.mem_cons_of_mem _ h)
    · rw [List.mem_cons] at h
      rcases h with h | h
      · exact Or.inr (h ▸ List.mem_cons_self)
      · rcases mem_assign h with h | h
        · exact Or.inl h
        · exact Or.inr (List.mem_cons_of_mem _ h)

/-- assigning an existing key keeps the keys (and their order) -/
theorem keys_assign_of_mem {k : κ} {c : α} : ∀ {l : List (κ × α)}, k ∈ keys l → keys (assign k c l) = keys l
  | [], h => by cases h
  | (k', c') :: t, h => by
    simp only [assign]
    split
    · rename_i hk; subst hk; rfl
    · rename_i hk
      rw [keys_cons, List.mem_cons] at h
      have : k ∈ keys t := h.resolve_left fun e => hk e.symm
      rw [keys_cons, keys_cons, keys_assign_of_mem this]

/-- a dict assignment keeps the keys distinct -/
theorem nodup_assign {k : κ} {c : α} {l : List (κ × α)} (h : (keys l).Nodup) : (keys (assign k c l)).Nodup := by
  by_cases hk : k ∈ keys l
  · rw [keys_assign_of_mem hk]; exact h
  · rw [assign_of_not_mem k c l hk, keys_append]; exact nodup_snoc h hk

theorem inv_new (size : α → Nat) (m : Nat) (offset : Int) (name : String) (d : α) :
    Inv size (Prov.new size m offset name d : Prov κ α) :=
  ⟨List.nodup_nil, Nat.le_refl _, fun _ h => nomatch h⟩

/-- every call keeps `Inv` -/
theorem step_inv {size : α → Nat} {p q : Prov κ α} {o : Op κ α} (hi : Inv size p)
    (hs : step size p o = some q) : Inv size q := by
  cases o with
  | block =>
    simp only [step, Option.some.injEq] at hs
    subst hs; exact ⟨hi.nodup, hi.defLe, hi.mapLe⟩
  | add k c =>
    simp only [step] at hs
    split at hs
    · split at hs
      · rename_i hsz
        simp only [Option.some.injEq] at hs
        subst hs
        refine ⟨nodup_assign hi.nodup, hi.defLe, ?_⟩
        intro e he
        rcases mem_assign he with he | he
        · subst he; exact Nat.le_of_eq hsz
        · exact hi.mapLe e he
      · cases hs
    · simp only [Option.some.injEq] at hs
      subst hs
      refine ⟨nodup_assign hi.nodup, Nat.le_trans hi.defLe (Nat.le_max_left _ _), ?_⟩
      intro e he
      rcases mem_assign he with he | he
      · subst he; exact Nat.le_max_right _ _
      · exact Nat.le_trans (hi.mapLe e he) (Nat.le_max_left _ _)

/-- every history keeps `Inv` -/
theorem runOps_inv (size : α → Nat) :
    ∀ (ops : List (Op κ α)) (p q : Prov κ α), Inv size p → runOps size p ops = some q → Inv size q
  | [], p, q, hi, h => by
    simp only [runOps, Option.some.injEq] at h
    subst h; exact hi
  | o :: t, p, q, hi, h => by
    cases hs : step size p o with
    | none => simp [runOps, hs] at h
    | some p' =>
      have h' : runOps size p' t = some q := by simpa [runOps, hs] using h
      exact runOps_inv size t p' q (step_inv hi hs) h'

/-- every provider state reachable from the constructor, by any history of calls, satisfies `Inv` -/
theorem reachable_inv (size : α → Nat) (m : Nat) (offset : Int) (name : String) (d : α)
    (ops : List (Op κ α)) (p : Prov κ α) (h : runOps size (Prov.new size m offset name d) ops = some p) :
    Inv size p :=
  runOps_inv size ops _ p (inv_new size m offset name d) h

theorem foldl_max_spec (size : α → Nat) : ∀ (l : List (κ × α)) (M0 : Nat),
    M0 ≤ l.foldl (fun M e => max M (size e.2)) M0 ∧
    (∀ e ∈ l, size e.2 ≤ l.foldl (fun M e => max M (size e.2)) M0) ∧
    (l.foldl (fun M e => max M (size e.2)) M0 = M0 ∨ ∃ e ∈ l, size e.2 = l.foldl (fun M e => max M (size e.2)) M0)
  | [], M0 => ⟨Nat.le_refl _, (fun _ h => nomatch h), Or.inl rfl⟩
  | e :: t, M0 => by
    obtain ⟨h1, h2, h3⟩ := foldl_max_spec size t (max M0 (size e.2))
    simp only [List.foldl_cons]
    refine ⟨Nat.le_trans (Nat.le_max_left _ _) h1, ?_, ?_⟩
    · intro e' he'
      rw [List.mem_cons] at he'
      rcases he' with he' | he'
      · subst he'; exact Nat.le_trans (Nat.le_max_right _ _) h1
      · exact h2 e' he'
    · rcases h3 with h3 | ⟨e', he', hs⟩
      · rw [h3]
        by_cases hc : size e.2 ≤ M0
        · exact Or.inl (Nat.max_eq_left hc)
        · exact Or.inr ⟨e, List.mem_cons_self, (Nat.max_eq_right (Nat.le_of_lt (Nat.lt_of_not_le hc))).symm⟩
      · exact Or.inr ⟨e', List.mem_cons_of_mem _ he', hs⟩

/-- `trueMax` is the maximum -/
theorem trueMax_isMax (size : α → Nat) (d : α) (l : List (κ × α)) : IsMax size d l (trueMax size d l) := by
  obtain ⟨h1, h2, h3⟩ := foldl_max_spec size l (size d)
  exact ⟨h1, h2, h3⟩

theorem isMax_iff_eq_trueMax {size : α → Nat} {d : α} {l : List (κ × α)} {M : Nat} :
    IsMax size d l M ↔ M = trueMax size d l :=
  ⟨fun h => isMax_unique h (trueMax_isMax size d l) fun _ => Iff.rfl, fun h => h ▸ trueMax_isMax size d l⟩

theorem trueMax_perm (size : α → Nat) (d : α) {l l' : List (κ × α)} (h : l.Perm l') :
    trueMax size d l = trueMax size d l' :=
  isMax_unique (trueMax_isMax size d l) (trueMax_isMax size d l') fun _ => h.mem_iff

/-- the stored maximal size is never below the true one -/
theorem trueMax_le_of_inv {size : α → Nat} {p : Prov κ α} (hi : Inv size p) :
    trueMax size p.default p.map ≤ p.maxSize := by
  obtain ⟨_, _, h3⟩ := trueMax_isMax size p.default p.map
  rcases h3 with h3 | ⟨e, he, hs⟩
  · rw [h3]; exact hi.defLe
  · rw [← hs]; exact hi.mapLe e he

/-- `config_modes` only depends on the stored maximal size through the number of modes and, for a negative
offset, the first mode -/
theorem configModes_eq_iff (offset : Int) (M M' : Nat) (first last : Int) :
    configModes offset M first last = configModes offset M' first last ↔ M = M' := by
  unfold configModes
  constructor
  · intro h
    split at h
    · exact (Prod.mk.injEq .. ▸ h).2
    · exact (Prod.mk.injEq .. ▸ h).2
  · intro h; subst h; rfl

/-- ANY history: the reader never raises; it returns the same name (default-name rule), offset, default circuit,
flag and entries, and the TRUE maximum as maximal size — whatever the stored one was.  The rebuilt provider is
`Good`; it is the original one iff the stored maximal size was still attained. -/
theorem roundtrip_provider_any (size : α → Nat) (enc : α → β) (dec : β → Option α) (p : Prov κ α)
    (hi : Inv size p) (hdef : dec (enc p.default) = some p.default)
    (hpay : ∀ e ∈ p.map, dec (enc e.2) = some e.2) (wire : List (κ × α)) (hw : wire.Perm p.map) :
    ∃ q, decProv dec size false p.m (encProv enc p wire) = some q ∧
      q.m = p.m ∧ q.offset = p.offset ∧ q.name = (if p.name = "" then "FFC" else p.name) ∧
      q.default = p.default ∧ q.blocked = p.blocked ∧ q.map = wire ∧ q.map.Perm p.map ∧
      q.maxSize = trueMax size p.default p.map ∧ q.maxSize ≤ p.maxSize ∧
      (q.maxSize = p.maxSize ↔ IsMax size p.default p.map p.maxSize) ∧ Good size q := by
  have hnd : (keys wire).Nodup := ((hw.map Prod.fst).nodup_iff).2 hi.nodup
  obtain ⟨q, hq, hqm, hqb, h1, h2, h3, h4, h5⟩ :=
    readAll_unblocked (size := size) (enc := enc) (dec := dec) wire
      (Prov.new size p.m p.offset (if p.name = "" then "FFC" else p.name) p.default) rfl
      (fun e he => hpay e (hw.mem_iff.1 he)) hnd (fun _ _ hk => nomatch hk) (isMax_new size p.default)
  have hqm' : q.map = wire := by rw [hqm]; rfl
  have hmax : q.maxSize = trueMax size p.default p.map := by
    have := isMax_iff_eq_trueMax.1 h5
    rw [this, h4, hqm']; exact trueMax_perm size p.default hw
  have hle : q.maxSize ≤ p.maxSize := hmax ▸ trueMax_le_of_inv hi
  have hiff : q.maxSize = p.maxSize ↔ IsMax size p.default p.map p.maxSize := by
    rw [isMax_iff_eq_trueMax, hmax]; exact eq_comm
  have hnd' : (keys q.map).Nodup := hqm' ▸ hnd
  refine ⟨if p.blocked then { q with blocked := true } else q, ?_, ?_⟩
  · rw [decProv_false dec size p.m (encProv enc p wire) p.default hdef]
    show (readAll dec size (Prov.new size p.m p.offset (if p.name = "" then "FFC" else p.name) p.default)
      (wire.map fun e => (e.1, enc e.2))).map (fun q => if p.blocked then { q with blocked := true } else q) = _
    rw [hq]; rfl
  · cases hb : p.blocked
    · simp only [Bool.false_eq_true, if_false]
      exact ⟨h1, h2, h3, h4, hqb, hqm', hqm' ▸ hw, hmax, hle, hiff, ⟨h5, hnd'⟩⟩
    · simp only [if_true]
      exact ⟨h1, h2, h3, h4, trivial, hqm', hqm' ▸ hw, hmax, hle, hiff, ⟨h5, hnd'⟩⟩

/-- …consequently `config_modes` of the rebuilt provider equals the original one iff the stored maximal
size was still attained (otherwise fewer modes and, for a negative offset, a first mode further down). -/
theorem roundtrip_provider_any_configModes (size : α → Nat) (enc : α → β) (dec : β → Option α) (p : Prov κ α)
    (hi : Inv size p) (hdef : dec (enc p.default) = some p.default)
    (hpay : ∀ e ∈ p.map, dec (enc e.2) = some e.2) (wire : List (κ × α)) (hw : wire.Perm p.map)
    (q : Prov κ α) (hq : decProv dec size false p.m (encProv enc p wire) = some q) (first last : Int) :
    configModes q.offset q.maxSize first last = configModes p.offset p.maxSize first last ↔
      IsMax size p.default p.map p.maxSize := by
  obtain ⟨q', hq', _, ho, _, _, _, _, _, _, _, hiff, _⟩ := roundtrip_provider_any size enc dec p hi hdef hpay wire hw
  rw [hq] at hq'
  cases hq'
  rw [ho, configModes_eq_iff]; exact hiff

/-- the round trip is idempotent: serialising the rebuilt provider again and reading it back returns it
(up to the order of the dict) — one trip normalises the maximal size. -/
theorem roundtrip_provider_second (size : α → Nat) (enc : α → β) (dec : β → Option α) (p : Prov κ α)
    (hi : Inv size p) (hdef : dec (enc p.default) = some p.default)
    (hpay : ∀ e ∈ p.map, dec (enc e.2) = some e.2) (wire : List (κ × α)) (hw : wire.Perm p.map)
    (q : Prov κ α) (hq : decProv dec size false p.m (encProv enc p wire) = some q)
    (wire' : List (κ × α)) (hw' : wire'.Perm q.map) :
    ∃ r, decProv dec size false q.m (encProv enc q wire') = some r ∧ Equiv r q := by
  obtain ⟨q', hq', _, _, hn, hd, _, _, hm, _, _, _, hg⟩ := roundtrip_provider_any size enc dec p hi hdef hpay wire hw
  rw [hq] at hq'
  cases hq'
  have hname : q.name ≠ "" := by
    rw [hn]; split
    · decide
    · assumption
  -- the existing theorem for `Good` objects (Props/C15.lean `FF.roundtrip_provider`), re-proved here from `…_any`
  obtain ⟨r, hr, h1, h2, h3, h4, h5, _, h7, h8, _, h10, _⟩ :=
    roundtrip_provider_any size enc dec q ⟨hg.nodup, hg.isMax.1, hg.isMax.2.1⟩ (hd ▸ hdef)
      (fun e he => hpay e (hm.mem_iff.1 he)) wire' hw'
  refine ⟨r, hr, h1, h2, ?_, h4, ?_, h5, h7⟩
  · rw [h3, if_neg hname]
  · exact h10.2 hg.isMax

end PM.C15.FF

/-! ## feed-forward configurators (`FFConfigurator`) -/

namespace PM.C15.FFC

open PM.C15.FF (assign keys keys_cons keys_append keys_nil assign_of_not_mem)

variable {κ γ δ V : Type} [DecidableEq κ]

/-! ### pair lists -/

/-- in a dict (distinct first components) a key has one value -/
theorem eq_of_mem_of_nodup {A B : Type} : ∀ {l : List (A × B)} {a : A} {b b' : B},
    (l.map Prod.fst).Nodup → (a, b) ∈ l → (a, b') ∈ l → b = b'
  | [], _, _, _, _, h, _ => nomatch h
  | e :: t, a, b, b', hn, h, h' => by
    rw [List.map_cons, List.nodup_cons] at hn
    rw [List.mem_cons] at h h'
    rcases h with h | h <;> rcases h' with h' | h'
    · have := h.trans h'.symm
      exact (Prod.mk.injEq .. ▸ this).2
    · exact absurd (List.mem_map.2 ⟨(a, b'), h', rfl⟩) (by rw [← h] at hn; exact hn.1)
    · exact absurd (List.mem_map.2 ⟨(a, b), h, rfl⟩) (by rw [← h'] at hn; exact hn.1)
    · exact eq_of_mem_of_nodup hn.2 h h'

/-- a list without repetition that is contained in a list that is not longer covers it -/
theorem subset_of_nodup_of_length_le {A : Type} [DecidableEq A] : ∀ {l₁ l₂ : List A},
    l₁.Nodup → (∀ a ∈ l₁, a ∈ l₂) → l₂.length ≤ l₁.length → ∀ b ∈ l₂, b ∈ l₁
  | [], l₂, _, _, hl, b, hb => by
    have : l₂ = [] := List.eq_nil_of_length_eq_zero (Nat.le_zero.1 hl)
    subst this; cases hb
  | a :: t, l₂, hn, hs, hl, b, hb => by
    rw [List.nodup_cons] at hn
    have ha : a ∈ l₂ := hs a List.mem_cons_self
    by_cases hba : b = a
    · subst hba; exact List.mem_cons_self
    · refine List.mem_cons_of_mem _ (subset_of_nodup_of_length_le (l₂ := l₂.erase a) hn.2 ?_ ?_ b ?_)
      · intro c hc
        have hca : c ≠ a := fun e => hn.1 (e ▸ hc)
        exact (List.mem_erase_of_ne hca).2 (hs c (List.mem_cons_of_mem _ hc))
      · rw [List.length_erase_of_mem ha]
        simp only [List.length_cons] at hl
        omega
      · exact (List.mem_erase_of_ne hba).2 hb

/-! ### tables -/

@[simp] theorem names_mapT (f : V → V) (t : Table V) : names (mapT f t) = names t := by
  simp [names, mapT, List.map_map, Function.comp_def]

@[simp] theorem length_mapT (f : V → V) (t : Table V) : (mapT f t).length = t.length := by
  simp [mapT]

@[simp] theorem keys_mapC (f : V → V) (l : List (κ × Table V)) : keys (mapC f l) = keys l := by
  simp [keys, mapC, List.map_map, Function.comp_def]

theorem mapT_id (t : Table V) : mapT (fun v => v) t = t := by
  simp [mapT]

theorem mapC_id (l : List (κ × Table V)) : mapC (fun v => v) l = l := by
  simp [mapC, mapT_id]

theorem mapT_congr {f g : V → V} {t : Table V} (h : ∀ e ∈ t, f e.2 = g e.2) : mapT f t = mapT g t := by
  simp only [mapT]
  exact List.map_congr_left fun e he => by rw [h e he]

theorem mapC_congr {f g : V → V} {l : List (κ × Table V)} (h : ∀ c ∈ l, ∀ e ∈ c.2, f e.2 = g e.2) :
    mapC f l = mapC g l := by
  simp only [mapC]
  exact List.map_congr_left fun c hc => by rw [mapT_congr (h c hc)]

theorem checkConfig_ok_iff (linked : List String) (t : Table V) :
    checkConfig linked t = .ok () ↔ t.length = linked.length ∧ ∀ n ∈ names t, n ∈ linked := by
  unfold checkConfig
  by_cases hl : t.length = linked.length
  · simp only [hl, ne_eq, not_true_eq_false, if_false, true_and]
    cases hf : (names t).find? (fun n => !linked.contains n) with
    | none =>
      simp only [true_iff]
      intro n hn
      have := List.find?_eq_none.1 hf n hn
      simpa using this
    | some n =>
      simp only [reduceCtorEq, false_iff]
      intro hall
      have h1 := List.find?_some hf
      have h2 := hall n (List.mem_of_find?_eq_some hf)
      simp [h2] at h1
  · simp [hl]

theorem assignAll_ok_iff (free : List String) (t : Table V) :
    assignAll free t = .ok () ↔ ∀ n ∈ names t, n ∈ free := by
  unfold assignAll
  cases hf : (names t).find? (fun n => !free.contains n) with
  | none =>
    simp only [true_iff]
    intro n hn
    have := List.find?_eq_none.1 hf n hn
    simpa using this
  | some n =>
    simp only [reduceCtorEq, false_iff]
    intro hall
    have h1 := List.find?_some hf
    have h2 := hall n (List.mem_of_find?_eq_some hf)
    simp [h2] at h1

/-- `assign` raises `KeyError` for a name of the table that is not a variable of the copy -/
theorem assignAll_error {free : List String} {t : Table V} (h : ∃ n ∈ names t, n ∉ free) :
    ∃ n, n ∈ names t ∧ n ∉ free ∧ assignAll free t = .error (.key n) := by
  unfold assignAll
  cases hf : (names t).find? (fun n => !free.contains n) with
  | none =>
    obtain ⟨n, hn, hnf⟩ := h
    have := List.find?_eq_none.1 hf n hn
    simp [hnf] at this
  | some n =>
    refine ⟨n, List.mem_of_find?_eq_some hf, ?_, rfl⟩
    have h1 := List.find?_some hf
    simpa using h1

/-! ### wire orders -/

theorem TablesMatch.refl : ∀ (l : List (κ × Table V)), TablesMatch l l
  | [] => trivial
  | _ :: t => ⟨rfl, List.Perm.refl _, TablesMatch.refl t⟩

theorem TablesMatch.keys_eq : ∀ {a l : List (κ × Table V)}, TablesMatch a l → keys a = keys l
  | [], [], _ => rfl
  | [], _ :: _, h => nomatch h
  | _ :: _, [], h => nomatch h
  | _ :: _, _ :: _, h => by
    rw [keys_cons, keys_cons, h.1, TablesMatch.keys_eq h.2.2]

theorem TablesMatch.left : ∀ {a l : List (κ × Table V)}, TablesMatch a l →
    ∀ e ∈ a, ∃ f ∈ l, e.1 = f.1 ∧ e.2.Perm f.2
  | [], _, _, _, he => nomatch he
  | _ :: _, [], h, _, _ => nomatch h
  | e :: a, f :: l, h, e', he' => by
    rw [List.mem_cons] at he'
    rcases he' with he' | he'
    · subst he'; exact ⟨f, List.mem_cons_self, h.1, h.2.1⟩
    · obtain ⟨f', hf', h'⟩ := TablesMatch.left h.2.2 e' he'
      exact ⟨f', List.mem_cons_of_mem _ hf', h'⟩

theorem TablesMatch.right : ∀ {a l : List (κ × Table V)}, TablesMatch a l →
    ∀ f ∈ l, ∃ e ∈ a, e.1 = f.1 ∧ e.2.Perm f.2
  | _, [], _, _, hf => nomatch hf
  | [], _ :: _, h, _, _ => nomatch h
  | e :: a, f :: l, h, f', hf' => by
    rw [List.mem_cons] at hf'
    rcases hf' with hf' | hf'
    · subst hf'; exact ⟨e, List.mem_cons_self, h.1, h.2.1⟩
    · obtain ⟨e', he', h'⟩ := TablesMatch.right h.2.2 f' hf'
      exact ⟨e', List.mem_cons_of_mem _ he', h'⟩

theorem TablesMatch.mapC (f : V → V) : ∀ {a l : List (κ × Table V)}, TablesMatch a l →
    TablesMatch (mapC f a) (mapC f l)
  | [], [], _ => trivial
  | [], _ :: _, h => nomatch h
  | _ :: _, [], h => nomatch h
  | _ :: _, _ :: _, h => ⟨h.1, h.2.1.map _, TablesMatch.mapC f h.2.2⟩

theorem CfgPerm.refl (l : List (κ × Table V)) : CfgPerm l l := ⟨l, List.Perm.refl _, TablesMatch.refl l⟩

theorem CfgPerm.of_perm {a b : List (κ × Table V)} (h : a.Perm b) : CfgPerm a b := ⟨a, h, TablesMatch.refl a⟩

theorem CfgPerm.keys_perm {a b : List (κ × Table V)} (h : CfgPerm a b) : (keys a).Perm (keys b) := by
  obtain ⟨l, hl, hm⟩ := h
  rw [hm.keys_eq]; exact hl.map _

theorem CfgPerm.left {a b : List (κ × Table V)} (h : CfgPerm a b) :
    ∀ e ∈ a, ∃ f ∈ b, e.1 = f.1 ∧ e.2.Perm f.2 := by
  obtain ⟨l, hl, hm⟩ := h
  intro e he
  obtain ⟨f, hf, h'⟩ := hm.left e he
  exact ⟨f, hl.mem_iff.1 hf, h'⟩

theorem CfgPerm.right {a b : List (κ × Table V)} (h : CfgPerm a b) :
    ∀ f ∈ b, ∃ e ∈ a, e.1 = f.1 ∧ e.2.Perm f.2 := by
  obtain ⟨l, hl, hm⟩ := h
  intro f hf
  exact hm.right f (hl.mem_iff.2 hf)

theorem CfgPerm.mapC (f : V → V) {a b : List (κ × Table V)} (h : CfgPerm a b) :
    CfgPerm (mapC f a) (mapC f b) := by
  obtain ⟨l, hl, hm⟩ := h
  exact ⟨FFC.mapC f l, hl.map _, hm.mapC f⟩

/-- a table with distinct names that is a permutation of its own image under `rnd` holds fixed points only -/
theorem fixed_of_mapT_perm {rnd : V → V} {t : Table V} (hn : (names t).Nodup) (h : (mapT rnd t).Perm t) :
    ∀ e ∈ t, rnd e.2 = e.2 := by
  intro e he
  have h1 : (e.1, rnd e.2) ∈ mapT rnd t := List.mem_map.2 ⟨e, he, rfl⟩
  have h2 : (e.1, rnd e.2) ∈ t := h.mem_iff.1 h1
  exact eq_of_mem_of_nodup hn h2 he

/-! ### the calls -/

/-- reading entries with new distinct keys, each accepted by `_check_configuration`, appends them -/
theorem readAll_ok {ksize : κ → Nat} : ∀ (wc : List (κ × Table V)) (x : Cfgr κ γ V),
    (∀ e ∈ wc, checkConfig x.linked e.2 = .ok () ∧ ksize e.1 = x.m) → (keys wc).Nodup →
    (∀ k ∈ keys wc, k ∉ keys x.configs) →
    readAll ksize x wc = .ok { x with configs := x.configs ++ wc }
  | [], x, _, _, _ => by simp [readAll]
  | (k, t) :: rest, x, hok, hn, hk => by
    have h0 := hok (k, t) List.mem_cons_self
    have hk0 : k ∉ keys x.configs := hk k (by simp)
    rw [keys_cons, List.nodup_cons] at hn
    have hs : step ksize x (.add k t) = .ok { x with configs := x.configs ++ [(k, t)] } := by
      simp only [step, h0.2, ne_eq, not_true_eq_false, if_false, h0.1, Except.bind,
        assign_of_not_mem k t x.configs hk0]
    have hk' : ∀ k' ∈ keys rest, k' ∉ keys (x.configs ++ [(k, t)]) := by
      intro k' hk'
      rw [keys_append, List.mem_append, not_or]
      refine ⟨hk k' (by simp [hk']), ?_⟩
      intro hmem
      have : k' = k := by simpa using hmem
      subst this
      exact hn.1 hk'
    have ih := readAll_ok (ksize := ksize) rest { x with configs := x.configs ++ [(k, t)] }
      (fun e he => hok e (List.mem_cons_of_mem _ he)) hn.2 hk'
    simp only [readAll, hs, Except.bind, ih, List.append_assoc, List.singleton_append]

/-- the constructor establishes `Valid` (tables are dicts: distinct names) -/
theorem valid_new {ksize : κ → Nat} {I : Ctl γ} {m : Nat} {offset : Int} {name : String} {c : γ} {t : Table V}
    {x : Cfgr κ γ V} (hn : (names t).Nodup) (h : Cfgr.new I m offset name c t = .ok x) : Valid ksize x := by
  unfold Cfgr.new at h
  cases h1 : checkConfig (I.vars c) t with
  | error e => simp [h1, Except.bind] at h
  | ok u =>
    cases h2 : assignAll (I.free c) t with
    | error e => simp [h1, h2, Except.bind] at h
    | ok u' =>
      simp only [h1, h2, Except.bind, Except.ok.injEq] at h
      subst h
      exact ⟨List.nodup_nil, hn, (fun _ he => nomatch he), h1, (fun _ he => nomatch he)⟩

/-- every call keeps `Valid` (the table passed is a dict: distinct names) -/
theorem step_valid {ksize : κ → Nat} {x y : Cfgr κ γ V} {o : Op κ V} (hv : Valid ksize x)
    (ho : ∀ k t, o = .add k t → (names t).Nodup) (h : step ksize x o = .ok y) : Valid ksize y := by
  cases o with
  | block =>
    simp only [step, Except.ok.injEq] at h
    subst h; exact ⟨hv.keysNodup, hv.defNames, hv.cfgNames, hv.defOk, hv.cfgOk⟩
  | add k t =>
    simp only [step] at h
    split at h
    · cases h
    · rename_i hsz
      cases h1 : checkConfig x.linked t with
      | error e => simp [h1, Except.bind] at h
      | ok u =>
        simp only [h1, Except.bind, Except.ok.injEq] at h
        subst h
        have hsz' : ksize k = x.m := Classical.not_not.1 hsz
        refine ⟨FF.nodup_assign hv.keysNodup, hv.defNames, ?_, hv.defOk, ?_⟩
        · intro e he
          rcases FF.mem_assign he with he | he
          · subst he; exact ho k t rfl
          · exact hv.cfgNames e he
        · intro e he
          rcases FF.mem_assign he with he | he
          · subst he; exact ⟨h1, hsz'⟩
          · exact hv.cfgOk e he


/-! ### the round trip -/

/-- Every object the constructor and `add_configuration` accept, every wire order of the states and of the
names inside every table: the reader does not raise and returns the object with the decoded controlled
circuit, the default-name rule, and EVERY TABLE VALUE `v` REPLACED BY `rnd v` (the 32-bit float) — the tables
exactly in the order they were met, i.e. up to permutation.  Needed of the codec of the controlled circuit:
it decodes (`hdec`), offers the same variables (`hvars`) and none of them holds a value (`hfree`). -/
theorem roundtrip_configurator (I : Ctl γ) (enc : γ → δ) (dec : δ → Option γ) (rnd : V → V) (ksize : κ → Nat)
    (x : Cfgr κ γ V) (hv : Valid ksize x) (c' : γ) (hdec : dec (enc x.ctrl) = some c')
    (hvars : (I.vars c').Perm x.linked) (hfree : ∀ n ∈ I.vars c', n ∈ I.free c')
    (wd : Table V) (hwd : wd.Perm x.defaultConfig) (wc : List (κ × Table V)) (hwc : CfgPerm wc x.configs) :
    ∃ y, decCfgr I dec ksize x.m (encCfgr enc rnd x wd wc) = .ok y ∧
      y = { expected I rnd x c' with defaultConfig := mapT rnd wd, configs := mapC rnd wc } ∧
      Equiv y (expected I rnd x c') ∧ Valid ksize y := by
  have hchk : ∀ t t' : Table V, t'.Perm t → checkConfig x.linked t = .ok () →
      checkConfig (I.vars c') (mapT rnd t') = .ok () := by
    intro t t' hp hc
    rw [checkConfig_ok_iff] at hc ⊢
    refine ⟨by rw [length_mapT, hp.length_eq, hc.1, hvars.length_eq], ?_⟩
    intro n hn
    rw [names_mapT] at hn
    exact hvars.mem_iff.2 (hc.2 n ((hp.map Prod.fst).mem_iff.1 hn))
  have hd1 := hchk _ _ hwd hv.defOk
  have hd2 : assignAll (I.free c') (mapT rnd wd) = .ok () := by
    rw [assignAll_ok_iff]; intro n hn
    exact hfree n (((checkConfig_ok_iff _ _).1 hd1).2 n hn)
  have hnew : Cfgr.new (κ := κ) I x.m x.offset (if x.name = "" then "FFC" else x.name) c' (mapT rnd wd)
      = .ok ⟨x.m, x.offset, if x.name = "" then "FFC" else x.name, c', I.vars c', mapT rnd wd, [], false⟩ := by
    simp only [Cfgr.new, hd1, hd2, Except.bind]
  have hkeys : (keys (mapC rnd wc)).Nodup := by
    rw [keys_mapC]; exact (hwc.keys_perm.nodup_iff).2 hv.keysNodup
  have hall : ∀ e ∈ mapC rnd wc, checkConfig (I.vars c') e.2 = .ok () ∧ ksize e.1 = x.m := by
    intro e he
    obtain ⟨e0, he0, rfl⟩ := List.mem_map.1 he
    obtain ⟨f, hf, h1, h2⟩ := hwc.left e0 he0
    have := hv.cfgOk f hf
    exact ⟨hchk f.2 e0.2 h2 this.1, by show ksize e0.1 = x.m; rw [h1]; exact this.2⟩
  have hread := readAll_ok (ksize := ksize) (mapC rnd wc)
    (⟨x.m, x.offset, if x.name = "" then "FFC" else x.name, c', I.vars c', mapT rnd wd, [], false⟩ : Cfgr κ γ V)
    hall hkeys (fun _ _ h => nomatch h)
  have hEq : Equiv ({ expected I rnd x c' with defaultConfig := mapT rnd wd, configs := mapC rnd wc } : Cfgr κ γ V)
      (expected I rnd x c') :=
    ⟨rfl, rfl, rfl, rfl, List.Perm.refl _, rfl, hwd.map _, hwc.mapC rnd⟩
  have hValid : Valid ksize ({ expected I rnd x c' with defaultConfig := mapT rnd wd, configs := mapC rnd wc } : Cfgr κ γ V) := by
    refine ⟨hkeys, ?_, ?_, hd1, hall⟩
    · show (names (mapT rnd wd)).Nodup
      rw [names_mapT]; exact ((hwd.map Prod.fst).nodup_iff).2 hv.defNames
    · intro e he
      obtain ⟨e0, he0, rfl⟩ := List.mem_map.1 he
      obtain ⟨f, hf, _, h2⟩ := hwc.left e0 he0
      show (names (mapT rnd e0.2)).Nodup
      rw [names_mapT]; exact ((h2.map Prod.fst).nodup_iff).2 (hv.cfgNames f hf)
  refine ⟨_, ?_, rfl, hEq, hValid⟩
  have h1 : decCfgr I dec ksize x.m (encCfgr enc rnd x wd wc)
      = (Cfgr.new (κ := κ) I x.m x.offset (if x.name = "" then "FFC" else x.name) c' (mapT rnd wd)).bind fun x0 =>
          (readAll ksize x0 (mapC rnd wc)).bind fun x1 =>
            .ok (if x.blocked then { x1 with blocked := true } else x1) := by
    simp only [decCfgr, encCfgr, hdec]
    rfl
  rw [h1, hnew]
  simp only [Except.bind]
  rw [hread]
  rcases Bool.eq_false_or_eq_true x.blocked with hb | hb <;> simp [expected, hb]

/-- The rebuilt object IS the original one (up to the order of its dicts; decoded circuit, default-name
rule) iff every value of its tables is a fixed point of `rnd`, i.e. exactly representable as a 32-bit float. -/
theorem roundtrip_configurator_exact_iff (I : Ctl γ) (enc : γ → δ) (dec : δ → Option γ) (rnd : V → V)
    (ksize : κ → Nat) (x : Cfgr κ γ V) (hv : Valid ksize x) (c' : γ) (hdec : dec (enc x.ctrl) = some c')
    (hvars : (I.vars c').Perm x.linked) (hfree : ∀ n ∈ I.vars c', n ∈ I.free c')
    (wd : Table V) (hwd : wd.Perm x.defaultConfig) (wc : List (κ × Table V)) (hwc : CfgPerm wc x.configs)
    (y : Cfgr κ γ V) (hy : decCfgr I dec ksize x.m (encCfgr enc rnd x wd wc) = .ok y) :
    Equiv y (expected I (fun v => v) x c') ↔ AllValues (fun v => rnd v = v) x := by
  obtain ⟨y', hy', hyeq, hE, _⟩ := roundtrip_configurator I enc dec rnd ksize x hv c' hdec hvars hfree wd hwd wc hwc
  rw [hy] at hy'
  cases hy'
  constructor
  · intro h
    have hD : (mapT rnd wd).Perm x.defaultConfig := by
      have := h.defaultConfig
      rw [hyeq] at this
      simpa [expected, mapT_id] using this
    have hC : CfgPerm (mapC rnd wc) x.configs := by
      have := h.configs
      rw [hyeq] at this
      simpa [expected, mapC_id] using this
    refine ⟨?_, ?_⟩
    · have hfix := fixed_of_mapT_perm (rnd := rnd) (t := wd)
        (((hwd.map Prod.fst).nodup_iff).2 hv.defNames) (hD.trans hwd.symm)
      intro e he
      exact hfix e (hwd.mem_iff.2 he)
    · intro c hc e he
      obtain ⟨e0, he0, hk, hp⟩ := hwc.right c hc
      have hmem : (e0.1, mapT rnd e0.2) ∈ mapC rnd wc := List.mem_map.2 ⟨e0, he0, rfl⟩
      obtain ⟨f, hf, hk', hp'⟩ := hC.left _ hmem
      have hfc : f = c := by
        have h1 : (c.1, f.2) ∈ x.configs := by
          have : f = (c.1, f.2) := by rw [← hk, hk']
          rw [← this]; exact hf
        have h2 : (c.1, c.2) ∈ x.configs := hc
        have := eq_of_mem_of_nodup hv.keysNodup h1 h2
        exact Prod.ext (by rw [← hk', ← hk]) this
      subst hfc
      have hfix := fixed_of_mapT_perm (rnd := rnd) (t := e0.2)
        (((hp.map Prod.fst).nodup_iff).2 (hv.cfgNames f hf)) (hp'.trans hp.symm)
      exact hfix e (hp.mem_iff.2 he)
  · intro h
    have h1 : mapT rnd x.defaultConfig = x.defaultConfig := by
      have := mapT_congr (f := rnd) (g := fun v => v) (t := x.defaultConfig) fun e he => h.1 e he
      rw [this, mapT_id]
    have h2 : mapC rnd x.configs = x.configs := by
      have := mapC_congr (f := rnd) (g := fun v => v) (l := x.configs) fun c hc e he => h.2 c hc e he
      rw [this, mapC_id]
    have : expected I (fun v => v) x c' = expected I rnd x c' := by
      simp only [expected, mapT_id, mapC_id, h1, h2]
    rw [this]; exact hE

/-- With `rnd` idempotent (a 32-bit float converts to itself) a SECOND round trip is exact: it returns the
object the first one returned.  (`hdec2`: the codec of the controlled circuit is stable on what it decoded.) -/
theorem roundtrip_configurator_second (I : Ctl γ) (enc : γ → δ) (dec : δ → Option γ) (rnd : V → V)
    (hidem : ∀ v, rnd (rnd v) = rnd v)
    (ksize : κ → Nat) (x : Cfgr κ γ V) (hv : Valid ksize x) (c' : γ) (hdec : dec (enc x.ctrl) = some c')
    (hvars : (I.vars c').Perm x.linked) (hfree : ∀ n ∈ I.vars c', n ∈ I.free c')
    (wd : Table V) (hwd : wd.Perm x.defaultConfig) (wc : List (κ × Table V)) (hwc : CfgPerm wc x.configs)
    (y : Cfgr κ γ V) (hy : decCfgr I dec ksize x.m (encCfgr enc rnd x wd wc) = .ok y)
    (hdec2 : dec (enc c') = some c')
    (wd2 : Table V) (hwd2 : wd2.Perm y.defaultConfig) (wc2 : List (κ × Table V)) (hwc2 : CfgPerm wc2 y.configs) :
    ∃ z, decCfgr I dec ksize y.m (encCfgr enc rnd y wd2 wc2) = .ok z ∧ Equiv z y := by
  obtain ⟨y', hy', hyeq, _, hvy⟩ := roundtrip_configurator I enc dec rnd ksize x hv c' hdec hvars hfree wd hwd wc hwc
  rw [hy] at hy'
  cases hy'
  have hctrl : y.ctrl = c' := by rw [hyeq]; rfl
  have hlinked : y.linked = I.vars c' := by rw [hyeq]; rfl
  have hname : y.name ≠ "" := by
    have : y.name = if x.name = "" then "FFC" else x.name := by rw [hyeq]; rfl
    rw [this]; split
    · decide
    · assumption
  have hdec' : dec (enc y.ctrl) = some c' := by rw [hctrl]; exact hdec2
  have hvars' : (I.vars c').Perm y.linked := by rw [hlinked]
  obtain ⟨z, hz, _, _, _⟩ := roundtrip_configurator I enc dec rnd ksize y hvy c' hdec' hvars' hfree wd2 hwd2 wc2 hwc2
  refine ⟨z, hz, ?_⟩
  have hfix : AllValues (fun v => rnd v = v) y := by
    rw [hyeq]
    refine ⟨?_, ?_⟩
    · intro e he
      obtain ⟨e0, _, rfl⟩ := List.mem_map.1 he
      exact hidem _
    · intro c hc e he
      obtain ⟨c0, _, rfl⟩ := List.mem_map.1 hc
      obtain ⟨e0, _, rfl⟩ := List.mem_map.1 he
      exact hidem _
  have := (roundtrip_configurator_exact_iff I enc dec rnd ksize y hvy c' hdec' hvars' hfree wd2 hwd2 wc2 hwc2 z hz).2 hfix
  have hexp : expected I (fun v => v) y c' = y := by
    have h1 : (if y.name = "" then "FFC" else y.name) = y.name := if_neg hname
    cases y
    simp only [expected, mapT_id, mapC_id] at *
    simp only [h1, hctrl, hlinked]
  rw [hexp] at this
  exact this

/-! ### the `KeyError` boundary -/

/-- A linked variable of the decoded controlled circuit that holds a value (`n ∈ vars c'`, `n ∉ free c'`):
`_check_configuration` passes — `vars` lists it — but the constructor's `copy().assign(default_config)`
raises `KeyError`, whatever the wire order and the values.  (The codec preserves the value: the writer stores
`Parameter(name, value)` with its symbol, the reader rebuilds a variable that holds the value.) -/
theorem reader_keyerror (I : Ctl γ) (enc : γ → δ) (dec : δ → Option γ) (rnd : V → V) (ksize : κ → Nat)
    (x : Cfgr κ γ V) (hv : Valid ksize x) (c' : γ) (hdec : dec (enc x.ctrl) = some c')
    (hvars : (I.vars c').Perm x.linked) (hval : ∃ n ∈ I.vars c', n ∉ I.free c')
    (wd : Table V) (hwd : wd.Perm x.defaultConfig) (wc : List (κ × Table V)) :
    ∃ n, n ∈ I.vars c' ∧ n ∉ I.free c' ∧
      decCfgr I dec ksize x.m (encCfgr enc rnd x wd wc) = .error (.key n) := by
  have hc := (checkConfig_ok_iff _ _).1 hv.defOk
  have hd1 : checkConfig (I.vars c') (mapT rnd wd) = .ok () := by
    rw [checkConfig_ok_iff]
    refine ⟨by rw [length_mapT, hwd.length_eq, hc.1, hvars.length_eq], ?_⟩
    intro n hn
    rw [names_mapT] at hn
    exact hvars.mem_iff.2 (hc.2 n ((hwd.map Prod.fst).mem_iff.1 hn))
  -- the names of the default table cover the linked variables (same length, no repetition)
  have hcover : ∀ n ∈ x.linked, n ∈ names x.defaultConfig :=
    subset_of_nodup_of_length_le hv.defNames hc.2 (by simp [names, hc.1])
  obtain ⟨n, hn, hnf⟩ := hval
  have hbad : ∃ n ∈ names (mapT rnd wd), n ∉ I.free c' := by
    refine ⟨n, ?_, hnf⟩
    rw [names_mapT]
    exact (hwd.map Prod.fst).mem_iff.2 (hcover n (hvars.mem_iff.1 hn))
  obtain ⟨n', hn', hnf', herr⟩ := assignAll_error hbad
  refine ⟨n', ?_, hnf', ?_⟩
  · rw [names_mapT] at hn'
    exact hvars.mem_iff.2 (hc.2 n' ((hwd.map Prod.fst).mem_iff.1 hn'))
  · simp only [decCfgr, encCfgr, hdec, Cfgr.new, hd1, herr, Except.bind]

/-- the concrete witness: `FFConfigurator(2, 0, circuit(a, b), {a: 1, b: 2})`, one configured state, then
`b.set_value(3)` on the shared Parameter -/
def witValued : Cfgr Nat (VarList Nat) Nat :=
  ⟨2, 0, "FFC", setValue "b" (some 3) [("a", none), ("b", none)], ["a", "b"], [("a", 1), ("b", 2)],
    [(10, [("b", 5), ("a", 4)])], false⟩

/-- it was accepted by the constructor and `add_configuration` … -/
example : ((Cfgr.new varCtl 2 0 "FFC" [("a", none), ("b", none)] [("a", 1), ("b", 2)]).bind fun x =>
    (step (fun _ => 2) x (.add 10 [("b", 5), ("a", 4)])).map fun y =>
      { y with ctrl := setValue "b" (some 3) y.ctrl }) = .ok witValued := rfl

/-- … the writer's message is read back with `KeyError('b')` (identity codec: the variable and its value are
preserved), … -/
theorem reader_keyerror_witness :
    decCfgr (δ := VarList Nat) varCtl some (fun _ => 2) 2
      (encCfgr id id witValued witValued.defaultConfig witValued.configs) = .error (.key "b") := rfl

/-- … and the original object is itself half-broken in that state: `configure` of the mapped state raises the
same `KeyError`, an unmapped state still gets the default circuit built by the constructor. -/
theorem original_configure_witness :
    configureOk varCtl witValued 10 = .error (.key "b") ∧ configureOk varCtl witValued 11 = .ok () := ⟨rfl, rfl⟩

/-- the same object without the value -/
def witFree : Cfgr Nat (VarList Nat) Nat := { witValued with ctrl := [("a", none), ("b", none)] }

/-- … makes the trip -/
example : (decCfgr (δ := VarList Nat) varCtl some (fun _ => 2) 2
    (encCfgr id id witFree witFree.defaultConfig witFree.configs)).toOption.map (fun y => (y.defaultConfig, y.configs))
    = some (witFree.defaultConfig, witFree.configs) := rfl

end PM.C15.FFC
