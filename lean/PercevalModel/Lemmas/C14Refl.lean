/-
  C14 (extension 3) — reflectivity helpers of the beam splitter at the reals: squared moduli of the documented
  matrix, evaluation of the two Expression trees, the two inverse laws (helper lemmas; the property theorems are in
  `Props/C14.lean`).
-/
import PercevalModel.Model.C14Refl
import PercevalModel.Lemmas.C14Sym

open Matrix PM Complex

namespace PM.C14

theorem normSq_ph (x : ℝ) : Complex.normSq (ph x) = 1 := by
  have h := exp_unit x
  have h2 : ((Complex.normSq (ph x) : ℝ) : ℂ) = 1 := by
    rw [← Complex.mul_conj]
    exact h
  exact_mod_cast h2

theorem nsq_pc (x c : ℝ) : Complex.normSq (ph x * (c : ℂ)) = c ^ 2 := by
  rw [Complex.normSq_mul, normSq_ph, Complex.normSq_ofReal]; ring

theorem nsq_ipc (x c : ℝ) : Complex.normSq (I * ph x * (c : ℂ)) = c ^ 2 := by
  rw [Complex.normSq_mul, Complex.normSq_mul, Complex.normSq_I, normSq_ph, Complex.normSq_ofReal]; ring

theorem nsq_npc (x c : ℝ) : Complex.normSq (-(ph x * (c : ℂ))) = c ^ 2 := by
  rw [Complex.normSq_neg, nsq_pc]

/-- squared moduli of the documented beam splitter: `cos²(θ/2)` on the diagonal, `1 - cos²(θ/2)` off it, whatever
the convention and the four phases -/
theorem bsDoc_normSq (conv : Conv) (θ φtl φbl φtr φbr : ℝ) :
    Complex.normSq (bsDoc conv θ φtl φbl φtr φbr 0 0) = Real.cos (θ / 2) ^ 2 ∧
    Complex.normSq (bsDoc conv θ φtl φbl φtr φbr 1 1) = Real.cos (θ / 2) ^ 2 ∧
    Complex.normSq (bsDoc conv θ φtl φbl φtr φbr 0 1) = 1 - Real.cos (θ / 2) ^ 2 ∧
    Complex.normSq (bsDoc conv θ φtl φbl φtr φbr 1 0) = 1 - Real.cos (θ / 2) ^ 2 := by
  have hs : Real.sin (θ / 2) ^ 2 = 1 - Real.cos (θ / 2) ^ 2 := by
    have := Real.sin_sq_add_cos_sq (θ / 2); linarith
  cases conv <;> refine ⟨?_, ?_, ?_, ?_⟩ <;>
    first
    | exact nsq_pc _ _
    | exact nsq_ipc _ _
    | exact nsq_npc _ _
    | (rw [← hs]; first | exact nsq_pc _ _ | exact nsq_ipc _ _ | exact nsq_npc _ _)

/-- `cos²(θ/2)` has period `2π` in `θ`, a fortiori the declared span `4π` of the slot -/
theorem cos_half_sq_periodic (θ : ℝ) (k : ℤ) :
    Real.cos ((θ + k * (2 * Real.pi)) / 2) ^ 2 = Real.cos (θ / 2) ^ 2 := by
  have h1 : 2 * ((θ + k * (2 * Real.pi)) / 2) = θ + k * (2 * Real.pi) := by ring
  have h2 : 2 * (θ / 2) = θ := by ring
  rw [Real.cos_sq, Real.cos_sq (θ / 2), h1, h2, Real.cos_add_int_mul_two_pi]

/-- the Expression `cos(t/2)**2` evaluates to `cos²(θ/2)` at whatever `t` currently evaluates to -/
theorem thetaToRTree_evalR (env : String → Option ℝ) (t : XExpr) :
    (thetaToRTree t).evalR env = (t.evalR env).map fun θ => Real.cos (θ / 2) ^ 2 := by
  simp only [XExpr.evalR, thetaToRTree, XExpr.eval]
  rcases h : t.eval realInterp env with _ | x <;> simp

theorem realInterp_sqrt (x : ℝ) : realInterp.fn .sqrt x = if 0 ≤ x then some (Real.sqrt x) else none := rfl
theorem realInterp_acos (x : ℝ) :
    realInterp.fn .acos x = if -1 ≤ x ∧ x ≤ 1 then some (Real.arccos x) else none := rfl

/-- the Expression `2*acos(sqrt(t))` evaluates to `2 arccos √r` when `t` evaluates to `r ∈ [0, 1]` and is not a
real number otherwise -/
theorem rToThetaTree_evalR {env : String → Option ℝ} {t : XExpr} {r : ℝ} (h : t.evalR env = some r) :
    (rToThetaTree t).evalR env =
      if 0 ≤ r ∧ r ≤ 1 then some (2 * Real.arccos (Real.sqrt r)) else none := by
  simp only [XExpr.evalR] at h
  simp only [XExpr.evalR, rToThetaTree, XExpr.eval, h, Option.bind_some, Option.pure_def, realInterp_sqrt]
  by_cases h0 : 0 ≤ r
  · by_cases h1 : r ≤ 1
    · have hs1 : Real.sqrt r ≤ 1 := Real.sqrt_le_one.2 h1
      have hs0 : -1 ≤ Real.sqrt r := by linarith [Real.sqrt_nonneg r]
      simp [h0, h1, hs1, hs0, realInterp_acos]
    · have hs1 : ¬ Real.sqrt r ≤ 1 := fun hle => h1 (Real.sqrt_le_one.1 hle)
      simp [h0, h1, hs1, realInterp_acos]
  · simp [h0]

/-- `2*math.acos(math.sqrt(r))` at the reals: defined exactly on `[0, 1]` -/
theorem rToThetaNum_real (r : ℝ) :
    rToThetaNum realInterp r = if 0 ≤ r ∧ r ≤ 1 then some (2 * Real.arccos (Real.sqrt r)) else none := by
  simp only [rToThetaNum, realInterp_sqrt]
  by_cases h0 : 0 ≤ r
  · by_cases h1 : r ≤ 1
    · have hs1 : Real.sqrt r ≤ 1 := Real.sqrt_le_one.2 h1
      have hs0 : -1 ≤ Real.sqrt r := by linarith [Real.sqrt_nonneg r]
      simp [h0, h1, hs1, hs0, realInterp_acos]
    · have hs1 : ¬ Real.sqrt r ≤ 1 := fun hle => h1 (Real.sqrt_le_one.1 hle)
      simp [h0, h1, hs1, realInterp_acos]
  · simp [h0]

theorem thetaToRNum_real (θ : ℝ) : thetaToRNum realInterp θ = some (Real.cos (θ / 2) ^ 2) := rfl

theorem cos_half_rToTheta {r : ℝ} (h0 : 0 ≤ r) (h1 : r ≤ 1) :
    Real.cos (2 * Real.arccos (Real.sqrt r) / 2) ^ 2 = r := by
  have h : 2 * Real.arccos (Real.sqrt r) / 2 = Real.arccos (Real.sqrt r) := by ring
  rw [h, Real.cos_arccos (by linarith [Real.sqrt_nonneg r]) (Real.sqrt_le_one.2 h1), Real.sq_sqrt h0]

theorem rToTheta_thetaToR_real {θ : ℝ} (h0 : 0 ≤ θ) (h1 : θ ≤ Real.pi) :
    2 * Real.arccos (Real.sqrt (Real.cos (θ / 2) ^ 2)) = θ := by
  have hc : 0 ≤ Real.cos (θ / 2) :=
    Real.cos_nonneg_of_neg_pi_div_two_le_of_le (by linarith [Real.pi_pos]) (by linarith)
  rw [Real.sqrt_sq hc, Real.arccos_cos (by linarith) (by linarith [Real.pi_pos])]
  ring

theorem rToTheta_range (r : ℝ) :
    0 ≤ 2 * Real.arccos (Real.sqrt r) ∧ 2 * Real.arccos (Real.sqrt r) ≤ Real.pi := by
  have h1 := Real.arccos_nonneg (Real.sqrt r)
  have h2 := Real.arccos_le_pi_div_two.2 (Real.sqrt_nonneg r)
  constructor <;> linarith

end PM.C14
