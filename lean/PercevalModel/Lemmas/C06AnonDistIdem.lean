/-
  C06 — idempotence of `anonymize_annotations` on distributions, reduced to idempotence on states.
-/
import PercevalModel.Lemmas.C06Anon

namespace PM.C06

/-- a new key goes to the end of the dict -/
theorem addKey_of_not_mem {α : Type} [DecidableEq α] (k : α) (p : ℚ) (d : Dist α)
    (h : k ∉ d.map Prod.fst) : addKey k p d = d ++ [(k, p)] := by
  induction d with
  | nil => rfl
  | cons e rest ih =>
    rw [List.map_cons, List.mem_cons, not_or] at h
    have he : ¬ e.1 = k := fun hh => h.1 hh.symm
    unfold addKey
    rw [if_neg he, ih h.2, List.cons_append]

theorem foldl_addKey_of_keys_nodup {α : Type} [DecidableEq α] (d acc : Dist α)
    (h : ((acc ++ d).map Prod.fst).Nodup) :
    d.foldl (fun acc e => addKey e.1 e.2 acc) acc = acc ++ d := by
  induction d generalizing acc with
  | nil => rw [List.foldl_nil, List.append_nil]
  | cons e d ih =>
    have hsplit : acc ++ e :: d = (acc ++ [e]) ++ d := by
      rw [List.append_assoc, List.singleton_append]
    rw [hsplit] at h
    have hk : e.1 ∉ acc.map Prod.fst := by
      have h1 : ((acc ++ [e]).map Prod.fst).Nodup := by
        rw [List.map_append] at h
        exact (List.nodup_append.mp h).1
      rw [List.map_append, List.nodup_append] at h1
      intro hmem
      exact h1.2.2 _ hmem _ (List.mem_singleton.mpr rfl) rfl
    have hadd : addKey e.1 e.2 acc = acc ++ [e] := addKey_of_not_mem e.1 e.2 acc hk
    rw [List.foldl_cons, hadd, ih _ h, hsplit]

/-- accumulating a list of updates whose keys are pairwise different gives the list back -/
theorem accum_of_keys_nodup {α : Type} [DecidableEq α] (d : Dist α) (h : (d.map Prod.fst).Nodup) :
    accum d = d := by
  unfold accum
  rw [foldl_addKey_of_keys_nodup d [] (by rw [List.nil_append]; exact h), List.nil_append]

/-- sorting a list that is already sorted by decreasing probability gives it back -/
theorem sortDesc_of_sorted {α : Type} (d : Dist α) (h : d.Pairwise fun x y => y.2 ≤ x.2) :
    sortDesc d = d := by
  induction d with
  | nil => rfl
  | cons e d ih =>
    rw [List.pairwise_cons] at h
    rw [sortDesc_cons, ih h.2]
    cases d with
    | nil => rfl
    | cons x xs =>
      unfold insDesc
      rw [if_pos (h.1 x List.mem_cons_self)]

/-- idempotence of `anonymize_annotations` on distributions, given idempotence on states -/
theorem anonDist_idem_of (hidem : ∀ s : State, anonState (anonState s) = anonState s)
    (d : Dist State) : anonDist (anonDist d) = anonDist d := by
  have hmap : ((anonDist d).map fun e => (anonState e.1, e.2)) = anonDist d := by
    have hcongr : ((anonDist d).map fun e => (anonState e.1, e.2)) = (anonDist d).map id := by
      apply List.map_congr_left
      intro x hx
      obtain ⟨y, _, hy⟩ := mem_anonDist_key d x hx
      have hfix : anonState x.1 = x.1 := by rw [← hy, hidem]
      rw [hfix]
      rfl
    rw [hcongr, List.map_id]
  have h1 : anonDist (anonDist d) = sortDesc (accum ((anonDist d).map fun e => (anonState e.1, e.2))) :=
    rfl
  rw [h1, hmap, accum_of_keys_nodup _ (anonDist_keys_nodup d), sortDesc_of_sorted _ (anonDist_sorted d)]

end PM.C06
