import PercevalModel.Model.C01

open Matrix

namespace PM.C01
variable {R : Type}

abbrev Flat (R : Type) := List (ℕ × (Σ k, Matrix (Fin k) (Fin k) R))

def Flat.Fits (l : Flat R) (m : ℕ) : Prop := ∀ p ∈ l, p.1 + p.2.1 ≤ m

def Flat.shift (d : ℕ) (l : Flat R) : Flat R := l.map (fun p => (p.1 + d, p.2))

theorem prodItems_append [CommRing R] (m : ℕ) : (a b : Items R) →
    prodItems m (a.append b) = prodItems m b * prodItems m a
  | .nil, b => by simp [Items.append]
  | .cons o c r, b => by simp [Items.append, prodItems_append m r b, Matrix.mul_assoc]

theorem prodFlat_append [CommRing R] (N : ℕ) (a b : Flat R) :
    prodFlat N (a ++ b) = prodFlat N b * prodFlat N a := by
  induction a with
  | nil => simp [prodFlat]
  | cons p r ih =>
    obtain ⟨o, k, B⟩ := p
    simp [prodFlat, ih, Matrix.mul_assoc]

theorem embed_prodFlat [CommRing R] {N off k : ℕ} (hk : off + k ≤ N) (l : Flat R)
    (hl : l.Fits k) : embed N off (prodFlat k l) = prodFlat N (l.shift off) := by
  induction l with
  | nil => simp [prodFlat, Flat.shift, embed_one hk]
  | cons p r ih =>
    obtain ⟨o, k', B⟩ := p
    have h1 : o + k' ≤ k := hl (o, ⟨k', B⟩) (by simp)
    have h2 : Flat.Fits r k := fun q hq => hl q (by simp [hq])
    have ih' := ih h2
    simp only [Flat.shift, List.map_cons, prodFlat] at *
    rw [← embed_mul hk, ih', embed_embed hk h1, Nat.add_comm off o]

theorem embed_prodItems [CommRing R] {N off k : ℕ} (hk : off + k ≤ N) : (items : Items R) →
    (hw : items.WF k) → embed N off (prodItems k items) = prodItems N (items.shift off)
  | .nil, _ => by simp [Items.shift, embed_one hk]
  | .cons o c r, hw => by
    simp only [Items.WF] at hw
    obtain ⟨h1, _, h3⟩ := hw
    simp only [Items.shift, prodItems_cons]
    rw [← embed_mul hk, embed_prodItems hk r h3, embed_embed hk h1, Nat.add_comm off o]

theorem Items.WF_append {b : Items R} {m : ℕ} (hb : b.WF m) : (a : Items R) → (ha : a.WF m) →
    (a.append b).WF m
  | .nil, _ => by simpa [Items.append]
  | .cons o c r, ha => by
    simp only [Items.WF, Items.append] at *
    exact ⟨ha.1, ha.2.1, Items.WF_append hb r ha.2.2⟩

theorem Items.WF_shift {k m off : ℕ} (h : off + k ≤ m) : (a : Items R) → (ha : a.WF k) →
    (a.shift off).WF m
  | .nil, _ => by simp [Items.shift, Items.WF]
  | .cons o c r, ha => by
    simp only [Items.WF, Items.shift] at *
    exact ⟨by omega, ha.2.1, Items.WF_shift h r ha.2.2⟩

end PM.C01
