import PercevalModel.Model.C01
import Mathlib.Algebra.Ring.Pi
import Mathlib.Algebra.Star.Pi

open Matrix

namespace PM.C01
variable {R : Type}

abbrev Flat (R : Type) := List (ℕ × (Σ k, Matrix (Fin k) (Fin k) R))

def Flat.Fits (l : Flat R) (m : ℕ) : Prop := ∀ p ∈ l, p.1 + p.2.1 ≤ m

def Flat.shift (d : ℕ) (l : Flat R) : Flat R := l.map (fun p => (p.1 + d, p.2))

theorem prodItems_append [CommRing R] (m : ℕ) : (a b : Items R) →
    prodItems m (a.append b) = prodItems m b * prodItems m a
  | .nil, b => by simp [Items.append]
  | .cons o c r, b => by simp [Items.append, prodItems_append m r b, Matrix.mul_assoc]

theorem prodFlat_append [CommRing R] (N : ℕ) (a b : Flat R) :
    prodFlat N (a ++ b) = prodFlat N b * prodFlat N a := by
  induction a with
  | nil => simp [prodFlat]
  | cons p r ih =>
    obtain ⟨o, k, B⟩ := p
    simp [prodFlat, ih, Matrix.mul_assoc]

theorem embed_prodFlat [CommRing R] {N off k : ℕ} (hk : off + k ≤ N) (l : Flat R)
    (hl : l.Fits k) : embed N off (prodFlat k l) = prodFlat N (l.shift off) := by
  induction l with
  | nil => simp [prodFlat, Flat.shift, embed_one hk]
  | cons p r ih =>
    obtain ⟨o, k', B⟩ := p
    have h1 : o + k' ≤ k := hl (o, ⟨k', B⟩) (by simp)
    have h2 : Flat.Fits r k := fun q hq => hl q (by simp [hq])
    have ih' := ih h2
    simp only [Flat.shift, List.map_cons, prodFlat] at *
    rw [← embed_mul hk, ih', embed_embed hk h1, Nat.add_comm off o]

theorem embed_prodItems [CommRing R] {N off k : ℕ} (hk : off + k ≤ N) : (items : Items R) →
    (hw : items.WF k) → embed N off (prodItems k items) = prodItems N (items.shift off)
  | .nil, _ => by simp [Items.shift, embed_one hk]
  | .cons o c r, hw => by
    simp only [Items.WF] at hw
    obtain ⟨h1, _, h3⟩ := hw
    simp only [Items.shift, prodItems_cons]
    rw [← embed_mul hk, embed_prodItems hk r h3, embed_embed hk h1, Nat.add_comm off o]

theorem Items.WF_append {b : Items R} {m : ℕ} (hb : b.WF m) : (a : Items R) → (ha : a.WF m) →
    (a.append b).WF m
  | .nil, _ => by simpa [Items.append]
  | .cons o c r, ha => by
    simp only [Items.WF, Items.append] at *
    exact ⟨ha.1, ha.2.1, Items.WF_append hb r ha.2.2⟩

theorem Items.WF_shift {k m off : ℕ} (h : off + k ≤ m) : (a : Items R) → (ha : a.WF k) →
    (a.shift off).WF m
  | .nil, _ => by simp [Items.shift, Items.WF]
  | .cons o c r, ha => by
    simp only [Items.WF, Items.shift] at *
    exact ⟨by omega, ha.2.1, Items.WF_shift h r ha.2.2⟩

/-! ## base change -/

theorem embed_map {S : Type} [Zero R] [One R] [Zero S] [One S] (φ : R → S) (h0 : φ 0 = 0)
    (h1 : φ 1 = 1) (N o : ℕ) {k : ℕ} (B : Matrix (Fin k) (Fin k) R) :
    (embed N o B).map φ = embed N o (B.map φ) := by
  ext i j
  simp only [embed, place, Matrix.map_apply]
  cases unshift N o k i <;> cases unshift N o k j <;> simp [h0]
  split <;> simp [h0, h1]

mutual
  theorem embed_unitaryOf_map {S : Type} [CommRing R] [CommRing S] (φ : R →+* S) :
      (c : Comp R) → ∀ N o : ℕ,
        embed N o (unitaryOf (c.map φ)) = (embed N o (unitaryOf c)).map φ
    | .leaf k U, N, o => by
      rw [Comp.map, embed_unitaryOf_leaf, embed_unitaryOf_leaf,
        embed_map φ (map_zero φ) (map_one φ)]
    | .circ m items, N, o => by
      rw [Comp.map, embed_unitaryOf_circ, embed_unitaryOf_circ, prodItems_map φ m items,
        embed_map φ (map_zero φ) (map_one φ)]
  theorem prodItems_map {S : Type} [CommRing R] [CommRing S] (φ : R →+* S) (m : ℕ) :
      (items : Items R) → prodItems m (items.map φ) = (prodItems m items).map φ
    | .nil => by
      rw [Items.map, prodItems_nil, prodItems_nil, Matrix.map_one φ (map_zero φ) (map_one φ)]
    | .cons o c r => by
      rw [Items.map, prodItems_cons, prodItems_cons, Matrix.map_mul, prodItems_map φ m r,
        embed_unitaryOf_map φ c m o]
end

mutual
  theorem Comp.map_map {S T : Type} (f : R → S) (g : S → T) :
      (c : Comp R) → (c.map f).map g = c.map (g ∘ f)
    | .leaf k U => by simp [Comp.map, Matrix.map_map]
    | .circ m items => by simp [Comp.map, Items.map_map f g items]
  theorem Items.map_map {S T : Type} (f : R → S) (g : S → T) :
      (l : Items R) → (l.map f).map g = l.map (g ∘ f)
    | .nil => by simp [Items.map]
    | .cons o c r => by simp [Items.map, Comp.map_map f g c, Items.map_map f g r]
end

mutual
  theorem Comp.map_id : (c : Comp R) → c.map id = c
    | .leaf k U => by simp [Comp.map]
    | .circ m items => by simp [Comp.map, Items.map_id items]
  theorem Items.map_id : (l : Items R) → l.map id = l
    | .nil => by simp [Items.map]
    | .cons o c r => by simp [Items.map, Comp.map_id c, Items.map_id r]
end

theorem Comp.size_map {S : Type} (φ : R → S) : (c : Comp R) → (c.map φ).size = c.size
  | .leaf _ _ => rfl
  | .circ _ _ => rfl

mutual
  theorem Comp.WF_map {S : Type} (φ : R → S) : (c : Comp R) → c.WF → (c.map φ).WF
    | .leaf _ _, _ => by simp [Comp.map, Comp.WF]
    | .circ m items, h => by
      rw [Comp.map]; exact Items.WF_map φ m items h
  theorem Items.WF_map {S : Type} (φ : R → S) (m : ℕ) : (l : Items R) → l.WF m → (l.map φ).WF m
    | .nil, _ => by simp [Items.map, Items.WF]
    | .cons o c r, h => by
      simp only [Items.WF] at h
      rw [Items.map]
      simp only [Items.WF]
      exact ⟨by rw [Comp.size_map]; exact h.1, Comp.WF_map φ c h.2.1, Items.WF_map φ m r h.2.2⟩
end

/-- positions reported by iteration do not depend on the coefficients -/
def Flat.mapC {S : Type} (φ : R → S) (l : Flat R) : Flat S :=
  l.map fun p => (p.1, ⟨p.2.1, p.2.2.map φ⟩)

mutual
  theorem flatten_map {S : Type} (φ : R → S) :
      (c : Comp R) → flatten (c.map φ) = Flat.mapC φ (flatten c)
    | .leaf k U => by simp [Comp.map, flatten, Flat.mapC]
    | .circ m items => by
      rw [Comp.map, flatten, flatten, flattenItems_map φ items]
  theorem flattenItems_map {S : Type} (φ : R → S) :
      (l : Items R) → flattenItems (l.map φ) = Flat.mapC φ (flattenItems l)
    | .nil => by simp [Items.map, flattenItems, Flat.mapC]
    | .cons o c r => by
      rw [Items.map, flattenItems, flattenItems, flatten_map φ c, flattenItems_map φ r]
      simp [Flat.mapC]
end

/-! ## heap evaluation = product over the resolved tree -/

theorem resolveItems_append (rs : ℕ → Comp R) (a b : List (ℕ × HItem R)) :
    resolveItems rs (a ++ b) = (resolveItems rs a).append (resolveItems rs b) := by
  induction a with
  | nil => rfl
  | cons p r ih =>
    obtain ⟨o, it⟩ := p
    cases it <;> simp [resolveItems, Items.append, ih]

theorem resolveItems_congr (rs rs' : ℕ → Comp R) (l : List (ℕ × HItem R))
    (hl : ∀ p ∈ l, ∀ j, p.2 = .ref j → rs j = rs' j) : resolveItems rs l = resolveItems rs' l := by
  induction l with
  | nil => rfl
  | cons p r ih =>
    obtain ⟨o, it⟩ := p
    have ih' := ih (fun q hq => hl q (by simp [hq]))
    cases it with
    | val c => simp [resolveItems, ih']
    | ref j =>
      have := hl (o, .ref j) (by simp) j rfl
      simp [resolveItems, ih', this]

theorem prodH_eq {S : Type} [CommRing S] (φ : R → S) (msz : ℕ → ℕ)
    (ev : (j : ℕ) → MatV S (msz j) (msz j)) (its : ℕ → Items R)
    (hev : ∀ j, (ev j).toMatrix = prodItems (msz j) ((its j).map φ)) (m : ℕ)
    (l : List (ℕ × HItem R)) :
    (prodH φ msz ev m l).toMatrix =
      prodItems m ((resolveItems (fun k => .circ (msz k) (its k)) l).map φ) := by
  induction l with
  | nil => simp [prodH, resolveItems, Items.map]
  | cons p r ih =>
    obtain ⟨o, it⟩ := p
    cases it with
    | val c =>
      simp only [prodH, resolveItems, Items.map, prodItems_cons, MatV.toMatrix_ofMatrix, ih]
      rfl
    | ref j =>
      simp only [prodH, resolveItems, Items.map, Comp.map, prodItems_cons, MatV.toMatrix_ofMatrix,
        ih, embed_unitaryOf_circ, hev]

theorem evalV_eq {S : Type} [CommRing S] (φ : R → S) (h : Heap R) : ∀ f j,
    (evalV φ h f j).toMatrix = prodItems (h.msize j) ((resolveIt h f j).map φ)
  | 0, j => by simp [evalV, resolveIt, Items.map]
  | f + 1, j => by
    rw [evalV, resolveIt]
    exact prodH_eq φ h.msize (evalV φ h f) (resolveIt h f) (evalV_eq φ h f) _ _

/-! ## the heap: signature (sizes, ranks) is never changed by `push`; `alloc` only adds an entry -/

@[simp] theorem Heap.msize_push (h : Heap R) (i : ℕ) (new : List (ℕ × HItem R)) (k : ℕ) :
    (h.push i new).msize k = h.msize k := by
  simp only [Heap.push, Heap.msize]; split
  · next hk => subst hk; rfl
  · rfl

@[simp] theorem Heap.rank_push (h : Heap R) (i : ℕ) (new : List (ℕ × HItem R)) (k : ℕ) :
    (h.push i new).rank k = h.rank k := by
  simp only [Heap.push, Heap.rank]; split
  · next hk => subst hk; rfl
  · rfl

@[simp] theorem Heap.size_push (h : Heap R) (i : ℕ) (new : List (ℕ × HItem R)) :
    (h.push i new).size = h.size := rfl

theorem Heap.items_push_self (h : Heap R) (i : ℕ) (new : List (ℕ × HItem R)) :
    (h.push i new).items i = h.items i ++ new := by
  simp [Heap.push, Heap.items]

theorem Heap.items_push_ne (h : Heap R) (i : ℕ) (new : List (ℕ × HItem R)) {k : ℕ} (hk : k ≠ i) :
    (h.push i new).items k = h.items k := by
  simp [Heap.push, Heap.items, hk]

theorem Heap.cell_push_ne (h : Heap R) (i : ℕ) (new : List (ℕ × HItem R)) {k : ℕ} (hk : k ≠ i) :
    (h.push i new).cell k = h.cell k := by
  simp [Heap.push, hk]

@[simp] theorem Heap.size_alloc (h : Heap R) (c : Cell R) : (h.alloc c).size = h.size + 1 := rfl

theorem Heap.cell_alloc_ne (h : Heap R) (c : Cell R) {k : ℕ} (hk : k ≠ h.size) :
    (h.alloc c).cell k = h.cell k := by
  simp [Heap.alloc, hk]

theorem Heap.cell_alloc_self (h : Heap R) (c : Cell R) : (h.alloc c).cell h.size = c := by
  simp [Heap.alloc]

theorem Heap.msize_alloc_ne (h : Heap R) (c : Cell R) {k : ℕ} (hk : k ≠ h.size) :
    (h.alloc c).msize k = h.msize k := by simp [Heap.msize, Heap.cell_alloc_ne h c hk]

theorem Heap.rank_alloc_ne (h : Heap R) (c : Cell R) {k : ℕ} (hk : k ≠ h.size) :
    (h.alloc c).rank k = h.rank k := by simp [Heap.rank, Heap.cell_alloc_ne h c hk]

theorem Heap.items_alloc_ne (h : Heap R) (c : Cell R) {k : ℕ} (hk : k ≠ h.size) :
    (h.alloc c).items k = h.items k := by simp [Heap.items, Heap.cell_alloc_ne h c hk]

theorem HItem.Ok_mono {h h' : Heap R} {m r : ℕ} {p : ℕ × HItem R} (hp : HItem.Ok h m r p)
    (hs : h.size ≤ h'.size)
    (hsig : ∀ j, j < h.size → h'.rank j = h.rank j ∧ h'.msize j = h.msize j) :
    HItem.Ok h' m r p := by
  obtain ⟨o, it⟩ := p
  cases it with
  | val v => exact hp
  | ref j =>
    simp only [HItem.Ok] at hp ⊢
    obtain ⟨h1, h2, h3⟩ := hp
    obtain ⟨e1, e2⟩ := hsig j h1
    exact ⟨by omega, by omega, by omega⟩

theorem Heap.Ok_push {h : Heap R} (hOk : h.Ok) (i : ℕ) (new : List (ℕ × HItem R))
    (hnew : ∀ p ∈ new, HItem.Ok h (h.msize i) (h.rank i) p) : (h.push i new).Ok := by
  intro k p hp
  have mono : ∀ {m r : ℕ} {q : ℕ × HItem R}, HItem.Ok h m r q → HItem.Ok (h.push i new) m r q :=
    fun hq => HItem.Ok_mono hq (by simp) (by simp)
  simp only [Heap.msize_push, Heap.rank_push]
  by_cases hk : k = i
  · subst hk
    rw [Heap.items_push_self] at hp
    rcases List.mem_append.mp hp with hp | hp
    · exact mono (hOk k p hp)
    · exact mono (hnew p hp)
  · rw [Heap.items_push_ne h i new hk] at hp
    exact mono (hOk k p hp)

theorem Heap.Ok_alloc {h : Heap R} (hOk : h.Ok) (c : Cell R)
    (hc : ∀ p ∈ c.items, HItem.Ok h c.m c.rank p) : (h.alloc c).Ok := by
  have hsig : ∀ j, j < h.size → (h.alloc c).rank j = h.rank j ∧ (h.alloc c).msize j = h.msize j :=
    fun j hj => ⟨Heap.rank_alloc_ne h c (by omega), Heap.msize_alloc_ne h c (by omega)⟩
  intro k p hp
  by_cases hk : k = h.size
  · subst hk
    simp only [Heap.items, Heap.msize, Heap.rank, Heap.cell_alloc_self] at hp ⊢
    exact HItem.Ok_mono (hc p hp) (by simp) hsig
  · rw [Heap.items_alloc_ne h c hk] at hp
    rw [Heap.msize_alloc_ne h c hk, Heap.rank_alloc_ne h c hk]
    exact HItem.Ok_mono (hOk k p hp) (by simp) hsig

/-! ### snapshots are well formed; fuel beyond the rank changes nothing -/

theorem resolveItems_WF {h : Heap R} {m r : ℕ} (rs : ℕ → Comp R) (hrs : ∀ k, (rs k).WF)
    (hsz : ∀ k, (rs k).size = h.msize k) (l : List (ℕ × HItem R))
    (hl : ∀ p ∈ l, HItem.Ok h m r p) : (resolveItems rs l).WF m := by
  induction l with
  | nil => simp [resolveItems, Items.WF]
  | cons p t ih =>
    obtain ⟨o, it⟩ := p
    have ih' := ih (fun q hq => hl q (by simp [hq]))
    have hp := hl (o, it) (by simp)
    cases it with
    | val c =>
      simp only [HItem.Ok] at hp
      simp only [resolveItems, Items.WF]
      exact ⟨hp.2, hp.1, ih'⟩
    | ref j =>
      simp only [HItem.Ok] at hp
      simp only [resolveItems, Items.WF]
      exact ⟨by rw [hsz]; exact hp.2.2, hrs j, ih'⟩

theorem resolveIt_WF {h : Heap R} (hOk : h.Ok) : ∀ f j, (resolveIt h f j).WF (h.msize j)
  | 0, j => by simp [resolveIt, Items.WF]
  | f + 1, j => by
    rw [resolveIt]
    exact resolveItems_WF (h := h) _ (fun k => by rw [Comp.WF]; exact resolveIt_WF hOk f k)
      (fun k => rfl) _ (hOk j)

theorem resolveIt_stable {h : Heap R} (hOk : h.Ok) : ∀ f f' j, h.rank j < f → h.rank j < f' →
    resolveIt h f j = resolveIt h f' j
  | 0, _, _, h1, _ => by omega
  | _, 0, _, _, h2 => by omega
  | f + 1, f' + 1, j, h1, h2 => by
    rw [resolveIt, resolveIt]
    apply resolveItems_congr
    intro p hp k hk
    have := hOk j p hp
    obtain ⟨o, it⟩ := p
    simp only at hk
    subst hk
    simp only [HItem.Ok] at this
    rw [resolveIt_stable hOk f f' k (by omega) (by omega)]

theorem snapshotItems_eq {h : Heap R} (hOk : h.Ok) (i : ℕ) :
    snapshotItems h i = resolveItems (snapshot h) (h.items i) := by
  unfold snapshotItems
  rw [resolveIt]
  apply resolveItems_congr
  intro p hp k hk
  have := hOk i p hp
  obtain ⟨o, it⟩ := p
  simp only at hk
  subst hk
  simp only [HItem.Ok] at this
  simp only [snapshot, snapshotItems]
  rw [resolveIt_stable hOk (h.rank i) (h.rank k + 1) k (by omega) (by omega)]

/-! ### frame: appending to pool entry `i` is invisible from entries that cannot reach `i` -/

theorem resolveIt_push_frame {h : Heap R} (hOk : h.Ok) (i : ℕ) (new : List (ℕ × HItem R)) :
    ∀ f j, j ≠ i → h.rank j ≤ h.rank i → resolveIt (h.push i new) f j = resolveIt h f j
  | 0, _, _, _ => rfl
  | f + 1, j, hj, hr => by
    rw [resolveIt, resolveIt, Heap.items_push_ne h i new hj]
    apply resolveItems_congr
    intro p hp k hk
    have := hOk j p hp
    obtain ⟨o, it⟩ := p
    simp only at hk
    subst hk
    simp only [HItem.Ok] at this
    have hki : k ≠ i := by rintro rfl; omega
    rw [Heap.msize_push, resolveIt_push_frame hOk i new f k hki (by omega)]

theorem snapshot_push_frame {h : Heap R} (hOk : h.Ok) (i : ℕ) (new : List (ℕ × HItem R)) {j : ℕ}
    (hj : j ≠ i) (hr : h.rank j ≤ h.rank i) : snapshot (h.push i new) j = snapshot h j := by
  simp only [snapshot, snapshotItems, Heap.msize_push, Heap.rank_push,
    resolveIt_push_frame hOk i new _ j hj hr]

theorem snapshotItems_push {h : Heap R} (hOk : h.Ok) (i : ℕ) (new : List (ℕ × HItem R))
    (hnew : ∀ p ∈ new, HItem.Ok h (h.msize i) (h.rank i) p) :
    snapshotItems (h.push i new) i = (snapshotItems h i).append (resolveItems (snapshot h) new) := by
  have hOk' := Heap.Ok_push hOk i new hnew
  rw [snapshotItems_eq hOk', snapshotItems_eq hOk, Heap.items_push_self, resolveItems_append]
  have key : ∀ l : List (ℕ × HItem R), (∀ p ∈ l, HItem.Ok h (h.msize i) (h.rank i) p) →
      resolveItems (snapshot (h.push i new)) l = resolveItems (snapshot h) l := by
    intro l hl
    apply resolveItems_congr
    intro p hp k hk
    have := hl p hp
    obtain ⟨o, it⟩ := p
    simp only at hk
    subst hk
    simp only [HItem.Ok] at this
    exact snapshot_push_frame hOk i new (by rintro rfl; omega) (by omega)
  rw [key _ (hOk i), key _ hnew]

theorem resolveIt_alloc_frame {h : Heap R} (hOk : h.Ok) (c : Cell R) :
    ∀ f j, j < h.size → resolveIt (h.alloc c) f j = resolveIt h f j
  | 0, _, _ => rfl
  | f + 1, j, hj => by
    rw [resolveIt, resolveIt, Heap.items_alloc_ne h c (by omega)]
    apply resolveItems_congr
    intro p hp k hk
    have := hOk j p hp
    obtain ⟨o, it⟩ := p
    simp only at hk
    subst hk
    simp only [HItem.Ok] at this
    rw [Heap.msize_alloc_ne h c (by omega), resolveIt_alloc_frame hOk c f k this.1]

theorem snapshot_alloc_frame {h : Heap R} (hOk : h.Ok) (c : Cell R) {j : ℕ} (hj : j < h.size) :
    snapshot (h.alloc c) j = snapshot h j := by
  simp only [snapshot, snapshotItems, Heap.msize_alloc_ne h c (Nat.ne_of_lt hj),
    Heap.rank_alloc_ne h c (Nat.ne_of_lt hj), resolveIt_alloc_frame hOk c _ j hj]

theorem resolveItems_shift (rs : ℕ → Comp R) (d : ℕ) (l : List (ℕ × HItem R)) :
    resolveItems rs (l.map fun p => (p.1 + d, p.2)) = (resolveItems rs l).shift d := by
  induction l with
  | nil => rfl
  | cons p t ih =>
    obtain ⟨o, it⟩ := p
    cases it <;> simp [resolveItems, Items.shift, ih]

theorem resolveItems_freeze (h : Heap R) (φ : R → R) (rs : ℕ → Comp R) (l : List (ℕ × HItem R)) :
    resolveItems rs (l.map fun p => (p.1, HItem.val (freezeItem h φ p.2))) =
      (resolveItems (snapshot h) l).map φ := by
  induction l with
  | nil => rfl
  | cons p t ih =>
    obtain ⟨o, it⟩ := p
    cases it <;> simp only [List.map_cons, resolveItems, ih, Items.map] <;> rfl

theorem snapshot_frozen_cell (h' h : Heap R) (c m r : ℕ) (l : List (ℕ × HItem R)) (φ : R → R)
    (hc : h'.cell c = ⟨m, r, l.map fun p => (p.1, HItem.val (freezeItem h φ p.2))⟩) :
    snapshot h' c = .circ m ((resolveItems (snapshot h) l).map φ) := by
  simp only [snapshot, snapshotItems, Heap.msize, Heap.rank, Heap.items, hc, resolveIt,
    resolveItems_freeze]

/-- a pool entry that holds everything by value does not depend on the rest of the pool -/
theorem snapshot_closed (h h' : Heap R) (c : ℕ) (hc : h'.cell c = h.cell c)
    (hv : ∀ p ∈ h.items c, ∀ j, p.2 ≠ .ref j) : snapshot h' c = snapshot h c := by
  have e1 : h'.msize c = h.msize c := by simp [Heap.msize, hc]
  have e2 : h'.rank c = h.rank c := by simp [Heap.rank, hc]
  have e3 : h'.items c = h.items c := by simp [Heap.items, hc]
  simp only [snapshot, snapshotItems, e1, e2, resolveIt, e3]
  congr 1
  apply resolveItems_congr
  intro p hp j hj
  exact absurd hj (hv p hp j)

/-! ### every operation keeps the invariant -/

theorem snapshot_WF {h : Heap R} (hOk : h.Ok) (i : ℕ) : (snapshot h i).WF := by
  rw [snapshot, Comp.WF]; exact resolveIt_WF hOk _ i

theorem applyOp_ok [Zero R] [One R] {h : Heap R} (hOk : h.Ok) (op : Op R) (hok : op.ok h = true) :
    (applyOp h op).Ok := by
  cases op with
  | new m r => exact Heap.Ok_alloc hOk _ (by simp)
  | leaf i off k U =>
    simp only [Op.ok, Bool.and_eq_true, decide_eq_true_eq] at hok
    apply Heap.Ok_push hOk
    intro p hp
    simp only [List.mem_singleton] at hp
    subst hp
    simp only [HItem.Ok, Comp.WF, Comp.size, true_and]
    omega
  | nest i j off =>
    simp only [Op.ok, Bool.and_eq_true, decide_eq_true_eq] at hok
    apply Heap.Ok_push hOk
    intro p hp
    simp only [List.mem_singleton] at hp
    subst hp
    simp only [HItem.Ok]
    omega
  | merge i j off =>
    simp only [Op.ok, Bool.and_eq_true, decide_eq_true_eq] at hok
    simp only [applyOp]
    split
    · apply Heap.Ok_push hOk
      intro p hp
      simp only [List.mem_singleton] at hp
      subst hp
      simp only [HItem.Ok]
      omega
    · next x xs hx =>
      apply Heap.Ok_push hOk
      intro p hp
      obtain ⟨q, hq, rfl⟩ := List.mem_map.mp hp
      have hq' := hOk j q (by rw [hx]; exact hq)
      obtain ⟨o, it⟩ := q
      cases it with
      | val v =>
        simp only [HItem.Ok] at hq' ⊢
        exact ⟨hq'.1, by omega⟩
      | ref k =>
        simp only [HItem.Ok] at hq' ⊢
        omega
  | barrier i =>
    apply Heap.Ok_push hOk
    intro p hp
    simp only [List.mem_singleton] at hp
    subst hp
    simp [HItem.Ok, Comp.WF, Comp.size, barrierItem]
  | copy i φ =>
    apply Heap.Ok_alloc hOk
    intro p hp
    obtain ⟨q, hq, rfl⟩ := List.mem_map.mp hp
    have hq' := hOk i q hq
    obtain ⟨o, it⟩ := q
    cases it with
    | val v =>
      simp only [HItem.Ok] at hq'
      simp only [HItem.Ok, freezeItem, Comp.size_map]
      exact ⟨Comp.WF_map φ v hq'.1, hq'.2⟩
    | ref k =>
      simp only [HItem.Ok] at hq'
      simp only [HItem.Ok, freezeItem, Comp.size_map]
      exact ⟨Comp.WF_map φ _ (snapshot_WF hOk k), hq'.2.2⟩

theorem step_ok [Zero R] [One R] {h : Heap R} (hOk : h.Ok) (op : Op R) : (step h op).Ok := by
  unfold step
  split
  · next hok => exact applyOp_ok hOk op hok
  · exact hOk

theorem exec_ok_of [Zero R] [One R] (ops : List (Op R)) : ∀ {h : Heap R}, h.Ok → (exec h ops).Ok := by
  induction ops with
  | nil => intro h hOk; exact hOk
  | cons op r ih => intro h hOk; exact ih (step_ok hOk op)

theorem Heap.empty_ok : (Heap.empty : Heap R).Ok := by
  intro i p hp; simp [Heap.empty, Heap.items] at hp

/-- an operation that does not target entry `c` leaves that entry alone -/
theorem step_cell_ne [Zero R] [One R] (h : Heap R) (op : Op R) {c : ℕ} (hc : c < h.size)
    (ht : op.target ≠ some c) : (step h op).cell c = h.cell c ∧ h.size ≤ (step h op).size := by
  unfold step
  split
  · cases op with
    | new m r => exact ⟨Heap.cell_alloc_ne h _ (by omega), by simp [applyOp]⟩
    | leaf i off k U =>
      have : c ≠ i := by intro e; subst e; exact ht rfl
      exact ⟨Heap.cell_push_ne h i _ this, by simp [applyOp]⟩
    | nest i j off =>
      have : c ≠ i := by intro e; subst e; exact ht rfl
      exact ⟨Heap.cell_push_ne h i _ this, by simp [applyOp]⟩
    | merge i j off =>
      have : c ≠ i := by intro e; subst e; exact ht rfl
      simp only [applyOp]
      split
      · exact ⟨Heap.cell_push_ne h i _ this, by simp⟩
      · exact ⟨Heap.cell_push_ne h i _ this, by simp⟩
    | barrier i =>
      have : c ≠ i := by intro e; subst e; exact ht rfl
      exact ⟨Heap.cell_push_ne h i _ this, by simp [applyOp]⟩
    | copy i φ => exact ⟨Heap.cell_alloc_ne h _ (by omega), by simp [applyOp]⟩
  · exact ⟨rfl, Nat.le_refl _⟩

theorem exec_cell_ne [Zero R] [One R] (ops : List (Op R)) : ∀ (h : Heap R) {c : ℕ}, c < h.size →
    (∀ op ∈ ops, op.target ≠ some c) → (exec h ops).cell c = h.cell c := by
  induction ops with
  | nil => intro h c _ _; rfl
  | cons op r ih =>
    intro h c hc ht
    obtain ⟨e1, e2⟩ := step_cell_ne h op hc (ht op (by simp))
    have := ih (step h op) (c := c) (by omega) (fun o ho => ht o (by simp [ho]))
    simp only [exec, List.foldl_cons] at this ⊢
    rw [this, e1]

/-! ### unitarity -/

theorem IsUnitary.map {S : Type} [CommRing R] [StarRing R] [CommRing S] [StarRing S] (φ : R →+* S)
    (hφ : ∀ x, φ (star x) = star (φ x)) {n : Type} [Fintype n] [DecidableEq n] {U : Matrix n n R}
    (hU : IsUnitary U) : IsUnitary (U.map φ) := by
  have hc : (U.map φ)ᴴ = Uᴴ.map φ := (Matrix.conjTranspose_map (A := U) φ hφ).symm
  constructor
  · rw [hc, ← Matrix.map_mul, hU.1, Matrix.map_one φ (map_zero φ) (map_one φ)]
  · rw [hc, ← Matrix.map_mul, hU.2, Matrix.map_one φ (map_zero φ) (map_one φ)]

/-- `φ` sends unitary matrices to unitary matrices (any star-preserving ring homomorphism does) -/
def PreservesUnitary [CommRing R] [StarRing R] (φ : R → R) : Prop :=
  ∀ (k : ℕ) (U : Matrix (Fin k) (Fin k) R), IsUnitary U → IsUnitary (U.map φ)

mutual
  theorem Comp.AllUnitary_map [CommRing R] [StarRing R] (φ : R → R) (hφ : PreservesUnitary φ) :
      (c : Comp R) → c.AllUnitary → (c.map φ).AllUnitary
    | .leaf k U, h => by rw [Comp.map, Comp.AllUnitary]; exact hφ k U h
    | .circ m items, h => by
      rw [Comp.map, Comp.AllUnitary]; exact Items.AllUnitary_map φ hφ items h
  theorem Items.AllUnitary_map [CommRing R] [StarRing R] (φ : R → R) (hφ : PreservesUnitary φ) :
      (l : Items R) → l.AllUnitary → (l.map φ).AllUnitary
    | .nil, _ => by simp [Items.map, Items.AllUnitary]
    | .cons o c r, h => by
      simp only [Items.AllUnitary] at h
      rw [Items.map]
      simp only [Items.AllUnitary]
      exact ⟨Comp.AllUnitary_map φ hφ c h.1, Items.AllUnitary_map φ hφ r h.2⟩
end

theorem resolveItems_allUnitary [CommRing R] [StarRing R] (rs : ℕ → Comp R)
    (hrs : ∀ k, (rs k).AllUnitary) (l : List (ℕ × HItem R))
    (hl : ∀ p ∈ l, match p.2 with | .val v => v.AllUnitary | .ref _ => True) :
    (resolveItems rs l).AllUnitary := by
  induction l with
  | nil => simp [resolveItems, Items.AllUnitary]
  | cons p t ih =>
    obtain ⟨o, it⟩ := p
    have ih' := ih (fun q hq => hl q (by simp [hq]))
    have hp := hl (o, it) (by simp)
    cases it with
    | val c => simp only [resolveItems, Items.AllUnitary]; exact ⟨hp, ih'⟩
    | ref j => simp only [resolveItems, Items.AllUnitary]; exact ⟨hrs j, ih'⟩

theorem resolveIt_allUnitary [CommRing R] [StarRing R] {h : Heap R} (hU : h.AllUnitary) :
    ∀ f j, (resolveIt h f j).AllUnitary
  | 0, _ => by simp [resolveIt, Items.AllUnitary]
  | f + 1, j => by
    rw [resolveIt]
    exact resolveItems_allUnitary _
      (fun k => by rw [Comp.AllUnitary]; exact resolveIt_allUnitary hU f k) _ (hU j)

theorem snapshot_allUnitary [CommRing R] [StarRing R] {h : Heap R} (hU : h.AllUnitary) (i : ℕ) :
    (snapshot h i).AllUnitary := by
  rw [snapshot, Comp.AllUnitary]; exact resolveIt_allUnitary hU _ i

/-- the leaves an operation brings in are unitary -/
def Op.Unitary [CommRing R] [StarRing R] : Op R → Prop
  | .leaf _ _ _ U => IsUnitary U
  | .copy _ φ => PreservesUnitary φ
  | _ => True

theorem Heap.AllUnitary_push [CommRing R] [StarRing R] {h : Heap R} (hU : h.AllUnitary) (i : ℕ)
    (new : List (ℕ × HItem R))
    (hnew : ∀ p ∈ new, match p.2 with | .val v => v.AllUnitary | .ref _ => True) :
    (h.push i new).AllUnitary := by
  intro k p hp
  by_cases hk : k = i
  · subst hk
    rw [Heap.items_push_self] at hp
    rcases List.mem_append.mp hp with hp | hp
    · exact hU k p hp
    · exact hnew p hp
  · rw [Heap.items_push_ne h i new hk] at hp
    exact hU k p hp

theorem Heap.AllUnitary_alloc [CommRing R] [StarRing R] {h : Heap R} (hU : h.AllUnitary)
    (c : Cell R) (hc : ∀ p ∈ c.items, match p.2 with | .val v => v.AllUnitary | .ref _ => True) :
    (h.alloc c).AllUnitary := by
  intro k p hp
  by_cases hk : k = h.size
  · subst hk
    simp only [Heap.items, Heap.cell_alloc_self] at hp
    exact hc p hp
  · rw [Heap.items_alloc_ne h c hk] at hp
    exact hU k p hp

theorem step_allUnitary [CommRing R] [StarRing R] {h : Heap R} (hU : h.AllUnitary) (op : Op R)
    (hop : op.Unitary) : (step h op).AllUnitary := by
  unfold step
  split
  · cases op with
    | new m r => exact Heap.AllUnitary_alloc hU _ (by simp)
    | leaf i off k U =>
      apply Heap.AllUnitary_push hU
      intro p hp
      simp only [List.mem_singleton] at hp
      subst hp
      exact hop
    | nest i j off =>
      apply Heap.AllUnitary_push hU
      intro p hp
      simp only [List.mem_singleton] at hp
      subst hp
      trivial
    | merge i j off =>
      simp only [applyOp]
      split
      · apply Heap.AllUnitary_push hU
        intro p hp
        simp only [List.mem_singleton] at hp
        subst hp
        trivial
      · next x xs hx =>
        apply Heap.AllUnitary_push hU
        intro p hp
        obtain ⟨q, hq, rfl⟩ := List.mem_map.mp hp
        exact hU j q (by rw [hx]; exact hq)
    | barrier i =>
      apply Heap.AllUnitary_push hU
      intro p hp
      simp only [List.mem_singleton] at hp
      subst hp
      show IsUnitary (1 : Matrix (Fin (h.msize i)) (Fin (h.msize i)) R)
      exact isUnitary_one
    | copy i φ =>
      apply Heap.AllUnitary_alloc hU
      intro p hp
      obtain ⟨q, hq, rfl⟩ := List.mem_map.mp hp
      have hq' := hU i q hq
      obtain ⟨o, it⟩ := q
      cases it with
      | val v => exact Comp.AllUnitary_map φ hop v hq'
      | ref k => exact Comp.AllUnitary_map φ hop _ (snapshot_allUnitary hU k)
  · exact hU

theorem exec_allUnitary_of [CommRing R] [StarRing R] (ops : List (Op R)) :
    ∀ {h : Heap R}, h.AllUnitary → (∀ op ∈ ops, op.Unitary) → (exec h ops).AllUnitary := by
  induction ops with
  | nil => intro h hU _; exact hU
  | cons op r ih =>
    intro h hU hops
    exact ih (step_allUnitary hU op (hops op (by simp))) (fun o ho => hops o (by simp [ho]))

/-! ### environments -/

def atEnvHom {E S : Type} [CommRing S] (e : E) : (E → S) →+* S := Pi.evalRingHom (fun _ => S) e

theorem atEnvHom_coe {E S : Type} [CommRing S] (e : E) : ⇑(atEnvHom (S := S) e) = atEnv e := rfl

theorem atEnv_comp_freeze {E S : Type} (e e' : E) :
    (atEnv e' ∘ freeze e : (E → S) → S) = atEnv e := rfl

end PM.C01
