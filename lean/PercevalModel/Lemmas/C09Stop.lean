/-
  C09 (extension, round 6) — the law of the samples RETURNED under the stopping rule: when the emitted inputs share
  the one-shot law `d`, the loop with `max_samples = ms`, `max_shots = K` returns the first `ms` accepted samples
  among `K` independent shots of law `d` (optional stopping does not bias the samples).
-/
import PercevalModel.Lemmas.C09Loop

set_option linter.unusedSimpArgs false
set_option linter.unusedVariables false

namespace PM.C09

open PM.Dist (D mass)

theorem afterShot_out (c : SelCfg) (s : Core) (rest : List InDraw) (st : Fock) :
    (afterShot c s rest st).out = (match selOf c st with | some x => x :: s.out | none => s.out) ∧
    (afterShot c s rest st).shots = s.shots + 1 ∧ (afterShot c s rest st).batch = rest := by
  unfold afterShot selOf
  cases shotOutcome true c.filter c.heralds (c.psf st) st <;> exact ⟨rfl, rfl, rfl⟩

/-- the samples returned when `seen` are the detected states of all the shots that COULD be taken: the first
`ms - |out|` accepted ones, latest first, on top of what was already returned -/
def stoppedOut (c : SelCfg) (ms : Nat) (out : List Fock) (seen : List Fock) : List Fock :=
  ((seen.filterMap (selOf c)).take (ms - out.length)).reverse ++ out

theorem stopped_loop_iid (bk detK : Fock → D) (d : D) (hd : mass d = 1) (c : SelCfg) (ms K : Nat)
    (ge : Option String) (G : List Fock → ℚ) :
    ∀ (N fuel : ℕ) (s : Core), K - s.shots = N → N < fuel → N ≤ s.batch.length →
      (∀ inp ∈ s.batch, ∀ g : Option Fock → ℚ,
        (shotRd c.det inp).exR (siteLaw bk detK) g = ex d (fun t => g (some t))) →
      exLoop bk detK c ms (some K) ge fuel s (fun s' => G s'.out) =
        exN d N (fun seen => G (stoppedOut c ms s.out seen)) := by
  intro N
  induction N with
  | zero =>
    intro fuel s hN hf hb H
    obtain ⟨f, rfl⟩ : ∃ f, fuel = f + 1 := ⟨fuel - 1, by omega⟩
    have hc : condR ms (some K) s = false := by
      unfold condR
      simp only [Bool.and_eq_false_iff, decide_eq_false_iff_not]
      right; omega
    simp only [exLoop, hc, exN, stoppedOut, Bool.not_false, ↓reduceIte, List.filterMap_nil, List.take_nil,
      List.reverse_nil, List.nil_append]
  | succ N ih =>
    intro fuel s hN hf hb H
    obtain ⟨f, rfl⟩ : ∃ f, fuel = f + 1 := ⟨fuel - 1, by omega⟩
    by_cases hout : s.out.length < ms
    · have hc : condR ms (some K) s = true := by
        unfold condR
        simp only [Bool.and_eq_true, decide_eq_true_eq]
        exact ⟨hout, by omega⟩
      obtain ⟨inp, rest, hbatch⟩ : ∃ inp rest, s.batch = inp :: rest := by
        cases hb' : s.batch with
        | nil => rw [hb'] at hb; simp at hb
        | cons a b => exact ⟨a, b, rfl⟩
      have hns : nextShot ms (some K) ge s = .ok (s, inp, rest) := by
        unfold nextShot
        rw [hbatch]
      simp only [exLoop, hc, hns, Bool.not_true, Bool.false_eq_true, ↓reduceIte]
      rw [H inp (by rw [hbatch]; exact List.mem_cons_self)]
      simp only [exN]
      apply ex_congr'
      intro t
      obtain ⟨ho, hs, hbt⟩ := afterShot_out c s rest t
      have hb2 : N ≤ rest.length := by
        rw [hbatch] at hb
        simp only [List.length_cons] at hb
        omega
      rw [ih f (afterShot c s rest t) (by rw [hs]; omega) (by omega) (by rw [hbt]; exact hb2)
        (by
          rw [hbt]
          intro i hi
          exact H i (by rw [hbatch]; exact List.mem_cons_of_mem _ hi))]
      apply exN_congr'
      intro l
      rw [ho]
      unfold stoppedOut
      cases hsel : selOf c t with
      | none => simp only [List.filterMap_cons, hsel]
      | some x =>
        simp only [List.filterMap_cons, hsel, List.length_cons]
        obtain ⟨r, hr⟩ : ∃ r, ms - s.out.length = r + 1 := ⟨ms - s.out.length - 1, by omega⟩
        have hr' : ms - (s.out.length + 1) = r := by omega
        rw [hr, hr', List.take_succ_cons, List.reverse_cons, List.append_assoc]
        rfl
    · have hc : condR ms (some K) s = false := by
        unfold condR
        simp only [Bool.and_eq_false_iff, decide_eq_false_iff_not]
        left; exact hout
      have h0 : ms - s.out.length = 0 := by omega
      simp only [exLoop, hc, stoppedOut, h0, Bool.not_false, ↓reduceIte, List.take_zero, List.reverse_nil,
        List.nil_append]
      exact (exN_const d hd _ (N + 1)).symm

/-- an input of one component, detectors that return the state as it is: the one-shot law is the backend's law -/
theorem shotRd_single_none (bk detK : Fock → D) (k : Fock) (g : Option Fock → ℚ) :
    (shotRd .none [k]).exR (siteLaw bk detK) g = ex (bk k) (fun t => g (some t)) := by
  rw [shotRd_exR_none]
  simp only [exComps]
  apply ex_congr'
  intro t
  rfl


/-! ### closed form: the first `ms` accepted among `N` independent shots -/

/-- weight of "exactly `j` samples are returned" divided by (acceptance probability)^`j`: `N` shots left, at most
`ms` samples wanted, `r` the one-shot rejection probability -/
def stopW (r : ℚ) : ℕ → ℕ → ℕ → ℚ
  | 0, _, j => if j = 0 then 1 else 0
  | _ + 1, 0, j => if j = 0 then 1 else 0
  | N + 1, ms + 1, 0 => r * stopW r N (ms + 1) 0
  | N + 1, ms + 1, j + 1 => r * stopW r N (ms + 1) (j + 1) + stopW r N ms j

/-- **the first `ms` accepted samples of `N` independent shots** are exactly `o` with probability
`stopW r N ms |o| · ∏ᵢ μ(oᵢ)`: a function of the NUMBER of samples times the product of the one-shot acceptance
probabilities — given their number, the samples are independent with the conditional law `μ / (1 - r)` -/
theorem exN_first_accepted (d : D) (hd : mass d = 1) (sel : Fock → Option Fock) :
    ∀ (N ms : ℕ) (o : List Fock),
      exN d N (fun l => if (l.filterMap sel).take ms = o then 1 else 0) =
        stopW (muNone d sel) N ms o.length * (o.map (muSel d sel)).prod := by
  intro N
  induction N with
  | zero =>
    intro ms o
    cases o with
    | nil => simp [exN, stopW]
    | cons s o => simp [exN, stopW]
  | succ N ih =>
    intro ms o
    cases ms with
    | zero =>
      rw [exN_congr d (N + 1) _ (fun _ => if ([] : List Fock) = o then 1 else 0)
        (by intro l _; simp), exN_const d hd]
      cases o with
      | nil => simp [stopW]
      | cons s o => simp [stopW]
    | succ ms =>
      simp only [exN]
      have hmn : ex d (fun t => if sel t = none then (1 : ℚ) else 0) = muNone d sel := rfl
      cases o with
      | nil =>
        have h1 : ∀ p ∈ d,
            (exN d N fun l => if (List.filterMap sel (p.1 :: l)).take (ms + 1) = [] then (1 : ℚ) else 0) =
            (if sel p.1 = none then 1 else 0) * (stopW (muNone d sel) N (ms + 1) 0 * 1) := by
          intro p _
          cases hs : sel p.1 with
          | none =>
            simp only [List.filterMap_cons, hs, ↓reduceIte, one_mul]
            rw [ih (ms + 1) []]
            simp
          | some s =>
            simp only [List.filterMap_cons, hs, List.take_succ_cons, reduceCtorEq, ↓reduceIte, zero_mul]
            exact exN_zero d N
        rw [ex_congr d _ (fun t => (if sel t = none then 1 else 0) * (stopW (muNone d sel) N (ms + 1) 0 * 1)) h1,
          ex_mul_right, hmn]
        simp only [List.length_nil, List.map_nil, List.prod_nil, stopW]
        ring
      | cons s0 o' =>
        have h1 : ∀ p ∈ d,
            (exN d N fun l => if (List.filterMap sel (p.1 :: l)).take (ms + 1) = s0 :: o' then (1 : ℚ) else 0) =
            (if sel p.1 = none then 1 else 0) *
              (stopW (muNone d sel) N (ms + 1) (o'.length + 1) * ((s0 :: o').map (muSel d sel)).prod) +
            (if sel p.1 = some s0 then 1 else 0) *
              (stopW (muNone d sel) N ms o'.length * (o'.map (muSel d sel)).prod) := by
          intro p _
          cases hs : sel p.1 with
          | none =>
            simp only [List.filterMap_cons, hs, ↓reduceIte, one_mul, reduceCtorEq, zero_mul, add_zero]
            rw [ih (ms + 1) (s0 :: o')]
            simp
          | some s =>
            simp only [List.filterMap_cons, hs, List.take_succ_cons, reduceCtorEq, ↓reduceIte, zero_mul, zero_add,
              Option.some.injEq]
            by_cases hss : s = s0
            · subst hss
              simp only [List.cons.injEq, true_and, ↓reduceIte, one_mul]
              exact ih ms o'
            · simp only [List.cons.injEq, hss, false_and, ↓reduceIte, zero_mul]
              exact exN_zero d N
        have hms : ex d (fun t => if sel t = some s0 then (1 : ℚ) else 0) = muSel d sel s0 := rfl
        rw [ex_congr d _ (fun t => (if sel t = none then 1 else 0) *
              (stopW (muNone d sel) N (ms + 1) (o'.length + 1) * ((s0 :: o').map (muSel d sel)).prod) +
            (if sel t = some s0 then 1 else 0) *
              (stopW (muNone d sel) N ms o'.length * (o'.map (muSel d sel)).prod)) h1,
          ex_add, ex_mul_right, ex_mul_right, hmn, hms]
        simp only [List.length_cons, List.map_cons, List.prod_cons, stopW]
        ring

/-- below `ms` nothing is cut: the weight is the binomial one -/
theorem stopW_lt (r : ℚ) : ∀ (N ms j : ℕ), j < ms → stopW r N ms j = (N.choose j : ℚ) * r ^ (N - j) := by
  intro N
  induction N with
  | zero =>
    intro ms j _
    cases j with
    | zero => simp [stopW]
    | succ j => simp [stopW]
  | succ N ih =>
    intro ms j hj
    obtain ⟨m, rfl⟩ : ∃ m, ms = m + 1 := ⟨ms - 1, by omega⟩
    cases j with
    | zero =>
      simp only [stopW, ih (m + 1) 0 hj, Nat.choose_zero_right, Nat.cast_one, one_mul, Nat.sub_zero]
      rw [pow_succ]
      ring
    | succ j =>
      simp only [stopW, ih (m + 1) (j + 1) hj, ih m j (by omega), Nat.choose_succ_succ', Nat.succ_sub_succ]
      by_cases hle : j + 1 ≤ N
      · have he : N - j = (N - (j + 1)) + 1 := by omega
        rw [he, pow_succ]
        push_cast
        ring
      · have hz : N.choose (j + 1) = 0 := Nat.choose_eq_zero_of_lt (by omega)
        rw [hz]
        push_cast
        ring

end PM.C09
