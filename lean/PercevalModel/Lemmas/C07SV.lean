/-
  C07 (extension) — helper lemmas for the amplitude-level paths (`Model/C07SV.lean`).
-/
import PercevalModel.Model.C07SV
import PercevalModel.Lemmas.C07
import Mathlib.Algebra.BigOperators.Intervals
import Mathlib.Tactic.Positivity
import Mathlib.Tactic.Ring
import Mathlib.Tactic.Linarith
import Mathlib.Analysis.Real.Sqrt
import Mathlib.Data.Complex.Basic

open Matrix

namespace PM.C07

/-! ### `ℚ → ℚ[i]` -/

/-- `GQ.ofRat` as a ring homomorphism -/
def ofRatHom : ℚ →+* GQ where
  toFun := GQ.ofRat
  map_one' := rfl
  map_mul' a b := by ext <;> simp [GQ.ofRat]
  map_zero' := rfl
  map_add' a b := by ext <;> simp [GQ.ofRat]

theorem ofRatHom_apply (x : ℚ) : ofRatHom x = GQ.ofRat x := rfl

theorem mk_zero_eq_ofRat (x : ℚ) : (⟨x, 0⟩ : GQ) = GQ.ofRat x := rfl

theorem natCast_eq_ofRat (n : ℕ) : (n : GQ) = GQ.ofRat (n : ℚ) := by
  rw [← ofRatHom_apply, map_natCast]

theorem star_ofRat (x : ℚ) : star (GQ.ofRat x) = GQ.ofRat x := by
  ext <;> simp [GQ.ofRat]

/-! ### lists -/

theorem get_sqDist (v : SVec) (r : List ℕ) :
    Dist.get (sqDist v) r =
      ((v.filter (·.1 == r)).map fun e => GQ.normSq e.2.1 * e.2.2).sum := by
  induction v with
  | nil => rfl
  | cons e rest ih =>
    simp only [sqDist, Dist.get, List.map_cons, List.filter_cons] at *
    by_cases h : (e.1 == r) = true
    · simp only [h, ↓reduceIte, List.map_cons, List.sum_cons]
      rw [ih]
    · simp only [h, Bool.false_eq_true, ↓reduceIte]
      rw [ih]

theorem mass_sqDist_postprocessSV (M : ℕ) (v : SVec) :
    Dist.mass (sqDist (postprocessSV M v)) = Dist.mass (sqDist v) := by
  simp [Dist.mass, sqDist, postprocessSV, Function.comp_def]

theorem length_le_one_of_nodup_of_all_eq {α : Type} : ∀ (l : List α), l.Nodup →
    (∀ a ∈ l, ∀ b ∈ l, a = b) → l.length ≤ 1
  | [], _, _ => by simp
  | [_], _, _ => by simp
  | a :: b :: rest, hn, h => by
    exfalso
    have hab : a = b := h a (by simp) b (by simp)
    rw [List.nodup_cons] at hn
    exact hn.1 (by simp [hab])

/-- two states of `M + 1` modes with the same photon number that agree on the first `M` modes are equal -/
theorem eq_of_take_eq_of_sum_eq : ∀ (M : ℕ) (t u : List ℕ), t.length = M + 1 → u.length = M + 1 →
    t.sum = u.sum → t.take M = u.take M → t = u
  | 0, t, u, ht, hu, hs, _ => by
    match t, u, ht, hu with
    | [a], [b], _, _ => simp at hs; rw [hs]
  | M + 1, t, u, ht, hu, hs, hk => by
    match t, u, ht, hu with
    | a :: t', b :: u', ht, hu =>
      simp only [List.take_succ_cons, List.cons.injEq] at hk
      obtain ⟨rfl, hk⟩ := hk
      simp only [List.sum_cons, add_right_inj] at hs
      simp only [List.length_cons, add_left_inj] at ht hu
      rw [eq_of_take_eq_of_sum_eq M t' u' ht hu hs hk]

/-! ### `_get_annihilated_fockstate` -/

theorem annihilate_eq_set (s : List ℕ) (mode l : ℕ) :
    annihilate s mode l = s.set mode (s.getD mode 0 - l) := by
  unfold annihilate
  split
  · rename_i h
    rw [Nat.sub_eq_zero_of_le h]
  · rfl

theorem annihilate_length (s : List ℕ) (mode l : ℕ) : (annihilate s mode l).length = s.length := by
  simp [annihilate]

/-- putting the `l` photons back: the creation that undoes the annihilation -/
theorem create_annihilate (t : List ℕ) (mode l : ℕ) (h : l ≤ t.getD mode 0) :
    (annihilate t mode l).set mode ((annihilate t mode l).getD mode 0 + l) = t := by
  rw [annihilate_eq_set]
  by_cases hm : mode < t.length
  · have h1 : (t.set mode (t.getD mode 0 - l)).getD mode 0 = t.getD mode 0 - l := by
      rw [List.getD_eq_getElem?_getD, List.getElem?_set_self hm]; rfl
    rw [h1, List.set_set, Nat.sub_add_cancel h]
    have h2 : t.getD mode 0 = t[mode] := by
      rw [List.getD_eq_getElem?_getD, List.getElem?_eq_getElem hm]; rfl
    rw [h2]
    exact List.set_getElem_self hm
  · have hm' : t.length ≤ mode := Nat.le_of_not_lt hm
    rw [List.set_eq_of_length_le hm', List.set_eq_of_length_le hm']

theorem annihilate_inj (t u : List ℕ) (mode l : ℕ) (ht : l ≤ t.getD mode 0) (hu : l ≤ u.getD mode 0)
    (h : annihilate t mode l = annihilate u mode l) : t = u := by
  rw [← create_annihilate t mode l ht, ← create_annihilate u mode l hu, h]

/-! ### Kraus weights -/

theorem krausW2_nonneg (p : ℚ) (h0 : 0 ≤ p) (h1 : p ≤ 1) (n l : ℕ) : 0 ≤ krausW2 p n l := by
  unfold krausW2
  have : 0 ≤ 1 - p := by linarith
  positivity

theorem krausW2_sum_one (p : ℚ) (n : ℕ) :
    ((List.range (n + 1)).map (krausW2 p n)).sum = 1 := by
  rw [list_range_sum_rat]
  have := add_pow p (1 - p) n
  rw [add_sub_cancel, one_pow] at this
  refine Eq.trans ?_ this.symm
  apply Finset.sum_congr rfl
  intro k _
  unfold krausW2; ring

end PM.C07

namespace PM.C07

/-! ### trace of a list of contributions -/

theorem dmTrace_cons {K : Type} [CommRing K] (E : RootEval K) (e : (List ℕ × List ℕ) × GQ × ℚ)
    (ρ : DMat) :
    dmTrace E (e :: ρ) = (if e.1.1 == e.1.2 then E.eval e.2 else 0) + dmTrace E ρ := by
  unfold dmTrace
  by_cases h : (e.1.1 == e.1.2) = true
  · simp [List.filter_cons, h]
  · simp [List.filter_cons, h]

theorem dmTrace_append {K : Type} [CommRing K] (E : RootEval K) (a b : DMat) :
    dmTrace E (a ++ b) = dmTrace E a + dmTrace E b := by
  simp [dmTrace]

/-- the contributions one entry `ρ[t, u]` sends out -/
def krausHead (mode : ℕ) (p : ℚ) (e : (List ℕ × List ℕ) × GQ × ℚ) : DMat :=
  (List.range (min (e.1.1.getD mode 0) (e.1.2.getD mode 0) + 1)).map fun l =>
    ((annihilate e.1.1 mode l, annihilate e.1.2 mode l), e.2.1,
      e.2.2 * (krausW2 p (e.1.1.getD mode 0) l * krausW2 p (e.1.2.getD mode 0) l))

theorem krausApply_cons (mode : ℕ) (p : ℚ) (e : (List ℕ × List ℕ) × GQ × ℚ) (ρ : DMat) :
    krausApply mode p (e :: ρ) = krausHead mode p e ++ krausApply mode p ρ := by
  simp [krausApply, krausHead]

theorem sigma_sq_weight {K : Type} [CommRing K] (E : RootEval K) (q w : ℚ) (hq : 0 ≤ q) (hw : 0 ≤ w) :
    E.σ (q * (w * w)) = E.σ q * E.φ (GQ.ofRat w) := by
  rw [E.σ_mul q (w * w) hq (mul_nonneg hw hw), E.σ_sq w hw]

theorem kraus_head_trace {K : Type} [CommRing K] (E : RootEval K) (mode : ℕ) (p : ℚ)
    (h0 : 0 ≤ p) (h1 : p ≤ 1) (e : (List ℕ × List ℕ) × GQ × ℚ) (hq : 0 ≤ e.2.2) :
    dmTrace E (krausHead mode p e) = if e.1.1 == e.1.2 then E.eval e.2 else 0 := by
  obtain ⟨⟨t, u⟩, a, q⟩ := e
  simp only at hq ⊢
  by_cases htu : t = u
  · subst htu
    simp only [beq_self_eq_true, ↓reduceIte]
    unfold dmTrace krausHead
    simp only [Nat.min_self, List.filter_map, Function.comp_def, beq_self_eq_true, List.filter_true,
      List.map_map, RootEval.eval]
    have : ∀ l, E.φ a * E.σ (q * (krausW2 p (t.getD mode 0) l * krausW2 p (t.getD mode 0) l)) =
        (E.φ a * E.σ q) * (E.φ.comp ofRatHom) (krausW2 p (t.getD mode 0) l) := by
      intro l
      rw [sigma_sq_weight E q _ hq (krausW2_nonneg p h0 h1 _ _)]
      simp [ofRatHom_apply, mul_assoc]
    simp only [this]
    rw [List.sum_map_mul_left]
    have hs : (List.map (fun x => (E.φ.comp ofRatHom) (krausW2 p (t.getD mode 0) x))
        (List.range (t.getD mode 0 + 1))).sum =
        (E.φ.comp ofRatHom) ((List.range (t.getD mode 0 + 1)).map (krausW2 p (t.getD mode 0))).sum := by
      rw [map_list_sum, List.map_map]; rfl
    rw [hs, krausW2_sum_one]
    simp
  · have hne : (t == u) = false := by simpa using htu
    simp only [hne, Bool.false_eq_true, ↓reduceIte]
    unfold dmTrace krausHead
    have : (List.filter (fun e : (List ℕ × List ℕ) × GQ × ℚ => e.1.1 == e.1.2)
        (List.map (fun l => ((annihilate t mode l, annihilate u mode l), a,
          q * (krausW2 p (t.getD mode 0) l * krausW2 p (u.getD mode 0) l)))
          (List.range (min (t.getD mode 0) (u.getD mode 0) + 1)))) = [] := by
      rw [List.filter_eq_nil_iff]
      intro x hx
      rw [List.mem_map] at hx
      obtain ⟨l, hl, rfl⟩ := hx
      rw [List.mem_range] at hl
      simp only [beq_iff_eq]
      intro heq
      exact htu (annihilate_inj t u mode l (by omega) (by omega) heq)
    rw [this]
    rfl

end PM.C07

namespace PM.C07

/-! ### an interpretation of the square roots: ℂ with `Real.sqrt` (non-vacuity of `RootEval`) -/

/-- `ℚ[i] → ℂ` -/
noncomputable def gqToComplex : GQ →+* ℂ where
  toFun a := ⟨(a.re : ℝ), (a.im : ℝ)⟩
  map_one' := by apply Complex.ext <;> simp
  map_mul' a b := by apply Complex.ext <;> simp
  map_zero' := by apply Complex.ext <;> simp
  map_add' a b := by apply Complex.ext <;> simp

/-- the standard interpretation: `σ q = √q` (real, non-negative) -/
noncomputable def complexEval : RootEval ℂ where
  φ := gqToComplex
  σ q := ((Real.sqrt (q : ℝ) : ℝ) : ℂ)
  σ_mul x y hx _ := by
    have hx' : (0 : ℝ) ≤ (x : ℝ) := by exact_mod_cast hx
    rw [Rat.cast_mul, Real.sqrt_mul hx']
    push_cast
    rfl
  σ_sq x hx := by
    have hx' : (0 : ℝ) ≤ (x : ℝ) := by exact_mod_cast hx
    rw [Rat.cast_mul, Real.sqrt_mul_self hx']
    apply Complex.ext <;> simp [gqToComplex, GQ.ofRat]

/-! ### the source distribution -/

theorem sum_flatMap_weights (p : ℚ) (k : ℕ) : ∀ L : List (ℚ × List ℕ),
    (L.flatMap fun a => (List.range (k + 1)).map fun x => a.1 * krausW2 p k x).sum =
      (L.map (·.1)).sum
  | [] => rfl
  | q :: rest => by
    rw [List.flatMap_cons, List.sum_append, sum_flatMap_weights p k rest, List.map_cons, List.sum_cons,
      List.sum_map_mul_left]
    have h := krausW2_sum_one p k
    rw [show (List.map (fun x => krausW2 p k x) (List.range (k + 1))) =
      (List.range (k + 1)).map (krausW2 p k) from rfl, h, mul_one]

theorem sourceDist_weights (e : ℚ) : ∀ s : List ℕ, ((sourceDist e s).map (·.1)).sum = 1
  | [] => by simp [sourceDist]
  | k :: rest => by
    have ih := sourceDist_weights e rest
    simp only [sourceDist, List.map_flatMap, List.map_map, Function.comp_def]
    rw [sum_flatMap_weights (1 - e) k, ih]

end PM.C07
