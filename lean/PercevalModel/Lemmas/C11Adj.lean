/-
  C11 — the adjacency bookkeeping `_update_adjacent` (repaired version) and a sufficient condition
  for the validity of an unravelling permutation.

  `adjOf true m inComps` is the list of groups of dependent modes `_simplify_perm` hands to the
  heuristic `_generate_compatible_perm`.  Proved here: every in-between component lies inside ONE
  group (`adjOf_covered`), hence a permutation that keeps consecutive modes of a same group on
  consecutive places is a valid choice (`validChoice_of_groups`).  The heuristic writes every group
  (a sorted list of modes) into consecutive slots of `left_right_perm` — that it does so is NOT
  proved (the heuristic is not modelled).
-/
import PercevalModel.Lemmas.C11More

set_option linter.unusedSimpArgs false
set_option linter.unusedSectionVars false

namespace PM.C11
variable {P : Type}

/-- `any(mode in r for mode in modes)` -/
def touchesR (r0 w : ℕ) (modes : List ℕ) : Bool := modes.any (fun x => r0 ≤ x && x < r0 + w)

/-- the merged group `sorted(set(r) ∪ every group meeting r)` (as an unsorted list with repetitions:
only membership matters in the model) -/
def mergedR (adj : List (List ℕ)) (r0 w : ℕ) : List ℕ :=
  (adj.filter (touchesR r0 w)).flatten ++ List.range' r0 w

theorem updateAdjacent_fixed_eq (adj : List (List ℕ)) (r0 w : ℕ) :
    updateAdjacent true adj r0 w =
      match adj.findIdx? (touchesR r0 w) with
      | none => adj ++ [mergedR adj r0 w]
      | some i => (adj.take i).filter (!touchesR r0 w ·) ++ [mergedR adj r0 w] ++
          (adj.drop i).filter (!touchesR r0 w ·) := rfl

/-- the groups dependent modes are sorted into after the in-between components
(the expression `permBranch` and `_simplify_perm` compute) -/
def adjOf (fixedAdj : Bool) (m : ℕ) (inComps : List (Item P)) : List (List ℕ) :=
  inComps.foldl (fun a it => updateAdjacent fixedAdj a it.r0 it.w) ((List.range m).map fun j => [j])

theorem permBranch_eq_adjOf (fixedAdj : Bool) (m : ℕ) (comps : List (Item P)) :
    permBranch fixedAdj m comps =
      match lastPermIdx comps with
      | none => .single
      | some i =>
        if i + 1 = comps.length then .successive
        else if (adjOf fixedAdj m (comps.drop (i + 1))).length > 1 then .nonSuccessive else .single :=
  rfl

/-- the modes `r0 … r0+w-1` all belong to one group -/
def Covered (adj : List (List ℕ)) (r0 w : ℕ) : Prop := ∃ g ∈ adj, ∀ j < w, r0 + j ∈ g

theorem merged_mem_updateAdjacent (adj : List (List ℕ)) (r0 w : ℕ) :
    mergedR adj r0 w ∈ updateAdjacent true adj r0 w := by
  rw [updateAdjacent_fixed_eq]
  split <;> simp

theorem untouched_mem_updateAdjacent (adj : List (List ℕ)) (r0 w : ℕ) (g : List ℕ) (hg : g ∈ adj)
    (ht : touchesR r0 w g = false) : g ∈ updateAdjacent true adj r0 w := by
  rw [updateAdjacent_fixed_eq]
  split
  · simp [hg]
  · rename_i i _
    have : g ∈ adj.take i ++ adj.drop i := by rw [List.take_append_drop]; exact hg
    rcases List.mem_append.1 this with h | h
    · simp [List.mem_filter, h, ht]
    · simp [List.mem_filter, h, ht]

theorem touched_subset_merged (adj : List (List ℕ)) (r0 w : ℕ) (g : List ℕ) (hg : g ∈ adj)
    (ht : touchesR r0 w g = true) : ∀ x ∈ g, x ∈ mergedR adj r0 w := by
  intro x hx
  unfold mergedR
  apply List.mem_append_left
  rw [List.mem_flatten]
  exact ⟨g, List.mem_filter.2 ⟨hg, ht⟩, hx⟩

/-- the new component's modes are in the merged group -/
theorem updateAdjacent_covered_self (adj : List (List ℕ)) (r0 w : ℕ) :
    Covered (updateAdjacent true adj r0 w) r0 w := by
  refine ⟨mergedR adj r0 w, merged_mem_updateAdjacent adj r0 w, ?_⟩
  intro j hj
  unfold mergedR
  apply List.mem_append_right
  rw [List.mem_range'_1]
  omega

/-- modes that were in one group stay in one group (the repaired `_update_adjacent` only merges) -/
theorem updateAdjacent_covered_mono (adj : List (List ℕ)) (r0 w a b : ℕ) (h : Covered adj a b) :
    Covered (updateAdjacent true adj r0 w) a b := by
  obtain ⟨g, hg, hin⟩ := h
  cases ht : touchesR r0 w g with
  | false => exact ⟨g, untouched_mem_updateAdjacent adj r0 w g hg ht, hin⟩
  | true =>
    exact ⟨mergedR adj r0 w, merged_mem_updateAdjacent adj r0 w,
      fun j hj => touched_subset_merged adj r0 w g hg ht _ (hin j hj)⟩

theorem foldl_covered_mono (a b : ℕ) : (l : List (Item P)) → (adj : List (List ℕ)) →
    Covered adj a b →
    Covered (l.foldl (fun a it => updateAdjacent true a it.r0 it.w) adj) a b
  | [], _, h => h
  | it :: rest, adj, h => by
    simp only [List.foldl_cons]
    exact foldl_covered_mono a b rest _ (updateAdjacent_covered_mono adj it.r0 it.w a b h)

theorem foldl_covered : (l : List (Item P)) → (adj : List (List ℕ)) → ∀ it ∈ l,
    Covered (l.foldl (fun a it => updateAdjacent true a it.r0 it.w) adj) it.r0 it.w
  | [], _, _, h => by simp at h
  | x :: rest, adj, it, h => by
    simp only [List.foldl_cons]
    rcases List.mem_cons.1 h with h1 | h1
    · rw [h1]
      exact foldl_covered_mono _ _ rest _ (updateAdjacent_covered_self adj x.r0 x.w)
    · exact foldl_covered rest _ it h1

/-- **repaired `_update_adjacent`**: after the bookkeeping loop every in-between component lies inside
one group of dependent modes (whatever the components: overlapping, nested, zero width) -/
theorem adjOf_covered (m : ℕ) (inComps : List (Item P)) :
    ∀ it ∈ inComps, Covered (adjOf true m inComps) it.r0 it.w :=
  foldl_covered inComps _

/-- the condition the heuristic's block placement guarantees: consecutive modes of a same group are
sent to consecutive places by the inverse of the unravelling permutation -/
def KeepsGroups (m : ℕ) (adj : List (List ℕ)) (ρ : List ℕ) : Prop :=
  ∀ g ∈ adj, ∀ x ∈ g, x + 1 ∈ g →
    (invertPerm ρ).getD (x + 1) m = (invertPerm ρ).getD x m + 1

instance (m : ℕ) (adj : List (List ℕ)) (ρ : List ℕ) : Decidable (KeepsGroups m adj ρ) := by
  unfold KeepsGroups; infer_instance

instance (adj : List (List ℕ)) (r0 w : ℕ) : Decidable (Covered adj r0 w) := by
  unfold Covered; infer_instance

/-- **sufficient condition for a valid choice** (with the repaired `_update_adjacent`): a permutation
of the `m` modes that keeps the consecutive modes of every group consecutive satisfies `validChoice` -/
theorem validChoice_of_groups {m : ℕ} (inComps : List (Item P)) (ρ : List ℕ)
    (hlen : ρ.length = m) (hperm : isPerm ρ = true)
    (hadj : KeepsGroups m (adjOf true m inComps) ρ) :
    validChoice m inComps ρ = true := by
  simp only [validChoice, Bool.and_eq_true, beq_iff_eq, List.all_eq_true, List.mem_range]
  refine ⟨⟨hlen, hperm⟩, ?_⟩
  intro it hit
  obtain ⟨g, hg, hin⟩ := adjOf_covered m inComps it hit
  intro j
  induction j with
  | zero => intro _; rfl
  | succ j ih =>
    intro hj
    have := hadj g hg (it.r0 + j) (hin j (by omega)) (by
      have := hin (j + 1) hj
      rwa [← Nat.add_assoc] at this)
    rw [← Nat.add_assoc, this, ih (by omega)]
    omega

/-- with the repaired bookkeeping, `_simplify_perm` accepts (returns for) every permutation of the
modes that keeps the groups it computed -/
theorem simplifyPerm_isSome_of_groups (m : ℕ) (display : Bool) (comps : List (Item P))
    (r0 : ℕ) (σ ρ : List ℕ) (hlen : ρ.length = m) (hperm : isPerm ρ = true)
    (hadj : ∀ i, lastPermIdx comps = some i →
      KeepsGroups m (adjOf true m (comps.drop (i + 1))) ρ) :
    (simplifyPerm true m display comps r0 σ (some ρ)).isSome = true := by
  apply simplifyPerm_isSome
  intro ρ' hρ' i hi
  cases hρ'
  exact validChoice_of_groups _ ρ hlen hperm (hadj i hi)

/-! ### what `_update_perm` does with a group: `perm[slice_min:slice_max] = modes` -/

/-- the modes of group `g`, as a strictly increasing list `blk` (`sorted(merged)`), are written into
consecutive slots of `ρ` starting at slot `s` -/
def BlockPlaced (ρ : List ℕ) (g : List ℕ) : Prop :=
  ∃ (s : ℕ) (blk : List ℕ), blk.Pairwise (· < ·) ∧ (∀ x, x ∈ g → x ∈ blk) ∧
    s + blk.length ≤ ρ.length ∧ ∀ k < blk.length, ρ.getD (s + k) 0 = blk.getD k 0

theorem sorted_succ_adjacent {blk : List ℕ} (hs : blk.Pairwise (· < ·)) {x : ℕ} (hx : x ∈ blk)
    (hx1 : x + 1 ∈ blk) : blk.idxOf (x + 1) = blk.idxOf x + 1 := by
  have ha := List.idxOf_lt_length_of_mem hx
  have hb := List.idxOf_lt_length_of_mem hx1
  have ea : blk[blk.idxOf x] = x := List.getElem_idxOf ha
  have eb : blk[blk.idxOf (x + 1)] = x + 1 := List.getElem_idxOf hb
  have mono := List.pairwise_iff_getElem.1 hs
  have hab : blk.idxOf x < blk.idxOf (x + 1) := by
    by_contra hc
    rcases Nat.lt_or_eq_of_le (Nat.le_of_not_lt hc) with h | h
    · have := mono _ _ hb ha h
      omega
    · have : blk[blk.idxOf (x + 1)] = blk[blk.idxOf x] := by simp only [h]
      omega
  by_contra hne
  have hmid : blk.idxOf x + 1 < blk.idxOf (x + 1) := by omega
  have hm : blk.idxOf x + 1 < blk.length := by omega
  have h1 := mono _ _ ha hm (by omega)
  have h2 := mono _ _ hm hb hmid
  omega

/-- a permutation in which every group is written as a sorted block keeps the groups -/
theorem keepsGroups_of_blocks {m : ℕ} {adj : List (List ℕ)} {ρ : List ℕ} (hρ : IsPermList m ρ)
    (hb : ∀ g ∈ adj, BlockPlaced ρ g) : KeepsGroups m adj ρ := by
  intro g hg x hx hx1
  obtain ⟨s, blk, hs, hsub, hfit, hput⟩ := hb g hg
  have mx := hsub x hx
  have mx1 := hsub (x + 1) hx1
  have ha := List.idxOf_lt_length_of_mem mx
  have hbl := List.idxOf_lt_length_of_mem mx1
  have hadjc := sorted_succ_adjacent hs mx mx1
  have e0 : ρ.getD (s + blk.idxOf x) 0 = x := by
    rw [hput _ ha]; exact getD_idxOf mx
  have e1 : ρ.getD (s + (blk.idxOf x + 1)) 0 = x + 1 := by
    rw [← hadjc, hput _ hbl]; exact getD_idxOf mx1
  have i0 : ρ.idxOf x = s + blk.idxOf x := idxOf_eq_of_getD hρ.2.1 (by omega) e0
  have i1 : ρ.idxOf (x + 1) = s + (blk.idxOf x + 1) :=
    idxOf_eq_of_getD hρ.2.1 (by omega) e1
  have hxm : x < m := by
    apply hρ.2.2
    rw [← e0, getD_eq_getElem' _ _ _ (by omega)]
    exact List.getElem_mem _
  have hx1m : x + 1 < m := by
    apply hρ.2.2
    rw [← e1, getD_eq_getElem' _ _ _ (by omega)]
    exact List.getElem_mem _
  rw [invertPerm_getD hρ hx1m, invertPerm_getD hρ hxm, i0, i1]
  omega

end PM.C11
