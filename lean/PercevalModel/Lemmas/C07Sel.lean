/-
  C07 (extension 3) — helper lemmas for the selection glue of the loss layer (`Model/C07Sel.lean`).
-/
import PercevalModel.Model.C07Sel
import Mathlib.Tactic.FieldSimp
import Mathlib.Tactic.Ring
import Mathlib.Tactic.Linarith

namespace PM.C07
open PM.SimSpec PM.Dist

theorem scale_one (d : D) : scale 1 d = d := by
  induction d with
  | nil => rfl
  | cons p r ih =>
    simp only [scale, List.map_cons] at ih ⊢
    rw [ih, one_mul]

theorem scale_scale (a b : ℚ) (d : D) : scale a (scale b d) = scale (a * b) d := by
  simp [scale, mul_assoc]

theorem restrict_scale (ok : Fock → Bool) (c : ℚ) (d : D) :
    restrict ok (scale c d) = scale c (restrict ok d) := by
  simp [restrict, scale, List.filter_map, Function.comp_def]

theorem mapKeys_scale (f : Fock → Fock) (c : ℚ) (d : D) :
    mapKeys f (scale c d) = scale c (mapKeys f d) := by
  simp [mapKeys, scale]

theorem restrict_true (ok : Fock → Bool) (h : ∀ t, ok t = true) (d : D) : restrict ok d = d := by
  unfold restrict
  exact List.filter_eq_self.2 fun p _ => h p.1

/-- normalising does not see a non-zero factor -/
theorem normalize_scale (c : ℚ) (hc : c ≠ 0) (d : D) (hd : mass d ≠ 0) :
    normalize (scale c d) = normalize d := by
  have h1 : mass (scale c d) ≠ 0 := by rw [mass_scale]; exact mul_ne_zero hc hd
  unfold normalize
  rw [if_neg h1, if_neg hd, scale_scale, mass_scale]
  congr 1
  field_simp

/-- filtering the marginal is filtering the enlarged distribution by the truncated state -/
theorem restrict_postprocess (ok : Fock → Bool) (M : ℕ) (d : D) :
    restrict ok (postprocess M d) = postprocess M (restrict (fun t => ok (t.take M)) d) := by
  simp [restrict, postprocess, mapKeys, List.filter_map, Function.comp_def]

theorem removeModes_nil (t : Fock) : removeModes [] t = t := by
  unfold removeModes
  have : (t.zipIdx.filter fun p => !([] : List ℕ).contains p.2) = t.zipIdx :=
    List.filter_eq_self.2 fun p _ => by simp
  rw [this]
  exact List.zipIdx_map_fst 0 t

/-- `post_select_distribution`: the shortcut branch gives what the general branch would give -/
theorem postSelect_fst (σ : Sel) (d : D) :
    (postSelect σ d).1 = normalize (mapKeys (reported σ.cond) (restrict (logicOk σ.cond) d)) := by
  unfold postSelect
  by_cases h : (hasCond σ.ps || !σ.heralds.isEmpty) = true
  · simp [h]
  · have hb : (!(hasCond σ.ps || !σ.heralds.isEmpty)) = true := by simpa using h
    rw [if_pos hb]
    have h1 : hasCond σ.ps = false := by cases hc : hasCond σ.ps <;> simp_all
    have h2 : σ.heralds.isEmpty = true := by cases hc : σ.heralds.isEmpty <;> simp_all
    have hps : σ.ps = PS.tt := by
      cases hp : σ.ps <;> simp [hp, hasCond] at h1 ⊢
    have hh : σ.heralds = [] := List.isEmpty_iff.1 h2
    have hl : ∀ t, logicOk σ.cond t = true := by
      intro t; simp [logicOk, Sel.cond, heraldsOk, hh, hps, PS.eval]
    have hr : ∀ t, reported σ.cond t = t := by
      intro t
      simp only [reported, Sel.cond, hh, List.map_nil, removeModes_nil, ite_self]
    rw [restrict_true _ hl]
    have : mapKeys (reported σ.cond) d = d := by
      unfold mapKeys
      conv_rhs => rw [← List.map_id d]
      exact List.map_congr_left fun p _ => by simp [hr]
    rw [this]

/-- logical performance of `post_select_distribution` on a normalised distribution -/
theorem postSelect_snd (σ : Sel) (d : D) (hd : mass d = 1) :
    (postSelect σ d).2 = mass (restrict (logicOk σ.cond) d) := by
  unfold postSelect
  by_cases h : (hasCond σ.ps || !σ.heralds.isEmpty) = true
  · simp only [h, Bool.not_true, Bool.false_eq_true, ↓reduceIte]
    have := mass_restrict_add (logicOk σ.cond) d
    linarith
  · have hb : (!(hasCond σ.ps || !σ.heralds.isEmpty)) = true := by simpa using h
    rw [if_pos hb]
    have h1 : hasCond σ.ps = false := by cases hc : hasCond σ.ps <;> simp_all
    have h2 : σ.heralds.isEmpty = true := by cases hc : σ.heralds.isEmpty <;> simp_all
    have hps : σ.ps = PS.tt := by
      cases hp : σ.ps <;> simp [hp, hasCond] at h1 ⊢
    have hh : σ.heralds = [] := List.isEmpty_iff.1 h2
    have hl : ∀ t, logicOk σ.cond t = true := by
      intro t; simp [logicOk, Sel.cond, heraldsOk, hh, hps, PS.eval]
    rw [restrict_true _ hl, hd]

/-- what the photon filter step hands on: a non-zero multiple of the part of the marginal that passes it -/
theorem filter_step (σ : Sel) (d1 : D) (h1 : mass d1 = 1) (hp : physPerf σ.cond d1 ≠ 0) :
    (if σ.filter = 0 then (d1, (1 : ℚ)) else filterCount σ.filter d1) =
      (scale (physPerf σ.cond d1)⁻¹ (restrict (physOk σ.cond) d1), physPerf σ.cond d1) := by
  have hphys : (fun t : Fock => decide (σ.filter ≤ t.sum)) = physOk σ.cond := by
    funext t
    rfl
  by_cases hf : σ.filter = 0
  · rw [if_pos hf]
    have hall : ∀ t, physOk σ.cond t = true := by
      intro t; simp [physOk, Sel.cond, hf]
    have hm : physPerf σ.cond d1 = 1 := by
      unfold physPerf; rw [restrict_true _ hall, h1]
    rw [hm, inv_one, scale_one, restrict_true _ hall]
  · rw [if_neg hf]
    unfold filterCount
    rw [if_neg hf]
    simp only [hphys]
    have hm : mass (restrict (physOk σ.cond) d1) ≠ 0 := hp
    simp only [normalize, hm, ↓reduceIte]
    rfl

/-- **the code's two successive normalisations are the specification's single one** -/
theorem lossPost_spec (σ : Sel) (M : ℕ) (d : D) (hd : mass d = 1)
    (hp : physPerf σ.cond (postprocess M d) ≠ 0) :
    ((mass (retained σ.cond (postprocess M d)) ≠ 0 →
        (lossPost σ M d).1 = conditioned σ.cond (postprocess M d)) ∧
      (lossPost σ M d).2.1 = logicalPerf σ.cond (postprocess M d)) ∧
      (lossPost σ M d).2.2 = physPerf σ.cond (postprocess M d) := by
  have h1 : mass (postprocess M d) = 1 := by
    unfold postprocess; rw [mass_mapKeys, hd]
  have hstep := filter_step σ (postprocess M d) h1 hp
  have hk : (physPerf σ.cond (postprocess M d))⁻¹ ≠ 0 := inv_ne_zero hp
  have hrr : restrict (logicOk σ.cond) (restrict (physOk σ.cond) (postprocess M d)) =
      retained σ.cond (postprocess M d) := by
    rw [restrict_restrict]; rfl
  refine ⟨⟨?_, ?_⟩, ?_⟩
  · intro hr
    unfold lossPost
    simp only [hstep]
    rw [postSelect_fst, restrict_scale, mapKeys_scale, hrr,
      normalize_scale _ hk _ (by rwa [mass_mapKeys])]
    rfl
  · unfold lossPost
    simp only [hstep]
    rw [postSelect_snd _ _ (by
      rw [mass_scale]; exact inv_mul_cancel₀ hp), restrict_scale, mass_scale, hrr]
    simp only [logicalPerf, hp, ↓reduceIte]
    ring
  · unfold lossPost
    simp only [hstep]

/-- the selection is a function of the original modes only -/
theorem retained_postprocess (c : Cond) (M : ℕ) (d : D) :
    mass (retained c (postprocess M d)) =
      mass (restrict (fun t => physOk c (t.take M) && logicOk c (t.take M)) d) := by
  unfold retained
  rw [restrict_postprocess]
  unfold postprocess
  rw [mass_mapKeys]

theorem sum_take_le (M : ℕ) (t : List ℕ) : (t.take M).sum ≤ t.sum := by
  conv_rhs => rw [← List.take_append_drop M t, List.sum_append]
  exact Nat.le_add_right _ _

/-- every state of the enlarged distribution has the photon number of the input -/
theorem fullDist_sum {N : ℕ} (U : Matrix (Fin N) (Fin N) GQ) (s : List ℕ) :
    ∀ p ∈ fullDist U s, p.1.sum = s.sum := by
  intro p hp
  simp only [fullDist, List.mem_map] at hp
  obtain ⟨t, ht, rfl⟩ := hp
  exact ((Fock.mem_allStates_iff _ _ _).1 ht).2

/-! ### non-negative weights: something retained means something passed the photon filter -/

def Nonneg (d : D) : Prop := ∀ p ∈ d, 0 ≤ p.2

theorem mass_nonneg (d : D) (h : Nonneg d) : 0 ≤ mass d := by
  induction d with
  | nil => simp
  | cons p r ih =>
    rw [mass_cons]
    exact add_nonneg (h p (by simp)) (ih fun q hq => h q (by simp [hq]))

theorem nonneg_restrict (ok : Fock → Bool) (d : D) (h : Nonneg d) : Nonneg (restrict ok d) :=
  fun p hp => h p (List.mem_filter.1 hp).1

theorem nonneg_postprocess (M : ℕ) (d : D) (h : Nonneg d) : Nonneg (postprocess M d) := by
  intro p hp
  simp only [postprocess, mapKeys, List.mem_map] at hp
  obtain ⟨q, hq, rfl⟩ := hp
  exact h q hq

theorem nonneg_fullDist {N : ℕ} (U : Matrix (Fin N) (Fin N) GQ) (s : List ℕ) : Nonneg (fullDist U s) := by
  intro p hp
  simp only [fullDist, List.mem_map] at hp
  obtain ⟨t, _, rfl⟩ := hp
  simp only [Fock.prob]
  apply div_nonneg
  · simp only [GQ.normSq]; nlinarith [mul_self_nonneg (Fock.pamp U s t).re, mul_self_nonneg (Fock.pamp U s t).im]
  · positivity

theorem physPerf_ne_zero_of_retained (c : Cond) (d : D) (h : Nonneg d) (hr : mass (retained c d) ≠ 0) :
    physPerf c d ≠ 0 := by
  intro h0
  apply hr
  have hadd := mass_restrict_add (logicOk c) (restrict (physOk c) d)
  rw [restrict_restrict, restrict_restrict] at hadd
  have h1 : 0 ≤ mass (restrict (fun t => physOk c t && logicOk c t) d) :=
    mass_nonneg _ (nonneg_restrict _ d h)
  have h2 : 0 ≤ mass (restrict (fun t => physOk c t && !logicOk c t) d) :=
    mass_nonneg _ (nonneg_restrict _ d h)
  unfold physPerf at h0
  unfold retained
  linarith

/-- an input with fewer photons than the caller's filter: nothing of the marginal passes the outer filter either -/
theorem restrict_physOk_nil {N : ℕ} (σ : Sel) (U : Matrix (Fin N) (Fin N) GQ) (M : ℕ) (s : List ℕ)
    (h : s.sum < σ.minDet) : restrict (physOk σ.cond) (lossProbs U M s) = [] := by
  unfold restrict
  rw [List.filter_eq_nil_iff]
  intro p hp
  simp only [lossProbs, postprocess, mapKeys, List.mem_map] at hp
  obtain ⟨q, hq, rfl⟩ := hp
  have hsum := fullDist_sum U _ q hq
  have hle := sum_take_le M q.1
  have hin : (prepareInput M N s).sum = s.sum := by simp [prepareInput]
  have hf : σ.minDet ≤ σ.filter := Nat.le_add_right _ _
  have hgoal : physOk σ.cond (List.take M q.1) = false := by
    have hlt : (List.take M q.1).sum < σ.filter := by omega
    simp only [physOk, Sel.cond]
    exact decide_eq_false (Nat.not_le.2 hlt)
  simp [hgoal]

end PM.C07
