/-
  C20 — the heralded CZ (Knill, quant-ph/0110144) exactly as the catalog builds it
  (`perceval/components/core_catalog/heralded_cz.py`): 6 modes, control pair on modes 0,1, data pair on modes
  2,3, heralds `4:1`, `5:1`, NO post-selection.

  The entries are ring elements of any commutative ring: `r` with `3·r·r = 1` (`cos(θ₁/2) = √(1/3)`), `h` with
  `2·h·h = 1` (`1/√2`), `sin(θ₁/2) = √(2/3) = 2·h·r`, and `c2 = cos(θ₂/2) = √((3+√6)/6)`,
  `s2 = sin(θ₂/2) = √((3−√6)/6)` with `6·c2² = 3 + 6hr`, `6·s2² = 3 − 6hr`, `2·c2·s2 = r` (`√6 = 6hr`).
  `hcz_params_exist`: the five relations hold for the real numbers the code uses.

  * `hczCircuit`: the component product of `build_circuit` (each `add` multiplies on the left, `Barrier`s are
    identities, `merge=True` only flattens); `hczCircuit_eq`: it is the explicit matrix `hczMatrix`
    (where `4h²r²` is written `2r²`, using `2h² = 1`).
  * `hcz_amp`, `hcz_table`: every logical amplitude is `(2hr·r²) · CZ`, and `27·(2hr·r²)² = 2`: success
    probability `2/27`.
  * `hcz_localOn`: modes 0 and 2 are spectators.  `hcz_noLeak`: the gate is HERALDED — given the heralds, no
    logical input reaches a non-logical output (all four candidate leak amplitudes are exactly zero).
  * `hcz_gateImpl_ok`: the `GateImpl.Ok` package used by `heralded_circuit_implements` (C20Comp.lean).
-/
import PercevalModel.Lemmas.C20Gates
import PercevalModel.Lemmas.C20Comp
import Mathlib.Tactic.IntervalCases
import Mathlib.Analysis.Real.Sqrt

open Matrix

namespace PM.C20
open PM.Fock PM.SimSpec

variable {R : Type*} [CommRing R]

/-- `PS(π)`: the 1×1 matrix `e^{iπ} = -1` -/
def psPi : Matrix (Fin 1) (Fin 1) R := !![-1]

/-- `HeraldedCzItem.build_circuit`: `PERM([1,0])` at 1; the inner circuit at 2 (`PERM([1,0])` at 3, `PS(π)` on 2
and on 5, `BS.H(θ₁)` on (2,3) and (4,5), `PERM([1,0])` at 3, `BS.H(−θ₁)` on (2,3), `BS.H(θ₂)` on (4,5));
`PERM([1,0])` at 1 -/
def hczCircuit (r h c2 s2 : R) : Matrix (Fin 6) (Fin 6) R :=
  embed 6 1 (permMatL 2 [1, 0]) *
    (embed 6 4 (bsH c2 s2) *
      (embed 6 2 (bsH r (-(2 * h * r))) *
        (embed 6 3 (permMatL 2 [1, 0]) *
          (embed 6 4 (bsH r (2 * h * r)) *
            (embed 6 2 (bsH r (2 * h * r)) *
              (embed 6 5 psPi *
                (embed 6 2 psPi *
                  (embed 6 3 (permMatL 2 [1, 0]) * embed 6 1 (permMatL 2 [1, 0])))))))))

/-- the heralded CZ matrix (`4h²r²` written as `2r²`) -/
def hczMatrix (r h c2 s2 : R) : Matrix (Fin 6) (Fin 6) R :=
  !![1, 0, 0, 0, 0, 0;
     0, -(r*r), 0, -(2*h*(r*r)), 2*h*(r*r), 2*(r*r);
     0, 0, 1, 0, 0, 0;
     0, 2*h*(r*r), 0, -(r*r), -(2*(r*r)), 2*h*(r*r);
     0, -(2*c2*h*r), 0, 2*h*r*s2, -(c2*r), r*s2;
     0, -(2*h*r*s2), 0, -(2*c2*h*r), -(r*s2), -(c2*r)]

/-! ### the components as explicit 6×6 matrices (`embed_bs2`, `embed_bs4` are in C20Gates.lean) -/

theorem embed_sw1 : embed 6 1 (permMatL (R := R) 2 [1, 0]) =
    !![1, 0, 0, 0, 0, 0;
     0, 0, 1, 0, 0, 0;
     0, 1, 0, 0, 0, 0;
     0, 0, 0, 1, 0, 0;
     0, 0, 0, 0, 1, 0;
     0, 0, 0, 0, 0, 1] := by
  ext i j
  fin_cases i <;> fin_cases j <;> simp [embed, place, unshift, permMatL]

theorem embed_sw3 : embed 6 3 (permMatL (R := R) 2 [1, 0]) =
    !![1, 0, 0, 0, 0, 0;
     0, 1, 0, 0, 0, 0;
     0, 0, 1, 0, 0, 0;
     0, 0, 0, 0, 1, 0;
     0, 0, 0, 1, 0, 0;
     0, 0, 0, 0, 0, 1] := by
  ext i j
  fin_cases i <;> fin_cases j <;> simp [embed, place, unshift, permMatL]

theorem embed_ps2 : embed 6 2 (psPi (R := R)) =
    !![1, 0, 0, 0, 0, 0;
     0, 1, 0, 0, 0, 0;
     0, 0, -1, 0, 0, 0;
     0, 0, 0, 1, 0, 0;
     0, 0, 0, 0, 1, 0;
     0, 0, 0, 0, 0, 1] := by
  ext i j
  fin_cases i <;> fin_cases j <;> simp [embed, place, unshift, psPi]

theorem embed_ps5 : embed 6 5 (psPi (R := R)) =
    !![1, 0, 0, 0, 0, 0;
     0, 1, 0, 0, 0, 0;
     0, 0, 1, 0, 0, 0;
     0, 0, 0, 1, 0, 0;
     0, 0, 0, 0, 1, 0;
     0, 0, 0, 0, 0, -1] := by
  ext i j
  fin_cases i <;> fin_cases j <;> simp [embed, place, unshift, psPi]

/-! ### the product, one component at a time -/

def hczStep1 : Matrix (Fin 6) (Fin 6) R :=
  !![1, 0, 0, 0, 0, 0;
     0, 0, 1, 0, 0, 0;
     0, 1, 0, 0, 0, 0;
     0, 0, 0, 0, 1, 0;
     0, 0, 0, 1, 0, 0;
     0, 0, 0, 0, 0, 1]

def hczStep2 : Matrix (Fin 6) (Fin 6) R :=
  !![1, 0, 0, 0, 0, 0;
     0, 0, 1, 0, 0, 0;
     0, -(1), 0, 0, 0, 0;
     0, 0, 0, 0, 1, 0;
     0, 0, 0, 1, 0, 0;
     0, 0, 0, 0, 0, 1]

def hczStep3 : Matrix (Fin 6) (Fin 6) R :=
  !![1, 0, 0, 0, 0, 0;
     0, 0, 1, 0, 0, 0;
     0, -(1), 0, 0, 0, 0;
     0, 0, 0, 0, 1, 0;
     0, 0, 0, 1, 0, 0;
     0, 0, 0, 0, 0, -(1)]

def hczStep4 (r h : R) : Matrix (Fin 6) (Fin 6) R :=
  !![1, 0, 0, 0, 0, 0;
     0, 0, 1, 0, 0, 0;
     0, -(r), 0, 0, 2*h*r, 0;
     0, -(2*h*r), 0, 0, -(r), 0;
     0, 0, 0, 1, 0, 0;
     0, 0, 0, 0, 0, -(1)]

def hczStep5 (r h : R) : Matrix (Fin 6) (Fin 6) R :=
  !![1, 0, 0, 0, 0, 0;
     0, 0, 1, 0, 0, 0;
     0, -(r), 0, 0, 2*h*r, 0;
     0, -(2*h*r), 0, 0, -(r), 0;
     0, 0, 0, r, 0, -(2*h*r);
     0, 0, 0, 2*h*r, 0, r]

def hczStep6 (r h : R) : Matrix (Fin 6) (Fin 6) R :=
  !![1, 0, 0, 0, 0, 0;
     0, 0, 1, 0, 0, 0;
     0, -(r), 0, 0, 2*h*r, 0;
     0, 0, 0, r, 0, -(2*h*r);
     0, -(2*h*r), 0, 0, -(r), 0;
     0, 0, 0, 2*h*r, 0, r]

def hczStep7 (r h : R) : Matrix (Fin 6) (Fin 6) R :=
  !![1, 0, 0, 0, 0, 0;
     0, 0, 1, 0, 0, 0;
     0, -(r^2), 0, -(2*h*r^2), 2*h*r^2, 4*h^2*r^2;
     0, 2*h*r^2, 0, -(r^2), -(4*h^2*r^2), 2*h*r^2;
     0, -(2*h*r), 0, 0, -(r), 0;
     0, 0, 0, 2*h*r, 0, r]

def hczStep8 (r h c2 s2 : R) : Matrix (Fin 6) (Fin 6) R :=
  !![1, 0, 0, 0, 0, 0;
     0, 0, 1, 0, 0, 0;
     0, -(r^2), 0, -(2*h*r^2), 2*h*r^2, 4*h^2*r^2;
     0, 2*h*r^2, 0, -(r^2), -(4*h^2*r^2), 2*h*r^2;
     0, -(2*c2*h*r), 0, 2*h*r*s2, -(c2*r), r*s2;
     0, -(2*h*r*s2), 0, -(2*c2*h*r), -(r*s2), -(c2*r)]

theorem hcz_step1 : embed 6 3 (permMatL (R := R) 2 [1, 0]) * embed 6 1 (permMatL 2 [1, 0]) = hczStep1 (R := R) := by
  rw [embed_sw3, embed_sw1]
  ext i j
  fin_cases i <;> fin_cases j <;> simp [hczStep1, Matrix.mul_apply, Fin.sum_univ_succ]

theorem hcz_step2 : embed 6 2 psPi * hczStep1 (R := R) = hczStep2 (R := R) := by
  rw [embed_ps2]
  ext i j
  fin_cases i <;> fin_cases j <;> simp [hczStep1, hczStep2, Matrix.mul_apply, Fin.sum_univ_succ]

theorem hcz_step3 : embed 6 5 psPi * hczStep2 (R := R) = hczStep3 (R := R) := by
  rw [embed_ps5]
  ext i j
  fin_cases i <;> fin_cases j <;> simp [hczStep2, hczStep3, Matrix.mul_apply, Fin.sum_univ_succ]

theorem hcz_step4 (r h : R) : embed 6 2 (bsH r (2 * h * r)) * hczStep3 = hczStep4 r h := by
  rw [embed_bs2]
  ext i j
  fin_cases i <;> fin_cases j <;> simp [hczStep3, hczStep4, Matrix.mul_apply, Fin.sum_univ_succ]

theorem hcz_step5 (r h : R) : embed 6 4 (bsH r (2 * h * r)) * hczStep4 r h = hczStep5 r h := by
  rw [embed_bs4]
  ext i j
  fin_cases i <;> fin_cases j <;> simp [hczStep4, hczStep5, Matrix.mul_apply, Fin.sum_univ_succ]

theorem hcz_step6 (r h : R) : embed 6 3 (permMatL 2 [1, 0]) * hczStep5 r h = hczStep6 r h := by
  rw [embed_sw3]
  ext i j
  fin_cases i <;> fin_cases j <;> simp [hczStep5, hczStep6, Matrix.mul_apply, Fin.sum_univ_succ]

theorem hcz_step7 (r h : R) : embed 6 2 (bsH r (-(2 * h * r))) * hczStep6 r h = hczStep7 r h := by
  rw [embed_bs2]
  ext i j
  fin_cases i <;> fin_cases j <;> simp [hczStep6, hczStep7, Matrix.mul_apply, Fin.sum_univ_succ] <;> ring

theorem hcz_step8 (r h c2 s2 : R) : embed 6 4 (bsH c2 s2) * hczStep7 r h = hczStep8 r h c2 s2 := by
  rw [embed_bs4]
  ext i j
  fin_cases i <;> fin_cases j <;> simp [hczStep7, hczStep8, Matrix.mul_apply, Fin.sum_univ_succ] <;> ring

theorem hcz_step9 (r h c2 s2 : R) (hh : 2 * h * h = 1) :
    embed 6 1 (permMatL 2 [1, 0]) * hczStep8 r h c2 s2 = hczMatrix r h c2 s2 := by
  rw [embed_sw1]
  ext i j
  fin_cases i <;> fin_cases j <;>
    simp [hczStep8, hczMatrix, Matrix.mul_apply, Fin.sum_univ_succ] <;>
    first | ring1 | linear_combination (2 * r ^ 2) * hh

/-- **the catalog's heralded CZ circuit is the explicit matrix** (uses only `2h² = 1`, to write the two
entries `±4h²r²` as `±2r²`) -/
theorem hczCircuit_eq (r h c2 s2 : R) (hh : 2 * h * h = 1) : hczCircuit r h c2 s2 = hczMatrix r h c2 s2 := by
  unfold hczCircuit
  rw [hcz_step1, hcz_step2, hcz_step3, hcz_step4, hcz_step5, hcz_step6, hcz_step7, hcz_step8,
    hcz_step9 r h c2 s2 hh]

/-! ### the logical amplitudes -/

/-- control pair on modes 0,1, data pair on modes 2,3, heralds `4:1`, `5:1` -/
def hczLayout : Layout := ⟨6, [0, 2], [(4, 1), (5, 1)]⟩

theorem enc_hcz (a b : Bool) :
    encode hczLayout [a, b] = [cond a 0 1, cond a 1 0, cond b 0 1, cond b 1 0, 1, 1] := by
  cases a <;> cases b <;> rfl

/-- the amplitude between two concrete 6-mode states as the Laplace expansion -/
theorem hcz_pamp (U : Matrix (Fin 6) (Fin 6) R) (s t : List ℕ) (h : s.sum = t.sum) :
    pamp U s t = permRec (entry U) (expand t) (expand s) := PM.C02.pamp_eq_permRec U s t h

/-- **modes 0 and 2 are spectators** -/
theorem hcz_localOn (r h c2 s2 : R) : LocalOn [1, 3, 4, 5] (hczMatrix r h c2 s2) := by
  intro i j hij
  revert hij
  fin_cases i <;> fin_cases j <;> simp [hczMatrix]

/-- the spectator structure makes every off-diagonal logical amplitude vanish -/
theorem hcz_amp_off (r h c2 s2 : R) (a b c d : Bool) (hne : ¬ (a = c ∧ b = d)) :
    pamp (hczMatrix r h c2 s2) (encode hczLayout [c, d]) (encode hczLayout [a, b]) = 0 := by
  by_contra h0
  have h1 := pamp_local_eq (hcz_localOn r h c2 s2) _ _ (encode_length hczLayout [c, d])
    (encode_length hczLayout [a, b]) h0 0 (by decide)
  have h2 := pamp_local_eq (hcz_localOn r h c2 s2) _ _ (encode_length hczLayout [c, d])
    (encode_length hczLayout [a, b]) h0 2 (by decide)
  rw [enc_hcz, enc_hcz] at h1 h2
  apply hne
  revert h1 h2
  cases a <;> cases b <;> cases c <;> cases d <;> simp

/-! the four diagonal amplitudes and the four candidate leak amplitudes, by Laplace expansion; the
cofactors of `linear_combination` were computed by multivariate division (sympy) -/

theorem hcz_amp00 (r h c2 s2 : R) (hr : 3 * r * r = 1) (hh : 2 * h * h = 1)
    (hc : 6 * c2 * c2 = 3 + 6 * h * r) (hs : 6 * s2 * s2 = 3 - 6 * h * r) :
    pamp (hczMatrix r h c2 s2) [1, 0, 1, 0, 1, 1] [1, 0, 1, 0, 1, 1] = 2 * h * r * (r * r) := by
  rw [hcz_pamp _ _ _ (by decide)]
  simp [permRec, List.range_succ, List.eraseIdx, expand, expandFrom, entry, hczMatrix]
  linear_combination (-2*c2^2*h^2*r^2 + 4*h^3*r^3 + 2*h^2*r^2*s2^2) * hr +
    (-c2^2*r^2 + 2*h*r^3 + r^2*s2^2) * hh +
    (h^2*r^4) * hc +
    (-h^2*r^4) * hs

theorem hcz_amp01 (r h c2 s2 : R) (hr : 3 * r * r = 1) (hh : 2 * h * h = 1)
    (hc : 6 * c2 * c2 = 3 + 6 * h * r) (hs : 6 * s2 * s2 = 3 - 6 * h * r) (hcs : 2 * c2 * s2 = r) :
    pamp (hczMatrix r h c2 s2) [1, 0, 0, 1, 1, 1] [1, 0, 0, 1, 1, 1] = 2 * h * r * (r * r) := by
  rw [hcz_pamp _ _ _ (by decide)]
  simp [permRec, List.range_succ, List.eraseIdx, expand, expandFrom, entry, hczMatrix]
  linear_combination (-8*c2^2*h^4*r^4 + 2*c2^2*h^2*r^4 - 16*c2*h^3*r^4*s2 + 8*h^4*r^4*s2^2 + 12*h^3*r^5 + 4*h^3*r^3 - 2*h^2*r^4*s2^2) * hr +
    (12*c2^2*h^2*r^6 - 4*c2^2*h^2*r^4 + c2^2*r^4 - 8*c2*h*r^4*s2 - 12*h^2*r^6*s2^2 + 4*h^2*r^4*s2^2 + 2*h*r^3 - r^4*s2^2) * hh +
    (h^2*r^6) * hc +
    (-h^2*r^6) * hs +
    (24*h^3*r^6) * hcs

theorem hcz_amp10 (r h c2 s2 : R) (hr : 3 * r * r = 1) (hh : 2 * h * h = 1)
    (hc : 6 * c2 * c2 = 3 + 6 * h * r) (hs : 6 * s2 * s2 = 3 - 6 * h * r) (hcs : 2 * c2 * s2 = r) :
    pamp (hczMatrix r h c2 s2) [0, 1, 1, 0, 1, 1] [0, 1, 1, 0, 1, 1] = 2 * h * r * (r * r) := by
  rw [hcz_pamp _ _ _ (by decide)]
  simp [permRec, List.range_succ, List.eraseIdx, expand, expandFrom, entry, hczMatrix]
  linear_combination (-8*c2^2*h^4*r^4 + 2*c2^2*h^2*r^4 - 16*c2*h^3*r^4*s2 + 8*h^4*r^4*s2^2 + 12*h^3*r^5 + 4*h^3*r^3 - 2*h^2*r^4*s2^2) * hr +
    (12*c2^2*h^2*r^6 - 4*c2^2*h^2*r^4 + c2^2*r^4 - 8*c2*h*r^4*s2 - 12*h^2*r^6*s2^2 + 4*h^2*r^4*s2^2 + 2*h*r^3 - r^4*s2^2) * hh +
    (h^2*r^6) * hc +
    (-h^2*r^6) * hs +
    (24*h^3*r^6) * hcs

theorem hcz_amp11 (r h c2 s2 : R) (hr : 3 * r * r = 1) (hh : 2 * h * h = 1)
    (hc : 6 * c2 * c2 = 3 + 6 * h * r) (hs : 6 * s2 * s2 = 3 - 6 * h * r) (hcs : 2 * c2 * s2 = r) :
    pamp (hczMatrix r h c2 s2) [0, 1, 0, 1, 1, 1] [0, 1, 0, 1, 1, 1] = -(2 * h * r * (r * r)) := by
  rw [hcz_pamp _ _ _ (by decide)]
  simp [permRec, List.range_succ, List.eraseIdx, expand, expandFrom, entry, hczMatrix]
  linear_combination (-32*c2^2*h^6*r^6 + 24*c2^2*h^4*r^6 - 2*c2^2*h^2*r^6 + 64*c2*h^5*r^6*s2 + 32*c2*h^3*r^6*s2 + 32*h^6*r^6*s2^2 - 24*h^4*r^6*s2^2 - 36*h^3*r^7 - 12*h^3*r^5 - 4*h^3*r^3 + 2*h^2*r^6*s2^2) * hr +
    (48*c2^2*h^4*r^8 - 16*c2^2*h^4*r^6 - 12*c2^2*h^2*r^8 + 12*c2^2*h^2*r^6 - c2^2*r^6 - 96*c2*h^3*r^8*s2 + 32*c2*h^3*r^6*s2 + 16*c2*h*r^6*s2 - 48*h^4*r^8*s2^2 + 16*h^4*r^6*s2^2 + 12*h^2*r^8*s2^2 - 12*h^2*r^6*s2^2 - 2*h*r^3 + r^6*s2^2) * hh +
    (-h^2*r^8) * hc +
    (h^2*r^8) * hs +
    (-96*h^3*r^8) * hcs

theorem hcz_leak1 (r h c2 s2 : R) (hr : 3 * r * r = 1) (hh : 2 * h * h = 1)
    (hc : 6 * c2 * c2 = 3 + 6 * h * r) (hs : 6 * s2 * s2 = 3 - 6 * h * r) (hcs : 2 * c2 * s2 = r) :
    pamp (hczMatrix r h c2 s2) [0, 1, 0, 1, 1, 1] [0, 2, 0, 0, 1, 1] = 0 := by
  rw [hcz_pamp _ _ _ (by decide)]
  simp [permRec, List.range_succ, List.eraseIdx, expand, expandFrom, entry, hczMatrix]
  linear_combination (-16*c2^2*h^3*r^6 + 4*c2^2*h*r^6 + 16*c2*h^2*r^6*s2 + 16*h^3*r^6*s2^2 - 4*h*r^6*s2^2) * hr +
    (24*c2^2*h*r^8 - 24*c2*r^8*s2 - 24*h*r^8*s2^2 + 12*r^9) * hh +
    (2*h*r^8) * hc +
    (-2*h*r^8) * hs +
    (-12*r^8) * hcs

theorem hcz_leak2 (r h c2 s2 : R) (hr : 3 * r * r = 1) (hh : 2 * h * h = 1)
    (hc : 6 * c2 * c2 = 3 + 6 * h * r) (hs : 6 * s2 * s2 = 3 - 6 * h * r) (hcs : 2 * c2 * s2 = r) :
    pamp (hczMatrix r h c2 s2) [0, 1, 0, 1, 1, 1] [0, 0, 0, 2, 1, 1] = 0 := by
  rw [hcz_pamp _ _ _ (by decide)]
  simp [permRec, List.range_succ, List.eraseIdx, expand, expandFrom, entry, hczMatrix]
  linear_combination (16*c2^2*h^3*r^6 - 4*c2^2*h*r^6 - 16*c2*h^2*r^6*s2 - 16*h^3*r^6*s2^2 + 4*h*r^6*s2^2) * hr +
    (-24*c2^2*h*r^8 + 24*c2*r^8*s2 + 24*h*r^8*s2^2 - 12*r^9) * hh +
    (-2*h*r^8) * hc +
    (2*h*r^8) * hs +
    (12*r^8) * hcs

theorem hcz_leak3 (r h c2 s2 : R) (hr : 3 * r * r = 1) (hh : 2 * h * h = 1)
    (hc : 6 * c2 * c2 = 3 + 6 * h * r) (hs : 6 * s2 * s2 = 3 - 6 * h * r) (hcs : 2 * c2 * s2 = r) :
    pamp (hczMatrix r h c2 s2) [0, 1, 1, 0, 1, 1] [0, 0, 1, 1, 1, 1] = 0 := by
  rw [hcz_pamp _ _ _ (by decide)]
  simp [permRec, List.range_succ, List.eraseIdx, expand, expandFrom, entry, hczMatrix]
  linear_combination (2*c2^2*h*r^4 - 8*c2*h^2*r^4*s2 - 2*h*r^4*s2^2) * hr +
    (12*c2*r^6*s2 - 6*r^7) * hh +
    (-h*r^6) * hc +
    (h*r^6) * hs +
    (6*r^6) * hcs

theorem hcz_leak4 (r h c2 s2 : R) (hr : 3 * r * r = 1) (hh : 2 * h * h = 1)
    (hc : 6 * c2 * c2 = 3 + 6 * h * r) (hs : 6 * s2 * s2 = 3 - 6 * h * r) (hcs : 2 * c2 * s2 = r) :
    pamp (hczMatrix r h c2 s2) [1, 0, 0, 1, 1, 1] [1, 1, 0, 0, 1, 1] = 0 := by
  rw [hcz_pamp _ _ _ (by decide)]
  simp [permRec, List.range_succ, List.eraseIdx, expand, expandFrom, entry, hczMatrix]
  linear_combination (-2*c2^2*h*r^4 + 8*c2*h^2*r^4*s2 + 2*h*r^4*s2^2) * hr +
    (-12*c2*r^6*s2 + 6*r^7) * hh +
    (h*r^6) * hc +
    (-h*r^6) * hs +
    (-6*r^6) * hcs

/-- **heralded CZ, every logical amplitude**: `⟨ab|U|cd⟩ = (2hr·r²) · CZ[ab, cd]`, i.e. `√(2/3)/3 · CZ` -/
theorem hcz_amp (r h c2 s2 : R) (hr : 3 * r * r = 1) (hh : 2 * h * h = 1)
    (hc : 6 * c2 * c2 = 3 + 6 * h * r) (hs : 6 * s2 * s2 = 3 - 6 * h * r) (hcs : 2 * c2 * s2 = r)
    (a b c d : Bool) :
    gateAmp (hczMatrix r h c2 s2) hczLayout PS.tt [a, b] [c, d] = (2 * h * r * (r * r)) * czEntry a b c d := by
  unfold gateAmp
  rw [if_pos (by rfl)]
  by_cases hd : a = c ∧ b = d
  · obtain ⟨rfl, rfl⟩ := hd
    rw [enc_hcz]
    cases a <;> cases b
    · simpa [czEntry] using hcz_amp00 r h c2 s2 hr hh hc hs
    · simpa [czEntry] using hcz_amp01 r h c2 s2 hr hh hc hs hcs
    · simpa [czEntry] using hcz_amp10 r h c2 s2 hr hh hc hs hcs
    · simpa [czEntry] using hcz_amp11 r h c2 s2 hr hh hc hs hcs
  · rw [hcz_amp_off r h c2 s2 a b c d hd, czEntry, if_neg hd, mul_zero]

/-- the scalar `c = 2hr·r² = √(2/3)/3` has `c² = 2/27`: **success probability `2/27`** -/
theorem hcz_scalar_sq (r h : R) (hr : 3 * r * r = 1) (hh : 2 * h * h = 1) :
    27 * ((2 * h * r * (r * r)) * (2 * h * r * (r * r))) = 2 := by
  linear_combination (36*h^2*r^4 + 12*h^2*r^2 + 4*h^2) * hr + 2 * hh

/-- **the logical table of the heralded CZ matrix is exactly `(2hr·r²) • CZ`** (no post-selection) -/
theorem hcz_table (r h c2 s2 : R) (hr : 3 * r * r = 1) (hh : 2 * h * h = 1)
    (hc : 6 * c2 * c2 = 3 + 6 * h * r) (hs : 6 * s2 * s2 = 3 - 6 * h * r) (hcs : 2 * c2 * s2 = r) :
    (gateTable (hczMatrix r h c2 s2) hczLayout PS.tt : Matrix (Fin 4) (Fin 4) R) =
      (2 * h * r * (r * r)) • czGate := by
  have key : ∀ i j : Fin 4, (gateTable (hczMatrix r h c2 s2) hczLayout PS.tt : Matrix (Fin 4) (Fin 4) R) i j =
      ((2 * h * r * (r * r)) • czGate) i j := by
    intro i j
    fin_cases i <;> fin_cases j <;>
      (refine (hcz_amp r h c2 s2 hr hh hc hs hcs _ _ _ _).trans ?_
       simp [czEntry, czGate])
  exact Matrix.ext key

/-- **the gate is heralded**: with both heralds satisfied, a logical input reaches no non-logical output.
Photon number and the spectator modes 0, 2 leave four candidate leak states; their amplitudes are zero. -/
theorem hcz_noLeak (r h c2 s2 : R) (hr : 3 * r * r = 1) (hh : 2 * h * h = 1)
    (hc : 6 * c2 * c2 = 3 + 6 * h * r) (hs : 6 * s2 * s2 = 3 - 6 * h * r) (hcs : 2 * c2 * s2 = r) :
    NoLeak hczLayout (hczMatrix r h c2 s2) := by
  intro bi hbi u hul hher hlog
  by_contra hne
  have hsum : (encode hczLayout bi).sum = u.sum := by
    by_contra hs'
    exact hne (PM.C02.pamp_zero_of_sum_ne _ _ _ hs')
  have h0 := pamp_local_eq (hcz_localOn r h c2 s2) _ _ (encode_length hczLayout bi) hul hne 0 (by decide)
  have h2 := pamp_local_eq (hcz_localOn r h c2 s2) _ _ (encode_length hczLayout bi) hul hne 2 (by decide)
  rcases bi with _ | ⟨a, _ | ⟨b, _ | ⟨c, l⟩⟩⟩ <;> try (simp [hczLayout] at hbi)
  rcases u with _ | ⟨u0, _ | ⟨u1, _ | ⟨u2, _ | ⟨u3, _ | ⟨u4, _ | ⟨u5, _ | ⟨u6, l⟩⟩⟩⟩⟩⟩⟩ <;>
    try (simp [hczLayout] at hul)
  rw [enc_hcz] at hsum h0 h2 hne
  simp [heraldsOk, hczLayout] at hher
  simp [isLogical, pairCounts, hczLayout] at hlog
  obtain ⟨h4, h5⟩ := hher
  subst h4 h5
  simp at h0 h2
  subst h0 h2
  cases a <;> cases b <;> simp at hsum hlog hne
  · omega
  · have h13 : u1 = 1 ∧ u3 = 0 := by omega
    obtain ⟨rfl, rfl⟩ := h13
    exact hne (hcz_leak4 r h c2 s2 hr hh hc hs hcs)
  · have h13 : u1 = 0 ∧ u3 = 1 := by omega
    obtain ⟨rfl, rfl⟩ := h13
    exact hne (hcz_leak3 r h c2 s2 hr hh hc hs hcs)
  · have h13 : (u1 = 2 ∧ u3 = 0) ∨ (u1 = 0 ∧ u3 = 2) := by omega
    rcases h13 with ⟨rfl, rfl⟩ | ⟨rfl, rfl⟩
    · exact hne (hcz_leak1 r h c2 s2 hr hh hc hs hcs)
    · exact hne (hcz_leak2 r h c2 s2 hr hh hc hs hcs)

/-- the heralded CZ as a gate implementation: support `[1,3,4,5]`, scalar `2hr·r²` -/
def hczImpl (r h c2 s2 : R) : GateImpl hczLayout R :=
  ⟨[1, 3, 4, 5], hczMatrix r h c2 s2, (czGate : Matrix (Fin 4) (Fin 4) R), 2 * h * r * (r * r)⟩

/-- the package `heralded_circuit_implements` (C20Comp.lean) asks of every gate: local, heralded, table `c • CZ` -/
theorem hcz_gateImpl_ok (r h c2 s2 : R) (hr : 3 * r * r = 1) (hh : 2 * h * h = 1)
    (hc : 6 * c2 * c2 = 3 + 6 * h * r) (hs : 6 * s2 * s2 = 3 - 6 * h * r) (hcs : 2 * c2 * s2 = r) :
    (hczImpl r h c2 s2).Ok PS.tt :=
  ⟨hcz_localOn r h c2 s2, hcz_noLeak r h c2 s2 hr hh hc hs hcs, hcz_table r h c2 s2 hr hh hc hs hcs⟩

theorem hczLayout_ok : hczLayout.ok = true := by decide

/-! ### the statements for the circuit as built -/

/-- the circuit `build_circuit` returns has the logical table `(2hr·r²) • CZ` … -/
theorem hczCircuit_table (r h c2 s2 : R) (hr : 3 * r * r = 1) (hh : 2 * h * h = 1)
    (hc : 6 * c2 * c2 = 3 + 6 * h * r) (hs : 6 * s2 * s2 = 3 - 6 * h * r) (hcs : 2 * c2 * s2 = r) :
    (gateTable (hczCircuit r h c2 s2) hczLayout PS.tt : Matrix (Fin 4) (Fin 4) R) =
      (2 * h * r * (r * r)) • czGate := by
  rw [hczCircuit_eq r h c2 s2 hh]
  exact hcz_table r h c2 s2 hr hh hc hs hcs

/-- … and does not leak -/
theorem hczCircuit_noLeak (r h c2 s2 : R) (hr : 3 * r * r = 1) (hh : 2 * h * h = 1)
    (hc : 6 * c2 * c2 = 3 + 6 * h * r) (hs : 6 * s2 * s2 = 3 - 6 * h * r) (hcs : 2 * c2 * s2 = r) :
    NoLeak hczLayout (hczCircuit r h c2 s2) := by
  rw [hczCircuit_eq r h c2 s2 hh]
  exact hcz_noLeak r h c2 s2 hr hh hc hs hcs

/-! ### non-vacuity: the numbers of the code satisfy the five relations -/

/-- over `ℝ`: `r = 1/√3`, `h = 1/√2`, `c2 = √((3+√6)/6)`, `s2 = √((3−√6)/6)` (`6·h·r = √2·√3 = √6`) -/
theorem hcz_params_exist : ∃ r h c2 s2 : ℝ, 3 * r * r = 1 ∧ 2 * h * h = 1 ∧ 6 * c2 * c2 = 3 + 6 * h * r ∧
    6 * s2 * s2 = 3 - 6 * h * r ∧ 2 * c2 * s2 = r := by
  have haa : √2 * √2 = (2 : ℝ) := Real.mul_self_sqrt (by norm_num)
  have hbb : √3 * √3 = (3 : ℝ) := Real.mul_self_sqrt (by norm_num)
  have ha0 : (0 : ℝ) < √2 := Real.sqrt_pos.2 (by norm_num)
  have hb0 : (0 : ℝ) < √3 := Real.sqrt_pos.2 (by norm_num)
  have ha' : (√2 : ℝ)⁻¹ = √2 / 2 := inv_eq_of_mul_eq_one_right (by linear_combination haa / 2)
  have hb' : (√3 : ℝ)⁻¹ = √3 / 3 := inv_eq_of_mul_eq_one_right (by linear_combination hbb / 3)
  have hab : √2 * √3 ≤ (3 : ℝ) := by nlinarith [mul_pos ha0 hb0]
  have hA0 : (0 : ℝ) ≤ (3 + √2 * √3) / 6 := by positivity
  have hB0 : (0 : ℝ) ≤ (3 - √2 * √3) / 6 := div_nonneg (by linarith) (by norm_num)
  have hA := Real.mul_self_sqrt hA0
  have hB := Real.mul_self_sqrt hB0
  have hAB : √((3 + √2 * √3) / 6) * √((3 - √2 * √3) / 6) = √3 / 6 := by
    rw [← Real.sqrt_mul hA0, Real.sqrt_eq_iff_mul_self_eq (mul_nonneg hA0 hB0) (by positivity)]
    linear_combination (-(√3 * √3) / 36) * haa - (1 / 12) * hbb
  have h6 : (√6 : ℝ) = √2 * √3 := by rw [← Real.sqrt_mul (by norm_num)]; norm_num
  refine ⟨(√3)⁻¹, (√2)⁻¹, √((3 + √6) / 6), √((3 - √6) / 6), ?_, ?_, ?_, ?_, ?_⟩
  · rw [hb']; linear_combination hbb / 3
  · rw [ha']; linear_combination haa / 2
  · rw [h6, ha', hb']; linear_combination 6 * hA
  · rw [h6, ha', hb']; linear_combination 6 * hB
  · rw [h6, hb']; linear_combination 2 * hAB

end PM.C20
