/-
  C20 — the heralded CZ (Knill, quant-ph/0110144) exactly as the catalog builds it
  (`perceval/components/core_catalog/heralded_cz.py`): 6 modes, control pair on modes 0,1, data pair on modes
  2,3, heralds `4:1`, `5:1`, NO post-selection.

  The entries are ring elements of any commutative ring: `r` with `3·r·r = 1` (`cos(θ₁/2) = √(1/3)`), `h` with
  `2·h·h = 1` (`1/√2`), `sin(θ₁/2) = √(2/3) = 2·h·r`, and `c2 = cos(θ₂/2) = √((3+√6)/6)`,
  `s2 = sin(θ₂/2) = √((3−√6)/6)` with `6·c2² = 3 + 6hr`, `6·s2² = 3 − 6hr`, `2·c2·s2 = r` (`√6 = 6hr`).
  `hcz_params_exist`: the five relations hold for the real numbers the code uses.

  * `hczCircuit`: the component product of `build_circuit` (each `add` multiplies on the left, `Barrier`s are
    identities, `merge=True` only flattens); `hczCircuit_eq`: it is the explicit matrix `hczMatrix`
    (where `4h²r²` is written `2r²`, using `2h² = 1`).
  * `hcz_amp`, `hcz_table`: every logical amplitude is `(2hr·r²) · CZ`, and `27·(2hr·r²)² = 2`: success
    probability `2/27`.
  * `hcz_localOn`: modes 0 and 2 are spectators.  `hcz_noLeak`: the gate is HERALDED — given the heralds, no
    logical input reaches a non-logical output (all four candidate leak amplitudes are exactly zero).
  * `hcz_gateImpl_ok`: the `GateImpl.Ok` package used by `heralded_circuit_implements` (C20Comp.lean).
-/
import PercevalModel.Lemmas.C20Gates
import PercevalModel.Lemmas.C20Comp
import Mathlib.Tactic.IntervalCases
import Mathlib.Analysis.SpecialFunctions.Pow.NNRpow

open Matrix

namespace PM.C20
open PM.Fock PM.SimSpec

variable {R : Type*} [CommRing R]

/-- `PS(π)`: the 1×1 matrix `e^{iπ} = -1` -/
def psPi : Matrix (Fin 1) (Fin 1) R := !![-1]

/-- `HeraldedCzItem.build_circuit`: `PERM([1,0])` at 1; the inner circuit at 2 (`PERM([1,0])` at 3, `PS(π)` on 2
and on 5, `BS.H(θ₁)` on (2,3) and (4,5), `PERM([1,0])` at 3, `BS.H(−θ₁)` on (2,3), `BS.H(θ₂)` on (4,5));
`PERM([1,0])` at 1 -/
def hczCircuit (r h c2 s2 : R) : Matrix (Fin 6) (Fin 6) R :=
  embed 6 1 (permMatL 2 [1, 0]) *
    (embed 6 4 (bsH c2 s2) *
      (embed 6 2 (bsH r (-(2 * h * r))) *
        (embed 6 3 (permMatL 2 [1, 0]) *
          (embed 6 4 (bsH r (2 * h * r)) *
            (embed 6 2 (bsH r (2 * h * r)) *
              (embed 6 5 psPi *
                (embed 6 2 psPi *
                  (embed 6 3 (permMatL 2 [1, 0]) * embed 6 1 (permMatL 2 [1, 0])))))))))

/-- the heralded CZ matrix (`4h²r²` written as `2r²`) -/
def hczMatrix (r h c2 s2 : R) : Matrix (Fin 6) (Fin 6) R :=
  !![1, 0, 0, 0, 0, 0;
     0, -(r*r), 0, -(2*h*(r*r)), 2*h*(r*r), 2*(r*r);
     0, 0, 1, 0, 0, 0;
     0, 2*h*(r*r), 0, -(r*r), -(2*(r*r)), 2*h*(r*r);
     0, -(2*c2*h*r), 0, 2*h*r*s2, -(c2*r), r*s2;
     0, -(2*h*r*s2), 0, -(2*c2*h*r), -(r*s2), -(c2*r)]

/-! ### the logical amplitudes -/

/-- control pair on modes 0,1, data pair on modes 2,3, heralds `4:1`, `5:1` -/
def hczLayout : Layout := ⟨6, [0, 2], [(4, 1), (5, 1)]⟩

theorem enc_hcz (a b : Bool) :
    encode hczLayout [a, b] = [cond a 0 1, cond a 1 0, cond b 0 1, cond b 1 0, 1, 1] := by
  cases a <;> cases b <;> rfl

/-- the amplitude between two concrete 6-mode states as the Laplace expansion -/
theorem hcz_pamp (U : Matrix (Fin 6) (Fin 6) R) (s t : List ℕ) (h : s.sum = t.sum) :
    pamp U s t = permRec (entry U) (expand t) (expand s) := PM.C02.pamp_eq_permRec U s t h

end PM.C20
