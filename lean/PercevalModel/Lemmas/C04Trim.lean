/-
  C04 — lemmas for the trimming model (`Model/C04Trim.lean`).

  Key fact: trimming only ever *drops* entries.  The list accumulated at a non-zero precision is a `List.Sublist`
  of the list accumulated without thresholds (same entries, same values, same order, some missing).  For
  non-negative lists this gives, for every predicate, `0 ≤ mass(f-part of full) − mass(f-part of trimmed) ≤ trimmed mass`,
  from which the bounds on the logical performance and on every reported probability follow.
-/
import PercevalModel.Model.C04Trim
import PercevalModel.Lemmas.C04
import PercevalModel.Lemmas.C04Evolve

namespace PM.C04
open PM.Fock PM.Dist PM.SimSpec

/-! ### sublists -/

theorem sublist_flatMap {α β : Type} {l' l : List α} {f' f : α → List β} (h : l'.Sublist l)
    (hf : ∀ a, (f' a).Sublist (f a)) : (l'.flatMap f').Sublist (l.flatMap f) := by
  induction h with
  | slnil => simp
  | cons a _ ih =>
    simp only [List.flatMap_cons]
    exact ih.trans (List.sublist_append_right _ _)
  | cons_cons a _ ih =>
    simp only [List.flatMap_cons]
    exact (hf a).append ih

theorem conv_append_left (a b d : D) : conv (a ++ b) d = conv a d ++ conv b d := by
  simp [conv, List.flatMap_append]

theorem convAll_append : ∀ (ds : List D) (a b : D), convAll (a ++ b) ds = convAll a ds ++ convAll b ds
  | [], _, _ => rfl
  | d :: ds, a, b => by
    rw [convAll_cons, convAll_cons, convAll_cons, conv_append_left, convAll_append ds]

theorem convAll_nil_acc : ∀ ds : List D, convAll [] ds = []
  | [] => rfl
  | d :: ds => by
    rw [convAll_cons]
    exact convAll_nil_acc ds

theorem convAll_flatMap {α : Type} (ds : List D) (g : α → D) : ∀ l : List α,
    convAll (l.flatMap g) ds = l.flatMap fun e => convAll (g e) ds
  | [] => by simp [convAll_nil_acc]
  | a :: r => by
    simp only [List.flatMap_cons]
    rw [convAll_append, convAll_flatMap ds g r]

theorem map_eq_flatMap_singleton {α β : Type} (g : α → β) : ∀ l : List α, l.map g = l.flatMap fun q => [g q]
  | [] => rfl
  | a :: r => by simp [map_eq_flatMap_singleton g r]

/-- `_inner_tensor_product` at any threshold, on factors that lost entries, produces a sublist of the full product -/
theorem innerTP_sublist (θ : ℚ) : ∀ (ds' ds : List D), List.Forall₂ List.Sublist ds' ds → ∀ (cur : Fock) (p : ℚ),
    (PM.C03.innerTP θ ds' cur p).Sublist (convAll [(cur, p)] ds) := by
  intro ds' ds h
  induction h with
  | nil => intro cur p; exact List.Sublist.refl _
  | @cons d' d r' r hd _ ih =>
    intro cur p
    have e : convAll [(cur, p)] (d :: r) = d.flatMap fun q => convAll [(fadd cur q.1, p * q.2)] r := by
      rw [convAll_cons]
      have : conv [(cur, p)] d = d.flatMap fun q => [(fadd cur q.1, p * q.2)] := by
        simp only [conv, List.flatMap_cons, List.flatMap_nil, List.append_nil]
        exact map_eq_flatMap_singleton _ d
      rw [this, convAll_flatMap]
    rw [e]
    simp only [PM.C03.innerTP]
    apply sublist_flatMap hd
    intro q
    split
    · exact List.nil_sublist _
    · rw [fadd_comm q.1 cur]
      exact ih _ _

theorem forall₂_sublist_map (f : D → D) (hf : ∀ d, (f d).Sublist d) : ∀ ds : List D,
    List.Forall₂ List.Sublist (ds.map f) ds
  | [] => .nil
  | d :: r => .cons (hf d) (forall₂_sublist_map f hf r)

/-- `list_tensor_product(merge_modes=True, prob_threshold=θ)` returns a sublist of the untrimmed product -/
theorem listTensor_sublist (m : ℕ) (θ : ℚ) (ds : List D) (hlen : ∀ d ∈ ds, ∀ q ∈ d, q.1.length = m) :
    (PM.C03.listTensor m θ ds).Sublist (convAll [(zeros m, 1)] ds) := by
  match ds, hlen with
  | [], _ => exact List.nil_sublist _
  | [d], hlen =>
    simp only [PM.C03.listTensor, convAll_cons, convAll_nil]
    rw [conv_zeros_left m d (hlen d List.mem_cons_self)]
  | d₁ :: d₂ :: rest, _ =>
    simp only [PM.C03.listTensor]
    split
    · exact List.nil_sublist _
    · exact innerTP_sublist _ _ _ (forall₂_sublist_map _ (fun d => List.filter_sublist) _) _ _

theorem scale_sublist {a b : D} (w : ℚ) (h : a.Sublist b) : (scale w a).Sublist (scale w b) := h.map _

theorem mix_cons' (p : ℚ × D) (r : List (ℚ × D)) : mix (p :: r) = scale p.1 p.2 ++ mix r := by
  obtain ⟨w, d⟩ := p; rfl

theorem mix_sublist {l' l : List Member} (f' f : Member → ℚ × D) (h : l'.Sublist l)
    (hf : ∀ mb, (f' mb).1 = (f mb).1 ∧ (f' mb).2.Sublist (f mb).2) :
    (mix (l'.map f')).Sublist (mix (l.map f)) := by
  induction h with
  | slnil => exact List.Sublist.refl _
  | cons a _ ih =>
    simp only [List.map_cons, mix_cons']
    exact ih.trans (List.sublist_append_right _ _)
  | cons_cons a _ ih =>
    simp only [List.map_cons, mix_cons']
    rw [(hf a).1]
    exact (scale_sublist _ (hf a).2).append ih

theorem NN.of_sublist {a b : D} (h : a.Sublist b) (hn : NN b) : NN a := fun p hp => hn p (h.subset hp)

theorem restrict_sublist {a b : D} (f : Fock → Bool) (h : a.Sublist b) : (restrict f a).Sublist (restrict f b) :=
  h.filter _

theorem mapKeys_sublist {a b : D} (g : Fock → Fock) (h : a.Sublist b) : (mapKeys g a).Sublist (mapKeys g b) :=
  h.map _

/-- what a predicate selects in a non-negative list and in a sublist of it differ by at most the missing mass -/
theorem sublist_mass_restrict {a b : D} (h : a.Sublist b) (hn : NN b) (f : Fock → Bool) :
    0 ≤ mass (restrict f b) - mass (restrict f a) ∧
    mass (restrict f b) - mass (restrict f a) ≤ mass b - mass a := by
  induction h with
  | slnil => simp [restrict]
  | @cons a₂ b₂ x _ ih =>
    have hx := hn x List.mem_cons_self
    obtain ⟨h1, h2⟩ := ih (fun p hp => hn p (List.mem_cons_of_mem _ hp))
    by_cases hfx : f x.1 = true
    · have : restrict f (x :: b₂) = x :: restrict f b₂ := by simp [restrict, hfx]
      rw [this, mass_cons, mass_cons]
      constructor <;> linarith
    · have : restrict f (x :: b₂) = restrict f b₂ := by simp [restrict, hfx]
      rw [this, mass_cons]
      constructor <;> linarith
  | @cons_cons a₂ b₂ x _ ih =>
    obtain ⟨h1, h2⟩ := ih (fun p hp => hn p (List.mem_cons_of_mem _ hp))
    by_cases hfx : f x.1 = true
    · have e1 : restrict f (x :: b₂) = x :: restrict f b₂ := by simp [restrict, hfx]
      have e2 : restrict f (x :: a₂) = x :: restrict f a₂ := by simp [restrict, hfx]
      rw [e1, e2, mass_cons, mass_cons, mass_cons, mass_cons]
      constructor <;> linarith
    · have e1 : restrict f (x :: b₂) = restrict f b₂ := by simp [restrict, hfx]
      have e2 : restrict f (x :: a₂) = restrict f a₂ := by simp [restrict, hfx]
      rw [e1, e2, mass_cons, mass_cons]
      constructor <;> linarith

theorem sublist_mass_le {a b : D} (h : a.Sublist b) (hn : NN b) : mass a ≤ mass b := by
  have := (sublist_mass_restrict h hn (fun _ => true)).1
  rw [restrict_of_all (fun _ _ => rfl), restrict_of_all (fun _ _ => rfl)] at this
  linarith

theorem get_eq_mass_restrict (d : D) (t : Fock) : get d t = mass (restrict (fun k => k == t) d) := rfl

theorem sublist_get {a b : D} (h : a.Sublist b) (hn : NN b) (t : Fock) :
    0 ≤ get b t - get a t ∧ get b t - get a t ≤ mass b - mass a := by
  rw [get_eq_mass_restrict, get_eq_mass_restrict]
  exact sublist_mass_restrict h hn _

theorem get_nonneg' {d : D} (hn : NN d) (t : Fock) : 0 ≤ get d t := by
  rw [get_eq_mass_restrict]
  exact (hn.restrict _).mass_nonneg

theorem get_le_mass' {d : D} (hn : NN d) (t : Fock) : get d t ≤ mass d := by
  rw [get_eq_mass_restrict]
  exact mass_restrict_le hn _

/-- **normalising a sublist**: every probability of the normalised trimmed list is within
`(missing mass) / (full mass)` of the probability in the normalised full list -/
theorem normalized_get_bound {A Aθ : D} (h : Aθ.Sublist A) (hn : NN A) (hθ : mass Aθ ≠ 0) (t : Fock) :
    |get (normalize Aθ) t - get (normalize A) t| ≤ (mass A - mass Aθ) / mass A := by
  have hnθ : NN Aθ := NN.of_sublist h hn
  have hRθ : 0 < mass Aθ := lt_of_le_of_ne hnθ.mass_nonneg (Ne.symm hθ)
  have hle : mass Aθ ≤ mass A := sublist_mass_le h hn
  have hR : 0 < mass A := lt_of_lt_of_le hRθ hle
  obtain ⟨he0, he1⟩ := sublist_get h hn t
  have hr0 : 0 ≤ get Aθ t := get_nonneg' hnθ t
  have hr1 : get Aθ t ≤ mass Aθ := get_le_mass' hnθ t
  simp only [Dist.normalize, hθ, ne_of_gt hR, ↓reduceIte, get_scale]
  set R := mass A
  set Rθ := mass Aθ
  set r := get A t
  set rθ := get Aθ t
  have key : Rθ⁻¹ * rθ - R⁻¹ * r = (rθ * (R - Rθ) - (r - rθ) * Rθ) / (R * Rθ) := by
    field_simp
    ring
  have hpos : 0 < R * Rθ := mul_pos hR hRθ
  have hrhs : (R - Rθ) / R = ((R - Rθ) * Rθ) / (R * Rθ) := by
    field_simp
  rw [key, hrhs, abs_le]
  constructor
  · rw [neg_le, ← neg_div, div_le_div_iff_of_pos_right hpos]
    nlinarith
  · rw [div_le_div_iff_of_pos_right hpos]
    nlinarith

/-! ### the tail of `probs_svd` on an arbitrary accumulated list -/

theorem probsSvd_eq_finish (eng : Fock → D) (c : Cfg) (members : List Member) :
    probsSvd eng c members = finishSvd c (physInputs c members) (codeRes eng c members) := rfl

theorem finishSvd_phys (c : Cfg) (phys : ℚ) (X : D) : (finishSvd c phys X).phys = phys := by
  by_cases h : mass X = 0 <;> simp [finishSvd, h]

theorem logicOk_of_no_cond {c : Cfg} (hnc : (!(hasCond c.ps || !c.heralds.isEmpty)) = true) (t : Fock) :
    logicOk (cond c) t = true := by
  have hnc' : hasCond c.ps = false ∧ c.heralds.isEmpty = true := by simpa using hnc
  have hps := hasCond_false hnc'.1
  have hh : c.heralds = [] := by simpa using hnc'.2
  simp [logicOk, cond, heraldsOk, hps, hh, PS.eval]

theorem reported_of_no_cond {c : Cfg} (hnc : (!(hasCond c.ps || !c.heralds.isEmpty)) = true) (t : Fock) :
    reported (cond c) t = t := by
  have hnc' : hasCond c.ps = false ∧ c.heralds.isEmpty = true := by simpa using hnc
  have hh : c.heralds = [] := by simpa using hnc'.2
  simp [reported, cond, hh, removeModes_nil]

/-- the logical performance `probs_svd` reports for an accumulated list `X`: the accepted mass over the physical
performance -/
theorem finishSvd_logical (c : Cfg) (phys : ℚ) (X : D) (hn : NN X) (hp : mass X ≠ 0 → 0 < phys) :
    (finishSvd c phys X).logical = mass (restrict (logicOk (cond c)) X) / phys := by
  have hR0 : 0 ≤ mass (restrict (logicOk (cond c)) X) := (hn.restrict _).mass_nonneg
  have hRle : mass (restrict (logicOk (cond c)) X) ≤ mass X := mass_restrict_le hn _
  unfold finishSvd
  by_cases hacc : mass X = 0
  · simp only [hacc, ↓reduceIte]
    have : mass (restrict (logicOk (cond c)) X) = 0 := by linarith
    rw [this, zero_div]
  · simp only [hacc, ↓reduceIte]
    have hpos : 0 < mass X := lt_of_le_of_ne hn.mass_nonneg (Ne.symm hacc)
    have hPpos := hp hacc
    have hPne : phys ≠ 0 := ne_of_gt hPpos
    simp only [hpos, hPpos, and_self, ↓reduceIte]
    unfold postSelect
    split
    · next hnc =>
      have : restrict (logicOk (cond c)) X = X := restrict_of_all (fun p _ => logicOk_of_no_cond hnc p.1)
      rw [this]
      simp
    · simp only
      have hnX : normalize X = scale (mass X)⁻¹ X := by simp [Dist.normalize, hacc]
      have h1 : mass (normalize X) = 1 := mass_normalize _ hacc
      have h2 := mass_restrict_add (logicOk (cond c)) (normalize X)
      have h3 : mass (restrict (logicOk (cond c)) (normalize X)) =
          (mass X)⁻¹ * mass (restrict (logicOk (cond c)) X) := by
        rw [hnX, restrict_scale, mass_scale]
      have h4 : 1 - mass (restrict (fun t => !logicOk (cond c) t) (normalize X)) =
          (mass X)⁻¹ * mass (restrict (logicOk (cond c)) X) := by
        linarith
      rw [h4]
      field_simp

/-- the distribution `probs_svd` reports for an accumulated list `X` -/
theorem finishSvd_results (c : Cfg) (phys : ℚ) (X : D) (hn : NN X)
    (hR : mass (restrict (logicOk (cond c)) X) ≠ 0) :
    (finishSvd c phys X).results = normalize (mapKeys (reported (cond c)) (restrict (logicOk (cond c)) X)) := by
  have hRle : mass (restrict (logicOk (cond c)) X) ≤ mass X := mass_restrict_le hn _
  have hR0 : 0 ≤ mass (restrict (logicOk (cond c)) X) := (hn.restrict _).mass_nonneg
  have hacc : mass X ≠ 0 := by
    intro h0
    apply hR
    linarith
  unfold finishSvd
  simp only [hacc, ↓reduceIte]
  have hnX : normalize X = scale (mass X)⁻¹ X := by simp [Dist.normalize, hacc]
  unfold postSelect
  split
  · next hnc =>
    have e1 : restrict (logicOk (cond c)) X = X := restrict_of_all (fun p _ => logicOk_of_no_cond hnc p.1)
    have e2 : mapKeys (reported (cond c)) X = X := by
      simp [mapKeys, reported_of_no_cond hnc]
    simp only
    rw [e1, e2, normalize_of_mass_one _ (mass_normalize _ hacc)]
  · simp only
    rw [hnX, restrict_scale, mapKeys_scale, normalize_scale]
    · exact inv_ne_zero hacc
    · rwa [mass_mapKeys]

/-! ### the trimmed accumulation is a sublist of the untrimmed one -/

theorem groupDist_length (eng : Fock → D) (c : Cfg) (nExt : ℕ) (s : Fock)
    (h : ∀ q ∈ eng s, q.1.length = c.m) : ∀ q ∈ groupDist eng c nExt s, q.1.length = c.m := by
  intro q hq
  rw [groupDist_fun] at hq
  exact h q (mem_restrict hq)

theorem memberDistθ_sublist (eng : Fock → D) (c : Cfg) (θ : ℚ) (mb : Member)
    (h : ∀ s ∈ mb.groups, ∀ q ∈ eng s, q.1.length = c.m) :
    (memberDistθ eng c θ mb).Sublist (memberDist eng c mb) := by
  apply listTensor_sublist
  intro d hd q hq
  obtain ⟨s, hs, rfl⟩ := List.mem_map.1 hd
  exact groupDist_length eng c mb.n s (h s hs) q hq

theorem codeResθ_sublist (eng : Fock → D) (P : Prec) (c : Cfg) (members : List Member)
    (h : ∀ mb ∈ members, ∀ s ∈ mb.groups, ∀ q ∈ eng s, q.1.length = c.m) :
    (codeResθ eng P c members).Sublist (codeRes eng c members) := by
  -- members outside `members` never occur; make the pointwise hypothesis total with a guard
  have key : ∀ (l' l : List Member), l'.Sublist l → (∀ mb ∈ l, ∀ s ∈ mb.groups, ∀ q ∈ eng s, q.1.length = c.m) →
      (mix (l'.map fun mb => (mb.w, memberDistθ eng c (pThreshold P c members) mb))).Sublist
        (mix (l.map fun mb => (mb.w, memberDist eng c mb))) := by
    intro l' l hs
    induction hs with
    | slnil => intro _; exact List.Sublist.refl _
    | cons a _ ih =>
      intro hl
      simp only [List.map_cons, mix_cons']
      exact (ih (fun mb hmb => hl mb (List.mem_cons_of_mem _ hmb))).trans (List.sublist_append_right _ _)
    | cons_cons a _ ih =>
      intro hl
      simp only [List.map_cons, mix_cons']
      exact (scale_sublist _ (memberDistθ_sublist eng c _ a (hl a List.mem_cons_self))).append
        (ih (fun mb hmb => hl mb (List.mem_cons_of_mem _ hmb)))
  exact key _ _ List.filter_sublist (fun mb hmb => h mb (mem_kept hmb))

/-- something was accumulated only if some member passed the photon filter with a positive weight -/
theorem physInputs_pos_of_mass (eng : Fock → D) (c : Cfg) (members : List Member) (hmix : MixOK members)
    (h : mass (codeRes eng c members) ≠ 0) : 0 < physInputs c members := by
  have hPK := physInputs_eq c members hmix.wsum
  have hP0 : 0 ≤ physInputs c members := by
    rw [hPK]
    apply List.sum_nonneg
    intro x hx
    obtain ⟨mb, hmb, rfl⟩ := List.mem_map.1 hx
    exact hmix.wpos mb (mem_kept hmb)
  refine lt_of_le_of_ne hP0 (Ne.symm ?_)
  intro h0
  apply h
  have := sum_mul_zero_of_sum_zero (fun mb : Member => mb.w) (fun mb => mass (memberDist eng c mb))
    (kept c members) (fun x hx => hmix.wpos x (mem_kept hx)) (by rw [← hPK]; exact h0)
  rw [codeRes, mass_mix, List.map_map]
  simpa [Function.comp_def] using this

/-! ### witnesses: `exCfg`, `exMembers`, the identity engine, precision 3/5 — `max_p = 1/2`, threshold 3/10: the
member of weight 1/4 that passes the photon filter is dropped -/

def exPrec : Prec := ⟨3 / 5, 0⟩

end PM.C04
