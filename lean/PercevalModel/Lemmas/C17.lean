/-
  C17 — helper lemmas (model: `Model/C17.lean`).
-/
import PercevalModel.Model.C17

namespace PM.C17
open PM.SM

/-! ### generic: histories restricted by a predicate on operations -/

theorem inv_exec_of {S Op Out : Type} (step : S → Op → S × Out) (P : Op → Prop) (Inv : S → Prop)
    (hstep : ∀ s op, P op → Inv s → Inv (step s op).1) (s : S) (h : Inv s) (ops : List Op)
    (hops : ∀ op ∈ ops, P op) : Inv (exec step s ops) := by
  induction ops generalizing s with
  | nil => exact h
  | cons x xs ih =>
    rw [exec_cons]
    exact ih _ (hstep s x (hops x (by simp)) h) (fun op ho => hops op (by simp [ho]))

theorem outputs_run_of {S Op Out : Type} (step : S → Op → S × Out) (P : Op → Prop) (Inv : S → Prop)
    (Q : Out → Prop)
    (hstep : ∀ s op, P op → Inv s → Inv (step s op).1 ∧ Q (step s op).2) (s : S) (h : Inv s)
    (ops : List Op) (hops : ∀ op ∈ ops, P op) : ∀ o ∈ (run step s ops).2, Q o := by
  induction ops generalizing s with
  | nil => intro o ho; simp [run] at ho
  | cons x xs ih =>
    intro o ho
    simp only [run, List.mem_cons] at ho
    have hx := hstep s x (hops x (by simp)) h
    rcases ho with rfl | ho
    · exact hx.2
    · exact ih _ hx.1 (fun op ho => hops op (by simp [ho])) o ho

theorem run_cons {S Op Out : Type} (step : S → Op → S × Out) (s : S) (op : Op) (ops : List Op) :
    run step s (op :: ops) = ((run step (step s op).1 ops).1, (step s op).2 :: (run step (step s op).1 ops).2) := by
  simp [run]

/-! ### `countCreate` -/

theorem countCreate_append (a b : List Call) : countCreate (a ++ b) = countCreate a + countCreate b := by
  induction a with
  | nil => simp [countCreate]
  | cons x xs ih => cases x <;> simp [countCreate, ih] <;> omega

/-! ### `_handle_status_error` and the `status` property -/

theorem handleErr_fst (fixed : Bool) (j : Job) (code : Option Nat) :
    (handleErr fixed j code).1 = { j with streak := j.streak + 1 } := by
  unfold handleErr
  simp only
  split
  · rfl
  · split
    · split <;> rfl
    · rfl

theorem readStatus_not_due {fixed : Bool} {j : Job} {r : Resp} (h : statusDue j = false) :
    readStatus fixed j r = (j, none, []) := by
  simp [readStatus, h]

theorem statusDue_of_unsent {j : Job} (h : j.id = none) : statusDue j = false := by
  simp [statusDue, h]

theorem statusDue_of_completed {j : Job} (h : j.status.completed = true) : statusDue j = false := by
  simp [statusDue, h]

theorem readStatus_id (fixed : Bool) (j : Job) (r : Resp) : (readStatus fixed j r).1.id = j.id := by
  unfold readStatus
  split
  · rfl
  · cases r <;> simp [handleErr_fst]

theorem readStatus_sentCount (fixed : Bool) (j : Job) (r : Resp) :
    (readStatus fixed j r).1.sentCount = j.sentCount := by
  unfold readStatus
  split
  · rfl
  · cases r <;> simp [handleErr_fst]

theorem readStatus_cache (fixed : Bool) (j : Job) (r : Resp) :
    (readStatus fixed j r).1.cache = j.cache := by
  unfold readStatus
  split
  · rfl
  · cases r <;> simp [handleErr_fst]

theorem readStatus_calls (fixed : Bool) (j : Job) (r : Resp) :
    (readStatus fixed j r).2.2 = if statusDue j then [Call.status j.id] else [] := by
  unfold readStatus
  cases h : statusDue j <;> simp
  cases r <;> simp

theorem readStatus_noCreate (fixed : Bool) (j : Job) (r : Resp) :
    countCreate (readStatus fixed j r).2.2 = 0 := by
  rw [readStatus_calls]
  split <;> simp [countCreate]

/-! ### sent at most once -/

/-- invariant of the repaired code: at most one submission, and an unsent WAITING job has none -/
def SentInv (j : Job) : Prop :=
  j.sentCount ≤ 1 ∧ (j.id = none → j.status = .waiting → j.sentCount = 0)

theorem sentInv_init : SentInv init := by simp [SentInv, init]

theorem sentInv_readStatus (fixed : Bool) (j : Job) (r : Resp) (h : SentInv j) :
    SentInv (readStatus fixed j r).1 := by
  cases hid : j.id with
  | none => rw [readStatus_not_due (statusDue_of_unsent hid)]; exact h
  | some n =>
    refine ⟨by rw [readStatus_sentCount]; exact h.1, ?_⟩
    intro h0
    rw [readStatus_id, hid] at h0
    cases h0

/-- the step of the repaired code keeps the invariant, and every `create_job` call it makes is
counted by `sentCount` -/
theorem step_sent (j : Job) (op : Op) (h : SentInv j) :
    SentInv (step true j op).1 ∧
      countCreate (step true j op).2.calls + j.sentCount ≤ (step true j op).1.sentCount := by
  cases op with
  | execute hr =>
    simp only [step, execute]
    cases hc : canExecute true j
    · simp [countCreate]; exact h
    · simp only [canExecute, Bool.and_eq_true, Bool.not_true, Bool.false_or] at hc
      have hw : j.status = .waiting := by
        cases hs : j.status <;> simp [hs, St.isWaiting] at hc ⊢
      have hid : j.id = none := by simpa using hc.2
      have h0 := h.2 hid hw
      cases hr <;> simp [SentInv, countCreate, h0]
  | poll v r =>
    have hi := sentInv_readStatus true j r h
    have hs := readStatus_sentCount true j r
    have hc := readStatus_noCreate true j r
    simp only [step, poll]
    generalize readStatus true j r = p at hi hs hc
    obtain ⟨j1, e, c⟩ := p
    cases e <;> simp_all
  | cancel r hr =>
    have hi := sentInv_readStatus true j r h
    have hs := readStatus_sentCount true j r
    have hc := readStatus_noCreate true j r
    simp only [step, cancel]
    generalize readStatus true j r = p at hi hs hc
    obtain ⟨j1, e, c⟩ := p
    simp only at hi hs hc
    cases e with
    | some e => simp_all
    | none =>
      simp only
      split
      · cases hr <;> simp_all [SentInv, countCreate_append, countCreate]
      · simp_all
  | rerun r1 r2 hr sw =>
    have hi := sentInv_readStatus true j r1 h
    have hs := readStatus_sentCount true j r1
    have hc := readStatus_noCreate true j r1
    simp only [step, rerun]
    generalize readStatus true j r1 = p at hi hs hc
    obtain ⟨j1, e, c⟩ := p
    simp only at hi hs hc
    cases e with
    | some e => simp_all
    | none =>
      simp only
      split
      · cases hr with
        | ok n =>
          cases sw
          · simp_all [countCreate_append, countCreate]
          · simp only [if_true, countCreate_append, hc, countCreate]
            refine ⟨by simp [SentInv, born], ?_⟩
            have := h.1
            simp [born]; omega
        | http c => simp_all [countCreate_append, countCreate]
        | conn => simp_all [countCreate_append, countCreate]
      · have hi2 := sentInv_readStatus true j1 r2 hi
        have hs2 := readStatus_sentCount true j1 r2
        have hc2 := readStatus_noCreate true j1 r2
        generalize readStatus true j1 r2 = p2 at hi2 hs2 hc2
        obtain ⟨j2, e2, c2⟩ := p2
        cases e2 <;> simp_all [countCreate_append]
  | getResults r1 r2 hr =>
    have hi := sentInv_readStatus true j r1 h
    have hs := readStatus_sentCount true j r1
    have hc := readStatus_noCreate true j r1
    simp only [step, getResults]
    generalize readStatus true j r1 = p at hi hs hc
    obtain ⟨j1, e, c⟩ := p
    simp only at hi hs hc
    cases e with
    | some e => simp_all
    | none =>
      simp only
      split
      · simp_all
      · have hi2 : SentInv (if j1.cache.isSome then readStatus true j1 r2 else (j1, none, [])).1 := by
          split
          · exact sentInv_readStatus true j1 r2 hi
          · exact hi
        have hs2 : (if j1.cache.isSome then readStatus true j1 r2 else (j1, none, [])).1.sentCount
            = j1.sentCount := by
          split
          · exact readStatus_sentCount true j1 r2
          · rfl
        have hc2 : countCreate (if j1.cache.isSome then readStatus true j1 r2 else (j1, none, [])).2.2
            = 0 := by
          split
          · exact readStatus_noCreate true j1 r2
          · rfl
        generalize (if j1.cache.isSome then readStatus true j1 r2 else (j1, none, [])) = p2 at hi2 hs2 hc2
        obtain ⟨j2, e2, c2⟩ := p2
        simp only at hi2 hs2 hc2
        cases e2 with
        | some e => simp_all [countCreate_append]
        | none =>
          simp only
          split
          · simp_all [countCreate_append]
          · cases hr <;> simp_all [SentInv, countCreate_append, countCreate]

/-! ### the cached status is the last status read -/

def LastInv (j : Job) : Prop := ∀ x, j.lastRead = some x → j.status = x

theorem lastInv_init : LastInv init := by simp [LastInv, init]

theorem lastInv_readStatus (fixed : Bool) (j : Job) (r : Resp) (h : LastInv j) :
    LastInv (readStatus fixed j r).1 := by
  unfold readStatus
  split
  · exact h
  · cases r with
    | status s m => intro x hx; simp at hx ⊢; exact hx
    | http c => simp only [handleErr_fst]; exact h
    | conn => simp only [handleErr_fst]; exact h

theorem step_last (fixed : Bool) (j : Job) (op : Op) (h : LastInv j) : LastInv (step fixed j op).1 := by
  cases op with
  | execute hr =>
    simp only [step, execute]
    split
    · exact h
    · cases hr <;> simp [LastInv]
  | poll v r =>
    have hi := lastInv_readStatus fixed j r h
    simp only [step, poll]
    generalize readStatus fixed j r = p at hi
    obtain ⟨j1, e, c⟩ := p
    cases e <;> exact hi
  | cancel r hr =>
    have hi := lastInv_readStatus fixed j r h
    simp only [step, cancel]
    generalize readStatus fixed j r = p at hi
    obtain ⟨j1, e, c⟩ := p
    cases e with
    | some e => exact hi
    | none =>
      simp only
      split
      · cases hr
        · simp [LastInv]
        · exact hi
        · exact hi
      · exact hi
  | rerun r1 r2 hr sw =>
    have hi := lastInv_readStatus fixed j r1 h
    simp only [step, rerun]
    generalize readStatus fixed j r1 = p at hi
    obtain ⟨j1, e, c⟩ := p
    cases e with
    | some e => exact hi
    | none =>
      simp only
      split
      · cases hr with
        | ok n =>
          cases sw
          · exact hi
          · simp [LastInv, born]
        | http c => exact hi
        | conn => exact hi
      · have hi2 := lastInv_readStatus fixed j1 r2 hi
        generalize readStatus fixed j1 r2 = p2 at hi2
        obtain ⟨j2, e2, c2⟩ := p2
        cases e2 <;> exact hi2
  | getResults r1 r2 hr =>
    have hi := lastInv_readStatus fixed j r1 h
    simp only [step, getResults]
    generalize readStatus fixed j r1 = p at hi
    obtain ⟨j1, e, c⟩ := p
    cases e with
    | some e => exact hi
    | none =>
      simp only
      split
      · exact hi
      · have hi2 : LastInv (if j1.cache.isSome then readStatus fixed j1 r2 else (j1, none, [])).1 := by
          split
          · exact lastInv_readStatus fixed j1 r2 hi
          · exact hi
        generalize (if j1.cache.isSome then readStatus fixed j1 r2 else (j1, none, [])) = p2 at hi2
        obtain ⟨j2, e2, c2⟩ := p2
        cases e2 with
        | some e => exact hi2
        | none =>
          simp only
          split
          · exact hi2
          · cases hr <;> exact hi2

/-! ### a final status is absorbing -/

theorem maybeCompleted_of_completed {s : St} (h : s.completed = true) : s.maybeCompleted = true := by
  cases s <;> simp_all [St.completed, St.maybeCompleted]

theorem isWaiting_of_completed {s : St} (h : s.completed = true) : s.isWaiting = false := by
  cases s <;> simp_all [St.completed, St.isWaiting]

theorem cancellable_of_completed {s : St} (h : s.completed = true) : s.cancellable = false := by
  cases s <;> simp_all [St.completed, St.cancellable]

/-- in a final state no step (other than following a rerun into the new job) changes the job
or asks the server for the status -/
theorem step_final (fixed : Bool) (j : Job) (op : Op) (h : j.status.completed = true)
    (hsw : op.switches = false) :
    (step fixed j op).1.status = j.status ∧ (step fixed j op).1.id = j.id ∧
      ∀ c ∈ (step fixed j op).2.calls, isStatusCall c = false := by
  have hnd : ∀ r, readStatus fixed j r = (j, none, []) :=
    fun r => readStatus_not_due (statusDue_of_completed h)
  cases op with
  | execute hr =>
    simp [step, execute, canExecute, isWaiting_of_completed h]
  | poll v r =>
    simp [step, poll, hnd]
  | cancel r hr =>
    simp [step, cancel, hnd, cancellable_of_completed h]
  | rerun r1 r2 hr sw =>
    simp only [Op.switches] at hsw
    subst hsw
    simp only [step, rerun, hnd]
    split
    · cases hr <;> simp [isStatusCall]
    · simp
  | getResults r1 r2 hr =>
    simp only [step, getResults, hnd, maybeCompleted_of_completed h]
    simp only [Bool.not_true, Bool.false_eq_true, if_false, ite_self]
    split
    · simp
    · cases hr <;> simp [isStatusCall]

/-! ### the error streak -/

theorem streakSpec_congr (j j' : Job) (hs : j'.status = j.status) (hi : j'.id = j.id) (k : Nat)
    (rs : List Resp) : streakSpec j' k rs = streakSpec j k rs := by
  induction rs generalizing k with
  | nil => rfl
  | cons r rs ih => simp [streakSpec, hs, hi, ih]

/-- one transient failure of the status request on the repaired code -/
theorem poll_transient_step (j : Job) (r : Resp) (hd : statusDue j = true) (ht : r.isTransient = true) :
    step true j (.poll .status r) =
      ({ j with streak := j.streak + 1 },
       if j.streak + 1 < maxError then (⟨.st j.status, [.status j.id]⟩ : Out)
       else ⟨.raised (respExc r), [.status j.id]⟩) := by
  cases r with
  | status s m => simp [Resp.isTransient] at ht
  | http c =>
    simp only [Resp.isTransient] at ht
    simp only [step, poll, readStatus, hd, handleErr, raisesAt, ht, respExc, excOf, view]
    by_cases hk : j.streak + 1 < maxError
    · have : ¬ maxError ≤ j.streak + 1 := by omega
      simp [hk, this]
    · have : maxError ≤ j.streak + 1 := by omega
      simp [hk, this]
  | conn =>
    simp only [step, poll, readStatus, hd, handleErr, raisesAt, respExc, excOf, view]
    by_cases hk : j.streak + 1 < maxError
    · have : ¬ maxError ≤ j.streak + 1 := by omega
      simp [hk, this]
    · have : maxError ≤ j.streak + 1 := by omega
      simp [hk, this]

theorem streak_run (j : Job) (rs : List Resp) (hd : statusDue j = true)
    (ht : ∀ r ∈ rs, r.isTransient = true) :
    run (step true) j (rs.map (Op.poll .status)) =
      ({ j with streak := j.streak + rs.length }, streakSpec j j.streak rs) := by
  induction rs generalizing j with
  | nil => simp [run, streakSpec]
  | cons r rs ih =>
    have h1 := poll_transient_step j r hd (ht r (by simp))
    have hd' : statusDue { j with streak := j.streak + 1 } = true := by simpa [statusDue] using hd
    have := ih { j with streak := j.streak + 1 } hd' (fun r' hr' => ht r' (by simp [hr']))
    simp only [List.map_cons, run_cons, h1, this, streakSpec]
    rw [streakSpec_congr j { j with streak := j.streak + 1 } rfl rfl]
    simp only [List.length_cons, Prod.mk.injEq, and_true]
    congr 1
    omega

/-! ### misc -/

/-- the only exception a status read lets through is the error of the failed request itself -/
theorem readStatus_exc (fixed : Bool) (j : Job) (r : Resp) (e : Exc)
    (h : (readStatus fixed j r).2.1 = some e) : e = respExc r ∧ ∀ s m, r ≠ .status s m := by
  unfold readStatus at h
  split at h
  · simp at h
  · cases r with
    | status s m => simp at h
    | http c =>
      simp only [handleErr] at h
      refine ⟨?_, by simp⟩
      split at h
      · simpa [excOf, respExc, eq_comm] using h
      · split at h
        · simp at h
        · simpa [excOf, respExc, eq_comm] using h
    | conn =>
      simp only [handleErr] at h
      refine ⟨?_, by simp⟩
      split at h
      · simpa [excOf, respExc, eq_comm] using h
      · simp at h

theorem mem_readStatus_calls (fixed : Bool) (j : Job) (r : Resp) (c : Call)
    (h : c ∈ (readStatus fixed j r).2.2) : c = .status j.id := by
  rw [readStatus_calls] at h
  split at h <;> simp at h
  exact h

/-! ### an unfinished job keeps asking the server -/

/-- the operations that begin with a status read: everything but `execute_async` -/
def Op.readsStatus : Op → Bool
  | .execute _ => false
  | _ => true

/-- `was_sent and not completed`, spelled out -/
theorem statusDue_iff (j : Job) :
    statusDue j = true ↔ j.id.isSome = true ∧ j.status.completed = false := by
  simp [statusDue]

/-- a due status read sends exactly the status request of this job, whatever the answer -/
theorem readStatus_calls_due (fixed : Bool) (j : Job) (r : Resp) (hd : statusDue j = true) :
    (readStatus fixed j r).2.2 = [.status j.id] := by
  rw [readStatus_calls, hd]; simp

/-- on a sent, unfinished job every operation other than `execute_async` starts with the status request -/
theorem step_head_status (fixed : Bool) (j : Job) (op : Op) (hd : statusDue j = true)
    (hop : op.readsStatus = true) :
    (step fixed j op).2.calls.head? = some (.status j.id) := by
  cases op with
  | execute h => simp [Op.readsStatus] at hop
  | poll v r =>
    have hc := readStatus_calls_due fixed j r hd
    simp only [step, poll]
    generalize readStatus fixed j r = p at hc
    obtain ⟨j1, e, c⟩ := p
    simp only at hc
    subst hc
    cases e <;> simp
  | cancel r h =>
    have hc := readStatus_calls_due fixed j r hd
    simp only [step, cancel]
    generalize readStatus fixed j r = p at hc
    obtain ⟨j1, e, c⟩ := p
    simp only at hc
    subst hc
    cases e with
    | some e => simp
    | none =>
      simp only
      split
      · cases h <;> simp
      · simp
  | rerun r1 r2 h sw =>
    have hc := readStatus_calls_due fixed j r1 hd
    simp only [step, rerun]
    generalize readStatus fixed j r1 = p at hc
    obtain ⟨j1, e, c⟩ := p
    simp only at hc
    subst hc
    cases e with
    | some e => simp
    | none =>
      simp only
      split
      · cases h <;> simp
      · generalize readStatus fixed j1 r2 = p2
        obtain ⟨j2, e2, c2⟩ := p2
        cases e2 <;> simp
  | getResults r1 r2 h =>
    have hc := readStatus_calls_due fixed j r1 hd
    simp only [step, getResults]
    generalize readStatus fixed j r1 = p at hc
    obtain ⟨j1, e, c⟩ := p
    simp only at hc
    subst hc
    cases e with
    | some e => simp
    | none =>
      simp only
      split
      · simp
      · generalize (if j1.cache.isSome then readStatus fixed j1 r2 else (j1, none, [])) = p2
        obtain ⟨j2, e2, c2⟩ := p2
        cases e2 with
        | some e => simp
        | none =>
          simp only
          split
          · simp
          · cases h <;> simp

end PM.C17
