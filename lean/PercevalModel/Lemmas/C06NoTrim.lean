/-
  C06 — below the smallest weight a branch of the tensor products can reach, `generate_distribution`
  trims NOTHING: `generateRaw P θ ns t = generateRaw P 0 ns t` as lists when `θ < wmin P ^ ns.sum`,
  with `wmin P` the smallest probability of an outcome of one requested photon.
-/
import PercevalModel.Lemmas.C06LossW

namespace PM.C06

/-! ### generic: lists of rationals, `trim`, `dfs`, `accum` -/

theorem foldr_min_le_one (l : List ℚ) : l.foldr min 1 ≤ 1 := by
  induction l with
  | nil => exact le_refl _
  | cons a l ih => exact (min_le_right _ _).trans ih

theorem foldr_min_le_mem (l : List ℚ) : ∀ x ∈ l, l.foldr min 1 ≤ x := by
  induction l with
  | nil => intro x hx; cases hx
  | cons a l ih =>
    intro x hx
    rcases List.mem_cons.1 hx with h | h
    · subst h; exact min_le_left _ _
    · exact (min_le_right _ _).trans (ih x h)

theorem foldr_min_pos (l : List ℚ) (h : ∀ x ∈ l, 0 < x) : 0 < l.foldr min 1 := by
  induction l with
  | nil => exact zero_lt_one
  | cons a l ih =>
    exact lt_min (h a List.mem_cons_self) (ih fun x hx => h x (List.mem_cons_of_mem _ hx))

theorem trim_eq_self {α : Type} (θ : ℚ) (d : Dist α) (h : ∀ e ∈ d, θ < e.2) : trim θ d = d := by
  unfold trim
  exact List.filter_eq_self.2 fun e he => decide_eq_true (h e he)

theorem flatMap_congr_mem {α β : Type} (l : List α) (f g : α → List β)
    (h : ∀ a ∈ l, f a = g a) : l.flatMap f = l.flatMap g := by
  induction l with
  | nil => rfl
  | cons a l ih =>
    rw [List.flatMap_cons, List.flatMap_cons, h a List.mem_cons_self,
      ih fun b hb => h b (List.mem_cons_of_mem _ hb)]

/-- every entry of the `k`-th factor weighs at least `w ^ k` -/
abbrev LB {α : Type} (w : ℚ) (ds : List (Dist α)) (ks : List ℕ) : Prop :=
  List.Forall₂ (fun d k => ∀ e ∈ d, w ^ k ≤ e.2) ds ks

theorem pow_sum_le_left {w : ℚ} (hw0 : 0 < w) (hw1 : w ≤ 1) (a b : ℕ) : w ^ (a + b) ≤ w ^ a :=
  pow_le_pow_of_le_one hw0.le hw1 (Nat.le_add_right a b)

theorem pow_sum_le_right {w : ℚ} (hw0 : 0 < w) (hw1 : w ≤ 1) (a b : ℕ) : w ^ (a + b) ≤ w ^ b :=
  pow_le_pow_of_le_one hw0.le hw1 (Nat.le_add_left b a)

/-- the depth-first product does not see a threshold below its smallest branch weight -/
theorem dfs_eq_of_small {α : Type} (comb : α → α → α) {w : ℚ} (hw0 : 0 < w) (hw1 : w ≤ 1)
    (θ θ' : ℚ) {ds : List (Dist α)} {ks : List ℕ} (h : LB w ds ks) :
    ∀ (s : α) (p : ℚ), 0 < p → θ < p * w ^ ks.sum → θ' < p * w ^ ks.sum →
      dfs θ comb ds s p = dfs θ' comb ds s p := by
  induction h with
  | nil => intro s p _ _ _; rfl
  | @cons d k ds ks hd _ ih =>
    intro s p hp h1 h2
    simp only [dfs]
    apply flatMap_congr_mem
    intro e he
    rw [List.sum_cons, pow_add] at h1 h2
    have hA : 0 < w ^ k := pow_pos hw0 k
    have hB : 0 < w ^ ks.sum := pow_pos hw0 _
    have hB1 : w ^ ks.sum ≤ 1 := pow_le_one₀ hw0.le hw1
    have hek := hd e he
    have he0 : 0 < e.2 := lt_of_lt_of_le hA hek
    have hpe : p * w ^ k ≤ p * e.2 := mul_le_mul_of_nonneg_left hek hp.le
    have hle : p * (w ^ k * w ^ ks.sum) ≤ p * e.2 * w ^ ks.sum := by
      rw [← mul_assoc]; exact mul_le_mul_of_nonneg_right hpe hB.le
    have hle' : p * e.2 * w ^ ks.sum ≤ p * e.2 :=
      mul_le_of_le_one_right (mul_pos hp he0).le hB1
    have n1 : ¬ p * e.2 < θ := not_lt.2 ((h1.le.trans hle).trans hle')
    have n2 : ¬ p * e.2 < θ' := not_lt.2 ((h2.le.trans hle).trans hle')
    rw [if_neg n1, if_neg n2]
    exact ih _ _ (mul_pos hp he0) (lt_of_lt_of_le h1 hle) (lt_of_lt_of_le h2 hle)

/-- every branch the depth-first product keeps weighs at least the product of the lower bounds -/
theorem dfs_lb {α : Type} (comb : α → α → α) {w : ℚ} (hw0 : 0 < w) (θ : ℚ)
    {ds : List (Dist α)} {ks : List ℕ} (h : LB w ds ks) :
    ∀ (s : α) (p : ℚ), 0 ≤ p → ∀ x ∈ dfs θ comb ds s p, p * w ^ ks.sum ≤ x.2 := by
  induction h with
  | nil =>
    intro s p _ x hx
    simp only [dfs, List.mem_singleton] at hx
    subst hx
    simp
  | @cons d k ds ks hd _ ih =>
    intro s p hp x hx
    simp only [dfs, List.mem_flatMap] at hx
    obtain ⟨e, he, hx⟩ := hx
    split at hx
    · cases hx
    · have hA : 0 < w ^ k := pow_pos hw0 k
      have hB : 0 < w ^ ks.sum := pow_pos hw0 _
      have hek := hd e he
      have he0 : 0 < e.2 := lt_of_lt_of_le hA hek
      have := ih _ _ (mul_nonneg hp he0.le) x hx
      refine le_trans ?_ this
      rw [List.sum_cons, pow_add, ← mul_assoc]
      exact mul_le_mul_of_nonneg_right (mul_le_mul_of_nonneg_left hek hp) hB.le

theorem map_trim_eq_of_small {α : Type} {w : ℚ} (hw0 : 0 < w) (hw1 : w ≤ 1) (θ : ℚ)
    {ds : List (Dist α)} {ks : List ℕ} (h : LB w ds ks) :
    θ < w ^ ks.sum → ds.map (trim θ) = ds := by
  induction h with
  | nil => intro _; rfl
  | @cons d k ds ks hd _ ih =>
    intro hθ
    rw [List.sum_cons] at hθ
    rw [List.map_cons, ih (lt_of_lt_of_le hθ (pow_sum_le_right hw0 hw1 _ _)),
      trim_eq_self θ d fun e he =>
        lt_of_lt_of_le (lt_of_lt_of_le hθ (pow_sum_le_left hw0 hw1 _ _)) (hd e he)]

theorem addKey_lb {α : Type} [DecidableEq α] (L : ℚ) (k : α) (p : ℚ) (hp : L ≤ p) (hp0 : 0 ≤ p)
    (d : Dist α) (hd : ∀ x ∈ d, L ≤ x.2) : ∀ x ∈ addKey k p d, L ≤ x.2 := by
  induction d with
  | nil => intro x hx; simp only [addKey, List.mem_singleton] at hx; subst hx; exact hp
  | cons e d ih =>
    intro x hx
    simp only [addKey] at hx
    split at hx
    · rcases List.mem_cons.1 hx with h | h
      · subst h
        exact le_trans (hd e List.mem_cons_self) (le_add_of_nonneg_right hp0)
      · exact hd x (List.mem_cons_of_mem _ h)
    · rcases List.mem_cons.1 hx with h | h
      · subst h; exact hd _ List.mem_cons_self
      · exact ih (fun y hy => hd y (List.mem_cons_of_mem _ hy)) x h

/-- accumulating equal keys only increases weights -/
theorem accum_lb {α : Type} [DecidableEq α] (L : ℚ) (hL : 0 ≤ L) (d : Dist α)
    (hd : ∀ x ∈ d, L ≤ x.2) : ∀ x ∈ accum d, L ≤ x.2 := by
  unfold accum
  suffices H : ∀ (d acc : Dist α), (∀ x ∈ d, L ≤ x.2) → (∀ x ∈ acc, L ≤ x.2) →
      ∀ x ∈ d.foldl (fun acc e => addKey e.1 e.2 acc) acc, L ≤ x.2 from
    H d [] hd (fun x hx => by cases hx)
  intro d
  induction d with
  | nil => intro acc _ hacc x hx; exact hacc x hx
  | cons e d ih =>
    intro acc hd hacc x hx
    rw [List.foldl_cons] at hx
    have he := hd e List.mem_cons_self
    exact ih _ (fun y hy => hd y (List.mem_cons_of_mem _ hy))
      (addKey_lb L e.1 e.2 he (hL.trans he) acc hacc) x hx

/-! ### the smallest weight of one requested photon -/

/-- the smallest probability of an outcome of one requested photon (and at most 1) -/
def wmin (P : Params) : ℚ := ((onePhoton P 0).map Prod.snd).foldr min 1

theorem positive_probs {α : Type} (d : Dist α) :
    (positive d).map Prod.snd = (d.map Prod.snd).filter fun p => decide (0 < p) := by
  unfold positive
  rw [List.filter_map]
  rfl

theorem onePhoton_probs (P : Params) (t : ℕ) :
    (onePhoton P t).map Prod.snd = (onePhoton P 0).map Prod.snd := by
  unfold onePhoton
  rw [positive_probs, positive_probs, onePhotonRaw_probs]

theorem wmin_pos (P : Params) : 0 < wmin P := by
  unfold wmin
  apply foldr_min_pos
  intro x hx
  obtain ⟨e, he, rfl⟩ := List.mem_map.1 hx
  unfold onePhoton positive at he
  exact of_decide_eq_true (List.mem_filter.1 he).2

theorem wmin_le_one (P : Params) : wmin P ≤ 1 := foldr_min_le_one _

theorem wmin_le (P : Params) (t : ℕ) : ∀ e ∈ onePhoton P t, wmin P ≤ e.2 := by
  intro e he
  unfold wmin
  apply foldr_min_le_mem
  rw [← onePhoton_probs P t]
  exact List.mem_map.2 ⟨e, he, rfl⟩

/-! ### the mode level: `probability_distribution` -/

theorem lb_replicate {α : Type} {w : ℚ} (ds : List (Dist α)) (h : ∀ d ∈ ds, ∀ e ∈ d, w ≤ e.2) :
    LB w ds (List.replicate ds.length 1) := by
  induction ds with
  | nil => exact List.Forall₂.nil
  | cons d ds ih =>
    rw [List.length_cons, List.replicate_succ]
    refine List.Forall₂.cons ?_ (ih fun d' hd' => h d' (List.mem_cons_of_mem _ hd'))
    intro e he
    rw [pow_one]
    exact h d List.mem_cons_self e he

theorem sum_replicate_one (n : ℕ) : (List.replicate n 1).sum = n := by simp

theorem ltpMode_eq_of_small {w : ℚ} (hw0 : 0 < w) (hw1 : w ≤ 1) (θ θ' : ℚ) (ds : List (Dist Mode))
    (h : ∀ d ∈ ds, ∀ e ∈ d, w ≤ e.2) (h1 : θ < w ^ ds.length) (h2 : θ' < w ^ ds.length) :
    ltpMode θ ds = ltpMode θ' ds := by
  have hL := lb_replicate ds h
  have hs := sum_replicate_one ds.length
  rcases ds with _ | ⟨d1, _ | ⟨d2, rest⟩⟩
  · rfl
  · rfl
  · simp only [ltpMode]
    rw [map_trim_eq_of_small hw0 hw1 θ hL (by rw [hs]; exact h1),
      map_trim_eq_of_small hw0 hw1 θ' hL (by rw [hs]; exact h2),
      dfs_eq_of_small _ hw0 hw1 θ θ' hL [] 1 one_pos (by rw [hs, one_mul]; exact h1)
        (by rw [hs, one_mul]; exact h2)]

theorem ltpMode_lb_of_small {w : ℚ} (hw0 : 0 < w) (hw1 : w ≤ 1) (θ : ℚ) (ds : List (Dist Mode))
    (h : ∀ d ∈ ds, ∀ e ∈ d, w ≤ e.2) (h1 : θ < w ^ ds.length) :
    ∀ x ∈ ltpMode θ ds, w ^ ds.length ≤ x.2 := by
  have hL := lb_replicate ds h
  have hs := sum_replicate_one ds.length
  rcases ds with _ | ⟨d1, _ | ⟨d2, rest⟩⟩
  · intro x hx; simp [ltpMode] at hx
  · intro x hx
    simp only [ltpMode] at hx
    simp only [List.length_singleton, pow_one]
    exact h d1 List.mem_cons_self x hx
  · intro x hx
    simp only [ltpMode] at hx
    split at hx
    · cases hx
    · rw [map_trim_eq_of_small hw0 hw1 θ hL (by rw [hs]; exact h1)] at hx
      refine accum_lb _ (pow_pos hw0 _).le _ ?_ x hx
      intro y hy
      have := dfs_lb _ hw0 θ hL [] 1 zero_le_one y hy
      rwa [hs, one_mul] at this

theorem photonDists_lb (P : Params) (n t : ℕ) :
    ∀ d ∈ photonDists P n t, ∀ e ∈ d, wmin P ≤ e.2 := by
  induction n generalizing t with
  | zero => intro d hd; simp [photonDists] at hd
  | succ n ih =>
    intro d hd
    simp only [photonDists] at hd
    rcases List.mem_cons.1 hd with h | h
    · subst h; exact wmin_le P t
    · exact ih _ d h

theorem length_photonDists' (P : Params) (n t : ℕ) : (photonDists P n t).length = n := by
  induction n generalizing t with
  | zero => rfl
  | succ n ih => simp only [photonDists, List.length_cons, ih]

theorem probDist_eq_of_small (P : Params) (θ θ' : ℚ) (n t : ℕ)
    (h1 : θ < wmin P ^ n) (h2 : θ' < wmin P ^ n) : probDist P θ n t = probDist P θ' n t := by
  unfold probDist
  split
  · rfl
  · exact ltpMode_eq_of_small (wmin_pos P) (wmin_le_one P) θ θ' _ (photonDists_lb P n t)
      (by rw [length_photonDists']; exact h1) (by rw [length_photonDists']; exact h2)

theorem probDist_lb_of_small (P : Params) (θ : ℚ) (n t : ℕ) (h1 : θ < wmin P ^ n) :
    ∀ x ∈ probDist P θ n t, wmin P ^ n ≤ x.2 := by
  intro x hx
  unfold probDist at hx
  split at hx
  · rw [List.mem_singleton] at hx
    subst hx
    exact pow_le_one₀ (wmin_pos P).le (wmin_le_one P)
  · have := ltpMode_lb_of_small (wmin_pos P) (wmin_le_one P) θ _ (photonDists_lb P n t)
      (by rw [length_photonDists']; exact h1) x hx
    rwa [length_photonDists'] at this

/-! ### the state level: `generate_distribution` -/

theorem modeDists_eq_of_small (P : Params) (θ θ' : ℚ) (ns : List ℕ) (t : ℕ)
    (h1 : θ < wmin P ^ ns.sum) (h2 : θ' < wmin P ^ ns.sum) :
    modeDists P θ ns t = modeDists P θ' ns t := by
  induction ns generalizing t with
  | nil => rfl
  | cons n ns ih =>
    rw [List.sum_cons] at h1 h2
    have hl := pow_sum_le_left (wmin_pos P) (wmin_le_one P) n ns.sum
    have hr := pow_sum_le_right (wmin_pos P) (wmin_le_one P) n ns.sum
    simp only [modeDists]
    rw [probDist_eq_of_small P θ θ' n t (lt_of_lt_of_le h1 hl) (lt_of_lt_of_le h2 hl),
      ih _ (lt_of_lt_of_le h1 hr) (lt_of_lt_of_le h2 hr)]

theorem modeDists_lift_LB (P : Params) (ns : List ℕ) (t : ℕ) :
    LB (wmin P) ((modeDists P 0 ns t).map lift) ns := by
  induction ns generalizing t with
  | nil => exact List.Forall₂.nil
  | cons n ns ih =>
    simp only [modeDists, List.map_cons]
    refine List.Forall₂.cons ?_ (ih _)
    intro x hx
    unfold lift at hx
    obtain ⟨e, he, rfl⟩ := List.mem_map.1 hx
    exact probDist_lb_of_small P 0 n t (pow_pos (wmin_pos P) n) e he

theorem ltpState_eq_of_small {w : ℚ} (hw0 : 0 < w) (hw1 : w ≤ 1) (θ θ' : ℚ)
    {ds : List (Dist State)} {ks : List ℕ} (hL : LB w ds ks)
    (h1 : θ < w ^ ks.sum) (h2 : θ' < w ^ ks.sum) : ltpState θ ds = ltpState θ' ds := by
  have e1 := map_trim_eq_of_small hw0 hw1 θ hL h1
  have e2 := map_trim_eq_of_small hw0 hw1 θ' hL h2
  have e3 := dfs_eq_of_small (fun s e : State => s ++ e) hw0 hw1 θ θ' hL [] 1 one_pos
    (by rw [one_mul]; exact h1) (by rw [one_mul]; exact h2)
  rcases ds with _ | ⟨d1, _ | ⟨d2, rest⟩⟩
  · rfl
  · rfl
  · simp only [ltpState]
    rw [e1, e2, e3]

/-- below the smallest branch weight nothing is trimmed: the lists are EQUAL -/
theorem generateRaw_eq_of_small (P : Params) (θ : ℚ) (ns : List ℕ) (t : ℕ)
    (hθ : θ < wmin P ^ ns.sum) : generateRaw P θ ns t = generateRaw P 0 ns t := by
  have h0 : (0 : ℚ) < wmin P ^ ns.sum := pow_pos (wmin_pos P) _
  unfold generateRaw
  rw [modeDists_eq_of_small P θ 0 ns t hθ h0]
  exact ltpState_eq_of_small (wmin_pos P) (wmin_le_one P) θ 0 (modeDists_lift_LB P ns t) hθ h0

theorem generateAt_eq_of_small (P : Params) (θ : ℚ) (ns : List ℕ) (t : ℕ)
    (hθ : θ < wmin P ^ ns.sum) : generateAt P θ ns t = generateAt P 0 ns t := by
  unfold generateAt
  rw [generateRaw_eq_of_small P θ ns t hθ]

end PM.C06
