/-
  C15 — lemmas about the constructor layer of `Detector` (`Model/C15Det.lean`).
-/
import PercevalModel.Model.C15Det

namespace PM.C15.DetC

/-- what the constructor can produce -/
theorem ctor_shape {nw md : Option Int} {s : DState} (h : ctor nw md = some s) :
    (s = ⟨none, none⟩) ∨ ∃ w k : Int, 0 < w ∧ k ≤ w ∧ s = ⟨some w, some k⟩ := by
  unfold ctor at h
  cases nw with
  | none => left; simpa using h.symm
  | some w =>
    right
    by_cases hw : 0 < w
    · simp only [hw, if_true] at h
      cases md with
      | none => exact ⟨w, w, hw, Int.le_refl _, by simpa using h.symm⟩
      | some k =>
        by_cases hk : k ≤ w
        · simp only [hk, if_true] at h
          refine ⟨w, min k w, hw, by omega, by simpa using h.symm⟩
        · simp [hk] at h
    · simp [hw] at h

theorem int32_of_field {v r : Int} (h : field (some v) = some r) : r = v := by
  unfold field at h
  by_cases hv : int32 v = true
  · simpa [hv] using h.symm
  · simp [hv] at h

theorem dec_enc_shape (s : DState)
    (hs : (s = ⟨none, none⟩) ∨ ∃ w k : Int, 0 < w ∧ k ≤ w ∧ s = ⟨some w, some k⟩)
    (f : Int × Int) (hf : enc s = some f) : dec f = some (expected s) := by
  rcases hs with rfl | ⟨w, k, hw, hk, rfl⟩
  · simp [enc, field] at hf
    subst hf
    simp [dec, orNone, ctor, expected]
  · unfold enc at hf
    cases ha : field (some w) with
    | none => simp [ha] at hf
    | some a =>
      cases hb : field (some k) with
      | none => simp [ha, hb] at hf
      | some b =>
        simp only [ha, hb, Option.some.injEq] at hf
        subst hf
        have ea := int32_of_field ha
        have eb := int32_of_field hb
        subst ea; subst eb
        have hw0 : a ≠ 0 := by omega
        by_cases hk0 : b = 0
        · subst hk0
          simp [dec, orNone, hw0, ctor, hw, expected]
        · have hmin : min b a = b := by omega
          simp [dec, orNone, hw0, hk0, ctor, hw, hk, expected, hmin]

theorem expected_eq_iff (s : DState)
    (hs : (s = ⟨none, none⟩) ∨ ∃ w k : Int, 0 < w ∧ k ≤ w ∧ s = ⟨some w, some k⟩) :
    expected s = s ↔ s.max ≠ some 0 := by
  rcases hs with rfl | ⟨w, k, hw, hk, rfl⟩
  · simp [expected]
  · by_cases hk0 : k = 0
    · subst hk0
      have : w ≠ 0 := by omega
      simp [expected, this]
    · simp [expected, hk0]

theorem dtype_expected (s : DState)
    (hs : (s = ⟨none, none⟩) ∨ ∃ w k : Int, 0 < w ∧ k ≤ w ∧ s = ⟨some w, some k⟩) :
    dtype (expected s) = dtype s := by
  rcases hs with rfl | ⟨w, k, hw, hk, rfl⟩
  · simp [expected]
  · by_cases hk0 : k = 0
    · subst hk0
      simp [expected, dtype]
    · simp [expected, hk0]

theorem toDet_ofNatState (name : String) (w m : Option Nat) :
    toDet name (ofNatState w m) = some (.det name w m) := by
  cases w <;> cases m <;> simp [toDet, ofNatState, toNat?]

theorem wf_of_shape (name : String) (s : DState)
    (hs : (s = ⟨none, none⟩) ∨ ∃ w k : Int, 0 < w ∧ k ≤ w ∧ s = ⟨some w, some k⟩)
    (d : Det) (hd : toDet name s = some d) (h0 : s.max ≠ some 0) : d.WF := by
  rcases hs with rfl | ⟨w, k, hw, hk, rfl⟩
  · simp [toDet, toNat?] at hd
    subst hd
    simp [Det.WF]
  · have hk0 : k ≠ 0 := by simpa using h0
    by_cases hkn : 0 ≤ k
    · have hwn : 0 ≤ w := by omega
      simp [toDet, toNat?, hkn, hwn] at hd
      subst hd
      refine ⟨by omega, k.toNat, rfl, by omega, by omega⟩
    · have hwn : 0 ≤ w := by omega
      simp [toDet, toNat?, hkn, hwn] at hd

theorem wf_iff (name : String) (w m : Option Nat) :
    (Det.det name w m).WF ↔ (∃ nw md, ctor nw md = some (ofNatState w m)) ∧ m ≠ some 0 := by
  constructor
  · intro h
    cases w with
    | none =>
      have hm : m = none := h
      subst hm
      exact ⟨⟨none, none, by simp [ctor, ofNatState]⟩, by simp⟩
    | some w =>
      obtain ⟨hw, k, hk, hk0, hkw⟩ := h
      subst hk
      refine ⟨⟨some (w : Int), some (k : Int), ?_⟩, by simp; omega⟩
      have h1 : (0 : Int) < (w : Int) := by omega
      have h2 : (k : Int) ≤ (w : Int) := by omega
      have h3 : min (k : Int) (w : Int) = (k : Int) := by omega
      simp [ctor, ofNatState, h2, h3]
      omega
  · rintro ⟨⟨nw, md, h⟩, h0⟩
    have hs := ctor_shape h
    refine wf_of_shape name _ hs _ (toDet_ofNatState name w m) ?_
    cases m with
    | none => simp [ofNatState]
    | some k =>
      have : k ≠ 0 := by simpa using h0
      simp [ofNatState]; omega

end PM.C15.DetC
