/-
  C02 — invariants of the configuration glue of `AStrongSimulationBackend` (`Model/C02Sess.lean`).
-/
import PercevalModel.Model.C02Sess

namespace PM.C02.Sess
open PM.Fock

/-- the part of the invariant that does not speak of the mask object -/
structure Inv0 (st : St) : Prop where
  a : ∀ s, st.input = some s → st.circ = some s.length
  b : st.masksStr = none → st.mask = none
  d : st.circ = none → st.cache = []
  e : ∀ m n l, st.circ = some m → (n, l) ∈ st.cache →
        l = arrayStates m n (st.masksStr.map fun ms => ⟨m, effN st.maskN n, ms⟩)

/-- the mask object is the one the current strings, photon number and input prescribe -/
def MaskFresh (st : St) : Prop :=
  ∀ s ms, st.input = some s → st.masksStr = some ms →
    st.mask = some ⟨s.length, effN st.maskN s.sum, ms⟩

structure Inv (st : St) : Prop extends Inv0 st where
  c : MaskFresh st

theorem inv_init : Inv ({} : St) where
  a := by intro s h; cases h
  b := by intro _; rfl
  d := by intro _; rfl
  e := by intro m n l h; cases h
  c := by intro s ms h; cases h

theorem initMask_inv {st st' : St} (h0 : Inv0 st) (h : initMask st = .ok st') : Inv st' := by
  unfold initMask at h
  split at h
  · rename_i ms s hms hs
    split at h
    · cases h
    · cases h
      refine ⟨⟨?_, ?_, ?_, ?_⟩, ?_⟩
      · exact h0.a
      · intro hn; simp [hms] at hn
      · exact h0.d
      · exact h0.e
      · intro s' ms' hs' hms'
        simp only at hs' hms'
        rw [hs] at hs'; rw [hms] at hms'
        cases hs'; cases hms'; rfl
  · rename_i hno
    cases h
    refine ⟨h0, ?_⟩
    intro s ms hs hms
    exact absurd hs (fun hs => hno ms s hms hs)

theorem setInput_inv {st st' : St} {s : List ℕ} (hi : Inv st) (h : setInput st s = .ok st') :
    Inv st' ∧ st'.input = some s := by
  unfold setInput at h
  split at h
  · cases h
  · rename_i m hm
    split at h
    · cases h
    · rename_i hlen
      have hlen' : m = s.length := by simpa using hlen
      have h0 : Inv0 { st with input := some s } := by
        refine ⟨?_, hi.b, hi.d, hi.e⟩
        intro s' hs'
        simp only [Option.some.injEq] at hs'
        subst hs'
        simp [hm, hlen']
      refine ⟨initMask_inv h0 h, ?_⟩
      unfold initMask at h
      split at h
      · split at h
        · cases h
        · cases h; rfl
      · cases h; rfl

theorem clearMask_inv {st : St} (hi : Inv0 st) : Inv (clearMask st) := by
  refine ⟨⟨hi.a, ?_, ?_, ?_⟩, ?_⟩
  · intro _; rfl
  · intro _; rfl
  · intro m n l _ h; cases h
  · intro s ms _ hms; cases hms

theorem mem_of_cacheGet {c : List (ℕ × List (List ℕ))} {n : ℕ} {l : List (List ℕ)}
    (h : cacheGet c n = some l) : (n, l) ∈ c := by
  unfold cacheGet at h
  rw [Option.map_eq_some_iff] at h
  obtain ⟨p, hp, rfl⟩ := h
  have hmem := List.mem_of_find?_eq_some hp
  have hk := List.find?_some hp
  have : p.1 = n := by simpa using hk
  rw [← this]
  exact hmem

theorem getIter_inv {st : St} {s : List ℕ} (hi : Inv st) (hs : st.input = some s) :
    Inv (getIter st s).1 ∧ (getIter st s).1.input = some s ∧ (getIter st s).2 = spec st s ∧
      spec (getIter st s).1 s = spec st s := by
  have hc : st.circ = some s.length := hi.a s hs
  unfold getIter
  split
  · rename_i l hl
    refine ⟨hi, hs, ?_, rfl⟩
    exact hi.e _ _ _ hc (mem_of_cacheGet hl)
  · have hmask : st.mask = st.masksStr.map fun ms => ⟨s.length, effN st.maskN s.sum, ms⟩ := by
      cases hms : st.masksStr with
      | none => simp [hi.b hms]
      | some ms => simp [hi.c s ms hs hms]
    refine ⟨⟨⟨hi.a, hi.b, ?_, ?_⟩, hi.c⟩, hs, ?_, rfl⟩
    · intro hn; simp [hc] at hn
    · intro m n l hm hmem
      simp only [List.mem_cons, Prod.mk.injEq] at hmem
      rcases hmem with ⟨rfl, rfl⟩ | hmem
      · simp only at hm
        rw [hc] at hm; cases hm
        simp only
        rw [hmask]
      · exact hi.e m n l hm hmem
    · simp only [spec]
      rw [hmask]

theorem bulk_sound {st st' : St} {so : Option (List ℕ)} {out : Option (List (List ℕ))} (hi : Inv st)
    (h : step st (.bulk so) = .ok (st', out)) :
    Inv st' ∧ ∃ s, st'.input = some s ∧ out = some (spec st' s) ∧ (∀ s0, so = some s0 → s = s0) := by
  cases so with
  | none =>
    simp only [step, bind, Except.bind, pure, Except.pure] at h
    split at h
    · cases h
    · rename_i s hs
      cases h
      obtain ⟨h1, h2, h3, h4⟩ := getIter_inv hi hs
      exact ⟨h1, s, h2, by rw [h3, h4], by intro s0 h; cases h⟩
  | some s0 =>
    simp only [step, bind, Except.bind, pure, Except.pure] at h
    split at h
    · cases h
    · rename_i st1 h1
      obtain ⟨hi1, hin⟩ := setInput_inv hi h1
      rw [hin] at h
      simp only at h
      cases h
      obtain ⟨g1, g2, g3, g4⟩ := getIter_inv hi1 hin
      exact ⟨g1, s0, g2, by rw [g3, g4], by intro s1 h; cases h; rfl⟩

theorem step_inv {st st' : St} {op : Op} {out : Option (List (List ℕ))} (hi : Inv st)
    (h : step st op = .ok (st', out)) : Inv st' := by
  cases op with
  | setCircuit m =>
    simp only [step] at h
    cases h
    refine ⟨⟨?_, ?_, ?_, ?_⟩, ?_⟩
    · intro s hs; cases hs
    · split
      · exact hi.b
      · exact hi.b
    · intro hn; cases hn
    · intro m' n l hm hmem
      split at hmem
      · cases hmem
      · rename_i hnone
        have : st.circ = none := by simpa using hnone
        rw [hi.d this] at hmem; cases hmem
    · intro s ms hs; cases hs
  | setInput s =>
    simp only [step, bind, Except.bind] at h
    split at h
    · cases h
    · rename_i st1 h1
      cases h
      exact (setInput_inv hi h1).1
  | setMask masks n =>
    simp only [step] at h
    split at h
    · cases h
    · split at h
      · cases h
      · simp only [bind, Except.bind] at h
        split at h
        · cases h
        · rename_i st2 h2
          cases h
          refine initMask_inv ?_ h2
          have hc := (clearMask_inv hi.toInv0).toInv0
          refine ⟨hc.a, ?_, hc.d, ?_⟩
          · intro hn; cases hn
          · intro m' n' l _ hmem; cases hmem
  | clearMask =>
    simp only [step] at h
    cases h
    exact clearMask_inv hi.toInv0
  | bulk so =>
    exact (bulk_sound hi h).1

theorem reachable_inv {st : St} (h : Reachable st) : Inv st := by
  induction h with
  | init => exact inv_init
  | step _ hs ih => exact step_inv ih hs

end PM.C02.Sess
