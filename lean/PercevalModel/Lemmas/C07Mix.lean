/-
  C07 (extension 5) — helper lemmas for the noisy source together with the selection of the loss layer
  (`Model/C07Mix.lean`).
-/
import PercevalModel.Model.C07Mix
import PercevalModel.Lemmas.C07Det

namespace PM.C07
open PM.SimSpec PM.Dist

theorem postprocess_mix (M : ℕ) (l : List (ℚ × D)) :
    postprocess M (mix l) = mix (l.map fun p => (p.1, postprocess M p.2)) := by
  induction l with
  | nil => simp [mix, postprocess, mapKeys]
  | cons p r ih =>
    obtain ⟨w, d⟩ := p
    simp only [mix, List.map_cons, postprocess_append, ih]
    congr 1
    unfold postprocess
    rw [mapKeys_scale]

theorem postprocess_enlargedMix {N : ℕ} (U : Matrix (Fin N) (Fin N) GQ) (M : ℕ) (src : List (ℚ × List ℕ)) :
    postprocess M (enlargedMix U M src) = lossProbsMix U M src := by
  unfold enlargedMix lossProbsMix
  rw [postprocess_mix, List.map_map]
  rfl

theorem enlargedMix_cons {N : ℕ} (U : Matrix (Fin N) (Fin N) GQ) (M : ℕ) (ws : ℚ × List ℕ)
    (r : List (ℚ × List ℕ)) :
    enlargedMix U M (ws :: r) = scale ws.1 (fullDist U (prepareInput M N ws.2)) ++ enlargedMix U M r := by
  simp [enlargedMix, mix]

theorem restrict_append (ok : Fock → Bool) (a b : D) : restrict ok (a ++ b) = restrict ok a ++ restrict ok b := by
  simp [restrict]

/-- the inputs dropped by the forwarded filter contribute nothing the outer filter accepts -/
theorem restrict_physOk_kept {N : ℕ} (σ : Sel) (U : Matrix (Fin N) (Fin N) GQ) (M : ℕ)
    (src : List (ℚ × List ℕ)) :
    restrict (physOk σ.cond) (postprocess M (enlargedMix U M (src.filter (passes σ)))) =
      restrict (physOk σ.cond) (postprocess M (enlargedMix U M src)) := by
  induction src with
  | nil => rfl
  | cons ws r ih =>
    by_cases h : passes σ ws = true
    · rw [List.filter_cons_of_pos h, enlargedMix_cons, enlargedMix_cons, postprocess_append, postprocess_append,
        restrict_append, restrict_append, ih]
    · rw [List.filter_cons_of_neg h, enlargedMix_cons, postprocess_append, restrict_append, ih]
      have hlt : ws.2.sum < σ.minDet := by
        simp only [passes, decide_eq_true_eq] at h
        omega
      have h0 := restrict_physOk_nil σ U M ws.2 hlt
      have : restrict (physOk σ.cond) (postprocess M (scale ws.1 (fullDist U (prepareInput M N ws.2)))) = [] := by
        unfold postprocess
        rw [mapKeys_scale, restrict_scale]
        unfold lossProbs postprocess at h0
        rw [h0]
        rfl
      rw [this, List.nil_append]

theorem nonneg_scale (c : ℚ) (hc : 0 ≤ c) (d : D) (h : Nonneg d) : Nonneg (scale c d) := by
  intro p hp
  simp only [scale, List.mem_map] at hp
  obtain ⟨q, hq, rfl⟩ := hp
  exact mul_nonneg hc (h q hq)

theorem nonneg_enlargedMix {N : ℕ} (U : Matrix (Fin N) (Fin N) GQ) (M : ℕ) (src : List (ℚ × List ℕ))
    (h : ∀ ws ∈ src, (0 : ℚ) ≤ ws.1) : Nonneg (enlargedMix U M src) := by
  induction src with
  | nil => intro p hp; simp [enlargedMix, mix] at hp
  | cons ws r ih =>
    rw [enlargedMix_cons]
    intro p hp
    rcases List.mem_append.1 hp with hp | hp
    · exact nonneg_scale _ (h ws List.mem_cons_self) _ (nonneg_fullDist _ _) p hp
    · exact ih (fun q hq => h q (List.mem_cons_of_mem _ hq)) p hp

theorem mass_enlargedMix {N : ℕ} (U : Matrix (Fin N) (Fin N) GQ) (M : ℕ) (src : List (ℚ × List ℕ))
    (h : ∀ ws ∈ src, mass (fullDist U (prepareInput M N ws.2)) = 1) :
    mass (enlargedMix U M src) = (src.map (·.1)).sum := by
  induction src with
  | nil => simp [enlargedMix, mix]
  | cons ws r ih =>
    rw [enlargedMix_cons, mass_append, mass_scale, h ws List.mem_cons_self,
      ih fun q hq => h q (List.mem_cons_of_mem _ hq)]
    simp

theorem sum_filter_split (p : (ℚ × List ℕ) → Bool) (l : List (ℚ × List ℕ)) :
    ((l.filter p).map (·.1)).sum + ((l.filter fun x => !p x).map (·.1)).sum = (l.map (·.1)).sum := by
  induction l with
  | nil => simp
  | cons a r ih =>
    by_cases h : p a = true
    · simp only [List.filter_cons, h, ↓reduceIte, Bool.not_true, Bool.false_eq_true, List.map_cons,
        List.sum_cons]
      linarith
    · have h' : p a = false := by simpa using h
      simp only [List.filter_cons, h', Bool.false_eq_true, ↓reduceIte, Bool.not_false, List.map_cons,
        List.sum_cons]
      linarith

end PM.C07
