/-
  C06 — from generating-function identities to individual probabilities.

  `law_of_gf`: two finitely supported (list) distributions whose weighted count generating functions
  agree at every rational argument give every value of the count the same weight.  (The generating
  functions are polynomials; a polynomial over the infinite field ℚ is determined by its values —
  `Polynomial.funext`; the weight of `{count = k}` is the `k`-th coefficient.)  Two- and three-variable
  versions by iterating it.  Then: `iid`, the law of `n` independent draws, and its product formula.
-/
import PercevalModel.Lemmas.C06
import PercevalModel.Lemmas.C06Fresh
import Mathlib.Algebra.Polynomial.Roots
import Mathlib.Algebra.CharZero.Infinite
import Mathlib.Algebra.BigOperators.Intervals

namespace PM.C06
open Polynomial

section
variable {α β : Type}

theorem E_congr {g g' : α → ℚ} (h : ∀ x, g x = g' x) (d : Dist α) : E g d = E g' d := by
  rw [funext h]

/-- generating polynomial of a weighted count under a list distribution -/
noncomputable def gpoly (w : α → ℚ) (c : α → ℕ) (d : Dist α) : ℚ[X] :=
  (d.map fun e => Polynomial.monomial (c e.1) (e.2 * w e.1)).sum

theorem gpoly_cons (w : α → ℚ) (c : α → ℕ) (e : α × ℚ) (d : Dist α) :
    gpoly w c (e :: d) = Polynomial.monomial (c e.1) (e.2 * w e.1) + gpoly w c d := by
  simp [gpoly]

theorem gpoly_eval (w : α → ℚ) (c : α → ℕ) (d : Dist α) (y : ℚ) :
    (gpoly w c d).eval y = E (fun x => w x * y ^ c x) d := by
  induction d with
  | nil => simp [gpoly]
  | cons e d ih => rw [gpoly_cons, eval_add, ih, eval_monomial, E_cons]; ring

theorem gpoly_coeff (w : α → ℚ) (c : α → ℕ) (d : Dist α) (k : ℕ) :
    (gpoly w c d).coeff k = E (fun x => if c x = k then w x else 0) d := by
  induction d with
  | nil => simp [gpoly]
  | cons e d ih =>
    rw [gpoly_cons, coeff_add, ih, coeff_monomial, E_cons]
    split <;> simp

/-- Equal generating functions (at all rational arguments) ⇒ equal weights of every value of the
count.  `w`, `w'` are arbitrary weights (take `1` for plain probabilities). -/
theorem law_of_gf (w : α → ℚ) (c : α → ℕ) (d : Dist α) (w' : β → ℚ) (c' : β → ℕ) (d' : Dist β)
    (h : ∀ y : ℚ, E (fun x => w x * y ^ c x) d = E (fun x => w' x * y ^ c' x) d') (k : ℕ) :
    E (fun x => if c x = k then w x else 0) d = E (fun x => if c' x = k then w' x else 0) d' := by
  have : gpoly w c d = gpoly w' c' d' := Polynomial.funext fun y => by
    rw [gpoly_eval, gpoly_eval, h]
  rw [← gpoly_coeff, ← gpoly_coeff, this]

/-- two counts -/
theorem law_of_gf2 (w : α → ℚ) (c₁ c₂ : α → ℕ) (d : Dist α) (w' : β → ℚ) (c₁' c₂' : β → ℕ)
    (d' : Dist β)
    (h : ∀ a b : ℚ, E (fun x => w x * (a ^ c₁ x * b ^ c₂ x)) d =
      E (fun x => w' x * (a ^ c₁' x * b ^ c₂' x)) d') (i j : ℕ) :
    E (fun x => if c₁ x = i ∧ c₂ x = j then w x else 0) d =
      E (fun x => if c₁' x = i ∧ c₂' x = j then w' x else 0) d' := by
  have h1 : ∀ b : ℚ, E (fun x => (if c₁ x = i then w x else 0) * b ^ c₂ x) d =
      E (fun x => (if c₁' x = i then w' x else 0) * b ^ c₂' x) d' := by
    intro b
    have h0 := law_of_gf (fun x => w x * b ^ c₂ x) c₁ d (fun x => w' x * b ^ c₂' x) c₁' d'
      (fun a => by
        rw [E_congr (g' := fun x => w x * (a ^ c₁ x * b ^ c₂ x)) (fun x => by ring),
          E_congr (g' := fun x => w' x * (a ^ c₁' x * b ^ c₂' x)) (fun x => by ring)]
        exact h a b) i
    rw [E_congr (g' := fun x => if c₁ x = i then w x * b ^ c₂ x else 0) (fun x => by split <;> simp),
      E_congr (g' := fun x => if c₁' x = i then w' x * b ^ c₂' x else 0)
        (fun x => by split <;> simp)]
    exact h0
  have h2 := law_of_gf _ c₂ d _ c₂' d' h1 j
  rw [E_congr (g' := fun x => if c₂ x = j then (if c₁ x = i then w x else 0) else 0)
      (fun x => by by_cases a1 : c₁ x = i <;> by_cases a2 : c₂ x = j <;> simp [a1, a2]),
    E_congr (g' := fun x => if c₂' x = j then (if c₁' x = i then w' x else 0) else 0)
      (fun x => by by_cases a1 : c₁' x = i <;> by_cases a2 : c₂' x = j <;> simp [a1, a2])]
  exact h2

/-- three counts -/
theorem law_of_gf3 (c₁ c₂ c₃ : α → ℕ) (d : Dist α) (c₁' c₂' c₃' : β → ℕ) (d' : Dist β)
    (h : ∀ u v w : ℚ, E (fun x => u ^ c₁ x * v ^ c₂ x * w ^ c₃ x) d =
      E (fun x => u ^ c₁' x * v ^ c₂' x * w ^ c₃' x) d') (i j k : ℕ) :
    E (fun x => if c₁ x = i ∧ c₂ x = j ∧ c₃ x = k then 1 else 0) d =
      E (fun x => if c₁' x = i ∧ c₂' x = j ∧ c₃' x = k then 1 else 0) d' := by
  have h1 : ∀ v w : ℚ, E (fun x => (if c₁ x = i then 1 else 0) * (v ^ c₂ x * w ^ c₃ x)) d =
      E (fun x => (if c₁' x = i then 1 else 0) * (v ^ c₂' x * w ^ c₃' x)) d' := by
    intro v w
    have h0 := law_of_gf (fun x => v ^ c₂ x * w ^ c₃ x) c₁ d (fun x => v ^ c₂' x * w ^ c₃' x) c₁' d'
      (fun u => by
        rw [E_congr (g' := fun x => u ^ c₁ x * v ^ c₂ x * w ^ c₃ x) (fun x => by ring),
          E_congr (g' := fun x => u ^ c₁' x * v ^ c₂' x * w ^ c₃' x) (fun x => by ring)]
        exact h u v w) i
    rw [E_congr (g' := fun x => if c₁ x = i then v ^ c₂ x * w ^ c₃ x else 0)
        (fun x => by split <;> simp),
      E_congr (g' := fun x => if c₁' x = i then v ^ c₂' x * w ^ c₃' x else 0)
        (fun x => by split <;> simp)]
    exact h0
  have h2 := law_of_gf2 _ c₂ c₃ d _ c₂' c₃' d' h1 j k
  rw [E_congr (g' := fun x => if c₂ x = j ∧ c₃ x = k then (if c₁ x = i then (1 : ℚ) else 0) else 0)
      (fun x => by
        by_cases a1 : c₁ x = i <;> by_cases a2 : c₂ x = j <;> by_cases a3 : c₃ x = k <;>
          simp [a1, a2, a3]),
    E_congr (g' := fun x => if c₂' x = j ∧ c₃' x = k then (if c₁' x = i then (1 : ℚ) else 0) else 0)
      (fun x => by
        by_cases a1 : c₁' x = i <;> by_cases a2 : c₂' x = j <;> by_cases a3 : c₃' x = k <;>
          simp [a1, a2, a3])]
  exact h2

/-! ### independent draws -/

/-- the law of `n` independent draws from `d` (as the list of the draws) -/
def iid (d : Dist α) : ℕ → Dist (List α)
  | 0 => [([], 1)]
  | n + 1 => d.flatMap fun e => (iid d n).map fun r => (e.1 :: r.1, e.2 * r.2)

/-- product formula: the expectation of a product of a function of each draw -/
theorem E_iid_prod (g : α → ℚ) (d : Dist α) (n : ℕ) :
    E (fun l => (l.map g).prod) (iid d n) = E g d ^ n := by
  induction n with
  | zero => simp [iid]
  | succ n ih =>
    simp only [iid, E_flatMap]
    have : ∀ e ∈ d, E (fun l => (l.map g).prod) ((iid d n).map fun r => (e.1 :: r.1, e.2 * r.2)) =
        (e.2 * g e.1) * E g d ^ n := by
      intro e _
      rw [← ih]
      generalize iid d n = D
      induction D with
      | nil => simp
      | cons r D ihD => simp only [List.map_cons, E_cons, ihD, List.prod_cons]; ring
    rw [List.map_congr_left this, List.sum_map_mul_right, pow_succ]
    show E g d * _ = _
    ring

theorem iid_NonNeg (d : Dist α) (hd : NonNeg d) (n : ℕ) : NonNeg (iid d n) := by
  induction n with
  | zero => intro e he; simp only [iid, List.mem_singleton] at he; subst he; exact zero_le_one
  | succ n ih =>
    intro x hx
    simp only [iid, List.mem_flatMap, List.mem_map] at hx
    obtain ⟨e, he, r, hr, rfl⟩ := hx
    exact mul_nonneg (hd e he) (ih r hr)

end
/-! ### the trinomial law of the photon number -/


/-- `m` of the `n` requested photons deliver at least one photon, `l` of those deliver two -/
def triTerm (z u v : ℚ) (n m l : ℕ) : ℚ :=
  (n.choose m : ℚ) * (m.choose l : ℚ) * z ^ (n - m) * u ^ (m - l) * v ^ l

/-- reference law of the number of photons delivered for `n` requested photons, each delivering
0 / 1 / 2 photons with weights `z / u / v` independently -/
def countRef (z u v : ℚ) (n : ℕ) : Dist ℕ :=
  (List.range (n + 1)).flatMap fun m => (List.range (m + 1)).map fun l => (m + l, triTerm z u v n m l)

theorem E_map_pair {α ι : Type} (g : α → ℚ) (l : List ι) (key : ι → α) (val : ι → ℚ) :
    E g (l.map fun i => (key i, val i)) = (l.map fun i => val i * g (key i)).sum := by
  simp [E, List.map_map, Function.comp_def]

theorem E_countRef (g : ℕ → ℚ) (z u v : ℚ) (n : ℕ) :
    E g (countRef z u v n) =
      ∑ m ∈ Finset.range (n + 1), ∑ l ∈ Finset.range (m + 1), triTerm z u v n m l * g (m + l) := by
  simp only [countRef, E_flatMap, E_map_pair, sum_list_range]

theorem E_countRef_gf (z u v y : ℚ) (n : ℕ) :
    E (fun k => y ^ k) (countRef z u v n) = (z + u * y + v * y ^ 2) ^ n := by
  rw [E_countRef, show z + u * y + v * y ^ 2 = (v * y ^ 2 + u * y) + z by ring, add_pow]
  refine Finset.sum_congr rfl fun m _ => ?_
  rw [add_pow, Finset.sum_mul, Finset.sum_mul]
  refine Finset.sum_congr rfl fun l hl => ?_
  have hl' : l ≤ m := Nat.lt_succ_iff.mp (Finset.mem_range.mp hl)
  rw [show m + l = 2 * l + (m - l) by omega, pow_add, pow_mul]
  unfold triTerm
  rw [mul_pow, mul_pow]
  ring

/-- explicit probability of `k` photons for `n` requested photons -/
def countCoeff (z u v : ℚ) (n k : ℕ) : ℚ :=
  ∑ l ∈ Finset.range (k / 2 + 1), triTerm z u v n (k - l) l

theorem triTerm_zero_of_lt (z u v : ℚ) {n m : ℕ} (l : ℕ) (h : n < m) : triTerm z u v n m l = 0 := by
  simp [triTerm, Nat.choose_eq_zero_of_lt h]

theorem countRef_point (z u v : ℚ) (n k : ℕ) :
    E (fun x => if x = k then 1 else 0) (countRef z u v n) = countCoeff z u v n k := by
  rw [E_countRef, countCoeff, Finset.sum_sigma']
  have e1 : ∀ x : (_ : ℕ) × ℕ, triTerm z u v n x.1 x.2 * (if x.1 + x.2 = k then (1 : ℚ) else 0) =
      if x.1 + x.2 = k then triTerm z u v n x.1 x.2 else 0 := by
    intro x; split <;> simp
  rw [Finset.sum_congr rfl fun x _ => e1 x, ← Finset.sum_filter]
  have e2 : ∀ l ∈ Finset.range (k / 2 + 1), triTerm z u v n (k - l) l =
      if k - l ≤ n then triTerm z u v n (k - l) l else 0 := by
    intro l _
    split
    · rfl
    · next h => exact triTerm_zero_of_lt z u v l (not_le.mp h)
  rw [Finset.sum_congr rfl e2, ← Finset.sum_filter]
  refine Finset.sum_nbij' (fun x => x.2) (fun l => ⟨k - l, l⟩) ?_ ?_ ?_ ?_ ?_
  · intro x hx
    simp only [Finset.mem_filter, Finset.mem_sigma, Finset.mem_range] at hx ⊢
    omega
  · intro l hl
    simp only [Finset.mem_filter, Finset.mem_sigma, Finset.mem_range] at hl ⊢
    omega
  · intro x hx
    simp only [Finset.mem_filter, Finset.mem_sigma, Finset.mem_range] at hx
    obtain ⟨a, b⟩ := x
    simp only at hx ⊢
    have : k - b = a := by omega
    rw [this]
  · intro l _; rfl
  · intro x hx
    simp only [Finset.mem_filter, Finset.mem_sigma, Finset.mem_range] at hx
    have : k - x.2 = x.1 := by omega
    rw [this]

theorem countCoeff_zero (z u v : ℚ) (n : ℕ) : countCoeff z u v n 0 = z ^ n := by
  simp [countCoeff, triTerm]

theorem countCoeff_one (z u v : ℚ) :
    countCoeff z u v 1 0 = z ∧ countCoeff z u v 1 1 = u ∧ countCoeff z u v 1 2 = v ∧
      ∀ k, 2 < k → countCoeff z u v 1 k = 0 := by
  refine ⟨by simp [countCoeff, triTerm], by simp [countCoeff, triTerm],
    by simp [countCoeff, triTerm, Finset.sum_range_succ], ?_⟩
  intro k hk
  unfold countCoeff
  apply Finset.sum_eq_zero
  intro l hl
  have hl' : l ≤ k / 2 := Nat.lt_succ_iff.mp (Finset.mem_range.mp hl)
  by_cases h1 : 1 < k - l
  · exact triTerm_zero_of_lt z u v l h1
  · have : k - l < l := by omega
    simp [triTerm, Nat.choose_eq_zero_of_lt this]

section
variable {α β : Type}

/-- plain-probability form of `law_of_gf` -/
theorem law_of_gf_count (c : α → ℕ) (d : Dist α) (c' : β → ℕ) (d' : Dist β)
    (h : ∀ y : ℚ, E (fun x => y ^ c x) d = E (fun x => y ^ c' x) d') (k : ℕ) :
    massP (fun x => decide (c x = k)) d = massP (fun x => decide (c' x = k)) d' := by
  have := law_of_gf (fun _ => 1) c d (fun _ => 1) c' d' (fun y => by simpa using h y) k
  simpa [massP] using this

theorem E_congr_mem {g g' : α → ℚ} (d : Dist α) (h : ∀ e ∈ d, g e.1 = g' e.1) : E g d = E g' d := by
  induction d with
  | nil => rfl
  | cons e d ih =>
    rw [E_cons, E_cons, h e (by simp), ih fun x hx => h x (by simp [hx])]
end

/-! ### photon-number laws as individual probabilities -/

theorem poly_eq (P : Params) (y : ℚ) : poly P y = p0 P + pi1 P * y + pi2 P * y ^ 2 := rfl

/-- one mode: `probability_distribution(n)` delivers `k` photons with probability `countCoeff` -/
theorem probDist_count_point {P : Params} (hP : P.WF) (n t k : ℕ) :
    massP (fun m => decide (m.length = k)) (probDist P 0 n t) =
      countCoeff (p0 P) (pi1 P) (pi2 P) n k := by
  rw [← countRef_point]
  have := law_of_gf_count (fun m : Mode => m.length) (probDist P 0 n t) (fun x : ℕ => x)
    (countRef (p0 P) (pi1 P) (pi2 P) n)
    (fun y => by rw [cnt_probDist hP, E_countRef_gf, poly_eq]) k
  simpa [massP] using this



/-! ### the states of the mixture have one entry per mode -/

theorem dfs_append_length (θ : ℚ) (ds : List (Dist State))
    (h : ∀ d ∈ ds, ∀ e ∈ d, e.1.length = 1) (s : State) (p : ℚ) :
    ∀ x ∈ dfs θ (fun s e => s ++ e) ds s p, x.1.length = s.length + ds.length := by
  induction ds generalizing s p with
  | nil => intro x hx; simp only [dfs, List.mem_singleton] at hx; subst hx; simp
  | cons d ds ih =>
    intro x hx
    simp only [dfs, List.mem_flatMap] at hx
    obtain ⟨e, he, hx⟩ := hx
    split at hx
    · simp at hx
    · have := ih (fun d' hd' => h d' (by simp [hd'])) _ _ x hx
      rw [this, List.length_append, h d (by simp) e he, List.length_cons]
      omega

theorem modeDists_length (P : Params) (θ : ℚ) (ns : List ℕ) (t : ℕ) :
    (modeDists P θ ns t).length = ns.length := by
  induction ns generalizing t with
  | nil => rfl
  | cons n ns ih => simp [modeDists, ih]

theorem generateRaw_length (P : Params) (θ : ℚ) (ns : List ℕ) (t : ℕ) :
    ∀ x ∈ generateRaw P θ ns t, x.1.length = ns.length := by
  intro x hx
  unfold generateRaw at hx
  match ns, hx with
  | [], hx => simp [modeDists, ltpState] at hx
  | [n], hx =>
    simp only [modeDists, List.map_cons, List.map_nil, ltpState, lift, List.mem_map] at hx
    obtain ⟨y, _, rfl⟩ := hx
    rfl
  | n₁ :: n₂ :: ns, hx =>
    have hx' : x ∈ dfs θ (fun s e => s ++ e)
        (((modeDists P θ (n₁ :: n₂ :: ns) t).map lift).map (trim θ)) [] 1 := by
      simpa only [modeDists, List.map_cons, ltpState] using hx
    have := dfs_append_length θ _ (fun d hd e he => by
      simp only [List.mem_map] at hd
      obtain ⟨d', ⟨d'', _, rfl⟩, rfl⟩ := hd
      have he' := mem_trim he
      simp only [lift, List.mem_map] at he'
      obtain ⟨y, _, rfl⟩ := he'
      rfl) [] 1 x hx'
    rw [this]
    simp [modeDists_length]

theorem generateAt_length (P : Params) (θ : ℚ) (ns : List ℕ) (t : ℕ) :
    ∀ x ∈ generateAt P θ ns t, x.1.length = ns.length := by
  intro x hx
  obtain ⟨y, hy, hk⟩ := mem_normalize_key _ x hx
  rw [← hk]
  exact generateRaw_length P θ ns t y hy

/-! ### joint law of the per-mode photon counts -/

/-- indicator test functions of "mode `i` holds `ks[i]` photons" -/
def cntW (ks : List ℕ) : ℕ → Mode → ℚ := fun i m => if ks[i]? = some m.length then 1 else 0

theorem W_shift (fs : ℕ → Mode → ℚ) (k : ℕ) (s : State) :
    W fs (k + 1) s = W (fun i => fs (i + 1)) k s := by
  induction s generalizing k with
  | nil => rfl
  | cons m s ih => simp only [W, ih]

theorem prodFrom_shift (fs : ℕ → Mode → ℚ) (k : ℕ) (ds : List (Dist Mode)) :
    prodFrom fs (k + 1) ds = prodFrom (fun i => fs (i + 1)) k ds := by
  induction ds generalizing k with
  | nil => rfl
  | cons d ds ih => simp only [prodFrom, ih]

theorem cntW_succ (k : ℕ) (ks : List ℕ) : (fun i => cntW (k :: ks) (i + 1)) = cntW ks := by
  funext i m; simp [cntW]

theorem W_cntW (ks : List ℕ) (s : State) (h : s.length = ks.length) :
    W (cntW ks) 0 s = if s.map List.length = ks then 1 else 0 := by
  induction s generalizing ks with
  | nil =>
    cases ks with
    | nil => simp [W]
    | cons k ks => simp at h
  | cons m s ih =>
    cases ks with
    | nil => simp at h
    | cons k ks =>
      simp only [List.length_cons, Nat.add_right_cancel_iff] at h
      simp only [W, zero_add, W_shift, cntW_succ, ih ks h]
      by_cases h1 : k = m.length
      · subst h1
        by_cases h2 : s.map List.length = ks <;> simp [cntW, h2]
      · have h1' : ¬ m.length = k := fun e => h1 e.symm
        simp [cntW, h1, h1']

theorem prodFrom_cntW {P : Params} (hP : P.WF) (ns ks : List ℕ) (h : ks.length = ns.length) (t : ℕ) :
    prodFrom (cntW ks) 0 (modeDists P 0 ns t) =
      (List.zipWith (countCoeff (p0 P) (pi1 P) (pi2 P)) ns ks).prod := by
  induction ns generalizing ks t with
  | nil => simp [modeDists, prodFrom]
  | cons n ns ih =>
    cases ks with
    | nil => simp at h
    | cons k ks =>
      simp only [List.length_cons, Nat.add_right_cancel_iff] at h
      simp only [modeDists, prodFrom, zero_add, prodFrom_shift, cntW_succ, ih ks h,
        List.zipWith_cons_cons, List.prod_cons]
      congr 1
      rw [← probDist_count_point hP n t k, massP]
      apply E_congr
      intro m
      simp [cntW, eq_comm]

/-- the joint law of the photon counts per mode is the product of the trinomial laws -/
theorem generateAt_counts_point {P : Params} (hP : P.WF) {ns : List ℕ} (hne : ns ≠ []) (t : ℕ)
    (ks : List ℕ) :
    massP (fun s => decide (s.map List.length = ks)) (generateAt P 0 ns t) =
      if ks.length = ns.length then (List.zipWith (countCoeff (p0 P) (pi1 P) (pi2 P)) ns ks).prod
      else 0 := by
  by_cases h : ks.length = ns.length
  · rw [if_pos h, ← prodFrom_cntW hP ns ks h t, ← E_generateRaw_zero P _ hne,
      ← E_generateAt_zero hP _ hne, massP]
    apply E_congr_mem
    intro e he
    rw [W_cntW ks e.1 (by rw [generateAt_length P 0 ns t e he, h])]
    simp
  · rw [if_neg h, massP]
    rw [E_congr_mem (g' := fun _ => 0) _ (fun e he => by
      have hl := generateAt_length P 0 ns t e he
      have : e.1.map List.length ≠ ks := fun hk => h (by rw [← hk, List.length_map, hl])
      simp [this])]
    simp [E]

/-- law of the total photon number, as individual probabilities -/
theorem generateAt_photons_point {P : Params} (hP : P.WF) {ns : List ℕ} (hne : ns ≠ []) (t k : ℕ) :
    massP (fun s => decide (photons s = k)) (generateAt P 0 ns t) =
      countCoeff (p0 P) (pi1 P) (pi2 P) ns.sum k := by
  rw [← countRef_point]
  have := law_of_gf_count photons (generateAt P 0 ns t) (fun x : ℕ => x)
    (countRef (p0 P) (pi1 P) (pi2 P) ns.sum)
    (fun y => by
      rw [E_countRef_gf, ← poly_eq, ← gfFrom_const P y 0 ns, ← prodFrom_count hP,
        ← E_generateRaw_zero P _ hne, ← E_generateAt_zero hP _ hne]
      apply E_congr
      intro s
      rw [W_count_const]) k
  simpa [massP] using this



/-! ### the tag law as individual probabilities -/

/-- number of photons of the state that carry the common tag (or no annotation) -/
def nCommon (s : State) : ℕ := (s.flatten.filter commonTag).length
/-- number of photons of the state that carry a fresh tag -/
def nFresh (s : State) : ℕ := (freshTags s.flatten).length

theorem tagProd_counts (a b : ℚ) (m : Mode) :
    tagProd (tagW a b) m = a ^ (m.filter commonTag).length * b ^ (freshTags m).length := by
  induction m with
  | nil => simp [tagProd, freshTags]
  | cons tg m ih =>
    have : tagProd (tagW a b) (tg :: m) = tagW a b tg * tagProd (tagW a b) m := by simp [tagProd]
    rw [this, ih]
    rcases tg with _ | _ | k <;> simp [tagW, commonTag, freshTags, List.filter_cons, pow_succ] <;> ring

theorem W_tag_counts (a b : ℚ) (k : ℕ) (s : State) :
    W (fun _ => tagProd (tagW a b)) k s = a ^ nCommon s * b ^ nFresh s := by
  induction s generalizing k with
  | nil => simp [W, nCommon, nFresh, freshTags]
  | cons m s ih =>
    simp only [W, ih, tagProd_counts, nCommon, nFresh, freshTags, List.flatten_cons,
      List.filter_append, List.length_append, pow_add]
    ring

/-- a photon that survives with probability `η`; `d` is the law of the class of its tag
(`(1, 0)` = common, `(0, 1)` = fresh) -/
def survive (η : ℚ) (d : Dist (ℕ × ℕ)) : Dist (ℕ × ℕ) :=
  ((0, 0), 1 - η) :: d.map fun e => (e.1, η * e.2)

/-- two independent photons: the classes add up -/
def convPair (d₁ d₂ : Dist (ℕ × ℕ)) : Dist (ℕ × ℕ) :=
  d₁.flatMap fun e => d₂.map fun f => ((e.1.1 + f.1.1, e.1.2 + f.1.2), e.2 * f.2)

def scaleD {α : Type} (c : ℚ) (d : Dist α) : Dist α := d.map fun e => (e.1, c * e.2)

/-- the signal photon carries the common tag with probability `r = √I` -/
def sigClass (P : Params) : Dist (ℕ × ℕ) := [((1, 0), P.r), ((0, 1), 1 - P.r)]
/-- the extra photon is fresh ("distinguishable") or common ("indistinguishable") -/
def extraClass (P : Params) : Dist (ℕ × ℕ) := [(if P.dm then (0, 1) else (1, 0), 1)]

/-- the *physical description* of one requested photon as the law of (number of common-tag photons,
number of fresh-tag photons) it delivers: nothing emitted `1 − β`; one photon (the signal) `p1`; two
(signal + extra) `p2`; each emitted photon survives independently with probability `η`. -/
def physOne (P : Params) : Dist (ℕ × ℕ) :=
  ((0, 0), 1 - P.beta) ::
    (scaleD (p1 P) (survive P.eta (sigClass P)) ++
      scaleD (p2 P) (convPair (survive P.eta (sigClass P)) (survive P.eta (extraClass P))))

theorem physOne_gf (P : Params) (a b : ℚ) :
    E (fun x => a ^ x.1 * b ^ x.2) (physOne P) = tagGF P a b := by
  unfold physOne tagGF sigS
  by_cases hdm : P.dm = true <;>
    simp [hdm, scaleD, survive, convPair, sigClass, extraClass, E, E_append] <;> ring

/-- what `_events_to_samples` does with one event of the table: "signal alone" → one photon, common with
probability `r`; "g2 alone" → one photon, fresh or common according to the model; "signal + g2" → both;
nothing otherwise. -/
def catTag (P : Params) : Dist (ℕ × ℕ) :=
  scaleD (pSignal P) (sigClass P) ++ scaleD (pG2 P) (extraClass P) ++
    scaleD (pDuo P) (convPair (sigClass P) (extraClass P)) ++ [((0, 0), pNone P)]

theorem catTag_gf (P : Params) (a b : ℚ) :
    E (fun x => a ^ x.1 * b ^ x.2) (catTag P) = tagGF P a b := by
  unfold catTag tagGF sigS
  by_cases hdm : P.dm = true <;>
    simp [hdm, scaleD, convPair, sigClass, extraClass, E, E_append, pSignal, pG2, pDuo, pNone,
      p11, p21, p22, p1] <;> ring

theorem pair_prod (a b : ℚ) (l : List (ℕ × ℕ)) :
    (l.map fun x => a ^ x.1 * b ^ x.2).prod =
      a ^ (l.map Prod.fst).sum * b ^ (l.map Prod.snd).sum := by
  induction l with
  | nil => simp
  | cons x l ih => simp only [List.map_cons, List.prod_cons, List.sum_cons, ih, pow_add]; ring

/-- Any one-photon class law with generating function `tagGF` gives, by `N` independent draws, the
joint law of (common, fresh) photon numbers of the generated mixture. -/
theorem generateAt_tags_point {P : Params} (hP : P.WF) {ns : List ℕ} (hne : ns ≠ []) (t : ℕ)
    (ref : Dist (ℕ × ℕ)) (href : ∀ a b : ℚ, E (fun x => a ^ x.1 * b ^ x.2) ref = tagGF P a b)
    (u v : ℕ) :
    massP (fun s => decide (nCommon s = u ∧ nFresh s = v)) (generateAt P 0 ns t) =
      massP (fun l => decide ((l.map Prod.fst).sum = u ∧ (l.map Prod.snd).sum = v))
        (iid ref ns.sum) := by
  have := law_of_gf2 (fun _ => 1) nCommon nFresh (generateAt P 0 ns t) (fun _ => 1)
    (fun l : List (ℕ × ℕ) => (l.map Prod.fst).sum) (fun l => (l.map Prod.snd).sum) (iid ref ns.sum)
    (fun a b => by
      simp only [one_mul]
      rw [E_congr (g' := fun l => (l.map fun x => a ^ x.1 * b ^ x.2).prod)
        (fun l => (pair_prod a b l).symm), E_iid_prod, href, ← prodFrom_tag hP a b 0 ns t,
        ← E_generateRaw_zero P _ hne, ← E_generateAt_zero hP _ hne]
      apply E_congr
      intro s
      rw [W_tag_counts]) u v
  simpa [massP] using this

end PM.C06
