/-
  C11 — `Circuit.copy()` on component *objects* (the reference model of `Model/C11.lean` §2).

  `Circuit.copy()` is `nc._components = []; for r, c in self._components: nc.add(r, c.copy())`:
  every occurrence of a component gets a fresh object.  Original and copy are held here in ONE heap of
  leaf objects (the `store`), a circuit being its list of `(first port, object index)`.
  `copyItems store items` appends one fresh object per occurrence to the heap and returns the new heap
  and the item list of the copy.

  On trees (`Cmp`, values without identity) a copy is the identity, there is nothing to prove.
-/
import PercevalModel.Lemmas.C11

set_option linter.unusedSimpArgs false
set_option linter.unusedSectionVars false

open Matrix PM
namespace PM.C11
variable {R : Type}

/-- `Circuit.copy()`: the heap after the copy, and the component list of the copy -/
def copyItems (store : List (Leaf R)) (items : List (ℕ × ℕ)) : List (Leaf R) × List (ℕ × ℕ) :=
  (store ++ items.map (fun it => store.getD it.2 (.barrier 0)),
   items.zipIdx.map (fun p => (p.1.1, store.length + p.2)))

/-- the copy as a circuit over the heap after the copy -/
def RefCirc.copy (rc : RefCirc R) : RefCirc R :=
  { m := rc.m, store := (copyItems rc.store rc.items).1, items := (copyItems rc.store rc.items).2 }

/-- the original circuit seen in another state of the heap -/
def RefCirc.withStore (rc : RefCirc R) (st : List (Leaf R)) : RefCirc R :=
  { m := rc.m, store := st, items := rc.items }

/-- the circuit read through two heaps that hold the same objects where it looks -/
theorem build_congr (st st' : List (Leaf R)) : (items : List (ℕ × ℕ)) →
    (∀ it ∈ items, st'.getD it.2 (.barrier 0) = st.getD it.2 (.barrier 0)) →
    RefCirc.build st' items = RefCirc.build st items
  | [], _ => rfl
  | it :: rest, h => by
    have h1 := h it (by simp)
    have ih := build_congr st st' rest (fun q hq => h q (by simp [hq]))
    simp only [RefCirc.build, List.foldr_cons] at *
    rw [ih, h1]

/-- general form: item lists with the same ports whose references denote equal objects -/
theorem build_congr2 (st st' : List (Leaf R)) : (a b : List (ℕ × ℕ)) → a.length = b.length →
    (∀ i (ha : i < a.length) (hb : i < b.length), a[i].1 = b[i].1 ∧
      st'.getD b[i].2 (.barrier 0) = st.getD a[i].2 (.barrier 0)) →
    RefCirc.build st' b = RefCirc.build st a
  | [], [], _, _ => rfl
  | [], _ :: _, h, _ => by simp at h
  | _ :: _, [], h, _ => by simp at h
  | x :: xs, y :: ys, hl, h => by
    have h0 := h 0 (by simp) (by simp)
    simp only [List.getElem_cons_zero] at h0
    have ih := build_congr2 st st' xs ys (by simpa using hl) (fun i ha hb => by
      have := h (i + 1) (by simp; omega) (by simp; omega)
      simpa using this)
    simp only [RefCirc.build, List.foldr_cons] at *
    rw [ih, h0.1, h0.2]

theorem copyItems_length (store : List (Leaf R)) (items : List (ℕ × ℕ)) :
    (copyItems store items).2.length = items.length := by simp [copyItems]

theorem copyItems_getElem (store : List (Leaf R)) (items : List (ℕ × ℕ)) (i : ℕ)
    (h : i < items.length) (h' : i < (copyItems store items).2.length) :
    (copyItems store items).2[i] = (items[i].1, store.length + i) := by
  simp [copyItems]

/-- every reference of the copy is a fresh object -/
theorem copyItems_fresh (store : List (Leaf R)) (items : List (ℕ × ℕ)) :
    ∀ it ∈ (copyItems store items).2,
      store.length ≤ it.2 ∧ it.2 < (copyItems store items).1.length := by
  intro it hit
  obtain ⟨i, hi, rfl⟩ := List.getElem_of_mem hit
  have hi' : i < items.length := by rw [copyItems_length] at hi; exact hi
  rw [copyItems_getElem store items i hi' hi]
  simp only [copyItems, List.length_append, List.length_map]
  omega

/-- no object is held twice by the copy (`c.copy()` is called per occurrence) -/
theorem copyItems_nodup (store : List (Leaf R)) (items : List (ℕ × ℕ)) :
    ((copyItems store items).2.map Prod.snd).Nodup := by
  have : (copyItems store items).2.map Prod.snd =
      (List.range items.length).map (fun i => store.length + i) := by
    apply List.ext_getElem
    · simp [copyItems]
    · intro i h1 h2
      simp [copyItems]
  rw [this]
  exact List.Nodup.map_on (fun x _ y _ h => by omega) List.nodup_range

/-- the fresh object of occurrence `i` is equal (as a value) to the object it was copied from -/
theorem copyItems_store_getD (store : List (Leaf R)) (items : List (ℕ × ℕ)) (i : ℕ)
    (h : i < items.length) :
    (copyItems store items).1.getD (store.length + i) (.barrier 0) =
      store.getD items[i].2 (.barrier 0) := by
  simp only [copyItems, List.getD_eq_getElem?_getD]
  rw [List.getElem?_append_right (by omega)]
  simp [h]

/-- the original's objects are untouched by the copy -/
theorem copyItems_store_old (store : List (Leaf R)) (items : List (ℕ × ℕ)) (j : ℕ)
    (h : j < store.length) (d : Leaf R) :
    (copyItems store items).1.getD j d = store.getD j d := by
  simp only [copyItems, List.getD_eq_getElem?_getD]
  rw [List.getElem?_append_left h]

/-- **the copy denotes the same circuit** (hence has the same matrix), whatever the heap `st'` does
to the objects of the *original*: only the fresh objects are read -/
theorem copy_build_frame (store : List (Leaf R)) (items : List (ℕ × ℕ)) (st' : List (Leaf R))
    (hagree : ∀ j, store.length ≤ j → j < (copyItems store items).1.length →
      st'.getD j (.barrier 0) = (copyItems store items).1.getD j (.barrier 0)) :
    RefCirc.build st' (copyItems store items).2 = RefCirc.build store items := by
  apply build_congr2 store st' items _ (copyItems_length store items).symm
  intro i ha hb
  rw [copyItems_getElem store items i ha hb]
  refine ⟨rfl, ?_⟩
  simp only
  rw [hagree _ (by omega) (by simp [copyItems]; omega), copyItems_store_getD store items i ha]

/-- **the original is unchanged**, whatever the heap `st'` does to the objects of the *copy*:
only objects that existed before the copy are read -/
theorem orig_build_frame (store : List (Leaf R)) (items : List (ℕ × ℕ)) (st' : List (Leaf R))
    (hr : ∀ it ∈ items, it.2 < store.length)
    (hagree : ∀ j, j < store.length → st'.getD j (.barrier 0) = store.getD j (.barrier 0)) :
    RefCirc.build st' items = RefCirc.build store items :=
  build_congr store st' items (fun it hit => hagree it.2 (hr it hit))

theorem modify_getD_ne (st : List (Leaf R)) (j k : ℕ) (f : Leaf R → Leaf R) (d : Leaf R)
    (h : j ≠ k) : (st.modify j f).getD k d = st.getD k d := by
  simp only [List.getD_eq_getElem?_getD, List.getElem?_modify]
  simp only [if_neg h]
  cases st[k]? <;> rfl

/-- the heap after the repaired in-place `inverse` of a circuit: objects the circuit does not hold are
untouched -/
theorem invFixed_store_other [Neg R] [Star R] (fixed v h : Bool) (rc : RefCirc R) (j : ℕ)
    (hj : j ∉ rc.items.map Prod.snd) (d : Leaf R) :
    (rc.invFixed fixed v h).store.getD j d = rc.store.getD j d := by
  have hc : (rc.items.map Prod.snd).contains j = false := by
    cases hh : (rc.items.map Prod.snd).contains j with
    | false => rfl
    | true => exact absurd (List.contains_iff_mem.1 hh) hj
  by_cases hl : j < rc.store.length
  · simp only [RefCirc.invFixed, List.getD_eq_getElem?_getD, List.getElem?_map, List.getElem?_zipIdx,
      List.getElem?_eq_getElem hl, Option.map_some, Nat.zero_add, hc, Bool.false_eq_true, if_false]
  · have hl' : rc.store.length ≤ j := by omega
    simp only [RefCirc.invFixed, List.getD_eq_getElem?_getD, List.getElem?_map, List.getElem?_zipIdx,
      List.getElem?_eq_none hl', Option.map_none]

end PM.C11
