/-
  C09 (extension) — the selection of the sampler is the conditioning of the strong-simulation specification
  (`Found/SimSpec.lean`): `selOf` = retained ∧ reported, one-shot probabilities = masses of `retained`,
  conditional law = `conditioned`; expected tallies; trimming the inputs below the photon filter.
-/
import PercevalModel.Lemmas.C09Law
import PercevalModel.Found.SimSpec

set_option linter.unusedSimpArgs false
set_option linter.unusedVariables false

namespace PM.C09

open PM.Dist (D mass scale restrict mapKeys normalize fadd conv mix)
open PM.SimSpec (Cond PS retained conditioned physPerf logicalPerf physOk logicOk reported)

/-- the strong-simulation condition a sampler configuration stands for: the photon filter counts the photons the
heralds expect on top of the user's value -/
def condOf (sc : SelCfg) (ps : PS) : Cond :=
  ⟨sc.heralds, ps, sc.filter + heraldPhotons sc.heralds, sc.keep⟩

theorem removeFrom_eq (modes : List ℕ) : ∀ (xs : List ℕ) (i : ℕ),
    removeFrom modes i xs = ((xs.zipIdx i).filter fun p => !modes.contains p.2).map (·.1) := by
  intro xs
  induction xs with
  | nil => intro i; rfl
  | cons x xs ih =>
    intro i
    simp only [removeFrom, List.zipIdx_cons, List.filter_cons]
    by_cases h : i ∈ modes
    · simp [h, ih]
    · simp [h, ih]

theorem removeModes_eq (modes : List ℕ) (t : List ℕ) : removeModes modes t = PM.SimSpec.removeModes modes t := by
  unfold removeModes PM.SimSpec.removeModes
  exact removeFrom_eq modes t 0

theorem removeFrom_nil : ∀ (xs : List ℕ) (i : ℕ), removeFrom [] i xs = xs := by
  intro xs
  induction xs with
  | nil => intro i; rfl
  | cons x xs ih => intro i; simp [removeFrom, ih]

theorem emitted_eq_reported (sc : SelCfg) (ps : PS) (t : Fock) :
    emitted sc.heralds sc.keep t = reported (condOf sc ps) t := by
  unfold emitted reported condOf
  by_cases hk : sc.keep = true
  · simp [hk]
  · simp only [hk, Bool.not_false, Bool.and_true, Bool.false_eq_true, ↓reduceIte]
    by_cases he : sc.heralds.isEmpty = true
    · have : sc.heralds = [] := by simpa using he
      rw [this]
      simp only [List.isEmpty_nil, Bool.not_true, Bool.false_eq_true, ↓reduceIte, List.map_nil]
      rw [← removeModes_eq]
      exact (removeFrom_nil t 0).symm
    · simp only [he, Bool.not_false, ↓reduceIte]
      exact removeModes_eq _ t

theorem shotOutcome_sel_iff (sc : SelCfg) (ps : PS) (t : Fock) :
    shotOutcome true sc.filter sc.heralds (ps.eval t) t = .sel ↔
      (physOk (condOf sc ps) t && logicOk (condOf sc ps) t) = true := by
  have hh : PM.SimSpec.heraldsOk sc.heralds t = heraldsOk sc.heralds t := rfl
  unfold shotOutcome effFilter physOk logicOk condOf
  simp only [↓reduceIte, hh]
  by_cases h1 : t.sum < sc.filter + heraldPhotons sc.heralds
  · have h3 : ¬ (sc.filter + heraldPhotons sc.heralds ≤ t.sum) := by omega
    simp [h1, h3]
  · have h3 : sc.filter + heraldPhotons sc.heralds ≤ t.sum := by omega
    by_cases h2 : (heraldsOk sc.heralds t && ps.eval t) = true
    · simp [h1, h3, h2]
    · simp [h1, h3, h2]

theorem shotOutcome_phys_iff (sc : SelCfg) (ps : PS) (t : Fock) :
    shotOutcome true sc.filter sc.heralds (ps.eval t) t = .phys ↔ physOk (condOf sc ps) t = false := by
  unfold shotOutcome effFilter physOk condOf
  simp only [↓reduceIte, decide_eq_false_iff_not, Nat.not_le]
  by_cases h1 : t.sum < sc.filter + heraldPhotons sc.heralds
  · simp [h1]
  · simp only [h1, ↓reduceIte, iff_false]
    by_cases h2 : (heraldsOk sc.heralds t && ps.eval t) = true <;> simp [h2]

/-- the sampler's selection is the specification's: retained states, reported without the heralded modes -/
theorem selOf_eq (sc : SelCfg) (ps : PS) (hps : sc.psf = ps.eval) (t : Fock) :
    selOf sc t = if (physOk (condOf sc ps) t && logicOk (condOf sc ps) t) = true
      then some (reported (condOf sc ps) t) else none := by
  unfold selOf
  rw [hps]
  by_cases h : (physOk (condOf sc ps) t && logicOk (condOf sc ps) t) = true
  · rw [(shotOutcome_sel_iff sc ps t).2 h]
    simp only [h, ↓reduceIte, emitted_eq_reported sc ps t]
  · have hn : shotOutcome true sc.filter sc.heralds (ps.eval t) t ≠ .sel := fun he =>
      h ((shotOutcome_sel_iff sc ps t).1 he)
    rw [if_neg h]
    cases ho : shotOutcome true sc.filter sc.heralds (ps.eval t) t with
    | sel => exact absurd ho hn
    | phys => rfl
    | logic => rfl

/-- one-shot probability of accepting `s` = weight of `s` in the retained, reported distribution -/
theorem muSel_eq (sc : SelCfg) (ps : PS) (hps : sc.psf = ps.eval) (d : D) (s : Fock) :
    muSel d (selOf sc) s = PM.Dist.get (mapKeys (reported (condOf sc ps)) (retained (condOf sc ps) d)) s := by
  rw [← ex_indicator, ex_mapKeys, retained, ex_restrict]
  unfold muSel
  apply ex_congr
  intro p _
  rw [selOf_eq sc ps hps]
  by_cases h : (physOk (condOf sc ps) p.1 && logicOk (condOf sc ps) p.1) = true
  · simp only [h, ↓reduceIte, Option.some.injEq]
  · simp only [h, Bool.false_eq_true, ↓reduceIte, reduceCtorEq]

/-- one-shot rejection probability -/
theorem muNone_eq (sc : SelCfg) (ps : PS) (hps : sc.psf = ps.eval) (d : D) (hd : mass d = 1) :
    muNone d (selOf sc) = 1 - mass (retained (condOf sc ps) d) := by
  rw [muNone_add d _ hd, mass_eq_ex, retained, ex_restrict]
  congr 1
  apply ex_congr
  intro p _
  rw [selOf_eq sc ps hps]
  by_cases h : (physOk (condOf sc ps) p.1 && logicOk (condOf sc ps) p.1) = true
  · simp only [h, ↓reduceIte, Option.isSome_some]
  · simp only [h, Bool.false_eq_true, ↓reduceIte, Option.isSome_none]

/-- the conditional law of an accepted sample is the distribution strong simulation reports -/
theorem get_conditioned (c : Cond) (d : D) (h : mass (retained c d) ≠ 0) (s : Fock) :
    PM.Dist.get (conditioned c d) s =
      PM.Dist.get (mapKeys (reported c) (retained c d)) s / mass (retained c d) := by
  unfold conditioned normalize
  rw [PM.Dist.mass_mapKeys]
  simp only [h, ↓reduceIte, PM.Dist.get_scale]
  field_simp

theorem prod_muSel (sc : SelCfg) (ps : PS) (hps : sc.psf = ps.eval) (d : D)
    (h : mass (retained (condOf sc ps) d) ≠ 0) (out : List Fock) :
    (out.map (muSel d (selOf sc))).prod =
      mass (retained (condOf sc ps) d) ^ out.length *
        (out.map (PM.Dist.get (conditioned (condOf sc ps) d))).prod := by
  induction out with
  | nil => simp
  | cons s o ih =>
    simp only [List.map_cons, List.prod_cons, List.length_cons, ih, muSel_eq sc ps hps,
      get_conditioned _ d h]
    field_simp
    ring

/-! ### expected tallies -/

/-- number of states of a list satisfying a predicate, as a rational -/
def countP (pred : Fock → Bool) (l : List Fock) : ℚ := ((l.filter pred).length : ℚ)

theorem exN_countP (d : D) (hd : mass d = 1) (pred : Fock → Bool) :
    ∀ N : ℕ, exN d N (countP pred) = (N : ℚ) * ex d (fun t => if pred t then 1 else 0) := by
  intro N
  induction N with
  | zero => simp [exN, countP]
  | succ N ih =>
    simp only [exN]
    have h1 : ∀ p ∈ d, (exN d N fun l => countP pred (p.1 :: l)) =
        (if pred p.1 then 1 else 0) + (N : ℚ) * ex d (fun t => if pred t then 1 else 0) := by
      intro p _
      have : (fun l => countP pred (p.1 :: l)) = fun l => (if pred p.1 then (1 : ℚ) else 0) + countP pred l := by
        funext l
        unfold countP
        by_cases hp : pred p.1 = true
        · simp [List.filter_cons, hp]; ring
        · simp [List.filter_cons, hp]
      rw [this, exN_add, exN_const d hd, ih]
    rw [ex_congr d _ (fun t => (if pred t then 1 else 0) + (N : ℚ) * ex d (fun t => if pred t then 1 else 0)) h1,
      ex_add, ex_const, hd]
    push_cast
    ring

theorem ex_physOk (c : Cond) (d : D) : ex d (fun t => if physOk c t then 1 else 0) = physPerf c d := by
  unfold physPerf
  rw [mass_eq_ex, ex_restrict]

theorem ex_retained (c : Cond) (d : D) :
    ex d (fun t => if (physOk c t && logicOk c t) then 1 else 0) = mass (retained c d) := by
  unfold retained
  rw [mass_eq_ex, ex_restrict]

/-! ### inputs that cannot pass the photon filter -/

/-- a mixture whose members of index outside `keep` put no weight where `g` is non-zero: dropping them and
renormalising the remaining weights by their sum `P` multiplies every such expectation by `1 / P` -/
theorem ex_mix_trim (l : List (ℚ × D)) (keep : ℚ × D → Bool) (g : Fock → ℚ) (P : ℚ) (hP : P ≠ 0)
    (hdrop : ∀ p ∈ l, keep p = false → ex p.2 g = 0) :
    ex (mix l) g = P * ex (mix ((l.filter keep).map fun p => (p.1 / P, p.2))) g := by
  rw [ex_mix, ex_mix]
  induction l with
  | nil => simp
  | cons p r ih =>
    have ih' := ih (fun q hq => hdrop q (List.mem_cons_of_mem _ hq))
    by_cases hk : keep p = true
    · simp only [List.map_cons, List.sum_cons, List.filter_cons, hk, ↓reduceIte, ih']
      field_simp
    · have hk' : keep p = false := by simpa using hk
      simp only [List.map_cons, List.sum_cons, List.filter_cons, hk', Bool.false_eq_true, ↓reduceIte, ih',
        hdrop p (List.mem_cons_self) hk']
      ring

end PM.C09
