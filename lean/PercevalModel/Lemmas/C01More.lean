/-
  C01 — wave 7: the unranked pool machine (the assertions the real `Circuit.add` makes, without the ghost
  rank discipline) and its simulation by the ranked machine for histories of new / leaf / nest / barrier.
-/
import PercevalModel.Lemmas.C01

open Matrix

namespace PM.C01
variable {R : Type}

/-- admissibility as the real code checks it: no rank comparison -/
def Op.okU (h : Heap R) : Op R → Bool
  | .new m _ => 0 < m
  | .leaf i off k _ => i < h.size && 0 < k && off + k ≤ h.msize i
  | .nest i j off => i < h.size && j < h.size && off + h.msize j ≤ h.msize i
  | .merge i j off => i < h.size && j < h.size && off + h.msize j ≤ h.msize i
  | .barrier i => i < h.size
  | .copy i _ => i < h.size

def stepU [Zero R] [One R] (h : Heap R) (op : Op R) : Heap R :=
  if op.okU h then applyOp h op else h

def execU [Zero R] [One R] (h : Heap R) (ops : List (Op R)) : Heap R := ops.foldl stepU h

/-- histories of `Circuit(m)`, `add(elementary)`, `add(circuit, merge=False)`, `barrier()` -/
def Op.Plain : Op R → Prop
  | .new _ _ => True
  | .leaf _ _ _ _ => True
  | .nest _ _ _ => True
  | .barrier _ => True
  | .merge _ _ _ => False
  | .copy _ _ => False

/-- the same pool with the ghost ranks of its entries replaced by `ρ` -/
def Heap.rerank (ρ : ℕ → ℕ) (h : Heap R) : Heap R :=
  ⟨h.size, fun k => if k < h.size then { h.cell k with rank := ρ k } else h.cell k⟩

/-- `Circuit(m)` created with the rank `ρ` gives to its pool index `n`; other operations unchanged -/
def relabelOp (ρ : ℕ → ℕ) (n : ℕ) : Op R → Op R
  | .new m _ => .new m (ρ n)
  | o => o

/-- the same history, every `Circuit(m)` created with the rank `ρ` gives to its pool index -/
def relabel [Zero R] [One R] (ρ : ℕ → ℕ) : Heap R → List (Op R) → List (Op R)
  | _, [] => []
  | h, op :: rest => relabelOp ρ h.size op :: relabel ρ (stepU h op) rest

theorem rerank_push (ρ : ℕ → ℕ) (h : Heap R) (i : ℕ) (new : List (ℕ × HItem R)) :
    (h.push i new).rerank ρ = (h.rerank ρ).push i new := by
  unfold Heap.rerank Heap.push
  congr 1
  funext k
  by_cases hk : k = i <;> by_cases hs : k < h.size <;> simp [hk, hs]
  · subst hk; simp [hs]
  · subst hk; simp [hs]

theorem rerank_alloc (ρ : ℕ → ℕ) (h : Heap R) (m r : ℕ) (its : List (ℕ × HItem R)) :
    (h.alloc ⟨m, r, its⟩).rerank ρ = (h.rerank ρ).alloc ⟨m, ρ h.size, its⟩ := by
  unfold Heap.rerank Heap.alloc
  congr 1
  funext k
  by_cases hk : k = h.size
  · subst hk; simp
  · by_cases hs : k < h.size
    · have : k < h.size + 1 := by omega
      simp [hk, hs, this]
    · have : ¬ k < h.size + 1 := by omega
      simp [hk, hs, this]

@[simp] theorem rerank_size (ρ : ℕ → ℕ) (h : Heap R) : (h.rerank ρ).size = h.size := rfl
theorem rerank_msize (ρ : ℕ → ℕ) (h : Heap R) (k : ℕ) : (h.rerank ρ).msize k = h.msize k := by
  unfold Heap.rerank Heap.msize; by_cases hk : k < h.size <;> simp [hk]
theorem rerank_items (ρ : ℕ → ℕ) (h : Heap R) (k : ℕ) : (h.rerank ρ).items k = h.items k := by
  unfold Heap.rerank Heap.items; by_cases hk : k < h.size <;> simp [hk]
theorem rerank_rank (ρ : ℕ → ℕ) (h : Heap R) (k : ℕ) (hk : k < h.size) : (h.rerank ρ).rank k = ρ k := by
  unfold Heap.rerank Heap.rank; simp [hk]

/-- items are never removed (unranked machine, every operation) -/
theorem stepU_items_mono [Zero R] [One R] (h : Heap R) (op : Op R) (i : ℕ) (hi : i < h.size)
    (p : ℕ × HItem R) (hp : p ∈ h.items i) :
    i < (stepU h op).size ∧ p ∈ (stepU h op).items i := by
  have hpush : ∀ t new, i < (h.push t new).size ∧ p ∈ (h.push t new).items i := by
    intro t new
    refine ⟨hi, ?_⟩
    unfold Heap.push Heap.items
    by_cases ht : i = t
    · subst ht; simp only [if_true]; exact List.mem_append_left _ hp
    · simp only [ht, if_false]; exact hp
  have halloc : ∀ c, i < (h.alloc c).size ∧ p ∈ (h.alloc c).items i := by
    intro c
    refine ⟨by show i < h.size + 1; omega, ?_⟩
    unfold Heap.alloc Heap.items
    simp only [Nat.ne_of_lt hi, if_false]; exact hp
  unfold stepU
  split
  · cases op with
    | new m r => exact halloc _
    | leaf t off k U => exact hpush _ _
    | nest t j off => exact hpush _ _
    | merge t j off => simp only [applyOp]; split <;> exact hpush _ _
    | barrier t => exact hpush _ _
    | copy t φ => exact halloc _
  · exact ⟨hi, hp⟩

theorem execU_items_mono [Zero R] [One R] (ops : List (Op R)) : ∀ (h : Heap R) (i : ℕ), i < h.size →
    ∀ p ∈ h.items i, i < (execU h ops).size ∧ p ∈ (execU h ops).items i := by
  induction ops with
  | nil => intro h i hi p hp; exact ⟨hi, hp⟩
  | cons op r ih =>
    intro h i hi p hp
    obtain ⟨a, b⟩ := stepU_items_mono h op i hi p hp
    exact ih (stepU h op) i a p b

/-- one step: if the nest it performs (when accepted) goes down in `ρ`, the ranked machine on the re-ranked
pool does what the unranked machine does -/
theorem step_rerank [Zero R] [One R] (ρ : ℕ → ℕ) (h : Heap R) (op : Op R) (hpl : op.Plain)
    (hnest : ∀ i j off, op = .nest i j off → op.okU h = true → ρ j < ρ i) :
    step (h.rerank ρ) (relabelOp ρ h.size op) = (stepU h op).rerank ρ := by
  cases op with
  | new m r =>
    show step (h.rerank ρ) (.new m (ρ h.size)) = _
    have e : (Op.new (R := R) m (ρ h.size)).ok (h.rerank ρ) = (Op.new (R := R) m r).okU h := rfl
    unfold step stepU
    rw [e]
    by_cases hc : (Op.new (R := R) m r).okU h = true
    · rw [if_pos hc, if_pos hc]; simp only [applyOp, rerank_alloc]
    · rw [if_neg hc, if_neg hc]
  | leaf i off k U =>
    show step (h.rerank ρ) (.leaf i off k U) = _
    have e : (Op.leaf i off k U).ok (h.rerank ρ) = (Op.leaf i off k U).okU h := by
      simp only [Op.ok, Op.okU, rerank_msize]; rfl
    unfold step stepU
    rw [e]
    by_cases hc : (Op.leaf i off k U).okU h = true
    · rw [if_pos hc, if_pos hc]; simp only [applyOp, rerank_push]
    · rw [if_neg hc, if_neg hc]
  | nest i j off =>
    show step (h.rerank ρ) (.nest i j off) = _
    unfold step stepU
    by_cases hok : (Op.nest (R := R) i j off).okU h = true
    · have hlt := hnest i j off rfl hok
      have hok' := hok
      simp only [Op.okU, Bool.and_eq_true, decide_eq_true_eq] at hok'
      have hR : (Op.nest (R := R) i j off).ok (h.rerank ρ) = true := by
        simp [Op.ok, rerank_msize, rerank_rank ρ h i hok'.1.1, rerank_rank ρ h j hok'.1.2,
          hok'.1.1, hok'.1.2, hlt, hok'.2]
      rw [if_pos hR, if_pos hok]; simp only [applyOp, rerank_push]
    · have hR : ¬ (Op.nest (R := R) i j off).ok (h.rerank ρ) = true := by
        intro hc
        apply hok
        simp only [Op.ok, rerank_size, rerank_msize, Bool.and_eq_true, decide_eq_true_eq] at hc
        simp only [Op.okU, Bool.and_eq_true, decide_eq_true_eq]
        exact ⟨⟨of_decide_eq_true hc.1.1.1, of_decide_eq_true hc.1.1.2⟩, hc.2⟩
      rw [if_neg hR, if_neg hok]
  | barrier i =>
    show step (h.rerank ρ) (.barrier i) = _
    have e : (Op.barrier (R := R) i).ok (h.rerank ρ) = (Op.barrier (R := R) i).okU h := rfl
    unfold step stepU
    rw [e]
    by_cases hc : (Op.barrier (R := R) i).okU h = true
    · rw [if_pos hc, if_pos hc]; simp only [applyOp, rerank_push, rerank_msize]
    · rw [if_neg hc, if_neg hc]
  | merge i j off => exact absurd hpl (by simp [Op.Plain])
  | copy i φ => exact absurd hpl (by simp [Op.Plain])

/-- simulation: if every reference present at the END of the unranked run goes down in `ρ`, the re-labelled
history runs on the ranked machine to the same pool (ranks `ρ`) -/
theorem exec_relabel [Zero R] [One R] (ρ : ℕ → ℕ) (ops : List (Op R)) :
    ∀ (h : Heap R), (∀ op ∈ ops, op.Plain) →
      (∀ i j off, i < (execU h ops).size → (off, HItem.ref j) ∈ (execU h ops).items i → ρ j < ρ i) →
      exec (h.rerank ρ) (relabel ρ h ops) = (execU h ops).rerank ρ := by
  induction ops with
  | nil => intro h _ _; rfl
  | cons op r ih =>
    intro h hpl hacy
    have hstep : step (h.rerank ρ) (relabelOp ρ h.size op) = (stepU h op).rerank ρ := by
      apply step_rerank ρ h op (hpl op (by simp))
      intro i j off he hok
      subst he
      have hok' := hok
      simp only [Op.okU, Bool.and_eq_true, decide_eq_true_eq] at hok'
      have hs : stepU h (.nest i j off) = h.push i [(off, .ref j)] := by
        simp only [stepU, hok, if_true, applyOp]
      have hi : i < (stepU h (.nest i j off)).size := by rw [hs]; exact hok'.1.1
      have hm : (off, HItem.ref j) ∈ (stepU h (.nest i j off)).items i := by
        rw [hs]; simp [Heap.push, Heap.items]
      have hfin := execU_items_mono r _ i hi _ hm
      exact hacy i j off hfin.1 hfin.2
    have hrec := ih (stepU h op) (fun o ho => hpl o (by simp [ho])) hacy
    simp only [relabel, exec, List.foldl_cons, execU] at hrec ⊢
    rw [hstep]; exact hrec

theorem rerank_empty (ρ : ℕ → ℕ) : (Heap.empty : Heap R).rerank ρ = Heap.empty := by
  unfold Heap.rerank Heap.empty
  congr 1

end PM.C01
