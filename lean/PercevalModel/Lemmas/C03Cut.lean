/-
  Lemmas for C03, section 14 of Props/C03.lean: the native cut of small components AFTER the final normalisation.

  `evolve` adds up the components `contribs U ψ`; the native `StateVector` loses some of them (`lost`), keeps the
  others (`kept`), and normalises what it kept.  `probsOfKept m kept` is `_to_bsd` of that normalised vector (code
  shaped: squared moduli divided by the squared norm `keptNorm2` of the kept vector).  `cutErrD` is the error bound
  per outcome, written with the DROPPED components only: for the annotated output `k` with kept amplitude `b_k` and
  dropped amplitude `l_k = ∑ lost components of k`, `|l_k|² + 2·|b_k|·|l_k|` on the probability scale.
-/
import PercevalModel.Lemmas.C03Evolve
import PercevalModel.Lemmas.C03More

open Matrix

namespace PM.C03
open PM.Fock PM.Dist PM.SimSpec

/-- squared norm of the vector the components `l` add up to (real scale: factorials divided out) -/
def keptNorm2 (l : Amps GQ) : ℚ :=
  ((gatherAmps l).map fun p => GQ.normSq p.2 / (((p.1.map prodFact).prod : ℕ) : ℚ)).sum

/-- `_to_bsd` of the NORMALISED vector the components `l` add up to -/
def probsOfKept (m : ℕ) (l : Amps GQ) : D :=
  (gatherAmps l).map fun p =>
    (flattenTuple m p.1, GQ.normSq p.2 / (((p.1.map prodFact).prod : ℕ) : ℚ) / keptNorm2 l)

/-- squared moduli of the un-normalised vector on the scale `n2` (the squared norm of the input) -/
def toBsdOf (m : ℕ) (n2 : ℚ) (l : Amps GQ) : D :=
  (gatherAmps l).map fun p =>
    (flattenTuple m p.1, GQ.normSq p.2 / (((p.1.map prodFact).prod : ℕ) : ℚ) / n2)

/-- largest change of the probability of the annotated output `k`: kept amplitude `b`, dropped amplitude `l` -/
def cutKeyErr (n2 : ℚ) (b l : GQ) (k : List Fock) : ℚ :=
  GQ.normSq l * keyScale n2 k +
    2 * sqrtUp (GQ.normSq b * keyScale n2 k) * sqrtUp (GQ.normSq l * keyScale n2 k)

/-- the annotated outputs met by kept or lost components -/
def cutKeys (kept lost : Amps GQ) : List (List Fock) := ((kept ++ lost).map (·.1)).dedup

/-- per-output error bounds `err` as a distribution over the outcomes -/
def cutErrDOf (m : ℕ) (kept lost : Amps GQ) (err : List Fock → ℚ) : D :=
  (cutKeys kept lost).map fun k => (flattenTuple m k, err k)

/-- the error bounds written with the dropped amplitudes themselves -/
def cutErrD (m : ℕ) (n2 : ℚ) (kept lost : Amps GQ) : D :=
  cutErrDOf m kept lost fun k => cutKeyErr n2 (ampGet kept k) (ampGet lost k) k

/-- the error bounds written with a bound `L k` on the modulus of the dropped amplitude of every output -/
def cutErrDL (m : ℕ) (n2 : ℚ) (kept lost : Amps GQ) (L : List Fock → ℚ) : D :=
  cutErrDOf m kept lost fun k => L k ^ 2 + 2 * sqrtUp (GQ.normSq (ampGet kept k) * keyScale n2 k) * L k

/-- `| |a|² − |b|² | ≤ L² + 2·|b|·L` whenever `|a − b| ≤ L`, on the probability scale `c` -/
theorem normSq_sub_bound_of (a b : GQ) (c : ℚ) (hc : 0 ≤ c) (L : ℚ) (hL : 0 ≤ L)
    (h : GQ.normSq (a - b) * c ≤ L ^ 2) :
    |GQ.normSq a * c - GQ.normSq b * c| ≤ L ^ 2 + 2 * sqrtUp (GQ.normSq b * c) * L := by
  set β := GQ.normSq b * c with hβ
  set lam := GQ.normSq (a - b) * c with hlam
  set r := (b.re * (a.re - b.re) + b.im * (a.im - b.im)) * c with hr
  have hβ0 : 0 ≤ β := mul_nonneg (normSq_nonneg _) hc
  have hl0 : 0 ≤ lam := mul_nonneg (normSq_nonneg _) hc
  have hsub : (a - b).re = a.re - b.re ∧ (a - b).im = a.im - b.im := by
    constructor <;> simp [sub_eq_add_neg]
  have hdiff : GQ.normSq a * c - GQ.normSq b * c = lam + 2 * r := by
    simp only [hlam, hr, GQ.normSq, hsub.1, hsub.2]; ring
  have hcs : r ^ 2 ≤ β * lam := by
    simp only [hβ, hlam, hr, GQ.normSq, hsub.1, hsub.2]
    have := mul_nonneg (mul_nonneg hc hc) (sq_nonneg (b.re * (a.im - b.im) - b.im * (a.re - b.re)))
    nlinarith [this]
  have hs : r ^ 2 ≤ (sqrtUp β * L) ^ 2 := by
    have := mul_le_mul (sqrtUp_sq β) h hl0 (mul_nonneg (sqrtUp_nonneg β) (sqrtUp_nonneg β))
    calc r ^ 2 ≤ β * lam := hcs
      _ ≤ _ := this
      _ = _ := by ring
  have habs := abs_le.1 (abs_le_of_sq_le_sq hs (mul_nonneg (sqrtUp_nonneg β) hL))
  rw [hdiff, abs_le]
  constructor <;> nlinarith [habs.1, habs.2]

theorem cutKeyErr_nonneg (n2 : ℚ) (h : 0 ≤ n2) (b l : GQ) (k : List Fock) : 0 ≤ cutKeyErr n2 b l k := by
  unfold cutKeyErr
  have h1 : 0 ≤ GQ.normSq l * keyScale n2 k := mul_nonneg (normSq_nonneg _) (keyScale_nonneg _ h k)
  have h2 := mul_nonneg (mul_nonneg (by norm_num : (0 : ℚ) ≤ 2) (sqrtUp_nonneg (GQ.normSq b * keyScale n2 k)))
    (sqrtUp_nonneg (GQ.normSq l * keyScale n2 k))
  linarith

theorem nonneg_cutErrDOf (m : ℕ) (kept lost : Amps GQ) (err : List Fock → ℚ) (h : ∀ k, 0 ≤ err k) :
    NonNeg (cutErrDOf m kept lost err) := by
  intro e he
  obtain ⟨k, _, rfl⟩ := List.mem_map.1 he
  exact h k

theorem nonneg_toBsdOf (m : ℕ) (n2 : ℚ) (h : 0 ≤ n2) (l : Amps GQ) : NonNeg (toBsdOf m n2 l) := by
  intro e he
  obtain ⟨p, _, rfl⟩ := List.mem_map.1 he
  exact div_nonneg (div_nonneg (normSq_nonneg _) (Nat.cast_nonneg _)) h

theorem mass_toBsdOf (m : ℕ) (n2 : ℚ) (l : Amps GQ) : mass (toBsdOf m n2 l) = keptNorm2 l / n2 :=
  mass_map_div (gatherAmps l) (fun p => flattenTuple m p.1)
    (fun p => GQ.normSq p.2 / (((p.1.map prodFact).prod : ℕ) : ℚ)) n2

/-- the code-shaped normalised distribution is the normalisation of the un-normalised one, on any scale -/
theorem get_probsOfKept (m : ℕ) (n2 : ℚ) (hn2 : n2 ≠ 0) (l : Amps GQ) (hK : keptNorm2 l ≠ 0) (t : Fock) :
    get (probsOfKept m l) t = get (normalize (toBsdOf m n2 l)) t := by
  classical
  have hm : mass (toBsdOf m n2 l) ≠ 0 := by
    rw [mass_toBsdOf]; exact div_ne_zero hK hn2
  have hS : ∀ K ∈ l.map (·.1), K ∈ (l.map (·.1)).toFinset := fun K hK => List.mem_toFinset.2 hK
  rw [get_normalize _ hm, mass_toBsdOf]
  unfold probsOfKept toBsdOf
  rw [get_toBsd m l _ t _ hS, get_toBsd m l _ t _ hS]
  field_simp

/-- per outcome, the un-normalised probabilities of the kept vector and of the whole differ by at most the sum of
the per-output bounds -/
theorem toBsdOf_cut_bound (m : ℕ) (n2 : ℚ) (kept lost all : Amps GQ)
    (hperm : (kept ++ lost).Perm all) (err : List Fock → ℚ)
    (herr : ∀ K, |GQ.normSq (ampGet kept K + ampGet lost K) * keyScale n2 K -
      GQ.normSq (ampGet kept K) * keyScale n2 K| ≤ err K) (t : Fock) :
    |get (toBsdOf m n2 kept) t - get (toBsdOf m n2 all) t| ≤ get (cutErrDOf m kept lost err) t := by
  classical
  have hSk : ∀ K ∈ kept.map (·.1), K ∈ (cutKeys kept lost).toFinset := by
    intro K hK
    rw [List.mem_toFinset, cutKeys, List.mem_dedup, List.map_append]
    exact List.mem_append_left _ hK
  have hSa : ∀ K ∈ all.map (·.1), K ∈ (cutKeys kept lost).toFinset := by
    intro K hK
    rw [List.mem_toFinset, cutKeys, List.mem_dedup]
    exact (hperm.map _).mem_iff.2 hK
  unfold toBsdOf
  rw [get_toBsd m _ _ t _ hSk, get_toBsd m _ _ t _ hSa]
  have hE : get (cutErrDOf m kept lost err) t =
      ∑ K ∈ (cutKeys kept lost).toFinset, if flattenTuple m K == t then err K else 0 := by
    unfold cutErrDOf
    rw [get_map_pair]
    exact (List.sum_toFinset _ (List.nodup_dedup _ : (cutKeys kept lost).Nodup)).symm
  rw [hE, div_eq_mul_inv, div_eq_mul_inv, Finset.sum_mul, Finset.sum_mul, ← Finset.sum_sub_distrib]
  refine (Finset.abs_sum_le_sum_abs _ _).trans (Finset.sum_le_sum fun K _ => ?_)
  unfold outW
  split
  · have hall : ampGet all K = ampGet kept K + ampGet lost K := by
      rw [← ampGet_perm hperm K, ampGet_append]
    have e : ∀ x : ℚ, x / (((K.map prodFact).prod : ℕ) : ℚ) * n2⁻¹ = x * keyScale n2 K := by
      intro x; unfold keyScale; rw [div_eq_mul_inv, mul_assoc]
    rw [e, e, hall, abs_sub_comm]
    exact herr K
  · simp

/-- **the cut after the final normalisation** (any per-output bound `err`): the components `all` are split into
`kept` and `lost` in any way; both vectors are normalised.  On the scale `n2 > 0`: the squared norms differ by at most
`E = mass (errors)`, every probability by at most `(e t + P(t)·E) / (kept norm)`, any set of outcomes by at most
`2E / (kept norm)` -/
theorem kept_normalized_bound_of (m : ℕ) (n2 : ℚ) (hn2 : 0 < n2) (kept lost all : Amps GQ)
    (hperm : (kept ++ lost).Perm all) (h0 : keptNorm2 all ≠ 0) (h1 : keptNorm2 kept ≠ 0)
    (err : List Fock → ℚ) (herr0 : ∀ k, 0 ≤ err k)
    (herr : ∀ K, |GQ.normSq (ampGet kept K + ampGet lost K) * keyScale n2 K -
      GQ.normSq (ampGet kept K) * keyScale n2 K| ≤ err K) :
    |keptNorm2 kept / n2 - keptNorm2 all / n2| ≤ mass (cutErrDOf m kept lost err) ∧
    (∀ t, |get (probsOfKept m kept) t - get (probsOfKept m all) t| ≤
      (get (cutErrDOf m kept lost err) t + get (probsOfKept m all) t * mass (cutErrDOf m kept lost err)) /
        (keptNorm2 kept / n2)) ∧
    ∀ S : Finset Fock, ∑ t ∈ S, |get (probsOfKept m kept) t - get (probsOfKept m all) t| ≤
      2 * mass (cutErrDOf m kept lost err) / (keptNorm2 kept / n2) := by
  have hn2' : n2 ≠ 0 := ne_of_gt hn2
  have hnn := nonneg_cutErrDOf m kept lost err herr0
  have h := normalize_perturb (toBsdOf m n2 all) (toBsdOf m n2 kept)
    (fun t => get (cutErrDOf m kept lost err) t) (mass (cutErrDOf m kept lost err))
    (fun t => get_nonneg _ (nonneg_toBsdOf m n2 hn2.le all) t)
    (fun t => get_nonneg _ (nonneg_toBsdOf m n2 hn2.le kept) t)
    (fun t => toBsdOf_cut_bound m n2 kept lost all hperm err herr t)
    (fun S => sum_get_le_mass _ hnn S)
    (by rw [mass_toBsdOf]; exact div_ne_zero h0 hn2')
    (by rw [mass_toBsdOf]; exact div_ne_zero h1 hn2')
  simp only [mass_toBsdOf, ← get_probsOfKept m n2 hn2' kept h1, ← get_probsOfKept m n2 hn2' all h0] at h
  exact h

/-- the bound written with the dropped amplitudes: admissible for every split -/
theorem cutKeyErr_ok (n2 : ℚ) (hn2 : 0 ≤ n2) (b l : GQ) (K : List Fock) :
    |GQ.normSq (b + l) * keyScale n2 K - GQ.normSq b * keyScale n2 K| ≤ cutKeyErr n2 b l K := by
  have := normSq_sub_bound (b + l) b (keyScale n2 K) (keyScale_nonneg _ hn2 K)
  rw [add_sub_cancel_left] at this
  exact this

/-- the bound written with a bound `L` on the modulus of the dropped amplitude -/
theorem cutKeyErrL_ok (n2 : ℚ) (hn2 : 0 ≤ n2) (b l : GQ) (K : List Fock) (L : ℚ) (hL : 0 ≤ L)
    (h : GQ.normSq l * keyScale n2 K ≤ L ^ 2) :
    |GQ.normSq (b + l) * keyScale n2 K - GQ.normSq b * keyScale n2 K| ≤
      L ^ 2 + 2 * sqrtUp (GQ.normSq b * keyScale n2 K) * L := by
  apply normSq_sub_bound_of (b + l) b (keyScale n2 K) (keyScale_nonneg _ hn2 K) L hL
  rw [add_sub_cancel_left]
  exact h

/-- the same un-normalised vector read on two scales -/
theorem toBsdOf_rescale (m : ℕ) (n2 n2' : ℚ) (h : n2 ≠ 0) (h' : n2' ≠ 0) (l : Amps GQ) (t : Fock) :
    get (toBsdOf m n2 l) t = n2' / n2 * get (toBsdOf m n2' l) t := by
  classical
  have hS : ∀ K ∈ l.map (·.1), K ∈ (l.map (·.1)).toFinset := fun K hK => List.mem_toFinset.2 hK
  unfold toBsdOf
  rw [get_toBsd m l _ t _ hS, get_toBsd m l _ t _ hS]
  field_simp

theorem lossOf_nonneg (cs : Amps GQ) (cut2 n2 : ℚ) (k : List Fock) : 0 ≤ lossOf cs cut2 n2 k := by
  unfold lossOf
  apply List.sum_nonneg
  intro x hx
  obtain ⟨y, _, rfl⟩ := List.mem_map.1 hx
  exact sqrtUp_nonneg _

end PM.C03
