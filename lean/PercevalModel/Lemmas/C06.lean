/-
  C06 — helper lemmas (algebra of `_get_probs`, expectations over list distributions, the
  depth-first product at threshold 0, the multinomial sum of the event table).
-/
import PercevalModel.Model.C06
import Mathlib.Tactic.Ring
import Mathlib.Tactic.FieldSimp
import Mathlib.Tactic.Linarith
import Mathlib.Tactic.LinearCombination
import Mathlib.Tactic.Positivity
import Mathlib.Data.Nat.Choose.Sum
import Mathlib.Data.Nat.Choose.Cast

namespace PM.C06

/-! ### A. algebra of `_get_probs` -/

theorem p2_mul_g2 (P : Params) (h : P.g2 ≠ 0) : p2 P * P.g2 = 1 - P.beta * P.g2 - P.q := by
  unfold p2; rw [if_neg h]; field_simp; ring

theorem q_le_one {P : Params} (hP : P.WF) : P.q ≤ 1 := by
  have h1 := hP.q_sq
  have h2 : 0 ≤ P.beta * P.g2 := mul_nonneg hP.beta_pos.le hP.g2_nonneg
  nlinarith [hP.q_nonneg, sq_nonneg (P.q - 1)]

/-- closed form of the root the code selects -/
theorem p2_closed {P : Params} (hP : P.WF) : p2 P * (1 + P.q) = P.beta * (1 - P.q) := by
  by_cases h : P.g2 = 0
  · have hq : P.q * P.q = 1 := by rw [hP.q_sq, h]; ring
    have : P.q = 1 := by nlinarith [hP.q_nonneg, sq_nonneg (P.q - 1), sq_nonneg (P.q + 1)]
    simp [p2, h, this]
  · have h1 := p2_mul_g2 P h
    have h2 := hP.q_sq
    have : (p2 P * (1 + P.q) - P.beta * (1 - P.q)) * P.g2 = 0 := by
      have e : p2 P * (1 + P.q) * P.g2 = (p2 P * P.g2) * (1 + P.q) := by ring
      rw [sub_mul, e, h1]
      linear_combination (-1 : ℚ) * h2
    rcases mul_eq_zero.mp this with h3 | h3
    · linarith
    · exact absurd h3 h

theorem p2_nonneg {P : Params} (hP : P.WF) : 0 ≤ p2 P := by
  have h := p2_closed hP
  have hq := q_le_one hP
  have h1 : 0 ≤ P.beta * (1 - P.q) := mul_nonneg hP.beta_pos.le (by linarith)
  have h2 : 0 < 1 + P.q := by linarith [hP.q_nonneg]
  by_contra hneg
  push Not at hneg
  nlinarith

theorem p1_nonneg {P : Params} (hP : P.WF) : 0 ≤ p1 P := by
  have h := p2_closed hP
  have hq := q_le_one hP
  have h2 : 0 < 1 + P.q := by linarith [hP.q_nonneg]
  have hb := hP.beta_pos
  unfold p1
  by_contra hneg
  push Not at hneg
  -- p2 > beta  ⇒  p2 (1+q) > beta (1+q) ≥ beta (1-q)
  nlinarith [hP.q_nonneg, mul_nonneg hb.le hP.q_nonneg]

theorem p11_nonneg {P : Params} (hP : P.WF) : 0 ≤ p11 P :=
  mul_nonneg hP.eta_nonneg (p1_nonneg hP)
theorem p22_nonneg {P : Params} (hP : P.WF) : 0 ≤ p22 P :=
  mul_nonneg (pow_nonneg hP.eta_nonneg 2) (p2_nonneg hP)
theorem p21_nonneg {P : Params} (hP : P.WF) : 0 ≤ p21 P :=
  mul_nonneg (mul_nonneg hP.eta_nonneg (by linarith [hP.eta_le])) (p2_nonneg hP)

/-- zero-photon probability: no emission, or everything emitted is lost -/
theorem p0_eq (P : Params) :
    p0 P = (1 - P.beta) + (1 - P.eta) * p1 P + (1 - P.eta) ^ 2 * p2 P := by
  simp only [p0, p11, p21, p22, p1]; ring

theorem p0_nonneg {P : Params} (hP : P.WF) : 0 ≤ p0 P := by
  rw [p0_eq]
  have h1 : 0 ≤ 1 - P.eta := by linarith [hP.eta_le]
  have := mul_nonneg h1 (p1_nonneg hP)
  have := mul_nonneg (pow_nonneg h1 2) (p2_nonneg hP)
  linarith [hP.beta_le]

theorem d_nonneg {P : Params} (hP : P.WF) : 0 ≤ 1 - P.r := by linarith [hP.r_le]

/-! ### B. expectations over list distributions -/

section dist
variable {α β : Type}

@[simp] theorem E_nil (g : α → ℚ) : E g ([] : Dist α) = 0 := rfl
@[simp] theorem E_cons (g : α → ℚ) (e : α × ℚ) (d : Dist α) :
    E g (e :: d) = e.2 * g e.1 + E g d := by simp [E]
theorem E_append (g : α → ℚ) (d₁ d₂ : Dist α) : E g (d₁ ++ d₂) = E g d₁ + E g d₂ := by
  simp [E]
theorem E_flatMap (g : α → ℚ) (l : List β) (f : β → Dist α) :
    E g (l.flatMap f) = (l.map fun b => E g (f b)).sum := by
  induction l with
  | nil => simp
  | cons b l ih => simp [List.flatMap_cons, E_append, ih]

theorem mass_eq_E (d : Dist α) : mass d = E (fun _ => 1) d := by simp [mass, E]

theorem E_map_key (g : β → ℚ) (f : α → β) (d : Dist α) :
    E g (d.map fun e => (f e.1, e.2)) = E (fun a => g (f a)) d := by
  simp [E, List.map_map, Function.comp_def]

theorem E_map_scale (g : α → ℚ) (c : ℚ) (d : Dist α) :
    E g (d.map fun e => (e.1, e.2 / c)) = E g d / c := by
  induction d with
  | nil => simp
  | cons e d ih => simp only [List.map_cons, E_cons, ih]; ring

theorem E_normalize (g : α → ℚ) (d : Dist α) : E g (normalize d) = E g d / mass d := by
  simp only [normalize]; exact E_map_scale g (mass d) d

theorem mass_normalize (d : Dist α) (h : mass d ≠ 0) : mass (normalize d) = 1 := by
  rw [mass_eq_E, E_normalize, ← mass_eq_E]; exact div_self h

/-- all probabilities of a distribution are non-negative -/
def NonNeg (d : Dist α) : Prop := ∀ e ∈ d, 0 ≤ e.2

theorem E_trim_zero (g : α → ℚ) (d : Dist α) (h : NonNeg d) : E g (trim 0 d) = E g d := by
  induction d with
  | nil => rfl
  | cons e d ih =>
    have he : 0 ≤ e.2 := h e (by simp)
    have hd : NonNeg d := fun x hx => h x (by simp [hx])
    simp only [trim, List.filter_cons]
    by_cases hp : 0 < e.2
    · simp only [hp, decide_true, if_true, E_cons]; rw [← ih hd]; rfl
    · have : e.2 = 0 := le_antisymm (not_lt.mp hp) he
      simp only [hp, decide_false, E_cons, this, zero_mul, zero_add]
      rw [← ih hd]; rfl

theorem trim_zero_eq_positive (d : Dist α) : trim 0 d = positive d := rfl

theorem positive_NonNeg (d : Dist α) : NonNeg (positive d) := by
  intro e he
  simp only [positive, List.mem_filter, decide_eq_true_eq] at he
  exact he.2.le

theorem trim_NonNeg (θ : ℚ) (d : Dist α) (h : NonNeg d) : NonNeg (trim θ d) := by
  intro e he
  simp only [trim, List.mem_filter] at he
  exact h e he.1

theorem E_addKey [DecidableEq α] (g : α → ℚ) (k : α) (p : ℚ) (d : Dist α) :
    E g (addKey k p d) = E g d + p * g k := by
  induction d with
  | nil => simp [addKey]
  | cons e d ih =>
    simp only [addKey]
    split
    · next h => simp only [E_cons, h]; ring
    · simp only [E_cons, ih]; ring

theorem E_foldl_addKey [DecidableEq α] (g : α → ℚ) (d acc : Dist α) :
    E g (d.foldl (fun acc e => addKey e.1 e.2 acc) acc) = E g acc + E g d := by
  induction d generalizing acc with
  | nil => simp
  | cons e d ih => simp only [List.foldl_cons, ih, E_addKey, E_cons]; ring

theorem E_accum [DecidableEq α] (g : α → ℚ) (d : Dist α) : E g (accum d) = E g d := by
  simp [accum, E_foldl_addKey]

theorem addKey_NonNeg [DecidableEq α] (k : α) (p : ℚ) (hp : 0 ≤ p) (d : Dist α) (h : NonNeg d) :
    NonNeg (addKey k p d) := by
  induction d with
  | nil => intro e he; simp only [addKey, List.mem_singleton] at he; subst he; exact hp
  | cons e d ih =>
    have he : 0 ≤ e.2 := h e (by simp)
    have hd : NonNeg d := fun x hx => h x (by simp [hx])
    simp only [addKey]
    split
    · intro x hx
      simp only [List.mem_cons] at hx
      rcases hx with rfl | hx
      · exact add_nonneg he hp
      · exact hd x hx
    · intro x hx
      simp only [List.mem_cons] at hx
      rcases hx with rfl | hx
      · exact he
      · exact ih hd x hx

theorem accum_NonNeg [DecidableEq α] (d : Dist α) (h : NonNeg d) : NonNeg (accum d) := by
  unfold accum
  suffices H : ∀ acc : Dist α, NonNeg acc →
      NonNeg (d.foldl (fun acc e => addKey e.1 e.2 acc) acc) from H [] (by intro e he; simp at he)
  induction d with
  | nil => intro acc ha; simpa using ha
  | cons e d ih =>
    intro acc ha
    have he : 0 ≤ e.2 := h e (by simp)
    have hd : NonNeg d := fun x hx => h x (by simp [hx])
    simp only [List.foldl_cons]
    exact ih hd _ (addKey_NonNeg e.1 e.2 he acc ha)

/-! ### C. the depth-first product -/

theorem dfs_nil (θ : ℚ) (comb : α → α → α) (s : α) (p : ℚ) : dfs θ comb [] s p = [(s, p)] := rfl

/-- at threshold 0 no branch with non-negative probability is abandoned -/
theorem E_dfs_cons (g : α → ℚ) (comb : α → α → α) (d : Dist α) (ds : List (Dist α)) (s : α)
    (p : ℚ) (hp : 0 ≤ p) (hd : NonNeg d) :
    E g (dfs 0 comb (d :: ds) s p) =
      (d.map fun e => E g (dfs 0 comb ds (comb s e.1) (p * e.2))).sum := by
  simp only [dfs, E_flatMap]
  congr 1
  apply List.map_congr_left
  intro e he
  have : ¬ (p * e.2 < 0) := not_lt.mpr (mul_nonneg hp (hd e he))
  simp [this]

theorem dfs_NonNeg (θ : ℚ) (comb : α → α → α) (ds : List (Dist α)) (hds : ∀ d ∈ ds, NonNeg d)
    (s : α) (p : ℚ) (hp : 0 ≤ p) : NonNeg (dfs θ comb ds s p) := by
  induction ds generalizing s p with
  | nil => intro e he; simp only [dfs, List.mem_singleton] at he; subst he; exact hp
  | cons d ds ih =>
    intro x hx
    simp only [dfs, List.mem_flatMap] at hx
    obtain ⟨e, he, hx⟩ := hx
    split at hx
    · simp at hx
    · exact ih (fun d' hd' => hds d' (by simp [hd'])) _ _
        (mul_nonneg hp (hds d (by simp) e he)) x hx

/-- product of expectations for a multiplicative test function (mode level) -/
theorem E_dfs_mul (g : α → ℚ) (comb : α → α → α) (hg : ∀ s e, g (comb s e) = g s * g e)
    (ds : List (Dist α)) (hds : ∀ d ∈ ds, NonNeg d) (s : α) (p : ℚ) (hp : 0 ≤ p) :
    E g (dfs 0 comb ds s p) = p * g s * (ds.map (E g)).prod := by
  induction ds generalizing s p with
  | nil => simp [dfs]
  | cons d ds ih =>
    have hd : NonNeg d := hds d (by simp)
    have hds' : ∀ d' ∈ ds, NonNeg d' := fun d' h' => hds d' (by simp [h'])
    rw [E_dfs_cons g comb d ds s p hp hd]
    have : ∀ e ∈ d, E g (dfs 0 comb ds (comb s e.1) (p * e.2)) =
        (e.2 * g e.1) * (p * g s * (ds.map (E g)).prod) := by
      intro e he
      rw [ih hds' _ _ (mul_nonneg hp (hd e he)), hg]; ring
    rw [List.map_congr_left this, List.sum_map_mul_right]
    simp only [List.map_cons, List.prod_cons]
    show E g d * _ = _
    ring

end dist

/-! ### D. test functions, the two `list_tensor_product`s at threshold 0 -/

theorem tagProd_merge (h : Tag → ℚ) (e s : Mode) :
    tagProd h (mergeTags e s) = tagProd h e * tagProd h s := by
  unfold tagProd mergeTags
  rw [((List.mergeSort_perm (e ++ s) _).map h).prod_eq]
  simp

theorem tagProd_nil (h : Tag → ℚ) : tagProd h [] = 1 := rfl

theorem tagProd_const (y : ℚ) (m : Mode) : tagProd (fun _ => y) m = y ^ m.length := by
  simp [tagProd]

theorem W_append_single (fs : ℕ → Mode → ℚ) (k : ℕ) (s : State) (m : Mode) :
    W fs k (s ++ [m]) = W fs k s * fs (k + s.length) m := by
  induction s generalizing k with
  | nil => simp [W]
  | cons a s ih =>
    simp only [List.cons_append, W, ih, List.length_cons]
    rw [show k + 1 + s.length = k + (s.length + 1) by omega]; ring

theorem trim_lift (θ : ℚ) (d : Dist Mode) : trim θ (lift d) = lift (trim θ d) := by
  simp only [trim, lift, List.filter_map]
  rfl

theorem lift_NonNeg (d : Dist Mode) (h : NonNeg d) : NonNeg (lift d) := by
  intro e he
  simp only [lift, List.mem_map] at he
  obtain ⟨x, hx, rfl⟩ := he
  exact h x hx

theorem E_lift (g : State → ℚ) (d : Dist Mode) : E g (lift d) = E (fun m => g [m]) d := by
  simp [lift, E, List.map_map, Function.comp_def]

theorem prodFrom_trim_zero (fs : ℕ → Mode → ℚ) (k : ℕ) (ds : List (Dist Mode))
    (hds : ∀ d ∈ ds, NonNeg d) : prodFrom fs k (ds.map (trim 0)) = prodFrom fs k ds := by
  induction ds generalizing k with
  | nil => rfl
  | cons d ds ih =>
    simp only [List.map_cons, prodFrom]
    rw [E_trim_zero _ d (hds d (by simp)), ih _ (fun d' h' => hds d' (by simp [h']))]

theorem E_dfs_state (fs : ℕ → Mode → ℚ) (ds : List (Dist Mode)) (hds : ∀ d ∈ ds, NonNeg d)
    (s : State) (p : ℚ) (hp : 0 ≤ p) :
    E (W fs 0) (dfs 0 (fun s e => s ++ e) (ds.map lift) s p) =
      p * W fs 0 s * prodFrom fs s.length ds := by
  induction ds generalizing s p with
  | nil => simp [dfs, prodFrom]
  | cons d ds ih =>
    have hd : NonNeg d := hds d (by simp)
    have hds' : ∀ d' ∈ ds, NonNeg d' := fun d' h' => hds d' (by simp [h'])
    rw [List.map_cons, E_dfs_cons _ _ _ _ s p hp (lift_NonNeg d hd)]
    simp only [lift, List.map_map, Function.comp_def]
    have : ∀ e ∈ d, E (W fs 0) (dfs 0 (fun s e => s ++ e) (List.map lift ds) (s ++ [e.1]) (p * e.2)) =
        (e.2 * fs s.length e.1) * (p * W fs 0 s * prodFrom fs (s.length + 1) ds) := by
      intro e he
      rw [ih hds' _ _ (mul_nonneg hp (hd e he)), W_append_single]
      simp only [List.length_append, List.length_cons, List.length_nil, zero_add]
      ring
    rw [List.map_congr_left this, List.sum_map_mul_right]
    simp only [prodFrom]
    show E (fs s.length) d * _ = _
    ring

theorem E_ltpState_zero (fs : ℕ → Mode → ℚ) (ds : List (Dist Mode)) (hne : ds ≠ [])
    (hds : ∀ d ∈ ds, NonNeg d) :
    E (W fs 0) (ltpState 0 (ds.map lift)) = prodFrom fs 0 ds := by
  match ds, hne, hds with
  | [d], _, _ => simp [ltpState, E_lift, W, prodFrom]
  | d₁ :: d₂ :: ds, _, hds =>
    have e1 : ((d₁ :: d₂ :: ds).map lift).map (trim 0) = ((d₁ :: d₂ :: ds).map (trim 0)).map lift := by
      simp only [List.map_map]
      apply List.map_congr_left
      intro d _
      exact trim_lift 0 d
    have hds' : ∀ d ∈ (d₁ :: d₂ :: ds).map (trim 0), NonNeg d := by
      intro d hd
      simp only [List.mem_map] at hd
      obtain ⟨x, hx, rfl⟩ := hd
      exact trim_NonNeg 0 x (hds x hx)
    show E (W fs 0) (dfs 0 (fun s e => s ++ e) (((d₁ :: d₂ :: ds).map lift).map (trim 0)) [] 1) = _
    rw [e1, E_dfs_state fs _ hds' [] 1 zero_le_one, prodFrom_trim_zero fs _ _ hds]
    simp [W]

theorem E_ltpMode_zero (g : Mode → ℚ) (hg : ∀ e s, g (mergeTags e s) = g e * g s) (hg0 : g [] = 1)
    (ds : List (Dist Mode)) (hne : ds ≠ []) (hds : ∀ d ∈ ds, NonNeg d) :
    E g (ltpMode 0 ds) = (ds.map (E g)).prod := by
  match ds, hne, hds with
  | [d], _, _ => simp [ltpMode]
  | d₁ :: d₂ :: ds, _, hds =>
    show E g (if (d₁ :: d₂ :: ds).any List.isEmpty then []
      else accum (dfs 0 (fun s e => mergeTags e s) ((d₁ :: d₂ :: ds).map (trim 0)) [] 1)) = _
    split
    · next h =>
      rw [List.any_eq_true] at h
      obtain ⟨d, hd, he⟩ := h
      have : d = [] := List.isEmpty_iff.mp he
      subst this
      symm
      apply List.prod_eq_zero
      simp only [List.mem_map]
      exact ⟨[], hd, rfl⟩
    · have hds' : ∀ d ∈ (d₁ :: d₂ :: ds).map (trim 0), NonNeg d := by
        intro d hd
        simp only [List.mem_map] at hd
        obtain ⟨x, hx, rfl⟩ := hd
        exact trim_NonNeg 0 x (hds x hx)
      rw [E_accum, E_dfs_mul g _ (fun s e => by rw [hg]; ring) _ hds' [] 1 zero_le_one, hg0]
      simp only [List.map_map, one_mul]
      congr 1
      apply List.map_congr_left
      intro d hd
      exact E_trim_zero g d (hds d hd)

/-! ### E. the one-photon distribution -/

theorem onePhotonRaw_NonNeg {P : Params} (hP : P.WF) (t : ℕ) : NonNeg (onePhotonRaw P t) := by
  have h0 := p0_nonneg hP
  have h11 := p11_nonneg hP
  have h21 := p21_nonneg hP
  have h22 := p22_nonneg hP
  have hd := d_nonneg hP
  have hr : 0 ≤ 1 - (1 - P.r) := by linarith [hP.r_nonneg]
  have hs : 0 ≤ p11 P + p21 P := add_nonneg h11 h21
  intro e he
  unfold onePhotonRaw at he
  by_cases hpd : partDist P = true <;> by_cases hdm : P.dm = true <;>
    simp only [hpd, hdm, if_true, if_false, Bool.false_eq_true, List.cons_append, List.nil_append,
      List.mem_cons, List.not_mem_nil, or_false] at he <;>
    rcases he with rfl | rfl | rfl | rfl | rfl <;> simp only <;>
    first
      | assumption
      | exact mul_nonneg hr h22
      | exact mul_nonneg hd h22
      | exact add_nonneg (mul_nonneg hd hs) h21
      | exact mul_nonneg hr hs
      | exact mul_nonneg hd hs
      | exact add_nonneg (mul_nonneg hr hs) h21
      | exact add_nonneg h11 (mul_nonneg zero_le_two h21)

theorem onePhoton_NonNeg (P : Params) (t : ℕ) : NonNeg (onePhoton P t) := positive_NonNeg _

theorem E_onePhoton {P : Params} (hP : P.WF) (g : Mode → ℚ) (t : ℕ) :
    E g (onePhoton P t) = E g (onePhotonRaw P t) :=
  E_trim_zero g _ (onePhotonRaw_NonNeg hP t)

theorem cnt_onePhotonRaw (P : Params) (t : ℕ) (y : ℚ) :
    E (fun m => y ^ m.length) (onePhotonRaw P t) = poly P y := by
  unfold onePhotonRaw poly pi1 pi2
  by_cases hpd : partDist P = true <;> by_cases hdm : P.dm = true <;>
    simp [hpd, hdm, E] <;> ring

theorem cnt_onePhoton {P : Params} (hP : P.WF) (t : ℕ) (y : ℚ) :
    E (fun m => y ^ m.length) (onePhoton P t) = poly P y := by
  rw [E_onePhoton hP, cnt_onePhotonRaw]

theorem poly_one (P : Params) : poly P 1 = 1 := by
  unfold poly p0 pi1 pi2; ring

/-! ### F. `probability_distribution`, `generate_distribution` at threshold 0 -/

theorem photonDists_NonNeg (P : Params) (n t : ℕ) : ∀ d ∈ photonDists P n t, NonNeg d := by
  induction n generalizing t with
  | zero => intro d hd; simp [photonDists] at hd
  | succ n ih =>
    intro d hd
    simp only [photonDists, List.mem_cons] at hd
    rcases hd with rfl | hd
    · exact onePhoton_NonNeg P t
    · exact ih _ d hd

theorem photonDists_ne_nil (P : Params) {n : ℕ} (hn : n ≠ 0) (t : ℕ) : photonDists P n t ≠ [] := by
  cases n with
  | zero => exact absurd rfl hn
  | succ n => simp [photonDists]

theorem prod_photonDists (P : Params) (g : Mode → ℚ) (c : ℚ) (h : ∀ t, E g (onePhoton P t) = c)
    (n t : ℕ) : ((photonDists P n t).map (E g)).prod = c ^ n := by
  induction n generalizing t with
  | zero => simp [photonDists]
  | succ n ih => simp only [photonDists, List.map_cons, List.prod_cons, h, ih, pow_succ]; ring

theorem isPerfect_iff (P : Params) :
    isPerfect P = true ↔ P.beta = 1 ∧ P.g2 = 0 ∧ P.ind = 1 ∧ P.eta = 1 := by
  simp only [isPerfect, Bool.and_eq_true, decide_eq_true_eq]
  constructor
  · rintro ⟨⟨⟨h1, h2⟩, h3⟩, h4⟩; exact ⟨h1, h2, h3, by linarith⟩
  · rintro ⟨h1, h2, h3, h4⟩; exact ⟨⟨⟨h1, h2⟩, h3⟩, by linarith⟩

theorem poly_perfect {P : Params} (h : isPerfect P = true) (y : ℚ) : poly P y = y := by
  obtain ⟨h1, h2, _, h4⟩ := (isPerfect_iff P).mp h
  simp [poly, p0, pi1, pi2, p11, p21, p22, p1, p2, h1, h2, h4]

theorem shortcut_false {P : Params} {n : ℕ} (h : shortcut P n = false) :
    n ≠ 0 ∧ isPerfect P = false := by
  simp only [shortcut, Bool.or_eq_false_iff, decide_eq_false_iff_not] at h
  exact h

theorem cnt_probDist {P : Params} (hP : P.WF) (n t : ℕ) (y : ℚ) :
    E (fun m => y ^ m.length) (probDist P 0 n t) = poly P y ^ n := by
  unfold probDist
  by_cases hs : shortcut P n = true
  · simp only [hs, if_true, E_cons, E_nil, List.length_replicate, one_mul, add_zero]
    simp only [shortcut, Bool.or_eq_true, decide_eq_true_eq] at hs
    rcases hs with rfl | hp
    · simp
    · rw [poly_perfect hp]
  · have hs' : shortcut P n = false := by simpa using hs
    obtain ⟨hn, _⟩ := shortcut_false hs'
    simp only [hs', Bool.false_eq_true, if_false]
    have hg : ∀ e s : Mode, (fun m : Mode => y ^ m.length) (mergeTags e s) =
        (fun m : Mode => y ^ m.length) e * (fun m : Mode => y ^ m.length) s := by
      intro e s; simp [mergeTags, pow_add]
    rw [E_ltpMode_zero _ hg (by simp) _ (photonDists_ne_nil P hn t) (photonDists_NonNeg P n t)]
    exact prod_photonDists P _ _ (fun t => cnt_onePhoton hP t y) n t

theorem ltpMode_NonNeg (θ : ℚ) (ds : List (Dist Mode)) (hds : ∀ d ∈ ds, NonNeg d) :
    NonNeg (ltpMode θ ds) := by
  match ds, hds with
  | [], _ => intro e he; simp [ltpMode] at he
  | [d], hds => exact hds d (by simp)
  | d₁ :: d₂ :: ds, hds =>
    show NonNeg (if (d₁ :: d₂ :: ds).any List.isEmpty then []
      else accum (dfs θ (fun s e => mergeTags e s) ((d₁ :: d₂ :: ds).map (trim θ)) [] 1))
    split
    · intro e he; simp at he
    · apply accum_NonNeg
      apply dfs_NonNeg _ _ _ _ _ _ zero_le_one
      intro d hd
      simp only [List.mem_map] at hd
      obtain ⟨x, hx, rfl⟩ := hd
      exact trim_NonNeg θ x (hds x hx)

theorem probDist_NonNeg (P : Params) (θ : ℚ) (n t : ℕ) : NonNeg (probDist P θ n t) := by
  unfold probDist
  split
  · intro e he; simp only [List.mem_singleton] at he; subst he; exact zero_le_one
  · exact ltpMode_NonNeg θ _ (photonDists_NonNeg P n t)

theorem modeDists_NonNeg (P : Params) (θ : ℚ) (ns : List ℕ) (t : ℕ) :
    ∀ d ∈ modeDists P θ ns t, NonNeg d := by
  induction ns generalizing t with
  | nil => intro d hd; simp [modeDists] at hd
  | cons n ns ih =>
    intro d hd
    simp only [modeDists, List.mem_cons] at hd
    rcases hd with rfl | hd
    · exact probDist_NonNeg P θ n t
    · exact ih _ d hd

theorem modeDists_ne_nil (P : Params) (θ : ℚ) {ns : List ℕ} (h : ns ≠ []) (t : ℕ) :
    modeDists P θ ns t ≠ [] := by
  cases ns with
  | nil => exact absurd rfl h
  | cons n ns => simp [modeDists]

theorem prodFrom_count {P : Params} (hP : P.WF) (x : ℕ → ℚ) (k : ℕ) (ns : List ℕ) (t : ℕ) :
    prodFrom (fun i m => x i ^ m.length) k (modeDists P 0 ns t) = gfFrom P x k ns := by
  induction ns generalizing k t with
  | nil => rfl
  | cons n ns ih => simp only [modeDists, prodFrom, gfFrom, cnt_probDist hP, ih]

theorem E_generateRaw_zero (P : Params) (fs : ℕ → Mode → ℚ) {ns : List ℕ} (hne : ns ≠ []) (t : ℕ) :
    E (W fs 0) (generateRaw P 0 ns t) = prodFrom fs 0 (modeDists P 0 ns t) :=
  E_ltpState_zero fs _ (modeDists_ne_nil P 0 hne t) (modeDists_NonNeg P 0 ns t)

theorem W_one (k : ℕ) (s : State) : W (fun _ _ => 1) k s = 1 := by
  induction s generalizing k with
  | nil => rfl
  | cons m s ih => simp [W, ih]

theorem gfFrom_one (P : Params) (k : ℕ) (ns : List ℕ) : gfFrom P (fun _ => 1) k ns = 1 := by
  induction ns generalizing k with
  | nil => rfl
  | cons n ns ih => simp [gfFrom, poly_one, ih]

theorem mass_generateRaw_zero {P : Params} (hP : P.WF) {ns : List ℕ} (hne : ns ≠ []) (t : ℕ) :
    mass (generateRaw P 0 ns t) = 1 := by
  have h := E_generateRaw_zero P (fun _ m => (1 : ℚ) ^ m.length) hne t
  rw [prodFrom_count hP (fun _ => 1), gfFrom_one] at h
  have hfun : (fun (_ : ℕ) (m : Mode) => (1 : ℚ) ^ m.length) = fun _ _ => 1 := by
    funext _ m; simp
  rw [hfun] at h
  have hW : (fun _ : State => (1 : ℚ)) = W (fun _ _ => 1) 0 := by funext s; rw [W_one]
  rw [mass_eq_E, hW]
  exact h

theorem E_generateAt_zero {P : Params} (hP : P.WF) (g : State → ℚ) {ns : List ℕ} (hne : ns ≠ [])
    (t : ℕ) : E g (generateAt P 0 ns t) = E g (generateRaw P 0 ns t) := by
  rw [generateAt, E_normalize, mass_generateRaw_zero hP hne, div_one]

theorem gfFrom_const (P : Params) (y : ℚ) (k : ℕ) (ns : List ℕ) :
    gfFrom P (fun _ => y) k ns = poly P y ^ ns.sum := by
  induction ns generalizing k with
  | nil => simp [gfFrom]
  | cons n ns ih => simp [gfFrom, ih, pow_add]

theorem W_count_const (y : ℚ) (k : ℕ) (s : State) :
    W (fun _ m => y ^ m.length) k s = y ^ photons s := by
  induction s generalizing k with
  | nil => simp [W, photons]
  | cons m s ih =>
    simp only [W, ih, photons, List.map_cons, List.sum_cons, pow_add]

/-! ### G. perfect source -/

theorem dfs_points (θ : ℚ) (hθ : θ ≤ 1) (ss : List State) (s0 : State) :
    dfs θ (fun s e => s ++ e) (ss.map fun s => [(s, (1 : ℚ))]) s0 1 = [(s0 ++ ss.flatten, 1)] := by
  induction ss generalizing s0 with
  | nil => simp [dfs]
  | cons a ss ih =>
    have : ¬ ((1 : ℚ) < θ) := not_lt.mpr hθ
    simp only [List.map_cons, dfs, List.flatMap_cons, List.flatMap_nil, mul_one, this, if_false,
      List.append_nil, ih, List.flatten_cons, List.append_assoc]

theorem modeDists_perfect {P : Params} (h : isPerfect P = true) (θ : ℚ) (ns : List ℕ) (t : ℕ) :
    modeDists P θ ns t = ns.map fun n => [(List.replicate n none, 1)] := by
  induction ns generalizing t with
  | nil => rfl
  | cons n ns ih =>
    have hs : shortcut P n = true := by simp [shortcut, h]
    simp only [modeDists, probDist, probDistTag, hs, if_true, ih, List.map_cons]

/-! ### H. the event table: four-term multinomial theorem over the nested `range` loops -/

theorem sum_list_range (f : ℕ → ℚ) (n : ℕ) :
    ((List.range n).map f).sum = ∑ i ∈ Finset.range n, f i := by
  induction n with
  | zero => simp
  | succ n ih => rw [List.sum_range_succ, Finset.sum_range_succ, ih]

/-- the three loops as nested finite sums (ranges with the truthiness quirks) -/
theorem E_tableRawOf (g : ℕ × ℕ × ℕ → ℚ) (a b c z : ℚ) (n f : ℕ) :
    E g (tableRawOf a b c z n f) =
      ∑ i ∈ Finset.range (n + 1), ∑ j ∈ Finset.range (if b = 0 then 1 else n + 1 - i),
        ∑ k ∈ Finset.range (if c = 0 then 1 else n + 1 - i - j),
          if f ≤ i + j + 2 * k then coef a b c z n i j k * g (i, j, k) else 0 := by
  simp only [tableRawOf, E_flatMap, sum_list_range]
  refine Finset.sum_congr rfl fun i _ => Finset.sum_congr rfl fun j _ =>
    Finset.sum_congr rfl fun k _ => ?_
  split <;> simp [E]

theorem sum_range_quirk (F : ℕ → ℚ) (x : ℚ) (m : ℕ) (hm : 0 < m)
    (h : x = 0 → ∀ j, 0 < j → F j = 0) :
    ∑ j ∈ Finset.range (if x = 0 then 1 else m), F j = ∑ j ∈ Finset.range m, F j := by
  split
  · next hx =>
    rw [Finset.sum_range_one, Finset.sum_eq_single_of_mem 0 (Finset.mem_range.mpr hm)]
    intro j _ hj
    exact h hx j (Nat.pos_of_ne_zero hj)
  · rfl

theorem coef_b_zero (a c z : ℚ) (n i j k : ℕ) (hj : 0 < j) : coef a 0 c z n i j k = 0 := by
  simp [coef, zero_pow (Nat.pos_iff_ne_zero.mp hj)]

theorem coef_c_zero (a b z : ℚ) (n i j k : ℕ) (hk : 0 < k) : coef a b 0 z n i j k = 0 := by
  simp [coef, zero_pow (Nat.pos_iff_ne_zero.mp hk)]

/-- the truthiness short-cuts of the loops drop only terms that are zero -/
theorem E_tableRawOf_full (g : ℕ × ℕ × ℕ → ℚ) (a b c z : ℚ) (n f : ℕ) :
    E g (tableRawOf a b c z n f) =
      ∑ i ∈ Finset.range (n + 1), ∑ j ∈ Finset.range (n + 1 - i),
        ∑ k ∈ Finset.range (n + 1 - i - j),
          if f ≤ i + j + 2 * k then coef a b c z n i j k * g (i, j, k) else 0 := by
  rw [E_tableRawOf]
  refine Finset.sum_congr rfl fun i hi => ?_
  have hi' : 0 < n + 1 - i := Nat.sub_pos_of_lt (Finset.mem_range.mp hi)
  rw [sum_range_quirk _ b (n + 1 - i) hi']
  · refine Finset.sum_congr rfl fun j hj => ?_
    have hj' : 0 < n + 1 - i - j := Nat.sub_pos_of_lt (Finset.mem_range.mp hj)
    rw [sum_range_quirk _ c (n + 1 - i - j) hj']
    intro hc k hk
    subst hc
    simp [coef_c_zero _ _ _ _ _ _ _ hk]
  · intro hb j hj
    subst hb
    apply Finset.sum_eq_zero
    intro k _
    simp [coef_b_zero _ _ _ _ _ _ _ hj]

theorem coef_eq_choose (a b c z : ℚ) {n i j k : ℕ} (hi : i ≤ n) (hj : j ≤ n - i)
    (hk : k ≤ n - i - j) :
    coef a b c z n i j k =
      a ^ i * (n.choose i : ℚ) * (b ^ j * ((n - i).choose j : ℚ) *
        (c ^ k * z ^ (n - i - j - k) * ((n - i - j).choose k : ℚ))) := by
  unfold coef
  rw [Nat.cast_choose ℚ hi, Nat.cast_choose ℚ hj, Nat.cast_choose ℚ hk]
  have h1 : ((n - i).factorial : ℚ) ≠ 0 := Nat.cast_ne_zero.mpr (Nat.factorial_ne_zero _)
  have h2 : ((n - i - j).factorial : ℚ) ≠ 0 := Nat.cast_ne_zero.mpr (Nat.factorial_ne_zero _)
  have h3 : ((n - i - j - k).factorial : ℚ) ≠ 0 := Nat.cast_ne_zero.mpr (Nat.factorial_ne_zero _)
  have h4 : (i.factorial : ℚ) ≠ 0 := Nat.cast_ne_zero.mpr (Nat.factorial_ne_zero _)
  have h5 : (j.factorial : ℚ) ≠ 0 := Nat.cast_ne_zero.mpr (Nat.factorial_ne_zero _)
  have h6 : (k.factorial : ℚ) ≠ 0 := Nat.cast_ne_zero.mpr (Nat.factorial_ne_zero _)
  field_simp

/-- four-term multinomial theorem in the shape of the loops -/
theorem multinomial4 (a b c z : ℚ) (n : ℕ) :
    ∑ i ∈ Finset.range (n + 1), ∑ j ∈ Finset.range (n + 1 - i),
      ∑ k ∈ Finset.range (n + 1 - i - j), coef a b c z n i j k = (a + b + c + z) ^ n := by
  have hk : ∀ i j, i ≤ n → j ≤ n - i →
      ∑ k ∈ Finset.range (n + 1 - i - j), coef a b c z n i j k =
        a ^ i * (n.choose i : ℚ) * (b ^ j * ((n - i).choose j : ℚ) * (c + z) ^ (n - i - j)) := by
    intro i j hi hj
    rw [show n + 1 - i - j = (n - i - j) + 1 by omega, add_pow c z, Finset.mul_sum, Finset.mul_sum]
    refine Finset.sum_congr rfl fun k hk => ?_
    rw [coef_eq_choose a b c z hi hj (Nat.lt_succ_iff.mp (Finset.mem_range.mp hk))]
  have hj : ∀ i, i ≤ n →
      ∑ j ∈ Finset.range (n + 1 - i), ∑ k ∈ Finset.range (n + 1 - i - j), coef a b c z n i j k =
        a ^ i * (n.choose i : ℚ) * (b + (c + z)) ^ (n - i) := by
    intro i hi
    rw [show n + 1 - i = (n - i) + 1 by omega, add_pow b (c + z), Finset.mul_sum]
    refine Finset.sum_congr rfl fun j hj => ?_
    have hj' : j ≤ n - i := Nat.lt_succ_iff.mp (Finset.mem_range.mp hj)
    rw [show n - i + 1 - j = n + 1 - i - j by omega, hk i j hi hj']
    ring
  rw [show a + b + c + z = a + (b + (c + z)) by ring, add_pow a]
  refine Finset.sum_congr rfl fun i hi => ?_
  rw [hj i (Nat.lt_succ_iff.mp (Finset.mem_range.mp hi))]
  ring

theorem coef_weight (a b c z u v w : ℚ) (n i j k : ℕ) :
    coef a b c z n i j k * (u ^ i * v ^ j * w ^ k) = coef (a * u) (b * v) (c * w) z n i j k := by
  unfold coef
  rw [mul_pow, mul_pow, mul_pow]
  ring

/-- generating function of the unfiltered event table -/
theorem E_tableRawOf_weight (a b c z u v w : ℚ) (n : ℕ) :
    E (fun e => u ^ e.1 * v ^ e.2.1 * w ^ e.2.2) (tableRawOf a b c z n 0) =
      (a * u + b * v + c * w + z) ^ n := by
  rw [E_tableRawOf_full, ← multinomial4]
  refine Finset.sum_congr rfl fun i _ => Finset.sum_congr rfl fun j _ =>
    Finset.sum_congr rfl fun k _ => ?_
  simp only [Nat.zero_le, if_true]
  exact coef_weight a b c z u v w n i j k

/-- the filter test commutes with the loops: the filtered table is the restriction of the full one -/
theorem tableRawOf_filter (a b c z : ℚ) (n f : ℕ) :
    tableRawOf a b c z n f =
      (tableRawOf a b c z n 0).filter fun e => decide (f ≤ e.1.1 + e.1.2.1 + 2 * e.1.2.2) := by
  simp only [tableRawOf, List.filter_flatMap, Nat.zero_le, if_true]
  refine List.flatMap_congr fun i _ => List.flatMap_congr fun j _ => List.flatMap_congr fun k _ => ?_
  by_cases h : f ≤ i + j + 2 * k <;> simp [h]

/-! ### I. the tag law -/

theorem r_eq_one_of_ind {P : Params} (hP : P.WF) (h : P.ind = 1) : P.r = 1 := by
  have h1 := hP.r_sq
  rw [h] at h1
  nlinarith [hP.r_nonneg, hP.r_le]

theorem p2_of_g2_zero {P : Params} (h : P.g2 = 0) : p2 P = 0 := by simp [p2, h]

theorem partDist_false {P : Params} (h : partDist P = false) :
    P.ind = 1 ∧ (P.dm = true → P.g2 = 0) := by
  simp only [partDist, Bool.or_eq_false_iff, decide_eq_false_iff_not, not_not,
    Bool.and_eq_false_iff] at h
  refine ⟨h.1, fun hd => ?_⟩
  rcases h.2 with h2 | h2
  · simp [hd] at h2
  · exact h2

theorem tag_onePhotonRaw {P : Params} (hP : P.WF) (t : ℕ) (a b : ℚ) :
    E (tagProd (tagW a b)) (onePhotonRaw P t) = tagGF P a b := by
  by_cases hpd : partDist P = true
  · unfold onePhotonRaw tagGF sigS
    by_cases hdm : P.dm = true <;>
      simp [hpd, hdm, E, tagProd, tagW, p0, p11, p21, p22, p1] <;> ring
  · have hpd' : partDist P = false := by simpa using hpd
    obtain ⟨hi, hg⟩ := partDist_false hpd'
    have hr := r_eq_one_of_ind hP hi
    unfold onePhotonRaw tagGF sigS
    by_cases hdm : P.dm = true
    · have h2 := p2_of_g2_zero (hg hdm)
      simp [hpd', hdm, E, tagProd, tagW, p0, p11, p21, p22, p1, h2, hr]
      ring
    · simp [hpd', hdm, E, tagProd, tagW, p0, p11, p21, p22, p1, hr]
      ring

theorem tag_onePhoton {P : Params} (hP : P.WF) (t : ℕ) (a b : ℚ) :
    E (tagProd (tagW a b)) (onePhoton P t) = tagGF P a b := by
  rw [E_onePhoton hP, tag_onePhotonRaw hP]

theorem tagGF_perfect {P : Params} (h : isPerfect P = true) (hP : P.WF) (a b : ℚ) :
    tagGF P a b = a := by
  obtain ⟨h1, h2, h3, h4⟩ := (isPerfect_iff P).mp h
  have hr := r_eq_one_of_ind hP h3
  simp [tagGF, sigS, p1, p2, h1, h2, h4, hr]

theorem tagProd_replicate_none (a b : ℚ) (n : ℕ) :
    tagProd (tagW a b) (List.replicate n none) = a ^ n := by
  simp [tagProd, tagW]

theorem tag_probDist {P : Params} (hP : P.WF) (n t : ℕ) (a b : ℚ) :
    E (tagProd (tagW a b)) (probDist P 0 n t) = tagGF P a b ^ n := by
  unfold probDist
  by_cases hs : shortcut P n = true
  · simp only [hs, if_true, E_cons, E_nil, one_mul, add_zero, tagProd_replicate_none]
    simp only [shortcut, Bool.or_eq_true, decide_eq_true_eq] at hs
    rcases hs with rfl | hp
    · simp
    · rw [tagGF_perfect hp hP]
  · have hs' : shortcut P n = false := by simpa using hs
    obtain ⟨hn, _⟩ := shortcut_false hs'
    simp only [hs', Bool.false_eq_true, if_false]
    rw [E_ltpMode_zero _ (tagProd_merge _) (tagProd_nil _) _ (photonDists_ne_nil P hn t)
      (photonDists_NonNeg P n t)]
    exact prod_photonDists P _ _ (fun t => tag_onePhoton hP t a b) n t

theorem prodFrom_tag {P : Params} (hP : P.WF) (a b : ℚ) (k : ℕ) (ns : List ℕ) (t : ℕ) :
    prodFrom (fun _ => tagProd (tagW a b)) k (modeDists P 0 ns t) = tagGF P a b ^ ns.sum := by
  induction ns generalizing k t with
  | nil => simp [modeDists, prodFrom]
  | cons n ns ih => simp only [modeDists, prodFrom, tag_probDist hP, ih, List.sum_cons, pow_add]

theorem tagProd_indicator (m : Mode) :
    tagProd (tagW 1 0) m = if m.all commonTag then 1 else 0 := by
  induction m with
  | nil => simp [tagProd]
  | cons tg m ih =>
    have : tagProd (tagW 1 0) (tg :: m) = tagW 1 0 tg * tagProd (tagW 1 0) m := by simp [tagProd]
    rw [this, ih]
    rcases tg with _ | _ | k <;> simp [tagW, commonTag]

theorem W_indicator (k : ℕ) (s : State) :
    W (fun _ => tagProd (tagW 1 0)) k s = if allCommon s then 1 else 0 := by
  induction s generalizing k with
  | nil => simp [W, allCommon]
  | cons m s ih =>
    simp only [W, ih, tagProd_indicator, allCommon, List.all_cons]
    by_cases h1 : m.all commonTag = true <;> simp [h1]

end PM.C06
