/-
  C04 — lemmas for trimming on the detector path (`Model/C04TrimDet.lean`, part A).

  On the fast path the trimmed accumulation is a `List.Sublist` of the untrimmed one.  On the detector path the dict
  is merged (one entry per distinct state) before the per-state threshold of `simulate_detectors` looks at it, so the
  entries themselves change; what survives is *domination*: for every predicate the trimmed list holds at most the
  mass the untrimmed one holds (`DomLe`).  Everything the bounds need follows from domination and non-negativity.
-/
import PercevalModel.Model.C04TrimDet
import PercevalModel.Lemmas.C04Trim
import PercevalModel.Lemmas.C04Det

namespace PM.C04
open PM.Fock PM.Dist PM.SimSpec

/-! ### domination -/

/-- for every predicate, `a` holds at most the mass `b` holds -/
def DomLe (a b : D) : Prop := ∀ f : Fock → Bool, mass (restrict f a) ≤ mass (restrict f b)

theorem restrict_true (d : D) : restrict (fun _ => true) d = d := restrict_of_all (fun _ _ => rfl)

theorem DomLe.of_sublist {a b : D} (h : a.Sublist b) (hn : NN b) : DomLe a b := fun f => by
  have := (sublist_mass_restrict h hn f).1
  linarith

theorem DomLe.refl (a : D) : DomLe a a := fun _ => le_refl _

theorem DomLe.trans {a b c : D} (h₁ : DomLe a b) (h₂ : DomLe b c) : DomLe a c := fun f => le_trans (h₁ f) (h₂ f)

theorem DomLe.mass_le {a b : D} (h : DomLe a b) : mass a ≤ mass b := by
  have := h (fun _ => true)
  rwa [restrict_true, restrict_true] at this

/-- the part of the missing mass a predicate selects is at most the missing mass -/
theorem DomLe.diff_le {a b : D} (h : DomLe a b) (f : Fock → Bool) :
    mass (restrict f b) - mass (restrict f a) ≤ mass b - mass a := by
  have h1 := mass_restrict_add f a
  have h2 := mass_restrict_add f b
  have h3 := h (fun t => !f t)
  linarith

theorem DomLe.restrict {a b : D} (h : DomLe a b) (g : Fock → Bool) : DomLe (restrict g a) (restrict g b) := fun f => by
  rw [restrict_restrict, restrict_restrict]
  exact h _

theorem restrict_mapKeys (f : Fock → Bool) (g : Fock → Fock) (d : D) :
    restrict f (mapKeys g d) = mapKeys g (restrict (fun t => f (g t)) d) := by
  induction d with
  | nil => rfl
  | cons p r ih =>
    simp only [restrict, mapKeys, List.map_cons, List.filter_cons] at *
    by_cases hp : f (g p.1) = true <;> simp [hp, ih]

theorem DomLe.mapKeys {a b : D} (h : DomLe a b) (g : Fock → Fock) : DomLe (mapKeys g a) (mapKeys g b) := fun f => by
  rw [restrict_mapKeys, restrict_mapKeys, mass_mapKeys, mass_mapKeys]
  exact h _

theorem DomLe.scale {a b : D} (h : DomLe a b) {k : ℚ} (hk : 0 ≤ k) : DomLe (scale k a) (scale k b) := fun f => by
  rw [restrict_scale, restrict_scale, mass_scale, mass_scale]
  exact mul_le_mul_of_nonneg_left (h f) hk

theorem DomLe.get_le {a b : D} (h : DomLe a b) (t : Fock) : get a t ≤ get b t := by
  rw [get_eq_mass_restrict, get_eq_mass_restrict]
  exact h _

/-- **normalising a dominated list**: every probability of the normalised trimmed list is within
`(missing mass) / (full mass)` of the probability in the normalised full list -/
theorem normalized_get_bound_dom {A Aθ : D} (h : DomLe Aθ A) (hnθ : NN Aθ) (hθ : mass Aθ ≠ 0) (t : Fock) :
    |get (normalize Aθ) t - get (normalize A) t| ≤ (mass A - mass Aθ) / mass A := by
  have hRθ : 0 < mass Aθ := lt_of_le_of_ne hnθ.mass_nonneg (Ne.symm hθ)
  have hle : mass Aθ ≤ mass A := h.mass_le
  have hR : 0 < mass A := lt_of_lt_of_le hRθ hle
  have he0 : 0 ≤ get A t - get Aθ t := by have := h.get_le t; linarith
  have he1 : get A t - get Aθ t ≤ mass A - mass Aθ := by
    rw [get_eq_mass_restrict, get_eq_mass_restrict]
    exact h.diff_le _
  have hr0 : 0 ≤ get Aθ t := get_nonneg' hnθ t
  have hr1 : get Aθ t ≤ mass Aθ := get_le_mass' hnθ t
  simp only [Dist.normalize, hθ, ne_of_gt hR, ↓reduceIte, get_scale]
  set R := mass A
  set Rθ := mass Aθ
  set r := get A t
  set rθ := get Aθ t
  have key : Rθ⁻¹ * rθ - R⁻¹ * r = (rθ * (R - Rθ) - (r - rθ) * Rθ) / (R * Rθ) := by
    field_simp
    ring
  have hpos : 0 < R * Rθ := mul_pos hR hRθ
  have hrhs : (R - Rθ) / R = ((R - Rθ) * Rθ) / (R * Rθ) := by
    field_simp
  rw [key, hrhs, abs_le]
  constructor
  · rw [neg_le, ← neg_div, div_le_div_iff_of_pos_right hpos]
    nlinarith
  · rw [div_le_div_iff_of_pos_right hpos]
    nlinarith

/-! ### the dict view `mergeD` -/

theorem sum_filter_key (g : Fock → ℚ) (k : Fock) : ∀ r : D,
    (r.map fun e => e.2 * g e.1).sum =
      get r k * g k + ((r.filter fun q => !(q.1 == k)).map fun e => e.2 * g e.1).sum
  | [] => by simp [Dist.get]
  | p :: r => by
    have ih := sum_filter_key g k r
    by_cases hp : p.1 = k
    · have e1 : get (p :: r) k = p.2 + get r k := by simp [Dist.get, hp]
      simp only [List.map_cons, List.sum_cons, List.filter_cons, hp, beq_self_eq_true, Bool.not_true,
        Bool.false_eq_true, ↓reduceIte, e1]
      rw [ih, ← hp]
      ring
    · have hb : (p.1 == k) = false := by simpa using hp
      have e1 : get (p :: r) k = get r k := by simp [Dist.get, hb]
      simp only [List.map_cons, List.sum_cons, List.filter_cons, hb, Bool.not_false, ↓reduceIte, e1]
      rw [ih]
      ring

/-- a sum weighted by the values, over the merged list = over the list -/
theorem sum_mergeF (g : Fock → ℚ) : ∀ (n : ℕ) (d : D), d.length ≤ n →
    ((mergeF n d).map fun e => e.2 * g e.1).sum = (d.map fun e => e.2 * g e.1).sum
  | 0, d, h => by
    have : d = [] := List.eq_nil_of_length_eq_zero (Nat.le_zero.1 h)
    subst this
    rfl
  | n + 1, [], _ => rfl
  | n + 1, p :: r, h => by
    have hl : (r.filter fun q => !(q.1 == p.1)).length ≤ n :=
      le_trans (List.length_filter_le _ _) (Nat.le_of_succ_le_succ h)
    simp only [mergeF, List.map_cons, List.sum_cons]
    rw [sum_mergeF g n _ hl, sum_filter_key g p.1 r]
    ring

theorem sum_mergeD (g : Fock → ℚ) (d : D) :
    ((mergeD d).map fun e => e.2 * g e.1).sum = (d.map fun e => e.2 * g e.1).sum :=
  sum_mergeF g _ d (le_refl _)

theorem mass_mergeD (d : D) : mass (mergeD d) = mass d := by
  have := sum_mergeD (fun _ => 1) d
  simpa [mass] using this

theorem NN.filter {d : D} (h : NN d) (P : Fock × ℚ → Bool) : NN (d.filter P) :=
  fun p hp => h p (List.mem_filter.1 hp).1

theorem NN_mergeF : ∀ (n : ℕ) (d : D), NN d → NN (mergeF n d)
  | 0, _, _ => fun _ hp => by simp [mergeF] at hp
  | n + 1, [], _ => fun _ hp => by simp [mergeF] at hp
  | n + 1, p :: r, h => by
    intro q hq
    simp only [mergeF, List.mem_cons] at hq
    have hr : NN r := fun x hx => h x (List.mem_cons_of_mem _ hx)
    rcases hq with rfl | hq
    · have := h p List.mem_cons_self
      have := get_nonneg' hr p.1
      simp only
      linarith
    · exact NN_mergeF n _ (hr.filter _) q hq

/-- every key of the merged list is a key of the list -/
theorem mem_mergeF_key : ∀ (n : ℕ) (d : D) (q : Fock × ℚ), q ∈ mergeF n d → ∃ p ∈ d, p.1 = q.1
  | 0, _, _, hq => by simp [mergeF] at hq
  | n + 1, [], _, hq => by simp [mergeF] at hq
  | n + 1, p :: r, q, hq => by
    simp only [mergeF, List.mem_cons] at hq
    rcases hq with rfl | hq
    · exact ⟨p, List.mem_cons_self, rfl⟩
    · obtain ⟨x, hx, e⟩ := mem_mergeF_key n _ q hq
      exact ⟨x, List.mem_cons_of_mem _ (List.mem_filter.1 hx).1, e⟩

theorem length_mergeF_le : ∀ (n : ℕ) (d : D), (mergeF n d).length ≤ d.length
  | 0, _ => by simp [mergeF]
  | n + 1, [] => by simp [mergeF]
  | n + 1, p :: r => by
    simp only [mergeF, List.length_cons]
    exact Nat.succ_le_succ (le_trans (length_mergeF_le n _) (List.length_filter_le _ _))

/-! ### one state through the detectors under a threshold -/

theorem detectStateθ_sublist (θ : ℚ) : ∀ (Ks : List Kern) (t : Fock) (p : ℚ),
    (detectStateθ θ Ks t p).Sublist (detectState Ks t)
  | [], _, _ => by simp [detectStateθ, detectState]
  | _ :: _, [], _ => by simp [detectStateθ, detectState]
  | K :: Ks, a :: t, p => by
    simp only [detectStateθ, detectState]
    apply sublist_flatMap List.filter_sublist
    intro jq
    split
    · exact List.nil_sublist _
    · exact (detectStateθ_sublist θ Ks t _).map _

theorem detectStateT_sublist (θ : ℚ) (Ks : List Kern) (t : Fock) :
    (detectStateT θ Ks t).Sublist (detectState Ks t) := by
  unfold detectStateT
  split
  · exact List.Sublist.refl _
  · exact List.Sublist.refl _
  · split
    · exact List.nil_sublist _
    · exact detectStateθ_sublist θ Ks t 1

theorem mass_restrict_flatMap {α : Type} (f : Fock → Bool) (h : α → D) : ∀ l : List α,
    mass (restrict f (l.flatMap h)) = (l.map fun e => mass (restrict f (h e))).sum
  | [] => rfl
  | a :: r => by
    simp only [List.flatMap_cons, restrict_append, mass_append, List.map_cons, List.sum_cons]
    rw [mass_restrict_flatMap f h r]

theorem mass_restrict_detect (f : Fock → Bool) (Ks : List Kern) (d : D) :
    mass (restrict f (detect Ks d)) = (d.map fun e => e.2 * mass (restrict f (detectState Ks e.1))).sum := by
  rw [detect, mass_restrict_flatMap]
  congr 1
  apply List.map_congr_left
  intro e _
  rw [restrict_scale, mass_scale]

theorem mergeD_key {d : D} {q : Fock × ℚ} (hq : q ∈ mergeD d) : ∃ p ∈ d, p.1 = q.1 := mem_mergeF_key _ d q hq

theorem NN_mergeD {d : D} (h : NN d) : NN (mergeD d) := NN_mergeF _ d h

/-- the per-state thresholds of `simulate_detectors` only remove mass, whatever the predicate -/
theorem detectθ_dom {N : ℕ} (θ : ℚ) (Ks : List Kern) (hK : KernsOK N Ks) (Y : D) (hn : NN Y) (hs : SumLe N Y) :
    DomLe (detectθ θ Ks Y) (detect Ks Y) := by
  intro f
  rw [detectθ, mass_restrict_flatMap, mass_restrict_detect, ← sum_mergeD (fun s => mass (restrict f (detectState Ks s))) Y]
  apply List.sum_le_sum
  intro e he
  obtain ⟨p, hp, hpe⟩ := mergeD_key he
  have hsum : e.1.sum ≤ N := by rw [← hpe]; exact hs p hp
  have h0 : 0 ≤ e.2 := NN_mergeD hn e he
  rw [restrict_scale, mass_scale]
  apply mul_le_mul_of_nonneg_left _ h0
  have := (sublist_mass_restrict (detectStateT_sublist (thrOf θ e.2) Ks e.1) (NN_detectState Ks e.1 hK hsum) f).1
  linarith

theorem NN_detectθ {N : ℕ} (θ : ℚ) (Ks : List Kern) (hK : KernsOK N Ks) (Y : D) (hn : NN Y) (hs : SumLe N Y) :
    NN (detectθ θ Ks Y) := by
  intro x hx
  simp only [detectθ, List.mem_flatMap] at hx
  obtain ⟨e, he, hx⟩ := hx
  obtain ⟨p, hp, hpe⟩ := mergeD_key he
  have hsum : e.1.sum ≤ N := by rw [← hpe]; exact hs p hp
  obtain ⟨q, hq, rfl⟩ := mem_scale hx
  exact mul_nonneg (NN_mergeD hn e he)
    (NN_detectState Ks e.1 hK hsum q ((detectStateT_sublist _ Ks e.1).subset hq))

theorem detStage_dom {N : ℕ} (θ : ℚ) (ds : List Det) (hK : KernsOK N (ds.map Det.kern)) (Y : D) (hn : NN Y)
    (hs : SumLe N Y) : DomLe (detStage θ ds Y) (detect (ds.map Det.kern) Y) := by
  unfold detStage
  split
  · exact DomLe.refl _
  · exact detectθ_dom θ _ hK Y hn hs

theorem NN_detStage {N : ℕ} (θ : ℚ) (ds : List Det) (hK : KernsOK N (ds.map Det.kern)) (Y : D) (hn : NN Y)
    (hs : SumLe N Y) : NN (detStage θ ds Y) := by
  unfold detStage
  split
  · exact NN_detect _ hK Y hs hn
  · exact NN_detectθ θ _ hK Y hn hs

/-! ### pure arithmetic of the three bounds -/

/-- physical performance: `φ·(1 − Fθ/a)` against `φ − F` -/
theorem phys_bound_arith {φ a F Fθ Mθ : ℚ} (ha : 0 < a) (haφ : a ≤ φ) (hF0 : 0 ≤ Fθ) (hFF : Fθ ≤ F)
    (hFM : Fθ ≤ Mθ) (hMa : Mθ ≤ a) (hdiff : F - Fθ ≤ φ - Mθ) :
    |φ * (1 - Fθ / a) - (φ - F)| ≤ φ - Mθ := by
  have e : φ * (1 - Fθ / a) - (φ - F) = F - φ * Fθ / a := by field_simp; ring
  have h1 : Fθ ≤ φ * Fθ / a := by
    rw [le_div_iff₀ ha]
    nlinarith
  have h2 : φ * Fθ / a - Fθ ≤ φ - a := by
    have : φ * Fθ / a - Fθ = Fθ * (φ - a) / a := by field_simp
    rw [this, div_le_iff₀ ha]
    nlinarith
  rw [e, abs_le]
  constructor <;> linarith

/-- logical performance: `(a/φ)·(r/p)` against `R/P` -/
theorem logical_bound_arith {φ a r p R P : ℚ} (ha : 0 < a) (haφ : a ≤ φ) (hr0 : 0 ≤ r) (hrp : r ≤ p)
    (hp : 0 < p) (hpP : p ≤ P) (hrR : r ≤ R) (hRP : R ≤ P) (hd : R - r ≤ P - p) :
    |a / φ * (r / p) - R / P| ≤ (φ - a) / φ + (P - p) / P := by
  have hφ : 0 < φ := lt_of_lt_of_le ha haφ
  have hP : 0 < P := lt_of_lt_of_le hp hpP
  have hx0 : 0 ≤ r / p := div_nonneg hr0 (le_of_lt hp)
  have hx1 : r / p ≤ 1 := by rw [div_le_iff₀ hp, one_mul]; exact hrp
  have hk : a / φ = 1 - (φ - a) / φ := by field_simp; ring
  have hk0 : 0 ≤ (φ - a) / φ := div_nonneg (by linarith) (le_of_lt hφ)
  have hxy : r / p - R / P ≤ (P - p) / P := by
    rw [div_sub_div _ _ (ne_of_gt hp) (ne_of_gt hP), div_le_div_iff₀ (mul_pos hp hP) hP]
    have key : r * P - p * R ≤ (P - p) * p := by
      nlinarith [mul_le_mul_of_nonneg_right hrp (sub_nonneg.2 hpP), mul_le_mul_of_nonneg_left hrR (le_of_lt hp)]
    nlinarith [mul_le_mul_of_nonneg_right key (le_of_lt hP)]
  have hyx : R / P - r / p ≤ (P - p) / P := by
    rw [div_sub_div _ _ (ne_of_gt hP) (ne_of_gt hp), div_le_div_iff₀ (mul_pos hP hp) hP]
    have key : R * p - P * r ≤ (P - p) * p := by
      nlinarith [mul_le_mul_of_nonneg_right hd (le_of_lt hp), mul_nonneg hr0 (sub_nonneg.2 hpP)]
    nlinarith [mul_le_mul_of_nonneg_right key (le_of_lt hP)]
  rw [hk, abs_le]
  constructor
  · nlinarith
  · nlinarith

/-! ### the tail of `probs_svd` on the detector path, in un-normalised terms -/

theorem finishDet_phys (c : Cfg) (φ a : ℚ) (Dn : D) (ha : a ≠ 0) :
    (finishDet c φ a Dn).phys = φ * (1 - mass (restrict (fun t => !physOk (cond c) t) Dn)) := by
  unfold finishDet
  simp only [ha, ↓reduceIte]
  rfl

theorem finishDet_logical (c : Cfg) (φ a : ℚ) (Dn : D) (ha : 0 < a) (hφ : 0 < φ)
    (hP : mass (restrict (physOk (cond c)) Dn) ≠ 0) :
    (finishDet c φ a Dn).logical =
      a / φ * (mass (restrict (logicOk (cond c)) (restrict (physOk (cond c)) Dn)) /
        mass (restrict (physOk (cond c)) Dn)) := by
  unfold finishDet
  simp only [ne_of_gt ha, ↓reduceIte, ha, hφ, and_self]
  show a / φ * (postSelect c (normalize (restrict (physOk (cond c)) Dn))).2 = _
  rw [postSelect_normalize_snd c _ hP]

theorem finishDet_results (c : Cfg) (φ a : ℚ) (Dn : D) (ha : a ≠ 0)
    (hP : mass (restrict (physOk (cond c)) Dn) ≠ 0)
    (hR : mass (restrict (logicOk (cond c)) (restrict (physOk (cond c)) Dn)) ≠ 0) :
    (finishDet c φ a Dn).results =
      normalize (mapKeys (reported (cond c)) (restrict (logicOk (cond c)) (restrict (physOk (cond c)) Dn))) := by
  unfold finishDet
  simp only [ha, ↓reduceIte]
  show (postSelect c (normalize (restrict (physOk (cond c)) Dn))).1 = _
  rw [postSelect_normalize_fst c _ hP hR]

/-! ### the facts about one request on the detector path at a precision `P` -/

theorem scale_one' (d : D) : scale 1 d = d := by
  induction d with
  | nil => rfl
  | cons p r ih =>
    simp only [scale, List.map_cons, one_mul] at *
    rw [ih]

theorem NN_normalize {d : D} (h : NN d) : NN (normalize d) := by
  unfold Dist.normalize
  split
  · exact h
  · exact h.scale (inv_nonneg.2 h.mass_nonneg)

theorem SumLe.scale {N : ℕ} {d : D} (h : SumLe N d) (k : ℚ) : SumLe N (scale k d) := by
  intro p hp
  obtain ⟨q, hq, rfl⟩ := mem_scale hp
  exact h q hq

theorem SumLe.normalize {N : ℕ} {d : D} (h : SumLe N d) : SumLe N (normalize d) := by
  unfold Dist.normalize
  split
  · exact h
  · exact h.scale _

theorem detect_sublist (Ks : List Kern) {a b : D} (h : a.Sublist b) : (detect Ks a).Sublist (detect Ks b) :=
  sublist_flatMap h (fun _ => List.Sublist.refl _)

/-- what `_probs_svd_fast` accumulates on the detector path at precision `P` (mask off) -/
abbrev Xθ (eng : Fock → D) (P : Prec) (c : Cfg) (members : List Member) : D :=
  codeResθ eng P { c with pnr := false } members

structure TrimDetFacts (eng : Fock → D) (P : Prec) (c : Cfg) (ds : List Det) (members : List Member) : Prop where
  nnE : NN (detFullU eng c ds members)
  massE : mass (detFullU eng c ds members) = physInputs c members
  /-- above the photon filter the un-normalised detected list is the specification's -/
  specPass : restrict (physOk (cond c)) (detectedFull eng c.m ds members) =
    restrict (physOk (cond c)) (detFullU eng c ds members)
  nnA : 0 ≤ mass (Xθ eng P c members)
  massLe : mass (Xθ eng P c members) ≤ physInputs c members
  nnT : NN (detTrimU eng P c ds members)
  dom : DomLe (detTrimU eng P c ds members) (detFullU eng c ds members)
  massT : mass (detTrimU eng P c ds members) ≤ mass (Xθ eng P c members)

theorem trimDetFacts (eng : Fock → D) (P : Prec) (c : Cfg) (ds : List Det) (members : List Member) (N : ℕ)
    (hp : allPnr ds = false) (he : EngOK eng c.m members) (hmix : MixOK members)
    (hN : ∀ mb ∈ members, mb.n ≤ N) (hK : KernsOK N (ds.map Det.kern)) :
    TrimDetFacts eng P c ds members := by
  have F := detFacts eng c ds members N hp he hmix hN hK
  have hne : ds.isEmpty = false := by
    cases ds with
    | nil => simp [allPnr] at hp
    | cons _ _ => rfl
  have hDF : detectedFull eng c.m ds members = detect (ds.map Det.kern) (full eng c.m members) := by
    simp [detectedFull, hne]
  have hE : detFullU eng c ds members = detect (ds.map Det.kern) (codeRes eng { c with pnr := false } members) := rfl
  have hX := codeRes_maskoff eng c members he.shape
  have hsl := full_sumLe eng c.m N members he.shape hN
  have hslX : SumLe N (codeRes eng { c with pnr := false } members) := by rw [hX]; exact hsl.restrict _
  have hnnX : NN (codeRes eng { c with pnr := false } members) :=
    NN_codeRes eng { c with pnr := false } members he.nonneg hmix.wpos
  have hsub : (Xθ eng P c members).Sublist (codeRes eng { c with pnr := false } members) :=
    codeResθ_sublist eng P { c with pnr := false } members (fun mb hmb s hs q hq => (he.shape mb hmb s hs q hq).1)
  have hnnXθ : NN (Xθ eng P c members) := NN.of_sublist hsub hnnX
  have hslXθ : SumLe N (Xθ eng P c members) := fun p hp => hslX p (hsub.subset hp)
  have hnnE : NN (detFullU eng c ds members) := by rw [hE]; exact NN_detect _ hK _ hslX hnnX
  have hmE : mass (detFullU eng c ds members) = physInputs c members := by
    rw [hE, mass_detect_le _ hK _ hslX, F.massX]
  have hnnY : NN (detInθ eng P c members) := NN_normalize hnnXθ
  have hslY : SumLe N (detInθ eng P c members) := hslXθ.normalize
  have hdomY := detStage_dom (pThreshold P c members) ds hK _ hnnY hslY
  have hnnD : NN (detResθ eng P c ds members) := NN_detStage (pThreshold P c members) ds hK _ hnnY hslY
  have ha0 : 0 ≤ mass (Xθ eng P c members) := hnnXθ.mass_nonneg
  -- the trimmed un-normalised list is dominated by the detection of what was accumulated
  have hdom1 : DomLe (detTrimU eng P c ds members) (detect (ds.map Det.kern) (Xθ eng P c members)) := by
    by_cases ha : mass (Xθ eng P c members) = 0
    · intro f
      have e : detTrimU eng P c ds members = scale 0 (detResθ eng P c ds members) := by
        unfold detTrimU
        rw [show mass (codeResθ eng P { c with pnr := false } members) = 0 from ha]
      rw [e, restrict_scale, mass_scale, zero_mul]
      exact ((NN_detect _ hK _ hslXθ hnnXθ).restrict f).mass_nonneg
    · have hn : detInθ eng P c members = scale (mass (Xθ eng P c members))⁻¹ (Xθ eng P c members) := by
        simp [detInθ, Dist.normalize, ha]
      have e : detect (ds.map Det.kern) (Xθ eng P c members) =
          scale (mass (Xθ eng P c members)) (detect (ds.map Det.kern) (detInθ eng P c members)) := by
        rw [hn, detect_scale, scale_scale, mul_inv_cancel₀ ha, scale_one']
      rw [e]
      exact hdomY.scale ha0
  refine ⟨hnnE, hmE, ?_, ha0, ?_, hnnD.scale ha0, ?_, ?_⟩
  · rw [hDF, hE, hX]
    exact restrict_detect_prune (ds.map Det.kern) hK (minFilter c) _ hsl
  · rw [← F.massX]
    exact sublist_mass_le hsub hnnX
  · rw [hE]
    exact hdom1.trans (DomLe.of_sublist (detect_sublist _ hsub) (by rw [← hE]; exact hnnE))
  · have := hdom1.mass_le
    rwa [mass_detect_le _ hK _ hslXθ] at this

/-! ### the three bounds -/

theorem probsSvdDetθ_nonpnr (eng : Fock → D) (P : Prec) (c : Cfg) (ds : List Det) (members : List Member)
    (hp : allPnr ds = false) :
    probsSvdDetθ eng P c ds members =
      finishDet c (physInputs c members) (mass (Xθ eng P c members)) (detResθ eng P c ds members) := by
  unfold probsSvdDetθ
  simp only [hp, Bool.false_eq_true, ↓reduceIte]

theorem retained_eq_restrict (c : Cfg) (d : D) :
    retained (cond c) d = restrict (logicOk (cond c)) (restrict (physOk (cond c)) d) := by
  rw [restrict_restrict]; rfl

theorem detTrimU_restrict (eng : Fock → D) (P : Prec) (c : Cfg) (ds : List Det) (members : List Member)
    (f : Fock → Bool) :
    mass (restrict f (detTrimU eng P c ds members)) =
      mass (Xθ eng P c members) * mass (restrict f (detResθ eng P c ds members)) := by
  unfold detTrimU
  rw [restrict_scale, mass_scale]

/-- the trimmed masses are ordered: retained ≤ passing ≤ total, and the input-side loss is part of the total -/
theorem trimmedDet_order (eng : Fock → D) (P : Prec) (c : Cfg) (ds : List Det) (members : List Member) (N : ℕ)
    (hp : allPnr ds = false) (he : EngOK eng c.m members) (hmix : MixOK members)
    (hN : ∀ mb ∈ members, mb.n ≤ N) (hK : KernsOK N (ds.map Det.kern)) :
    0 ≤ trimmedRetainedDet eng P c ds members ∧
    trimmedRetainedDet eng P c ds members ≤ trimmedPassDet eng P c ds members ∧
    trimmedPassDet eng P c ds members ≤ trimmedMassDet eng P c ds members ∧
    physInputs c members - mass (Xθ eng P c members) ≤ trimmedMassDet eng P c ds members := by
  have F := trimDetFacts eng P c ds members N hp he hmix hN hK
  have e : ∀ d : D, restrict (fun t => physOk (cond c) t && logicOk (cond c) t) d =
      restrict (logicOk (cond c)) (restrict (physOk (cond c)) d) := fun d => by rw [restrict_restrict]
  refine ⟨?_, ?_, ?_, ?_⟩
  · unfold trimmedRetainedDet
    have := F.dom (fun t => physOk (cond c) t && logicOk (cond c) t)
    linarith
  · unfold trimmedRetainedDet trimmedPassDet
    rw [e, e]
    exact (F.dom.restrict (physOk (cond c))).diff_le _
  · unfold trimmedPassDet trimmedMassDet
    exact F.dom.diff_le _
  · unfold trimmedMassDet
    rw [F.massE]
    have := F.massT
    linarith

theorem trimDet_phys_bound (eng : Fock → D) (P : Prec) (c : Cfg) (ds : List Det) (members : List Member) (N : ℕ)
    (hp : allPnr ds = false) (he : EngOK eng c.m members) (hmix : MixOK members)
    (hN : ∀ mb ∈ members, mb.n ≤ N) (hK : KernsOK N (ds.map Det.kern)) :
    |(probsSvdDetθ eng P c ds members).phys - physPerf (cond c) (detectedFull eng c.m ds members)| ≤
      trimmedMassDet eng P c ds members := by
  have F := trimDetFacts eng P c ds members N hp he hmix hN hK
  have hadd := mass_restrict_add (physOk (cond c)) (detFullU eng c ds members)
  rw [F.massE] at hadd
  have hF0 : 0 ≤ mass (restrict (fun t => !physOk (cond c) t) (detFullU eng c ds members)) :=
    (F.nnE.restrict _).mass_nonneg
  have hP0 : 0 ≤ mass (restrict (physOk (cond c)) (detFullU eng c ds members)) := (F.nnE.restrict _).mass_nonneg
  rw [probsSvdDetθ_nonpnr eng P c ds members hp]
  unfold physPerf trimmedMassDet
  rw [F.specPass, F.massE]
  by_cases ha : mass (Xθ eng P c members) = 0
  · have e1 : (finishDet c (physInputs c members) (mass (Xθ eng P c members)) (detResθ eng P c ds members)).phys =
        physInputs c members := by
      unfold finishDet
      simp [ha]
    have e2 : mass (detTrimU eng P c ds members) = 0 := by
      have := detTrimU_restrict eng P c ds members (fun _ => true)
      rw [restrict_true, restrict_true, ha, zero_mul] at this
      exact this
    rw [e1, e2, abs_le]
    constructor <;> linarith
  · have hapos : 0 < mass (Xθ eng P c members) := lt_of_le_of_ne F.nnA (Ne.symm ha)
    rw [finishDet_phys c _ _ _ ha]
    have hs := detTrimU_restrict eng P c ds members (fun t => !physOk (cond c) t)
    have hFθ : mass (restrict (fun t => !physOk (cond c) t) (detResθ eng P c ds members)) =
        mass (restrict (fun t => !physOk (cond c) t) (detTrimU eng P c ds members)) / mass (Xθ eng P c members) := by
      rw [hs]; field_simp
    rw [hFθ]
    have hb := phys_bound_arith (φ := physInputs c members) (a := mass (Xθ eng P c members))
      (F := mass (restrict (fun t => !physOk (cond c) t) (detFullU eng c ds members)))
      (Fθ := mass (restrict (fun t => !physOk (cond c) t) (detTrimU eng P c ds members)))
      (Mθ := mass (detTrimU eng P c ds members)) hapos F.massLe (F.nnT.restrict _).mass_nonneg (F.dom _)
      (mass_restrict_le F.nnT _) F.massT (by have := F.dom.diff_le (fun t => !physOk (cond c) t); rwa [F.massE] at this)
    have e : mass (restrict (physOk (cond c)) (detFullU eng c ds members)) =
        physInputs c members - mass (restrict (fun t => !physOk (cond c) t) (detFullU eng c ds members)) := by linarith
    rw [e]
    exact hb

theorem trimDet_logical_bound (eng : Fock → D) (P : Prec) (c : Cfg) (ds : List Det) (members : List Member) (N : ℕ)
    (hp : allPnr ds = false) (he : EngOK eng c.m members) (hmix : MixOK members)
    (hN : ∀ mb ∈ members, mb.n ≤ N) (hK : KernsOK N (ds.map Det.kern))
    (hpass : mass (restrict (physOk (cond c)) (detTrimU eng P c ds members)) ≠ 0) :
    |(probsSvdDetθ eng P c ds members).logical - logicalPerf (cond c) (detectedFull eng c.m ds members)| ≤
      (physInputs c members - mass (Xθ eng P c members)) / physInputs c members +
      trimmedPassDet eng P c ds members / physPerf (cond c) (detectedFull eng c.m ds members) := by
  have F := trimDetFacts eng P c ds members N hp he hmix hN hK
  have hs := detTrimU_restrict eng P c ds members (physOk (cond c))
  have ha : mass (Xθ eng P c members) ≠ 0 := by
    intro h0
    apply hpass
    rw [hs, h0, zero_mul]
  have hapos : 0 < mass (Xθ eng P c members) := lt_of_le_of_ne F.nnA (Ne.symm ha)
  have hφ : 0 < physInputs c members := lt_of_lt_of_le hapos F.massLe
  have hPn : mass (restrict (physOk (cond c)) (detResθ eng P c ds members)) ≠ 0 := by
    intro h0
    apply hpass
    rw [hs, h0, mul_zero]
  have hPθpos : 0 < mass (restrict (physOk (cond c)) (detTrimU eng P c ds members)) :=
    lt_of_le_of_ne (F.nnT.restrict _).mass_nonneg (Ne.symm hpass)
  have hPP := F.dom (physOk (cond c))
  have hPpos : 0 < mass (restrict (physOk (cond c)) (detFullU eng c ds members)) := lt_of_lt_of_le hPθpos hPP
  rw [probsSvdDetθ_nonpnr eng P c ds members hp, finishDet_logical c _ _ _ hapos hφ hPn]
  have hphys : physPerf (cond c) (detectedFull eng c.m ds members) =
      mass (restrict (physOk (cond c)) (detFullU eng c ds members)) := by
    unfold physPerf; rw [F.specPass]
  have hlog : logicalPerf (cond c) (detectedFull eng c.m ds members) =
      mass (restrict (logicOk (cond c)) (restrict (physOk (cond c)) (detFullU eng c ds members))) /
        mass (restrict (physOk (cond c)) (detFullU eng c ds members)) := by
    unfold logicalPerf
    rw [hphys, if_neg (ne_of_gt hPpos), retained_eq_restrict, F.specPass]
  -- the ratio is scale-invariant
  have hratio : mass (restrict (logicOk (cond c)) (restrict (physOk (cond c)) (detResθ eng P c ds members))) /
        mass (restrict (physOk (cond c)) (detResθ eng P c ds members)) =
      mass (restrict (logicOk (cond c)) (restrict (physOk (cond c)) (detTrimU eng P c ds members))) /
        mass (restrict (physOk (cond c)) (detTrimU eng P c ds members)) := by
    have h2 : mass (restrict (logicOk (cond c)) (restrict (physOk (cond c)) (detTrimU eng P c ds members))) =
        mass (Xθ eng P c members) *
          mass (restrict (logicOk (cond c)) (restrict (physOk (cond c)) (detResθ eng P c ds members))) := by
      rw [restrict_restrict, restrict_restrict]
      exact detTrimU_restrict eng P c ds members _
    rw [h2, hs]
    field_simp
  rw [hratio, hlog, hphys]
  unfold trimmedPassDet
  have hdomP := F.dom.restrict (physOk (cond c))
  exact logical_bound_arith hapos F.massLe ((F.nnT.restrict _).restrict _).mass_nonneg
    (mass_restrict_le (F.nnT.restrict _) _) hPθpos hPP (hdomP _) (mass_restrict_le (F.nnE.restrict _) _)
    (hdomP.diff_le _)

theorem trimDet_results_bound (eng : Fock → D) (P : Prec) (c : Cfg) (ds : List Det) (members : List Member) (N : ℕ)
    (hp : allPnr ds = false) (he : EngOK eng c.m members) (hmix : MixOK members)
    (hN : ∀ mb ∈ members, mb.n ≤ N) (hK : KernsOK N (ds.map Det.kern))
    (hret : mass (restrict (fun t => physOk (cond c) t && logicOk (cond c) t) (detTrimU eng P c ds members)) ≠ 0)
    (t : Fock) :
    |get (probsSvdDetθ eng P c ds members).results t -
        get (conditioned (cond c) (detectedFull eng c.m ds members)) t| ≤
      trimmedRetainedDet eng P c ds members / mass (retained (cond c) (detectedFull eng c.m ds members)) := by
  have F := trimDetFacts eng P c ds members N hp he hmix hN hK
  have e : ∀ d : D, restrict (fun t => physOk (cond c) t && logicOk (cond c) t) d =
      restrict (logicOk (cond c)) (restrict (physOk (cond c)) d) := fun d => by rw [restrict_restrict]
  rw [e] at hret
  have hsR : mass (restrict (logicOk (cond c)) (restrict (physOk (cond c)) (detTrimU eng P c ds members))) =
      mass (Xθ eng P c members) *
        mass (restrict (logicOk (cond c)) (restrict (physOk (cond c)) (detResθ eng P c ds members))) := by
    rw [restrict_restrict, restrict_restrict]
    exact detTrimU_restrict eng P c ds members _
  have ha : mass (Xθ eng P c members) ≠ 0 := by
    intro h0; apply hret; rw [hsR, h0, zero_mul]
  have hRn : mass (restrict (logicOk (cond c)) (restrict (physOk (cond c)) (detResθ eng P c ds members))) ≠ 0 := by
    intro h0; apply hret; rw [hsR, h0, mul_zero]
  have hnnD : NN (detResθ eng P c ds members) := by
    intro x hx
    have hapos : 0 < mass (Xθ eng P c members) := lt_of_le_of_ne F.nnA (Ne.symm ha)
    have hm : (x.1, mass (Xθ eng P c members) * x.2) ∈ detTrimU eng P c ds members := by
      unfold detTrimU Dist.scale
      exact List.mem_map_of_mem (f := fun p : Fock × ℚ => (p.1, mass (codeResθ eng P { c with pnr := false } members) * p.2)) hx
    have := F.nnT _ hm
    simp only at this
    exact nonneg_of_mul_nonneg_right this hapos
  have hPn : mass (restrict (physOk (cond c)) (detResθ eng P c ds members)) ≠ 0 := by
    intro h0
    apply hRn
    have h1 := mass_restrict_le (hnnD.restrict (physOk (cond c))) (logicOk (cond c))
    have h2 := ((hnnD.restrict (physOk (cond c))).restrict (logicOk (cond c))).mass_nonneg
    linarith
  rw [probsSvdDetθ_nonpnr eng P c ds members hp, finishDet_results c _ _ _ ha hPn hRn]
  -- the normalised list does not see the scale
  have hscale : mapKeys (reported (cond c))
        (restrict (logicOk (cond c)) (restrict (physOk (cond c)) (detTrimU eng P c ds members))) =
      scale (mass (Xθ eng P c members)) (mapKeys (reported (cond c))
        (restrict (logicOk (cond c)) (restrict (physOk (cond c)) (detResθ eng P c ds members)))) := by
    unfold detTrimU
    rw [restrict_scale, restrict_scale, mapKeys_scale]
  have hnorm : normalize (mapKeys (reported (cond c))
        (restrict (logicOk (cond c)) (restrict (physOk (cond c)) (detResθ eng P c ds members)))) =
      normalize (mapKeys (reported (cond c))
        (restrict (logicOk (cond c)) (restrict (physOk (cond c)) (detTrimU eng P c ds members)))) := by
    rw [hscale, normalize_scale _ ha _ (by rwa [mass_mapKeys])]
  rw [hnorm]
  unfold conditioned trimmedRetainedDet
  rw [retained_eq_restrict, F.specPass, e, e]
  have hdom : DomLe
      (mapKeys (reported (cond c)) (restrict (logicOk (cond c)) (restrict (physOk (cond c)) (detTrimU eng P c ds members))))
      (mapKeys (reported (cond c)) (restrict (logicOk (cond c)) (restrict (physOk (cond c)) (detFullU eng c ds members)))) :=
    ((F.dom.restrict _).restrict _).mapKeys _
  have hnn : NN (mapKeys (reported (cond c))
      (restrict (logicOk (cond c)) (restrict (physOk (cond c)) (detTrimU eng P c ds members)))) := by
    intro p hp
    simp only [mapKeys, List.mem_map] at hp
    obtain ⟨q, hq, rfl⟩ := hp
    exact F.nnT q (mem_restrict (mem_restrict hq))
  have hb := normalized_get_bound_dom hdom hnn (by rwa [mass_mapKeys]) t
  rwa [mass_mapKeys, mass_mapKeys] at hb

end PM.C04
