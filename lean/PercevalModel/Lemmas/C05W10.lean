/-
  C05 — wave 10 (proofs only): the cache-free machine of the Processor.

  `Pr.config` alone is not closed under the setters (`with_input` reads the heralds and the source of that
  moment, and writes them into the merged input), so the machine runs on the USER STATE `PrU`: everything the
  user's calls wrote (components, heralds, post-selection, detectors, the three noise ghosts, the merged input,
  the filter asked for) and nothing a query writes (stored filter, `auto`, `_inputs_map`, `_simulator`,
  `_simulator_precision_set`).  For the model in which the automatic filter is not stored (`stepPr false`) a
  query never changes the user state; for the code as it is (`stepPr true`) it does not either (the stored filter
  is not part of it), which is why the statement about `config` holds for both variants.
-/
import PercevalModel.Lemmas.C05More

namespace PM.C05

open SM

/-- what the user's calls wrote; no cache, no stored automatic value -/
structure PrU where
  comps : Nat
  her : Nat
  nHer : Nat
  ps : Nat
  det : Nat
  held : NoiseV
  noise : NoiseV
  source : NoiseV
  input : Option PrIn
  filtUser : Option Nat
  deriving DecidableEq, Repr

def Pr.user (s : Pr) : PrU :=
  ⟨s.comps, s.her, s.nHer, s.ps, s.det, s.held, s.noise, s.source, s.input, s.filtUser⟩

/-- the cache-free machine of the Processor on user states -/
def uStepPr (u : PrU) : PrOp → PrU
  | .setComps c => { u with comps := c }
  | .addComp c => { u with comps := c }
  | .addDet d => { u with det := d }
  | .addHerald h n => { u with her := h, nHer := n }
  | .setPs p => { u with ps := p }
  | .clearPs => { u with ps := 0 }
  | .setNoise v => { u with held := v, noise := v, source := v }
  | .mutateNoise v => { u with held := v }
  | .withInput k i n =>
    { u with input := some ⟨k, i, n, if k = .bs then u.her else 0, if k = .bs then u.nHer else 0⟩ }
  | .setFilter k => { u with filtUser := some k }
  | .probs _ => u
  | .samples => u

/-- the configuration read off a user state -/
def PrU.config (u : PrU) : PrCfg :=
  ⟨u.comps, u.her, u.nHer, u.ps, u.det, u.noise, u.input.map fun i => (i.kind, i.id, i.n), u.filtUser⟩

/-- `Pr.inputCurrent` read off a user state -/
def PrU.inputCurrent (u : PrU) : Prop :=
  ∀ i, u.input = some i → i.her = (if i.kind = .bs then u.her else 0) ∧ i.nHer = (if i.kind = .bs then u.nHer else 0)

theorem user_config (s : Pr) : s.user.config = s.config := rfl

theorem user_inputCurrent (s : Pr) : s.user.inputCurrent ↔ s.inputCurrent := Iff.rfl

/-- every step of either variant of the Processor machine acts on the user state as the cache-free machine -/
theorem stepPr_user (persist : Bool) (s : Pr) (op : PrOp) :
    (stepPr persist s op).1.user = uStepPr s.user op := by
  cases op with
  | clearPs =>
    simp only [stepPr, uStepPr]
    split
    · rename_i h; simp [Pr.user, h]
    · rfl
  | probs prec =>
    simp only [stepPr, uStepPr]
    split
    · rfl
    · split <;> rfl
  | samples =>
    simp only [stepPr, uStepPr]
    split
    · rfl
    · split <;> rfl
  | _ => rfl

theorem uStepPr_query (u : PrU) (op : PrOp) (h : op.isQuery = true) : uStepPr u op = u := by
  cases op <;> first | rfl | simp [PrOp.isQuery] at h

/-- the user state after any history, from any state -/
theorem exec_user_fold (persist : Bool) (s : Pr) (ops : List PrOp) :
    (exec (stepPr persist) s ops).user = ops.foldl uStepPr s.user :=
  exec_config_fold (stepPr persist) Pr.user uStepPr (stepPr_user persist) s ops

/-- deleting the queries from a history changes nothing the user wrote -/
theorem exec_user_filter (persist : Bool) (s : Pr) (ops : List PrOp) :
    (exec (stepPr persist) s (ops.filter fun op => !op.isQuery)).user = (exec (stepPr persist) s ops).user := by
  rw [exec_user_fold, exec_user_fold, foldl_filter_query uStepPr PrOp.isQuery uStepPr_query]

/-! ## a Fock-state input, NO user filter, a perfect source: the raw answer and the fresh answer -/

/-- what `probs(precision)` answers in any invariant state with a Fock-state input, no stored filter and a
perfect source: the automatic filter counts the photons of the merged input minus those of the CURRENT heralds -/
theorem probsPr_raw_auto (persist : Bool) (s : Pr) (prec : Option Nat) (h : InvPr persist s) (i : PrIn)
    (hi : s.input = some i) (hk : i.kind = .bs) (hf : s.filt = none) (hp : s.noise.2 = true) :
    (stepPr persist s (.probs prec)).2 =
      .res ⟨s.comps, s.her, s.ps, s.det, s.noise.1, some s.noise.1, .bs, i.id, i.her,
            i.n + i.nHer - s.nHer, prec⟩ := by
  obtain ⟨h1, h2, h3, _, _⟩ := h
  have e2 : s.inputsMap.getD (genMap s.noise i) = genMap s.noise i := by
    cases hm : s.inputsMap with
    | none => simp
    | some y =>
      obtain ⟨i', hi', hy⟩ := h3 _ hm
      rw [hi] at hi'; cases hi'; simpa using hy
  simp only [stepPr, hi, effFilter, autoFilter, hf, simFor_eq s prec h2, h1, hp, hk, and_self, if_true]
  rw [e2]
  simp only [genMap, hk, if_true]

theorem specPr_bs_auto (s : Pr) (prec : Option Nat) (i : PrIn)
    (hi : s.input = some i) (hk : i.kind = .bs) (hf : s.filtUser = none) (hp : s.noise.2 = true) :
    specPr s.config prec =
      .res ⟨s.comps, s.her, s.ps, s.det, s.noise.1, some s.noise.1, .bs, i.id, s.her, i.n, prec⟩ := by
  simp [specPr, Pr.config, hi, hk, hf, hp, autoFilter]

/-- an imperfect source and no filter: refused, whatever the heralds written into the input -/
theorem probsPr_raw_imperfect (persist : Bool) (s : Pr) (prec : Option Nat) (h : InvPr persist s) (i : PrIn)
    (hi : s.input = some i) (hf : s.filt = none) (hp : s.noise.2 = false) :
    (stepPr persist s (.probs prec)).2 = .exc "ValueError" := by
  obtain ⟨h1, _, _, _, _⟩ := h
  simp [stepPr, hi, effFilter, autoFilter, hf, h1, hp]

theorem specPr_imperfect (s : Pr) (prec : Option Nat) (i : PrIn)
    (hi : s.input = some i) (hf : s.filtUser = none) (hp : s.noise.2 = false) :
    specPr s.config prec = .exc "ValueError" := by
  simp [specPr, Pr.config, hi, hf, hp, autoFilter]

end PM.C05
