/-
  C19 (extension) — a model of the text `json.dumps` produces (default arguments: separators `", "` and `": "`,
  `ensure_ascii=True`, `allow_nan=True`, no indentation) for the values `JobGroup._to_json` hands to it, and the
  proof that the recogniser of `Model/C19TW.lean` (`json.loads` returns a dictionary) accepts the text of every
  dictionary and that this text ends in `}`.

  Values (`JV`): `None`, `True`, `False`, the three non-finite floats, number literals (sign, integer part without
  leading zero, optional fraction, optional exponent — what `int.__repr__` / `float.__repr__` produce), strings (lists
  of code points, encoded as `py_encode_basestring_ascii` does: `\"`, `\\`, `\n`, `\r`, `\t`, `\b`, `\f`, `\uXXXX` for
  everything outside space … `~`, surrogate pairs above U+FFFF), lists and dictionaries with string keys (`json.dumps`
  turns int / float / bool / None keys into strings before writing them), nested to any depth.
  Core Lean only.
-/
import PercevalModel.Lemmas.C19TW

namespace PM.C19.TW

/-! ## the values and their text -/

def digitCh (d : Fin 10) : Ch := 48 + d.val

/-- at least one decimal digit -/
structure Digits where
  head : Fin 10
  tail : List (Fin 10)

def Digits.text (d : Digits) : Text := digitCh d.head :: d.tail.map digitCh

/-- an integer part: `0`, or a digit 1–9 followed by digits -/
inductive IntPart
  | zero
  | pos (first : Fin 9) (rest : List (Fin 10))

def IntPart.text : IntPart → Text
  | .zero => [48]
  | .pos f r => (49 + f.val) :: r.map digitCh

inductive ExpSign
  | none | plus | minus

def ExpSign.text : ExpSign → Text
  | .none => []
  | .plus => [43]
  | .minus => [45]

/-- a finite number as `repr` writes it: `-?int(.digits)?(e[+-]?digits)?` -/
structure Num where
  neg : Bool
  int : IntPart
  frac : Option Digits
  exp : Option (ExpSign × Digits)

def signText (neg : Bool) : Text := if neg then [45] else []

def fracText : Option Digits → Text
  | none => []
  | some d => 46 :: d.text

def expText : Option (ExpSign × Digits) → Text
  | none => []
  | some (s, d) => 101 :: (s.text ++ d.text)

def Num.text (n : Num) : Text := ((signText n.neg ++ n.int.text) ++ fracText n.frac) ++ expText n.exp

/-- lower-case hexadecimal digit of `d % 16` -/
def hexCh (d : Nat) : Ch := if d % 16 < 10 then 48 + d % 16 else 87 + d % 16

/-- `\uXXXX` -/
def u4 (n : Nat) : Text := [92, 117, hexCh (n / 4096), hexCh (n / 256), hexCh (n / 16), hexCh n]

/-- one code point as `json.dumps` (ensure_ascii) writes it inside a string -/
def encChar (c : Nat) : Text :=
  if c = 34 then [92, 34] else if c = 92 then [92, 92] else if c = 10 then [92, 110]
  else if c = 13 then [92, 114] else if c = 9 then [92, 116] else if c = 8 then [92, 98]
  else if c = 12 then [92, 102]
  else if 32 ≤ c ∧ c ≤ 126 then [c]
  else if c < 65536 then u4 c
  else u4 (55296 + (c - 65536) / 1024) ++ u4 (56320 + (c - 65536) % 1024)

def strBody : List Nat → Text
  | [] => [34]
  | c :: r => encChar c ++ strBody r

def strText (s : List Nat) : Text := 34 :: strBody s

mutual
inductive JV
  | null | tt | ff | nan | inf | ninf
  | num (n : Num)
  | str (s : List Nat)
  | arr (l : JL)
  | obj (m : JM)
inductive JL
  | nil
  | cons (v : JV) (l : JL)
inductive JM
  | nil
  | cons (k : List Nat) (v : JV) (m : JM)
end

mutual
/-- `json.dumps(v)` -/
def JV.dumps : JV → Text
  | .null => [110, 117, 108, 108]
  | .tt => [116, 114, 117, 101]
  | .ff => [102, 97, 108, 115, 101]
  | .nan => [78, 97, 78]
  | .inf => [73, 110, 102, 105, 110, 105, 116, 121]
  | .ninf => [45, 73, 110, 102, 105, 110, 105, 116, 121]
  | .num n => n.text
  | .str s => strText s
  | .arr l => 91 :: l.first
  | .obj m => 123 :: m.first
/-- after `[` -/
def JL.first : JL → Text
  | .nil => [93]
  | .cons v l => v.dumps ++ l.more
/-- after an element of a list -/
def JL.more : JL → Text
  | .nil => [93]
  | .cons v l => 44 :: 32 :: (v.dumps ++ l.more)
/-- after `{` -/
def JM.first : JM → Text
  | .nil => [125]
  | .cons k v m => strText k ++ 58 :: 32 :: (v.dumps ++ m.more)
/-- after a member of a dictionary -/
def JM.more : JM → Text
  | .nil => [125]
  | .cons k v m => 44 :: 32 :: (strText k ++ 58 :: 32 :: (v.dumps ++ m.more))
end

/-! ## the scanner on these texts -/

theorem scanFrom_cons (s : St) (c : Ch) (t : Text) : scanFrom s (c :: t) = scanFrom (step s c) t := rfl

theorem scanFrom_nil (s : St) : scanFrom s [] = s := rfl

/-- the two modes in which a value may start -/
def vmode (b : Bool) : Mode := if b then .valueOrEnd else .value

theorem step_vmode (stk : List Ctx) (b : Bool) (c : Ch) : step ⟨vmode b, stk⟩ c = valueStep stk c b := by
  cases b <;> rfl

theorem step_num_some (stk : List Ctx) (n : NumSt) (c : Ch) (m : Mode) (h : numStep n c = some m) :
    step ⟨.num n, stk⟩ c = ⟨m, stk⟩ := by
  simp [step, h]

/-- a value has just ended under `stk`: either the scanner knows it, or it is inside a number that may end here -/
def Ended (stk : List Ctx) (s : St) : Prop :=
  s = closeValue stk ∨ ∃ n : NumSt, n.final = true ∧ s = ⟨.num n, stk⟩

theorem numStep_sep (n : NumSt) (h : n.final = true) (c : Ch) (hc : c = 44 ∨ c = 93 ∨ c = 125) :
    numStep n c = none := by
  rcases hc with rfl | rfl | rfl <;> cases n <;> first | (exact absurd h (by decide)) | decide

theorem ended_step (x : Ctx) (rest : List Ctx) (s : St) (hs : Ended (x :: rest) s) (c : Ch)
    (hc : c = 44 ∨ c = 93 ∨ c = 125) : step s c = afterValueStep (x :: rest) c := by
  rcases hs with rfl | ⟨n, hn, rfl⟩
  · simp [closeValue, step]
  · simp [step, numStep_sep n hn c hc, hn]

/-! ### strings -/

theorem isHex_hexCh (d : Nat) : isHex (hexCh d) = true := by
  have key : ∀ r : Fin 16, isHex (if r.val < 10 then 48 + r.val else 87 + r.val) = true := by decide
  exact key ⟨d % 16, Nat.mod_lt _ (by decide)⟩

theorem step_hex (k : Bool) (n : Nat) (stk : List Ctx) (d : Nat) :
    step ⟨.hex k n, stk⟩ (hexCh d) = if n ≤ 1 then ⟨.str k, stk⟩ else ⟨.hex k (n - 1), stk⟩ := by
  simp [step, isHex_hexCh]

theorem scan_u4 (k : Bool) (stk : List Ctx) (n : Nat) : scanFrom ⟨.str k, stk⟩ (u4 n) = ⟨.str k, stk⟩ := by
  have h1 : step ⟨.str k, stk⟩ 92 = ⟨.esc k, stk⟩ := by simp [step]
  have h2 : step ⟨.esc k, stk⟩ 117 = ⟨.hex k 4, stk⟩ := by simp [step]
  simp only [u4, scanFrom_cons, scanFrom_nil, h1, h2]
  simp [step_hex]

theorem step_plain (k : Bool) (stk : List Ctx) (c : Nat) (h1 : c ≠ 34) (h2 : c ≠ 92) (h3 : 32 ≤ c) :
    step ⟨.str k, stk⟩ c = ⟨.str k, stk⟩ := by
  have h4 : ¬ c < 32 := by omega
  simp [step, h1, h2, h4]

theorem scan_encChar (k : Bool) (stk : List Ctx) (c : Nat) :
    scanFrom ⟨.str k, stk⟩ (encChar c) = ⟨.str k, stk⟩ := by
  by_cases h : c = 34 ∨ c = 92 ∨ c = 10 ∨ c = 13 ∨ c = 9 ∨ c = 8 ∨ c = 12
  · rcases h with rfl | rfl | rfl | rfl | rfl | rfl | rfl <;> simp [encChar, scanFrom_cons, scanFrom_nil, step]
  · simp only [not_or] at h
    obtain ⟨a1, a2, a3, a4, a5, a6, a7⟩ := h
    by_cases hp : 32 ≤ c ∧ c ≤ 126
    · have : encChar c = [c] := by simp [encChar, a1, a2, a3, a4, a5, a6, a7, hp]
      rw [this, scanFrom_cons, scanFrom_nil, step_plain k stk c a1 a2 hp.1]
    · by_cases hu : c < 65536
      · have : encChar c = u4 c := by simp [encChar, a1, a2, a3, a4, a5, a6, a7, hp, hu]
        rw [this, scan_u4]
      · have : encChar c = u4 (55296 + (c - 65536) / 1024) ++ u4 (56320 + (c - 65536) % 1024) := by
          simp [encChar, a1, a2, a3, a4, a5, a6, a7, hp, hu]
        rw [this, scanFrom_append, scan_u4, scan_u4]

/-- the body of a string and its closing quote, read inside a string: the string is closed -/
theorem scan_strBody (k : Bool) (stk : List Ctx) (s : List Nat) :
    scanFrom ⟨.str k, stk⟩ (strBody s) = if k then ⟨.colon, stk⟩ else closeValue stk := by
  induction s with
  | nil => simp [strBody, scanFrom_cons, scanFrom_nil, step]
  | cons c r ih => rw [strBody, scanFrom_append, scan_encChar, ih]

/-- a key, read where a key may start -/
theorem scan_key (stk : List Ctx) (b : Bool) (s : List Nat) :
    scanFrom ⟨if b then .keyOrEnd else .key, stk⟩ (strText s) = ⟨.colon, stk⟩ := by
  have h : step ⟨if b then .keyOrEnd else .key, stk⟩ 34 = ⟨.str true, stk⟩ := by cases b <;> simp [step, isWs]
  rw [strText, scanFrom_cons, h, scan_strBody]
  simp

/-- a string value -/
theorem scan_str (stk : List Ctx) (b : Bool) (s : List Nat) :
    scanFrom ⟨vmode b, stk⟩ (strText s) = closeValue stk := by
  have h : valueStep stk 34 b = ⟨.str false, stk⟩ := by simp [valueStep, isWs]
  rw [strText, scanFrom_cons, step_vmode, h, scan_strBody]
  simp

/-! ### numbers -/

theorem scan_digits (st : NumSt) (hst : ∀ d : Fin 10, numStep st (digitCh d) = some (.num st))
    (stk : List Ctx) (l : List (Fin 10)) : scanFrom ⟨.num st, stk⟩ (l.map digitCh) = ⟨.num st, stk⟩ := by
  induction l with
  | nil => rfl
  | cons d r ih => rw [List.map_cons, scanFrom_cons, step_num_some stk st _ _ (hst d), ih]

theorem num_int_digit : ∀ d : Fin 10, numStep .int (digitCh d) = some (.num .int) := by decide
theorem num_frac_digit : ∀ d : Fin 10, numStep .frac (digitCh d) = some (.num .frac) := by decide
theorem num_expDigits_digit : ∀ d : Fin 10, numStep .expDigits (digitCh d) = some (.num .expDigits) := by decide
theorem num_dot_digit : ∀ d : Fin 10, numStep .dot (digitCh d) = some (.num .frac) := by decide
theorem num_exp_digit : ∀ d : Fin 10, numStep .exp (digitCh d) = some (.num .expDigits) := by decide
theorem num_expSign_digit : ∀ d : Fin 10, numStep .expSign (digitCh d) = some (.num .expDigits) := by decide
theorem num_minus_d19 : ∀ f : Fin 9, numStep .minus (49 + f.val) = some (.num .int) := by decide

theorem d19_facts : ∀ f : Fin 9, isWs (49 + f.val) = false ∧ 49 + f.val ≠ 123 ∧ 49 + f.val ≠ 91 ∧ 49 + f.val ≠ 34 ∧
    49 + f.val ≠ 45 ∧ 49 + f.val ≠ 48 ∧ isDigit19 (49 + f.val) = true := by decide

theorem valueStep_d19 (stk : List Ctx) (b : Bool) (f : Fin 9) :
    valueStep stk (49 + f.val) b = ⟨.num .int, stk⟩ := by
  obtain ⟨h1, h2, h3, h4, h5, h6, h7⟩ := d19_facts f
  simp [valueStep, h1, h2, h3, h4, h5, h6, h7]

/-- the state of the number scanner after the integer part -/
def st1 : IntPart → NumSt
  | .zero => .zero
  | .pos _ _ => .int

theorem scan_signInt (stk : List Ctx) (b : Bool) (neg : Bool) (i : IntPart) :
    scanFrom ⟨vmode b, stk⟩ (signText neg ++ i.text) = ⟨.num (st1 i), stk⟩ := by
  cases neg with
  | false =>
    cases i with
    | zero =>
      have h : valueStep stk 48 b = ⟨.num .zero, stk⟩ := by simp [valueStep, isWs]
      simp only [signText, IntPart.text, Bool.false_eq_true, if_false, List.nil_append, scanFrom_cons, scanFrom_nil,
        step_vmode, h, st1]
    | pos f r =>
      simp only [signText, IntPart.text, Bool.false_eq_true, if_false, List.nil_append, scanFrom_cons,
        step_vmode, valueStep_d19, st1]
      exact scan_digits .int num_int_digit stk r
  | true =>
    have h : valueStep stk 45 b = ⟨.num .minus, stk⟩ := by simp [valueStep, isWs]
    cases i with
    | zero =>
      have h0 : numStep .minus 48 = some (.num .zero) := by decide
      simp only [signText, IntPart.text, if_true, List.cons_append, List.nil_append, scanFrom_cons, scanFrom_nil,
        step_vmode, h, step_num_some stk _ _ _ h0, st1]
    | pos f r =>
      simp only [signText, IntPart.text, if_true, List.cons_append, List.nil_append, scanFrom_cons,
        step_vmode, h, step_num_some stk _ _ _ (num_minus_d19 f), st1]
      exact scan_digits .int num_int_digit stk r

def st2 (st : NumSt) : Option Digits → NumSt
  | none => st
  | some _ => .frac

theorem scan_frac (stk : List Ctx) (st : NumSt) (hst : st = .zero ∨ st = .int) (f : Option Digits) :
    scanFrom ⟨.num st, stk⟩ (fracText f) = ⟨.num (st2 st f), stk⟩ := by
  cases f with
  | none => rfl
  | some d =>
    have h : numStep st 46 = some (.num .dot) := by rcases hst with rfl | rfl <;> decide
    simp only [fracText, Digits.text, scanFrom_cons, step_num_some stk _ _ _ h,
      step_num_some stk _ _ _ (num_dot_digit d.head), st2]
    exact scan_digits .frac num_frac_digit stk d.tail

def st3 (st : NumSt) : Option (ExpSign × Digits) → NumSt
  | none => st
  | some _ => .expDigits

theorem scan_exp (stk : List Ctx) (st : NumSt) (hst : st = .zero ∨ st = .int ∨ st = .frac)
    (e : Option (ExpSign × Digits)) :
    scanFrom ⟨.num st, stk⟩ (expText e) = ⟨.num (st3 st e), stk⟩ := by
  cases e with
  | none => rfl
  | some sd =>
    obtain ⟨s, d⟩ := sd
    have h : numStep st 101 = some (.num .exp) := by rcases hst with rfl | rfl | rfl <;> decide
    have hp : numStep .exp 43 = some (.num .expSign) := by decide
    have hm : numStep .exp 45 = some (.num .expSign) := by decide
    cases s with
    | none =>
      simp only [expText, ExpSign.text, List.nil_append, Digits.text, scanFrom_cons, step_num_some stk _ _ _ h,
        step_num_some stk _ _ _ (num_exp_digit d.head), st3]
      exact scan_digits .expDigits num_expDigits_digit stk d.tail
    | plus =>
      simp only [expText, ExpSign.text, List.cons_append, List.nil_append, Digits.text, scanFrom_cons,
        step_num_some stk _ _ _ h, step_num_some stk _ _ _ hp,
        step_num_some stk _ _ _ (num_expSign_digit d.head), st3]
      exact scan_digits .expDigits num_expDigits_digit stk d.tail
    | minus =>
      simp only [expText, ExpSign.text, List.cons_append, List.nil_append, Digits.text, scanFrom_cons,
        step_num_some stk _ _ _ h, step_num_some stk _ _ _ hm,
        step_num_some stk _ _ _ (num_expSign_digit d.head), st3]
      exact scan_digits .expDigits num_expDigits_digit stk d.tail

theorem st1_cases (i : IntPart) : st1 i = .zero ∨ st1 i = .int := by cases i <;> simp [st1]

theorem st2_cases (st : NumSt) (h : st = .zero ∨ st = .int) (f : Option Digits) :
    st2 st f = .zero ∨ st2 st f = .int ∨ st2 st f = .frac := by
  cases f with
  | none => rcases h with h | h <;> simp [st2, h]
  | some d => simp [st2]

theorem st3_final (st : NumSt) (h : st = .zero ∨ st = .int ∨ st = .frac) (e : Option (ExpSign × Digits)) :
    (st3 st e).final = true := by
  cases e with
  | none => rcases h with h | h | h <;> simp [st3, h, NumSt.final]
  | some d => simp [st3, NumSt.final]

/-- a number literal leaves the scanner inside a number that may end here -/
theorem scan_num (stk : List Ctx) (b : Bool) (n : Num) :
    ∃ st : NumSt, st.final = true ∧ scanFrom ⟨vmode b, stk⟩ n.text = ⟨.num st, stk⟩ := by
  refine ⟨st3 (st2 (st1 n.int) n.frac) n.exp, st3_final _ (st2_cases _ (st1_cases _) _) _, ?_⟩
  rw [Num.text, scanFrom_append, scanFrom_append, scan_signInt, scan_frac _ _ (st1_cases _),
    scan_exp _ _ (st2_cases _ (st1_cases _) _)]

/-! ### literals -/

theorem scan_null (stk : List Ctx) (b : Bool) : scanFrom ⟨vmode b, stk⟩ [110, 117, 108, 108] = closeValue stk := by
  have h : valueStep stk 110 b = ⟨.lit [117, 108, 108], stk⟩ := by simp [valueStep, isWs, isDigit19]
  rw [scanFrom_cons, step_vmode, h]
  simp [scanFrom_cons, scanFrom_nil, step]

theorem scan_true (stk : List Ctx) (b : Bool) : scanFrom ⟨vmode b, stk⟩ [116, 114, 117, 101] = closeValue stk := by
  have h : valueStep stk 116 b = ⟨.lit [114, 117, 101], stk⟩ := by simp [valueStep, isWs, isDigit19]
  rw [scanFrom_cons, step_vmode, h]
  simp [scanFrom_cons, scanFrom_nil, step]

theorem scan_false (stk : List Ctx) (b : Bool) :
    scanFrom ⟨vmode b, stk⟩ [102, 97, 108, 115, 101] = closeValue stk := by
  have h : valueStep stk 102 b = ⟨.lit [97, 108, 115, 101], stk⟩ := by simp [valueStep, isWs, isDigit19]
  rw [scanFrom_cons, step_vmode, h]
  simp [scanFrom_cons, scanFrom_nil, step]

theorem scan_nan (stk : List Ctx) (b : Bool) : scanFrom ⟨vmode b, stk⟩ [78, 97, 78] = closeValue stk := by
  have h : valueStep stk 78 b = ⟨.lit [97, 78], stk⟩ := by simp [valueStep, isWs, isDigit19]
  rw [scanFrom_cons, step_vmode, h]
  simp [scanFrom_cons, scanFrom_nil, step]

theorem scan_infLit (stk : List Ctx) :
    scanFrom ⟨.lit [110, 102, 105, 110, 105, 116, 121], stk⟩ [110, 102, 105, 110, 105, 116, 121] =
      closeValue stk := by
  simp [scanFrom_cons, scanFrom_nil, step]

theorem scan_inf (stk : List Ctx) (b : Bool) :
    scanFrom ⟨vmode b, stk⟩ [73, 110, 102, 105, 110, 105, 116, 121] = closeValue stk := by
  have h : valueStep stk 73 b = ⟨.lit [110, 102, 105, 110, 105, 116, 121], stk⟩ := by
    simp [valueStep, isWs, isDigit19]
  rw [scanFrom_cons, step_vmode, h, scan_infLit]

theorem scan_ninf (stk : List Ctx) (b : Bool) :
    scanFrom ⟨vmode b, stk⟩ [45, 73, 110, 102, 105, 110, 105, 116, 121] = closeValue stk := by
  have h : valueStep stk 45 b = ⟨.num .minus, stk⟩ := by simp [valueStep, isWs]
  have h2 : numStep .minus 73 = some (.lit [110, 102, 105, 110, 105, 116, 121]) := by decide
  rw [scanFrom_cons, step_vmode, h, scanFrom_cons, step_num_some stk _ _ _ h2, scan_infLit]

/-! ### containers -/

theorem valueStep_open_arr (stk : List Ctx) (b : Bool) : valueStep stk 91 b = ⟨.valueOrEnd, .arr :: stk⟩ := by
  simp [valueStep, isWs]

theorem valueStep_open_obj (stk : List Ctx) (b : Bool) : valueStep stk 123 b = ⟨.keyOrEnd, .obj :: stk⟩ := by
  simp [valueStep, isWs]

theorem valueStep_close_arr (rest : List Ctx) : valueStep (.arr :: rest) 93 true = closeValue rest := by
  simp [valueStep, isWs, isDigit19]

theorem step_close_obj (rest : List Ctx) : step ⟨.keyOrEnd, .obj :: rest⟩ 125 = closeValue rest := by
  simp [step, isWs]

theorem afterValue_comma_arr (rest : List Ctx) : afterValueStep (.arr :: rest) 44 = ⟨.value, .arr :: rest⟩ := by
  simp [afterValueStep, isWs]

theorem afterValue_close_arr (rest : List Ctx) : afterValueStep (.arr :: rest) 93 = closeValue rest := by
  simp [afterValueStep, isWs]

theorem afterValue_comma_obj (rest : List Ctx) : afterValueStep (.obj :: rest) 44 = ⟨.key, .obj :: rest⟩ := by
  simp [afterValueStep, isWs]

theorem afterValue_close_obj (rest : List Ctx) : afterValueStep (.obj :: rest) 125 = closeValue rest := by
  simp [afterValueStep, isWs]

theorem step_value_space (stk : List Ctx) : step ⟨.value, stk⟩ 32 = ⟨vmode false, stk⟩ := by
  simp [step, valueStep, isWs, vmode]

theorem step_key_space (stk : List Ctx) : step ⟨.key, stk⟩ 32 = ⟨if false then .keyOrEnd else .key, stk⟩ := by
  simp [step, isWs]

theorem step_colon (stk : List Ctx) : step ⟨.colon, stk⟩ 58 = ⟨.value, stk⟩ := by
  simp [step, isWs]

mutual
/-- **the value lemma**: the text of a value, read where a value may start under any stack, ends the value -/
theorem JV.scan_dumps : ∀ (v : JV) (stk : List Ctx) (b : Bool), Ended stk (scanFrom ⟨vmode b, stk⟩ v.dumps)
  | .null, stk, b => Or.inl (by rw [JV.dumps]; exact scan_null stk b)
  | .tt, stk, b => Or.inl (by rw [JV.dumps]; exact scan_true stk b)
  | .ff, stk, b => Or.inl (by rw [JV.dumps]; exact scan_false stk b)
  | .nan, stk, b => Or.inl (by rw [JV.dumps]; exact scan_nan stk b)
  | .inf, stk, b => Or.inl (by rw [JV.dumps]; exact scan_inf stk b)
  | .ninf, stk, b => Or.inl (by rw [JV.dumps]; exact scan_ninf stk b)
  | .num n, stk, b => Or.inr (by rw [JV.dumps]; exact scan_num stk b n)
  | .str s, stk, b => Or.inl (by rw [JV.dumps]; exact scan_str stk b s)
  | .arr l, stk, b => Or.inl (by
      rw [JV.dumps, scanFrom_cons, step_vmode, valueStep_open_arr]; exact JL.scan_first l stk)
  | .obj m, stk, b => Or.inl (by
      rw [JV.dumps, scanFrom_cons, step_vmode, valueStep_open_obj]; exact JM.scan_first m stk)
theorem JL.scan_first : ∀ (l : JL) (rest : List Ctx),
    scanFrom ⟨.valueOrEnd, .arr :: rest⟩ l.first = closeValue rest
  | .nil, rest => by
      rw [JL.first, scanFrom_cons, scanFrom_nil]
      exact (step_vmode (.arr :: rest) true 93).trans (valueStep_close_arr rest)
  | .cons v l, rest => by
      rw [JL.first, scanFrom_append]
      exact JL.scan_more l rest _ (JV.scan_dumps v (.arr :: rest) true)
theorem JL.scan_more : ∀ (l : JL) (rest : List Ctx) (s : St), Ended (.arr :: rest) s →
    scanFrom s l.more = closeValue rest
  | .nil, rest, s, hs => by
      rw [JL.more, scanFrom_cons, scanFrom_nil, ended_step _ _ s hs 93 (by simp), afterValue_close_arr]
  | .cons v l, rest, s, hs => by
      rw [JL.more, scanFrom_cons, ended_step _ _ s hs 44 (by simp), afterValue_comma_arr, scanFrom_cons,
        step_value_space, scanFrom_append]
      exact JL.scan_more l rest _ (JV.scan_dumps v (.arr :: rest) false)
theorem JM.scan_first : ∀ (m : JM) (rest : List Ctx),
    scanFrom ⟨.keyOrEnd, .obj :: rest⟩ m.first = closeValue rest
  | .nil, rest => by
      rw [JM.first, scanFrom_cons, scanFrom_nil, step_close_obj]
  | .cons k v m, rest => by
      rw [JM.first, scanFrom_append]
      have hk := scan_key (.obj :: rest) true k
      simp only [if_true] at hk
      rw [hk, scanFrom_cons, step_colon, scanFrom_cons, step_value_space, scanFrom_append]
      exact JM.scan_more m rest _ (JV.scan_dumps v (.obj :: rest) false)
theorem JM.scan_more : ∀ (m : JM) (rest : List Ctx) (s : St), Ended (.obj :: rest) s →
    scanFrom s m.more = closeValue rest
  | .nil, rest, s, hs => by
      rw [JM.more, scanFrom_cons, scanFrom_nil, ended_step _ _ s hs 125 (by simp), afterValue_close_obj]
  | .cons k v m, rest, s, hs => by
      rw [JM.more, scanFrom_cons, ended_step _ _ s hs 44 (by simp), afterValue_comma_obj, scanFrom_cons,
        step_key_space, scanFrom_append, scan_key, scanFrom_cons, step_colon, scanFrom_cons,
        step_value_space, scanFrom_append]
      exact JM.scan_more m rest _ (JV.scan_dumps v (.obj :: rest) false)
end

/-! ## what the torn-write theorems need -/

/-- `json.loads` accepts the text of every dictionary -/
theorem accepts_dumps_obj (m : JM) : accepts (JV.dumps (.obj m)) = true := by
  have h0 : step init 123 = ⟨.keyOrEnd, [.obj]⟩ := by simp [step, init, isWs]
  have : scan (JV.dumps (.obj m)) = closeValue [] := by
    rw [JV.dumps, scan, scanFrom_cons, h0]; exact JM.scan_first m []
  simp [accepts, this, closeValue]

theorem JM.more_last : ∀ m : JM, ∃ p : Text, m.more = p ++ [125]
  | .nil => ⟨[], by rw [JM.more]; rfl⟩
  | .cons k v m => by
      obtain ⟨p, hp⟩ := JM.more_last m
      refine ⟨44 :: 32 :: (strText k ++ 58 :: 32 :: (v.dumps ++ p)), ?_⟩
      rw [JM.more, hp]; simp

theorem JM.first_last (m : JM) : ∃ p : Text, m.first = p ++ [125] := by
  cases m with
  | nil => exact ⟨[], by rw [JM.first]; rfl⟩
  | cons k v m =>
    obtain ⟨p, hp⟩ := JM.more_last m
    refine ⟨strText k ++ 58 :: 32 :: (v.dumps ++ p), ?_⟩
    rw [JM.first, hp]; simp

/-- … and that text ends in `}` -/
theorem endsBlack_dumps_obj (m : JM) : endsBlack (JV.dumps (.obj m)) = true := by
  obtain ⟨p, hp⟩ := JM.first_last m
  have : JV.dumps (.obj m) = (123 :: p) ++ [125] := by rw [JV.dumps, hp]; rfl
  rw [this, endsBlack, List.getLast?_concat]
  decide

end PM.C19.TW
