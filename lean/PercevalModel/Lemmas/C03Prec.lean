/-
  Lemmas for C03, section 10 of Props/C03.lean: the effect of a non-zero precision on `probs_svd`.
-/
import PercevalModel.Model.C03Prec
import PercevalModel.Lemmas.C03More
import Mathlib.Data.List.Flatten
import Mathlib.Algebra.Order.Ring.Abs
import Mathlib.Algebra.Order.BigOperators.Group.Finset
import Mathlib.Tactic.Linarith
import Mathlib.Tactic.Positivity
import Mathlib.Tactic.FieldSimp

open Matrix

namespace PM.C03
open PM.Fock PM.Dist PM.SimSpec

/-! ### the rational upper square root -/

theorem sqrtUp_nonneg (x : ℚ) : 0 ≤ sqrtUp x := by
  unfold sqrtUp
  split
  · exact le_rfl
  · exact div_nonneg (Nat.cast_nonneg _) (Nat.cast_nonneg _)

theorem sqrtUp_sq (x : ℚ) : x ≤ sqrtUp x * sqrtUp x := by
  unfold sqrtUp
  split
  · rename_i h; rw [mul_zero]; exact h
  have hS : (0 : ℚ) < (sqrtScale : ℚ) := by norm_num [sqrtScale]
  generalize hN : ⌈x * ((sqrtScale * sqrtScale : ℕ) : ℚ)⌉₊ = N
  have h1 : x * ((sqrtScale * sqrtScale : ℕ) : ℚ) ≤ (N : ℚ) := hN ▸ Nat.le_ceil _
  have h2 : N < (Nat.sqrt N + 1) * (Nat.sqrt N + 1) := Nat.lt_succ_sqrt N
  have h2' : (N : ℚ) < ((Nat.sqrt N + 1 : ℕ) : ℚ) * ((Nat.sqrt N + 1 : ℕ) : ℚ) := by exact_mod_cast h2
  rw [div_mul_div_comm, le_div_iff₀ (mul_pos hS hS)]
  rw [Nat.cast_mul] at h1
  linarith

/-- the coherent perturbation bound: `| |a|² − |b|² | ≤ |a−b|² + 2·|b|·|a−b|` on the probability scale `c` -/
theorem normSq_sub_bound (a b : GQ) (c : ℚ) (hc : 0 ≤ c) :
    |GQ.normSq a * c - GQ.normSq b * c| ≤
      GQ.normSq (a - b) * c + 2 * sqrtUp (GQ.normSq b * c) * sqrtUp (GQ.normSq (a - b) * c) := by
  set β := GQ.normSq b * c with hβ
  set lam := GQ.normSq (a - b) * c with hlam
  set r := (b.re * (a.re - b.re) + b.im * (a.im - b.im)) * c with hr
  have hβ0 : 0 ≤ β := mul_nonneg (normSq_nonneg _) hc
  have hl0 : 0 ≤ lam := mul_nonneg (normSq_nonneg _) hc
  have hsub : (a - b).re = a.re - b.re ∧ (a - b).im = a.im - b.im := by
    constructor <;> simp [sub_eq_add_neg]
  have hdiff : GQ.normSq a * c - GQ.normSq b * c = lam + 2 * r := by
    simp only [hlam, hr, GQ.normSq, hsub.1, hsub.2]; ring
  have hcs : r ^ 2 ≤ β * lam := by
    simp only [hβ, hlam, hr, GQ.normSq, hsub.1, hsub.2]
    have := mul_nonneg (mul_nonneg hc hc) (sq_nonneg (b.re * (a.im - b.im) - b.im * (a.re - b.re)))
    nlinarith [this]
  have hs : r ^ 2 ≤ (sqrtUp β * sqrtUp lam) ^ 2 := by
    have := mul_le_mul (sqrtUp_sq β) (sqrtUp_sq lam) hl0
      (mul_nonneg (sqrtUp_nonneg β) (sqrtUp_nonneg β))
    calc r ^ 2 ≤ β * lam := hcs
      _ ≤ _ := this
      _ = _ := by ring
  have habs := abs_le.1 (abs_le_of_sq_le_sq hs (mul_nonneg (sqrtUp_nonneg β) (sqrtUp_nonneg lam)))
  rw [hdiff, abs_le]
  constructor <;> nlinarith [habs.1, habs.2]

/-! ### sums of `get` over finite sets of outcomes -/

theorem sum_get_le_mass (d : D) (h : NonNeg d) (S : Finset Fock) : ∑ t ∈ S, get d t ≤ mass d := by
  induction d with
  | nil => simp [get_nil]
  | cons p r ih =>
    have hr : NonNeg r := fun e he => h e (List.mem_cons_of_mem _ he)
    have hp : 0 ≤ p.2 := h p List.mem_cons_self
    have : ∀ u, get (p :: r) u = (if p.1 = u then p.2 else 0) + get r u := by
      intro u
      rw [get_cons]
      by_cases h : p.1 = u <;> simp [h]
    simp only [this, Finset.sum_add_distrib, Finset.sum_ite_eq, mass_cons]
    have := ih hr
    split <;> linarith

theorem mass_eq_sum_get (d : D) (S : Finset Fock) (hS : ∀ e ∈ d, e.1 ∈ S) : mass d = ∑ t ∈ S, get d t := by
  induction d with
  | nil => simp [get_nil]
  | cons p r ih =>
    have hr : ∀ e ∈ r, e.1 ∈ S := fun e he => hS e (List.mem_cons_of_mem _ he)
    have hp : p.1 ∈ S := hS p List.mem_cons_self
    have : ∀ u, get (p :: r) u = (if p.1 = u then p.2 else 0) + get r u := by
      intro u
      rw [get_cons]
      by_cases h : p.1 = u <;> simp [h]
    simp only [this, Finset.sum_add_distrib, Finset.sum_ite_eq, mass_cons, hp, if_true, ih hr]

/-- a distribution all of whose outcomes have a non-negative probability: a partial sum is at most the mass -/
theorem sum_get_le_mass' (d : D) (h : ∀ t, 0 ≤ get d t) (S : Finset Fock) : ∑ t ∈ S, get d t ≤ mass d := by
  classical
  rw [mass_eq_sum_get d (S ∪ (d.map (·.1)).toFinset)
    (fun e he => Finset.mem_union_right _ (List.mem_toFinset.2 (List.mem_map.2 ⟨e, he, rfl⟩)))]
  exact Finset.sum_le_sum_of_subset_of_nonneg Finset.subset_union_left fun t _ _ => h t

theorem sum_list_finset_comm {α : Type*} (l : List α) (g : α → Fock → ℚ) (S : Finset Fock) :
    ∑ t ∈ S, (l.map fun x => g x t).sum = (l.map fun x => ∑ t ∈ S, g x t).sum := by
  induction l with
  | nil => simp
  | cons x r ih => simp only [List.map_cons, List.sum_cons, Finset.sum_add_distrib, ih]

theorem list_sum_le_sum {α : Type*} (l : List α) (f g : α → ℚ) (h : ∀ x ∈ l, f x ≤ g x) :
    (l.map f).sum ≤ (l.map g).sum := by
  induction l with
  | nil => simp
  | cons x r ih =>
    simp only [List.map_cons, List.sum_cons]
    exact add_le_add (h x List.mem_cons_self) (ih fun y hy => h y (List.mem_cons_of_mem _ hy))

theorem abs_list_sum_le {α : Type*} (l : List α) (f : α → ℚ) : |(l.map f).sum| ≤ (l.map fun x => |f x|).sum := by
  induction l with
  | nil => simp
  | cons x r ih =>
    simp only [List.map_cons, List.sum_cons]
    exact (abs_add_le _ _).trans (add_le_add le_rfl ih)

/-! ### sub-lists of non-negative distributions (incoherent losses) -/

theorem sublist_split {a b : D} (h : a.Sublist b) (hb : NonNeg b) :
    ∃ r : D, NonNeg r ∧ (∀ t, get b t = get a t + get r t) ∧ mass b = mass a + mass r := by
  induction h with
  | slnil =>
    refine ⟨[], ?_, ?_, ?_⟩
    · intro e he; cases he
    · intro t; simp [get_nil]
    · simp
  | @cons a b x _ ih =>
    obtain ⟨r, hr, hg, hm⟩ := ih fun e he => hb e (List.mem_cons_of_mem _ he)
    refine ⟨x :: r, ?_, ?_, ?_⟩
    · intro e he
      rcases List.mem_cons.1 he with rfl | he
      · exact hb _ List.mem_cons_self
      · exact hr e he
    · intro t; rw [get_cons, get_cons, hg t]; ring
    · rw [mass_cons, mass_cons, hm]; ring
  | @cons_cons a b x _ ih =>
    obtain ⟨r, hr, hg, hm⟩ := ih fun e he => hb e (List.mem_cons_of_mem _ he)
    refine ⟨r, hr, ?_, ?_⟩
    · intro t; rw [get_cons, get_cons, hg t]; ring
    · rw [mass_cons, mass_cons, hm]; ring

/-- what a sub-list of a non-negative distribution lacks: non-negative for every outcome, and over any set of
outcomes at most the difference of the masses -/
theorem sublist_loss {a b : D} (h : a.Sublist b) (hb : NonNeg b) :
    (∀ t, 0 ≤ get b t - get a t) ∧ ∀ S : Finset Fock, ∑ t ∈ S, (get b t - get a t) ≤ mass b - mass a := by
  obtain ⟨r, hr, hg, hm⟩ := sublist_split h hb
  constructor
  · intro t; rw [hg t]; have := get_nonneg r hr t; linarith
  · intro S
    have : ∀ t, get b t - get a t = get r t := fun t => by rw [hg t]; ring
    simp only [this]
    have := sum_get_le_mass r hr S
    linarith

/-! ### stage 2: the product threshold of `list_tensor_product` only removes leaves -/

theorem nonneg_innerTP (θ : ℚ) (ds : List D) (h : ∀ d ∈ ds, NonNeg d) (cur : Fock) (p : ℚ) (hp : 0 ≤ p) :
    NonNeg (innerTP θ ds cur p) := by
  induction ds generalizing cur p with
  | nil =>
    intro e he
    simp only [innerTP, List.mem_singleton] at he
    rw [he]; exact hp
  | cons d r ih =>
    intro e he
    simp only [innerTP, List.mem_flatMap] at he
    obtain ⟨x, hx, he⟩ := he
    split at he
    · cases he
    · exact ih (fun d' hd' => h d' (List.mem_cons_of_mem _ hd')) _ _
        (mul_nonneg hp (h d List.mem_cons_self x hx)) e he

theorem sublist_flatMap' {α β : Type*} {l l' : List α} (h : l.Sublist l') {f g : α → List β}
    (hfg : ∀ x, (f x).Sublist (g x)) : (l.flatMap f).Sublist (l'.flatMap g) :=
  (List.Sublist.flatMap_right l fun a _ => hfg a).trans (h.flatMap g)

/-- a larger threshold and smaller factor lists only remove leaves of the product tree -/
theorem innerTP_sublist {θ θ' : ℚ} (hθ : θ' ≤ θ) {ds ds' : List D} (h : List.Forall₂ List.Sublist ds ds')
    (cur : Fock) (p : ℚ) : (innerTP θ ds cur p).Sublist (innerTP θ' ds' cur p) := by
  induction h generalizing cur p with
  | nil => exact List.Sublist.refl _
  | @cons d d' r r' hd _ ih =>
    simp only [innerTP]
    apply sublist_flatMap' hd
    intro e
    by_cases h' : p * e.2 < θ'
    · rw [if_pos (lt_of_lt_of_le h' hθ)]
      exact List.nil_sublist _
    · rw [if_neg h']
      split
      · exact List.nil_sublist _
      · exact ih _ _

theorem listTensor_sublist (m : ℕ) {θ : ℚ} (hθ : 0 ≤ θ) (ds : List D) :
    (listTensor m θ ds).Sublist (listTensor m 0 ds) := by
  match ds with
  | [] => exact List.Sublist.refl _
  | [d] => exact List.Sublist.refl _
  | d₁ :: d₂ :: rest =>
    simp only [listTensor]
    split
    · exact List.Sublist.refl _
    · apply innerTP_sublist hθ
      rw [List.forall₂_map_left_iff, List.forall₂_map_right_iff]
      apply List.forall₂_same.mpr
      intro d _
      apply List.monotone_filter_right
      intro e he
      simp only [decide_eq_true_eq] at he ⊢
      exact lt_of_le_of_lt hθ he

theorem nonneg_listTensor (m : ℕ) (θ : ℚ) (ds : List D) (h : ∀ d ∈ ds, NonNeg d) : NonNeg (listTensor m θ ds) := by
  match ds with
  | [] => intro e he; cases he
  | [d] => exact h d List.mem_cons_self
  | d₁ :: d₂ :: rest =>
    simp only [listTensor]
    split
    · intro e he; cases he
    · apply nonneg_innerTP _ _ _ _ _ zero_le_one
      intro d hd
      obtain ⟨d', hd', rfl⟩ := List.mem_map.mp hd
      exact nonneg_filter d' (h d' hd') _

theorem nonneg_memberFast {m : ℕ} (U : Matrix (Fin m) (Fin m) GQ) (θ : ℚ) (mb : Member) :
    NonNeg (memberFast U θ mb) := by
  unfold memberFast
  split
  · apply nonneg_listTensor
    intro d hd
    obtain ⟨s, _, rfl⟩ := List.mem_map.mp hd
    exact probsFock_nonneg U s
  · intro e he; cases he

theorem memberFast_sublist {m : ℕ} (U : Matrix (Fin m) (Fin m) GQ) {θ : ℚ} (hθ : 0 ≤ θ) (mb : Member)
    (hw : 0 ≤ mb.w) : (memberFast U θ mb).Sublist (memberFast U 0 mb) := by
  unfold memberFast
  split
  · rw [zero_div]
    exact listTensor_sublist m (div_nonneg hθ (mul_nonneg (by norm_num) hw)) _
  · exact List.Sublist.refl _

/-! ### stage 1: `_preprocess_svd` at any precision -/

theorem preprocess_kept (prec minp : ℚ) (ms : List Member) :
    (preprocess prec minp ms).kept =
      if (ms.filter (max minp (maxW 0 ms * prec) < ·.w)).any needsSplit then
        (accSplit (ms.filter (max minp (maxW 0 ms * prec) < ·.w))).filter fun mb =>
          !needsSplit mb && decide ((preprocess prec minp ms).θ < mb.w)
      else ms.filter (max minp (maxW 0 ms * prec) < ·.w) := by
  unfold preprocess accSplit
  simp only [foldl_partAdd_max]
  split <;> rfl

theorem preprocess_superposed (prec minp : ℚ) (ms : List Member) :
    (preprocess prec minp ms).superposed = (preprocess prec minp ms).kept.any (·.terms.length > 1) := by
  unfold preprocess
  simp only
  split <;> rfl

theorem foldl_max_ge (xs : List Member) (d : List Member) (mx : ℚ) :
    mx ≤ (xs.foldl (fun (acc : List Member × ℚ) x =>
      ((partAdd acc.1 x).1, max acc.2 (partAdd acc.1 x).2)) (d, mx)).2 := by
  induction xs generalizing d mx with
  | nil => exact le_rfl
  | cons x r ih =>
    simp only [List.foldl_cons]
    exact (le_max_left _ _).trans (ih _ _)

theorem maxW_ge (start : ℚ) (ms : List Member) : start ≤ maxW start ms := by
  unfold maxW
  induction ms generalizing start with
  | nil => exact le_rfl
  | cons x r ih =>
    simp only [List.map_cons, List.foldl_cons]
    exact (le_max_left _ _).trans (ih _)

theorem preprocess_theta_nonneg (prec minp : ℚ) (hp : 0 ≤ prec) (ms : List Member) :
    0 ≤ (preprocess prec minp ms).θ := by
  have h0 : 0 ≤ maxW 0 ms := maxW_ge 0 ms
  unfold preprocess
  simp only
  split
  · exact le_max_of_le_right (mul_nonneg (h0.trans (foldl_max_ge _ _ _)) hp)
  · exact le_max_of_le_right (mul_nonneg h0 hp)

theorem accSplit_facts {m : ℕ} (U : Matrix (Fin m) (Fin m) GQ) (t₁ : List Member)
    (hw : ∀ mb ∈ t₁, 0 ≤ mb.w) (t : Fock) :
    mixAt (probsSV U) ((accSplit t₁).filter fun x => !needsSplit x) t = mixAt (probsSV U) t₁ t ∧
      ∀ z ∈ accSplit t₁, 0 ≤ z.w := by
  have hf := sameKey_probsSV U
  have hX := split_parts_ok t₁ hw
  unfold accSplit
  set X := (t₁.filter needsSplit).flatMap splitByN with hXdef
  have hA : ∀ z ∈ partAddAll [] X, needsSplit z = false ∧ 0 ≤ z.w := by
    apply partAddAll_forall (fun z => needsSplit z = false ∧ 0 ≤ z.w) X [] (by simp) hX
    intro x hx y hy _
    exact ⟨hy.1, add_nonneg hy.2 (hX x hx).2⟩
  have hAcc : ∀ z ∈ partAddAll t₁ (partAddAll [] X), 0 ≤ z.w := by
    apply partAddAll_forall (fun z => 0 ≤ z.w) _ t₁ hw (fun x hx => (hA x hx).2)
    intro x hx y hy _
    exact add_nonneg hy (hA x hx).2
  have hmixA : mixAt (probsSV U) (partAddAll [] X) t = mixAt (probsSV U) (t₁.filter needsSplit) t := by
    rw [dict_accumulate_all_mix (probsSV U) hf, mixAt_nil, zero_add, hXdef, mixAt_flatMap_splitByN]
  have hmixAcc : mixAt (probsSV U) (partAddAll t₁ (partAddAll [] X)) t =
      mixAt (probsSV U) t₁ t + mixAt (probsSV U) (t₁.filter needsSplit) t := by
    rw [dict_accumulate_all_mix (probsSV U) hf, hmixA]
  have hns : (partAddAll t₁ (partAddAll [] X)).filter needsSplit = t₁.filter needsSplit :=
    partAddAll_filter_needsSplit _ _ fun x hx => (hA x hx).1
  refine ⟨?_, hAcc⟩
  have := mixAt_filter_add (probsSV U) needsSplit (partAddAll t₁ (partAddAll [] X)) t
  rw [hns, hmixAcc] at this
  linarith

theorem accSplit_ok (m : ℕ) (t₁ : List Member) (h : ∀ mb ∈ t₁, TermsOK m mb) :
    ∀ mb ∈ accSplit t₁, TermsOK m mb := by
  have hX : ∀ x ∈ (t₁.filter needsSplit).flatMap splitByN, TermsOK m x := by
    intro x hx
    obtain ⟨y, hy, hx⟩ := List.mem_flatMap.1 hx
    obtain ⟨n, _, rfl⟩ := mem_splitByN y x hx
    intro t ht
    exact h y (List.mem_of_mem_filter hy) t (List.mem_of_mem_filter ht)
  have hA : ∀ z ∈ partAddAll [] ((t₁.filter needsSplit).flatMap splitByN), TermsOK m z :=
    partAddAll_forall (TermsOK m) _ [] (by simp) hX (fun _ _ _ hy _ => hy)
  exact partAddAll_forall (TermsOK m) _ t₁ h hA (fun _ _ _ hy _ => hy)

/-- **what `_preprocess_svd` keeps and what it leaves out add up to the input mixture**, at every precision -/
theorem preprocess_split_mixture {m : ℕ} (U : Matrix (Fin m) (Fin m) GQ) (prec minp : ℚ) (ms : List Member)
    (hw : ∀ mb ∈ ms, 0 ≤ mb.w) (t : Fock) :
    mixAt (probsSV U) ms t =
      mixAt (probsSV U) (preprocess prec minp ms).kept t + mixAt (probsSV U) (preDropped prec minp ms) t := by
  rw [preprocess_kept]
  unfold preDropped
  simp only
  have h1 := mixAt_filter_add (probsSV U) (max minp (maxW 0 ms * prec) < ·.w) ms t
  split
  · have hw₁ : ∀ mb ∈ ms.filter (max minp (maxW 0 ms * prec) < ·.w), 0 ≤ mb.w :=
      fun mb h => hw mb (List.mem_of_mem_filter h)
    obtain ⟨h2, _⟩ := accSplit_facts U _ hw₁ t
    have h3 := mixAt_filter_add (probsSV U) (fun mb => decide ((preprocess prec minp ms).θ < mb.w))
      ((accSplit (ms.filter (max minp (maxW 0 ms * prec) < ·.w))).filter fun x => !needsSplit x) t
    rw [List.filter_filter, List.filter_filter] at h3
    rw [mixAt_append]
    have e1 : ∀ l : List Member, l.filter (fun mb => !needsSplit mb && decide ((preprocess prec minp ms).θ < mb.w)) =
        l.filter (fun a => decide ((preprocess prec minp ms).θ < a.w) && !needsSplit a) :=
      fun l => List.filter_congr fun x _ => Bool.and_comm _ _
    have e2 : ∀ l : List Member, l.filter (fun mb => !needsSplit mb && !decide ((preprocess prec minp ms).θ < mb.w)) =
        l.filter (fun a => (!decide ((preprocess prec minp ms).θ < a.w)) && !needsSplit a) :=
      fun l => List.filter_congr fun x _ => Bool.and_comm _ _
    rw [e1, e2]
    linarith
  · linarith

theorem preDropped_nonneg (prec minp : ℚ) (ms : List Member) (hw : ∀ mb ∈ ms, 0 ≤ mb.w) :
    ∀ mb ∈ preDropped prec minp ms, 0 ≤ mb.w := by
  unfold preDropped
  simp only
  split
  · intro mb hmb
    rcases List.mem_append.1 hmb with h | h
    · exact hw mb (List.mem_of_mem_filter h)
    · classical
      exact (accSplit_facts (1 : Matrix (Fin 0) (Fin 0) GQ) _
        (fun mb h => hw mb (List.mem_of_mem_filter h)) []).2 mb (List.mem_of_mem_filter h)
  · exact fun mb h => hw mb (List.mem_of_mem_filter h)

theorem preprocess_kept_facts (m : ℕ) (prec minp : ℚ) (ms : List Member)
    (hok : ∀ mb ∈ ms, TermsOK m mb) :
    ∀ mb ∈ (preprocess prec minp ms).kept, TermsOK m mb ∧ (preprocess prec minp ms).θ < mb.w := by
  intro mb hmb
  rw [preprocess_kept] at hmb
  split at hmb
  · obtain ⟨h1, h2⟩ := List.mem_filter.1 hmb
    simp only [Bool.and_eq_true, decide_eq_true_eq] at h2
    exact ⟨accSplit_ok m _ (fun mb h => hok mb (List.mem_of_mem_filter h)) mb h1, h2.2⟩
  · obtain ⟨h1, h2⟩ := List.mem_filter.1 hmb
    refine ⟨hok mb h1, ?_⟩
    have hθ : (preprocess prec minp ms).θ = max minp (maxW 0 ms * prec) := by
      unfold preprocess
      simp only
      rw [if_neg (by assumption)]
    rw [hθ]
    simpa using h2

/-! ### stage 3: the amplitude threshold of `_merge_sv` (coherent loss) -/

theorem memberGenericθ_eq {m : ℕ} (U : Matrix (Fin m) (Fin m) GQ) (θ : ℚ) (mb : Member) :
    memberGenericθ U θ mb = (gatherAmps (ampsθ U θ mb)).map fun p =>
      (flattenTuple m p.1, GQ.normSq p.2 / (((p.1.map prodFact).prod : ℕ) : ℚ) / svNorm2 mb.terms) := rfl

theorem nonneg_memberGenericθ {m : ℕ} (U : Matrix (Fin m) (Fin m) GQ) (θ : ℚ) (mb : Member) :
    NonNeg (memberGenericθ U θ mb) := by
  rw [memberGenericθ_eq]
  intro e he
  obtain ⟨p, _, rfl⟩ := List.mem_map.1 he
  exact div_nonneg (div_nonneg (normSq_nonneg _) (Nat.cast_nonneg _)) (svNorm2_nonneg _)

theorem keyScale_nonneg (n2 : ℚ) (h : 0 ≤ n2) (k : List Fock) : 0 ≤ keyScale n2 k :=
  mul_nonneg (inv_nonneg.2 (Nat.cast_nonneg _)) (inv_nonneg.2 h)

theorem keyErr_nonneg {m : ℕ} (U : Matrix (Fin m) (Fin m) GQ) (θ : ℚ) (mb : Member) (k : List Fock) :
    0 ≤ keyErr U θ mb k := by
  show 0 ≤ droppedP U θ mb k + 2 * sqrtUp (keptP U θ mb k) * sqrtUp (droppedP U θ mb k)
  have : 0 ≤ droppedP U θ mb k :=
    mul_nonneg (normSq_nonneg _) (keyScale_nonneg _ (svNorm2_nonneg _) k)
  have := mul_nonneg (mul_nonneg (by norm_num : (0 : ℚ) ≤ 2) (sqrtUp_nonneg (keptP U θ mb k)))
    (sqrtUp_nonneg (droppedP U θ mb k))
  linarith

theorem genericErrD_eq {m : ℕ} (U : Matrix (Fin m) (Fin m) GQ) (θ : ℚ) (mb : Member) :
    genericErrD U θ mb = (keysG U θ mb).map fun k => (flattenTuple m k, keyErr U θ mb k) := rfl

theorem nonneg_genericErrD {m : ℕ} (U : Matrix (Fin m) (Fin m) GQ) (θ : ℚ) (mb : Member) :
    NonNeg (genericErrD U θ mb) := by
  rw [genericErrD_eq]
  intro e he
  obtain ⟨k, _, rfl⟩ := List.mem_map.1 he
  exact keyErr_nonneg U θ mb k

/-- **coherent loss, one member**: the amplitude threshold changes the probability of every outcome by at
most the sum of `keyErr` over the annotated outputs of that outcome -/
theorem generic_threshold_bound {m : ℕ} (U : Matrix (Fin m) (Fin m) GQ) (θ : ℚ) (mb : Member) (t : Fock) :
    |get (memberGenericθ U 0 mb) t - get (memberGenericθ U θ mb) t| ≤ get (genericErrD U θ mb) t := by
  classical
  have hn2 : 0 ≤ svNorm2 mb.terms := svNorm2_nonneg _
  have hS0 : ∀ K ∈ (ampsθ U 0 mb).map (·.1), K ∈ (keysG U θ mb).toFinset := by
    intro K hK
    rw [List.mem_toFinset, keysG, List.mem_dedup, List.map_append]
    exact List.mem_append_left _ hK
  have hSθ : ∀ K ∈ (ampsθ U θ mb).map (·.1), K ∈ (keysG U θ mb).toFinset := by
    intro K hK
    rw [List.mem_toFinset, keysG, List.mem_dedup, List.map_append]
    exact List.mem_append_right _ hK
  rw [memberGenericθ_eq, memberGenericθ_eq, get_toBsd m _ _ t _ hS0, get_toBsd m _ _ t _ hSθ]
  have hE : get (genericErrD U θ mb) t =
      ∑ K ∈ (keysG U θ mb).toFinset, if flattenTuple m K == t then keyErr U θ mb K else 0 := by
    rw [genericErrD_eq, get_map_pair]
    exact (List.sum_toFinset _ (List.nodup_dedup _ : (keysG U θ mb).Nodup)).symm
  rw [hE, div_eq_mul_inv, div_eq_mul_inv, Finset.sum_mul, Finset.sum_mul, ← Finset.sum_sub_distrib]
  refine (Finset.abs_sum_le_sum_abs _ _).trans (Finset.sum_le_sum fun K _ => ?_)
  unfold outW
  split
  · have := normSq_sub_bound (ampGet (ampsθ U 0 mb) K) (ampGet (ampsθ U θ mb) K)
      (keyScale (svNorm2 mb.terms) K) (keyScale_nonneg _ hn2 K)
    have e : ∀ x : ℚ, x / (((K.map prodFact).prod : ℕ) : ℚ) * (svNorm2 mb.terms)⁻¹ =
        x * keyScale (svNorm2 mb.terms) K := by
      intro x; unfold keyScale; rw [div_eq_mul_inv, mul_assoc]
    rw [e, e]
    exact this
  · simp

theorem generic_err_total {m : ℕ} (U : Matrix (Fin m) (Fin m) GQ) (θ : ℚ) (mb : Member) (S : Finset Fock) :
    ∑ t ∈ S, get (genericErrD U θ mb) t ≤ mass (genericErrD U θ mb) :=
  sum_get_le_mass _ (nonneg_genericErrD U θ mb) S

/-! ### the final `res.normalize()` -/

theorem get_normalize (d : D) (h : mass d ≠ 0) (t : Fock) : get (normalize d) t = (mass d)⁻¹ * get d t := by
  rw [Dist.normalize, if_neg h, get_scale]

/-- two un-normalised results that differ by at most `e t` per outcome and `E` in total: their masses differ by
at most `E`, their normalised versions by at most `(e t + P(t)·E) / mass` per outcome and `2E / mass` in total
variation -/
theorem normalize_perturb (p q : D) (e : Fock → ℚ) (E : ℚ)
    (hp : ∀ t, 0 ≤ get p t) (hq : ∀ t, 0 ≤ get q t)
    (hpt : ∀ t, |get q t - get p t| ≤ e t) (hS : ∀ S : Finset Fock, ∑ t ∈ S, e t ≤ E)
    (hMp : mass p ≠ 0) (hMq : mass q ≠ 0) :
    |mass q - mass p| ≤ E ∧
    (∀ t, |get (normalize q) t - get (normalize p) t| ≤ (e t + get (normalize p) t * E) / mass q) ∧
    ∀ S : Finset Fock, ∑ t ∈ S, |get (normalize q) t - get (normalize p) t| ≤ 2 * E / mass q := by
  classical
  set K : Finset Fock := (p.map (·.1)).toFinset ∪ (q.map (·.1)).toFinset with hK
  have hmp : mass p = ∑ t ∈ K, get p t := mass_eq_sum_get p K
    (fun x hx => Finset.mem_union_left _ (List.mem_toFinset.2 (List.mem_map.2 ⟨x, hx, rfl⟩)))
  have hmq : mass q = ∑ t ∈ K, get q t := mass_eq_sum_get q K
    (fun x hx => Finset.mem_union_right _ (List.mem_toFinset.2 (List.mem_map.2 ⟨x, hx, rfl⟩)))
  have hE0 : 0 ≤ E := by simpa using hS ∅
  have hMp0 : 0 < mass p := lt_of_le_of_ne (hmp ▸ Finset.sum_nonneg fun t _ => hp t) (Ne.symm hMp)
  have hMq0 : 0 < mass q := lt_of_le_of_ne (hmq ▸ Finset.sum_nonneg fun t _ => hq t) (Ne.symm hMq)
  have hmass : |mass q - mass p| ≤ E := by
    rw [hmp, hmq, ← Finset.sum_sub_distrib]
    exact (Finset.abs_sum_le_sum_abs _ _).trans ((Finset.sum_le_sum fun t _ => hpt t).trans (hS K))
  have hnp : ∀ t, 0 ≤ get (normalize p) t := fun t => by
    rw [get_normalize p hMp]; exact mul_nonneg (inv_nonneg.2 hMp0.le) (hp t)
  have hpoint : ∀ t, |get (normalize q) t - get (normalize p) t| ≤
      (e t + get (normalize p) t * E) / mass q := by
    intro t
    have key : get (normalize q) t - get (normalize p) t =
        ((get q t - get p t) + get (normalize p) t * (mass p - mass q)) / mass q := by
      rw [get_normalize p hMp, get_normalize q hMq]
      field_simp
      ring
    rw [key, abs_div, abs_of_pos hMq0]
    apply div_le_div_of_nonneg_right _ hMq0.le
    refine (abs_add_le _ _).trans (add_le_add (hpt t) ?_)
    rw [abs_mul, abs_of_nonneg (hnp t)]
    exact mul_le_mul_of_nonneg_left (by rw [abs_sub_comm]; exact hmass) (hnp t)
  refine ⟨hmass, hpoint, ?_⟩
  intro S
  have h1 : ∑ t ∈ S, get (normalize p) t ≤ 1 := by
    have := sum_get_le_mass' (normalize p) hnp S
    rwa [mass_normalize p hMp] at this
  calc ∑ t ∈ S, |get (normalize q) t - get (normalize p) t|
      ≤ ∑ t ∈ S, (e t + get (normalize p) t * E) / mass q := Finset.sum_le_sum fun t _ => hpoint t
    _ = ((∑ t ∈ S, e t) + (∑ t ∈ S, get (normalize p) t) * E) / mass q := by
        simp only [div_eq_mul_inv]
        rw [← Finset.sum_mul, Finset.sum_add_distrib, Finset.sum_mul]
    _ ≤ 2 * E / mass q := by
        apply div_le_div_of_nonneg_right _ hMq0.le
        have := hS S
        have := mul_le_mul_of_nonneg_right h1 hE0
        linarith

theorem mass_perturb (p q : D) (e : Fock → ℚ) (E : ℚ)
    (hpt : ∀ t, |get q t - get p t| ≤ e t) (hS : ∀ S : Finset Fock, ∑ t ∈ S, e t ≤ E) :
    |mass q - mass p| ≤ E := by
  classical
  set K : Finset Fock := (p.map (·.1)).toFinset ∪ (q.map (·.1)).toFinset with hK
  have hmp : mass p = ∑ t ∈ K, get p t := mass_eq_sum_get p K
    (fun x hx => Finset.mem_union_left _ (List.mem_toFinset.2 (List.mem_map.2 ⟨x, hx, rfl⟩)))
  have hmq : mass q = ∑ t ∈ K, get q t := mass_eq_sum_get q K
    (fun x hx => Finset.mem_union_right _ (List.mem_toFinset.2 (List.mem_map.2 ⟨x, hx, rfl⟩)))
  rw [hmp, hmq, ← Finset.sum_sub_distrib]
  exact (Finset.abs_sum_le_sum_abs _ _).trans ((Finset.sum_le_sum fun t _ => hpt t).trans (hS K))

theorem memberErrD_get {m : ℕ} (U : Matrix (Fin m) (Fin m) GQ) (sup : Bool) (θ : ℚ) (mb : Member) (t : Fock) :
    get (memberErrD U sup θ mb) t = memberErrAt U sup θ mb t := by
  unfold memberErrD memberErrAt
  split
  · rfl
  · rw [get_append, get_scale]; ring

theorem memberErrD_mass {m : ℕ} (U : Matrix (Fin m) (Fin m) GQ) (sup : Bool) (θ : ℚ) (mb : Member) :
    mass (memberErrD U sup θ mb) = memberErrTot U sup θ mb := by
  unfold memberErrD memberErrTot
  split
  · rfl
  · rw [mass_append, mass_scale]; ring

theorem errD_get {m : ℕ} (U : Matrix (Fin m) (Fin m) GQ) (prec minp : ℚ) (ms : List Member) (t : Fock) :
    get (errD U prec minp ms) t = errAt U prec minp ms t := by
  unfold errD errAt trimAt mixAt
  simp only
  rw [get_append, get_mix, get_mix, List.map_map, List.map_map]
  congr 1
  congr 1
  apply List.map_congr_left
  intro mb _
  simp only [Function.comp_apply, memberErrD_get]

theorem errD_mass {m : ℕ} (U : Matrix (Fin m) (Fin m) GQ) (prec minp : ℚ) (ms : List Member) :
    mass (errD U prec minp ms) = errTot U prec minp ms := by
  unfold errD errTot trimMass mixMass
  simp only
  rw [mass_append, mass_mix, mass_mix, List.map_map, List.map_map]
  congr 1
  congr 1
  apply List.map_congr_left
  intro mb _
  simp only [Function.comp_apply, memberErrD_mass]

end PM.C03
