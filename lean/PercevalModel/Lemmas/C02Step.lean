/-
  C02 helper lemmas: the step-by-step simulator restricted to the modes of one component
  (`Model/C02.lean: stepperApply`) is one step of the full-space propagation by the embedded
  component.  Everything is over a commutative ring with an inverse-factorial function `inv`
  (`inv u * ∏uᵢ! = 1`), so that it applies to fields and to the executable `ℚ[i]`.
-/
import PercevalModel.Model.C02
import PercevalModel.Lemmas.C02Embed

open Matrix

namespace PM.C02
open PM.Fock PM.FockComp

variable {R : Type*} [CommRing R]

/-! ### lists: slices -/

theorem list_ext_getD {a b : List ℕ} (hl : a.length = b.length)
    (h : ∀ j, j < a.length → a.getD j 0 = b.getD j 0) : a = b := by
  apply List.ext_getElem hl
  intro j h1 h2
  have := h j h1
  rwa [List.getD_eq_getElem?_getD, List.getD_eq_getElem?_getD, List.getElem?_eq_getElem h1,
    List.getElem?_eq_getElem h2, Option.getD_some, Option.getD_some] at this

theorem setSlice_length (u o : List ℕ) (r0 : ℕ) (h : r0 + o.length ≤ u.length) :
    (setSlice u r0 o).length = u.length := by
  simp [setSlice]; omega

theorem setSlice_getD (u o : List ℕ) (r0 j : ℕ) (h : r0 + o.length ≤ u.length) :
    (setSlice u r0 o).getD j 0 =
      if j < r0 then u.getD j 0 else if j < r0 + o.length then o.getD (j - r0) 0
      else u.getD j 0 := by
  have hlt : (u.take r0).length = r0 := by simp; omega
  unfold setSlice
  simp only [List.getD_eq_getElem?_getD]
  rw [List.append_assoc]
  by_cases h1 : j < r0
  · rw [if_pos h1, List.getElem?_append_left (by omega), List.getElem?_take, if_pos h1]
  · rw [if_neg h1, List.getElem?_append_right (by omega), hlt]
    by_cases h2 : j < r0 + o.length
    · rw [if_pos h2, List.getElem?_append_left (by omega)]
    · rw [if_neg h2, List.getElem?_append_right (by omega), List.getElem?_drop]
      congr 2
      omega

theorem slice_length (u : List ℕ) (r0 k : ℕ) (h : r0 + k ≤ u.length) :
    (slice u r0 k).length = k := by
  simp [slice]; omega

theorem slice_getD (u : List ℕ) (r0 k i : ℕ) :
    (slice u r0 k).getD i 0 = if i < k then u.getD (r0 + i) 0 else 0 := by
  unfold slice
  simp only [List.getD_eq_getElem?_getD, List.getElem?_take, List.getElem?_drop]
  split_ifs <;> rfl

theorem slice_setSlice (u o : List ℕ) (r0 : ℕ) (h : r0 + o.length ≤ u.length) :
    slice (setSlice u r0 o) r0 o.length = o := by
  apply list_ext_getD
  · rw [slice_length _ _ _ (by rw [setSlice_length u o r0 h]; exact h)]
  · intro j hj
    rw [slice_length _ _ _ (by rw [setSlice_length u o r0 h]; exact h)] at hj
    rw [slice_getD, if_pos hj, setSlice_getD u o r0 _ h, if_neg (by omega), if_pos (by omega)]
    congr 1
    omega

theorem sum_eq_slices (u : List ℕ) (r0 k : ℕ) :
    u.sum = (u.take r0).sum + (slice u r0 k).sum + (u.drop (r0 + k)).sum := by
  conv_lhs => rw [← List.take_append_drop r0 u, ← List.take_append_drop k (u.drop r0)]
  rw [List.sum_append, List.sum_append, List.drop_drop]
  unfold slice
  ring

theorem sum_setSlice (u o : List ℕ) (r0 : ℕ) (h : r0 + o.length ≤ u.length) :
    (setSlice u r0 o).sum + (slice u r0 o.length).sum = u.sum + o.sum := by
  rw [sum_eq_slices u r0 o.length]
  unfold setSlice
  rw [List.sum_append, List.sum_append]
  ring

/-- `t` and `u` coincide outside the modes `r0 … r0+k-1` -/
def Agree (M r0 k : ℕ) (u t : List ℕ) : Prop :=
  ∀ j : Fin M, ¬ (r0 ≤ j.val ∧ j.val < r0 + k) → t.getD j.val 0 = u.getD j.val 0

instance (M r0 k : ℕ) (u t : List ℕ) : Decidable (Agree M r0 k u t) := by
  unfold Agree; infer_instance

theorem setSlice_eq_iff {M k r0 : ℕ} (hk : r0 + k ≤ M) (u t o : List ℕ) (hu : u.length = M)
    (ht : t.length = M) (ho : o.length = k) :
    setSlice u r0 o = t ↔ Agree M r0 k u t ∧ o = slice t r0 k := by
  have hle : r0 + o.length ≤ u.length := by omega
  constructor
  · rintro rfl
    refine ⟨fun j hj => ?_, ?_⟩
    · rw [setSlice_getD u o r0 _ hle]
      split_ifs with h1 h2
      · rfl
      · exact absurd ⟨by omega, by omega⟩ hj
      · rfl
    · rw [← ho, slice_setSlice u o r0 hle]
  · rintro ⟨hag, rfl⟩
    have hsl : (slice t r0 k).length = k := slice_length t r0 k (by omega)
    apply list_ext_getD
    · rw [setSlice_length u _ r0 (by omega), hu, ht]
    · intro j hj
      rw [setSlice_length u _ r0 (by omega), hu] at hj
      rw [setSlice_getD u _ r0 _ (by omega), hsl]
      split_ifs with h1 h2
      · exact (hag ⟨j, hj⟩ (by simp; omega)).symm
      · rw [slice_getD, if_pos (by omega)]
        congr 1
        omega
      · exact (hag ⟨j, hj⟩ (by simp; omega)).symm

/-! ### one state of the input vector -/

theorem sum_map_ite_eq_of_nodup {α : Type*} [DecidableEq α] (l : List α) (hl : l.Nodup) (a : α)
    (F : α → R) : (l.map fun x => if x = a then F x else 0).sum = if a ∈ l then F a else 0 := by
  induction l with
  | nil => simp
  | cons x l ih =>
    rw [List.nodup_cons] at hl
    rw [List.map_cons, List.sum_cons, ih hl.2]
    by_cases hx : x = a
    · subst hx
      simp [hl.1]
    · have : a ≠ x := fun h => hx h.symm
      simp [hx, this]

/-- the inverse factorial splits like the factorial -/
theorem prodFact_embed_split {M k r0 : ℕ} (hk : r0 + k ≤ M) (u : List ℕ) (hu : u.length = M) :
    prodFact u = (∏ j : Fin M with ¬ (r0 ≤ j.val ∧ j.val < r0 + k), (u.getD j.val 0).factorial) *
      prodFact (slice u r0 k) := by
  have h := Embed.prodFact_split (fun a : Fin k => (⟨a.val + r0, by omega⟩ : Fin M))
    (PM.unshift M r0 k) (PM.unshift_partialInv hk) u hu
  simp only [Embed.unshift_eq_none_iff] at h
  rw [h, Embed.ofFn_getD_add u r0 k (by omega)]
  rfl

/-- **one input state**: what `Stepper.apply` adds to the amplitude of `t` on behalf of the state
`u` (amplitude `a`) is the full-space term `⟨t|embed B|u⟩ · a / ∏uᵢ!` -/
theorem stepper_entry {M k r0 : ℕ} (hk : r0 + k ≤ M) (inv : List ℕ → R)
    (hinv : ∀ v, inv v * (prodFact v : R) = 1) (B : Matrix (Fin k) (Fin k) R)
    (u t : List ℕ) (hu : u.length = M) (ht : t.length = M) (a : R) :
    (((allStates k (slice u r0 k).sum).map fun o =>
        (setSlice u r0 o, pamp B (slice u r0 k) o * inv (slice u r0 k) * a)).map
      fun p => if p.1 = t then p.2 else 0).sum =
      pamp (PM.embed M r0 B) u t * inv u * a := by
  rw [List.map_map]
  rw [Embed.pamp_embed_slice hk B u t hu ht]
  change _ = (if Agree M r0 k u t then _ * pamp B (slice u r0 k) (slice t r0 k) else 0) * inv u * a
  by_cases hag : Agree M r0 k u t
  · rw [if_pos hag]
    have hcongr : ∀ o ∈ allStates k (slice u r0 k).sum,
        ((fun p : List ℕ × R => if p.1 = t then p.2 else 0) ∘ fun o =>
          (setSlice u r0 o, pamp B (slice u r0 k) o * inv (slice u r0 k) * a)) o =
        (fun o => if o = slice t r0 k then
          pamp B (slice u r0 k) o * inv (slice u r0 k) * a else 0) o := by
      intro o ho
      have hol := ((mem_allStates_iff k _ o).1 ho).1
      simp only [Function.comp]
      by_cases h : o = slice t r0 k
      · rw [if_pos h, if_pos ((setSlice_eq_iff hk u t o hu ht hol).2 ⟨hag, h⟩)]
      · rw [if_neg h, if_neg fun h' => h ((setSlice_eq_iff hk u t o hu ht hol).1 h').2]
    rw [List.map_congr_left hcongr, sum_map_ite_eq_of_nodup _ (allStates_nodup _ _)]
    have hsplit := prodFact_embed_split hk u hu
    have hinvs : inv (slice u r0 k) =
        ((∏ j : Fin M with ¬ (r0 ≤ j.val ∧ j.val < r0 + k), (u.getD j.val 0).factorial : ℕ) : R) *
          inv u := by
      have h1 := hinv u
      have h2 := hinv (slice u r0 k)
      rw [hsplit, Nat.cast_mul] at h1
      linear_combination (-inv (slice u r0 k)) * h1 +
        ((∏ j : Fin M with ¬ (r0 ≤ j.val ∧ j.val < r0 + k), (u.getD j.val 0).factorial : ℕ) : R) *
          inv u * h2
    split_ifs with hmem
    · rw [hinvs]; ring
    · have hne : (slice u r0 k).sum ≠ (slice t r0 k).sum := by
        intro he
        exact hmem ((mem_allStates_iff k _ _).2 ⟨slice_length t r0 k (by omega), he.symm⟩)
      rw [Embed.pamp_zero_of_sum_ne' B _ _ hne]
      ring
  · rw [if_neg hag, zero_mul, zero_mul]
    apply List.sum_eq_zero
    intro x hx
    obtain ⟨o, ho, rfl⟩ := List.mem_map.1 hx
    have hol := ((mem_allStates_iff k _ o).1 ho).1
    simp only [Function.comp]
    rw [if_neg fun h' => hag ((setSlice_eq_iff hk u t o hu ht hol).1 h').1]

/-! ### the whole vector -/

theorem svGet_append (a b : SV R) (t : List ℕ) : svGet (a ++ b) t = svGet a t + svGet b t := by
  simp [svGet]

theorem svGet_cons (p : List ℕ × R) (sv : SV R) (t : List ℕ) :
    svGet (p :: sv) t = (if p.1 = t then p.2 else 0) + svGet sv t := by
  simp [svGet]

/-- every key of the vector is a state of `M` modes and `n` photons -/
def KeysIn (M n : ℕ) (sv : SV R) : Prop := ∀ p ∈ sv, p.1 ∈ allStates M n

/-- merging duplicate keys does not change any amplitude -/
theorem svGet_svCompress (sv : SV R) (t : List ℕ) : svGet (svCompress sv) t = svGet sv t := by
  have h := sum_map_ite_eq_of_nodup (R := R) (sv.map Prod.fst).dedup (List.nodup_dedup _) t
    (fun x => svGet sv x)
  have e : svGet (svCompress sv) t =
      ((sv.map Prod.fst).dedup.map fun x => if x = t then svGet sv x else 0).sum := by
    simp only [svCompress, svGet, List.map_map, Function.comp_def]
  rw [e, h]
  split_ifs with hmem
  · rfl
  · symm
    unfold svGet
    apply List.sum_eq_zero
    intro x hx
    obtain ⟨p, hp, rfl⟩ := List.mem_map.1 hx
    rw [if_neg]
    intro hpt
    apply hmem
    rw [List.mem_dedup]
    exact List.mem_map.2 ⟨p, hp, hpt⟩

theorem keysIn_svCompress {M n : ℕ} (sv : SV R) (h : KeysIn M n sv) :
    KeysIn M n (svCompress sv) := by
  intro q hq
  unfold svCompress at hq
  obtain ⟨t, ht, rfl⟩ := List.mem_map.1 hq
  obtain ⟨p, hp, rfl⟩ := List.mem_map.1 (List.mem_dedup.1 ht)
  exact h p hp

theorem svGet_stepperApplyRaw {M k r0 : ℕ} (hk : r0 + k ≤ M) (inv : List ℕ → R)
    (hinv : ∀ v, inv v * (prodFact v : R) = 1) (B : Matrix (Fin k) (Fin k) R) (n : ℕ)
    (sv : SV R) (hsv : KeysIn M n sv) (t : List ℕ) (ht : t.length = M) :
    svGet (stepperApplyRaw inv B r0 sv) t =
      (sv.map fun p => pamp (PM.embed M r0 B) p.1 t * inv p.1 * p.2).sum := by
  induction sv with
  | nil => simp [stepperApplyRaw, svGet]
  | cons p sv ih =>
    have hp := ((mem_allStates_iff M n p.1).1 (hsv p List.mem_cons_self)).1
    have ih' := ih fun q hq => hsv q (List.mem_cons_of_mem _ hq)
    unfold stepperApplyRaw at ih' ⊢
    rw [List.flatMap_cons, svGet_append, ih', List.map_cons, List.sum_cons]
    congr 1
    exact stepper_entry hk inv hinv B p.1 t hp ht p.2

/-- a sum over the entries of the vector is a sum over the enumeration of the space -/
theorem sum_entries_eq_sum_states (M n : ℕ) (sv : SV R) (hsv : KeysIn M n sv) (G : List ℕ → R) :
    (sv.map fun p => G p.1 * p.2).sum = ((allStates M n).map fun u => G u * svGet sv u).sum := by
  induction sv with
  | nil => simp [svGet]
  | cons p sv ih =>
    rw [List.map_cons, List.sum_cons, ih fun q hq => hsv q (List.mem_cons_of_mem _ hq)]
    simp only [svGet_cons, mul_add]
    rw [List.sum_map_add]
    congr 1
    have := sum_map_ite_eq_of_nodup (R := R) (allStates M n) (allStates_nodup M n) p.1
      (fun u => G u * p.2)
    rw [if_pos (hsv p List.mem_cons_self)] at this
    rw [← this]
    apply congrArg
    apply List.map_congr_left
    intro u _
    by_cases h : p.1 = u
    · rw [if_pos h, if_pos h.symm]
    · rw [if_neg h, if_neg fun h' => h h'.symm, mul_zero]

/-- full-space propagation step with an explicit inverse-factorial function -/
def stepAmpsInv {M : ℕ} (inv : List ℕ → R) (A : Matrix (Fin M) (Fin M) R) (n : ℕ)
    (f : List ℕ → R) (t : List ℕ) : R :=
  ((allStates M n).map fun u => pamp A u t * f u * inv u).sum

/-- **restricted-mode propagation = full-space propagation by the embedded component** -/
theorem stepperApply_eq_stepAmpsInv {M k r0 : ℕ} (hk : r0 + k ≤ M) (inv : List ℕ → R)
    (hinv : ∀ v, inv v * (prodFact v : R) = 1) (B : Matrix (Fin k) (Fin k) R) (n : ℕ)
    (sv : SV R) (hsv : KeysIn M n sv) (t : List ℕ) (ht : t.length = M) :
    svGet (stepperApply inv B r0 sv) t =
      stepAmpsInv inv (PM.embed M r0 B) n (svGet sv) t := by
  unfold stepperApply
  rw [svGet_svCompress, svGet_stepperApplyRaw hk inv hinv B n sv hsv t ht,
    sum_entries_eq_sum_states M n sv hsv fun u => pamp (PM.embed M r0 B) u t * inv u]
  unfold stepAmpsInv
  apply congrArg
  apply List.map_congr_left
  intro u _
  ring

/-- the keys stay in the `(M, n)` space -/
theorem keysIn_stepperApply {M k r0 : ℕ} (hk : r0 + k ≤ M) (inv : List ℕ → R)
    (B : Matrix (Fin k) (Fin k) R) (n : ℕ) (sv : SV R) (hsv : KeysIn M n sv) :
    KeysIn M n (stepperApply inv B r0 sv) := by
  unfold stepperApply
  apply keysIn_svCompress
  intro q hq
  unfold stepperApplyRaw at hq
  obtain ⟨p, hp, hq⟩ := List.mem_flatMap.1 hq
  obtain ⟨o, ho, rfl⟩ := List.mem_map.1 hq
  obtain ⟨hpl, hpn⟩ := (mem_allStates_iff M n p.1).1 (hsv p hp)
  obtain ⟨hol, hon⟩ := (mem_allStates_iff k _ o).1 ho
  apply (mem_allStates_iff M n _).2
  constructor
  · show (setSlice p.1 r0 o).length = M
    rw [setSlice_length _ _ _ (by omega), hpl]
  · show (setSlice p.1 r0 o).sum = n
    have := sum_setSlice p.1 o r0 (by omega)
    rw [hol] at this
    omega

/-! ### a whole circuit -/

/-- every component fits into the `M` modes -/
def Fits (M : ℕ) (comps : List (Comp R)) : Prop := ∀ c ∈ comps, c.r0 + c.k ≤ M

/-- the full-size matrix of the component list (`_compute_circuit_unitary`) -/
def compsMatrix (M : ℕ) (comps : List (Comp R)) : Matrix (Fin M) (Fin M) R :=
  comps.foldl (fun A c => PM.embed M c.r0 c.B * A) 1

theorem stepperRun_aux {M : ℕ} (inv : List ℕ → R) (hinv : ∀ v, inv v * (prodFact v : R) = 1)
    (s : List ℕ) (hs : s.length = M) (comps : List (Comp R)) (hfit : Fits M comps)
    (sv : SV R) (A : Matrix (Fin M) (Fin M) R) (hsv : KeysIn M s.sum sv)
    (hA : ∀ t ∈ allStates M s.sum, svGet sv t = pamp A s t) :
    KeysIn M s.sum (comps.foldl (fun sv c => stepperApply inv c.B c.r0 sv) sv) ∧
    ∀ t ∈ allStates M s.sum,
      svGet (comps.foldl (fun sv c => stepperApply inv c.B c.r0 sv) sv) t =
        pamp (comps.foldl (fun A c => PM.embed M c.r0 c.B * A) A) s t := by
  induction comps generalizing sv A with
  | nil => exact ⟨hsv, hA⟩
  | cons c rest ih =>
    simp only [List.foldl_cons]
    have hc : c.r0 + c.k ≤ M := hfit c List.mem_cons_self
    apply ih (fun c' hc' => hfit c' (List.mem_cons_of_mem _ hc'))
    · exact keysIn_stepperApply hc inv c.B s.sum sv hsv
    · intro t ht
      obtain ⟨htl, htn⟩ := (mem_allStates_iff M s.sum t).1 ht
      rw [stepperApply_eq_stepAmpsInv hc inv hinv c.B s.sum sv hsv t htl,
        pamp_mul_of_inv inv (fun u _ => hinv u) _ A s t hs htl rfl htn,
        List.sum_toFinset _ (allStates_nodup M s.sum)]
      unfold stepAmpsInv
      apply congrArg
      apply List.map_congr_left
      intro u hu
      rw [hA u hu]

end PM.C02
