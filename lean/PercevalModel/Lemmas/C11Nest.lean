/-
  C11 — lemmas for `decompose_perms` with its nesting (`Model/C11Nest.lean`).
-/
import PercevalModel.Model.C11Nest
import PercevalModel.Lemmas.C11Mixed

open Matrix PM

namespace PM.C11
variable {P R : Type}

/-- flattening a component list given as a Lean list -/
theorem flattenIts_ofList (s : ℕ) (d : Option ℕ) : (l : List (ℕ × Cmp R)) →
    flattenIts true s d (Its.ofList l) = l.flatMap fun p => flattenCmp true s p.1 d p.2
  | [] => by simp [Its.ofList, flattenIts]
  | (o, c) :: rest => by
      simp only [Its.ofList, flattenIts, List.flatMap_cons]
      rw [flattenIts_ofList s d rest]

/-- a list of leaves flattens to itself, shifted by the enclosing offset -/
theorem flatten_leaves (s : ℕ) (d : Option ℕ) (x : Leaf R) (f : ℕ → ℕ) : (l : List ℕ) →
    (l.map fun k => ((f k, Cmp.leaf x) : ℕ × Cmp R)).flatMap (fun p => flattenCmp true s p.1 d p.2) =
      l.map fun k => (f k + s, Cmp.leaf x)
  | [] => by simp
  | k :: rest => by
      simp only [List.map_cons, List.flatMap_cons, flattenCmp]
      rw [flatten_leaves s d x f rest]
      rfl

/-- the per-item step of `MS.decomp` -/
def decompFlat (p : ℕ × FK P R) : List (ℕ × FK P R) :=
  match p.2 with
  | .perm n σ => if n = 2 then [p] else (bubble σ).map fun k => (p.1 + k, .perm 2 [1, 0])
  | _ => [p]

theorem MS.decomp_eq (st : MS P R) : st.decomp = st.flatMap decompFlat := rfl

/-- one item: whatever `merge` says, iterating over what was appended gives the two-mode `PERM` itself, or the
swaps at `r + k` -/
theorem decompItem_flatten [Zero R] [One R] (merge : Bool) (e : P → R) (p : ℕ × FK P R) :
    (decompItem merge e p).flatMap (fun q => flattenCmp true 0 q.1 none q.2) =
      (decompFlat p).map fun q => (q.1, q.2.toCmp e) := by
  obtain ⟨o, k⟩ := p
  cases k with
  | perm n σ =>
    by_cases h2 : n = 2
    · subst h2
      simp [decompItem, decompFlat, FK.toCmp, flattenCmp]
    · by_cases hm : (merge && !(bubble σ).isEmpty) = true
      · simp only [decompItem, decompFlat, h2, hm, if_true, if_false, swapCmp]
        rw [flatten_leaves 0 none _ (fun k => o + k) (bubble σ)]
        simp [FK.toCmp]
      · simp only [decompItem, decompFlat, h2, hm, if_false, Bool.false_eq_true, swapCmp, List.flatMap_cons,
          List.flatMap_nil, List.append_nil, flattenCmp, Option.all_none, if_true]
        rw [flattenIts_ofList, flatten_leaves (0 + o) _ _ (fun k => k) (bubble σ)]
        simp [FK.toCmp, Nat.add_comm]
  | ps φ => simp [decompItem, decompFlat, FK.toCmp, flattenCmp]
  | leaf l => simp [decompItem, decompFlat, FK.toCmp, flattenCmp]

/-- `for r, c in decompose_perms(circuit, merge)` iterates over the list `MS.decomp` describes — for BOTH values of
`merge`, empty nested circuits included -/
theorem decompTree_flatten' [Zero R] [One R] (merge : Bool) (e : P → R) (st : MS P R) :
    flattenExp true none (Its.ofList (MS.decompTree merge e st)) = (MS.decomp st).cmps e := by
  rw [flattenExp, flattenIts_ofList, MS.decomp_eq, MS.cmps, MS.decompTree, List.flatMap_assoc,
    List.map_flatMap]
  congr 1
  funext p
  exact decompItem_flatten merge e p

/-- every item `decompose_perms` appends passes the assertions of `Circuit.add`: it fits the circuit, and the swaps
of a nested sub-circuit fit the sub-circuit -/
theorem decompItem_ok [CommRing R] [StarRing R] (merge : Bool) (e : P → R) (m : ℕ) (p : ℕ × FK P R)
    (h1 : p.1 + p.2.size ≤ m) (hok : p.2.OK) :
    ListOK (fun _ : Leaf R => True) m (decompItem merge e p) := by
  obtain ⟨o, k⟩ := p
  cases k with
  | perm n σ =>
    have hs := (bubble_ok (show IsPermList n σ from hok)).1
    simp only [FK.size] at h1
    by_cases h2 : n = 2
    · intro q hq
      simp only [decompItem, h2, if_true, List.mem_singleton] at hq
      subst hq
      exact ⟨by simp only [FK.toCmp, Cmp.size, Leaf.size]; omega, by simp [FK.toCmp, Cmp.WF],
        by simp [FK.toCmp, Cmp.All]⟩
    · by_cases hm : (merge && !(bubble σ).isEmpty) = true
      · intro q hq
        simp only [decompItem, h2, hm, if_true, if_false, List.mem_map] at hq
        obtain ⟨k, hk, rfl⟩ := hq
        have := hs k hk
        exact ⟨by simp only [swapCmp, Cmp.size, Leaf.size]; omega, by simp [swapCmp, Cmp.WF],
          by simp [swapCmp, Cmp.All]⟩
      · intro q hq
        simp only [decompItem, h2, hm, if_false, Bool.false_eq_true, List.mem_singleton] at hq
        subst hq
        have hin : ListOK (fun _ : Leaf R => True) n ((bubble σ).map fun k => ((k, swapCmp) : ℕ × Cmp R)) := by
          intro q hq
          simp only [List.mem_map] at hq
          obtain ⟨k, hk, rfl⟩ := hq
          have := hs k hk
          exact ⟨by simp only [swapCmp, Cmp.size, Leaf.size]; omega, by simp [swapCmp, Cmp.WF],
            by simp [swapCmp, Cmp.All]⟩
        have hw := Its.ofList_WF _ hin
        exact ⟨by simp only [Cmp.size]; omega, by simpa [Cmp.WF] using hw.1, by simpa [Cmp.All] using hw.2⟩
  | ps φ =>
    intro q hq
    simp only [decompItem, List.mem_singleton] at hq
    subst hq
    exact ⟨h1, by simp [FK.toCmp, Cmp.WF], by simp [FK.toCmp, Cmp.All]⟩
  | leaf l =>
    intro q hq
    simp only [decompItem, List.mem_singleton] at hq
    subst hq
    exact ⟨h1, by simp [FK.toCmp, Cmp.WF], by simp [FK.toCmp, Cmp.All]⟩

/-- the whole list `decompose_perms` builds is a circuit on the `m` modes -/
theorem decompTree_ok [CommRing R] [StarRing R] (merge : Bool) (e : P → R) (m : ℕ) (st : MS P R)
    (hok : st.OK m) : ListOK (fun _ : Leaf R => True) m (MS.decompTree merge e st) := by
  intro q hq
  simp only [MS.decompTree, List.mem_flatMap] at hq
  obtain ⟨p, hp, hq⟩ := hq
  obtain ⟨h1, _, h3⟩ := hok p hp
  exact decompItem_ok merge e m p h1 h3 q hq

end PM.C11
