/-
  C15 — helper lemmas (parameter name table, slots, matrix chunking).
-/
import PercevalModel.Model.C15

namespace PM.C15

/-! ### association lists -/

theorem lookup_none_not_mem {β} (k : String) :
    ∀ (l : List (String × β)), l.lookup k = none → k ∉ l.map Prod.fst
  | [], _ => by simp
  | (a, b) :: t, h => by
    simp only [List.lookup] at h
    by_cases hk : k = a
    · subst hk; simp at h
    · have hne : (k == a) = false := by simpa using hk
      rw [hne] at h
      simp only [List.map_cons, List.mem_cons, not_or]
      exact ⟨hk, lookup_none_not_mem k t h⟩

theorem Inv.empty (env : Env) : Inv env {} :=
  ⟨by intro k v h; simp [List.lookup] at h, rfl, by simp⟩

/-- registering a name that is not yet in the table, with the value the environment gives it -/
theorem Inv.insert {env : Env} {st : St} (h : Inv env st) (n : String) (v : Option Dbl)
    (hl : st.tbl.lookup n = none) (he : env n = some v) :
    Inv env ⟨(n, v) :: st.tbl, n :: st.allocs⟩ := by
  refine ⟨?_, ?_, ?_⟩
  · intro k w hk
    simp only [List.lookup] at hk
    by_cases hkn : k = n
    · subst hkn; simp at hk; subst hk; exact he
    · have : (k == n) = false := by simpa using hkn
      rw [this] at hk
      exact h.agrees k w hk
  · simp [h.allocs_eq]
  · simp only [List.map_cons, List.nodup_cons]
    exact ⟨lookup_none_not_mem n _ hl, h.nodup⟩

/-! ### parameters -/

/-- what the reader returns for a well-formed parameter -/
def Param.toDVal : Param → DVal
  | .fixed v => .flt v
  | .var n v => .par n v
  | .expr e s => .expr e s

theorem toParam_toDVal (slot : String) (p : Param) : toParam slot p.toDVal = some p := by
  cases p <;> rfl

theorem bump_toDVal (slot : String) (p : Param) (st : St) : bump slot p.toDVal st = st := by
  cases p <;> rfl

/-- a named plain parameter round-trips through the table -/
theorem decodeBase_named {env : Env} {st : St} (h : Inv env st) (n : String) (val : Option Dbl)
    (hn : n ≠ "") (he : env n = some val) :
    ∃ st', decodeBase st (match val with | some v => .real v | none => .symbol n) n
        = some (.par n val, st') ∧ Inv env st' := by
  cases val with
  | some v =>
    simp only [decodeBase, hn, ne_eq, not_false_eq_true, if_true]
    cases hl : st.tbl.lookup n with
    | none => exact ⟨_, rfl, h.insert n (some v) hl he⟩
    | some w =>
      have := h.agrees n w hl
      rw [he] at this
      cases this
      simp only [if_true]
      exact ⟨st, rfl, h⟩
  | none =>
    simp only [decodeBase]
    cases hl : st.tbl.lookup n with
    | none => exact ⟨_, rfl, h.insert n none hl he⟩
    | some w =>
      have := h.agrees n w hl
      rw [he] at this
      cases this
      exact ⟨st, rfl, h⟩

theorem encodeSub_fixed (s : Sub) :
    encodeSub Cfg.fixed s = ⟨(match s.val with | some v => .real v | none => .symbol s.name), s.name⟩ := by
  unfold encodeSub
  cases s.val <;> simp [Cfg.fixed]

theorem decodeSubs_encode {env : Env} :
    ∀ (subs : List Sub) (st : St), Inv env st → (∀ s ∈ subs, s.WF env) →
      ∃ st', decodeSubs (subs.map (encodeSub Cfg.fixed)) st = some (subs.map Sub.norm, st') ∧ Inv env st'
  | [], st, h, _ => ⟨st, rfl, h⟩
  | s :: rest, st, h, hw => by
    have hs := hw s (by simp)
    obtain ⟨st1, e1, h1⟩ := decodeBase_named h s.name s.val hs.1 hs.2.1
    obtain ⟨st2, e2, h2⟩ := decodeSubs_encode rest st1 h1 (fun x hx => hw x (by simp [hx]))
    refine ⟨st2, ?_, h2⟩
    simp only [List.map_cons, decodeSubs, encodeSub_fixed, e1, e2]
    rfl

/-- `deserialize_parameter ∘ serialize_parameter` on one parameter, under the table invariant -/
theorem decodeParam_encodeParam {env : Env} (ev : String → List Sub → Dbl) {st : St}
    (h : Inv env st) (p : Param) (hp : p.WF env) :
    ∃ st', decodeParam st (encodeParam Cfg.fixed ev p) = some (p.norm.toDVal, st') ∧ Inv env st' := by
  cases p with
  | fixed v => exact ⟨st, by simp [encodeParam, decodeParam, decodeBase, Param.norm, Param.toDVal], h⟩
  | var n val =>
    obtain ⟨hn, he⟩ := hp
    obtain ⟨st', e, h'⟩ := decodeBase_named h n val hn he
    refine ⟨st', ?_, h'⟩
    cases val <;> simpa [encodeParam, decodeParam, Param.norm, Param.toDVal] using e
  | expr e subs =>
    obtain ⟨hne, hs⟩ := hp
    obtain ⟨st', e', h'⟩ := decodeSubs_encode subs st h hs
    refine ⟨st', ?_, h'⟩
    have hemp : subs.isEmpty = false := by cases subs <;> simp_all
    have hx : Cfg.fixed.exprFix = true := rfl
    simp [encodeParam, hx, hemp, decodeParam, e', Param.norm, Param.toDVal]

theorem decSlot_encode {env : Env} (ev : String → List Sub → Dbl) {st : St}
    (h : Inv env st) (p : Param) (hp : p.WF env) :
    ∃ st', decSlot st (some (encodeParam Cfg.fixed ev p)) = some (p.norm.toDVal, st') ∧ Inv env st' :=
  decodeParam_encodeParam ev h p hp

/-- all slots of a component, read in order -/
theorem decSlots_encode {env : Env} (ev : String → List Sub → Dbl) :
    ∀ (names : List String) (ps : List Param) (st : St), Inv env st → ps.length = names.length →
      (∀ p ∈ ps, p.WF env) →
      ∃ st', decSlots names (ps.map (fun p => some (encodeParam Cfg.fixed ev p))) st
          = some (ps.map Param.norm, st') ∧ Inv env st'
  | [], [], st, h, _, _ => ⟨st, rfl, h⟩
  | [], _ :: _, _, _, hl, _ => by simp at hl
  | _ :: _, [], _, _, hl, _ => by simp at hl
  | n :: ns, p :: ps, st, h, hl, hw => by
    obtain ⟨st1, e1, h1⟩ := decSlot_encode ev h p (hw p (by simp))
    obtain ⟨st2, e2, h2⟩ := decSlots_encode ev ns ps st1 h1 (by simpa using hl)
      (fun x hx => hw x (by simp [hx]))
    refine ⟨st2, ?_, h2⟩
    simp only [List.map_cons, decSlots, List.head?_cons, Option.join_some, e1, toParam_toDVal,
      bump_toDVal, List.tail_cons, e2]

theorem dupExpr_irrelevant (ps : List Param) : (!Cfg.fixed.exprFix && dupExpr ps) = false := by
  simp [Cfg.fixed]

/-! ### matrices -/

theorem chunkGo_row {α} (n : Nat) (r : List α) :
    ∀ (acc rest : List α), acc.length + r.length = n → r ≠ [] →
      chunkGo n acc (r ++ rest) = (acc ++ r) :: chunkGo n [] rest := by
  induction r with
  | nil => intro _ _ _ h; exact absurd rfl h
  | cons x xs ih =>
    intro acc rest hlen _
    simp only [List.cons_append, chunkGo]
    by_cases hx : xs = []
    · subst hx
      have : (acc ++ [x]).length = n := by simp at hlen ⊢; omega
      simp [this]
    · have hne : (acc ++ [x]).length ≠ n := by
        have : 0 < xs.length := List.length_pos_iff.mpr hx
        simp at hlen ⊢; omega
      simp only [hne, if_false]
      rw [ih (acc ++ [x]) rest (by simp at hlen ⊢; omega) hx]
      simp

theorem chunkGo_flatten {α} (n : Nat) (hn : 0 < n) :
    ∀ rows : List (List α), (∀ r ∈ rows, r.length = n) → chunkGo n [] rows.flatten = rows
  | [], _ => by simp [chunkGo]
  | r :: rest, h => by
    have hr := h r (by simp)
    have hne : r ≠ [] := by intro e; subst e; simp at hr; omega
    rw [List.flatten_cons, chunkGo_row n r [] _ (by simpa using hr) hne,
      chunkGo_flatten n hn rest (fun x hx => h x (by simp [hx]))]
    simp

theorem length_flatten_const {α} (n : Nat) :
    ∀ rows : List (List α), (∀ r ∈ rows, r.length = n) → rows.flatten.length = rows.length * n
  | [], _ => by simp
  | r :: rest, h => by
    rw [List.flatten_cons, List.length_append, h r (by simp),
      length_flatten_const n rest (fun x hx => h x (by simp [hx]))]
    simp [Nat.add_mul, Nat.add_comm]

theorem decMat_encMat_num (rows : List (List Cx)) (h : (Mat.num rows).WFnum) :
    decMat (encMat (.num rows)) = some (.num rows) := by
  obtain ⟨hpos, hall⟩ := h
  obtain ⟨r0, rest, rfl⟩ : ∃ r0 rest, rows = r0 :: rest := by
    cases rows with
    | nil => simp at hpos
    | cons a b => exact ⟨a, b, rfl⟩
  have h0 : r0.length = (r0 :: rest).length := hall r0 (by simp)
  have hc : (rowsCols (r0 :: rest)).2 = (r0 :: rest).length := by simp [rowsCols, h0]
  have hr : (rowsCols (r0 :: rest)).1 = (r0 :: rest).length := rfl
  simp only [encMat, decMat, hc, hr, length_flatten_const _ _ hall, if_true]
  rw [chunkGo_flatten _ hpos _ hall]

theorem decMat_encMat_rect (m : Mat) (h : m.WFrect) : decMat (encMat m) = some m := by
  cases m with
  | num rows =>
    obtain ⟨hne, n, hn, hall⟩ := h
    obtain ⟨r0, rest, rfl⟩ : ∃ r0 rest, rows = r0 :: rest := by
      cases rows with
      | nil => exact absurd rfl hne
      | cons a b => exact ⟨a, b, rfl⟩
    have h0 : r0.length = n := hall r0 (by simp)
    have hc : (rowsCols (r0 :: rest)).2 = n := by simp [rowsCols, h0]
    have hr : (rowsCols (r0 :: rest)).1 = (r0 :: rest).length := rfl
    simp only [encMat, decMat, hc, hr, length_flatten_const _ _ hall, if_true]
    rw [chunkGo_flatten _ hn _ hall]
  | sym rows =>
    obtain ⟨hne, n, hn, hall⟩ := h
    obtain ⟨r0, rest, rfl⟩ : ∃ r0 rest, rows = r0 :: rest := by
      cases rows with
      | nil => exact absurd rfl hne
      | cons a b => exact ⟨a, b, rfl⟩
    have h0 : r0.length = n := hall r0 (by simp)
    have hc : (rowsCols (r0 :: rest)).2 = n := by simp [rowsCols, h0]
    have hr : (rowsCols (r0 :: rest)).1 = (r0 :: rest).length := rfl
    simp only [encMat, decMat, hc, hr, length_flatten_const _ _ hall, if_true]
    rw [chunkGo_flatten _ hn _ hall]

/-! ### components -/

theorem Comp.norm_size (c : Comp) : c.norm.size = c.size := by
  cases c <;> simp [Comp.norm, Comp.size]

theorem convOf_convNum (c : Conv) : convOf (Kind.bs c).convNum = c := by
  cases c <;> rfl

/-- every parametrised leaf kind: builder ∘ writer = identity (up to `norm`) -/
theorem decLeaf_encode {env : Env} (ev : String → List Sub → Dbl) {st : St} (h : Inv env st)
    (k : Kind) (ps : List Param) (hl : ps.length = k.slots.length) (hw : ∀ p ∈ ps, p.WF env) :
    ∃ st', decLeaf Cfg.fixed k.wire k.convNum (encSlots Cfg.fixed ev k ps) st
        = some (.leaf k (ps.map Param.norm), st') ∧ Inv env st' := by
  have hx : Cfg.fixed.exprFix = true := rfl
  cases k with
  | bs c =>
    obtain ⟨st', e, h'⟩ := decSlots_encode ev (Kind.bs .rx).slots ps st h hl hw
    exact ⟨st', by simp [decLeaf, encSlots, Kind.wire, e, hx, convOf_convNum], h'⟩
  | ps =>
    match ps, hl with
    | [phi, me], _ =>
      by_cases ht : me.truthy = true
      · obtain ⟨st1, e1, h1⟩ := decSlot_encode ev h me (hw me (by simp))
        obtain ⟨st2, e2, h2⟩ := decSlot_encode ev h1 phi (hw phi (by simp))
        refine ⟨st2, ?_, h2⟩
        simp only [decLeaf, encSlots, Kind.wire, ht, if_true, List.tail_cons, List.head?_cons,
          Option.join_some, e1, e2, toParam_toDVal, bump_toDVal, hx]
        cases me <;> simp [Param.norm, Param.toDVal, toParam]
      · obtain ⟨st2, e2, h2⟩ := decSlot_encode ev h phi (hw phi (by simp))
        refine ⟨st2, ?_, h2⟩
        have hme : me = .fixed 0 := by
          cases me with
          | fixed v => simp [Param.truthy] at ht; subst ht; rfl
          | var _ _ => simp [Param.truthy] at ht
          | expr _ _ => simp [Param.truthy] at ht
        subst hme
        have ht0 : (Param.fixed (0 : Dbl)).truthy = false := by simp [Param.truthy]
        have hA : ∀ X : Option PbParam, decSlot st ([X, none].tail.head?.join) = some (.none_, st) :=
          fun _ => rfl
        simp only [decLeaf, encSlots, Kind.wire, ht0, Bool.false_eq_true, if_false, hA,
          List.head?_cons, Option.join_some, e2, toParam_toDVal, bump_toDVal, hx]
        rfl
  | wp =>
    obtain ⟨st', e, h'⟩ := decSlots_encode ev Kind.wp.slots ps st h hl hw
    exact ⟨st', by simp [decLeaf, encSlots, Kind.wire, e, hx], h'⟩
  | hwp =>
    obtain ⟨st', e, h'⟩ := decSlots_encode ev Kind.hwp.slots ps st h hl hw
    exact ⟨st', by simp [decLeaf, encSlots, Kind.wire, e, hx], h'⟩
  | qwp =>
    obtain ⟨st', e, h'⟩ := decSlots_encode ev Kind.qwp.slots ps st h hl hw
    exact ⟨st', by simp [decLeaf, encSlots, Kind.wire, e, hx], h'⟩
  | pr =>
    obtain ⟨st', e, h'⟩ := decSlots_encode ev Kind.pr.slots ps st h hl hw
    exact ⟨st', by simp [decLeaf, encSlots, Kind.wire, e, hx], h'⟩
  | td =>
    obtain ⟨st', e, h'⟩ := decSlots_encode ev Kind.td.slots ps st h hl hw
    exact ⟨st', by simp [decLeaf, encSlots, Kind.wire, e, hx], h'⟩
  | lc =>
    obtain ⟨st', e, h'⟩ := decSlots_encode ev Kind.lc.slots ps st h hl hw
    exact ⟨st', by simp [decLeaf, encSlots, Kind.wire, e, hx], h'⟩

theorem decUnitary_encode (mat : Mat) (name : String) (up : Bool)
    (hm : mat.WFnum) (hn : name ≠ "") (hu : up = true → mat.nrows % 2 = 0) :
    decUnitary Cfg.fixed (some (encMat mat)) (if name = "Unitary" then "" else name) up
      = some (.unitary mat name up) := by
  cases mat with
  | sym _ => exact absurd hm (by simp [Mat.WFnum])
  | num rows =>
    have hd := decMat_encMat_num rows hm
    obtain ⟨hpos, hall⟩ := hm
    have hu' : (!up || rows.length % 2 = 0) = true := by
      cases up with
      | false => simp
      | true => simpa [Mat.nrows] using hu rfl
    have hall' : (rows.all (·.length = rows.length)) = true := by
      simpa using hall
    have hf : Cfg.fixed.unitaryFields = true := rfl
    simp only [decUnitary, Option.bind_some, hd, hf, Bool.true_and]
    by_cases hname : name = "Unitary"
    · subst hname; simp [hall', hpos, hu']
    · simp [hname, hn, hall', hpos, hu']

theorem Comp.size_pos {env : Env} (c : Comp) (h : c.WF env) : 0 < c.size := by
  cases c with
  | leaf k ps => cases k <;> simp [Comp.size, Kind.size]
  | perm p =>
    have hp : isPerm p = true := h
    simp only [isPerm, Bool.and_eq_true, Bool.not_eq_true'] at hp
    have : p ≠ [] := by intro e; simp [e] at hp
    exact List.length_pos_iff.mpr this
  | unitary mat name up =>
    obtain ⟨hm, _, hu⟩ := h
    cases mat with
    | sym _ => exact absurd hm (by simp [Mat.WFnum])
    | num rows =>
      obtain ⟨hpos, _⟩ := hm
      cases up with
      | false => simpa [Comp.size, Mat.nrows] using hpos
      | true =>
        have := hu rfl
        simp only [Mat.nrows] at this
        simp only [Comp.size, Mat.nrows, if_true]
        omega
  | pbs => simp [Comp.size]
  | barrier m v => exact h
  | circ m n i => exact h.1

/-! ### association-list maps -/

theorem decAssoc_map {α β} (enc : β → α) (dec : α → Option β) :
    ∀ (l : List (Nat × β)), (∀ p ∈ l, dec (enc p.2) = some p.2) →
      decAssoc dec (l.map fun (i, b) => (i, enc b)) = some l
  | [], _ => rfl
  | (i, b) :: rest, h => by
    have h1 : dec (enc b) = some b := h (i, b) (by simp)
    have h2 := decAssoc_map enc dec rest (fun p hp => h p (by simp [hp]))
    simp only [List.map_cons, decAssoc, h1, h2]

/-! ### envelope -/

theorem splitColon_append (tag payload : Text) (h : ':' ∉ tag) :
    splitColon (tag ++ ':' :: payload) = some (tag, payload) := by
  induction tag with
  | nil => simp [splitColon]
  | cons c cs ih =>
    have hc : c ≠ ':' := by intro e; subst e; simp at h
    have hcs : ':' ∉ cs := by intro e; exact h (by simp [e])
    simp [splitColon, hc, ih hcs]

theorem isPrefixOf_append_self (a b : Text) : a.isPrefixOf (a ++ b) = true := by
  induction a with
  | nil => simp
  | cons x xs ih => simp [List.isPrefixOf, ih]

theorem parseEnv_mkEnv (tag payload : Text) (h : ':' ∉ tag) :
    parseEnv (mkEnv tag payload) = some (tag, payload) := by
  unfold parseEnv mkEnv
  rw [isPrefixOf_append_self]
  simp only [if_true, List.drop_left]
  exact splitColon_append tag payload h

theorem mkEnv_not_empty (tag payload : Text) : (mkEnv tag payload).isEmpty = false := by
  simp [mkEnv, pcvlPrefix]

theorem decOptText_enc (o : Option (Text × Text)) (h : tagOk o) :
    decOptText (encOptText o) = some o := by
  cases o with
  | none => rfl
  | some p =>
    obtain ⟨tag, payload⟩ := p
    have ht : ':' ∉ tag := h (tag, payload) rfl
    simp [decOptText, encOptText, mkEnv_not_empty, parseEnv_mkEnv tag payload ht]

/-- an uncompressed envelope of a known tag is never mistaken for a compressed one -/
theorem not_zip_of_known (tag payload : Text) (h : tag ∈ knownTags) :
    zipPrefix.isPrefixOf (mkEnv tag payload) = false := by
  simp only [knownTags, List.map_cons, List.map_nil, List.mem_cons, List.not_mem_nil, or_false] at h
  rcases h with h | h | h | h | h | h | h | h | h | h | h | h | h | h | h | h <;> subst h <;> rfl

theorem colon_not_in_known (tag : Text) (h : tag ∈ knownTags) : ':' ∉ tag := by
  simp only [knownTags, List.map_cons, List.map_nil, List.mem_cons, List.not_mem_nil, or_false] at h
  rcases h with h | h | h | h | h | h | h | h | h | h | h | h | h | h | h | h <;> subst h <;> decide

/-! ### BSSamples -/

theorem getElem?_idxOf {σ} [DecidableEq σ] (dict : List σ) (s : σ) (h : s ∈ dict) :
    dict[dict.idxOf s]? = some s := by
  have hlt : dict.idxOf s < dict.length := List.idxOf_lt_length_of_mem h
  rw [List.getElem?_eq_getElem hlt]
  simp

/-- generalised loop invariant: the final dictionary extends the current one and every emitted
index points at the sample it stands for -/
theorem bssGo_spec {σ} [DecidableEq σ] :
    ∀ (l dict : List σ), ∃ ext, (bssGo dict l).1 = dict ++ ext ∧
      (bssGo dict l).2.mapM (fun i => (dict ++ ext)[i]?) = some l ∧ (l ≠ [] → dict ++ ext ≠ [])
  | [], dict => ⟨[], by simp [bssGo]⟩
  | s :: rest, dict => by
    by_cases hs : s ∈ dict
    · obtain ⟨ext, e1, e2, _⟩ := bssGo_spec rest dict
      refine ⟨ext, by simp [bssGo, hs, e1], ?_, ?_⟩
      · have hget : (dict ++ ext)[dict.idxOf s]? = some s := by
          rw [List.getElem?_append_left (List.idxOf_lt_length_of_mem hs)]
          exact getElem?_idxOf dict s hs
        simp only [bssGo, hs, if_true, List.mapM_cons, hget, e2]
        rfl
      · intro _ e
        have : dict = [] := (List.append_eq_nil_iff.mp e).1
        subst this; simp at hs
    · obtain ⟨ext, e1, e2, _⟩ := bssGo_spec rest (dict ++ [s])
      refine ⟨s :: ext, by simp [bssGo, hs, e1], ?_, by simp⟩
      have hget : (dict ++ s :: ext)[dict.length]? = some s := by simp
      have e2' : (bssGo (dict ++ [s]) rest).2.mapM (fun i => (dict ++ s :: ext)[i]?) = some rest := by
        simpa using e2
      simp only [bssGo, hs, if_false, List.mapM_cons, hget, e2']
      rfl

/-! ### float grid -/

theorem roundHalfEven_err (a b : Nat) (hb : 0 < b) :
    2 * (roundHalfEven a b * b) ≤ 2 * a + b ∧ 2 * a ≤ 2 * (roundHalfEven a b * b) + b := by
  have hd : b * (a / b) + a % b = a := Nat.div_add_mod a b
  have hm : a % b < b := Nat.mod_lt a hb
  have hq : (a / b) * b = b * (a / b) := Nat.mul_comm _ _
  have hq1 : (a / b + 1) * b = b * (a / b) + b := by rw [Nat.add_mul, Nat.one_mul, hq]
  unfold roundHalfEven
  simp only []
  split
  · rw [hq]; omega
  · split
    · rw [hq1]; omega
    · split
      · rw [hq]; omega
      · rw [hq1]; omega

end PM.C15
