/-
  C08 — `simulate_detectors` with a non-zero `prob_threshold` (model: `Model/C08Thr.lean`):
  * exact law of `list_tensor_product(…, prob_threshold=T)`: which output states are dropped (`kthr`);
  * a dropped state has kernel-product weight `≤ T`, a kept one is untouched (`kthr_cases`);
  * generic comparison of two runs of the general branch (`genFold`): physical performance, retained mass and
    pointwise weights of the run at `(min_p, T)` against the exact run at `(0, 0)`;
  * the resulting bounds for `simulateRawThr` and, with `T = 0`, for `simulateRaw` at `min_p > 0`
    (the pointwise bound of the NORMALISED result and of `phys_perf` alone).
-/
import PercevalModel.Model.C08Thr
import PercevalModel.Lemmas.C08MinP
import Mathlib.Algebra.Order.BigOperators.Group.List

set_option linter.unusedSectionVars false

open Finset

namespace PM.C08

/-! ### mass of a part of a distribution as a finite sum of recorded weights -/
section massFilter
variable {K : Type} [Field K] [LinearOrder K] {σ : Type} [DecidableEq σ]

theorem mass_filter_eq_sum (d : Dist σ K) (f : σ → Bool) (S : Finset σ) (hS : ∀ k ∈ keys d, k ∈ S) :
    mass (d.filter fun e => f e.1) = ∑ k ∈ S, if f k then wt d k else 0 := by
  induction d with
  | nil => simp [wt]
  | cons e d ih =>
    have hS' : ∀ k ∈ keys d, k ∈ S := fun k hk => hS k (by
      simp only [keys, List.map_cons, List.mem_cons] at hk ⊢; exact Or.inr hk)
    have he : e.1 ∈ S := hS e.1 (by simp [keys])
    have h1 : ∀ k, (if f k then wt (e :: d) k else 0)
        = (if e.1 = k then (if f e.1 then e.2 else 0) else 0) + (if f k then wt d k else 0) := by
      intro k
      simp only [wt]
      by_cases hk : e.1 = k
      · subst hk; by_cases hf : f e.1 <;> simp [hf]
      · by_cases hf : f k <;> simp [hk, hf]
    simp only [h1, Finset.sum_add_distrib, Finset.sum_ite_eq, he, if_true]
    rw [← ih hS']
    simp only [List.filter_cons]
    by_cases hf : f e.1 <;> simp [hf]

theorem mass_eq_sum (d : Dist σ K) (S : Finset σ) (hS : ∀ k ∈ keys d, k ∈ S) :
    mass d = ∑ k ∈ S, wt d k := by
  have := mass_filter_eq_sum d (fun _ => true) S hS
  simpa using this

theorem mass_filter_split (d : Dist σ K) (f : σ → Bool) :
    mass (d.filter fun e => f e.1) + mass (d.filter fun e => !f e.1) = mass d := by
  induction d with
  | nil => simp
  | cons e d ih =>
    simp only [List.filter_cons]
    by_cases hf : f e.1 <;> simp [hf, mass_cons] <;> linear_combination ih

variable [IsStrictOrderedRing K]

/-- a distribution recording at most as much as another one at every key has at most its mass on every part -/
theorem mass_filter_le (A B : Dist σ K) (h : ∀ k, wt A k ≤ wt B k) (f : σ → Bool) :
    mass (A.filter fun e => f e.1) ≤ mass (B.filter fun e => f e.1) := by
  classical
  set S : Finset σ := (keys A).toFinset ∪ (keys B).toFinset with hSdef
  rw [mass_filter_eq_sum A f S (fun k hk => by simp [hSdef, hk]),
    mass_filter_eq_sum B f S (fun k hk => by simp [hSdef, hk])]
  apply Finset.sum_le_sum
  intro k _
  by_cases hf : f k <;> simp [hf, h k]

/-- …and at least its mass minus `c` per key of the larger one, when no key lost more than `c` -/
theorem mass_ge_of_wt (A B : Dist σ K) (hA : Nonneg A) {c : K} (hc : 0 ≤ c)
    (h : ∀ k, wt B k - c ≤ wt A k) : mass B - (B.length : K) * c ≤ mass A := by
  classical
  set S : Finset σ := (keys A).toFinset ∪ (keys B).toFinset with hSdef
  rw [mass_eq_sum A S (fun k hk => by simp [hSdef, hk]), mass_eq_sum B S (fun k hk => by simp [hSdef, hk])]
  have hterm : ∀ k ∈ S, wt B k - (if k ∈ (keys B).toFinset then c else 0) ≤ wt A k := by
    intro k _
    by_cases hk : k ∈ (keys B).toFinset
    · simp only [hk, if_true]; exact h k
    · have : k ∉ keys B := by simpa using hk
      simp only [hk, if_false, sub_zero, wt_of_not_mem B k this]
      exact wt_nonneg A hA k
  have hsum := Finset.sum_le_sum hterm
  rw [Finset.sum_sub_distrib] at hsum
  have hcount : ∑ k ∈ S, (if k ∈ (keys B).toFinset then c else 0) ≤ (B.length : K) * c := by
    rw [← Finset.sum_filter]
    have hsub : S.filter (fun k => k ∈ (keys B).toFinset) = (keys B).toFinset := by
      ext k; simp only [hSdef, Finset.mem_filter, Finset.mem_union]; tauto
    rw [hsub, Finset.sum_const, nsmul_eq_mul]
    apply mul_le_mul_of_nonneg_right _ hc
    have : (keys B).toFinset.card ≤ B.length := by
      calc (keys B).toFinset.card ≤ (keys B).length := List.toFinset_card_le _
        _ = B.length := by simp [keys]
    exact_mod_cast this
  linarith

end massFilter

/-! ### `list_tensor_product(…, prob_threshold=T)`: exact law -/
section thrTensor
variable {K : Type} [Field K] [LinearOrder K]

/-- weight `list_tensor_product` records for the output state `t`, the running product being `q`: the branch is
abandoned (`0`) as soon as a running product falls below `T`; otherwise the full product -/
def kthr (T : K) : K → List (Dist ℕ K) → List ℕ → K
  | q, [], [] => q
  | q, d :: ds, k :: t => if q * wt d k < T then 0 else kthr T (q * wt d k) ds t
  | _, _, _ => 0

/-- the same among the completions of the prefix `cur` -/
def sufThr (T : K) (fs : List (Dist ℕ K)) : K → List ℕ → List ℕ → K
  | q, [], t => kthr T q fs t
  | _, _ :: _, [] => 0
  | q, c :: cur, k :: t => if c = k then sufThr T fs q cur t else 0

theorem kthr_zero (T : K) (fs : List (Dist ℕ K)) (t : List ℕ) : kthr T 0 fs t = 0 := by
  induction fs generalizing t with
  | nil => cases t <;> rfl
  | cons d fs ih =>
    cases t with
    | nil => rfl
    | cons k u =>
      simp only [kthr, zero_mul]
      split
      · rfl
      · exact ih u

theorem kthr_of_nil_mem (T : K) (fs : List (Dist ℕ K)) (h : [] ∈ fs) (q : K) (t : List ℕ) :
    kthr T q fs t = 0 := by
  induction fs generalizing q t with
  | nil => simp at h
  | cons d fs ih =>
    cases t with
    | nil => rfl
    | cons k u =>
      simp only [kthr]
      split
      · rfl
      · simp only [List.mem_cons] at h
        rcases h with h | h
        · subst h
          simp only [wt, mul_zero]
          exact kthr_zero T fs u
        · exact ih h _ u

theorem sufThr_nil_fs (T q : K) (cur t : List ℕ) :
    sufThr T ([] : List (Dist ℕ K)) q cur t = if cur = t then q else 0 := by
  induction cur generalizing t with
  | nil => cases t <;> simp [sufThr, kthr]
  | cons c cur ih =>
    cases t with
    | nil => simp [sufThr]
    | cons k t =>
      simp only [sufThr, ih, List.cons.injEq]
      by_cases h : c = k <;> simp [h]

/-- a sum over a dictionary of a function supported on one key -/
theorem sum_map_key_nodup (d : Dist ℕ K) (hnd : (keys d).Nodup) (k : ℕ) (g : ℕ → K → K)
    (hg : ∀ e ∈ d, e.1 ≠ k → g e.1 e.2 = 0) (hg0 : g k 0 = 0) :
    (d.map fun e => g e.1 e.2).sum = g k (wt d k) := by
  induction d with
  | nil => simp [wt, hg0]
  | cons e d ih =>
    have hnd' : (keys d).Nodup := by
      simp only [keys, List.map_cons, List.nodup_cons] at hnd; exact hnd.2
    have hnot : e.1 ∉ keys d := by
      simp only [keys, List.map_cons, List.nodup_cons] at hnd; exact hnd.1
    have hg' : ∀ x ∈ d, x.1 ≠ k → g x.1 x.2 = 0 := fun x hx => hg x (by simp [hx])
    simp only [List.map_cons, List.sum_cons, wt]
    by_cases hk : e.1 = k
    · have hz : wt d k = 0 := by rw [← hk]; exact wt_of_not_mem d e.1 hnot
      have hall : (d.map fun x => g x.1 x.2).sum = 0 := by
        apply List.sum_eq_zero
        intro y hy
        obtain ⟨x, hx, rfl⟩ := List.mem_map.mp hy
        apply hg' x hx
        intro hxk
        apply hnot
        rw [hk, ← hxk]
        exact List.mem_map.mpr ⟨x, hx, rfl⟩
      rw [hall, hz, if_pos hk, add_zero, add_zero, hk]
    · rw [hg e (by simp) hk, if_neg hk, zero_add, zero_add]
      exact ih hnd' hg'

theorem sufThr_cons_fs (T : K) (d : Dist ℕ K) (hnd : (keys d).Nodup) (rest : List (Dist ℕ K)) (q : K)
    (cur t : List ℕ) :
    sufThr T (d :: rest) q cur t
      = (d.map fun e => if q * e.2 < T then 0 else sufThr T rest (q * e.2) (cur ++ [e.1]) t).sum := by
  induction cur generalizing t with
  | nil =>
    cases t with
    | nil => simp [sufThr, kthr]
    | cons k u =>
      have h := sum_map_key_nodup d hnd k
        (fun k' v => if q * v < T then 0 else if k' = k then kthr T (q * v) rest u else 0)
        (fun e _ hne => by simp [hne])
        (by simp only [mul_zero, if_true, kthr_zero]; split <;> rfl)
      simp only [sufThr, List.nil_append, kthr]
      rw [h]
      simp
  | cons c cur ih =>
    cases t with
    | nil => simp [sufThr]
    | cons k u =>
      simp only [List.cons_append, sufThr]
      by_cases h : c = k
      · simp only [h, if_true]; exact ih u
      · simp [h]

theorem innerTensorThr_wt (T : K) (fs : List (Dist ℕ K)) (hnd : ∀ d ∈ fs, (keys d).Nodup) :
    ∀ (cur : List ℕ) (p : K) (res : Dist (List ℕ) K) (t : List ℕ),
      wt (innerTensorThr T fs cur p res) t = wt res t + sufThr T fs p cur t := by
  induction fs with
  | nil =>
    intro cur p res t
    simp only [innerTensorThr, wt_bump, sufThr_nil_fs]
  | cons d rest ih =>
    intro cur p res t
    have hrest : ∀ d' ∈ rest, (keys d').Nodup := fun d' h => hnd d' (by simp [h])
    have key : ∀ (l : Dist ℕ K) (res : Dist (List ℕ) K),
        wt (l.foldl (fun acc e => if p * e.2 < T then acc
            else innerTensorThr T rest (cur ++ [e.1]) (p * e.2) acc) res) t
          = wt res t + (l.map fun e => if p * e.2 < T then 0
              else sufThr T rest (p * e.2) (cur ++ [e.1]) t).sum := by
      intro l
      induction l with
      | nil => intro res; simp
      | cons e l ihl =>
        intro res
        simp only [List.foldl_cons, List.map_cons, List.sum_cons]
        rw [ihl]
        split
        · ring
        · rw [ih hrest]; ring
    simp only [innerTensorThr]
    rw [key d res, sufThr_cons_fs T d (hnd d (by simp))]

theorem innerTensorThr_nodup (T : K) (fs : List (Dist ℕ K)) :
    ∀ (cur : List ℕ) (p : K) (res : Dist (List ℕ) K), (keys res).Nodup →
      (keys (innerTensorThr T fs cur p res)).Nodup := by
  induction fs with
  | nil => intro cur p res h; exact nodup_bump h cur p
  | cons d rest ih =>
    intro cur p res h
    simp only [innerTensorThr]
    have key : ∀ (l : Dist ℕ K) (res : Dist (List ℕ) K), (keys res).Nodup →
        (keys (l.foldl (fun acc e => if p * e.2 < T then acc
            else innerTensorThr T rest (cur ++ [e.1]) (p * e.2) acc) res)).Nodup := by
      intro l
      induction l with
      | nil => intro res h; exact h
      | cons e l ihl =>
        intro res h
        simp only [List.foldl_cons]
        apply ihl
        split
        · exact h
        · exact ih _ _ _ h
    exact key d res h

theorem keys_trimThr_nodup (T : K) (d : Dist ℕ K) (h : (keys d).Nodup) : (keys (trimThr T d)).Nodup := by
  unfold keys trimThr
  exact h.sublist ((List.filter_sublist).map _)

theorem wt_trimThr (T : K) (d : Dist ℕ K) (hnd : (keys d).Nodup) (k : ℕ) :
    wt (trimThr T d) k = keep T (wt d k) := by
  induction d with
  | nil =>
    show (0 : K) = keep T 0
    unfold keep; split <;> rfl
  | cons e d ih =>
    have hnd' : (keys d).Nodup := by
      simp only [keys, List.map_cons, List.nodup_cons] at hnd; exact hnd.2
    have hnot : e.1 ∉ keys d := by
      simp only [keys, List.map_cons, List.nodup_cons] at hnd; exact hnd.1
    have ih' := ih hnd'
    unfold trimThr at ih' ⊢
    simp only [List.filter_cons]
    by_cases hk : e.1 = k
    · have hz : wt d k = 0 := by rw [← hk]; exact wt_of_not_mem d e.1 hnot
      have hz' : wt (d.filter fun e => decide (T < e.2)) k = 0 := by
        rw [ih', hz]; unfold keep; split <;> rfl
      by_cases hT : T < e.2
      · simp [hT, wt, hk, hz, hz', keep]
      · simp [hT, wt, hk, hz, hz', keep]
    · by_cases hT : T < e.2
      · simp [hT, wt, hk, ih']
      · simp [hT, wt, hk, ih']

theorem listTensorThr_nodup (T : K) (ds : List (Dist ℕ K)) (h : ∀ d ∈ ds, (keys d).Nodup) :
    (keys (listTensorThr T ds)).Nodup := by
  match ds, h with
  | [], _ => simp [listTensorThr, keys]
  | [d], h =>
    have hd : (keys d).Nodup := h d (by simp)
    have e : keys (listTensorThr T [d]) = (keys d).map fun k => [k] := by
      simp [listTensorThr, keys, List.map_map, Function.comp_def]
    rw [e]
    exact hd.map (fun a b hab => by simpa using hab)
  | d1 :: d2 :: rest, _ =>
    have hunf : listTensorThr T (d1 :: d2 :: rest) =
        if (d1 :: d2 :: rest).any (·.isEmpty) then []
        else innerTensorThr T ((d1 :: d2 :: rest).map (trimThr T)) [] 1 [] := rfl
    rw [hunf]
    split
    · simp [keys]
    · exact innerTensorThr_nodup _ _ _ _ _ (by simp [keys])

/-- **exact law of `list_tensor_product` with a threshold** (two factors or more): the weight of `t` is the
product of the trimmed factors' entries when every running product stays `≥ T`, and `0` otherwise -/
theorem listTensorThr_wt (T : K) (d1 d2 : Dist ℕ K) (rest : List (Dist ℕ K))
    (hnd : ∀ d ∈ d1 :: d2 :: rest, (keys d).Nodup) (t : List ℕ) :
    wt (listTensorThr T (d1 :: d2 :: rest)) t = kthr T 1 ((d1 :: d2 :: rest).map (trimThr T)) t := by
  have hunf : listTensorThr T (d1 :: d2 :: rest) =
      if (d1 :: d2 :: rest).any (·.isEmpty) then []
      else innerTensorThr T ((d1 :: d2 :: rest).map (trimThr T)) [] 1 [] := rfl
  rw [hunf]
  split
  · next hany =>
    rw [List.any_eq_true] at hany
    obtain ⟨d, hd, he⟩ := hany
    have : d = [] := by simpa using he
    subst this
    rw [kthr_of_nil_mem T _ (List.mem_map.mpr ⟨[], hd, rfl⟩)]
    rfl
  · have hf : ∀ d ∈ (d1 :: d2 :: rest).map (trimThr T), (keys d).Nodup := by
      intro d hd
      obtain ⟨d', hd', rfl⟩ := List.mem_map.mp hd
      exact keys_trimThr_nodup T d' (hnd d' hd')
    rw [innerTensorThr_wt T _ hf [] 1 [] t]
    simp [wt, sufThr]

end thrTensor

/-! ### a dropped output state weighs at most the threshold; a kept one is untouched -/
section thrCases
variable {K : Type} [Field K] [LinearOrder K] [IsStrictOrderedRing K]

theorem kprod_bounds (fs : List (Dist ℕ K)) (hnn : ∀ d ∈ fs, Nonneg d) (h1 : ∀ d ∈ fs, ∀ k, wt d k ≤ 1)
    (t : List ℕ) : 0 ≤ kprod fs t ∧ kprod fs t ≤ 1 := by
  induction fs generalizing t with
  | nil => cases t <;> simp [kprod]
  | cons d fs ih =>
    cases t with
    | nil => simp [kprod]
    | cons k u =>
      obtain ⟨a, b⟩ := ih (fun x hx => hnn x (by simp [hx])) (fun x hx => h1 x (by simp [hx])) u
      have hv0 : 0 ≤ wt d k := wt_nonneg d (hnn d (by simp)) k
      have hv1 : wt d k ≤ 1 := h1 d (by simp) k
      simp only [kprod]
      exact ⟨mul_nonneg hv0 a, by calc wt d k * kprod fs u ≤ 1 * 1 := mul_le_mul hv1 b a zero_le_one
                                    _ = 1 := one_mul 1⟩

theorem kthr_cases {T : K} (_hT : 0 ≤ T) (fs : List (Dist ℕ K)) (hnn : ∀ d ∈ fs, Nonneg d)
    (hnd : ∀ d ∈ fs, (keys d).Nodup) (h1 : ∀ d ∈ fs, ∀ k, wt d k ≤ 1) :
    ∀ (q : K), 0 ≤ q → q ≤ 1 → ∀ t : List ℕ,
      kthr T q (fs.map (trimThr T)) t = q * kprod fs t ∨
        (kthr T q (fs.map (trimThr T)) t = 0 ∧ q * kprod fs t ≤ T) := by
  induction fs with
  | nil =>
    intro q _ _ t
    cases t with
    | nil => left; simp [kthr, kprod]
    | cons k u => left; simp [kthr, kprod]
  | cons d fs ih =>
    intro q hq0 hq1 t
    cases t with
    | nil => left; simp [kthr, kprod]
    | cons k u =>
      have hnn' : ∀ x ∈ fs, Nonneg x := fun x hx => hnn x (by simp [hx])
      have hnd' : ∀ x ∈ fs, (keys x).Nodup := fun x hx => hnd x (by simp [hx])
      have h1' : ∀ x ∈ fs, ∀ k, wt x k ≤ 1 := fun x hx => h1 x (by simp [hx])
      obtain ⟨P0, P1⟩ := kprod_bounds fs hnn' h1' u
      have hv0 : 0 ≤ wt d k := wt_nonneg d (hnn d (by simp)) k
      have hv1 : wt d k ≤ 1 := h1 d (by simp) k
      simp only [List.map_cons, kthr, kprod, wt_trimThr T d (hnd d (by simp)) k]
      by_cases hTv : T < wt d k
      · have hkeep : keep T (wt d k) = wt d k := by unfold keep; rw [if_pos hTv]
        rw [hkeep]
        have hqv0 : 0 ≤ q * wt d k := mul_nonneg hq0 hv0
        by_cases hlt : q * wt d k < T
        · right
          rw [if_pos hlt]
          refine ⟨rfl, ?_⟩
          have : q * wt d k * kprod fs u ≤ q * wt d k * 1 := mul_le_mul_of_nonneg_left P1 hqv0
          have e : q * (wt d k * kprod fs u) = q * wt d k * kprod fs u := by ring
          linarith
        · rw [if_neg hlt]
          have hqv1 : q * wt d k ≤ 1 := by
            calc q * wt d k ≤ 1 * 1 := mul_le_mul hq1 hv1 hv0 zero_le_one
              _ = 1 := one_mul 1
          rcases ih hnn' hnd' h1' (q * wt d k) hqv0 hqv1 u with h | ⟨h, h'⟩
          · left; rw [h]; ring
          · right; exact ⟨h, by rw [← mul_assoc]; exact h'⟩
      · have hkeep : keep T (wt d k) = 0 := by unfold keep; rw [if_neg hTv]
        have hvT : wt d k ≤ T := not_lt.mp hTv
        rw [hkeep, mul_zero]
        have hprod : q * (wt d k * kprod fs u) ≤ T := by
          have a1 : wt d k * kprod fs u ≤ wt d k * 1 := mul_le_mul_of_nonneg_left P1 hv0
          have a2 : q * (wt d k * kprod fs u) ≤ 1 * (wt d k * kprod fs u) :=
            mul_le_mul_of_nonneg_right hq1 (mul_nonneg hv0 P0)
          linarith
        right
        refine ⟨?_, hprod⟩
        split
        · rfl
        · exact kthr_zero T _ u

/-- `list_tensor_product(…, prob_threshold=T)` of one-mode factors with entries in `[0,1]`: every output state
either carries exactly the product of the factors' weights or is absent, and then that product is `≤ T` -/
theorem listTensorThr_cases {T : K} (hT : 0 ≤ T) (fs : List (Dist ℕ K)) (hne : fs ≠ [])
    (hnn : ∀ d ∈ fs, Nonneg d) (hnd : ∀ d ∈ fs, (keys d).Nodup) (h1 : ∀ d ∈ fs, ∀ k, wt d k ≤ 1)
    (t : List ℕ) :
    wt (listTensorThr T fs) t = kprod fs t ∨ (wt (listTensorThr T fs) t = 0 ∧ kprod fs t ≤ T) := by
  match fs, hne, hnn, hnd, h1 with
  | [d], _, _, _, _ => left; exact wt_lift d t
  | d1 :: d2 :: rest, _, hnn, hnd, h1 =>
    rw [listTensorThr_wt T d1 d2 rest hnd t]
    have := kthr_cases hT (d1 :: d2 :: rest) hnn hnd h1 1 zero_le_one (le_refl 1) t
    simpa using this

theorem innerTensorThr_nonneg (T : K) (fs : List (Dist ℕ K)) (hnn : ∀ d ∈ fs, Nonneg d) :
    ∀ (cur : List ℕ) (p : K), 0 ≤ p → ∀ res : Dist (List ℕ) K, Nonneg res →
      Nonneg (innerTensorThr T fs cur p res) := by
  induction fs with
  | nil => intro cur p hp res h; exact h.bump cur hp
  | cons d rest ih =>
    intro cur p hp res h
    have hd : Nonneg d := hnn d (by simp)
    have hrest : ∀ d' ∈ rest, Nonneg d' := fun d' h => hnn d' (by simp [h])
    have key : ∀ (l : Dist ℕ K), Nonneg l → ∀ res : Dist (List ℕ) K, Nonneg res →
        Nonneg (l.foldl (fun acc e => if p * e.2 < T then acc
            else innerTensorThr T rest (cur ++ [e.1]) (p * e.2) acc) res) := by
      intro l
      induction l with
      | nil => intro _ res h; exact h
      | cons e l ihl =>
        intro hl res h
        have he : 0 ≤ e.2 := hl e (by simp)
        have hl' : Nonneg l := fun x hx => hl x (by simp [hx])
        simp only [List.foldl_cons]
        apply ihl hl'
        split
        · exact h
        · exact ih hrest _ _ (mul_nonneg hp he) _ h
    simp only [innerTensorThr]
    exact key d hd res h

theorem listTensorThr_nonneg (T : K) (fs : List (Dist ℕ K)) (hnn : ∀ d ∈ fs, Nonneg d) :
    Nonneg (listTensorThr T fs) := by
  match fs, hnn with
  | [], _ => intro e he; simp [listTensorThr] at he
  | [d], hnn =>
    intro e he
    simp only [listTensorThr, List.mem_map] at he
    obtain ⟨x, hx, rfl⟩ := he
    exact hnn d (by simp) x hx
  | d1 :: d2 :: rest, hnn =>
    have hunf : listTensorThr T (d1 :: d2 :: rest) =
        if (d1 :: d2 :: rest).any (·.isEmpty) then []
        else innerTensorThr T ((d1 :: d2 :: rest).map (trimThr T)) [] 1 [] := rfl
    rw [hunf]
    split
    · intro e he; simp at he
    · apply innerTensorThr_nonneg T _ _ [] 1 zero_le_one [] (by intro e he; simp at he)
      intro d hd
      obtain ⟨d', hd', rfl⟩ := List.mem_map.mp hd
      intro e he
      exact hnn d' hd' e (List.mem_of_mem_filter he)

/-- the effective threshold of one input state -/
theorem teff_bounds {T p : K} (hT : 0 ≤ T) (hp : 0 ≤ p) :
    0 ≤ teff T p ∧ T ≤ teff T p ∧ p * teff T p ≤ T * (p + 1 / 10) := by
  unfold teff
  refine ⟨le_trans hT (le_max_left _ _), le_max_left _ _, ?_⟩
  by_cases h : 0 < p
  · rw [if_pos h]
    have e : p * (T / (10 * p)) = T / 10 := by field_simp
    rcases le_total T (T / (10 * p)) with h' | h'
    · rw [max_eq_right h', e]
      have : 0 ≤ T * p := mul_nonneg hT hp
      linarith
    · rw [max_eq_left h']
      have : 0 ≤ T / 10 := by positivity
      linarith
  · have hp0 : p = 0 := le_antisymm (not_lt.mp h) hp
    rw [if_neg h, max_self, hp0, zero_mul]
    have : 0 ≤ T * (1 / 10) := by positivity
    linarith

theorem teff_zero (p : K) : teff (0 : K) p = 0 := by
  unfold teff
  split <;> simp

/-- kernel entries are at most one, at every `min_p ≥ 0` -/
theorem kernels_wt_le_one {minP : K} (h0 : 0 ≤ minP) (ds : List (AnyDet K)) (hwf : ∀ d ∈ ds, d.WF)
    (s : List ℕ) : ∀ k ∈ kernels minP ds s, ∀ j, wt k j ≤ 1 := by
  intro k hk j
  unfold kernels at hk
  rw [List.mem_iff_getElem] at hk
  obtain ⟨i, hi, rfl⟩ := hk
  rw [List.getElem_zipWith]
  obtain ⟨_, a, b, _⟩ := kernel_wt_dev h0 _ (hwf _ (List.getElem_mem _)) (s[i]'(by
    simp only [List.length_zipWith] at hi; omega)) j
  exact le_trans a b

theorem stateDistThr_nodup (minP T' : K) (ds : List (AnyDet K)) (s : List ℕ) :
    (keys (stateDistThr minP T' ds s)).Nodup :=
  listTensorThr_nodup T' _ (kernels_nodup minP ds s)

theorem stateDistThr_nonneg (minP T' : K) (ds : List (AnyDet K)) (hwf : ∀ d ∈ ds, d.WF) (s : List ℕ) :
    Nonneg (stateDistThr minP T' ds s) :=
  listTensorThr_nonneg T' _ (kernels_nonneg minP ds hwf s)

/-- **which output states of one input state are dropped by the threshold**: the weight of `t` in the
thresholded kernel product is the full product `∏_i kernel_i(s_i)(t_i)` (kernels at the same `min_p`) or `0`,
and in the latter case the full product is at most the threshold -/
theorem stateDistThr_cases {minP T' : K} (h0 : 0 ≤ minP) (hT : 0 ≤ T') (ds : List (AnyDet K))
    (hwf : ∀ d ∈ ds, d.WF) (s : List ℕ) (hlen : s.length = ds.length) (hne : ds ≠ []) (t : List ℕ) :
    wt (stateDistThr minP T' ds s) t = kprod (kernels minP ds s) t ∨
      (wt (stateDistThr minP T' ds s) t = 0 ∧ kprod (kernels minP ds s) t ≤ T') :=
  listTensorThr_cases hT _ (kernels_ne_nil minP hne hlen) (kernels_nonneg minP ds hwf s)
    (kernels_nodup minP ds s) (kernels_wt_le_one h0 ds hwf s) t

end thrCases

/-! ### two runs of the general branch compared state by state -/
section compare
variable {K : Type} [Field K] [LinearOrder K] [IsStrictOrderedRing K]

/-- the general branch of `simulate_detectors` with the per-input-state output distribution left abstract -/
def genFold (minP : K) (mp : Option ℕ) (sdf : List ℕ × K → Dist (List ℕ) K) (dist : Dist (List ℕ) K)
    (a : Acc K) : Acc K :=
  dist.foldl (fun a e => simState minP mp e.2 (sdf e) a) a

theorem simGeneral_eq_genFold (minP : K) (mp : Option ℕ) (ds : List (AnyDet K)) (dist : Dist (List ℕ) K) :
    simGeneral minP mp ds dist = genFold minP mp (fun e => stateDist minP ds e.1) dist ([], 1) := rfl

theorem simGeneralThr_eq_genFold (minP T : K) (mp : Option ℕ) (ds : List (AnyDet K))
    (dist : Dist (List ℕ) K) :
    simGeneralThr minP T mp ds dist
      = genFold minP mp (fun e => stateDistThr minP (teff T e.2) ds e.1) dist ([], 1) := rfl

/-- mass of the output states that fall below the photon filter -/
def belowMass (mp : Option ℕ) (sd : Dist (List ℕ) K) : K := mass (sd.filter fun o => belowFilter mp o.1)

theorem simState_snd (minP : K) (mp : Option ℕ) (p : K) (sd : Dist (List ℕ) K) (a : Acc K) :
    (simState minP mp p sd a).2 = a.2 - p * belowMass mp sd := by
  unfold simState belowMass
  induction sd generalizing a with
  | nil => simp
  | cons o sd ih =>
    simp only [List.foldl_cons, List.filter_cons]
    rw [ih]
    by_cases hb : belowFilter mp o.1 = true
    · simp only [hb, if_true, mass_cons]; ring
    · simp only [hb, Bool.false_eq_true, if_false]

/-- one input state, run at `(min_p, sd)` against the exact run at `(0, sd0)` -/
theorem simState_compare {minP : K} (h0 : 0 ≤ minP) (mp : Option ℕ) {p : K} (hp : 0 ≤ p)
    (sd sd0 : Dist (List ℕ) K) (hsd : Nonneg sd) (hsd0 : Nonneg sd0) (hle : ∀ t, wt sd t ≤ wt sd0 t)
    {c : K} (hc : p * (mass sd0 - mass sd) ≤ c) (a a0 : Acc K) :
    a.2 - a0.2 ≤ (simState minP mp p sd a).2 - (simState 0 mp p sd0 a0).2 ∧
    (simState minP mp p sd a).2 - (simState 0 mp p sd0 a0).2 ≤ a.2 - a0.2 + c ∧
    mass (simState minP mp p sd a).1 - mass (simState 0 mp p sd0 a0).1 ≤ mass a.1 - mass a0.1 ∧
    mass a.1 - mass a0.1 - c - minP * (sd.length : K)
      ≤ mass (simState minP mp p sd a).1 - mass (simState 0 mp p sd0 a0).1 := by
  have hB : belowMass mp sd ≤ belowMass mp sd0 := mass_filter_le sd sd0 hle _
  have hA : mass (sd.filter fun o => !belowFilter mp o.1) ≤ mass (sd0.filter fun o => !belowFilter mp o.1) :=
    mass_filter_le sd sd0 hle (fun t => !belowFilter mp t)
  have hs := mass_filter_split sd (fun t => belowFilter mp t)
  have hs0 := mass_filter_split sd0 (fun t => belowFilter mp t)
  have e1 := simState_snd minP mp p sd a
  have e2 := simState_snd (0 : K) mp p sd0 a0
  obtain ⟨b1, b2⟩ := simState_bal_bounds h0 mp hp sd hsd a
  have b0 := simState_bal (le_refl (0 : K)) mp hp sd0 hsd0 a0
  unfold bal at b1 b2 b0
  unfold belowMass at hB e1 e2
  set B := mass (sd.filter fun o => belowFilter mp o.1)
  set B0 := mass (sd0.filter fun o => belowFilter mp o.1)
  set A := mass (sd.filter fun o => !belowFilter mp o.1)
  set A0 := mass (sd0.filter fun o => !belowFilter mp o.1)
  have pB : p * B ≤ p * B0 := mul_le_mul_of_nonneg_left hB hp
  have pA : p * A ≤ p * A0 := mul_le_mul_of_nonneg_left hA hp
  have pm : p * mass sd = p * B + p * A := by rw [← hs]; ring
  have pm0 : p * mass sd0 = p * B0 + p * A0 := by rw [← hs0]; ring
  have hc' : p * mass sd0 - p * mass sd ≤ c := by linarith [mul_sub p (mass sd0) (mass sd)]
  rw [e1, e2]
  refine ⟨by linarith, by linarith, by linarith, by linarith⟩

/-- the whole general branch: `(min_p, sdf)` against the exact `(0, sdf0)` -/
theorem genFold_compare {minP : K} (h0 : 0 ≤ minP) (mp : Option ℕ)
    (sdf sdf0 : List ℕ × K → Dist (List ℕ) K) (c : List ℕ × K → K) (dist : Dist (List ℕ) K)
    (hp : ∀ e ∈ dist, 0 ≤ e.2) (hsd : ∀ e ∈ dist, Nonneg (sdf e)) (hsd0 : ∀ e ∈ dist, Nonneg (sdf0 e))
    (hle : ∀ e ∈ dist, ∀ t, wt (sdf e) t ≤ wt (sdf0 e) t)
    (hc : ∀ e ∈ dist, e.2 * (mass (sdf0 e) - mass (sdf e)) ≤ c e) (a a0 : Acc K) :
    a.2 - a0.2 ≤ (genFold minP mp sdf dist a).2 - (genFold 0 mp sdf0 dist a0).2 ∧
    (genFold minP mp sdf dist a).2 - (genFold 0 mp sdf0 dist a0).2 ≤ a.2 - a0.2 + (dist.map c).sum ∧
    mass (genFold minP mp sdf dist a).1 - mass (genFold 0 mp sdf0 dist a0).1 ≤ mass a.1 - mass a0.1 ∧
    mass a.1 - mass a0.1 - (dist.map fun e => c e + minP * ((sdf e).length : K)).sum
      ≤ mass (genFold minP mp sdf dist a).1 - mass (genFold 0 mp sdf0 dist a0).1 := by
  unfold genFold
  induction dist generalizing a a0 with
  | nil => simp
  | cons e dist ih =>
    obtain ⟨s1, s2, s3, s4⟩ := simState_compare h0 mp (hp e (by simp)) (sdf e) (sdf0 e) (hsd e (by simp))
      (hsd0 e (by simp)) (hle e (by simp)) (hc e (by simp)) a a0
    obtain ⟨i1, i2, i3, i4⟩ := ih (fun x hx => hp x (by simp [hx])) (fun x hx => hsd x (by simp [hx]))
      (fun x hx => hsd0 x (by simp [hx])) (fun x hx => hle x (by simp [hx]))
      (fun x hx => hc x (by simp [hx])) (simState minP mp e.2 (sdf e) a) (simState 0 mp e.2 (sdf0 e) a0)
    simp only [List.foldl_cons, List.map_cons, List.sum_cons]
    refine ⟨by linarith, by linarith, by linarith, by linarith⟩

theorem genFold_nodup (minP : K) (mp : Option ℕ) (sdf : List ℕ × K → Dist (List ℕ) K)
    (dist : Dist (List ℕ) K) (a : Acc K) (h : (keys a.1).Nodup) :
    (keys (genFold minP mp sdf dist a).1).Nodup := by
  unfold genFold
  induction dist generalizing a with
  | nil => exact h
  | cons e dist ih =>
    simp only [List.foldl_cons]
    exact ih _ (simState_nodup minP mp e.2 _ a h)

theorem genFold_wt (minP : K) (mp : Option ℕ) (sdf : List ℕ × K → Dist (List ℕ) K)
    (dist : Dist (List ℕ) K) (hnd : ∀ e ∈ dist, (keys (sdf e)).Nodup) (a : Acc K) (t : List ℕ) :
    wt (genFold minP mp sdf dist a).1 t
      = wt a.1 t + if belowFilter mp t then 0
        else (dist.map fun e => keep minP (e.2 * wt (sdf e) t)).sum := by
  unfold genFold
  induction dist generalizing a with
  | nil => simp
  | cons e dist ih =>
    simp only [List.foldl_cons]
    rw [ih (fun x hx => hnd x (by simp [hx])), simState_wt_minp minP mp e.2 _ (hnd e (by simp))]
    simp only [List.map_cons, List.sum_cons]
    split <;> ring

/-- per-contribution bounds summed over the input distribution (slack `c' e` for the kernel product,
`min_p` for the accumulation) -/
theorem sum_keep_bounds2 {minP : K} (h0 : 0 ≤ minP) (dist : Dist (List ℕ) K)
    (F G c' : List ℕ × K → K) (hG0 : ∀ e ∈ dist, 0 ≤ G e) (hGF : ∀ e ∈ dist, G e ≤ F e)
    (hFG : ∀ e ∈ dist, F e - c' e ≤ G e) :
    (dist.map fun e => keep minP (G e)).sum ≤ (dist.map F).sum ∧
      (dist.map F).sum - (dist.map fun e => c' e + minP).sum ≤ (dist.map fun e => keep minP (G e)).sum := by
  induction dist with
  | nil => simp
  | cons e dist ih =>
    obtain ⟨i1, i2⟩ := ih (fun x hx => hG0 x (by simp [hx])) (fun x hx => hGF x (by simp [hx]))
      (fun x hx => hFG x (by simp [hx]))
    have u1 : keep minP (G e) ≤ G e := keep_le (hG0 e (by simp))
    have l1 : G e - minP ≤ keep minP (G e) := sub_le_keep h0 _
    have a1 := hGF e (by simp)
    have a2 := hFG e (by simp)
    simp only [List.map_cons, List.sum_cons]
    constructor <;> linarith

theorem simState_nonneg {minP : K} (_h0 : 0 ≤ minP) (mp : Option ℕ) {p : K} (hp : 0 ≤ p)
    (sd : Dist (List ℕ) K) (hsd : Nonneg sd) (a : Acc K) (ha : Nonneg a.1) :
    Nonneg (simState minP mp p sd a).1 := by
  unfold simState
  induction sd generalizing a with
  | nil => exact ha
  | cons o sd ih =>
    have ho : 0 ≤ o.2 := hsd o (by simp)
    simp only [List.foldl_cons]
    apply ih (fun x hx => hsd x (by simp [hx]))
    split
    · exact ha
    · unfold addP
      split
      · exact ha.bump _ (mul_nonneg hp ho)
      · exact ha

theorem genFold_nonneg {minP : K} (h0 : 0 ≤ minP) (mp : Option ℕ) (sdf : List ℕ × K → Dist (List ℕ) K)
    (dist : Dist (List ℕ) K) (hp : ∀ e ∈ dist, 0 ≤ e.2) (hsd : ∀ e ∈ dist, Nonneg (sdf e)) (a : Acc K)
    (ha : Nonneg a.1) : Nonneg (genFold minP mp sdf dist a).1 := by
  unfold genFold
  induction dist generalizing a with
  | nil => exact ha
  | cons e dist ih =>
    simp only [List.foldl_cons]
    exact ih (fun x hx => hp x (by simp [hx])) (fun x hx => hsd x (by simp [hx])) _
      (simState_nonneg h0 mp (hp e (by simp)) _ (hsd e (by simp)) a ha)

theorem simThreshold_nonneg (mp : Option ℕ) (dist : Dist (List ℕ) K) (hnn : Nonneg dist) :
    Nonneg (simThreshold mp dist).1 := by
  unfold simThreshold
  have : ∀ a : Acc K, Nonneg a.1 → Nonneg (dist.foldl (fun a e =>
      if belowFilter mp (e.1.map (min · 1)) then (a.1, a.2 - e.2)
      else (bump a.1 (e.1.map (min · 1)) e.2, a.2)) a).1 := by
    induction dist with
    | nil => intro a h; exact h
    | cons e dist ih =>
      intro a h
      simp only [List.foldl_cons]
      apply ih (fun x hx => hnn x (by simp [hx]))
      split
      · exact h
      · exact h.bump _ (hnn e (by simp))
  exact this _ (by intro e he; simp at he)

end compare

/-! ### `prob_threshold = 0` is the existing model -/
section bridge
variable {K : Type} [Field K] [LinearOrder K] [IsStrictOrderedRing K]

theorem innerTensorThr_zero (fs : List (Dist ℕ K)) :
    ∀ (cur : List ℕ) (p : K) (res : Dist (List ℕ) K),
      innerTensorThr 0 fs cur p res = innerTensor fs cur p res := by
  induction fs with
  | nil => intro cur p res; rfl
  | cons d rest ih =>
    intro cur p res
    simp only [innerTensorThr, innerTensor]
    congr 1
    funext acc e
    rw [ih]

theorem listTensorThr_zero (ds : List (Dist ℕ K)) : listTensorThr 0 ds = listTensor ds := by
  match ds with
  | [] => rfl
  | [d] => rfl
  | d1 :: d2 :: rest =>
    show (if (d1 :: d2 :: rest).any (·.isEmpty) then []
        else innerTensorThr 0 ((d1 :: d2 :: rest).map (trimThr 0)) [] 1 [])
      = (if (d1 :: d2 :: rest).any (·.isEmpty) then []
        else innerTensor ((d1 :: d2 :: rest).map fun d => d.filter fun e => 0 < e.2) [] 1 [])
    rw [innerTensorThr_zero]
    rfl

theorem simGeneralThr_zero (minP : K) (mp : Option ℕ) (ds : List (AnyDet K)) (dist : Dist (List ℕ) K) :
    simGeneralThr minP 0 mp ds dist = simGeneral minP mp ds dist := by
  unfold simGeneralThr simGeneral
  congr 1
  funext a e
  rw [teff_zero]
  unfold stateDistThr stateDist
  rw [listTensorThr_zero]

/-- `simulate_detectors(…, prob_threshold=0)` is the model of the earlier rounds -/
theorem simulateRawThr_zero (minP : K) (dist : Dist (List ℕ) K) (ds : List (AnyDet K)) (mp : Option ℕ) :
    simulateRawThr minP 0 dist ds mp = simulateRaw minP dist ds mp := by
  unfold simulateRawThr simulateRaw
  rw [simGeneralThr_zero]

theorem simulateThr_zero (minP : K) (dist : Dist (List ℕ) K) (ds : List (AnyDet K)) (mp : Option ℕ) :
    simulateThr minP 0 dist ds mp = simulate minP dist ds mp := by
  unfold simulateThr simulate
  rw [simulateRawThr_zero]

end bridge

/-! ### the run at `(min_p, T)` against the exact run at `(0, 0)` -/
section slack
variable {K : Type} [Field K] [LinearOrder K] [IsStrictOrderedRing K]

/-- what one input state `(s, p)` can add to `phys_perf`: `min_p` per `add` call inside `Detector.detect`
(weighted by `p`) and the effective threshold once per output state of its kernel product -/
def physTerm (minP T : K) (ds : List (AnyDet K)) (e : List ℕ × K) : K :=
  minP * (e.2 * (kcount ds e.1 : K)) + ((stateDist minP ds e.1).length : K) * (T * (e.2 + 1 / 10))

/-- slack of `phys_perf` -/
def physSlack (minP T : K) (ds : List (AnyDet K)) (dist : Dist (List ℕ) K) : K :=
  (dist.map (physTerm minP T ds)).sum

/-- slack of the retained mass: additionally `min_p` per recorded output state (the accumulating `add`) -/
def massSlack (minP T : K) (ds : List (AnyDet K)) (dist : Dist (List ℕ) K) : K :=
  (dist.map fun e => physTerm minP T ds e
    + minP * ((stateDistThr minP (teff T e.2) ds e.1).length : K)).sum

/-- slack of one entry of the un-normalised result -/
def pointSlack (minP T : K) (ds : List (AnyDet K)) (dist : Dist (List ℕ) K) : K :=
  (dist.map fun e => (minP * ((kcount ds e.1 : K) * e.2) + T * (e.2 + 1 / 10)) + minP).sum

theorem physTerm_nonneg {minP T : K} (h0 : 0 ≤ minP) (hT : 0 ≤ T) (ds : List (AnyDet K)) (e : List ℕ × K)
    (he : 0 ≤ e.2) : 0 ≤ physTerm minP T ds e := by
  unfold physTerm
  have : 0 ≤ e.2 + 1 / 10 := by linarith
  positivity

theorem sum_map_nonneg {α : Type} (l : List α) (f : α → K) (h : ∀ x ∈ l, 0 ≤ f x) : 0 ≤ (l.map f).sum := by
  apply List.sum_nonneg
  intro y hy
  obtain ⟨x, hx, rfl⟩ := List.mem_map.mp hy
  exact h x hx

theorem physSlack_nonneg {minP T : K} (h0 : 0 ≤ minP) (hT : 0 ≤ T) (ds : List (AnyDet K))
    (dist : Dist (List ℕ) K) (hnn : Nonneg dist) : 0 ≤ physSlack minP T ds dist :=
  sum_map_nonneg _ _ fun e he => physTerm_nonneg h0 hT ds e (hnn e he)

theorem massSlack_nonneg {minP T : K} (h0 : 0 ≤ minP) (hT : 0 ≤ T) (ds : List (AnyDet K))
    (dist : Dist (List ℕ) K) (hnn : Nonneg dist) : 0 ≤ massSlack minP T ds dist :=
  sum_map_nonneg _ _ fun e he =>
    add_nonneg (physTerm_nonneg h0 hT ds e (hnn e he)) (mul_nonneg h0 (Nat.cast_nonneg _))

theorem pointSlack_nonneg {minP T : K} (h0 : 0 ≤ minP) (hT : 0 ≤ T) (ds : List (AnyDet K))
    (dist : Dist (List ℕ) K) (hnn : Nonneg dist) : 0 ≤ pointSlack minP T ds dist :=
  sum_map_nonneg _ _ fun e he => by
    have h1 : 0 ≤ e.2 := hnn e he
    have : 0 ≤ e.2 + 1 / 10 := by linarith
    positivity

/-- the facts about ONE input state `(s, p)`: thresholded kernel product at `min_p` against the exact one -/
theorem stateDistThr_vs_exact {minP T : K} (h0 : 0 ≤ minP) (hT : 0 ≤ T) (ds : List (AnyDet K))
    (hwf : ∀ d ∈ ds, d.WF) (hne : ds ≠ []) (e : List ℕ × K) (hp : 0 ≤ e.2) (hlen : e.1.length = ds.length) :
    (∀ t, wt (stateDistThr minP (teff T e.2) ds e.1) t ≤ wt (stateDist 0 ds e.1) t) ∧
    e.2 * (mass (stateDist 0 ds e.1) - mass (stateDistThr minP (teff T e.2) ds e.1)) ≤ physTerm minP T ds e ∧
    (∀ t, 0 ≤ e.2 * wt (stateDistThr minP (teff T e.2) ds e.1) t ∧
      e.2 * wt (stateDistThr minP (teff T e.2) ds e.1) t ≤ e.2 * kprod (kernels 0 ds e.1) t ∧
      e.2 * kprod (kernels 0 ds e.1) t - (minP * ((kcount ds e.1 : K) * e.2) + T * (e.2 + 1 / 10))
        ≤ e.2 * wt (stateDistThr minP (teff T e.2) ds e.1) t) := by
  obtain ⟨te0, _, te2⟩ := teff_bounds hT hp
  set Te := teff T e.2 with hTe
  have hcases := stateDistThr_cases h0 te0 ds hwf e.1 hlen hne
  have hdev := kprod_kernels_dev h0 ds hwf e.1
  have hwP : ∀ t, wt (stateDist minP ds e.1) t = kprod (kernels minP ds e.1) t :=
    stateDist_wt_minp minP ds hwf e.1 hlen hne
  have hw0 : ∀ t, wt (stateDist 0 ds e.1) t = kprod (kernels 0 ds e.1) t :=
    stateDist_wt_minp 0 ds hwf e.1 hlen hne
  have hT0 : ∀ t, 0 ≤ wt (stateDistThr minP Te ds e.1) t ∧
      wt (stateDistThr minP Te ds e.1) t ≤ kprod (kernels minP ds e.1) t ∧
      kprod (kernels minP ds e.1) t - Te ≤ wt (stateDistThr minP Te ds e.1) t := by
    intro t
    obtain ⟨d0, _, _, _⟩ := hdev t
    rcases hcases t with h | ⟨h, h'⟩
    · rw [h]; exact ⟨d0, le_refl _, by linarith⟩
    · rw [h]; exact ⟨le_refl _, d0, by linarith⟩
  have h1 : ∀ t, wt (stateDistThr minP Te ds e.1) t ≤ wt (stateDist 0 ds e.1) t := by
    intro t
    rw [hw0]
    exact le_trans (hT0 t).2.1 (hdev t).2.1
  refine ⟨h1, ?_, ?_⟩
  · have hm0 := (stateDist_mass_one (le_refl (0 : K)) ds hwf e.1 hlen hne).1
    obtain ⟨mP, _, _⟩ := stateDist_mass_bounds h0 ds hwf e.1 hlen hne
    have hge := mass_ge_of_wt (stateDistThr minP Te ds e.1) (stateDist minP ds e.1)
      (stateDistThr_nonneg minP Te ds hwf e.1) te0 (fun k => by rw [hwP]; exact (hT0 k).2.2)
    rw [hm0]
    unfold physTerm
    set N : K := ((stateDist minP ds e.1).length : K)
    have hN : 0 ≤ N := Nat.cast_nonneg _
    have a1 : e.2 * (1 - mass (stateDistThr minP Te ds e.1))
        ≤ e.2 * ((kcount ds e.1 : K) * minP + N * Te) := mul_le_mul_of_nonneg_left (by linarith) hp
    have a2 : N * (e.2 * Te) ≤ N * (T * (e.2 + 1 / 10)) := mul_le_mul_of_nonneg_left te2 hN
    have e3 : e.2 * ((kcount ds e.1 : K) * minP + N * Te) = minP * (e.2 * (kcount ds e.1 : K)) + N * (e.2 * Te) := by ring
    linarith
  · intro t
    obtain ⟨t0, t1, t2⟩ := hT0 t
    obtain ⟨_, d1, _, d3⟩ := hdev t
    refine ⟨mul_nonneg hp t0, mul_le_mul_of_nonneg_left (le_trans t1 d1) hp, ?_⟩
    have a1 : e.2 * (kprod (kernels 0 ds e.1) t - (kcount ds e.1 : K) * minP - Te)
        ≤ e.2 * wt (stateDistThr minP Te ds e.1) t := mul_le_mul_of_nonneg_left (by linarith) hp
    have e3 : e.2 * (kprod (kernels 0 ds e.1) t - (kcount ds e.1 : K) * minP - Te)
        = e.2 * kprod (kernels 0 ds e.1) t - minP * ((kcount ds e.1 : K) * e.2) - e.2 * Te := by ring
    linarith

/-- **general branch at `(min_p, T)` against the exact law** -/
theorem simGeneralThr_vs_exact {minP T : K} (h0 : 0 ≤ minP) (hT : 0 ≤ T) (mp : Option ℕ)
    (ds : List (AnyDet K)) (hwf : ∀ d ∈ ds, d.WF) (hne : ds ≠ []) (dist : Dist (List ℕ) K)
    (hnn : Nonneg dist) (hlen : ∀ e ∈ dist, e.1.length = ds.length) :
    (simGeneral 0 mp ds dist).2 ≤ (simGeneralThr minP T mp ds dist).2 ∧
    (simGeneralThr minP T mp ds dist).2 ≤ (simGeneral 0 mp ds dist).2 + physSlack minP T ds dist ∧
    mass (simGeneralThr minP T mp ds dist).1 ≤ mass (simGeneral 0 mp ds dist).1 ∧
    mass (simGeneral 0 mp ds dist).1 - massSlack minP T ds dist ≤ mass (simGeneralThr minP T mp ds dist).1 ∧
    ∀ t, wt (simGeneralThr minP T mp ds dist).1 t ≤ wt (simGeneral 0 mp ds dist).1 t ∧
      wt (simGeneral 0 mp ds dist).1 t - pointSlack minP T ds dist
        ≤ wt (simGeneralThr minP T mp ds dist).1 t := by
  have hper := fun e (he : e ∈ dist) => stateDistThr_vs_exact h0 hT ds hwf hne e (hnn e he) (hlen e he)
  obtain ⟨c1, c2, c3, c4⟩ := genFold_compare h0 mp
    (fun e => stateDistThr minP (teff T e.2) ds e.1) (fun e => stateDist 0 ds e.1) (physTerm minP T ds) dist
    hnn (fun e _ => stateDistThr_nonneg minP _ ds hwf e.1)
    (fun e he => (stateDist_mass_one (le_refl (0 : K)) ds hwf e.1 (hlen e he) hne).2)
    (fun e he => (hper e he).1) (fun e he => (hper e he).2.1) ([], 1) ([], 1)
  rw [← simGeneralThr_eq_genFold, ← simGeneral_eq_genFold] at c1 c2 c3 c4
  simp only [sub_self, mass_nil, zero_add, zero_sub] at c1 c2 c3 c4
  refine ⟨by linarith, by unfold physSlack; linarith, by linarith, by unfold massSlack; linarith, ?_⟩
  intro t
  rw [simGeneralThr_eq_genFold, genFold_wt minP mp _ dist (fun e _ => stateDistThr_nodup minP _ ds e.1),
    simGeneral_wt (le_refl (0 : K)) mp ds hwf hne dist hnn hlen t]
  simp only [wt, zero_add]
  have hps := pointSlack_nonneg h0 hT ds dist hnn
  split
  · exact ⟨le_refl _, by linarith⟩
  · obtain ⟨b1, b2⟩ := sum_keep_bounds2 h0 dist (fun e => e.2 * kprod (kernels 0 ds e.1) t)
      (fun e => e.2 * wt (stateDistThr minP (teff T e.2) ds e.1) t)
      (fun e => minP * ((kcount ds e.1 : K) * e.2) + T * (e.2 + 1 / 10))
      (fun e he => ((hper e he).2.2 t).1) (fun e he => ((hper e he).2.2 t).2.1)
      (fun e he => ((hper e he).2.2 t).2.2)
    exact ⟨b1, by unfold pointSlack; exact b2⟩

end slack

/-! ### all branches; the normalised result -/
section wholeThr
variable {K : Type} [Field K] [LinearOrder K] [IsStrictOrderedRing K]

theorem simulateRawThr_nodup (minP T : K) (dist : Dist (List ℕ) K) (ds : List (AnyDet K)) (mp : Option ℕ)
    (hbr : ¬ (dist.isEmpty ∨ detectionType ds = .PNR)) :
    (keys (simulateRawThr minP T dist ds mp).1).Nodup := by
  simp only [simulateRawThr, if_neg hbr]
  split
  · exact simThreshold_nodup mp dist
  · rw [simGeneralThr_eq_genFold]
    exact genFold_nodup minP mp _ dist _ (by simp [keys])

theorem simulateRaw_nodup (minP : K) (dist : Dist (List ℕ) K) (ds : List (AnyDet K)) (mp : Option ℕ)
    (hbr : ¬ (dist.isEmpty ∨ detectionType ds = .PNR)) :
    (keys (simulateRaw minP dist ds mp).1).Nodup := by
  rw [← simulateRawThr_zero]; exact simulateRawThr_nodup minP 0 dist ds mp hbr

theorem simulateRawThr_nonneg {minP : K} (h0 : 0 ≤ minP) (T : K) (ds : List (AnyDet K)) (hwf : ∀ d ∈ ds, d.WF)
    (dist : Dist (List ℕ) K) (hnn : Nonneg dist) (mp : Option ℕ) :
    Nonneg (simulateRawThr minP T dist ds mp).1 := by
  unfold simulateRawThr
  simp only []
  split
  · exact hnn
  · split
    · exact simThreshold_nonneg mp dist hnn
    · rw [simGeneralThr_eq_genFold]
      exact genFold_nonneg h0 mp _ dist hnn (fun e _ => stateDistThr_nonneg minP _ ds hwf e.1) _
        (by intro e he; simp at he)

theorem simulateRaw_nonneg {minP : K} (h0 : 0 ≤ minP) (ds : List (AnyDet K)) (hwf : ∀ d ∈ ds, d.WF)
    (dist : Dist (List ℕ) K) (hnn : Nonneg dist) (mp : Option ℕ) :
    Nonneg (simulateRaw minP dist ds mp).1 := by
  rw [← simulateRawThr_zero]; exact simulateRawThr_nonneg h0 0 ds hwf dist hnn mp

/-- the returned (normalised) distribution at `prob_threshold = T` -/
theorem simulateThr_prob (minP T : K) (ds : List (AnyDet K)) (dist : Dist (List ℕ) K) (mp : Option ℕ)
    (hbr : ¬ (dist.isEmpty ∨ detectionType ds = .PNR))
    (hm : mass (simulateRawThr minP T dist ds mp).1 ≠ 0) (t : List ℕ) :
    prob (simulateThr minP T dist ds mp).1 t
      = prob (simulateRawThr minP T dist ds mp).1 t / mass (simulateRawThr minP T dist ds mp).1 := by
  have hnd := simulateRawThr_nodup minP T dist ds mp hbr
  simp only [simulateThr, if_neg hbr]
  rw [prob_eq_wt _ (by rw [keys_normalize]; exact hnd), wt_normalize, if_neg hm, prob_eq_wt _ hnd]

/-- **`simulate_detectors` at `(min_p, prob_threshold)` against the exact law, every branch** -/
theorem simulateRawThr_vs_exact {minP T : K} (h0 : 0 ≤ minP) (hT : 0 ≤ T) (ds : List (AnyDet K))
    (hwf : ∀ d ∈ ds, d.WF) (dist : Dist (List ℕ) K) (hnn : Nonneg dist)
    (hlen : ∀ e ∈ dist, e.1.length = ds.length) (mp : Option ℕ) :
    (simulateRaw 0 dist ds mp).2 ≤ (simulateRawThr minP T dist ds mp).2 ∧
    (simulateRawThr minP T dist ds mp).2 ≤ (simulateRaw 0 dist ds mp).2 + physSlack minP T ds dist ∧
    mass (simulateRawThr minP T dist ds mp).1 ≤ mass (simulateRaw 0 dist ds mp).1 ∧
    mass (simulateRaw 0 dist ds mp).1 - massSlack minP T ds dist ≤ mass (simulateRawThr minP T dist ds mp).1 ∧
    ∀ t, prob (simulateRawThr minP T dist ds mp).1 t ≤ prob (simulateRaw 0 dist ds mp).1 t ∧
      prob (simulateRaw 0 dist ds mp).1 t - pointSlack minP T ds dist
        ≤ prob (simulateRawThr minP T dist ds mp).1 t := by
  have s1 := physSlack_nonneg h0 hT ds dist hnn
  have s2 := massSlack_nonneg h0 hT ds dist hnn
  have s3 := pointSlack_nonneg h0 hT ds dist hnn
  by_cases hbr : dist.isEmpty ∨ detectionType ds = .PNR
  · simp only [simulateRawThr, simulateRaw, if_pos hbr]
    exact ⟨le_refl _, by linarith, le_refl _, by linarith, fun t => ⟨le_refl _, by linarith⟩⟩
  · have hnd := simulateRawThr_nodup minP T dist ds mp hbr
    have hnd0 := simulateRaw_nodup 0 dist ds mp hbr
    have hp : ∀ t, prob (simulateRawThr minP T dist ds mp).1 t = wt (simulateRawThr minP T dist ds mp).1 t :=
      fun t => prob_eq_wt _ hnd t
    have hp0 : ∀ t, prob (simulateRaw 0 dist ds mp).1 t = wt (simulateRaw 0 dist ds mp).1 t :=
      fun t => prob_eq_wt _ hnd0 t
    simp only [hp, hp0]
    simp only [simulateRawThr, simulateRaw, if_neg hbr]
    by_cases hthr : detectionType ds = .Threshold
    · simp only [if_pos hthr]
      exact ⟨le_refl _, by linarith, le_refl _, by linarith, fun t => ⟨le_refl _, by linarith⟩⟩
    · simp only [if_neg hthr]
      have hne : ds ≠ [] := by
        intro h; subst h; exact hbr (Or.inr rfl)
      exact simGeneralThr_vs_exact h0 hT mp ds hwf hne dist hnn hlen

/-- dividing the two bounds -/
theorem normalised_dev {E R ME M δ Δ : K} (hR0 : 0 ≤ R) (hRE : R ≤ E) (hER : E - δ ≤ R) (hEM : E ≤ ME)
    (hM : M ≤ ME) (hMΔ : ME - Δ ≤ M) (hpos : 0 < ME - Δ) (hΔ : 0 ≤ Δ) :
    E / ME - δ / ME ≤ R / M ∧ R / M ≤ E / ME + Δ / (ME - Δ) := by
  have hMpos : 0 < M := lt_of_lt_of_le hpos hMΔ
  have hMEpos : 0 < ME := lt_of_lt_of_le hMpos hM
  constructor
  · rw [← sub_div, div_le_div_iff₀ hMEpos hMpos]
    have : (E - δ) * M ≤ R * M := mul_le_mul_of_nonneg_right hER hMpos.le
    have : R * M ≤ R * ME := mul_le_mul_of_nonneg_left hM hR0
    linarith
  · have h1 : R / M ≤ E / (ME - Δ) := by
      rw [div_le_div_iff₀ hMpos hpos]
      have hE0 : 0 ≤ E := le_trans hR0 hRE
      have a : R * (ME - Δ) ≤ E * (ME - Δ) := mul_le_mul_of_nonneg_right hRE hpos.le
      have b : E * (ME - Δ) ≤ E * M := mul_le_mul_of_nonneg_left hMΔ hE0
      linarith
    have h2 : E / (ME - Δ) ≤ E / ME + Δ / (ME - Δ) := by
      have : E / (ME - Δ) - Δ / (ME - Δ) ≤ E / ME := by
        rw [← sub_div, div_le_div_iff₀ hpos hMEpos]
        have : E * Δ ≤ ME * Δ := mul_le_mul_of_nonneg_right hEM hΔ
        nlinarith
      linarith
    linarith

end wholeThr

/-! ### the slacks at `prob_threshold = 0` in the vocabulary of the earlier rounds -/
section slackZero
variable {K : Type} [Field K] [LinearOrder K] [IsStrictOrderedRing K]

theorem stateDistThr_zero (minP p : K) (ds : List (AnyDet K)) (s : List ℕ) :
    stateDistThr minP (teff 0 p) ds s = stateDist minP ds s := by
  rw [teff_zero]; unfold stateDistThr stateDist; rw [listTensorThr_zero]

theorem physSlack_zero (minP : K) (ds : List (AnyDet K)) (dist : Dist (List ℕ) K) :
    physSlack minP 0 ds dist = minP * (dist.map fun e => e.2 * (kcount ds e.1 : K)).sum := by
  unfold physSlack physTerm
  induction dist with
  | nil => simp
  | cons e dist ih => simp only [List.map_cons, List.sum_cons, ih]; ring

theorem massSlack_zero (minP : K) (ds : List (AnyDet K)) (dist : Dist (List ℕ) K) :
    massSlack minP 0 ds dist = minP * addCalls minP ds dist := by
  unfold massSlack physTerm addCalls
  have hf : (fun e : List ℕ × K => minP * (e.2 * (kcount ds e.1 : K))
        + ((stateDist minP ds e.1).length : K) * (0 * (e.2 + 1 / 10))
        + minP * ((stateDistThr minP (teff 0 e.2) ds e.1).length : K))
      = fun e => minP * (e.2 * (kcount ds e.1 : K) + ((stateDist minP ds e.1).length : K)) := by
    funext e
    rw [stateDistThr_zero]; ring
  rw [hf, List.sum_map_mul_left]

theorem pointSlack_zero (minP : K) (ds : List (AnyDet K)) (dist : Dist (List ℕ) K) :
    pointSlack minP 0 ds dist
      = minP * ((dist.map fun e => e.2 * (kcount ds e.1 : K)).sum + (dist.length : K)) := by
  unfold pointSlack
  induction dist with
  | nil => simp
  | cons e dist ih =>
    simp only [List.map_cons, List.sum_cons, ih, List.length_cons, Nat.cast_add, Nat.cast_one]
    ring

end slackZero

end PM.C08
