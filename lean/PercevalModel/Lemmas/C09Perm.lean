/-
  C09 (extension) — the law of an iid stream is invariant under the value-independent re-ordering `reorder`
  of the pooled sample provider: if the backend stream holds `n` independent draws of law `d`, the sequence the
  pooled provider hands out is `reorderLen w n` independent draws of law `d`.
-/
import PercevalModel.Lemmas.C09Law

set_option linter.unusedSimpArgs false
set_option linter.unusedVariables false

namespace PM.C09

open PM.Dist (D mass)

/-! ### Fubini for finite expectations -/

theorem ex_swap (a b : D) (f : Fock → Fock → ℚ) :
    ex a (fun x => ex b (fun y => f x y)) = ex b (fun y => ex a (fun x => f x y)) := by
  induction a with
  | nil =>
    simp only [ex_nil]
    rw [ex_const]; ring
  | cons p r ih =>
    simp only [ex_cons]
    rw [ex_add, ex_mul_left, ih]

theorem exN_ex_swap (d e : D) (n : ℕ) (F : Fock → List Fock → ℚ) :
    exN d n (fun l => ex e (fun y => F y l)) = ex e (fun y => exN d n (fun l => F y l)) := by
  induction n generalizing F with
  | zero => rfl
  | succ n ih =>
    simp only [exN]
    have h : (fun t => exN d n (fun l => ex e (fun y => F y (t :: l)))) =
        fun t => ex e (fun y => exN d n (fun l => F y (t :: l))) :=
      funext fun t => ih (fun y l => F y (t :: l))
    rw [h]
    exact ex_swap d e _

/-! ### splitting, appending, reversing independent draws -/

theorem exN_append (d : D) (a b : ℕ) (F : List Fock → ℚ) :
    exN d (a + b) F = exN d a (fun l1 => exN d b (fun l2 => F (l1 ++ l2))) := by
  induction a generalizing F with
  | zero =>
    rw [Nat.zero_add]
    rfl
  | succ a ih =>
    rw [Nat.succ_add]
    simp only [exN]
    have h : (fun t => exN d (a + b) (fun l => F (t :: l))) =
        fun t => exN d a (fun l1 => exN d b (fun l2 => F (t :: l1 ++ l2))) :=
      funext fun t => ih (fun l => F (t :: l))
    rw [h]

theorem exN_snoc (d : D) (n : ℕ) (F : List Fock → ℚ) :
    exN d (n + 1) F = exN d n (fun l => ex d (fun t => F (l ++ [t]))) := by
  rw [exN_append d n 1 F]
  rfl

theorem exN_reverse (d : D) (n : ℕ) (F : List Fock → ℚ) :
    exN d n (fun l => F l.reverse) = exN d n F := by
  induction n generalizing F with
  | zero => rfl
  | succ n ih =>
    rw [exN_snoc d n F]
    simp only [exN, List.reverse_cons]
    have h : (fun t => exN d n (fun l => F (l.reverse ++ [t]))) =
        fun t => exN d n (fun l => F (l ++ [t])) :=
      funext fun t => ih (fun m => F (m ++ [t]))
    rw [h]
    exact (exN_ex_swap d d n (fun t l => F (l ++ [t]))).symm

theorem exN_take_drop (d : D) (a b : ℕ) (G : List Fock → List Fock → ℚ) :
    exN d (a + b) (fun s => G (s.take a) (s.drop a)) = exN d a (fun l1 => exN d b (fun l2 => G l1 l2)) := by
  rw [exN_append]
  apply exN_congr
  intro l1 h1
  apply exN_congr
  intro l2 _
  rw [List.take_left' h1, List.drop_left' h1]

/-! ### the number of draws handed out -/

/-- the number of draws the pooled provider hands out of a stream of `n` draws (complete batches only) -/
def reorderLen (w : Option Nat) (n : Nat) : Nat :=
  let b := min (w.getD minS) maxS
  if _h : b = 0 ∨ n < b then 0 else b + reorderLen (some (grow (w.getD minS))) (n - b)
termination_by n
decreasing_by omega

theorem reorderLen_eq (w : Option Nat) (n : Nat) :
    reorderLen w n =
      if min (w.getD minS) maxS = 0 ∨ n < min (w.getD minS) maxS then 0
      else min (w.getD minS) maxS + reorderLen (some (grow (w.getD minS))) (n - min (w.getD minS) maxS) := by
  rw [reorderLen]
  simp only [dite_eq_ite]

theorem reorder_length_eq (w : Option Nat) (s : List Fock) : (reorder w s).length = reorderLen w s.length := by
  induction hn : s.length using Nat.strong_induction_on generalizing s w with
  | _ n ih =>
    subst hn
    rw [reorder_eq w s, reorderLen_eq w s.length]
    by_cases hc : min (w.getD minS) maxS = 0 ∨ s.length < min (w.getD minS) maxS
    · rw [if_pos hc, if_pos hc]; rfl
    · rw [if_neg hc, if_neg hc]
      simp only [List.length_append, List.length_reverse, List.length_take]
      have hlt : (s.drop (min (w.getD minS) maxS)).length < s.length := by
        simp only [List.length_drop]
        omega
      rw [ih _ hlt (some (grow (w.getD minS))) (s.drop (min (w.getD minS) maxS)) rfl]
      simp only [List.length_drop]
      omega

/-! ### the main theorem -/

/-- if the backend stream holds `n` independent draws of law `d`, the sequence the pooled provider hands out
is `reorderLen w n` independent draws of law `d` -/
theorem exN_reorder (d : D) (hd : PM.Dist.mass d = 1) (w : Option Nat) (n : ℕ) (F : List Fock → ℚ) :
    exN d n (fun s => F (reorder w s)) = exN d (reorderLen w n) F := by
  induction n using Nat.strong_induction_on generalizing w F with
  | _ n ih =>
    rw [reorderLen_eq w n]
    by_cases hc : min (w.getD minS) maxS = 0 ∨ n < min (w.getD minS) maxS
    · rw [if_pos hc]
      rw [exN_congr d n (fun s => F (reorder w s)) (fun _ => F []) (by
        intro l hl
        rw [reorder_eq w l, hl, if_pos hc])]
      rw [exN_const d hd]
      rfl
    · rw [if_neg hc]
      generalize hb : min (w.getD minS) maxS = b at hc ⊢
      generalize hw' : some (grow (w.getD minS)) = w'
      obtain ⟨m, rfl⟩ : ∃ m, n = b + m := ⟨n - b, by omega⟩
      have hbm : b + m - b = m := by omega
      rw [hbm]
      rw [exN_congr d (b + m) (fun s => F (reorder w s))
        (fun s => F ((s.take b).reverse ++ reorder w' (s.drop b))) (by
        intro l hl
        rw [reorder_eq w l, hl, hb, hw', if_neg hc])]
      rw [exN_take_drop d b m (fun l1 l2 => F (l1.reverse ++ reorder w' l2))]
      have h : (fun l1 : List Fock => exN d m (fun l2 => F (l1.reverse ++ reorder w' l2))) =
          fun l1 => exN d (reorderLen w' m) (fun r => F (l1.reverse ++ r)) :=
        funext fun l1 => ih m (by omega) w' (fun r => F (l1.reverse ++ r))
      rw [h]
      rw [exN_reverse d b (fun l1 => exN d (reorderLen w' m) (fun r => F (l1 ++ r)))]
      exact (exN_append d b (reorderLen w' m) F).symm

/-! ### non-vacuity -/

example : reorderLen none 250 = 210 := by
  rw [reorderLen_eq]; simp only [Option.getD_none, minS, maxS, grow]
  rw [reorderLen_eq]; simp only [Option.getD_some, minS, maxS, grow]
  rw [reorderLen_eq]; simp only [Option.getD_some, minS, maxS, grow]
  decide

end PM.C09
