/-
  C06 — helper lemmas for `trimming_only_removes`: at any threshold the trimmed product is dominated by
  the untrimmed one (trimming drops mass, it never creates or moves any).
-/
import PercevalModel.Lemmas.C06

namespace PM.C06

section
variable {α : Type}

/-- `d` is dominated by `d0`: every non-negative test function has a smaller expectation -/
def Dom (d d0 : Dist α) : Prop := ∀ g : α → ℚ, (∀ a, 0 ≤ g a) → E g d ≤ E g d0

theorem Dom.refl (d : Dist α) : Dom d d := fun _ _ => le_refl _

theorem Dom.trans {d₁ d₂ d₃ : Dist α} (h₁ : Dom d₁ d₂) (h₂ : Dom d₂ d₃) : Dom d₁ d₃ :=
  fun g hg => le_trans (h₁ g hg) (h₂ g hg)

theorem E_nonneg (g : α → ℚ) (hg : ∀ a, 0 ≤ g a) (d : Dist α) (hd : NonNeg d) : 0 ≤ E g d := by
  induction d with
  | nil => simp
  | cons e d ih =>
    rw [E_cons]
    exact add_nonneg (mul_nonneg (hd e (by simp)) (hg _)) (ih fun x hx => hd x (by simp [hx]))

theorem Dom_trim (θ : ℚ) (d : Dist α) (hd : NonNeg d) : Dom (trim θ d) d := by
  intro g hg
  induction d with
  | nil => exact le_refl _
  | cons e d ih =>
    have hd' : NonNeg d := fun x hx => hd x (by simp [hx])
    have he : 0 ≤ e.2 * g e.1 := mul_nonneg (hd e (by simp)) (hg _)
    have ih' : E g (trim θ d) ≤ E g d := ih hd'
    simp only [trim, List.filter_cons] at ih' ⊢
    split
    · simp only [E_cons]; linarith
    · simp only [E_cons]; linarith

/-- at threshold 0 the depth-first product is homogeneous in the running probability -/
theorem E_dfs_zero_scale (g : α → ℚ) (comb : α → α → α) (ds : List (Dist α))
    (hds : ∀ d ∈ ds, NonNeg d) (s : α) (p c : ℚ) (hp : 0 ≤ p) (hc : 0 ≤ c) :
    E g (dfs 0 comb ds s (c * p)) = c * E g (dfs 0 comb ds s p) := by
  induction ds generalizing s p with
  | nil => simp only [dfs, E_cons, E_nil, add_zero]; ring
  | cons d ds ih =>
    have hd : NonNeg d := hds d (by simp)
    have hds' : ∀ d' ∈ ds, NonNeg d' := fun d' h' => hds d' (by simp [h'])
    rw [E_dfs_cons g comb d ds s (c * p) (mul_nonneg hc hp) hd, E_dfs_cons g comb d ds s p hp hd,
      ← List.sum_map_mul_left]
    congr 1
    apply List.map_congr_left
    intro e he
    rw [mul_assoc, ih hds' _ _ (mul_nonneg hp (hd e he))]

theorem forall₂_right_NonNeg {ds ds0 : List (Dist α)}
    (h : List.Forall₂ (fun d d0 => NonNeg d ∧ NonNeg d0 ∧ Dom d d0) ds ds0) :
    ∀ d0 ∈ ds0, NonNeg d0 := by
  induction h with
  | nil => intro d0 h0; simp at h0
  | cons hd _ ih =>
    intro d0 h0
    simp only [List.mem_cons] at h0
    rcases h0 with rfl | h0
    · exact hd.2.1
    · exact ih d0 h0

/-- the pruned product of dominated factors is dominated by the unpruned product -/
theorem E_dfs_le (g : α → ℚ) (hg : ∀ a, 0 ≤ g a) (comb : α → α → α) (θ : ℚ) (ds ds0 : List (Dist α))
    (h : List.Forall₂ (fun d d0 => NonNeg d ∧ NonNeg d0 ∧ Dom d d0) ds ds0) :
    ∀ (s : α) (p : ℚ), 0 ≤ p → E g (dfs θ comb ds s p) ≤ E g (dfs 0 comb ds0 s p) := by
  induction h with
  | nil => intro s p _; exact le_refl _
  | @cons d d0 l l0 hd htl ih =>
    intro s p hp
    obtain ⟨hn, hn0, hdom⟩ := hd
    have hl0 := forall₂_right_NonNeg htl
    let H : α → ℚ := fun a => E g (dfs 0 comb l0 (comb s a) p)
    have hH : ∀ a, 0 ≤ H a := fun a => E_nonneg g hg _ (dfs_NonNeg 0 comb l0 hl0 _ _ hp)
    have hR : E g (dfs 0 comb (d0 :: l0) s p) = E H d0 := by
      rw [E_dfs_cons g comb d0 l0 s p hp hn0]
      show _ = (d0.map fun e => e.2 * H e.1).sum
      congr 1
      apply List.map_congr_left
      intro e he
      rw [mul_comm p e.2, E_dfs_zero_scale g comb l0 hl0 _ p e.2 hp (hn0 e he)]
    have hL : E g (dfs θ comb (d :: l) s p) ≤ E H d := by
      simp only [dfs]
      rw [E_flatMap]
      show _ ≤ (d.map fun e => e.2 * H e.1).sum
      apply List.sum_le_sum
      intro e he
      have he2 : 0 ≤ e.2 := hn e he
      split
      · simp only [E_nil]; exact mul_nonneg he2 (hH e.1)
      · calc E g (dfs θ comb l (comb s e.1) (p * e.2))
            ≤ E g (dfs 0 comb l0 (comb s e.1) (p * e.2)) := ih _ _ (mul_nonneg hp he2)
          _ = e.2 * H e.1 := by
            rw [mul_comm p e.2, E_dfs_zero_scale g comb l0 hl0 _ p e.2 hp he2]
    rw [hR]
    exact le_trans hL (hdom H hH)

theorem Dom_lift {d d0 : Dist Mode} (h : Dom d d0) : Dom (lift d) (lift d0) := by
  intro g hg
  rw [E_lift, E_lift]
  exact h _ fun m => hg _

end

theorem Dom_ltpMode (θ : ℚ) (ds : List (Dist Mode)) (hds : ∀ d ∈ ds, NonNeg d) :
    Dom (ltpMode θ ds) (ltpMode 0 ds) := by
  match ds, hds with
  | [], _ => exact Dom.refl _
  | [d], _ => exact Dom.refl _
  | d₁ :: d₂ :: ds, hds =>
    intro g hg
    show E g (if (d₁ :: d₂ :: ds).any List.isEmpty then []
        else accum (dfs θ (fun s e => mergeTags e s) ((d₁ :: d₂ :: ds).map (trim θ)) [] 1)) ≤
      E g (if (d₁ :: d₂ :: ds).any List.isEmpty then []
        else accum (dfs 0 (fun s e => mergeTags e s) ((d₁ :: d₂ :: ds).map (trim 0)) [] 1))
    split
    · exact le_refl _
    · rw [E_accum, E_accum]
      apply E_dfs_le g hg _ θ _ _ _ [] 1 zero_le_one
      rw [List.forall₂_map_left_iff, List.forall₂_map_right_iff, List.forall₂_same]
      intro d hd
      refine ⟨trim_NonNeg θ d (hds d hd), trim_NonNeg 0 d (hds d hd), ?_⟩
      intro g' hg'
      rw [E_trim_zero g' d (hds d hd)]
      exact Dom_trim θ d (hds d hd) g' hg'

theorem Dom_probDist (P : Params) (θ : ℚ) (n t : ℕ) : Dom (probDist P θ n t) (probDist P 0 n t) := by
  unfold probDist
  split
  · exact Dom.refl _
  · exact Dom_ltpMode θ _ (photonDists_NonNeg P n t)

theorem forall₂_modeDists (P : Params) (θ : ℚ) (ns : List ℕ) (t : ℕ) :
    List.Forall₂ (fun d d0 => NonNeg d ∧ NonNeg d0 ∧ Dom d d0)
      (((modeDists P θ ns t).map lift).map (trim θ)) (((modeDists P 0 ns t).map lift).map (trim 0)) := by
  induction ns generalizing t with
  | nil => exact List.Forall₂.nil
  | cons n ns ih =>
    simp only [modeDists, List.map_cons]
    refine List.Forall₂.cons ?_ (ih _)
    have h1 := lift_NonNeg _ (probDist_NonNeg P θ n t)
    have h0 := lift_NonNeg _ (probDist_NonNeg P 0 n t)
    refine ⟨trim_NonNeg θ _ h1, trim_NonNeg 0 _ h0, ?_⟩
    intro g hg
    rw [E_trim_zero g _ h0]
    exact le_trans (Dom_trim θ _ h1 g hg) (Dom_lift (Dom_probDist P θ n t) g hg)

theorem Dom_generateRaw (P : Params) (θ : ℚ) (ns : List ℕ) (t : ℕ) :
    Dom (generateRaw P θ ns t) (generateRaw P 0 ns t) := by
  unfold generateRaw
  match ns with
  | [] => exact Dom.refl _
  | [n] =>
    simp only [modeDists, List.map_cons, List.map_nil, ltpState]
    exact Dom_lift (Dom_probDist P θ n t)
  | n₁ :: n₂ :: ns =>
    intro g hg
    show E g (dfs θ (fun s e => s ++ e) (((modeDists P θ (n₁ :: n₂ :: ns) t).map lift).map (trim θ)) [] 1) ≤
      E g (dfs 0 (fun s e => s ++ e) (((modeDists P 0 (n₁ :: n₂ :: ns) t).map lift).map (trim 0)) [] 1)
    exact E_dfs_le g hg _ θ _ _ (forall₂_modeDists P θ _ t) [] 1 zero_le_one

end PM.C06
