/-
  C06 — the classes ("kinds") of the slots of the list `photons` of `_events_to_samples`: merging, distributing
  and shuffling at the level of classes; the classes of the slots of one event, explicitly; their law under
  ideal booleans is the product of the per-slot laws; the photons of a state from its class profile.
-/
import PercevalModel.Lemmas.C06PlaceDefs
set_option linter.unusedSimpArgs false
namespace PM.C06

/-! ### classes of concrete modes, sums of classes -/

theorem cls_nil : cls [] = (0, 0) := rfl

theorem cls_cons_common (m : Mode) : cls (some 0 :: m) = ((cls m).1 + 1, (cls m).2) := by
  have h : commonTag (some 0) = true := rfl
  simp [cls, mCommon, mFresh, freshTags, List.filter_cons, h]

theorem cls_cons_fresh (c : ℕ) (m : Mode) : cls (some (c + 1) :: m) = ((cls m).1, (cls m).2 + 1) := by
  simp [cls, mCommon, mFresh, freshTags, commonTag]

theorem cls_perm {m m' : Mode} (h : m.Perm m') : cls m = cls m' := by
  unfold cls mCommon mFresh freshTags
  rw [(h.filter commonTag).length_eq, (h.filter (fun tg => !commonTag tg)).length_eq]

theorem cls_append (m m' : Mode) :
    cls (m ++ m') = ((cls m).1 + (cls m').1, (cls m).2 + (cls m').2) := by
  simp [cls, mCommon, mFresh, freshTags]

theorem clsSum_nil : clsSum [] = (0, 0) := rfl

theorem clsSum_cons (c : ℕ × ℕ) (l : List (ℕ × ℕ)) :
    clsSum (c :: l) = (c.1 + (clsSum l).1, c.2 + (clsSum l).2) := by
  simp [clsSum]

theorem cls_flatten (ms : List Mode) : cls ms.flatten = clsSum (ms.map cls) := by
  induction ms with
  | nil => rfl
  | cons m ms ih => rw [List.flatten_cons, cls_append, ih, List.map_cons, clsSum_cons]

/-! ### K1 – K4 : merging, distributing, shuffling at the level of classes -/

theorem cls_mergeAll (ms : List Mode) : cls (mergeAll ms) = clsSum (ms.map cls) := by
  rw [cls_perm (mergeAll_perm ms), cls_flatten]

theorem profile_distribute (ns : List ℕ) (l : List Mode) :
    profile (distribute ns l) = blockSum ns (l.map cls) := by
  induction ns generalizing l with
  | nil => rfl
  | cons n ns ih =>
    show cls (mergeAll (l.take n)) :: profile (distribute ns (l.drop n)) =
      clsSum ((l.map cls).take n) :: blockSum ns ((l.map cls).drop n)
    rw [cls_mergeAll, ih, List.map_take, List.map_drop]

theorem map_cls_applyPerm (items : List Mode) (perm : List ℕ) :
    (applyPerm items perm).map cls = permute (0, 0) (items.map cls) perm := by
  unfold applyPerm permute
  rw [List.map_map]
  apply List.map_congr_left
  intro p _
  show cls (items.getD p []) = (items.map cls).getD p (0, 0)
  rw [List.getD_eq_getElem?_getD, List.getD_eq_getElem?_getD, List.getElem?_map]
  cases items[p]? <;> rfl

theorem profile_fSample (dm : Bool) (ns : List ℕ) (t : ℕ) (e : ℕ × ℕ × ℕ) (bs : List Bool) (perm : List ℕ) :
    profile (fSample dm ns t e bs perm) =
      blockSum ns (permute (0, 0) (evKinds dm ns.sum e bs t) perm) := by
  unfold fSample
  rw [profile_distribute, map_cls_applyPerm]
  rfl

/-! ### K5 : the classes of the slots of one event, explicitly -/

theorem sigPart_cls (n : ℕ) (bs : List Bool) (c : ℕ) (h : n ≤ bs.length) :
    (sigPart n bs c).1.map cls = (bs.take n).map bcls ∧ (sigPart n bs c).2.1 = bs.drop n := by
  induction n generalizing bs c with
  | zero => simp [sigPart]
  | succ n ih =>
    cases bs with
    | nil => simp at h
    | cons b bs =>
      have h' : n ≤ bs.length := by simpa using h
      cases b
      · obtain ⟨h1, h2⟩ := ih bs (c + 1) h'
        simp [sigPart, h1, h2, bcls, cls_cons_fresh, cls_nil]
      · obtain ⟨h1, h2⟩ := ih bs c h'
        simp [sigPart, h1, h2, bcls, cls_cons_common, cls_nil]

theorem g2Part_cls (dm : Bool) (j c : ℕ) : (g2Part dm j c).1.map cls = List.replicate j (xK dm) := by
  induction j generalizing c with
  | zero => rfl
  | succ j ih =>
    cases dm <;> simp [g2Part, ih, xK, List.replicate_succ, cls_cons_common, cls_cons_fresh, cls_nil]

theorem duoPart_cls (dm : Bool) (k : ℕ) (bs : List Bool) (c : ℕ) (h : k ≤ bs.length) :
    (duoPart dm k bs c).1.map cls = (bs.take k).map (duoK dm) := by
  induction k generalizing bs c with
  | zero => simp [duoPart]
  | succ k ih =>
    cases bs with
    | nil => simp at h
    | cons b bs =>
      have h' : k ≤ bs.length := by simpa using h
      cases b <;> cases dm
      · simp [duoPart, ih bs (c + 1) h', duoK, bcls, xK, cls_cons_common, cls_cons_fresh, cls_nil]
      · simp [duoPart, ih bs (c + 1 + 1) h', duoK, bcls, xK, cls_cons_common, cls_cons_fresh, cls_nil]
      · simp [duoPart, ih bs c h', duoK, bcls, xK, cls_cons_common, cls_cons_fresh, cls_nil]
      · simp [duoPart, ih bs (c + 1) h', duoK, bcls, xK, cls_cons_common, cls_cons_fresh, cls_nil]

theorem evKinds_eq (dm : Bool) (n : ℕ) (e : ℕ × ℕ × ℕ) (bs : List Bool) (t : ℕ)
    (hbs : bs.length = e.1 + e.2.2) :
    evKinds dm n e bs t = (bs.take e.1).map bcls ++ List.replicate e.2.1 (xK dm) ++
      (bs.drop e.1).map (duoK dm) ++ List.replicate (n - (e.1 + e.2.1 + e.2.2)) (0, 0) := by
  have h1 : e.1 ≤ bs.length := by omega
  obtain ⟨s1, s2⟩ := sigPart_cls e.1 bs t h1
  have hd : e.2.2 ≤ (bs.drop e.1).length := by rw [List.length_drop]; omega
  have ht : (bs.drop e.1).take e.2.2 = bs.drop e.1 :=
    List.take_of_length_le (by rw [List.length_drop]; omega)
  unfold evKinds evItems
  simp only [List.map_append, List.map_replicate, List.length_append, sigPart_length, g2Part_length,
    duoPart_length, cls_nil, s1, s2, g2Part_cls]
  rw [duoPart_cls dm e.2.2 (bs.drop e.1) _ hd, ht]

/-! ### K6 : the law of the classes under ideal booleans -/

section gen
variable {α β : Type}

theorem E_prodLaw_append (F : List α → ℚ) (ds ds' : List (Dist α)) :
    E F (prodLaw (ds ++ ds')) = E (fun x => E (fun y => F (x ++ y)) (prodLaw ds')) (prodLaw ds) := by
  induction ds generalizing F with
  | nil => simp [E_prodLaw_nil]
  | cons d ds ih =>
    rw [List.cons_append, E_prodLaw_cons, E_prodLaw_cons]
    apply E_congr
    intro x
    rw [ih]
    rfl

theorem E_prodLaw_replicate_point (F : List α → ℚ) (m : ℕ) (v : α) :
    E F (prodLaw (List.replicate m [(v, 1)])) = F (List.replicate m v) := by
  induction m generalizing F with
  | zero => simp [E_prodLaw_nil]
  | succ m ih =>
    rw [List.replicate_succ, E_prodLaw_cons]
    simp [ih, List.replicate_succ]

theorem E_prodLaw_replicate_pushF (F : List α → ℚ) (m : ℕ) (f : β → α) (d : Dist β) :
    E F (prodLaw (List.replicate m (pushF f d))) =
      E (fun l => F (l.map f)) (prodLaw (List.replicate m d)) := by
  have := prodLaw_map_pushF (List.replicate m d) f F
  rw [E_pushF, List.map_replicate] at this
  exact this.symm

theorem E_prodLaw_append4 (K : List α → ℚ) (A B C D : List (Dist α)) :
    E K (prodLaw (A ++ B ++ C ++ D)) =
      E (fun a => E (fun b => E (fun c => E (fun d => K (a ++ b ++ c ++ d)) (prodLaw D)) (prodLaw C))
        (prodLaw B)) (prodLaw A) := by
  rw [E_prodLaw_append, E_prodLaw_append, E_prodLaw_append]

end gen

theorem E_evKinds (P : Params) (n : ℕ) (e : ℕ × ℕ × ℕ) (t : ℕ) (K : List (ℕ × ℕ) → ℚ) :
    E (fun bs => K (evKinds P.dm n e bs t)) (prodLaw (List.replicate (e.1 + e.2.2) (boolLaw P))) =
      E K (prodLaw ((canon n e).map (kindLaw P))) := by
  have hcanon : (canon n e).map (kindLaw P) =
      List.replicate e.1 (pushF bcls (boolLaw P)) ++ List.replicate e.2.1 [(xK P.dm, 1)] ++
        List.replicate e.2.2 (pushF (duoK P.dm) (boolLaw P)) ++
        List.replicate (n - (e.1 + e.2.1 + e.2.2)) [((0, 0), 1)] := by
    simp only [canon, List.map_append, List.map_replicate]
    rfl
  have hR : E K (prodLaw ((canon n e).map (kindLaw P))) =
      E (fun x => E (fun y => K (x.map bcls ++ List.replicate e.2.1 (xK P.dm) ++ y.map (duoK P.dm) ++
          List.replicate (n - (e.1 + e.2.1 + e.2.2)) (0, 0)))
        (prodLaw (List.replicate e.2.2 (boolLaw P)))) (prodLaw (List.replicate e.1 (boolLaw P))) := by
    rw [hcanon, E_prodLaw_append4]
    simp only [E_prodLaw_replicate_point, E_prodLaw_replicate_pushF]
  rw [hR]
  rw [E_congr_mem (g' := fun bs => K ((bs.take e.1).map bcls ++ List.replicate e.2.1 (xK P.dm) ++
      (bs.drop e.1).map (duoK P.dm) ++ List.replicate (n - (e.1 + e.2.1 + e.2.2)) (0, 0))) _
    (fun b hb => by
      have hl := prodLaw_length _ b hb
      rw [List.length_replicate] at hl
      rw [evKinds_eq P.dm n e b.1 t hl]),
    ← List.replicate_append_replicate, E_prodLaw_append]
  apply E_congr_mem
  intro x hx
  have hl := prodLaw_length _ x hx
  rw [List.length_replicate] at hl
  apply E_congr
  intro y
  rw [List.take_left' hl, List.drop_left' hl]

/-! ### K7, K8 : photons and totals -/

theorem length_eq_cls (m : Mode) : m.length = (cls m).1 + (cls m).2 := by
  unfold cls mCommon mFresh freshTags
  induction m with
  | nil => rfl
  | cons x l ih =>
    by_cases h : commonTag x = true <;> simp [List.filter_cons, h, ih] <;> omega

theorem photons_profile (s : State) : photons s = ((profile s).map fun c => c.1 + c.2).sum := by
  unfold photons profile
  rw [List.map_map]
  congr 1
  apply List.map_congr_left
  intro m _
  exact length_eq_cls m

theorem clsSum_total (l : List (ℕ × ℕ)) :
    (clsSum l).1 + (clsSum l).2 = (l.map fun c => c.1 + c.2).sum := by
  induction l with
  | nil => rfl
  | cons c l ih =>
    rw [clsSum_cons, List.map_cons, List.sum_cons, ← ih]
    dsimp only
    omega

theorem blockSum_length (ns : List ℕ) (l : List (ℕ × ℕ)) : (blockSum ns l).length = ns.length := by
  induction ns generalizing l with
  | nil => rfl
  | cons n ns ih => simp [blockSum, ih]

theorem blockSum_total (ns : List ℕ) (l : List (ℕ × ℕ)) (h : l.length = ns.sum) :
    ((blockSum ns l).map fun c => c.1 + c.2).sum = (l.map fun c => c.1 + c.2).sum := by
  induction ns generalizing l with
  | nil =>
    have : l = [] := List.eq_nil_of_length_eq_zero (by simpa using h)
    subst this
    rfl
  | cons n ns ih =>
    have hd : (l.drop n).length = ns.sum := by simp [List.length_drop, h]
    show ((clsSum (l.take n) :: blockSum ns (l.drop n)).map fun c => c.1 + c.2).sum = _
    rw [List.map_cons, List.sum_cons, ih _ hd, clsSum_total, ← List.sum_append, ← List.map_append,
      List.take_append_drop]

end PM.C06
