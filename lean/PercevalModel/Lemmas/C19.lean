/-
  C19 — helper lemmas (model: `Model/C19.lean`).

  Part 1: requests (`clamp`, `norm` are idempotent; a job rebuilt from its stored body is prepared).
  Part 2: lists (`upd`, `ids`).
  Part 3: the invariant `Inv` of the repaired machine and its preservation by every operation,
          every server outcome and every stopping point.
-/
import PercevalModel.Model.C19

namespace PM.C19
open PM.SM

/-! ### generic: histories restricted by a predicate on operations -/

theorem inv_exec_of {S Op Out : Type} (step : S → Op → S × Out) (P : Op → Prop) (I : S → Prop)
    (hstep : ∀ s op, P op → I s → I (step s op).1) (s : S) (h : I s) (ops : List Op)
    (hops : ∀ op ∈ ops, P op) : I (exec step s ops) := by
  induction ops generalizing s with
  | nil => exact h
  | cons x xs ih =>
    rw [exec_cons]
    exact ih _ (hstep s x (hops x (by simp)) h) (fun op ho => hops op (by simp [ho]))

theorem outputs_run_of {S Op Out : Type} (step : S → Op → S × Out) (P : Op → Prop) (I : S → Prop)
    (Q : Out → Prop)
    (hstep : ∀ s op, P op → I s → I (step s op).1 ∧ Q (step s op).2) (s : S) (h : I s)
    (ops : List Op) (hops : ∀ op ∈ ops, P op) : ∀ o ∈ (run step s ops).2, Q o := by
  induction ops generalizing s with
  | nil => intro o ho; simp [run] at ho
  | cons x xs ih =>
    intro o ho
    simp only [run, List.mem_cons] at ho
    have hx := hstep s x (hops x (by simp)) h
    rcases ho with rfl | ho
    · exact hx.2
    · exact ih _ hx.1 (fun op ho => hops op (by simp [ho])) o ho

/-! ## Part 1 — requests -/

/-- `clamp` only ever touches `max_samples` -/
theorem clamp_fields {p q : Payload} (h : clamp p = .ok q) :
    q.rest = p.rest ∧ q.maxShots = p.maxShots ∧ q.ctx = p.ctx := by
  unfold clamp at h
  split at h
  · cases h; exact ⟨rfl, rfl, rfl⟩
  · cases h; exact ⟨rfl, rfl, rfl⟩
  · cases h
  · cases h
  · split at h <;> (cases h; exact ⟨rfl, rfl, rfl⟩)

/-- `_check_max_shots_samples_validity` is idempotent -/
theorem clamp_idem {p q : Payload} (h : clamp p = .ok q) : clamp q = .ok q := by
  obtain ⟨rest, ms, sh, ctx⟩ := p
  unfold clamp at h
  split at h
  · cases h; simp_all [clamp]
  · cases h; simp_all [clamp]
  · cases h
  · cases h
  · rename_i x y hms hsh
    simp only at hms hsh
    subst hms hsh
    split at h
    · cases h; simp [clamp]
    · cases h; rename_i hxy; simp [clamp, hxy]

/-- `mergeCtx` of a job whose context already is the merged one -/
theorem mergeCtx_idem (j : Job) (r : Option Req) :
    mergeCtx { j with ctx := mergeCtx j, req := r } = mergeCtx j := by
  unfold mergeCtx
  cases hd : j.dmap with
  | none => simp
  | some m => simp

/-- `_create_payload_data()` is idempotent: a prepared job is a fixed point -/
theorem normCore_idem {j j1 : Job} (h : normCore j = .ok j1) : normCore j1 = .ok j1 := by
  unfold normCore at h
  cases hr : j.req with
  | none => simp [hr] at h
  | some r =>
    simp only [hr] at h
    split at h
    · cases h
    · rename_i p hp
      cases h
      have hf := clamp_fields hp
      have hi := clamp_idem hp
      simp only at hf
      unfold normCore
      simp only [mergeCtx_idem]
      cases hc : j.cmdMax with
      | none =>
        have : ({ p with maxSamples := p.maxSamples, ctx := some (mergeCtx j) } : Payload) = p := by
          obtain ⟨a, b, c, d⟩ := p
          simp only at hf
          simp [hf.2.2]
        simp only [this, hi]
      | some v =>
        have : ({ p with maxSamples := some v, ctx := some (mergeCtx j) } : Payload) =
            { r.payload with maxSamples := some v, ctx := some (mergeCtx j) } := by
          obtain ⟨a, b, c, d⟩ := p
          simp only at hf
          simp [hf.1, hf.2.1]
        simp only [hc] at hp
        simp only [this, hp]

/-- `normCore` neither reads nor changes identifier, status and handler -/
theorem normCore_congr (j : Job) (a : Option Nat) (b : Status) :
    normCore { j with id := a, st := b } = (normCore j).map (fun x => { x with id := a, st := b }) := by
  unfold normCore mergeCtx
  cases j.req with
  | none => rfl
  | some r =>
    simp only
    split <;> simp_all [Except.map]

theorem normCore_id_st {j j1 : Job} (h : normCore j = .ok j1) : j1.id = j.id ∧ j1.st = j.st ∧ j1.hd = j.hd := by
  unfold normCore at h
  cases hr : j.req with
  | none => simp [hr] at h
  | some r =>
    simp only [hr] at h
    split at h
    · cases h
    · cases h; exact ⟨rfl, rfl, rfl⟩

/-- what a prepared job's request looks like -/
theorem normCore_fix_req {j : Job} (h : normCore j = .ok j) :
    ∃ r, j.req = some r ∧ r.jobName = some j.name ∧ r.payload.ctx = some j.ctx ∧ clamp r.payload = .ok r.payload := by
  have h0 := h
  unfold normCore at h
  cases hr : j.req with
  | none => simp [hr] at h
  | some r =>
    simp only [hr] at h
    split at h
    · cases h
    · rename_i p hp
      have hf := clamp_fields hp
      have hi := clamp_idem hp
      simp only at hf
      injection h with h
      have h1 := congrArg Job.req h
      have h2 := congrArg Job.ctx h
      simp only at h1 h2
      rw [hr] at h1
      cases h1
      exact ⟨_, rfl, rfl, by simp [hf.2.2, h2], hi⟩

/-- the job `_from_dict` (repaired) builds from a stored body -/
def rebuilt (a : Option Nat) (b : Status) (h : Nat) (r : Req) : Job :=
  { id := a, st := b, hd := h,
    name := (match r.jobName with | some n => n | none => 0),
    req := some r,
    ctx := (match r.payload.ctx with | some c => c | none => none),
    cmdMax := none, dmap := none }

/-- a job rebuilt from the body of a prepared job is prepared (needs the repaired `_from_dict`) -/
theorem normCore_rebuilt {j : Job} (h : normCore j = .ok j) {r : Req} (hr : j.req = some r) (a : Option Nat)
    (b : Status) (hd : Nat) : normCore (rebuilt a b hd r) = .ok (rebuilt a b hd r) := by
  obtain ⟨r', hr', hn, hc, hcl⟩ := normCore_fix_req h
  rw [hr] at hr'
  cases hr'
  obtain ⟨jn, ⟨rest, ms, sh, ctx⟩⟩ := r
  simp only at hn hc hcl
  subst hn hc
  simp only [normCore, rebuilt, mergeCtx, hcl]

/-- … and it sends the very same request -/
theorem rebuilt_req (a : Option Nat) (b : Status) (hd : Nat) (r : Req) : (rebuilt a b hd r).req = some r := rfl

/-! the same for `norm` = `normCore` guarded by the state of `_delta_parameters` -/

theorem norm_ok {j j1 : Job} (h : norm j = .ok j1) : j.dp = true ∧ normCore j = .ok j1 := by
  unfold norm at h
  split at h
  · exact ⟨by assumption, h⟩
  · cases h

theorem norm_of_core {j : Job} (hd : j.dp = true) : norm j = normCore j := by simp [norm, hd]

theorem normCore_dp {j j1 : Job} (h : normCore j = .ok j1) : j1.dp = j.dp ∧ j1.res = j.res := by
  unfold normCore at h
  cases hr : j.req with
  | none => simp [hr] at h
  | some r =>
    simp only [hr] at h
    split at h
    · cases h
    · cases h; exact ⟨rfl, rfl⟩

theorem norm_idem {j j1 : Job} (h : norm j = .ok j1) : norm j1 = .ok j1 := by
  obtain ⟨hd, hc⟩ := norm_ok h
  rw [norm_of_core (by rw [(normCore_dp hc).1, hd])]
  exact normCore_idem hc

theorem norm_congr (j : Job) (a : Option Nat) (b : Status) :
    norm { j with id := a, st := b } = (norm j).map (fun x => { x with id := a, st := b }) := by
  have e : ({ j with id := a, st := b } : Job).dp = j.dp := rfl
  unfold norm
  rw [e]
  split
  · exact normCore_congr j a b
  · rfl

/-- the results cache is no part of the request -/
theorem norm_congr_res (j : Job) (b : Bool) :
    norm { j with res := b } = (norm j).map (fun x => { x with res := b }) := by
  unfold norm normCore mergeCtx
  cases hd : j.dp
  · simp [Except.map]
  · simp only [if_true]
    cases j.req with
    | none => rfl
    | some r =>
      simp only
      split <;> simp_all [Except.map]

theorem norm_id_st {j j1 : Job} (h : norm j = .ok j1) : j1.id = j.id ∧ j1.st = j.st ∧ j1.hd = j.hd :=
  normCore_id_st (norm_ok h).2

theorem norm_fix_req {j : Job} (h : norm j = .ok j) :
    ∃ r, j.req = some r ∧ r.jobName = some j.name ∧ r.payload.ctx = some j.ctx ∧ clamp r.payload = .ok r.payload :=
  normCore_fix_req (norm_ok h).2

theorem norm_rebuilt {j : Job} (h : norm j = .ok j) {r : Req} (hr : j.req = some r) (a : Option Nat)
    (b : Status) (hd : Nat) : norm (rebuilt a b hd r) = .ok (rebuilt a b hd r) := by
  rw [norm_of_core (by rfl)]
  exact normCore_rebuilt (norm_ok h).2 hr a b hd

/-! ### `Good`: the shape of every job of a group of the repaired machine -/

/-- SUCCESS only with an identifier; any other job is prepared (`_create_payload_data()` changes nothing) and its
body is made of JSON values (what the file holds is the request itself) -/
def Good (j : Job) : Prop := (j.st = .success → j.id.isSome) ∧ (j.st ≠ .success → norm j = .ok j ∧ j.js = true)

theorem isSuccess_iff (s : Status) : s.isSuccess = true ↔ s = .success := by cases s <;> simp [Status.isSuccess]

theorem isSuccess_false_iff (s : Status) : s.isSuccess = false ↔ s ≠ .success := by
  cases s <;> simp [Status.isSuccess]

theorem Good.prep {j : Job} (h : Good j) : prep j = .ok j := by
  unfold PM.C19.prep
  cases hs : j.st.isSuccess
  · simp [h.2 ((isSuccess_false_iff _).1 hs)]
  · simp

theorem saveAll_good : ∀ {l : List Job}, (∀ j ∈ l, Good j) → saveAll l = .ok l
  | [], _ => rfl
  | j :: js, h => by
    have h1 : Good j := h j (by simp)
    have h2 := saveAll_good (l := js) (fun x hx => h x (by simp [hx]))
    simp [saveAll, h1.prep, h2]

/-- re-opening a stored entry of a good job gives back the same entry … -/
theorem toDict_fromDict {j : Job} (h : Good j) : toDict (fromDict fixed (toDict j)) = toDict j := by
  by_cases hs : j.st = .success
  · have hid := h.1 hs
    cases hi : j.id with
    | none => simp [hi] at hid
    | some k => simp [toDict, fromDict, hs, hi, Status.isSuccess]
  · have hs' := (isSuccess_false_iff _).2 hs
    cases hi : j.id with
    | none =>
      simp [toDict, fromDict, hi, Status.isSuccess]
    | some k =>
      simp [toDict, fromDict, hs', hi, hs]

theorem fromDict_body (a : Option Nat) (s : Option Status) (hd : Nat) (r : Req) (hs : s ≠ some .success) :
    fromDict fixed { id := a, status := s, hd := hd, body := some r } =
      rebuilt a (match s with | some x => x | none => .waiting) hd r := by
  obtain ⟨jn, ⟨rest, ms, sh, ctx⟩⟩ := r
  cases s <;> cases jn <;> cases ctx <;> simp_all [fromDict, rebuilt, fixed]

/-- … and a good job -/
theorem good_fromDict {j : Job} (h : Good j) : Good (fromDict fixed (toDict j)) := by
  by_cases hs : j.st = .success
  · have hid := h.1 hs
    cases hi : j.id with
    | none => simp [hi] at hid
    | some k => simp [Good, toDict, fromDict, hs, hi, Status.isSuccess]
  · have hs' := (isSuccess_false_iff _).2 hs
    have hn := (h.2 hs).1
    obtain ⟨r, hr, -⟩ := norm_fix_req hn
    have key : ∀ b : Status, b ≠ .success →
        Good (rebuilt j.id b j.hd r) := by
      intro b hb
      exact ⟨fun hx => absurd hx hb, fun _ => ⟨norm_rebuilt hn hr _ _ _, rfl⟩⟩
    cases hi : j.id with
    | none =>
      have := key .waiting (by decide)
      have e : toDict j = { id := none, status := none, hd := j.hd, body := some r } := by
        simp [toDict, hs', hi, hr]
      rw [e, fromDict_body _ _ _ _ (by simp)]
      simpa [hi] using this
    | some k =>
      have := key j.st hs
      have e : toDict j = { id := some k, status := some j.st, hd := j.hd, body := some r } := by
        simp [toDict, hs', hi, hr]
      rw [e, fromDict_body _ _ _ _ (by simpa using hs)]
      simpa [hi] using this

/-! ## Part 2 — lists -/

theorem upd_getElem? (f : Job → Job) : ∀ (l : List Job) (i : Nat), (upd f l i)[i]? = (l[i]?).map f
  | [], _ => by simp [upd]
  | _ :: _, 0 => by simp [upd]
  | _ :: js, i + 1 => by simp [upd, upd_getElem? f js i]

theorem mem_upd {f : Job → Job} : ∀ {l : List Job} {i : Nat} {x : Job}, x ∈ upd f l i →
    x ∈ l ∨ ∃ j, l[i]? = some j ∧ x = f j
  | [], _, _, h => by simp [upd] at h
  | j :: js, 0, x, h => by
    simp only [upd, List.mem_cons] at h
    rcases h with h | h
    · exact .inr ⟨j, by simp, h⟩
    · exact .inl (by simp [h])
  | j :: js, i + 1, x, h => by
    simp only [upd, List.mem_cons] at h
    rcases h with h | h
    · exact .inl (by simp [h])
    · rcases mem_upd h with h | ⟨y, hy, hx⟩
      · exact .inl (by simp [h])
      · exact .inr ⟨y, by simpa using hy, hx⟩

/-- an update that does not change the stored entry does not change the file image -/
theorem map_toDict_upd {f : Job → Job} : ∀ (l : List Job) (i : Nat),
    (∀ j, l[i]? = some j → toDict (f j) = toDict j) → (upd f l i).map toDict = l.map toDict
  | [], _, _ => by simp [upd]
  | j :: js, 0, h => by simp [upd, h j (by simp)]
  | j :: js, i + 1, h => by
    simp [upd, map_toDict_upd js i (fun y hy => h y (by simpa using hy))]

theorem upd_self : ∀ (l : List Job) (i : Nat) (j : Job), l[i]? = some j → upd (fun _ => j) l i = l
  | [], _, _, h => by simp at h
  | x :: xs, 0, j, h => by simp at h; simp [upd, h]
  | x :: xs, i + 1, j, h => by simp [upd, upd_self xs i j (by simpa using h)]

theorem ids_cons (j : Job) (l : List Job) :
    ids (j :: l) = (match j.id with | some k => k :: ids l | none => ids l) := by
  unfold ids
  cases h : j.id <;> simp [h]

theorem ids_append (a b : List Job) : ids (a ++ b) = ids a ++ ids b := by
  simp [ids, List.filterMap_append]

theorem ids_eq_of_toDict : ∀ {l l' : List Job}, l.map toDict = l'.map toDict → ids l = ids l'
  | [], [], _ => rfl
  | [], _ :: _, h => by simp at h
  | _ :: _, [], h => by simp at h
  | a :: as, b :: bs, h => by
    simp only [List.map_cons, List.cons.injEq] at h
    have h1 : a.id = b.id := by simpa [toDict] using congrArg DJob.id h.1
    rw [ids_cons, ids_cons, h1, ids_eq_of_toDict h.2]

/-- an update that keeps the identifier keeps the identifier list -/
theorem ids_upd_same {f : Job → Job} (hf : ∀ j, (f j).id = j.id) : ∀ (l : List Job) (i : Nat),
    ids (upd f l i) = ids l
  | [], _ => by simp [upd]
  | j :: js, 0 => by simp [upd, ids_cons, hf]
  | j :: js, i + 1 => by simp [upd, ids_cons, ids_upd_same hf js i]

/-- replacing entry `i` by a job with the fresh identifier `k` -/
theorem ids_upd_fresh {j' : Job} {k : Nat} (hk : j'.id = some k) : ∀ (l : List Job) (i : Nat),
    k ∉ ids l → (ids l).Nodup →
    (ids (upd (fun _ => j') l i)).Nodup ∧
    (∀ x ∈ ids (upd (fun _ => j') l i), x = k ∨ x ∈ ids l) ∧
    (∀ x ∈ ids l, x ∈ ids (upd (fun _ => j') l i) ∨ ∃ j, l[i]? = some j ∧ j.id = some x)
  | [], _, _, _ => by simp [upd, ids]
  | j :: js, 0, hn, hd => by
    simp only [upd, ids_cons, hk]
    cases hj : j.id with
    | none =>
      simp only [ids_cons, hj] at hn hd
      exact ⟨List.nodup_cons.2 ⟨hn, hd⟩, by simp, fun x hx => .inl (by simp [hx])⟩
    | some o =>
      simp only [ids_cons, hj, List.mem_cons, not_or] at hn hd
      have hd' := List.nodup_cons.1 hd
      refine ⟨List.nodup_cons.2 ⟨hn.2, hd'.2⟩, fun x hx => ?_, fun x hx => ?_⟩
      · simp only [List.mem_cons] at hx ⊢
        rcases hx with h | h
        · exact .inl h
        · exact .inr (.inr h)
      simp only [List.mem_cons] at hx
      rcases hx with rfl | hx
      · exact .inr ⟨j, by simp, hj⟩
      · exact .inl (by simp [hx])
  | j :: js, i + 1, hn, hd => by
    cases hj : j.id with
    | none =>
      simp only [ids_cons, hj] at hn hd
      have ih := ids_upd_fresh hk js i hn hd
      simp only [upd, ids_cons, hj]
      refine ⟨ih.1, ih.2.1, fun x hx => ?_⟩
      rcases ih.2.2 x hx with h | ⟨y, hy, hx⟩
      · exact .inl h
      · exact .inr ⟨y, by simpa using hy, hx⟩
    | some o =>
      simp only [ids_cons, hj, List.mem_cons, not_or] at hn hd
      have hd' := List.nodup_cons.1 hd
      have ih := ids_upd_fresh hk js i hn.2 hd'.2
      simp only [upd, ids_cons, hj]
      refine ⟨List.nodup_cons.2 ⟨fun hm => ?_, ih.1⟩, fun x hx => ?_, fun x hx => ?_⟩
      · rcases ih.2.1 o hm with h | h
        · exact hn.1 h.symm
        · exact hd'.1 h
      · simp only [List.mem_cons] at hx ⊢
        rcases hx with rfl | hx
        · exact .inr (.inl rfl)
        · rcases ih.2.1 x hx with h | h
          · exact .inl h
          · exact .inr (.inr h)
      · simp only [List.mem_cons] at hx ⊢
        rcases hx with rfl | hx
        · exact .inl (.inl rfl)
        · rcases ih.2.2 x hx with h | ⟨y, hy, hx⟩
          · exact .inl (.inr h)
          · exact .inr ⟨y, by simpa using hy, hx⟩

theorem mem_ids {l : List Job} {k : Nat} : k ∈ ids l ↔ ∃ j ∈ l, j.id = some k := by
  simp [ids, List.mem_filterMap]

theorem nodup_snoc {l : List Nat} {k : Nat} (h : l.Nodup) (hk : k ∉ l) : (l ++ [k]).Nodup := by
  induction l with
  | nil => simp
  | cons x xs ih =>
    have h' := List.nodup_cons.1 h
    simp only [List.mem_cons, not_or] at hk
    simp only [List.cons_append]
    refine List.nodup_cons.2 ⟨?_, ih h'.2 hk.2⟩
    simp only [List.mem_append, List.mem_singleton, not_or]
    exact ⟨h'.1, fun e => hk.1 e.symm⟩

/-! ## Part 3 — the invariant of the repaired machine -/

/-- an added job is well formed: SUCCESS is a status only a sent job can have (it comes from the
server or from a stored entry with an identifier) -/
def WFJob (j : Job) : Prop := j.st = .success → j.id.isSome

def WFOp : Op → Prop
  | .add j _ => WFJob j
  | _ => True

/-- everything but the file -/
structure PreInv (s : State) : Prop where
  dir : s.dir = true
  good : ∀ j ∈ s.mem, Good j
  nodup : (ids s.mem).Nodup
  lt : ∀ k ∈ ids s.mem, k < s.next
  surv : ∀ k ∈ s.issued, k ∈ s.retired ∨ k ∈ ids s.mem
  sent : ∀ r ∈ s.sent, r.req = r.stored ∧ r.req.isSome = true

/-- the invariant: the file is the image of memory -/
structure Inv (s : State) : Prop extends PreInv s where
  disk : s.disk = some (s.mem.map toDict)

theorem PreInv.of_mem {s s' : State} (h : PreInv s) (hdir : s'.dir = s.dir) (hnext : s'.next = s.next)
    (hsent : s'.sent = s.sent) (hiss : s'.issued = s.issued) (hret : s'.retired = s.retired)
    (hgood : ∀ j ∈ s'.mem, Good j) (hids : ids s'.mem = ids s.mem) : PreInv s' where
  dir := by rw [hdir]; exact h.dir
  good := hgood
  nodup := by rw [hids]; exact h.nodup
  lt := by rw [hids, hnext]; exact h.lt
  surv := by rw [hids, hiss, hret]; exact h.surv
  sent := by rw [hsent]; exact h.sent

/-- same memory image, same file: still in the invariant -/
theorem Inv.of_same {s s' : State} (h : Inv s) (hdir : s'.dir = s.dir) (hnext : s'.next = s.next)
    (hsent : s'.sent = s.sent) (hiss : s'.issued = s.issued) (hret : s'.retired = s.retired)
    (hdisk : s'.disk = s.disk) (hgood : ∀ j ∈ s'.mem, Good j)
    (himg : s'.mem.map toDict = s.mem.map toDict) : Inv s' where
  toPreInv := h.toPreInv.of_mem hdir hnext hsent hiss hret hgood (ids_eq_of_toDict himg)
  disk := by rw [hdisk, himg]; exact h.disk

theorem write_ok {s : State} (h : PreInv s) : write s = .ok { s with disk := some (s.mem.map toDict) } := by
  simp [write, saveAll_good h.good, h.dir]

theorem inv_written {s : State} (h : PreInv s) : Inv { s with disk := some (s.mem.map toDict) } where
  toPreInv := h.of_mem rfl rfl rfl rfl rfl h.good rfl
  disk := rfl

theorem writeR_inv {s : State} (h : PreInv s) : Inv (writeR s).1 := by
  simp only [writeR, write_ok h]
  exact inv_written h

theorem writeR_res {s : State} (h : PreInv s) : (writeR s).2 = .ok := by
  simp only [writeR, write_ok h]

theorem writeOr_inv {s0 s : State} (h : PreInv s) : Inv (writeOr s0 s).1 := by
  simp only [writeOr, write_ok h]
  exact inv_written h

/-- the list a fresh process loads from the file image of `l` -/
def reloadList (l : List Job) : List Job := (l.map toDict).map (fromDict fixed)

theorem reloadList_toDict : ∀ {l : List Job}, (∀ j ∈ l, Good j) → (reloadList l).map toDict = l.map toDict
  | [], _ => rfl
  | j :: js, h => by
    have ih := reloadList_toDict (l := js) (fun x hx => h x (by simp [hx]))
    simp only [reloadList, List.map_cons, List.cons.injEq] at ih ⊢
    exact ⟨toDict_fromDict (h j (by simp)), ih⟩

theorem reloadList_good {l : List Job} (h : ∀ j ∈ l, Good j) : ∀ j ∈ reloadList l, Good j := by
  intro j hj
  simp only [reloadList, List.map_map, List.mem_map, Function.comp] at hj
  obtain ⟨x, hx, rfl⟩ := hj
  exact good_fromDict (h x hx)

theorem construct_eq {s : State} (h : Inv s) :
    construct fixed s = ({ s with dir := true, outs := [], sts := [], rsps := [], mem := reloadList s.mem }, .ok) := by
  simp [construct, h.disk, reloadList, fixed]

theorem construct_inv {s : State} (h : Inv s) : Inv (construct fixed s).1 := by
  rw [construct_eq h]
  exact h.of_same h.dir.symm rfl rfl rfl rfl rfl (reloadList_good h.good) (reloadList_toDict h.good)

theorem kill_inv {s : State} (h : Inv s) : Inv (kill fixed s).1 := construct_inv h

theorem inv_script {s : State} (h : Inv s) (a : List Outcome) (b : List Ans) :
    Inv { s with outs := a, sts := b } :=
  h.of_same rfl rfl rfl rfl rfl rfl h.good rfl

theorem inv_script3 {s : State} (h : Inv s) (a : List Outcome) (b : List Ans) (c : List Rsp) :
    Inv { s with outs := a, sts := b, rsps := c } :=
  h.of_same rfl rfl rfl rfl rfl rfl h.good rfl

theorem good_set {j : Job} (h : Good j) (hs : j.st ≠ .success) (a : Option Nat) (b : Status)
    (hab : b = .success → a.isSome) : Good { j with id := a, st := b } :=
  ⟨hab, fun _ => ⟨by rw [norm_congr, (h.2 hs).1]; rfl, (h.2 hs).2⟩⟩

theorem good_setSt {j : Job} (h : Good j) (hs : j.st ≠ .success) (hid : j.id.isSome) (x : Status) :
    Good (setSt x j) := good_set h hs j.id x (fun _ => hid)

/-- a status update of a sent, not successful job keeps everything but the file -/
theorem preinv_setSt {s : State} (h : PreInv s) (i : Nat) (x : Status)
    (hi : ∀ j, s.mem[i]? = some j → j.id.isSome ∧ j.st ≠ .success) {s' : State}
    (hmem : s'.mem = upd (setSt x) s.mem i) (hdir : s'.dir = s.dir) (hnext : s'.next = s.next)
    (hsent : s'.sent = s.sent) (hiss : s'.issued = s.issued) (hret : s'.retired = s.retired) : PreInv s' := by
  refine h.of_mem hdir hnext hsent hiss hret ?_ ?_
  · intro y hy
    rw [hmem] at hy
    rcases mem_upd hy with hy | ⟨j, hj, rfl⟩
    · exact h.good y hy
    · exact good_setSt (h.good j (List.mem_of_getElem? hj)) (hi j hj).2 (hi j hj).1 x
  · rw [hmem]; exact ids_upd_same (f := setSt x) (fun _ => rfl) _ _

/-! ### `_update_job_statuses` -/

theorem refreshOne_inv {s : State} (h : Inv s) (i : Nat) : Inv (refreshOne fixed s i).1 := by
  unfold refreshOne
  cases hj : s.mem[i]? with
  | none => exact h
  | some j =>
    simp only
    split
    · rename_i hg
      simp only [Bool.and_eq_true, Bool.not_eq_true'] at hg
      have hns : j.st ≠ .success := by
        intro e; rw [e] at hg; simp [Status.completed] at hg
      have hi : ∀ y, s.mem[i]? = some y → y.id.isSome ∧ y.st ≠ .success := by
        intro y hy; rw [hj] at hy; cases hy; exact ⟨hg.1, hns⟩
      cases hs : s.sts with
      | nil => exact kill_inv h
      | cons a rest =>
        cases a with
        | fault e => exact h.of_same rfl rfl rfl rfl rfl rfl h.good rfl
        | ignored => exact h.of_same rfl rfl rfl rfl rfl rfl h.good rfl
        | intr => exact h.of_same rfl rfl rfl rfl rfl rfl h.good rfl
        | st x =>
          simp only
          have hp : PreInv { s with sts := rest, mem := upd (setSt x) s.mem i } :=
            preinv_setSt h.toPreInv i x hi rfl rfl rfl rfl rfl rfl
          split
          · rename_i hx
            refine h.of_same rfl rfl rfl rfl rfl rfl hp.good ?_
            apply map_toDict_upd
            intro y hy; rw [hj] at hy; cases hy
            rw [hx]; rfl
          · exact writeR_inv hp
    · exact h

theorem refreshIdx_inv : ∀ (is : List Nat) {s : State}, Inv s → Inv (refreshIdx fixed is s).1
  | [], _, h => h
  | i :: is, s, h => by
    have h1 := refreshOne_inv h i
    unfold refreshIdx
    generalize refreshOne fixed s i = r at h1
    obtain ⟨s', res⟩ := r
    cases res with
    | ok => exact refreshIdx_inv is h1
    | raised e => exact h1
    | killed => exact h1

theorem refreshAll_inv {s : State} (h : Inv s) : Inv (refreshAll fixed s).1 := refreshIdx_inv _ h

/-! ### the launch loop -/

theorem afterSend_inv {s : State} (h : PreInv s) (seq : Bool) (p : Nat)
    (hp : ∀ j, s.mem[p]? = some j → j.id.isSome ∧ j.st ≠ .success) : Inv (afterSend fixed seq s p).1 := by
  have hw := inv_written h
  unfold afterSend
  simp only [write_ok h]
  cases seq with
  | false => exact hw
  | true =>
    simp only [if_true]
    cases hj : s.mem[p]? with
    | none => exact hw
    | some j =>
      simp only
      cases hpoll : pollSts j.st s.sts with
      | cut => exact kill_inv hw
      | done x rest =>
        simp only
        have hp1 : PreInv ({ s with disk := some (s.mem.map toDict), sts := rest,
                                    mem := upd (setSt x) s.mem p } : State) :=
          preinv_setSt hw.toPreInv p x hp rfl rfl rfl rfl rfl rfl
        have hi := writeR_inv hp1
        have hr := writeR_res hp1
        generalize writeR _ = r at hi hr
        obtain ⟨s2, res⟩ := r
        simp only at hr hi
        subst hr
        simp only
        split
        · exact hi.of_same rfl rfl rfl rfl rfl rfl hi.good rfl
        · exact hi
      | raised x e rest =>
        have hpf : fixed.pollFix = true := rfl
        simp only [hpf, if_true]
        have hp2 : PreInv ({ s with disk := some (s.mem.map toDict), sts := rest,
                                    mem := upd (setSt x) s.mem p } : State) :=
          preinv_setSt hw.toPreInv p x hp rfl rfl rfl rfl rfl rfl
        simp only [write_ok hp2]
        exact inv_written hp2

theorem diskBody_eq {s : State} (h : Inv s) {i : Nat} {j : Job} (hj : s.mem[i]? = some j) :
    diskBody s i = (toDict j).body := by
  simp [diskBody, h.disk, List.getElem?_map, hj]

theorem mem_of_upd_const {j' : Job} {l : List Job} {i : Nat} {j : Job} (hj : l[i]? = some j) :
    j' ∈ upd (fun _ => j') l i := by
  have := upd_getElem? (fun _ => j') l i
  rw [hj] at this
  exact List.mem_of_getElem? this

/-- entry `i` is replaced by a good job carrying the fresh identifier the server just issued -/
theorem preinv_accept {s : State} (h : Inv s) {i : Nat} {j nj : Job} (hj : s.mem[i]? = some j) (g : Nat)
    (hgood : Good nj) (hid : nj.id = some (s.next + g)) {s' : State}
    (hmem : s'.mem = upd (fun _ => nj) s.mem i) (hdir : s'.dir = s.dir) (hnext : s'.next = s.next + g + 1)
    (hsent : ∀ r ∈ s'.sent, r.req = r.stored ∧ r.req.isSome = true)
    (hiss : s'.issued = (s.next + g) :: s.issued)
    (hret : ∀ x, x ∈ s.retired ∨ j.id = some x → x ∈ s'.retired) : PreInv s' := by
  have hfresh : s.next + g ∉ ids s.mem := fun hm => by have := h.lt _ hm; omega
  obtain ⟨h1, h2, h3⟩ := ids_upd_fresh hid s.mem i hfresh h.nodup
  refine ⟨by rw [hdir]; exact h.dir, ?_, by rw [hmem]; exact h1, ?_, ?_, hsent⟩
  · intro y hy
    rw [hmem] at hy
    rcases mem_upd hy with hy | ⟨_, _, rfl⟩
    · exact h.good y hy
    · exact hgood
  · intro x hx
    rw [hmem] at hx
    rw [hnext]
    rcases h2 x hx with rfl | hx
    · omega
    · have := h.lt x hx; omega
  · intro x hx
    rw [hiss, List.mem_cons] at hx
    rw [hmem]
    rcases hx with rfl | hx
    · exact .inr (mem_ids.2 ⟨nj, mem_of_upd_const hj, hid⟩)
    · rcases h.surv x hx with hr | hm
      · exact .inl (hret x (.inl hr))
      · rcases h3 x hm with hm' | ⟨y, hy, hyx⟩
        · exact .inr hm'
        · rw [hj] at hy; cases hy
          exact .inl (hret x (.inr hyx))

theorem execIter_inv {s : State} (h : Inv s) (seq : Bool) (i : Nat) : Inv (execIter fixed seq s i).1 := by
  unfold execIter
  cases hj : s.mem[i]? with
  | none => exact h
  | some j =>
    simp only
    have hgj := h.good j (List.mem_of_getElem? hj)
    cases hid : j.id with
    | some k => simpa using h
    | none =>
      simp only [Option.isSome_none, Bool.false_eq_true, if_false]
      cases hw : j.st.isWaiting with
      | false => simpa using h
      | true =>
        simp only [Bool.not_true, Bool.false_eq_true, if_false]
        have hst : j.st = .waiting := by cases hs : j.st <;> simp [hs, Status.isWaiting] at hw ⊢
        have hns : j.st ≠ .success := by rw [hst]; decide
        have hn := (hgj.2 hns).1
        obtain ⟨r, hr, -⟩ := norm_fix_req hn
        simp only [hn]
        cases ho : s.outs with
        | nil => exact kill_inv h
        | cons o rest =>
          cases o with
          | refuse =>
            simp only
            refine h.of_same rfl rfl rfl rfl rfl rfl ?_ ?_
            · intro y hy
              rcases mem_upd hy with hy | ⟨_, _, rfl⟩
              · exact h.good y hy
              · exact good_set hgj hns j.id .error (fun e => nomatch e)
            · apply map_toDict_upd
              intro y hy; rw [hj] at hy; cases hy
              simp [toDict, hid, hst, Status.isSuccess]
          | accept g =>
            simp only
            apply afterSend_inv
            · refine preinv_accept h hj g (nj := { j with id := some (s.next + g), st := .waiting })
                (good_set hgj hns _ _ (fun e => nomatch e)) rfl rfl rfl rfl ?_ rfl ?_
              · intro q hq
                simp only [List.mem_append, List.mem_singleton] at hq
                rcases hq with hq | rfl
                · exact h.sent q hq
                · simp [diskBody_eq h hj, toDict, hst, Status.isSuccess, hr]
              · intro x hx
                rcases hx with hx | hx
                · exact hx
                · rw [hid] at hx; cases hx
            · intro y hy
              simp only at hy
              rw [upd_getElem?, hj] at hy
              cases hy
              exact ⟨rfl, fun e => nomatch e⟩

theorem rerunIter_inv {s : State} (h : Inv s) (replace seq : Bool) (i : Nat) :
    Inv (rerunIter fixed replace seq s i).1 := by
  unfold rerunIter
  have hsf : fixed.statFix = true := rfl
  simp only [hsf, if_true]
  cases hj : s.mem[i]? with
  | none => exact h
  | some j =>
    simp only
    have hgj := h.good j (List.mem_of_getElem? hj)
    cases hf : j.st.failed with
    | false => simpa using h
    | true =>
      simp only [Bool.not_true, Bool.false_eq_true, if_false]
      have hns : j.st ≠ .success := by intro e; rw [e] at hf; simp [Status.failed] at hf
      have hns' := (isSuccess_false_iff _).2 hns
      have hn := (hgj.2 hns).1
      obtain ⟨r, hr, -⟩ := norm_fix_req hn
      simp only [hn, upd_self _ _ _ hj]
      cases ho : s.outs with
      | nil => exact kill_inv h
      | cons o rest =>
        cases o with
        | refuse => exact h.of_same rfl rfl rfl rfl rfl rfl h.good rfl
        | accept g =>
          simp only
          have e : ({ toDict j with id := some (s.next + g), status := some .waiting } : DJob) =
              { id := some (s.next + g), status := some .waiting, hd := j.hd, body := some r } := by
            simp [toDict, hns', hr]
          rw [e, fromDict_body _ _ _ _ (by simp)]
          simp only
          have hgn : Good (rebuilt (some (s.next + g)) .waiting j.hd r) :=
            ⟨fun hx => by simp [rebuilt] at hx, fun _ => ⟨norm_rebuilt hn hr _ _ _, rfl⟩⟩
          cases replace with
          | true =>
            simp only [if_true]
            apply afterSend_inv
            · refine preinv_accept h hj g hgn rfl rfl rfl rfl h.sent rfl ?_
              intro x hx
              simp only
              rcases hx with hx | hx
              · cases hjid : j.id <;> simp [hx]
              · simp [hx]
            · intro y hy
              simp only at hy
              rw [upd_getElem?, hj] at hy
              cases hy
              exact ⟨rfl, by simp [rebuilt]⟩
          | false =>
            simp only [Bool.false_eq_true, if_false]
            have hfresh : s.next + g ∉ ids s.mem := fun hm => by have := h.lt _ hm; omega
            have hids : ids (s.mem ++ [rebuilt (some (s.next + g)) .waiting j.hd r]) = ids s.mem ++ [s.next + g] := by
              rw [ids_append]; simp [ids, rebuilt]
            apply afterSend_inv
            · refine ⟨h.dir, ?_, ?_, ?_, ?_, h.sent⟩
              · intro y hy
                simp only [List.mem_append, List.mem_singleton] at hy
                rcases hy with hy | rfl
                · exact h.good y hy
                · exact hgn
              · simp only [hids]; exact nodup_snoc h.nodup hfresh
              · intro x hx
                simp only [hids, List.mem_append, List.mem_singleton] at hx
                simp only
                rcases hx with hx | rfl
                · have := h.lt x hx; omega
                · omega
              · intro x hx
                simp only [List.mem_cons] at hx
                simp only [hids, List.mem_append, List.mem_singleton]
                rcases hx with rfl | hx
                · exact .inr (.inr rfl)
                · rcases h.surv x hx with hr | hm
                  · exact .inl hr
                  · exact .inr (.inl hm)
            · intro y hy
              simp only at hy
              rw [List.getElem?_append_right (Nat.le_refl _)] at hy
              simp at hy
              subst hy
              exact ⟨rfl, by simp [rebuilt]⟩

theorem launchIdx_inv (rr rp sq : Bool) : ∀ (is : List Nat) {s : State}, Inv s →
    Inv (launchIdx fixed rr rp sq is s).1
  | [], _, h => h
  | i :: is, s, h => by
    have h1 : Inv (if rr then rerunIter fixed rp sq s i else execIter fixed sq s i).1 := by
      cases rr
      · exact execIter_inv h sq i
      · exact rerunIter_inv h rp sq i
    unfold launchIdx
    generalize (if rr then rerunIter fixed rp sq s i else execIter fixed sq s i) = r at h1
    obtain ⟨s', res⟩ := r
    cases res with
    | ok => exact launchIdx_inv rr rp sq is h1
    | raised e => exact h1
    | killed => exact h1

theorem launchOp_inv {s : State} (h : Inv s) (rr rp sq : Bool) : Inv (launchOp fixed rr rp sq s).1 := by
  have h1 : Inv (if rr then refreshAll fixed s else (s, Res.ok)).1 := by
    cases rr
    · exact h
    · exact refreshAll_inv h
  unfold launchOp
  generalize (if rr then refreshAll fixed s else (s, Res.ok)) = r at h1
  obtain ⟨s', res⟩ := r
  cases res with
  | ok => exact launchIdx_inv rr rp sq _ h1
  | raised e => exact h1
  | killed => exact h1

/-! ### `add` -/

theorem fillKw_id_st {j j1 : Job} {x : Nat} (h : fillKw j x = .ok j1) : j1.id = j.id ∧ j1.st = j.st := by
  unfold fillKw at h
  split at h
  · cases h
  · split at h
    · cases h; exact ⟨rfl, rfl⟩
    · split at h
      · split at h
        · cases h; exact ⟨rfl, rfl⟩
        · cases h
      · cases h

theorem prep_good {j j2 : Job} (hw : WFJob j) (h : prep j = .ok j2) : Good j2 ∧ j2.id = j.id := by
  unfold prep at h
  cases hs : j.st.isSuccess with
  | true =>
    simp only [hs, if_true] at h
    cases h
    have := (isSuccess_iff _).1 hs
    exact ⟨⟨hw, fun hx => absurd this hx⟩, rfl⟩
  | false =>
    simp only [hs, Bool.false_eq_true, if_false] at h
    cases hn : norm j with
    | error e => simp [hn] at h
    | ok j' =>
      simp only [hn] at h
      cases hjs : j'.js with
      | false => simp [hjs] at h
      | true =>
        simp only [hjs, if_true] at h
        cases h
        obtain ⟨h1, h2, -⟩ := norm_id_st hn
        have hns := (isSuccess_false_iff _).1 hs
        exact ⟨⟨fun hx => by rw [h2] at hx; exact absurd hx hns, fun _ => ⟨norm_idem hn, hjs⟩⟩, h1⟩

/-- `_to_json` of a well-formed group with one more job at the end: only the new job can fail -/
theorem saveAll_snoc : ∀ {l : List Job}, (∀ j ∈ l, Good j) → ∀ x : Job,
    saveAll (l ++ [x]) = (match prep x with | .error e => .error e | .ok x' => .ok (l ++ [x']))
  | [], _, x => by
    simp only [List.nil_append, saveAll]
    cases prep x <;> rfl
  | j :: js, h, x => by
    have h1 : Good j := h j (by simp)
    have ih := saveAll_snoc (l := js) (fun y hy => h y (by simp [hy])) x
    simp only [List.cons_append, saveAll, h1.prep, ih]
    cases prep x <;> rfl

/-- `add` of the repaired code (append, save, take the job back when the save raises) = prepare the new job first -/
theorem writeOr_snoc {s : State} (hg : ∀ j ∈ s.mem, Good j) (j1 : Job) (nx : Nat)
    (hgood2 : ∀ j2, prep j1 = .ok j2 → Good j2) :
    writeOr s { s with mem := s.mem ++ [j1], next := nx } =
      (match prep j1 with
       | .error e => (s, Res.raised e)
       | .ok j2 => writeOr s { s with mem := s.mem ++ [j2], next := nx }) := by
  unfold writeOr write
  simp only [saveAll_snoc hg]
  cases hp : prep j1 with
  | error e => rfl
  | ok j2 =>
    have := (hgood2 j2 hp).prep
    simp only [this]

/-- the duplicate test of `add` -/
def dupCheck (s : State) (j : Job) : Bool :=
  match j.id with | some k => decide (k ∈ ids s.mem) | none => false

/-- `add` after the duplicate test -/
def addRest (v : Variant) (s : State) (j : Job) (kw : Option Nat) : State × Res :=
  match (match kw with | none => Except.ok j | some x => (fillKw j x).bind norm) with
  | .error e => (s, .raised e)
  | .ok j1 =>
    let nx := match j1.id with | some k => max s.next (k + 1) | none => s.next
    if v.addFix then writeOr s { s with mem := s.mem ++ [j1], next := nx }
    else writeR { s with mem := s.mem ++ [j1], next := nx }

theorem addOp_eq (v : Variant) (s : State) (j : Job) (kw : Option Nat) :
    addOp v s j kw = if dupCheck s j then (s, .raised .valueError) else addRest v s j kw := rfl

theorem dupCheck_false {s : State} {j : Job} (h : dupCheck s j = false) : ∀ k, j.id = some k → k ∉ ids s.mem := by
  intro k hk hm
  simp [dupCheck, hk, hm] at h

theorem dupCheck_true {s : State} {j : Job} {k : Nat} (hk : j.id = some k) (hm : k ∈ ids s.mem) :
    dupCheck s j = true := by
  simp [dupCheck, hk, hm]

theorem addOp_inv {s : State} (h : Inv s) {j : Job} (hw : WFJob j) (kw : Option Nat) :
    Inv (addOp fixed s j kw).1 := by
  rw [addOp_eq]
  cases hd : dupCheck s j with
  | true => exact h
  | false =>
    simp only [Bool.false_eq_true, if_false]
    have hdup := dupCheck_false hd
    have key : ∀ j1 : Job, j1.id = j.id → j1.st = j.st →
        Inv (let nx := match j1.id with | some k => max s.next (k + 1) | none => s.next
             if fixed.addFix then writeOr s { s with mem := s.mem ++ [j1], next := nx }
             else writeR { s with mem := s.mem ++ [j1], next := nx }).1 := by
      intro j1 hid hst
      have haf : fixed.addFix = true := rfl
      have hw1 : WFJob j1 := by unfold WFJob; rw [hid, hst]; exact hw
      simp only [haf, if_true]
      rw [writeOr_snoc h.good j1 _ (fun j2 hp => (prep_good hw1 hp).1)]
      cases hp : prep j1 with
      | error e => exact h
      | ok j2 =>
        simp only
        obtain ⟨hg2, hid2⟩ := prep_good hw1 hp
        apply writeOr_inv
        refine ⟨h.dir, ?_, ?_, ?_, ?_, h.sent⟩
        · intro y hy
          simp only [List.mem_append, List.mem_singleton] at hy
          rcases hy with hy | rfl
          · exact h.good y hy
          · exact hg2
        · simp only [ids_append]
          cases hk : j2.id with
          | none => simpa [ids, hk] using h.nodup
          | some k =>
            have : ids [j2] = [k] := by simp [ids, hk]
            rw [this]
            apply nodup_snoc h.nodup
            exact hdup k (by rw [← hid, ← hid2, hk])
        · intro x hx
          simp only [ids_append, List.mem_append] at hx
          simp only
          rcases hx with hx | hx
          · have := h.lt x hx
            cases j1.id <;> simp only <;> omega
          · cases hk : j2.id with
            | none => simp [ids, hk] at hx
            | some k =>
              simp [ids, hk] at hx
              subst hx
              rw [← hid2, hk]
              simp only
              omega
        · intro x hx
          rcases h.surv x hx with hr | hm
          · exact .inl hr
          · exact .inr (by simp only [ids_append, List.mem_append]; exact .inl hm)
    unfold addRest
    cases kw with
    | none => exact key j rfl rfl
    | some x =>
      simp only
      cases hf : fillKw j x with
      | error e => exact h
      | ok jf =>
        simp only [Except.bind]
        cases hn : norm jf with
        | error e => exact h
        | ok j1 =>
          obtain ⟨a1, a2, -⟩ := norm_id_st hn
          obtain ⟨b1, b2⟩ := fillKw_id_st hf
          exact key j1 (a1.trans b1) (a2.trans b2)

/-! ### a body that is not made of JSON values is refused by `add` -/

theorem normCore_js {j j1 : Job} (h : normCore j = .ok j1) : j1.js = j.js := by
  unfold normCore at h
  cases hr : j.req with
  | none => simp [hr] at h
  | some r =>
    simp only [hr] at h
    split at h
    · cases h
    · cases h; rfl

theorem norm_js {j j1 : Job} (h : norm j = .ok j1) : j1.js = j.js := normCore_js (norm_ok h).2

theorem fillKw_js {j j1 : Job} {x : Nat} (h : fillKw j x = .ok j1) : j1.js = j.js ∧ j1.st = j.st := by
  unfold fillKw at h
  split at h
  · cases h
  · split at h
    · cases h; exact ⟨rfl, rfl⟩
    · split at h
      · split at h
        · cases h; exact ⟨rfl, rfl⟩
        · cases h
      · cases h

/-- saving a job that is not SUCCESS and whose body holds a value that is not JSON fails -/
theorem prep_not_json {j : Job} (hjs : j.js = false) (hs : j.st ≠ .success) : ∃ e, prep j = .error e := by
  unfold prep
  simp only [(isSuccess_false_iff _).2 hs, Bool.false_eq_true, if_false]
  cases hn : norm j with
  | error e => exact ⟨e, rfl⟩
  | ok j' =>
    have := norm_js hn
    rw [hjs] at this
    exact ⟨.typeError, by simp [this]⟩

/-- … and when nothing else is wrong with it, the error is `json.dumps`'s `TypeError` -/
theorem prep_not_json_typeError {j j' : Job} (hjs : j.js = false) (hs : j.st ≠ .success) (hn : norm j = .ok j') :
    prep j = .error .typeError := by
  unfold prep
  have := norm_js hn
  rw [hjs] at this
  simp [(isSuccess_false_iff _).2 hs, hn, this]

/-- `add` of such a job (repaired `add`): an exception, and the state — memory, file, server — is what it was -/
theorem addOp_not_json {s : State} (h : Inv s) {j : Job} (kw : Option Nat) (hjs : j.js = false)
    (hs : j.st ≠ .success) : ∃ e, addOp fixed s j kw = (s, .raised e) := by
  rw [addOp_eq]
  cases hd : dupCheck s j with
  | true => exact ⟨.valueError, by simp⟩
  | false =>
    simp only [Bool.false_eq_true, if_false]
    have key : ∀ j1 : Job, j1.js = false → j1.st ≠ .success →
        ∃ e, (let nx := match j1.id with | some k => max s.next (k + 1) | none => s.next
              if fixed.addFix then writeOr s { s with mem := s.mem ++ [j1], next := nx }
              else writeR { s with mem := s.mem ++ [j1], next := nx }) = (s, .raised e) := by
      intro j1 h1 h2
      have haf : fixed.addFix = true := rfl
      obtain ⟨e, he⟩ := prep_not_json h1 h2
      simp only [haf, if_true]
      rw [writeOr_snoc h.good j1 _ (fun j2 hp => by rw [he] at hp; cases hp), he]
      exact ⟨e, rfl⟩
    unfold addRest
    cases kw with
    | none => exact key j hjs hs
    | some x =>
      simp only
      cases hf : fillKw j x with
      | error e => exact ⟨e, rfl⟩
      | ok jf =>
        simp only [Except.bind]
        cases hn : norm jf with
        | error e => exact ⟨e, rfl⟩
        | ok j1 =>
          obtain ⟨a1, a2, -⟩ := norm_id_st hn
          obtain ⟨b1, b2⟩ := fillKw_js hf
          exact key j1 (by rw [norm_js hn, b1, hjs]) (by rw [a2, b2]; exact hs)

/-! ### `get_results` -/

theorem upd_upd (f g : Job → Job) : ∀ (l : List Job) (i : Nat), upd g (upd f l i) i = upd (fun j => g (f j)) l i
  | [], _ => by simp [upd]
  | _ :: _, 0 => by simp [upd]
  | _ :: js, i + 1 => by simp [upd, upd_upd f g js i]

/-- `l` is `l0` except that the status and the results cache of entry `i` may differ -/
def Near (i : Nat) (l0 l : List Job) : Prop :=
  ∃ f : Job → Job, (∀ j, ∃ x b, f j = { j with st := x, res := b }) ∧ l = upd f l0 i

theorem near_refl (i : Nat) (l : List Job) : Near i l l := by
  refine ⟨fun j => j, fun j => ⟨j.st, j.res, rfl⟩, ?_⟩
  have : ∀ (l : List Job) (i : Nat), l = upd (fun j => j) l i := by
    intro l
    induction l with
    | nil => intro i; simp [upd]
    | cons x xs ih => intro i; cases i with
      | zero => simp [upd]
      | succ k => simp only [upd]; rw [← ih k]
  exact this l i

theorem near_upd {i : Nat} {l0 l : List Job} (h : Near i l0 l) (g : Job → Job)
    (hg : ∀ j, ∃ x b, g j = { j with st := x, res := b }) : Near i l0 (upd g l i) := by
  obtain ⟨f, hf, rfl⟩ := h
  refine ⟨fun j => g (f j), fun j => ?_, upd_upd f g l0 i⟩
  obtain ⟨x, b, e⟩ := hf j
  obtain ⟨x', b', e'⟩ := hg (f j)
  exact ⟨x', b', by show g (f j) = _; rw [e', e]⟩

/-- same status at `i` ⇒ same file image -/
theorem near_same_image {i : Nat} {l0 l : List Job} (h : Near i l0 l)
    (hs : (l[i]?).map (·.st) = (l0[i]?).map (·.st)) : l.map toDict = l0.map toDict := by
  obtain ⟨f, hf, rfl⟩ := h
  apply map_toDict_upd
  intro j hj
  rw [upd_getElem?, hj] at hs
  obtain ⟨x, b, e⟩ := hf j
  simp only [Option.map_some, Option.some.injEq] at hs
  rw [e] at hs ⊢
  simp only at hs
  subst hs
  simp [toDict]

/-- updating entry `i` by a function that keeps identifier and well-formedness keeps everything but the file -/
theorem preinv_upd {s s' : State} (h : PreInv s) (i : Nat) (f : Job → Job)
    (hf : ∀ j, s.mem[i]? = some j → Good (f j)) (hid : ∀ j, (f j).id = j.id)
    (hmem : s'.mem = upd f s.mem i) (hdir : s'.dir = s.dir) (hnext : s'.next = s.next)
    (hsent : s'.sent = s.sent) (hiss : s'.issued = s.issued) (hret : s'.retired = s.retired) : PreInv s' := by
  refine h.of_mem hdir hnext hsent hiss hret ?_ ?_
  · intro y hy
    rw [hmem] at hy
    rcases mem_upd hy with hy | ⟨j, hj, rfl⟩
    · exact h.good y hy
    · exact hf j hj
  · rw [hmem]; exact ids_upd_same hid _ _

theorem good_setRes {j : Job} (h : Good j) (m : Bool) : Good (setRes fixed m j) := by
  have e : setRes fixed m j = { j with res := true } := by simp [setRes, fixed]
  rw [e]
  exact ⟨h.1, fun hs => ⟨by rw [norm_congr_res, (h.2 hs).1]; rfl, (h.2 hs).2⟩⟩

/-- the state in the middle of one `job.get_results()` on job `i`, entered in state `s0` -/
structure Mid (s0 s : State) (i : Nat) : Prop where
  pre : PreInv s
  near : Near i s0.mem s.mem
  disk : s.disk = s0.disk
  dir : s.dir = s0.dir
  next : s.next = s0.next
  sent : s.sent = s0.sent
  issued : s.issued = s0.issued
  retired : s.retired = s0.retired
  created : s.created = s0.created

theorem mid_refl {s : State} (h : Inv s) (i : Nat) : Mid s s i :=
  ⟨h.toPreInv, near_refl i s.mem, rfl, rfl, rfl, rfl, rfl, rfl, rfl⟩

theorem mid_script {s0 s : State} {i : Nat} (h : Mid s0 s i) (b : List Ans) (c : List Rsp) :
    Mid s0 { s with sts := b, rsps := c } i :=
  ⟨h.pre.of_mem rfl rfl rfl rfl rfl h.pre.good rfl, h.near, h.disk, h.dir, h.next, h.sent, h.issued, h.retired,
   h.created⟩

theorem mid_upd {s0 s : State} {i : Nat} (h : Mid s0 s i) (f : Job → Job)
    (hf : ∀ j, s.mem[i]? = some j → Good (f j)) (hid : ∀ j, (f j).id = j.id)
    (hg : ∀ j, ∃ x b, f j = { j with st := x, res := b }) (b : List Ans) (c : List Rsp) :
    Mid s0 { s with sts := b, rsps := c, mem := upd f s.mem i } i :=
  ⟨preinv_upd h.pre i f hf hid rfl rfl rfl rfl rfl rfl, near_upd h.near f hg, h.disk, h.dir, h.next, h.sent,
   h.issued, h.retired, h.created⟩

theorem query_mid {s0 s : State} {i : Nat} (h : Mid s0 s i) : Mid s0 (query s i).1 i := by
  unfold query
  cases hj : s.mem[i]? with
  | none => exact h
  | some j =>
    simp only
    split
    · rename_i hg
      simp only [Bool.and_eq_true, Bool.not_eq_true'] at hg
      have hns : j.st ≠ .success := by
        intro e; rw [e] at hg; simp [Status.completed] at hg
      cases hs : s.sts with
      | nil => exact h
      | cons a rest =>
        cases a with
        | fault e => exact mid_script h rest s.rsps
        | ignored => exact mid_script h rest s.rsps
        | intr => exact mid_script h rest s.rsps
        | st x =>
          refine mid_upd h (setSt x) ?_ (fun _ => rfl) (fun y => ⟨x, y.res, rfl⟩) rest s.rsps
          intro y hy; rw [hj] at hy; cases hy
          exact good_setSt (h.pre.good j (List.mem_of_getElem? hj)) hns hg.1 x
    · exact h

/-- the process stops in the middle: the file still is the image of the group as it was on entry -/
theorem mid_kill {s0 s : State} {i : Nat} (h0 : Inv s0) (h : Mid s0 s i) : Inv (kill fixed s).1 := by
  have e : (kill fixed s).1 =
      { s with dir := true, outs := [], sts := [], rsps := [], mem := reloadList s0.mem } := by
    simp [kill, construct, h.disk, h0.disk, reloadList, fixed]
  rw [e]
  exact h0.of_same h0.dir.symm h.next h.sent h.issued h.retired h.disk (reloadList_good h0.good)
    (reloadList_toDict h0.good)

/-- leaving `job.get_results()` (repaired code): a changed status is written, an unchanged one needs no write -/
theorem mid_finish {s0 s : State} {i : Nat} {j : Job} (h0 : Inv s0) (hj : s0.mem[i]? = some j) (h : Mid s0 s i)
    (r : Res) : Inv (finishGet fixed j.st s i r).1 := by
  unfold finishGet
  have hg : fixed.gstFix = true := rfl
  simp only [hg, Bool.true_and]
  split
  · simp only [write_ok h.pre]
    exact inv_written h.pre
  · rename_i hc
    simp only [decide_eq_true_eq, ne_eq, Classical.not_not] at hc
    refine ⟨h.pre, ?_⟩
    rw [h.disk, h0.disk]
    congr 1
    symm
    apply near_same_image h.near
    simp only [stAt] at hc
    rw [hc, hj]
    rfl

theorem fetch_inv {s0 s : State} {i : Nat} {j : Job} (h0 : Inv s0) (hj : s0.mem[i]? = some j) (h : Mid s0 s i) :
    Inv (fetch fixed j.st s i).1 := by
  unfold fetch
  cases hr : s.rsps with
  | nil => exact mid_kill h0 h
  | cons a rest =>
    cases a with
    | fault e => exact mid_finish h0 hj (mid_script h s.sts rest) _
    | unavailable => exact mid_finish h0 hj (mid_script h s.sts rest) _
    | ok m =>
      refine mid_finish h0 hj (s := { s with rsps := rest, mem := upd (setRes fixed m) s.mem i }) ?_ _
      have := mid_upd h (setRes fixed m) (fun y hy => good_setRes (h.pre.good y (List.mem_of_getElem? hy)) m)
        (fun _ => rfl) (fun y => ⟨y.st, true, by simp [setRes, fixed]⟩) s.sts rest
      exact this

theorem getOne_inv {s : State} (h : Inv s) (i : Nat) : Inv (getOne fixed s i).1 := by
  unfold getOne
  cases hj : s.mem[i]? with
  | none => exact h
  | some j =>
    simp only
    split
    · exact h
    · have hq := query_mid (mid_refl h i)
      generalize query s i = q at hq
      obtain ⟨s1, r1⟩ := q
      cases r1 with
      | killed => exact kill_inv h
      | raised e => exact mid_finish h hj hq _
      | ok =>
        simp only
        cases hj1 : s1.mem[i]? with
        | none => exact mid_finish h hj hq _
        | some j1 =>
          simp only
          split
          · exact mid_finish h hj hq _
          · split
            · have hq2 := query_mid hq
              generalize query s1 i = q2 at hq2
              obtain ⟨s2, r2⟩ := q2
              cases r2 with
              | killed => exact mid_kill h hq
              | raised e => exact mid_finish h hj hq2 _
              | ok =>
                simp only
                split
                · exact mid_finish h hj hq2 _
                · exact fetch_inv h hj hq2
            · exact fetch_inv h hj hq

theorem getIdx_inv : ∀ (is : List Nat) {s : State} (acc : List Nat), Inv s → Inv (getIdx fixed is s acc).1
  | [], _, _, h => h
  | i :: is, s, acc, h => by
    have h1 := getOne_inv h i
    unfold getIdx
    generalize getOne fixed s i = r at h1
    obtain ⟨s', res, b⟩ := r
    cases res with
    | ok => exact getIdx_inv is _ h1
    | raised e => exact h1
    | killed => exact h1

theorem getResultsOp_inv {s : State} (h : Inv s) : Inv (getResultsOp fixed s).1 := by
  have h1 := refreshAll_inv h
  unfold getResultsOp
  generalize refreshAll fixed s = r at h1
  obtain ⟨s', res⟩ := r
  cases res with
  | ok => exact getIdx_inv _ _ h1
  | raised e => exact h1
  | killed => exact h1

/-! ### `track_progress` -/

theorem trackLoop_inv : ∀ (fuel : Nat) {s : State}, Inv s → Inv (trackLoop fixed fuel s).1
  | 0, _, h => kill_inv h
  | fuel + 1, s, h => by
    have h1 := refreshAll_inv h
    unfold trackLoop
    generalize refreshAll fixed s = r at h1
    obtain ⟨s', res⟩ := r
    cases res with
    | ok =>
      simp only
      split
      · exact h1
      · split
        · exact h1.of_same rfl rfl rfl rfl rfl rfl h1.good rfl
        · exact trackLoop_inv fuel h1
    | raised e => exact h1
    | killed => exact h1

theorem trackOp_inv {s : State} (h : Inv s) : Inv (trackOp fixed s).1 := by
  have h1 := refreshAll_inv h
  unfold trackOp
  generalize refreshAll fixed s = r at h1
  obtain ⟨s', res⟩ := r
  cases res with
  | ok => exact trackLoop_inv _ h1
  | raised e => exact h1
  | killed => exact h1

/-! ### frame: what the status views (`progress`, `list_*`, `get_results`, `track_progress`) can change -/

/-- identifier and platform metadata of every job, in order -/
def shape (l : List Job) : List (Option Nat × Nat) := l.map (fun j => (j.id, j.hd))

/-- `s'` has the same jobs (identifiers, metadata, order), the same server counter and ghost records, the same
creation date as `s` — only statuses, caches and the bodies dropped on SUCCESS may differ -/
structure Frame (s s' : State) : Prop where
  shape : shape s'.mem = shape s.mem
  next : s'.next = s.next
  sent : s'.sent = s.sent
  issued : s'.issued = s.issued
  retired : s'.retired = s.retired
  created : s'.created = s.created

theorem Frame.refl (s : State) : Frame s s := ⟨rfl, rfl, rfl, rfl, rfl, rfl⟩

theorem Frame.trans {a b c : State} (h1 : Frame a b) (h2 : Frame b c) : Frame a c :=
  ⟨h2.shape.trans h1.shape, h2.next.trans h1.next, h2.sent.trans h1.sent, h2.issued.trans h1.issued,
   h2.retired.trans h1.retired, h2.created.trans h1.created⟩

theorem shape_upd {f : Job → Job} (hf : ∀ j, (f j).id = j.id ∧ (f j).hd = j.hd) : ∀ (l : List Job) (i : Nat),
    shape (upd f l i) = shape l
  | [], _ => by simp [upd]
  | j :: js, 0 => by simp [upd, shape, (hf j).1, (hf j).2]
  | j :: js, i + 1 => by
    have := shape_upd hf js i
    simp only [shape] at this
    simp [upd, shape, this]

theorem shape_reload (l : List Job) : shape (reloadList l) = shape l := by
  simp only [shape, reloadList, List.map_map]
  apply List.map_congr_left
  intro j _
  simp only [Function.comp]
  by_cases hs : j.st.isSuccess = true
  · cases hi : j.id <;> simp [fromDict, toDict, hs, hi] <;> split <;> simp
  · cases hi : j.id <;> simp [fromDict, toDict, hs, hi] <;> split <;> simp

theorem frame_kill {s : State} (h : Inv s) : Frame s (kill fixed s).1 := by
  simp only [kill, construct_eq h]
  exact ⟨shape_reload s.mem, rfl, rfl, rfl, rfl, rfl⟩

theorem frame_writeR {s : State} (h : PreInv s) : Frame s (writeR s).1 := by
  simp only [writeR, write_ok h]
  exact ⟨rfl, rfl, rfl, rfl, rfl, rfl⟩

theorem refreshOne_frame {s : State} (h : Inv s) (i : Nat) : Frame s (refreshOne fixed s i).1 := by
  unfold refreshOne
  cases hj : s.mem[i]? with
  | none => exact Frame.refl s
  | some j =>
    simp only
    split
    · rename_i hg
      simp only [Bool.and_eq_true, Bool.not_eq_true'] at hg
      have hns : j.st ≠ .success := by
        intro e; rw [e] at hg; simp [Status.completed] at hg
      have hi : ∀ y, s.mem[i]? = some y → y.id.isSome ∧ y.st ≠ .success := by
        intro y hy; rw [hj] at hy; cases hy; exact ⟨hg.1, hns⟩
      cases hs : s.sts with
      | nil => exact frame_kill h
      | cons a rest =>
        cases a with
        | fault e => exact ⟨rfl, rfl, rfl, rfl, rfl, rfl⟩
        | ignored => exact ⟨rfl, rfl, rfl, rfl, rfl, rfl⟩
        | intr => exact ⟨rfl, rfl, rfl, rfl, rfl, rfl⟩
        | st x =>
          simp only
          have hp : PreInv { s with sts := rest, mem := upd (setSt x) s.mem i } :=
            preinv_setSt h.toPreInv i x hi rfl rfl rfl rfl rfl rfl
          have hf : Frame s { s with sts := rest, mem := upd (setSt x) s.mem i } :=
            ⟨shape_upd (f := setSt x) (fun _ => ⟨rfl, rfl⟩) _ _, rfl, rfl, rfl, rfl, rfl⟩
          split
          · exact hf
          · exact hf.trans (frame_writeR hp)
    · exact Frame.refl s

theorem refreshIdx_frame : ∀ (is : List Nat) {s : State}, Inv s → Frame s (refreshIdx fixed is s).1
  | [], s, _ => Frame.refl s
  | i :: is, s, h => by
    have h1 := refreshOne_inv h i
    have f1 := refreshOne_frame h i
    unfold refreshIdx
    generalize refreshOne fixed s i = r at h1 f1
    obtain ⟨s', res⟩ := r
    cases res with
    | ok => exact f1.trans (refreshIdx_frame is h1)
    | raised e => exact f1
    | killed => exact f1

theorem refreshAll_frame {s : State} (h : Inv s) : Frame s (refreshAll fixed s).1 := refreshIdx_frame _ h

theorem near_shape {i : Nat} {l0 l : List Job} (h : Near i l0 l) : shape l = shape l0 := by
  obtain ⟨f, hf, rfl⟩ := h
  apply shape_upd
  intro j
  obtain ⟨x, b, e⟩ := hf j
  rw [e]
  exact ⟨rfl, rfl⟩

theorem mid_frame {s0 s : State} {i : Nat} (h : Mid s0 s i) : Frame s0 s :=
  ⟨near_shape h.near, h.next, h.sent, h.issued, h.retired, h.created⟩

theorem mid_kill_frame {s0 s : State} {i : Nat} (h0 : Inv s0) (h : Mid s0 s i) : Frame s0 (kill fixed s).1 := by
  have e : (kill fixed s).1 =
      { s with dir := true, outs := [], sts := [], rsps := [], mem := reloadList s0.mem } := by
    simp [kill, construct, h.disk, h0.disk, reloadList, fixed]
  rw [e]
  exact ⟨shape_reload s0.mem, h.next, h.sent, h.issued, h.retired, h.created⟩

theorem mid_finish_frame {s0 s : State} {i : Nat} (h : Mid s0 s i) (old : Status) (r : Res) :
    Frame s0 (finishGet fixed old s i r).1 := by
  unfold finishGet
  split
  · simp only [write_ok h.pre]
    exact ⟨near_shape h.near, h.next, h.sent, h.issued, h.retired, h.created⟩
  · exact mid_frame h

theorem fetch_frame {s0 s : State} {i : Nat} (h0 : Inv s0) (h : Mid s0 s i) (old : Status) :
    Frame s0 (fetch fixed old s i).1 := by
  unfold fetch
  cases hr : s.rsps with
  | nil => exact mid_kill_frame h0 h
  | cons a rest =>
    cases a with
    | fault e => exact mid_finish_frame (mid_script h s.sts rest) _ _
    | unavailable => exact mid_finish_frame (mid_script h s.sts rest) _ _
    | ok m =>
      refine mid_finish_frame (s := { s with rsps := rest, mem := upd (setRes fixed m) s.mem i }) ?_ _ _
      exact mid_upd h (setRes fixed m) (fun y hy => good_setRes (h.pre.good y (List.mem_of_getElem? hy)) m)
        (fun _ => rfl) (fun y => ⟨y.st, true, by simp [setRes, fixed]⟩) s.sts rest

theorem getOne_frame {s : State} (h : Inv s) (i : Nat) : Frame s (getOne fixed s i).1 := by
  unfold getOne
  cases hj : s.mem[i]? with
  | none => exact Frame.refl s
  | some j =>
    simp only
    split
    · exact Frame.refl s
    · have hq := query_mid (mid_refl h i)
      generalize query s i = q at hq
      obtain ⟨s1, r1⟩ := q
      cases r1 with
      | killed => exact frame_kill h
      | raised e => exact mid_finish_frame hq _ _
      | ok =>
        simp only
        cases hj1 : s1.mem[i]? with
        | none => exact mid_finish_frame hq _ _
        | some j1 =>
          simp only
          split
          · exact mid_finish_frame hq _ _
          · split
            · have hq2 := query_mid hq
              generalize query s1 i = q2 at hq2
              obtain ⟨s2, r2⟩ := q2
              cases r2 with
              | killed => exact mid_kill_frame h hq
              | raised e => exact mid_finish_frame hq2 _ _
              | ok =>
                simp only
                split
                · exact mid_finish_frame hq2 _ _
                · exact fetch_frame h hq2 _
            · exact fetch_frame h hq _

theorem getIdx_frame : ∀ (is : List Nat) {s : State} (acc : List Nat), Inv s → Frame s (getIdx fixed is s acc).1
  | [], s, _, _ => Frame.refl s
  | i :: is, s, acc, h => by
    have h1 := getOne_inv h i
    have f1 := getOne_frame h i
    unfold getIdx
    generalize getOne fixed s i = r at h1 f1
    obtain ⟨s', res, b⟩ := r
    cases res with
    | ok => exact f1.trans (getIdx_frame is _ h1)
    | raised e => exact f1
    | killed => exact f1

theorem getResultsOp_frame {s : State} (h : Inv s) : Frame s (getResultsOp fixed s).1 := by
  have h1 := refreshAll_inv h
  have f1 := refreshAll_frame h
  unfold getResultsOp
  generalize refreshAll fixed s = r at h1 f1
  obtain ⟨s', res⟩ := r
  cases res with
  | ok => exact f1.trans (getIdx_frame _ _ h1)
  | raised e => exact f1
  | killed => exact f1

theorem trackLoop_frame : ∀ (fuel : Nat) {s : State}, Inv s → Frame s (trackLoop fixed fuel s).1
  | 0, _, h => frame_kill h
  | fuel + 1, s, h => by
    have h1 := refreshAll_inv h
    have f1 := refreshAll_frame h
    unfold trackLoop
    generalize refreshAll fixed s = r at h1 f1
    obtain ⟨s', res⟩ := r
    cases res with
    | ok =>
      simp only
      split
      · exact f1
      · split
        · exact f1.trans ⟨rfl, rfl, rfl, rfl, rfl, rfl⟩
        · exact f1.trans (trackLoop_frame fuel h1)
    | raised e => exact f1
    | killed => exact f1

theorem trackOp_frame {s : State} (h : Inv s) : Frame s (trackOp fixed s).1 := by
  have h1 := refreshAll_inv h
  have f1 := refreshAll_frame h
  unfold trackOp
  generalize refreshAll fixed s = r at h1 f1
  obtain ⟨s', res⟩ := r
  cases res with
  | ok => exact f1.trans (trackLoop_frame _ h1)
  | raised e => exact f1
  | killed => exact f1

theorem frame_script (s : State) (a : List Outcome) (b : List Ans) (c : List Rsp) :
    Frame s { s with outs := a, sts := b, rsps := c } := ⟨rfl, rfl, rfl, rfl, rfl, rfl⟩

/-! ### deletion -/

theorem wipeOp_eq (s : State) (now : Nat) :
    wipeOp fixed s now =
      ({ s with dir := true, outs := [], sts := [], rsps := [], mem := [], disk := some [], clock := now,
                created := now, retired := s.issued ++ s.retired }, .ok) := by
  simp [wipeOp, construct, writeR, write, saveAll, fixed]

theorem wipeOp_inv {s : State} (h : Inv s) (now : Nat) : Inv (wipeOp fixed s now).1 := by
  rw [wipeOp_eq]
  refine ⟨⟨rfl, by simp, by simp [ids], by simp [ids], ?_, h.sent⟩, rfl⟩
  intro k hk
  exact .inl (List.mem_append_left _ hk)

theorem deleteDateOp_inv {s : State} (h : Inv s) (cutoff now : Nat) : Inv (deleteDateOp fixed s cutoff now).1 := by
  unfold deleteDateOp
  split
  · exact wipeOp_inv h now
  · exact construct_inv (h.of_same rfl rfl rfl rfl rfl rfl h.good rfl)

/-! ### every operation, every server outcome, every stopping point -/

theorem clearScript_inv {s : State} (h : Inv s) : Inv (clearScript s) := inv_script3 h [] [] []

theorem step_inv {s : State} (h : Inv s) {op : Op} (hw : WFOp op) : Inv (step fixed s op).1 := by
  cases op with
  | reopen => exact clearScript_inv (construct_inv h)
  | add j kw => exact clearScript_inv (addOp_inv (clearScript_inv h) hw kw)
  | addLocal => exact clearScript_inv h
  | launch rr rp sq outs sts => exact clearScript_inv (launchOp_inv (inv_script h outs sts) rr rp sq)
  | progress sts => exact clearScript_inv (refreshAll_inv (inv_script h [] sts))
  | list k sts =>
    simp only [step]
    split
    · exact clearScript_inv (clearScript_inv h)
    · exact clearScript_inv (refreshAll_inv (inv_script h [] sts))
  | getResults sts rsps => exact clearScript_inv (getResultsOp_inv (inv_script3 h [] sts rsps))
  | track sts => exact clearScript_inv (trackOp_inv (inv_script3 h [] sts []))
  | wipe now => exact clearScript_inv (wipeOp_inv (clearScript_inv h) now)
  | deleteDate c now => exact clearScript_inv (deleteDateOp_inv (clearScript_inv h) c now)
  | other => exact clearScript_inv h

/-- `JobGroup(name)` in a fresh data directory (with or without the `job_group` sub-directory) -/
theorem create_inv (dir : Bool) : Inv (create fixed dir) := by
  have e : create fixed dir = { init dir with dir := true, disk := some [] } := by
    cases dir <;> rfl
  rw [e]
  exact ⟨⟨rfl, by simp [init], by simp [init, ids], by simp [init, ids], by simp [init], by simp [init]⟩, rfl⟩

theorem exec_inv (dir : Bool) (ops : List Op) (hw : ∀ op ∈ ops, WFOp op) :
    Inv (exec (step fixed) (create fixed dir) ops) :=
  inv_exec_of (step fixed) WFOp Inv (fun _ _ hop hi => step_inv hi hop) _ (create_inv dir) ops hw

/-! ### consequences of the invariant used by the property theorems -/

/-- identifiers of the entries of the file -/
def diskIds (s : State) : List Nat := (s.disk.getD []).filterMap (·.id)

theorem diskIds_eq {s : State} (h : Inv s) : diskIds s = ids s.mem := by
  simp [diskIds, h.disk, ids, List.filterMap_map, Function.comp_def, toDict]

theorem reload_eq {s : State} (h : Inv s) : reload fixed s = reloadList s.mem := by
  simp [reload, construct_eq h]

theorem fromDict_req {j : Job} (hs : j.st ≠ .success) :
    (fromDict fixed (toDict j)).req = j.req ∧ (fromDict fixed (toDict j)).id = j.id ∧
      (fromDict fixed (toDict j)).st ≠ .success := by
  have hs' := (isSuccess_false_iff _).2 hs
  cases hi : j.id with
  | none => simp [toDict, fromDict, hs', hi]
  | some k => simp [toDict, fromDict, hs', hi, hs]

theorem reloadList_getElem? (l : List Job) (i : Nat) :
    (reloadList l)[i]? = (l[i]?).map (fun j => fromDict fixed (toDict j)) := by
  simp [reloadList, List.getElem?_map, Function.comp_def]

/-! ### the progress cascade -/

theorem classify_lt (j : Job) : classify j < 4 := by
  unfold classify
  split
  · omega
  · split
    · omega
    · split <;> omega

theorem countClass_cons (j : Job) (l : List Job) (c : Nat) :
    countClass (j :: l) c = (if classify j = c then 1 else 0) + countClass l c := by
  simp only [countClass, List.filter_cons]
  by_cases h : classify j = c
  · simp [h]; omega
  · simp [h]

theorem classes_partition : ∀ l : List Job,
    countClass l 0 + countClass l 1 + countClass l 2 + countClass l 3 = l.length
  | [] => rfl
  | j :: l => by
    have ih := classes_partition l
    have h4 : classify j = 0 ∨ classify j = 1 ∨ classify j = 2 ∨ classify j = 3 := by
      have := classify_lt j; omega
    simp only [countClass_cons, List.length_cons]
    rcases h4 with h | h | h | h <;> simp [h] <;> omega

/-! ### file primitives: a coherent choice of paths is a store keyed by the file name -/
namespace FS
open PM.SM

/-- the directory seen through `k.full` is the name-keyed store `a` -/
def Sim (k : Paths) (s a : Store) : Prop := ∀ n, s (k.full n) = a n

theorem sim_step {k : Paths} (hk : Coherent k) (s a : Store) (op : Op) (h : Sim k s a) :
    Sim k (step k s op).1 (step real a op).1 ∧ (step k s op).2 = (step real a op).2 := by
  obtain ⟨hl, hinj⟩ := hk
  have hhas : ∀ n, hasFile k s n = hasFile real a n := by
    intro n; simp [hasFile, hl, h n, real]
  have hread : ∀ n, readFile k s n = readFile real a n := by
    intro n; simp [readFile, h n, real]
  have hwrite : ∀ n c, Sim k (writeFile k s n c) (writeFile real a n c) := by
    intro n c m
    simp only [writeFile, real, id]
    by_cases e : m = n
    · subst e; simp
    · have : k.full m ≠ k.full n := fun he => e (hinj _ _ he)
      simp [e, this, h m]
  cases op with
  | write n c => exact ⟨hwrite n c, rfl⟩
  | delete n =>
    refine ⟨?_, rfl⟩
    intro m
    simp only [step, deleteFile, real, id]
    by_cases e : m = n
    · subst e; simp
    · have : k.full m ≠ k.full n := fun he => e (hinj _ _ he)
      simp [e, this, h m]
  | read n => exact ⟨h, by simp [step, hread]⟩
  | has n => exact ⟨h, by simp [step, hhas]⟩
  | openGroup n =>
    simp only [step, hhas n]
    by_cases e : hasFile real a n = true
    · simp [e, h, hread]
    · simp [e, hwrite n 0]

theorem sim_empty (k : Paths) : Sim k empty empty := fun _ => rfl

theorem real_coherent : Coherent real := ⟨fun _ => rfl, fun _ _ h => h⟩

end FS

/-! ### the directory of group files: listing and deletion -/
namespace NS
open PM.SM

theorem lookup_put_self : ∀ (d : Dir) (p : Nat) (c : Content), lookup (put d p c) p = some c
  | [], p, c => by simp [put, lookup]
  | (q, c') :: d, p, c => by
    by_cases h : q = p
    · simp [put, lookup, h]
    · simp [put, lookup, h, lookup_put_self d p c]

theorem lookup_put_ne : ∀ (d : Dir) (p q : Nat) (c : Content), q ≠ p → lookup (put d p c) q = lookup d q
  | [], p, q, c, h => by simp [put, lookup, Ne.symm h]
  | (r, c') :: d, p, q, c, h => by
    by_cases hr : r = p
    · subst hr
      simp [put, lookup, Ne.symm h]
    · by_cases hq : r = q
      · subst hq
        simp [put, lookup, hr]
      · simp [put, lookup, hr, hq, lookup_put_ne d p q c h]

theorem lookup_remove_self : ∀ (d : Dir) (p : Nat), lookup (remove d p) p = none
  | [], p => rfl
  | (q, c) :: d, p => by
    have ih := lookup_remove_self d p
    by_cases h : q = p
    · simp [remove, h, ih]
    · simp [remove, h, lookup, ih]

theorem lookup_remove_ne : ∀ (d : Dir) (p q : Nat), q ≠ p → lookup (remove d p) q = lookup d q
  | [], p, q, _ => rfl
  | (r, c) :: d, p, q, h => by
    have ih := lookup_remove_ne d p q h
    by_cases hr : r = p
    · subst hr
      simp [remove, lookup, Ne.symm h, ih]
    · by_cases hq : r = q
      · subst hq
        simp [remove, hr, lookup]
      · simp [remove, hr, lookup, hq, ih]

theorem mem_of_lookup : ∀ {d : Dir} {p : Nat} {c : Content}, lookup d p = some c → (p, c) ∈ d
  | [], _, _, h => by simp [lookup] at h
  | (q, c') :: d, p, c, h => by
    by_cases hq : q = p
    · simp [lookup, hq] at h
      simp [hq, h]
    · simp [lookup, hq] at h
      exact List.mem_cons_of_mem _ (mem_of_lookup h)

theorem lookup_isSome_of_mem : ∀ {d : Dir} {e : Nat × Content}, e ∈ d → (lookup d e.1).isSome = true
  | [], _, h => by simp at h
  | (q, c') :: d, e, h => by
    by_cases hq : q = e.1
    · simp [lookup, hq]
    · simp only [List.mem_cons] at h
      rcases h with rfl | h
      · exact absurd rfl hq
      · simp [lookup, hq, lookup_isSome_of_mem h]

/-- every entry of the directory is the file of some name -/
def Named (k : Paths) (d : Dir) : Prop := ∀ e ∈ d, ∃ n, e.1 = k.full n

theorem named_put {k : Paths} : ∀ {d : Dir}, Named k d → ∀ (n : Nat) (c : Content), Named k (put d (k.full n) c)
  | [], _, n, c => by
    intro e he
    simp [put] at he
    exact ⟨n, by rw [he]⟩
  | (q, c') :: d, h, n, c => by
    intro e he
    by_cases hq : q = k.full n
    · simp [put, hq] at he
      rcases he with rfl | he
      · exact ⟨n, rfl⟩
      · exact h e (List.mem_cons_of_mem _ he)
    · simp [put, hq] at he
      rcases he with rfl | he
      · exact h _ (by simp)
      · exact named_put (fun x hx => h x (List.mem_cons_of_mem _ hx)) n c e he

theorem mem_remove : ∀ {d : Dir} {p : Nat} {e : Nat × Content}, e ∈ remove d p → e ∈ d
  | [], _, _, h => by simp [remove] at h
  | (q, c) :: d, p, e, h => by
    by_cases hq : q = p
    · simp only [remove, hq, if_true] at h
      exact List.mem_cons_of_mem _ (mem_remove h)
    · simp only [remove, hq, if_false, List.mem_cons] at h
      rcases h with rfl | h
      · simp
      · exact List.mem_cons_of_mem _ (mem_remove h)

theorem named_remove {k : Paths} {d : Dir} (h : Named k d) (p : Nat) : Named k (remove d p) :=
  fun e he => h e (mem_remove he)

theorem named_foldl_delete {k : Paths} : ∀ (ns : List Nat) {d : Dir}, Named k d → Named k (ns.foldl (deleteFile k) d)
  | [], _, h => h
  | n :: ns, _, h => named_foldl_delete ns (named_remove h _)

theorem lookup_foldl_delete (k : Paths) : ∀ (ns : List Nat) (d : Dir) (p : Nat),
    lookup (ns.foldl (deleteFile k) d) p = if p ∈ ns.map k.full then none else lookup d p
  | [], d, p => by simp
  | n :: ns, d, p => by
    simp only [List.foldl_cons, List.map_cons, List.mem_cons]
    rw [lookup_foldl_delete k ns (deleteFile k d n) p]
    by_cases h1 : p ∈ ns.map k.full
    · simp [h1]
    · by_cases h2 : p = k.full n
      · subst h2
        simp [h1, deleteFile, lookup_remove_self]
      · simp [h1, h2, deleteFile, lookup_remove_ne _ _ _ h2]

theorem hasFile_eq {k : Paths} (hk : Coherent k) (d : Dir) (n : Nat) : hasFile k d n = (readFile k d n).isSome := by
  simp [hasFile, readFile, hk.1 n]

/-- `list_existing` returns exactly the names that have a file -/
theorem mem_listExisting {k : Paths} (hk : Coherent k) {d : Dir} (hd : Named k d) (n : Nat) :
    n ∈ listExisting k d ↔ hasFile k d n = true := by
  rw [hasFile_eq hk]
  constructor
  · intro h
    simp only [listExisting, List.mem_filterMap] at h
    obtain ⟨e, he, hu⟩ := h
    obtain ⟨m, hm⟩ := hd e he
    rw [hm, hk.2.2 m] at hu
    cases hu
    have := lookup_isSome_of_mem he
    rw [hm] at this
    exact this
  · intro h
    cases hc : readFile k d n with
    | none => simp [hc] at h
    | some c =>
      simp only [listExisting, List.mem_filterMap]
      exact ⟨(k.full n, c), mem_of_lookup hc, hk.2.2 n⟩

theorem openGroup_existing {k : Paths} (hk : Coherent k) {d : Dir} {n : Nat} (now : Nat)
    (h : hasFile k d n = true) : openGroup k d n now = (d, readFile k d n) := by
  simp [openGroup, h]

theorem scan_spec {k : Paths} (hk : Coherent k) (cutoff now : Nat) : ∀ (ns : List Nat) (d : Dir) (acc : List Nat),
    (∀ n ∈ ns, hasFile k d n = true) →
    scanDates k cutoff now ns d acc =
      (d, some (acc ++ ns.filter (fun n => match readFile k d n with
                                            | some c => decide (c.created < cutoff)
                                            | none => false)))
  | [], d, acc, _ => by simp [scanDates]
  | n :: ns, d, acc, h => by
    have hn := h n (by simp)
    have hr := hn
    rw [hasFile_eq hk] at hr
    cases hc : readFile k d n with
    | none => simp [hc] at hr
    | some c =>
      simp only [scanDates, openGroup_existing hk now hn, hc]
      rw [scan_spec hk cutoff now ns d _ (fun m hm => h m (by simp [hm]))]
      by_cases hlt : c.created < cutoff
      · simp [List.filter, hc, hlt]
      · simp [List.filter, hc, hlt]

/-- what `delete_job_groups_date` leaves: it returns normally, a group created before the cut-off is gone, every
other group file is untouched, and no file appears -/
theorem deleteDate_spec {k : Paths} (hk : Coherent k) {d : Dir} (hd : Named k d) (cutoff now : Nat) :
    (deleteDate k d cutoff now).2 = true ∧
    ∀ n, readFile k (deleteDate k d cutoff now).1 n =
      (match readFile k d n with
       | some c => if c.created < cutoff then none else some c
       | none => none) := by
  unfold deleteDate
  rw [scan_spec hk cutoff now _ d [] (fun n hn => (mem_listExisting hk hd n).1 hn)]
  refine ⟨rfl, fun n => ?_⟩
  simp only [List.nil_append]
  show lookup _ (k.full n) = _
  rw [lookup_foldl_delete]
  cases hc : readFile k d n with
  | none =>
    have hc' : lookup d (k.full n) = none := hc
    simp [hc']
  | some c =>
    have hc' : lookup d (k.full n) = some c := hc
    have hl : n ∈ listExisting k d := (mem_listExisting hk hd n).2 (by rw [hasFile_eq hk]; simp [hc])
    by_cases hlt : c.created < cutoff
    · have : k.full n ∈ List.map k.full (List.filter (fun n => match readFile k d n with
          | some c => decide (c.created < cutoff) | none => false) (listExisting k d)) := by
        apply List.mem_map_of_mem
        simp [List.mem_filter, hl, hc, hlt]
      rw [if_pos this]
      simp [hlt]
    · have : k.full n ∉ List.map k.full (List.filter (fun n => match readFile k d n with
          | some c => decide (c.created < cutoff) | none => false) (listExisting k d)) := by
        intro hm
        simp only [List.mem_map, List.mem_filter] at hm
        obtain ⟨m, ⟨_, hm2⟩, hm3⟩ := hm
        have := hk.2.1 _ _ hm3
        subst this
        simp [hc, hlt] at hm2
      rw [if_neg this, hc']
      simp [hlt]

/-- `delete_all_job_groups` leaves no file at all -/
theorem deleteAll_lookup {k : Paths} (hk : Coherent k) {d : Dir} (hd : Named k d) (p : Nat) :
    lookup (deleteAll k d) p = none := by
  unfold deleteAll
  rw [lookup_foldl_delete]
  split
  · rfl
  · rename_i hp
    cases hc : lookup d p with
    | none => rfl
    | some c =>
      exfalso
      obtain ⟨n, hn⟩ := hd _ (mem_of_lookup hc)
      simp only at hn
      apply hp
      rw [hn]
      apply List.mem_map_of_mem
      apply (mem_listExisting hk hd n).2
      rw [hasFile_eq hk]
      simp [readFile, ← hn, hc]

theorem eq_nil_of_lookup_none : ∀ {d : Dir}, (∀ p, lookup d p = none) → d = []
  | [], _ => rfl
  | (q, c) :: d, h => by
    have := h q
    simp [lookup] at this

theorem named_openGroup {k : Paths} {d : Dir} (hd : Named k d) (n now : Nat) : Named k (openGroup k d n now).1 := by
  unfold openGroup
  split
  · exact hd
  · exact named_put hd n _

theorem named_scan {k : Paths} (cutoff now : Nat) : ∀ (ns : List Nat) {d : Dir} (acc : List Nat), Named k d →
    Named k (scanDates k cutoff now ns d acc).1
  | [], _, _, h => h
  | n :: ns, d, acc, h => by
    have h1 := named_openGroup h n now
    unfold scanDates
    generalize openGroup k d n now = r at h1
    obtain ⟨d1, c⟩ := r
    cases c with
    | none => exact h1
    | some c => exact named_scan cutoff now ns _ h1

theorem named_step {k : Paths} {d : Dir} (hd : Named k d) (op : Op) : Named k (step k d op).1 := by
  cases op with
  | «open» n now => exact named_openGroup hd n now
  | save n data now =>
    have h1 := named_openGroup hd n now
    simp only [step, saveGroup]
    generalize openGroup k d n now = r at h1
    obtain ⟨d1, c⟩ := r
    cases c with
    | none => exact h1
    | some c => exact named_put h1 n _
  | has n => exact hd
  | list => exact hd
  | delete n => exact named_remove hd _
  | deleteAll => exact named_foldl_delete _ hd
  | deleteDate c now =>
    have h1 := named_scan (k := k) c now (listExisting k d) [] hd
    simp only [step, deleteDate]
    generalize scanDates k c now (listExisting k d) d [] = r at h1
    obtain ⟨d1, o⟩ := r
    cases o with
    | none => exact h1
    | some dels => exact named_foldl_delete dels h1

theorem named_exec (k : Paths) (ops : List Op) : Named k (exec (step k) [] ops) :=
  inv_exec (step k) (Named k) (fun _ op h => named_step h op) [] (fun _ h => by simp at h) ops

theorem real_coherent : Coherent real := ⟨fun _ => rfl, fun _ _ h => h, fun _ => rfl⟩

end NS

end PM.C19
