/-
  C20 — the heralded CNOT (Knill) exactly as the catalog builds it
  (`perceval/components/core_catalog/heralded_cnot.py`): `Circuit(6).add(2, BS.H()).add(0, heralded_cz circuit,
  merge=True).add(2, BS.H())`, control pair on modes 0,1, data pair on modes 2,3, heralds `4:1`, `5:1`
  (the layout of the heralded CZ, `hczLayout`), NO post-selection.  `BS.H()` is `bsH h h` with `2·h·h = 1`.

  * `noLeak_of_localOn_pair`: a circuit that is the identity outside ONE qubit pair (every one-qubit gate of a
    converted processor) is heralded: it never leaves the logical space (any commutative ring).
  * `hData_*`: the Hadamard beam splitter on the data pair of `hczLayout`: local, heralded, table `1 • (I ⊗ H)`.
  * `hcnot_table`, `hcnot_noLeak`, `hcnot_localOn`: the circuit has the logical table `(2hr·r²) • CNOT`
    (success probability `2/27`, `hcz_scalar_sq`), reaches no herald-satisfying non-logical state, and is the
    identity on mode 0.  These are obtained from the heralded CZ (`hcz_gateImpl_ok`) by the composition theorem
    for heralded gates (`heralded_circuit_implements`), hence for `[Field R] [CharZero R]` (ℝ, ℂ, …) — the
    statements for the CZ itself hold over every commutative ring.
  * `hcnot_amp_tt`, `hcnot_gateImpl_ok`: the forms used to place the gate in a processor.
-/
import PercevalModel.Lemmas.C20HeraldedCz
import PercevalModel.Lemmas.C20Place

open Matrix

namespace PM.C20
open PM.Fock PM.SimSpec

variable {R : Type*}

/-! ### one-qubit gates never leak -/

theorem sum_filter_pair {m : ℕ} (p : ℕ) (hp : p + 1 < m) (f : ℕ → ℕ) :
    ∑ k : Fin m with k.val ∈ [p, p + 1], f k.val = f p + f (p + 1) := by
  have hset : (Finset.univ.filter fun k : Fin m => k.val ∈ [p, p + 1]) =
      {(⟨p, by omega⟩ : Fin m), (⟨p + 1, hp⟩ : Fin m)} := by
    ext k
    simp only [Finset.mem_filter, Finset.mem_univ, true_and, List.mem_cons, List.not_mem_nil, or_false,
      Finset.mem_insert, Finset.mem_singleton, Fin.ext_iff]
  rw [hset, Finset.sum_pair (by simp [Fin.ext_iff])]

/-- **a one-qubit gate is heralded**: a circuit that is the identity outside the two rails of one qubit never
sends a logical state to a non-logical one -/
theorem noLeak_of_localOn_pair [CommRing R] (L : Layout) (hok : L.ok = true) (p : ℕ) (hp : p ∈ L.qubits)
    {A : Matrix (Fin L.m) (Fin L.m) R} (hA : LocalOn [p, p + 1] A) : NoLeak L A := by
  intro bi hbi u hul _ hlog
  by_contra hne
  have hcnt := pamp_local_count hA (encode L bi) u (encode_length L bi) hul hne
  have hpm : p + 1 < L.m := ((ok_iff L).1 hok).1 _
    (List.mem_append_left _ (List.mem_flatMap.2 ⟨p, hp, by simp⟩))
  rw [sum_filter_pair p hpm (fun k => u.getD k 0), sum_filter_pair p hpm (fun k => (encode L bi).getD k 0)]
    at hcnt
  have hall : isLogical L u = true := by
    unfold isLogical pairCounts
    rw [List.all_eq_true]
    intro x hx
    obtain ⟨q, hq, rfl⟩ := List.mem_map.1 hx
    rw [beq_iff_eq]
    obtain ⟨β, hβ⟩ := exists_mem_zip L.qubits bi hbi q hq
    have hpair := encode_pair L hok bi q β hβ
    by_cases hqp : q = p
    · subst hqp
      omega
    · have h0 : q ∉ [p, p + 1] := by
        intro hm
        rcases List.mem_cons.1 hm with h | h
        · exact hqp h
        · rw [List.mem_singleton] at h
          exact hqp (rail_inj L hok q p hq hp false true (by rw [rail_false, rail_true, h]))
      have h1 : q + 1 ∉ [p, p + 1] := by
        intro hm
        rcases List.mem_cons.1 hm with h | h
        · exact hqp (rail_inj L hok q p hq hp true false (by rw [rail_false, rail_true, h]))
        · rw [List.mem_singleton] at h
          exact hqp (by omega)
      rw [pamp_local_eq hA _ _ (encode_length L bi) hul hne q h0,
        pamp_local_eq hA _ _ (encode_length L bi) hul hne (q + 1) h1]
      exact hpair
  rw [hall] at hlog
  exact absurd hlog (by simp)

/-! ### the Hadamard beam splitter on the data pair of the heralded-CZ layout -/

section ring
variable [CommRing R]

/-- `I ⊗ (h·[[1,1],[1,−1]])`: Hadamard on the data qubit, basis order `00, 01, 10, 11` -/
def hDataGate (h : R) : Matrix (Fin 4) (Fin 4) R := !![h, h, 0, 0; h, -h, 0, 0; 0, 0, h, h; 0, 0, h, -h]

theorem hData_localOn (h : R) : LocalOn [2, 3] (embed 6 2 (bsH h h)) := by
  rw [embed_bs2]
  intro i j hij
  revert hij
  fin_cases i <;> fin_cases j <;> simp

theorem hData_noLeak (h : R) : NoLeak hczLayout (embed 6 2 (bsH h h)) :=
  noLeak_of_localOn_pair hczLayout hczLayout_ok 2 (by decide) (hData_localOn h)

theorem hData_amp_off (h : R) (a b c d : Bool) (hne : a ≠ c) :
    pamp (embed 6 2 (bsH h h)) (encode hczLayout [c, d]) (encode hczLayout [a, b]) = 0 := by
  by_contra h0
  have h1 := pamp_local_eq (hData_localOn h) _ _ (encode_length hczLayout [c, d])
    (encode_length hczLayout [a, b]) h0 0 (by decide)
  rw [enc_hcz, enc_hcz] at h1
  apply hne
  revert h1
  cases a <;> cases c <;> simp

theorem hData_amp_ff (h : R) (b d : Bool) :
    pamp (embed 6 2 (bsH h h)) (encode hczLayout [false, d]) (encode hczLayout [false, b]) =
      if b && d then -h else h := by
  rw [enc_hcz, enc_hcz, embed_bs2]
  cases b <;> cases d <;>
    (rw [hcz_pamp _ _ _ (by decide)]
     simp [permRec, List.range_succ, List.eraseIdx, expand, expandFrom, entry])

theorem hData_amp_tt (h : R) (b d : Bool) :
    pamp (embed 6 2 (bsH h h)) (encode hczLayout [true, d]) (encode hczLayout [true, b]) =
      if b && d then -h else h := by
  rw [enc_hcz, enc_hcz, embed_bs2]
  cases b <;> cases d <;>
    (rw [hcz_pamp _ _ _ (by decide)]
     simp [permRec, List.range_succ, List.eraseIdx, expand, expandFrom, entry])

theorem hData_amp (h : R) (a b c d : Bool) :
    gateAmp (embed 6 2 (bsH h h)) hczLayout PS.tt [a, b] [c, d] =
      if a = c then (if b && d then -h else h) else 0 := by
  unfold gateAmp
  rw [if_pos (by rfl)]
  by_cases hac : a = c
  · subst hac
    rw [if_pos rfl]
    cases a
    · exact hData_amp_ff h b d
    · exact hData_amp_tt h b d
  · rw [if_neg hac]
    exact hData_amp_off h a b c d hac

theorem hData_table (h : R) :
    (gateTable (embed 6 2 (bsH h h)) hczLayout PS.tt : Matrix (Fin 4) (Fin 4) R) = (1 : R) • hDataGate h := by
  have key : ∀ i j : Fin 4, (gateTable (embed 6 2 (bsH h h)) hczLayout PS.tt : Matrix (Fin 4) (Fin 4) R) i j =
      ((1 : R) • hDataGate h) i j := by
    intro i j
    fin_cases i <;> fin_cases j <;>
      (refine (hData_amp h _ _ _ _).trans ?_
       simp [hDataGate])
  exact Matrix.ext key

/-- `(I ⊗ H) · CZ · (I ⊗ H) = CNOT` when `2h² = 1` -/
theorem hData_cz_hData (h : R) (hh : 2 * h * h = 1) :
    hDataGate h * (czGate * hDataGate h) = (cnotGate : Matrix (Fin 4) (Fin 4) R) := by
  ext i j
  fin_cases i <;> fin_cases j <;>
    simp [hDataGate, czGate, cnotGate, Matrix.mul_apply, Fin.sum_univ_four] <;>
    linear_combination hh

/-- `HeraldedCnotItem.build_circuit`: `BS.H()` on modes 2,3; the heralded CZ circuit; `BS.H()` on modes 2,3 -/
def hcnotCircuit (r h c2 s2 : R) : Matrix (Fin 6) (Fin 6) R :=
  embed 6 2 (bsH h h) * (hczCircuit r h c2 s2 * embed 6 2 (bsH h h))

end ring

/-! ### the heralded CNOT through the composition theorem for heralded gates -/

section field
variable [Field R] [CharZero R]

/-- the three components as heralded gate implementations on `hczLayout` -/
def hcnotParts (r h c2 s2 : R) : List (GateImpl hczLayout R) :=
  [⟨[2, 3], embed 6 2 (bsH h h), (hDataGate h : Matrix (Fin 4) (Fin 4) R), 1⟩,
   hczImpl r h c2 s2,
   ⟨[2, 3], embed 6 2 (bsH h h), (hDataGate h : Matrix (Fin 4) (Fin 4) R), 1⟩]

theorem hcnot_parts_spec (r h c2 s2 : R) (hr : 3 * r * r = 1) (hh : 2 * h * h = 1)
    (hc : 6 * c2 * c2 = 3 + 6 * h * r) (hs : 6 * s2 * s2 = 3 - 6 * h * r) (hcs : 2 * c2 * s2 = r) :
    (gateTable (hcnotCircuit r h c2 s2) hczLayout PS.tt : Matrix (Fin 4) (Fin 4) R) =
        (2 * h * r * (r * r)) • cnotGate ∧
      NoLeak hczLayout (hcnotCircuit r h c2 s2) := by
  have hH : (⟨[2, 3], embed 6 2 (bsH h h), (hDataGate h : Matrix (Fin 4) (Fin 4) R), 1⟩ :
      GateImpl hczLayout R).Ok PS.tt := ⟨hData_localOn h, hData_noLeak h, hData_table h⟩
  have key := heralded_circuit_implements hczLayout hczLayout_ok (by decide) PS.tt (fun _ _ => rfl)
    (hcnotParts r h c2 s2)
    (by
      intro g hg
      simp only [hcnotParts, List.mem_cons, List.not_mem_nil, or_false] at hg
      rcases hg with rfl | rfl | rfl
      · exact hH
      · exact hcz_gateImpl_ok r h c2 s2 hr hh hc hs hcs
      · exact hH)
    (by
      simp only [hcnotParts, hczImpl, List.pairwise_cons, List.mem_cons, List.not_mem_nil, or_false,
        forall_eq_or_imp, forall_eq, List.Pairwise.nil, and_true, IsEmpty.forall_iff, implies_true]
      decide)
  have hmat : PM.C02.circuitMatrix ((hcnotParts r h c2 s2).map (·.U)) = hcnotCircuit r h c2 s2 := by
    unfold hcnotParts hczImpl PM.C02.circuitMatrix hcnotCircuit
    simp only [List.map, List.foldl, hczCircuit_eq r h c2 s2 hh]
    show embed 6 2 (bsH h h) * (hczMatrix r h c2 s2 * (embed 6 2 (bsH h h) * (1 : Matrix (Fin 6) (Fin 6) R))) = _
    rw [Matrix.mul_one]
  rw [hmat] at key
  refine ⟨?_, key.2⟩
  have h1 := key.1
  simp only [hcnotParts, hczImpl, List.map_cons, List.map_nil, List.prod_cons, List.prod_nil, List.foldl_cons,
    List.foldl_nil, mul_one, one_mul] at h1
  have h2 : (hDataGate h * (czGate * (hDataGate h * 1)) : Matrix (Fin 4) (Fin 4) R) = cnotGate := by
    rw [mul_one]; exact hData_cz_hData h hh
  exact h1.trans (congrArg (fun M : Matrix (Fin 4) (Fin 4) R => (2 * h * r * (r * r)) • M) h2)

/-- **heralded CNOT**: logical table exactly `(2hr·r²) • CNOT` — success probability `2/27` on every logical
input (`hcz_scalar_sq`), no post-selection -/
theorem hcnot_table (r h c2 s2 : R) (hr : 3 * r * r = 1) (hh : 2 * h * h = 1)
    (hc : 6 * c2 * c2 = 3 + 6 * h * r) (hs : 6 * s2 * s2 = 3 - 6 * h * r) (hcs : 2 * c2 * s2 = r) :
    (gateTable (hcnotCircuit r h c2 s2) hczLayout PS.tt : Matrix (Fin 4) (Fin 4) R) =
      (2 * h * r * (r * r)) • cnotGate :=
  (hcnot_parts_spec r h c2 s2 hr hh hc hs hcs).1

/-- **the heralded CNOT is heralded**: with both heralds satisfied it reaches no non-logical state -/
theorem hcnot_noLeak (r h c2 s2 : R) (hr : 3 * r * r = 1) (hh : 2 * h * h = 1)
    (hc : 6 * c2 * c2 = 3 + 6 * h * r) (hs : 6 * s2 * s2 = 3 - 6 * h * r) (hcs : 2 * c2 * s2 = r) :
    NoLeak hczLayout (hcnotCircuit r h c2 s2) :=
  (hcnot_parts_spec r h c2 s2 hr hh hc hs hcs).2

end field

section ring2
variable [CommRing R]

/-- mode 0 is a spectator of the heralded CNOT (modes 0 and 2 are spectators of the CZ; the two beam
splitters mix modes 2 and 3) -/
theorem hcnot_localOn (r h c2 s2 : R) (hh : 2 * h * h = 1) :
    LocalOn ([2, 3] ++ [1, 3, 4, 5] ++ [2, 3]) (hcnotCircuit r h c2 s2) := by
  unfold hcnotCircuit
  rw [hczCircuit_eq r h c2 s2 hh]
  exact ((hData_localOn h).mul (hcz_localOn r h c2 s2)).mul (hData_localOn h)

end ring2

section field2
variable [Field R] [CharZero R]

/-- position of the basis state `[a, b]` in `basis 2` -/
def idx2 (a b : Bool) : Fin 4 := ⟨2 * a.toNat + b.toNat, by cases a <;> cases b <;> decide⟩

theorem hcnot_amp (r h c2 s2 : R) (hr : 3 * r * r = 1) (hh : 2 * h * h = 1)
    (hc : 6 * c2 * c2 = 3 + 6 * h * r) (hs : 6 * s2 * s2 = 3 - 6 * h * r) (hcs : 2 * c2 * s2 = r)
    (a b c d : Bool) :
    gateAmp (hcnotCircuit r h c2 s2) hczLayout PS.tt [a, b] [c, d] =
      (2 * h * r * (r * r)) * cnotEntry a b c d := by
  have hT := hcnot_table r h c2 s2 hr hh hc hs hcs
  have key : gateAmp (hcnotCircuit r h c2 s2) hczLayout PS.tt ((basis 2).getD (idx2 a b).val [])
      ((basis 2).getD (idx2 c d).val []) = ((2 * h * r * (r * r)) • (cnotGate : Matrix (Fin 4) (Fin 4) R))
        (idx2 a b) (idx2 c d) := congrFun (congrFun hT (idx2 a b)) (idx2 c d)
  cases a <;> cases b <;> cases c <;> cases d <;>
    simpa [idx2, basis, cnotGate, cnotEntry] using key

theorem hcnot_amp_tt (r h c2 s2 : R) (hr : 3 * r * r = 1) (hh : 2 * h * h = 1)
    (hc : 6 * c2 * c2 = 3 + 6 * h * r) (hs : 6 * s2 * s2 = 3 - 6 * h * r) (hcs : 2 * c2 * s2 = r)
    (bo bi : List Bool) (hbo : bo.length = 2) (hbi : bi.length = 2) :
    gateAmp (hcnotCircuit r h c2 s2) hczLayout PS.tt bo bi =
      (2 * h * r * (r * r)) * twoQubit cnotEntry bo bi := by
  match bo, hbo, bi, hbi with
  | [a, b], _, [c, d], _ => exact hcnot_amp r h c2 s2 hr hh hc hs hcs a b c d

/-- the heralded CNOT as a gate implementation on its own layout -/
def hcnotImpl (r h c2 s2 : R) : GateImpl hczLayout R :=
  ⟨[2, 3] ++ [1, 3, 4, 5] ++ [2, 3], hcnotCircuit r h c2 s2, (cnotGate : Matrix (Fin 4) (Fin 4) R),
    2 * h * r * (r * r)⟩

theorem hcnot_gateImpl_ok (r h c2 s2 : R) (hr : 3 * r * r = 1) (hh : 2 * h * h = 1)
    (hc : 6 * c2 * c2 = 3 + 6 * h * r) (hs : 6 * s2 * s2 = 3 - 6 * h * r) (hcs : 2 * c2 * s2 = r) :
    (hcnotImpl r h c2 s2).Ok PS.tt :=
  ⟨hcnot_localOn r h c2 s2 hh, hcnot_noLeak r h c2 s2 hr hh hc hs hcs, hcnot_table r h c2 s2 hr hh hc hs hcs⟩

/-- **the heralded CNOT on any two qubits of any processor** (any placement into a sane layout with herald
values `0/1`, any post-selection accepting the logical states): local, heralded, table
`c • (CNOT on the selected qubits ⊗ identity)` — accepted by `heralded_circuit_implements` -/
theorem hcnot_placed_ok {L : Layout} (P : Placement hczLayout L) (hok : L.ok = true)
    (hhL : ∀ p ∈ L.heralds, p.2 ≤ 1) (r h c2 s2 : R) (hr : 3 * r * r = 1) (hh : 2 * h * h = 1)
    (hc : 6 * c2 * c2 = 3 + 6 * h * r) (hs : 6 * s2 * s2 = 3 - 6 * h * r) (hcs : 2 * c2 * s2 = r)
    (ps : PS) (hps : ∀ b : List Bool, b.length = L.qubits.length → ps.eval (encode L b) = true) :
    (⟨List.ofFn fun a : Fin hczLayout.m => (P.f a).val, PM.place P.g (hcnotCircuit r h c2 s2),
      placedGate P (twoQubit cnotEntry), 2 * h * r * (r * r)⟩ : GateImpl L R).Ok ps :=
  gateImpl_place_ok P hczLayout_ok hok hhL _ _ _
    (fun bo bi hbo hbi => hcnot_amp_tt r h c2 s2 hr hh hc hs hcs bo bi hbo hbi)
    (hcnot_noLeak r h c2 s2 hr hh hc hs hcs) ps hps

end field2

end PM.C20
