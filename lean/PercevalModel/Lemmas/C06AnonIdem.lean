/-
  C06 — `anonymize_annotations` is idempotent on single basic states: `anonState (anonState s) = anonState s`.

  The renamed state is *canonical*: every mode is sorted by tag number and the tags appear, in visiting
  order, as `_:0, _:1, …` (`canonTags K`), so a second pass renames every tag to itself.
-/
import PercevalModel.Lemmas.C06Anon

namespace PM.C06

instance tagCodeLe_total : Std.Total (fun a b : Tag => tagCode a ≤ tagCode b) :=
  ⟨fun _ _ => Nat.le_total _ _⟩

instance tagCodeLe_trans : IsTrans Tag (fun a b : Tag => tagCode a ≤ tagCode b) :=
  ⟨fun _ _ _ h1 h2 => Nat.le_trans h1 h2⟩

theorem sortMode_sorted (m : Mode) : (sortMode m).Pairwise (fun a b => tagCode a ≤ tagCode b) :=
  List.pairwise_insertionSort _ m

theorem sortMode_of_sorted {m : Mode} (h : m.Pairwise (fun a b => tagCode a ≤ tagCode b)) :
    sortMode m = m :=
  h.insertionSort_eq

theorem sortMode_sortMode (m : Mode) : sortMode (sortMode m) = sortMode m :=
  sortMode_of_sorted (sortMode_sorted m)

/-! ### the annotation map has no duplicate key -/

theorem seenAdd_nodup {seen : List Tag} (a : Tag) (h : seen.Nodup) : (seenAdd seen a).Nodup := by
  unfold seenAdd
  split
  · exact h
  · rename_i hk
    rw [List.nodup_append]
    refine ⟨h, List.nodup_singleton a, ?_⟩
    intro x hx b hb
    rw [List.mem_singleton] at hb
    subst hb
    exact fun hab => hk (hab ▸ hx)

theorem seenAll_nodup (l : List Tag) : ∀ {seen : List Tag}, seen.Nodup → (seenAll seen l).Nodup := by
  induction l with
  | nil => intro seen h; exact h
  | cons a l ih => intro seen h; rw [seenAll_cons]; exact ih (seenAdd_nodup a h)

/-! ### the canonical map `_:0, …, _:(k-1)` -/

/-- the keys `{_:0}, …, {_:k-1}` in this order -/
def canonTags (k : ℕ) : List Tag := (List.range k).map some

theorem mem_canonTags (k : ℕ) (x : Tag) : x ∈ canonTags k ↔ ∃ i, i < k ∧ x = some i := by
  unfold canonTags
  rw [List.mem_map]
  constructor
  · rintro ⟨i, hi, rfl⟩
    exact ⟨i, List.mem_range.mp hi, rfl⟩
  · rintro ⟨i, hi, rfl⟩
    exact ⟨i, List.mem_range.mpr hi, rfl⟩

theorem canonTags_succ (k : ℕ) : canonTags (k + 1) = canonTags k ++ [some k] := by
  unfold canonTags
  rw [List.range_succ, List.map_append]
  rfl

theorem idxOf_canonTags {i K : ℕ} (h : i < K) : (canonTags K).idxOf (some i) = i := by
  have hl : i < (canonTags K).length := by simp [canonTags, h]
  have hg : (canonTags K)[i] = some i := by simp [canonTags]
  have hn : (canonTags K).Nodup := List.Nodup.map (Option.some_injective _) List.nodup_range
  have := hn.idxOf_getElem i hl
  rwa [hg] at this

/-- visiting a sorted mode whose tags are `< k'` and contain every `j` with `k ≤ j < k'` extends the
canonical map from `k` to `k'` keys -/
theorem seenAll_canon_sorted (m : Mode) : ∀ (k k' : ℕ), k ≤ k' →
    m.Pairwise (fun a b => tagCode a ≤ tagCode b) →
    (∀ x ∈ m, ∃ i, i < k' ∧ x = some i) →
    (∀ j, k ≤ j → j < k' → some j ∈ m) →
    seenAll (canonTags k) m = canonTags k' := by
  induction m with
  | nil =>
    intro k k' hk _ _ hj
    have hkk : k = k' := by
      rcases Nat.lt_or_ge k k' with h | h
      · exact absurd (hj k (Nat.le_refl k) h) List.not_mem_nil
      · exact Nat.le_antisymm hk h
    subst hkk
    rfl
  | cons x m ih =>
    intro k k' hk hs hx hj
    rw [List.pairwise_cons] at hs
    obtain ⟨i, hi, rfl⟩ := hx x List.mem_cons_self
    rw [seenAll_cons]
    by_cases hik : i < k
    · have h1 : seenAdd (canonTags k) (some i) = canonTags k := by
        unfold seenAdd
        rw [if_pos ((mem_canonTags k _).mpr ⟨i, hik, rfl⟩)]
      rw [h1]
      apply ih k k' hk hs.2 (fun y hy => hx y (List.mem_cons_of_mem _ hy))
      intro j hj1 hj2
      rcases List.mem_cons.mp (hj j hj1 hj2) with h | h
      · injection h with h
        omega
      · exact h
    · have hik' : i = k := by
        by_contra hne
        have hlt : k < i := by omega
        rcases List.mem_cons.mp (hj k (Nat.le_refl k) (by omega)) with h | h
        · injection h with h
          omega
        · have h2 : i + 1 ≤ k + 1 := hs.1 _ h
          omega
      subst hik'
      have h1 : seenAdd (canonTags i) (some i) = canonTags (i + 1) := by
        unfold seenAdd
        rw [if_neg, canonTags_succ]
        intro hmem
        obtain ⟨i', hi', he⟩ := (mem_canonTags _ _).mp hmem
        injection he with he
        omega
      rw [h1]
      apply ih (i + 1) k' hi hs.2 (fun y hy => hx y (List.mem_cons_of_mem _ hy))
      intro j hj1 hj2
      rcases List.mem_cons.mp (hj j (by omega) hj2) with h | h
      · injection h with h
        omega
      · exact h

/-- one mode: renamed by the map as it is after the mode, then sorted -/
theorem seenAll_canon_mode (seen : List Tag) (m : Mode) (hn : seen.Nodup) :
    seenAll (canonTags seen.length) (sortMode (m.map (newName (seenAll seen m)))) =
      canonTags (seenAll seen m).length := by
  have hp : seen <+: seenAll seen m := seenAll_prefix seen m
  have hn1 : (seenAll seen m).Nodup := seenAll_nodup m hn
  have hmem : ∀ x, x ∈ seenAll seen m ↔ x ∈ seen ∨ x ∈ m := mem_seenAll seen m
  generalize seenAll seen m = seen1 at hp hn1 hmem
  apply seenAll_canon_sorted _ _ _ hp.length_le (sortMode_sorted _)
  · intro x hx
    rw [(sortMode_perm _).mem_iff, List.mem_map] at hx
    obtain ⟨a, ha, rfl⟩ := hx
    exact ⟨seen1.idxOf a, List.idxOf_lt_length_of_mem ((hmem a).mpr (Or.inr ha)), rfl⟩
  · intro j hj1 hj2
    have hidx : seen1.idxOf seen1[j] = j := hn1.idxOf_getElem j hj2
    have ha : seen1[j] ∈ seen1 := List.getElem_mem hj2
    generalize seen1[j] = a at hidx ha
    rcases (hmem a).mp ha with h | h
    · exfalso
      obtain ⟨u, hu⟩ := hp
      have h3 : seen1.idxOf a = seen.idxOf a := by
        rw [← hu, List.idxOf_append_of_mem h]
      have h4 : seen.idxOf a < seen.length := List.idxOf_lt_length_of_mem h
      omega
    · refine (sortMode_perm _).mem_iff.mpr (List.mem_map.mpr ⟨a, h, ?_⟩)
      unfold newName
      rw [hidx]

/-- all the modes: the map of the renamed state is canonical -/
theorem seenAll_canon_state (L : List Tag) (s : State) : ∀ seen : List Tag, seen.Nodup →
    seenAll seen s.flatten <+: L →
    seenAll (canonTags seen.length) (s.map fun m => sortMode (m.map (newName L))).flatten =
      canonTags (seenAll seen s.flatten).length := by
  induction s with
  | nil => intro seen _ _; rfl
  | cons m s ih =>
    intro seen hn hL
    rw [List.flatten_cons, seenAll_append] at hL
    rw [List.map_cons, List.flatten_cons, List.flatten_cons, seenAll_append, seenAll_append]
    have hm : m.map (newName L) = m.map (newName (seenAll seen m)) := by
      apply List.map_congr_left
      intro a ha
      exact newName_of_prefix ((seenAll_prefix _ _).trans hL) ((mem_seenAll _ _ _).mpr (Or.inr ha))
    rw [hm, seenAll_canon_mode seen m hn]
    exact ih (seenAll seen m) (seenAll_nodup m hn) hL

theorem annotMap_anonState (s : State) : annotMap (anonState s) = canonTags (annotMap s).length := by
  rw [annotMap_eq, anonState_eq]
  exact seenAll_canon_state (annotMap s) s [] List.nodup_nil (List.prefix_refl _)

/-- a second pass renames every tag of the renamed state to itself -/
theorem renameOf_anonState (s : State) {x : Tag} (hx : x ∈ (anonState s).flatten) :
    renameOf (anonState s) x = x := by
  rw [anonState_eq, mem_flatten_renamed] at hx
  obtain ⟨a, ha, rfl⟩ := hx
  have hlt : (annotMap s).idxOf a < (annotMap s).length :=
    List.idxOf_lt_length_of_mem ((mem_seenAll _ _ _).mpr (Or.inr ha))
  show newName (annotMap (anonState s)) (newName (annotMap s) a) = newName (annotMap s) a
  rw [annotMap_anonState]
  unfold newName
  rw [idxOf_canonTags hlt]

theorem anonState_idem (s : State) : anonState (anonState s) = anonState s := by
  rw [anonState_eq (anonState s)]
  have h : ∀ m' ∈ anonState s, sortMode (m'.map (renameOf (anonState s))) = id m' := by
    intro m' hm'
    have h1 : m'.map (renameOf (anonState s)) = m' := by
      conv_rhs => rw [← List.map_id m']
      apply List.map_congr_left
      intro x hx
      exact renameOf_anonState s (List.mem_flatten.mpr ⟨m', hm', hx⟩)
    rw [h1]
    rw [anonState_eq, List.mem_map] at hm'
    obtain ⟨m, _, rfl⟩ := hm'
    exact sortMode_sortMode _
  rw [List.map_congr_left h, List.map_id]

end PM.C06
