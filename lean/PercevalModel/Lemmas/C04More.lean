/-
  C04 — where the hypothesis `HeraldsWF` comes from: a model of the declaration of heralds
  (`Experiment.add_herald`, the `heralds` property) — new definitions, nothing of `Model/C04.lean` is touched.
-/
import PercevalModel.Lemmas.C04

namespace PM.C04
open PM.Fock PM.Dist PM.SimSpec

/-- `Experiment.add_herald(mode, expected)` on an experiment of `m` modes whose herald ports so far are `h`
(the `heralds` property lists them in the insertion order of the port dictionary): refused with
`UnavailableModeException` when a port already sits on the mode (`are_modes_free`), with `IndexError`
(`self._mode_type[mode]`) when the mode is outside the circuit; otherwise appended. -/
def addHerald (m : ℕ) (h : List (ℕ × ℕ)) (p : ℕ × ℕ) : Option (List (ℕ × ℕ)) :=
  if (h.map (·.1)).contains p.1 || decide (m ≤ p.1) then none else some (h ++ [p])

/-- a sequence of `add_herald` calls on a fresh experiment; `none` = one of them raised -/
def declareHeralds (m : ℕ) (calls : List (ℕ × ℕ)) : Option (List (ℕ × ℕ)) :=
  calls.foldlM (addHerald m) []

theorem addHerald_wf {m : ℕ} {h h' : List (ℕ × ℕ)} {p : ℕ × ℕ} (wf : HeraldsWF m h)
    (e : addHerald m h p = some h') : HeraldsWF m h' ∧ h' = h ++ [p] := by
  unfold addHerald at e
  split at e
  · cases e
  · next hc =>
    have hc' : ¬ p.1 ∈ h.map (·.1) ∧ p.1 < m := by
      simp only [Bool.or_eq_true, decide_eq_true_eq, not_or, List.contains_iff_mem, not_le] at hc
      exact hc
    cases e
    refine ⟨⟨?_, ?_⟩, rfl⟩
    · rw [List.map_append, List.nodup_append]
      refine ⟨wf.nodup, by simp, ?_⟩
      intro a ha b hb
      simp only [List.map_cons, List.map_nil, List.mem_singleton] at hb
      subst hb
      rintro rfl
      exact hc'.1 ha
    · intro q hq
      rcases List.mem_append.1 hq with hq | hq
      · exact wf.inRange q hq
      · simp only [List.mem_singleton] at hq
        subst hq
        exact hc'.2

theorem foldlM_addHerald_wf {m : ℕ} : ∀ (calls : List (ℕ × ℕ)) (h0 h : List (ℕ × ℕ)), HeraldsWF m h0 →
    calls.foldlM (addHerald m) h0 = some h → HeraldsWF m h ∧ h = h0 ++ calls
  | [], h0, h, wf, e => by
    simp only [List.foldlM_nil, Option.pure_def, Option.some.injEq] at e
    subst e
    exact ⟨wf, by simp⟩
  | p :: r, h0, h, wf, e => by
    simp only [List.foldlM_cons, Option.bind_eq_bind] at e
    cases h1 : addHerald m h0 p with
    | none => simp [h1] at e
    | some h' =>
      rw [h1] at e
      obtain ⟨wf', rfl⟩ := addHerald_wf wf h1
      obtain ⟨wf'', rfl⟩ := foldlM_addHerald_wf r _ h wf' e
      exact ⟨wf'', by simp⟩

end PM.C04
