/-
  C10 — helper lemmas for `Props/C10.lean`.
-/
import PercevalModel.Model.C10
import Mathlib.Data.List.Nodup
import Mathlib.Data.List.Perm.Basic
import Mathlib.Data.List.Perm.Subperm

open Matrix

namespace PM.C10

/-! ### min / max -/

theorem foldr_min_le (a : Nat) (l : List Nat) :
    l.foldr min a ≤ a ∧ ∀ x ∈ l, l.foldr min a ≤ x := by
  induction l with
  | nil => simp
  | cons b l ih =>
    simp only [List.foldr_cons, List.mem_cons, forall_eq_or_imp]
    exact ⟨le_trans (min_le_right _ _) ih.1, min_le_left _ _,
      fun x hx => le_trans (min_le_right _ _) (ih.2 x hx)⟩

theorem minN_le {l : List Nat} {x : Nat} (h : x ∈ l) : minN l ≤ x := by
  cases l with
  | nil => simp at h
  | cons a l =>
    simp only [minN]
    rcases List.mem_cons.1 h with rfl | h
    · exact (foldr_min_le _ l).1
    · exact (foldr_min_le a l).2 x h

theorem le_maxN {l : List Nat} {x : Nat} (h : x ∈ l) : x ≤ maxN l := by
  induction l with
  | nil => simp at h
  | cons a l ih =>
    show x ≤ max a (maxN l)
    rcases List.mem_cons.1 h with rfl | h
    · exact le_max_left _ _
    · exact le_trans (ih h) (le_max_right _ _)

theorem maxN_lt {l : List Nat} {b : Nat} (hb : 0 < b) (h : ∀ x ∈ l, x < b) : maxN l < b := by
  induction l with
  | nil => simpa [maxN] using hb
  | cons a l ih =>
    show max a (maxN l) < b
    exact max_lt (h a (by simp)) (ih fun x hx => h x (by simp [hx]))

/-! ### association lists -/

theorem keys_append (a b : NMap) : NMap.keys (a ++ b) = a.keys ++ b.keys := by
  simp [NMap.keys]

theorem vals_append (a b : NMap) : NMap.vals (a ++ b) = a.vals ++ b.vals := by
  simp [NMap.vals]

theorem lookup_of_mem {mp : NMap} (hk : mp.keys.Nodup) {k v : Nat} (h : (k, v) ∈ mp) :
    mp.lookup k = some v := by
  induction mp with
  | nil => simp at h
  | cons p rest ih =>
    obtain ⟨k', v'⟩ := p
    simp only [NMap.keys, List.map_cons, List.nodup_cons] at hk
    rcases List.mem_cons.1 h with e | h'
    · cases e; simp
    · have hne : k ≠ k' := by
        rintro rfl
        exact hk.1 (List.mem_map.2 ⟨(k, v), h', rfl⟩)
      rw [List.lookup_cons]
      have : (k == k') = false := by simpa using hne
      rw [this]
      exact ih hk.2 h'

theorem lookup_isSome_of_mem_keys {mp : NMap} {k : Nat} (h : k ∈ mp.keys) :
    ∃ v, mp.lookup k = some v := by
  induction mp with
  | nil => simp [NMap.keys] at h
  | cons p rest ih =>
    obtain ⟨k', v'⟩ := p
    rw [List.lookup_cons]
    by_cases e : k = k'
    · subst e; exact ⟨v', by simp⟩
    · have : (k == k') = false := by simpa using e
      rw [this]
      simp only [NMap.keys, List.map_cons, List.mem_cons] at h
      rcases h with h | h
      · exact absurd h e
      · exact ih h

/-- reading every key of a dictionary back gives its values, in order -/
theorem map_lookupD_keys (fl : NMap) (h : fl.keys.Nodup) : fl.keys.map (lookupD fl) = fl.vals := by
  induction fl with
  | nil => rfl
  | cons p rest ih =>
    obtain ⟨k, v⟩ := p
    simp only [NMap.keys, List.map_cons, List.nodup_cons] at h
    simp only [NMap.keys, NMap.vals, List.map_cons, List.map_map]
    congr 1
    · simp [lookupD]
    · have := ih h.2
      simp only [NMap.keys, NMap.vals, List.map_map] at this
      rw [← this]
      apply List.map_congr_left
      intro q hq
      have hne : q.1 ≠ k := by
        rintro e
        exact h.1 (List.mem_map.2 ⟨q, hq, e⟩)
      simp only [Function.comp, lookupD, List.lookup_cons]
      have : (q.1 == k) = false := by simpa using hne
      rw [this]

/-! ### `fill` -/

theorem fill_keys (mp : NMap) (ms : List Nat) : (fill mp ms).keys = mp.keys ++ ms := by
  induction ms generalizing mp with
  | nil => simp [fill]
  | cons m rest ih => rw [fill, ih, keys_append]; simp [NMap.keys]

theorem fill_length (mp : NMap) (ms : List Nat) : (fill mp ms).length = mp.length + ms.length := by
  induction ms generalizing mp with
  | nil => simp [fill]
  | cons m rest ih => rw [fill, ih]; simp; omega

theorem fill_lookup (mp : NMap) (ms : List Nat) {k : Nat} (hk : k ∈ mp.keys) :
    (fill mp ms).lookup k = mp.lookup k := by
  induction ms generalizing mp with
  | nil => simp [fill]
  | cons m rest ih =>
    rw [fill, ih _ (by rw [keys_append]; exact List.mem_append_left _ hk), List.lookup_append]
    obtain ⟨v, hv⟩ := lookup_isSome_of_mem_keys hk
    rw [hv]; rfl

theorem fill_vals_nodup (mp : NMap) (ms : List Nat) (h : mp.vals.Nodup) :
    (fill mp ms).vals.Nodup := by
  induction ms generalizing mp with
  | nil => simpa [fill] using h
  | cons m rest ih =>
    rw [fill]
    apply ih
    rw [vals_append]
    refine List.Nodup.append h (List.nodup_singleton _) ?_
    intro x hx hx'
    have e : NMap.vals [(m, maxN mp.vals + 1)] = [maxN mp.vals + 1] := rfl
    rw [e, List.mem_singleton] at hx'
    have := le_maxN hx
    omega

theorem fill_vals_lt (mp : NMap) (ms : List Nat) (b : Nat) (hb : 0 < b)
    (h : ∀ v ∈ mp.vals, v < b) : ∀ v ∈ (fill mp ms).vals, v < b + ms.length := by
  induction ms generalizing mp b with
  | nil => simpa [fill] using h
  | cons m rest ih =>
    rw [fill]
    intro v hv
    have := ih (mp ++ [(m, maxN mp.vals + 1)]) (b + 1) (by omega) (by
      intro w hw
      rw [vals_append] at hw
      rcases List.mem_append.1 hw with hw | hw
      · have := h w hw; omega
      · have e : NMap.vals [(m, maxN mp.vals + 1)] = [maxN mp.vals + 1] := rfl
        rw [e, List.mem_singleton] at hw
        have := maxN_lt hb h
        omega) v hv
    simp only [List.length_cons]
    omega

/-! ### the completed mapping covers exactly `min … max` -/

theorem missing_nodup (mp : NMap) : (missingModes mp).Nodup :=
  List.Nodup.filter _ (List.nodup_range' 1)

theorem filled_keys_perm (mp : NMap) (hk : mp.keys.Nodup) :
    (filled mp).keys.Perm
      (List.range' (minN mp.keys) (maxN mp.keys + 1 - minN mp.keys)) := by
  rw [filled, fill_keys]
  apply (List.perm_ext_iff_of_nodup ?_ (List.nodup_range' 1)).2
  · intro x
    simp only [List.mem_append, missingModes, List.mem_filter, List.mem_range'_1,
      Bool.not_eq_true', List.contains_eq_mem, decide_eq_false_iff_not]
    constructor
    · rintro (h | h)
      · have h1 := minN_le h
        have h2 := le_maxN h
        omega
      · exact h.1
    · intro h
      by_cases hx : x ∈ mp.keys
      · exact Or.inl hx
      · exact Or.inr ⟨h, hx⟩
  · refine List.Nodup.append hk (missing_nodup mp) ?_
    intro x hx hx'
    simp only [missingModes, List.mem_filter, Bool.not_eq_true', List.contains_eq_mem,
      decide_eq_false_iff_not] at hx'
    exact hx'.2 hx

theorem filled_length (mp : NMap) (hk : mp.keys.Nodup) :
    (filled mp).length = maxN mp.keys + 1 - minN mp.keys := by
  have := (filled_keys_perm mp hk).length_eq
  simpa [NMap.keys] using this

theorem filled_keys_nodup (mp : NMap) (hk : mp.keys.Nodup) : (filled mp).keys.Nodup :=
  (filled_keys_perm mp hk).nodup_iff.2 (List.nodup_range' 1)

/-- the PERM vector is the completed mapping's values, re-ordered by key -/
theorem permVect_perm_vals (mp : NMap) (hk : mp.keys.Nodup) :
    (permVect mp).Perm (filled mp).vals := by
  rw [← map_lookupD_keys _ (filled_keys_nodup mp hk), permVect, filled_length mp hk]
  exact ((filled_keys_perm mp hk).symm).map _

theorem missing_length (mp : NMap) (hk : mp.keys.Nodup) :
    mp.length + (missingModes mp).length = maxN mp.keys + 1 - minN mp.keys := by
  rw [← filled_length mp hk, filled, fill_length]

/-! ### inverse permutation vector -/

theorem invPerm_getD {σ : List Nat} (hn : σ.Nodup) {i v : Nat} (hv : v < σ.length)
    (h : σ[i]? = some v) : (invPerm σ).getD v 0 = i := by
  have hi : i < σ.length := by
    by_contra hc
    rw [List.getElem?_eq_none (by omega)] at h
    cases h
  have hiv : σ[i] = v := by
    rw [List.getElem?_eq_getElem hi] at h
    exact Option.some.inj h
  unfold invPerm
  rw [List.getD_eq_getElem?_getD, List.getElem?_map, List.getElem?_range hv]
  simp only [Option.map_some, Option.getD_some]
  rw [← hiv]
  exact List.Nodup.idxOf_getElem hn i hi

/-! ### matrices -/

variable {R : Type} [CommRing R] [StarRing R]

theorem mul_permMatF_apply {n : ℕ} (f : Fin n → Fin n) (A : Matrix (Fin n) (Fin n) R)
    (i j : Fin n) : (A * permMatF f : Matrix (Fin n) (Fin n) R) i j = A i (f j) := by
  simp only [Matrix.mul_apply, permMatF]
  rw [Finset.sum_eq_single (f j)]
  · simp
  · intro l _ hl; simp [Ne.symm hl]
  · simp

theorem permMatF_conjTranspose_mul_apply {n : ℕ} (f : Fin n → Fin n)
    (A : Matrix (Fin n) (Fin n) R) (i j : Fin n) :
    ((permMatF f)ᴴ * A : Matrix (Fin n) (Fin n) R) i j = A (f i) j := by
  simp only [Matrix.mul_apply, conjTranspose_apply, permMatF]
  rw [Finset.sum_eq_single (f i)]
  · simp
  · intro l _ hl; simp [Ne.symm hl]
  · simp

theorem embed_apply_in {L k : ℕ} (C : Matrix (Fin k) (Fin k) R) (a b : Fin L)
    (ha : a.val < k) (hb : b.val < k) :
    embed L 0 C a b = C ⟨a.val, ha⟩ ⟨b.val, hb⟩ := by
  simp [embed, place, unshift, ha, hb]

theorem embed_apply_out_row {N o k : ℕ} (B : Matrix (Fin k) (Fin k) R) (i j : Fin N)
    (hi : i.val < o ∨ o + k ≤ i.val) : embed N o B i j = if i = j then 1 else 0 := by
  have h1 : ¬ (o ≤ i.val ∧ i.val < o + k) := by omega
  by_cases h2 : o ≤ j.val ∧ j.val < o + k
  · have hne : i ≠ j := by
      rintro rfl; exact h1 h2
    simp [embed, place, unshift, h1, h2, hne]
  · simp [embed, place, unshift, h1, h2]

/-! ### `_check_consistency` as a three-way decision -/

theorem foldr_min_neg (b : Int) (l : List Int) (h : l.foldr min b < 0) :
    b < 0 ∨ ∃ x ∈ l, x < 0 := by
  induction l with
  | nil => exact Or.inl (by simpa using h)
  | cons c l ih =>
    simp only [List.foldr_cons] at h
    by_cases hc : c < 0
    · exact Or.inr ⟨c, by simp, hc⟩
    · have : l.foldr min b < 0 := by
        rcases min_lt_iff.1 h with h' | h'
        · exact absurd h' hc
        · exact h'
      rcases ih this with h' | ⟨x, hx, hx'⟩
      · exact Or.inl h'
      · exact Or.inr ⟨x, by simp [hx], hx'⟩

theorem minI_neg (cs : Nat) (conn : List Bool) (d : Dict) (h : minI d.keys < 0) :
    ∃ p ∈ d, connectible cs conn p.1 = false := by
  cases d with
  | nil => simp [Dict.keys, minI] at h
  | cons a l =>
    simp only [Dict.keys, List.map_cons, minI] at h
    rcases foldr_min_neg a.1 (l.map (·.1)) h with h | ⟨x, hx, hx'⟩
    · exact ⟨a, by simp, by simp [connectible, h]⟩
    · obtain ⟨q, hq, rfl⟩ := List.mem_map.1 hx
      exact ⟨q, by simp [hq], by simp [connectible, hx']⟩

theorem checkConsistency_eq (cs : Nat) (conn : List Bool) (n : Nat) (d : Dict) (hd : d ≠ []) :
    checkConsistency cs conn n d =
      if d.length ≠ n then .error .invalid
      else if ∃ p ∈ d, connectible cs conn p.1 = false then .error .unavailable
      else if ¬ d.vals.Nodup then .error .invalid
      else .ok () := by
  unfold checkConsistency
  by_cases h1 : d.length ≠ n
  · simp [h1]
  · rw [if_neg h1, if_neg h1, if_neg hd]
    by_cases h2 : ∃ p ∈ d, connectible cs conn p.1 = false
    · rw [if_pos h2]
      by_cases h3 : minI d.keys < 0
      · rw [if_pos h3]
      · rw [if_neg h3]
        have : (d.any fun p => !connectible cs conn p.1) = true := by
          obtain ⟨p, hp, hc⟩ := h2
          simp only [List.any_eq_true, Bool.not_eq_true']
          exact ⟨p, hp, hc⟩
        rw [if_pos this]
    · rw [if_neg h2]
      have h3 : ¬ minI d.keys < 0 := fun h => h2 (minI_neg cs conn d h)
      have h4 : ¬ (d.any fun p => !connectible cs conn p.1) = true := by
        simp only [List.any_eq_true, Bool.not_eq_true']
        exact h2
      rw [if_neg h3, if_neg h4]

end PM.C10
