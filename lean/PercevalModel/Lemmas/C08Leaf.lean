/-
  C08 — the leaf law `treeOcc` (binomial splitting at every node of the beam-splitter tree) in closed
  form: it is the multinomial law over the `2^L` leaves with the path weights `leafP r (1-r) L`
  (`treeOcc_wt`), its keys are exactly the states of `2^L` modes with `n` photons, without repetition
  (`treeOcc_keys`, `treeOcc_nodup`).
-/
import PercevalModel.Lemmas.C08
import PercevalModel.Lemmas.C08Fock
import PercevalModel.Lemmas.C08Circ
import Mathlib.Data.List.Nodup

open Finset

namespace PM.C08

open PM.Fock

variable {K : Type} [Field K] [LinearOrder K]

theorem wt_append {σ : Type} [DecidableEq σ] (a b : Dist σ K) (t : σ) :
    wt (a ++ b) t = wt a t + wt b t := by
  induction a with
  | nil => simp [wt]
  | cons e a ih => simp only [List.cons_append, wt, ih]; ring

theorem wt_flatMap {α σ : Type} [DecidableEq σ] (l : List α) (f : α → Dist σ K) (t : σ) :
    wt (l.flatMap f) t = (l.map fun a => wt (f a) t).sum := by
  induction l with
  | nil => simp [wt]
  | cons a l ih => simp [List.flatMap_cons, wt_append, ih]

theorem append_eq_iff_take_drop {x y t : List ℕ} {h : ℕ} (hx : x.length = h) :
    x ++ y = t ↔ x = t.take h ∧ y = t.drop h := by
  constructor
  · rintro rfl
    subst hx
    simp
  · rintro ⟨rfl, rfl⟩
    exact List.take_append_drop h t

theorem wt_map_tensor (c : K) (x : List ℕ × K) (b : Dist (List ℕ) K) (t : List ℕ) (h : ℕ)
    (hx : x.1.length = h) :
    wt (b.map fun y => (x.1 ++ y.1, c * (x.2 * y.2))) t
      = c * ((if x.1 = t.take h then x.2 else 0) * wt b (t.drop h)) := by
  induction b with
  | nil => simp [wt]
  | cons y b ih =>
    simp only [List.map_cons, wt, ih]
    by_cases h1 : x.1 = t.take h
    · by_cases h2 : y.1 = t.drop h
      · have : x.1 ++ y.1 = t := (append_eq_iff_take_drop hx).2 ⟨h1, h2⟩
        rw [if_pos this, if_pos h1, if_pos h2]; ring
      · have : ¬ x.1 ++ y.1 = t := fun e => h2 ((append_eq_iff_take_drop hx).1 e).2
        rw [if_neg this, if_pos h1, if_neg h2]; ring
    · have : ¬ x.1 ++ y.1 = t := fun e => h1 ((append_eq_iff_take_drop hx).1 e).1
      rw [if_neg this, if_neg h1]; ring

theorem wt_scaleTensor (c : K) (a b : Dist (List ℕ) K) (t : List ℕ) (h : ℕ)
    (ha : ∀ x ∈ a, x.1.length = h) :
    wt (scaleTensor c a b) t = c * (wt a (t.take h) * wt b (t.drop h)) := by
  unfold scaleTensor
  rw [wt_flatMap]
  induction a with
  | nil => simp [wt]
  | cons x a ih =>
    rw [List.map_cons, List.sum_cons, ih (fun x' hx' => ha x' (List.mem_cons_of_mem _ hx')),
      wt_map_tensor c x b t h (ha x (by simp))]
    simp only [wt]
    ring

/-- the keys of the leaf law are states of `2^L` modes holding `n` photons -/
theorem treeOcc_keys (r : K) (L n : ℕ) : ∀ e ∈ treeOcc r L n, e.1.length = 2 ^ L ∧ e.1.sum = n := by
  induction L generalizing n with
  | zero => intro e he; simp [treeOcc] at he; subst he; simp
  | succ L ih =>
    intro e he
    simp only [treeOcc, List.mem_flatMap, List.mem_range, scaleTensor, List.mem_map] at he
    obtain ⟨j, hj, x, hx, y, hy, rfl⟩ := he
    obtain ⟨l1, s1⟩ := ih j x hx
    obtain ⟨l2, s2⟩ := ih (n - j) y hy
    simp only [List.length_append, List.sum_append, l1, l2, s1, s2]
    constructor
    · ring
    · omega

theorem powProd_append {R : Type} [CommRing R] (f : ℕ → R) (i : ℕ) (t1 t2 : List ℕ) :
    powProd f i (t1 ++ t2) = powProd f i t1 * powProd f (i + t1.length) t2 := by
  induction t1 generalizing i with
  | nil => simp [powProd]
  | cons c r ih =>
    simp only [List.cons_append, powProd, ih, List.length_cons]
    rw [show i + 1 + r.length = i + (r.length + 1) by omega]
    ring

theorem powProd_mul_shift {R : Type} [CommRing R] (f g : ℕ → R) (a : R) (i o : ℕ) (t : List ℕ)
    (h : ∀ k, k < t.length → f (i + k) = a * g (o + k)) :
    powProd f i t = a ^ t.sum * powProd g o t := by
  induction t generalizing i o with
  | nil => simp [powProd]
  | cons c r ih =>
    have h0 := h 0 (by simp)
    simp only [Nat.add_zero] at h0
    have hr : ∀ k, k < r.length → f (i + 1 + k) = a * g (o + 1 + k) := by
      intro k hk
      have := h (k + 1) (by simp; omega)
      rw [show i + 1 + k = i + (k + 1) by omega, show o + 1 + k = o + (k + 1) by omega]
      exact this
    simp only [powProd, List.sum_cons, ih (i + 1) (o + 1) hr, h0, pow_add, mul_pow]
    ring

theorem powProd_congr {R : Type} [CommRing R] (f g : ℕ → R) (i : ℕ) (t : List ℕ)
    (h : ∀ k, k < t.length → f (i + k) = g (i + k)) : powProd f i t = powProd g i t := by
  have := powProd_mul_shift f g 1 i i t (by intro k hk; rw [h k hk, one_mul])
  rw [this, one_pow, one_mul]

theorem prodFact_append (t1 t2 : List ℕ) : prodFact (t1 ++ t2) = prodFact t1 * prodFact t2 := by
  simp [prodFact]

theorem sum_range_single (g : ℕ → K) (m j0 : ℕ) (hj : j0 < m)
    (h0 : ∀ j, j < m → j ≠ j0 → g j = 0) : ((List.range m).map g).sum = g j0 := by
  induction m with
  | zero => omega
  | succ m ih =>
    rw [List.range_succ, List.map_append, List.sum_append]
    simp only [List.map_cons, List.map_nil, List.sum_cons, List.sum_nil, add_zero]
    by_cases e : j0 = m
    · subst e
      have : ((List.range j0).map g).sum = 0 := by
        apply List.sum_eq_zero
        intro x hx
        simp only [List.mem_map, List.mem_range] at hx
        obtain ⟨j, hj', rfl⟩ := hx
        exact h0 j (by omega) (by omega)
      rw [this, zero_add]
    · rw [ih (by omega) (fun j hj' hne => h0 j (by omega) hne), h0 m (by omega) (fun e' => e e'.symm),
        add_zero]

/-- **the leaf law is multinomial in the path weights.** Total weight the list `treeOcc r L n` records
under a state `t`, times `∏ t_k!`: `n! · ∏_k (r^zeros(k) (1-r)^ones(k))^{t_k}` when `t` has `2^L` modes and
`n` photons, nothing otherwise. Every reflectivity, depth, photon number and state. -/
theorem treeOcc_wt (r : K) (L n : ℕ) (t : List ℕ) :
    wt (treeOcc r L n) t * (prodFact t : K)
      = if t.length = 2 ^ L ∧ t.sum = n then (n.factorial : K) * powProd (leafP r (1 - r) L) 0 t
        else 0 := by
  induction L generalizing n t with
  | zero =>
    simp only [treeOcc, wt, add_zero, pow_zero]
    by_cases h : [n] = t
    · subst h
      simp [prodFact, powProd, leafP]
    · have : ¬ (t.length = 1 ∧ t.sum = n) := by
        rintro ⟨h1, h2⟩
        apply h
        match t, h1 with
        | [a], _ => simp at h2; rw [h2]
      rw [if_neg h, if_neg this, zero_mul]
  | succ L ih =>
    have h2 : 2 ^ (L + 1) = 2 * 2 ^ L := by ring
    set t1 := t.take (2 ^ L) with ht1
    set t2 := t.drop (2 ^ L) with ht2
    have htt : t = t1 ++ t2 := (List.take_append_drop _ _).symm
    have hpf : (prodFact t : K) = (prodFact t1 : K) * (prodFact t2 : K) := by
      have := prodFact_append t1 t2
      rw [← htt] at this
      rw [this, Nat.cast_mul]
    have hsumT : t.sum = t1.sum + t2.sum := by
      have := List.sum_append (l₁ := t1) (l₂ := t2)
      rwa [← htt] at this
    have hlenT : t.length = t1.length + t2.length := by
      have := List.length_append (as := t1) (bs := t2)
      rwa [← htt] at this
    have hppT : powProd (leafP r (1 - r) (L + 1)) 0 t
        = powProd (leafP r (1 - r) (L + 1)) 0 t1 * powProd (leafP r (1 - r) (L + 1)) (0 + t1.length) t2 := by
      have := powProd_append (leafP r (1 - r) (L + 1)) 0 t1 t2
      rwa [← htt] at this
    -- every term of the sum over the split `j`
    let G : ℕ → K := fun j =>
      ((n.choose j : K) * r ^ j * (1 - r) ^ (n - j))
        * ((if t1.length = 2 ^ L ∧ t1.sum = j then (j.factorial : K) * powProd (leafP r (1 - r) L) 0 t1 else 0)
          * (if t2.length = 2 ^ L ∧ t2.sum = n - j then ((n - j).factorial : K) * powProd (leafP r (1 - r) L) 0 t2
              else 0))
    have hsum : wt (treeOcc r (L + 1) n) t * (prodFact t : K) = ((List.range (n + 1)).map G).sum := by
      show wt ((List.range (n + 1)).flatMap _) t * _ = _
      rw [wt_flatMap, ← List.sum_map_mul_right]
      congr 1
      apply List.map_congr_left
      intro j _
      rw [wt_scaleTensor _ _ _ t (2 ^ L) (fun x hx => (treeOcc_keys r L j x hx).1), hpf]
      show _ = G j
      simp only [G]
      rw [← ih j t1, ← ih (n - j) t2]
      ring
    rw [hsum]
    by_cases hc : t.length = 2 ^ (L + 1) ∧ t.sum = n
    · rw [if_pos hc]
      have hl1 : t1.length = 2 ^ L := by rw [ht1, List.length_take]; omega
      have hl2 : t2.length = 2 ^ L := by rw [ht2, List.length_drop]; omega
      have hs : t1.sum + t2.sum = n := by rw [← hsumT]; exact hc.2
      have hG : ∀ j, G j = ((n.choose j : K) * r ^ j * (1 - r) ^ (n - j))
        * ((if t1.length = 2 ^ L ∧ t1.sum = j then (j.factorial : K) * powProd (leafP r (1 - r) L) 0 t1 else 0)
          * (if t2.length = 2 ^ L ∧ t2.sum = n - j then ((n - j).factorial : K) * powProd (leafP r (1 - r) L) 0 t2
              else 0)) := fun j => rfl
      rw [sum_range_single G (n + 1) t1.sum (by omega)]
      · rw [hG]
        have e2 : n - t1.sum = t2.sum := by omega
        rw [if_pos ⟨hl1, rfl⟩, e2, if_pos ⟨hl2, rfl⟩, hppT, hl1]
        rw [powProd_mul_shift (leafP r (1 - r) (L + 1)) (leafP r (1 - r) L) r 0 0 t1
            (fun k hk => by
              simp only [Nat.zero_add]
              exact (leafP_msb r (1 - r) L k (by omega)).1),
          powProd_mul_shift (leafP r (1 - r) (L + 1)) (leafP r (1 - r) L) (1 - r) (0 + 2 ^ L) 0 t2
            (fun k hk => by
              simp only [Nat.zero_add]
              exact (leafP_msb r (1 - r) L k (by omega)).2)]
        have hfact : (n.factorial : K)
            = (n.choose t1.sum : K) * (t1.sum.factorial : K) * (t2.sum.factorial : K) := by
          have := Nat.choose_mul_factorial_mul_factorial (show t1.sum ≤ n by omega)
          rw [e2] at this
          rw [← this]; push_cast; ring
        rw [hfact]
        ring
      · intro j hj hne
        simp only [G]
        rw [if_neg (fun h => hne h.2.symm)]
        ring
    · rw [if_neg hc]
      apply List.sum_eq_zero
      intro x hx
      simp only [List.mem_map, List.mem_range] at hx
      obtain ⟨j, hj, rfl⟩ := hx
      simp only [G]
      by_cases c1 : t1.length = 2 ^ L ∧ t1.sum = j
      · by_cases c2 : t2.length = 2 ^ L ∧ t2.sum = n - j
        · exfalso
          apply hc
          constructor
          · rw [hlenT, c1.1, c2.1]; omega
          · rw [hsumT, c1.2, c2.2]; omega
        · rw [if_neg c2]; ring
      · rw [if_neg c1]; ring

/-! ### the keys of the leaf law are pairwise distinct -/

theorem keys_scaleTensor (c : K) (a b : Dist (List ℕ) K) :
    keys (scaleTensor c a b) = (keys a).flatMap fun x => (keys b).map (x ++ ·) := by
  unfold keys scaleTensor
  induction a with
  | nil => rfl
  | cons x a ih =>
    simp only [List.flatMap_cons, List.map_append, ih, List.map_cons, List.map_map]
    congr 1

theorem keys_flatMap {α : Type} (l : List α) (f : α → Dist (List ℕ) K) :
    keys (l.flatMap f) = l.flatMap fun a => keys (f a) := by
  unfold keys
  exact List.map_flatMap

theorem mem_keys_treeOcc {r : K} {L n : ℕ} {x : List ℕ} (hx : x ∈ keys (treeOcc r L n)) :
    x.length = 2 ^ L ∧ x.sum = n := by
  simp only [keys, List.mem_map] at hx
  obtain ⟨e, he, rfl⟩ := hx
  exact treeOcc_keys r L n e he

theorem treeOcc_nodup (r : K) (L n : ℕ) : (keys (treeOcc r L n)).Nodup := by
  induction L generalizing n with
  | zero => simp [treeOcc, keys]
  | succ L ih =>
    show (keys ((List.range (n + 1)).flatMap _)).Nodup
    rw [keys_flatMap, List.nodup_flatMap]
    constructor
    · intro j _
      rw [keys_scaleTensor, List.nodup_flatMap]
      constructor
      · intro x _
        exact (ih (n - j)).map (fun a b h => List.append_cancel_left h)
      · apply List.Pairwise.imp_of_mem (R := fun a b => a ≠ b) _ (ih j)
        intro x x' hx hx' hne
        simp only [Function.onFun, List.disjoint_left, List.mem_map]
        rintro z ⟨y, _, rfl⟩ ⟨y', _, h⟩
        have l1 := (mem_keys_treeOcc hx).1
        have l2 := (mem_keys_treeOcc hx').1
        exact hne (List.append_inj_left h (by rw [l1, l2])).symm
    · apply List.Pairwise.imp_of_mem (R := fun a b => a ≠ b) _ List.nodup_range
      intro j j' _ _ hne
      simp only [Function.onFun, List.disjoint_left, keys_scaleTensor, List.mem_flatMap, List.mem_map]
      rintro z ⟨x, hx, y, _, rfl⟩ ⟨x', hx', y', _, h⟩
      have k1 := mem_keys_treeOcc hx
      have k2 := mem_keys_treeOcc hx'
      have := List.append_inj_left h (by rw [k1.1, k2.1])
      apply hne
      rw [← k1.2, ← k2.2, this]

/-- the dictionary read of the leaf law, in closed form -/
theorem treeOcc_prob (r : K) (L n : ℕ) (t : List ℕ) :
    prob (treeOcc r L n) t * (prodFact t : K)
      = if t.length = 2 ^ L ∧ t.sum = n then (n.factorial : K) * powProd (leafP r (1 - r) L) 0 t
        else 0 := by
  rw [prob_eq_wt _ (treeOcc_nodup r L n), treeOcc_wt]

/-! ### the Fock specification on the tree circuit -/

theorem GQ_normSq_mul (a b : GQ) : GQ.normSq (a * b) = GQ.normSq a * GQ.normSq b := by
  simp only [GQ.normSq, GQ.mul_re, GQ.mul_im]; ring

theorem GQ_normSq_one : GQ.normSq 1 = 1 := by simp [GQ.normSq]

theorem GQ_normSq_leafP (c s : GQ) (L k : ℕ) :
    GQ.normSq (leafP c s L k) = leafP (GQ.normSq c) (GQ.normSq s) L k := by
  induction L generalizing k with
  | zero => exact GQ_normSq_one
  | succ L ih =>
    simp only [leafP, GQ_normSq_mul, ih]
    by_cases h : k % 2 = 0 <;> simp [h]

theorem entry_treeU {R : Type} [CommRing R] (c s : R) (L k : ℕ) (hk : k < 2 ^ L) :
    entry (treeU c s L) k 0 = leafP c s L k := by
  unfold entry
  rw [dif_pos ⟨hk, Nat.two_pow_pos L⟩]
  exact treeU_col0 c s L ⟨k, hk⟩

theorem prodFact_ne_zero {F : Type} [Field F] [CharZero F] (t : List ℕ) : (prodFact t : F) ≠ 0 := by
  unfold prodFact
  have : (t.map Nat.factorial).prod ≠ 0 := by
    apply List.prod_ne_zero
    simp only [List.mem_map, not_exists, not_and]
    intro x _ hx
    exact Nat.factorial_ne_zero x hx
  exact_mod_cast this

theorem map_leafP {A B : Type} [CommRing A] [CommRing B] (ι : A →+* B) (a b : A) (L k : ℕ) :
    ι (leafP a b L k) = leafP (ι a) (ι b) L k := by
  induction L generalizing k with
  | zero => simp [leafP]
  | succ L ih =>
    simp only [leafP, map_mul, ih]
    by_cases h : k % 2 = 0 <;> simp [h]

theorem map_powProd {A B : Type} [CommRing A] [CommRing B] (ι : A →+* B) (f : ℕ → A) (i : ℕ)
    (t : List ℕ) : ι (powProd f i t) = powProd (fun k => ι (f k)) i t := by
  induction t generalizing i with
  | nil => simp [powProd]
  | cons c r ih => simp only [powProd, map_mul, map_pow, ih]

theorem nsq_leafP {R : Type} [CommRing R] [StarRing R] (c s : R) (L k : ℕ) :
    nsq (leafP c s L k) = leafP (nsq c) (nsq s) L k := by
  induction L generalizing k with
  | zero => exact nsq_one
  | succ L ih =>
    simp only [leafP, nsq_mul, ih]
    by_cases h : k % 2 = 0 <;> simp [h]

/-- `ℚ → ℚ[i]` as a ring homomorphism (to instantiate the general statement at the executable ring) -/
def GQ_ofRatHom : ℚ →+* GQ where
  toFun := GQ.ofRat
  map_one' := rfl
  map_mul' := GQ_ofRat_mul
  map_zero' := rfl
  map_add' := by intro a b; ext <;> simp [GQ.ofRat]

@[simp] theorem GQ_ofRatHom_apply (q : ℚ) : GQ_ofRatHom q = GQ.ofRat q := rfl

end PM.C08
