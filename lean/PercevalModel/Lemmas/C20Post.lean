/-
  C20 — lemmas on the post-selection bookkeeping of the converter (`Model/C20Post.lean`): membership in a merged
  conjunction, the conditions stay conditions on the two rails of a qubit, the conditions of the final processor
  are exactly those of the post-processed CNOTs moved by the SWAPs that follow them.
-/
import PercevalModel.Model.C20Post
import PercevalModel.Lemmas.C20Whole

namespace PM.C20

/-- the condition on the two rails of qubit `q` -/
def pairOf (q : ℕ) : Cond := [2 * q, 2 * q + 1]

/-- exchange of two qubit positions -/
def swapQ (a b q : ℕ) : ℕ := if q = a then b else if q = b then a else q

theorem swapPairs_even (a b q : ℕ) : swapPairs a b (2 * q) = 2 * swapQ a b q := by
  unfold swapPairs swapQ; split_ifs <;> omega

theorem swapPairs_odd (a b q : ℕ) : swapPairs a b (2 * q + 1) = 2 * swapQ a b q + 1 := by
  unfold swapPairs swapQ; split_ifs <;> omega

theorem map_swapPairs_pairOf (a b q : ℕ) : (pairOf q).map (swapPairs a b) = pairOf (swapQ a b q) := by
  simp only [pairOf, List.map_cons, List.map_nil, swapPairs_even, swapPairs_odd]

theorem swapQ_lt {n a b q : ℕ} (ha : a < n) (hb : b < n) (hq : q < n) : swapQ a b q < n := by
  unfold swapQ; split_ifs <;> assumption

theorem mem_mergeConds (c : Cond) : ∀ (new cur : List Cond), c ∈ mergeConds cur new ↔ c ∈ cur ∨ c ∈ new
  | [], cur => by simp [mergeConds]
  | x :: xs, cur => by
    have ih := mem_mergeConds c xs (if x ∈ cur then cur else cur ++ [x])
    simp only [mergeConds, List.foldl_cons] at ih ⊢
    rw [ih]
    by_cases hx : x ∈ cur
    · simp only [if_pos hx, List.mem_cons]
      constructor
      · rintro (h | h)
        · exact Or.inl h
        · exact Or.inr (Or.inr h)
      · rintro (h | rfl | h)
        · exact Or.inl h
        · exact Or.inl hx
        · exact Or.inr h
    · simp only [if_neg hx, List.mem_append, List.mem_singleton, List.mem_cons]
      tauto

/-- `PostSelect.merge` never repeats a condition -/
theorem mergeConds_nodup : ∀ (new cur : List Cond), cur.Nodup → (mergeConds cur new).Nodup
  | [], _, h => h
  | x :: xs, cur, h => by
    simp only [mergeConds, List.foldl_cons]
    apply mergeConds_nodup xs
    by_cases hx : x ∈ cur
    · simpa only [if_pos hx] using h
    · simp only [if_neg hx]
      exact List.nodup_append.2 ⟨h, List.nodup_singleton x, by
        intro a ha b hb; rw [List.mem_singleton.1 hb]; rintro rfl; exact hx ha⟩

/-- one step: the saved conditions moved with the photons, and the conditions the gate brought -/
theorem mem_psStep (g : Gate) (k : String) (cur : List Cond) (c : Cond) :
    c ∈ psStep true g k cur ↔ (∃ c0 ∈ cur, c = moveStep g k c0) ∨ c ∈ ppNew g k := by
  unfold psStep moveStep ppNew
  by_cases h1 : (g.qubits.length == 1) = true
  · simp only [h1, if_true, List.not_mem_nil, or_false]
    exact ⟨fun h => ⟨c, h, rfl⟩, fun ⟨c0, h, e⟩ => e ▸ h⟩
  · simp only [h1, if_false, Bool.false_eq_true]
    by_cases h2 : (k == "PostProcessed CNOT") = true
    · have hk : k = "PostProcessed CNOT" := eq_of_beq h2
      have h3 : (k == "PERM") = false := by rw [hk]; decide
      simp only [h2, h3, if_true, if_false, Bool.false_eq_true, mem_mergeConds]
      exact ⟨fun h => h.imp (fun h => ⟨c, h, rfl⟩) id, fun h => h.imp (fun ⟨c0, h, e⟩ => e ▸ h) id⟩
    · simp only [h2, if_false, Bool.false_eq_true, List.not_mem_nil, or_false]
      by_cases h3 : (k == "PERM") = true
      · simp only [h3, if_true, condAfterSwap, List.mem_map]
        exact ⟨fun ⟨c0, h, e⟩ => ⟨c0, h, e.symm⟩, fun ⟨c0, h, e⟩ => ⟨c0, h, e.symm⟩⟩
      · simp only [h3, if_false, Bool.false_eq_true]
        exact ⟨fun h => ⟨c, h, rfl⟩, fun ⟨c0, h, e⟩ => e ▸ h⟩

/-- **the conditions of the converted processor**: those it started with, moved by all SWAPs, and those of every
post-processed CNOT, moved by the SWAPs that follow that CNOT -/
theorem mem_planPS (c : Cond) : ∀ (gs : List Gate) (ks : List String) (cur : List Cond),
    c ∈ planPS true gs ks cur ↔ (∃ c0 ∈ cur, c = trackC gs ks c0) ∨ c ∈ ppTracked gs ks
  | [], ks, cur => by
    simp only [planPS, trackC, ppTracked, List.not_mem_nil, or_false]
    exact ⟨fun h => ⟨c, h, rfl⟩, fun ⟨c0, h, e⟩ => e ▸ h⟩
  | g :: gs, [], cur => by
    simp only [planPS, trackC, ppTracked, List.not_mem_nil, or_false]
    exact ⟨fun h => ⟨c, h, rfl⟩, fun ⟨c0, h, e⟩ => e ▸ h⟩
  | g :: gs, k :: ks, cur => by
    simp only [planPS, trackC, ppTracked, List.mem_append, List.mem_map]
    rw [mem_planPS c gs ks]
    constructor
    · rintro (⟨c1, h1, rfl⟩ | h)
      · rcases (mem_psStep g k cur c1).1 h1 with ⟨c0, h0, rfl⟩ | hn
        · exact Or.inl ⟨c0, h0, rfl⟩
        · exact Or.inr (Or.inl ⟨c1, hn, rfl⟩)
      · exact Or.inr (Or.inr h)
    · rintro (⟨c0, h0, rfl⟩ | ⟨c1, hn, rfl⟩ | h)
      · exact Or.inl ⟨_, (mem_psStep g k cur _).2 (Or.inl ⟨c0, h0, rfl⟩), rfl⟩
      · exact Or.inl ⟨c1, (mem_psStep g k cur c1).2 (Or.inr hn), rfl⟩
      · exact Or.inr h

/-- a gate whose qubits are in range (what `SrcOk` gives) -/
def InRange (n : ℕ) (g : Gate) : Prop := g.qubits.length = 1 ∨ (g.qubits.getD 0 0 < n ∧ g.qubits.getD 1 0 < n)

theorem srcOk_inRange {n : ℕ} {g : Gate} (h : SrcOk n g) : InRange n g := by
  rcases h with ⟨q, hq, _⟩ | ⟨a, b, hq, ha, hb, _, _⟩
  · exact Or.inl (by rw [hq]; rfl)
  · exact Or.inr (by rw [hq]; exact ⟨ha, hb⟩)

/-- a condition on the two rails of a qubit below `n` -/
def IsPair (n : ℕ) (c : Cond) : Prop := ∃ q, q < n ∧ c = pairOf q

theorem isPair_moveStep {n : ℕ} {g : Gate} (hg : InRange n g) (k : String) {c : Cond} (h : IsPair n c) :
    IsPair n (moveStep g k c) := by
  unfold moveStep
  rcases hg with h1 | ⟨ha, hb⟩
  · simp only [h1, beq_self_eq_true, if_true]; exact h
  · split_ifs
    · exact h
    · obtain ⟨q, hq, rfl⟩ := h
      exact ⟨_, swapQ_lt ha hb hq, map_swapPairs_pairOf _ _ q⟩
    · exact h

theorem isPair_ppNew {n : ℕ} {g : Gate} (hg : InRange n g) (k : String) {c : Cond} (h : c ∈ ppNew g k) :
    IsPair n c := by
  unfold ppNew at h
  rcases hg with h1 | ⟨ha, hb⟩
  · simp [h1] at h
  · split_ifs at h
    · simp at h
    · simp only [ppConds, List.mem_cons, List.not_mem_nil, or_false] at h
      rcases h with rfl | rfl
      · exact ⟨_, ha, rfl⟩
      · exact ⟨_, hb, rfl⟩
    · simp at h

theorem isPair_trackC {n : ℕ} : ∀ (gs : List Gate) (ks : List String), (∀ g ∈ gs, InRange n g) →
    ∀ c, IsPair n c → IsPair n (trackC gs ks c)
  | [], _, _, c, h => h
  | _ :: _, [], _, c, h => h
  | g :: gs, k :: ks, hg, c, h =>
    isPair_trackC gs ks (fun g' hg' => hg g' (List.mem_cons_of_mem _ hg')) _
      (isPair_moveStep (hg g List.mem_cons_self) k h)

theorem isPair_ppTracked {n : ℕ} : ∀ (gs : List Gate) (ks : List String), (∀ g ∈ gs, InRange n g) →
    ∀ c ∈ ppTracked gs ks, IsPair n c
  | [], _, _, c, h => by simp [ppTracked] at h
  | _ :: _, [], _, c, h => by simp [ppTracked] at h
  | g :: gs, k :: ks, hg, c, h => by
    simp only [ppTracked, List.mem_append, List.mem_map] at h
    rcases h with ⟨c1, h1, rfl⟩ | h
    · exact isPair_trackC gs ks (fun g' hg' => hg g' (List.mem_cons_of_mem _ hg')) _
        (isPair_ppNew (hg g List.mem_cons_self) k h1)
    · exact isPair_ppTracked gs ks (fun g' hg' => hg g' (List.mem_cons_of_mem _ hg')) c h

/-- every condition of the converted processor sits on the two rails of one qubit -/
theorem planPS_isPair {n : ℕ} (gs : List Gate) (ks : List String) (hg : ∀ g ∈ gs, InRange n g) :
    ∀ c ∈ planPS true gs ks [], IsPair n c := by
  intro c hc
  rcases (mem_planPS c gs ks []).1 hc with ⟨c0, h0, _⟩ | h
  · simp at h0
  · exact isPair_ppTracked gs ks hg c h

/-- the post-selection expression of a list of conditions `cond == 1` -/
def condsPS : List Cond → PM.SimSpec.PS
  | [] => .tt
  | c :: cs => .and (.cond c .eq 1) (condsPS cs)

theorem condsPS_pairs : ∀ (cs : List Cond), (∀ c ∈ cs, ∃ q, c = pairOf q) →
    condsPS cs = pairPS (cs.map fun c => c.headD 0)
  | [], _ => rfl
  | c :: cs, h => by
    obtain ⟨q, rfl⟩ := h c List.mem_cons_self
    simp only [condsPS, List.map_cons, pairPS, pairOf, List.headD_cons]
    rw [condsPS_pairs cs (fun c' hc' => h c' (List.mem_cons_of_mem _ hc'))]

/-- the photons a moved condition counts behind a SWAP are those the condition counted before it -/
theorem trackC_pairOf_swap (a b q : ℕ) (g : Gate) (hq : g.qubits = [a, b]) :
    moveStep g "PERM" (pairOf q) = pairOf (swapQ a b q) := by
  unfold moveStep
  simp only [hq, List.length_cons, List.length_nil, List.getD_cons_zero, List.getD_cons_succ]
  exact map_swapPairs_pairOf a b q

end PM.C20
