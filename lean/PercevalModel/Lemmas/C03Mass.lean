/-
  C03 — unit total probability from unitarity (helper lemmas for `Props/C03.lean`).
  Uses C02's Fock-space composition / normalisation theorems (`Lemmas/FockComp.lean`).
-/
import PercevalModel.Lemmas.C03
import PercevalModel.Lemmas.FockComp

open Matrix

namespace PM.C03
open PM.Fock PM.Dist PM.SimSpec

/-- the mass of `probsFock` is the sum of the probabilities over the enumeration -/
theorem mass_probsFock {m : ℕ} (U : Matrix (Fin m) (Fin m) GQ) (s : Fock) :
    mass (probsFock U s) = ((allStates m s.sum).map (prob U s)).sum := by
  simp [mass, probsFock, Function.comp_def]

theorem zeros_length (m : ℕ) : (zeros m).length = m := by simp [zeros]

theorem realGroups_length (m : ℕ) (gs : List Fock) (h : ∀ s ∈ gs, s.length = m) :
    ∀ s ∈ realGroups m gs, s.length = m := by
  intro s hs
  unfold realGroups at hs
  simp only at hs
  split at hs
  · simp only [List.mem_singleton] at hs
    rw [hs, zeros_length]
  · exact h s (List.mem_of_mem_filter hs)

theorem nonneg_conv (a b : D) (ha : NonNeg a) (hb : NonNeg b) : NonNeg (conv a b) := by
  intro e he
  simp only [conv, List.mem_flatMap, List.mem_map] at he
  obtain ⟨p, hp, q, hq, rfl⟩ := he
  exact mul_nonneg (ha p hp) (hb q hq)

theorem nonneg_foldConv (i : D) (ds : List D) (hi : NonNeg i) (hds : ∀ d ∈ ds, NonNeg d) :
    NonNeg (foldConv i ds) := by
  induction ds generalizing i with
  | nil => exact hi
  | cons d r ih =>
    simp only [foldConv, List.foldl_cons]
    exact ih (conv i d) (nonneg_conv i d hi (hds d List.mem_cons_self))
      (fun d' hd' => hds d' (List.mem_cons_of_mem _ hd'))

theorem probsTagged_nonneg {m : ℕ} (U : Matrix (Fin m) (Fin m) GQ) (gs : List Fock) :
    NonNeg (probsTagged U gs) := by
  rw [probsTagged_eq_foldConv]
  apply nonneg_foldConv
  · intro e he
    simp only [List.mem_singleton] at he
    rw [he]
    exact zero_le_one
  · intro d hd
    obtain ⟨s, _, rfl⟩ := List.mem_map.1 hd
    exact probsFock_nonneg U s

/-! ### superposed members: `gatherAmps` sums amplitudes of equal keys -/

abbrev AL := List (List Fock × GQ)

theorem ampGet_cons' (q : List Fock × GQ) (r : AL) (K : List Fock) :
    ampGet (q :: r) K = (if q.1 = K then q.2 else 0) + ampGet r K := by
  unfold ampGet
  by_cases h : q.1 = K
  · simp [List.filter_cons, h]
  · simp [List.filter_cons, h]

theorem ampGet_of_not_mem (l : AL) (K : List Fock) (h : K ∉ l.map (·.1)) : ampGet l K = 0 := by
  induction l with
  | nil => rfl
  | cons q r ih =>
    rw [ampGet_cons']
    simp only [List.map_cons, List.mem_cons, not_or] at h
    rw [if_neg (fun e => h.1 e.symm), ih h.2, add_zero]

theorem ampGet_self (l : AL) (hnd : (l.map (·.1)).Nodup) (p : List Fock × GQ) (hp : p ∈ l) :
    ampGet l p.1 = p.2 := by
  induction l with
  | nil => cases hp
  | cons q r ih =>
    rw [ampGet_cons']
    simp only [List.map_cons, List.nodup_cons] at hnd
    rcases List.mem_cons.1 hp with rfl | hp'
    · rw [if_pos rfl, ampGet_of_not_mem r _ hnd.1, add_zero]
    · have : q.1 ≠ p.1 := fun e => hnd.1 (e ▸ List.mem_map_of_mem hp')
      rw [if_neg this, zero_add, ih hnd.2 hp']

def gstep (acc : AL) (p : List Fock × GQ) : AL :=
  if acc.any (·.1 == p.1) then acc.map (fun q => if q.1 == p.1 then (q.1, q.2 + p.2) else q)
  else acc ++ [p]

theorem gatherAmps_eq (l : AL) : gatherAmps l = l.foldl gstep [] := rfl

theorem keys_upd (acc : AL) (p : List Fock × GQ) :
    (acc.map (fun q => if q.1 == p.1 then (q.1, q.2 + p.2) else q)).map (·.1) = acc.map (·.1) := by
  rw [List.map_map]
  apply List.map_congr_left
  intro q _
  simp only [Function.comp_apply]
  split <;> rfl

theorem ampGet_upd (acc : AL) (p : List Fock × GQ) (K : List Fock) (hnd : (acc.map (·.1)).Nodup) :
    ampGet (acc.map (fun q => if q.1 == p.1 then (q.1, q.2 + p.2) else q)) K =
      ampGet acc K + if p.1 ∈ acc.map (·.1) ∧ p.1 = K then p.2 else 0 := by
  induction acc with
  | nil => simp [ampGet]
  | cons q r ih =>
    simp only [List.map_cons, List.nodup_cons] at hnd
    by_cases hq : q.1 = p.1
    · have hnot : p.1 ∉ r.map (·.1) := hq ▸ hnd.1
      have hf : (if (q.1 == p.1) = true then (q.1, q.2 + p.2) else q) = (q.1, q.2 + p.2) := by
        simp [hq]
      have hmem : p.1 ∈ (q :: r).map (·.1) := by rw [← hq]; simp
      rw [List.map_cons, hf, ampGet_cons', ampGet_cons', ih hnd.2]
      have c1 : ¬ (p.1 ∈ r.map (·.1) ∧ p.1 = K) := fun h => hnot h.1
      rw [if_neg c1]
      dsimp only
      by_cases hK : p.1 = K
      · have hqK : q.1 = K := hq.trans hK
        rw [if_pos hqK, if_pos hqK, if_pos ⟨hmem, hK⟩]; ring
      · have hqK : ¬ q.1 = K := fun e => hK (hq ▸ e)
        have c2 : ¬ (p.1 ∈ (q :: r).map (·.1) ∧ p.1 = K) := fun h => hK h.2
        rw [if_neg hqK, if_neg hqK, if_neg c2]; ring
    · have hf : (if (q.1 == p.1) = true then (q.1, q.2 + p.2) else q) = q := by simp [hq]
      rw [List.map_cons, hf, ampGet_cons', ampGet_cons', ih hnd.2]
      have : (p.1 ∈ (q :: r).map (·.1) ∧ p.1 = K) ↔ (p.1 ∈ r.map (·.1) ∧ p.1 = K) := by
        simp only [List.map_cons, List.mem_cons]
        constructor
        · rintro ⟨h | h, hK⟩
          · exact absurd h.symm hq
          · exact ⟨h, hK⟩
        · rintro ⟨h, hK⟩; exact ⟨Or.inr h, hK⟩
      rw [if_congr this rfl rfl]; ring

theorem gstep_spec (acc : AL) (p : List Fock × GQ) (hnd : (acc.map (·.1)).Nodup) :
    ((gstep acc p).map (·.1)).Nodup ∧
    (∀ K, ampGet (gstep acc p) K = ampGet acc K + if p.1 = K then p.2 else 0) ∧
    (∀ K, K ∈ (gstep acc p).map (·.1) ↔ K ∈ acc.map (·.1) ∨ K = p.1) := by
  unfold gstep
  by_cases h : acc.any (·.1 == p.1) = true
  · have hmem : p.1 ∈ acc.map (·.1) := by
      obtain ⟨q, hq, he⟩ := List.any_eq_true.1 h
      have : q.1 = p.1 := by simpa using he
      exact this ▸ List.mem_map_of_mem hq
    rw [if_pos h]
    refine ⟨by rw [keys_upd]; exact hnd, fun K => ?_, fun K => ?_⟩
    · rw [ampGet_upd acc p K hnd]
      simp [hmem]
    · rw [keys_upd]
      constructor
      · exact fun hK => Or.inl hK
      · rintro (hK | rfl)
        · exact hK
        · exact hmem
  · have hnot : p.1 ∉ acc.map (·.1) := by
      intro hm
      obtain ⟨q, hq, he⟩ := List.mem_map.1 hm
      exact h (List.any_eq_true.2 ⟨q, hq, by simp [he]⟩)
    rw [if_neg h]
    refine ⟨?_, fun K => ?_, fun K => ?_⟩
    · rw [List.map_append, List.nodup_append]
      refine ⟨hnd, by simp, ?_⟩
      intro a ha b hb
      simp only [List.map_cons, List.map_nil, List.mem_singleton] at hb
      rintro rfl
      exact hnot (hb ▸ ha)
    · rw [ampGet_append, ampGet_cons', ampGet_nil, add_zero]
    · simp [List.map_append]

theorem gather_inv (l acc : AL) (hnd : (acc.map (·.1)).Nodup) :
    ((l.foldl gstep acc).map (·.1)).Nodup ∧
    (∀ K, ampGet (l.foldl gstep acc) K = ampGet acc K + ampGet l K) ∧
    (∀ K, K ∈ (l.foldl gstep acc).map (·.1) ↔ K ∈ acc.map (·.1) ∨ K ∈ l.map (·.1)) := by
  induction l generalizing acc with
  | nil => exact ⟨hnd, by simp [ampGet_nil], by simp⟩
  | cons p r ih =>
    obtain ⟨h1, h2, h3⟩ := gstep_spec acc p hnd
    obtain ⟨i1, i2, i3⟩ := ih (gstep acc p) h1
    simp only [List.foldl_cons]
    refine ⟨i1, fun K => ?_, fun K => ?_⟩
    · rw [i2, h2, ampGet_cons', add_assoc]
    · rw [i3, h3]
      simp only [List.map_cons, List.mem_cons]
      tauto

/-- summing over the gathered list = summing over its key set, reading the amplitudes off the raw list -/
theorem sum_gatherAmps {M : Type*} [AddCommMonoid M] (l : AL) (g : List Fock → GQ → M) :
    ((gatherAmps l).map fun p => g p.1 p.2).sum =
      ∑ K ∈ (l.map (·.1)).toFinset, g K (ampGet l K) := by
  obtain ⟨h1, h2, h3⟩ := gather_inv l [] (by simp)
  rw [← gatherAmps_eq] at h1 h2 h3
  have hS : (l.map (·.1)).toFinset = ((gatherAmps l).map (·.1)).toFinset := by
    ext K
    simp only [List.mem_toFinset]
    rw [h3]; simp
  rw [hS, List.sum_toFinset _ h1, List.map_map]
  congr 1
  apply List.map_congr_left
  intro p hp
  simp only [Function.comp_apply]
  have := h2 p.1
  rw [ampGet_nil, zero_add] at this
  rw [← this, ampGet_self _ h1 p hp]

/-! ### superposed members: orthogonality of the evolved basis states -/

open PM.FockComp

theorem sum_flatMap' {α β M : Type*} [AddCommMonoid M] (l : List α) (f : α → List β) (g : β → M) :
    ((l.flatMap f).map g).sum = (l.map fun a => ((f a).map g).sum).sum := by
  induction l with
  | nil => rfl
  | cons a r ih => simp [List.flatMap_cons, ih]

/-- `1 / ∏_g ∏ t_g!` in `GQ` -/
def ginv (K : List Fock) : GQ := (K.map gqInv).prod

theorem ofRat_mul (a b : ℚ) : GQ.ofRat a * GQ.ofRat b = GQ.ofRat (a * b) := by
  ext <;> simp [GQ.ofRat]

theorem ginv_eq (K : List Fock) :
    ginv K = GQ.ofRat (1 / (((K.map prodFact).prod : ℕ) : ℚ)) := by
  induction K with
  | nil => simp [ginv]; rfl
  | cons t K ih =>
    have : ginv (t :: K) = gqInv t * ginv K := by simp [ginv]
    rw [this, ih, gqInv, ofRat_mul]
    congr 1
    simp only [List.map_cons, List.prod_cons, Nat.cast_mul]
    rw [one_div_mul_one_div]

theorem mul_ginv_re (x : GQ) (K : List Fock) :
    (x * ginv K).re = x.re / (((K.map prodFact).prod : ℕ) : ℚ) := by
  rw [ginv_eq]
  simp [GQ.ofRat, div_eq_mul_inv]

/-- orthogonality of the columns of the Fock-space operator of a unitary -/
theorem sum_star_pamp_mul_pamp {m : ℕ} (U : Matrix (Fin m) (Fin m) GQ) (hU : Uᴴ * U = 1) (s s' : Fock)
    (hs : s.length = m) (hs' : s'.length = m) :
    ((allStates m s.sum).map fun t => star (pamp U s t) * pamp U s' t * gqInv t).sum =
      if s = s' then ((prodFact s : ℕ) : GQ) else 0 := by
  by_cases hsum : s'.sum = s.sum
  · have h := pamp_mul_of_inv gqInv (fun u _ => gqInv_mul u) Uᴴ U s' s hs' hs hsum rfl
    rw [hU, pamp_one s' s hs' hs hsum, List.sum_toFinset _ (allStates_nodup m s.sum)] at h
    rw [show (fun t => star (pamp U s t) * pamp U s' t * gqInv t) =
      fun t => pamp Uᴴ t s * pamp U s' t * gqInv t from by
        funext t; rw [pamp_conjTranspose], ← h]
    by_cases e : s = s'
    · subst e; simp
    · rw [if_neg e, if_neg e]
  · have hne : s ≠ s' := fun e => hsum (e ▸ rfl)
    rw [if_neg hne]
    apply List.sum_eq_zero
    intro x hx
    obtain ⟨t, ht, rfl⟩ := List.mem_map.1 hx
    have : pamp U s' t = 0 := by
      unfold pamp
      rw [if_neg]
      rw [((mem_allStates_iff m s.sum t).1 ht).2]
      exact hsum
    rw [this]; ring

/-! ### amplitudes of the tuple lists -/

theorem ampGet_map_cons (X : AL) (t' t : Fock) (c : GQ) (K' : List Fock) :
    ampGet (X.map fun q => (t' :: q.1, c * q.2)) (t :: K') = if t' = t then c * ampGet X K' else 0 := by
  induction X with
  | nil => simp [ampGet]
  | cons q r ih =>
    rw [List.map_cons, ampGet_cons', ampGet_cons', ih]
    dsimp only
    by_cases ht : t' = t
    · subst ht
      simp only [List.cons.injEq, true_and, ↓reduceIte]
      split_ifs <;> ring
    · have : ¬ (t' :: q.1 = t :: K') := by simp [ht]
      simp only [this, ht, ↓reduceIte]; ring

theorem ampGet_map_cons_nil (X : AL) (t' : Fock) (c : GQ) :
    ampGet (X.map fun q => (t' :: q.1, c * q.2)) [] = 0 := by
  apply ampGet_of_not_mem
  simp

theorem ampGet_flatMap_cons (A : List Fock) (hA : A.Nodup) (f : Fock → GQ) (X : AL) (t : Fock)
    (K' : List Fock) :
    ampGet (A.flatMap fun t' => X.map fun q => (t' :: q.1, f t' * q.2)) (t :: K') =
      if t ∈ A then f t * ampGet X K' else 0 := by
  induction A with
  | nil => simp [ampGet]
  | cons a r ih =>
    rw [List.nodup_cons] at hA
    rw [List.flatMap_cons, ampGet_append, ampGet_map_cons, ih hA.2]
    by_cases ha : a = t
    · subst ha
      rw [if_pos rfl, if_neg hA.1, if_pos List.mem_cons_self, add_zero]
    · rw [if_neg ha, zero_add]
      have : t ∈ a :: r ↔ t ∈ r := by
        simp only [List.mem_cons]
        constructor
        · rintro (h | h)
          · exact absurd h.symm ha
          · exact h
        · exact Or.inr
      rw [if_congr this rfl rfl]

theorem ampGet_flatMap_nil (A : List Fock) (f : Fock → GQ) (X : AL) :
    ampGet (A.flatMap fun t' => X.map fun q => (t' :: q.1, f t' * q.2)) [] = 0 := by
  apply ampGet_of_not_mem
  simp

theorem tuples_cons {m : ℕ} (U : Matrix (Fin m) (Fin m) GQ) (s : Fock) (rest : List Fock) :
    tuples U (s :: rest) = (allStates m s.sum).flatMap fun t =>
      (tuples U rest).map fun p => (t :: p.1, pamp U s t * p.2) := rfl

/-- amplitude of a tuple key under the tuple list of another group list -/
theorem ampGet_tuples_cons {m : ℕ} (U : Matrix (Fin m) (Fin m) GQ) (s' : Fock) (r' : List Fock)
    (t : Fock) (ht : t.length = m) (K' : List Fock) :
    ampGet (tuples U (s' :: r')) (t :: K') = pamp U s' t * ampGet (tuples U r') K' := by
  rw [tuples_cons, ampGet_flatMap_cons _ (allStates_nodup m s'.sum) (fun t => pamp U s' t)]
  by_cases h : t ∈ allStates m s'.sum
  · rw [if_pos h]
  · rw [if_neg h]
    have : pamp U s' t = 0 := by
      unfold pamp
      rw [if_neg]
      intro e
      exact h ((mem_allStates_iff m s'.sum t).2 ⟨ht, e.symm⟩)
    rw [this, zero_mul]

/-- inner product of the evolved basis states `gs`, `gs'` -/
def tupIP {m : ℕ} (U : Matrix (Fin m) (Fin m) GQ) (gs gs' : List Fock) : GQ :=
  ((tuples U gs).map fun p => star p.2 * ampGet (tuples U gs') p.1 * ginv p.1).sum

theorem tupIP_eq {m : ℕ} (U : Matrix (Fin m) (Fin m) GQ) (hU : Uᴴ * U = 1) :
    ∀ gs gs' : List Fock, (∀ s ∈ gs, s.length = m) → (∀ s ∈ gs', s.length = m) →
      tupIP U gs gs' = if gs = gs' then (((gs.map prodFact).prod : ℕ) : GQ) else 0
  | [], [], _, _ => by
    simp [tupIP, tuples, ginv, ampGet]
  | [], s' :: r', _, _ => by
    have : ampGet (tuples U (s' :: r')) [] = 0 := by
      rw [tuples_cons]
      exact ampGet_flatMap_nil _ (fun t => pamp U s' t) _
    unfold tupIP
    rw [show tuples U [] = [([], 1)] from rfl]
    simp [this]
  | s :: r, [], _, _ => by
    rw [if_neg (by simp)]
    unfold tupIP
    apply List.sum_eq_zero
    intro x hx
    obtain ⟨p, hp, rfl⟩ := List.mem_map.1 hx
    have : ampGet (tuples U []) p.1 = 0 := by
      apply ampGet_of_not_mem
      simp only [tuples, List.map_cons, List.map_nil, List.mem_singleton]
      simp only [tuples, List.mem_flatMap, List.mem_map] at hp
      obtain ⟨t, _, q, _, rfl⟩ := hp
      simp
    rw [this]; ring
  | s :: r, s' :: r', h, h' => by
    have ih := tupIP_eq U hU r r' (fun x hx => h x (List.mem_cons_of_mem _ hx))
      (fun x hx => h' x (List.mem_cons_of_mem _ hx))
    have hs := h s List.mem_cons_self
    have hs' := h' s' List.mem_cons_self
    have key : tupIP U (s :: r) (s' :: r') =
        ((allStates m s.sum).map fun t => star (pamp U s t) * pamp U s' t * gqInv t).sum *
          tupIP U r r' := by
      unfold tupIP
      rw [tuples_cons U s r, sum_flatMap', ← List.sum_map_mul_right]
      congr 1
      apply List.map_congr_left
      intro t ht
      have htl : t.length = m := ((mem_allStates_iff m s.sum t).1 ht).1
      rw [List.map_map, ← List.sum_map_mul_left]
      congr 1
      apply List.map_congr_left
      intro p _
      simp only [Function.comp_apply]
      rw [ampGet_tuples_cons U s' r' t htl]
      have : ginv (t :: p.1) = gqInv t * ginv p.1 := by simp [ginv]
      rw [this, star_mul']
      ring
    rw [key, sum_star_pamp_mul_pamp U hU s s' hs hs', ih]
    by_cases e1 : s = s'
    · by_cases e2 : r = r'
      · subst e1; subst e2
        simp [Nat.cast_mul]
      · have : ¬ (s :: r = s' :: r') := by simp [e2]
        rw [if_neg e2, if_neg this, mul_zero]
    · have : ¬ (s :: r = s' :: r') := by simp [e1]
      rw [if_neg e1, if_neg this, zero_mul]

/-! ### superposed members: ‖Uψ‖² = ‖ψ‖² -/

theorem tuples_keys {m : ℕ} (U : Matrix (Fin m) (Fin m) GQ) (s : Fock) (r : List Fock) :
    (tuples U (s :: r)).map (·.1) =
      (allStates m s.sum).flatMap fun t => ((tuples U r).map (·.1)).map (t :: ·) := by
  rw [tuples_cons, List.map_flatMap]
  simp [List.map_map, Function.comp_def]

theorem tuples_keys_nodup {m : ℕ} (U : Matrix (Fin m) (Fin m) GQ) :
    ∀ gs : List Fock, ((tuples U gs).map (·.1)).Nodup
  | [] => by simp [tuples]
  | s :: r => by
    rw [tuples_keys, List.nodup_flatMap]
    constructor
    · intro t _
      exact (tuples_keys_nodup U r).map (fun a b h => by simpa using h)
    · apply List.Pairwise.imp_of_mem (R := fun a b => a ≠ b)
      · intro a b _ _ hab
        simp only [Function.onFun, List.disjoint_left, List.mem_map]
        rintro x ⟨r, _, rfl⟩ ⟨r', _, h⟩
        simp at h
        exact hab h.1.symm
      · exact allStates_nodup m s.sum

theorem ampGet_flatMap_termAmps {m : ℕ} (U : Matrix (Fin m) (Fin m) GQ) (terms : List Term)
    (K : List Fock) :
    ampGet (terms.flatMap (termAmps U)) K =
      (terms.map fun t => t.coef * ampGet (tuples U t.groups) K).sum := by
  induction terms with
  | nil => rfl
  | cons t r ih =>
    rw [List.flatMap_cons, ampGet_append, ih, List.map_cons, List.sum_cons]
    congr 1
    exact ampGet_map_mul t.coef (tuples U t.groups) K

/-- inner product of two evolved basis states, summed over any key set that contains the first one's keys -/
theorem sum_keys_eq_tupIP {m : ℕ} (U : Matrix (Fin m) (Fin m) GQ) (gs gs' : List Fock)
    (S : Finset (List Fock)) (hS : ∀ K ∈ (tuples U gs).map (·.1), K ∈ S) :
    ∑ K ∈ S, star (ampGet (tuples U gs) K) * ampGet (tuples U gs') K * ginv K = tupIP U gs gs' := by
  have hsub : ((tuples U gs).map (·.1)).toFinset ⊆ S := by
    intro K hK
    exact hS K (List.mem_toFinset.1 hK)
  rw [← Finset.sum_subset hsub]
  · rw [List.sum_toFinset _ (tuples_keys_nodup U gs), List.map_map]
    unfold tupIP
    congr 1
    apply List.map_congr_left
    intro p hp
    simp only [Function.comp_apply]
    rw [ampGet_self _ (tuples_keys_nodup U gs) p hp]
  · intro K _ hK
    rw [ampGet_of_not_mem _ K (fun h => hK (List.mem_toFinset.2 h))]
    simp

theorem sv_norm_core {m : ℕ} (U : Matrix (Fin m) (Fin m) GQ) (hU : Uᴴ * U = 1) (terms : List Term)
    (hlen : ∀ t ∈ terms, ∀ s ∈ t.groups, s.length = m) (hnd : (terms.map (·.groups)).Nodup) :
    ∑ K ∈ ((terms.flatMap (termAmps U)).map (·.1)).toFinset,
        star (ampGet (terms.flatMap (termAmps U)) K) * ampGet (terms.flatMap (termAmps U)) K * ginv K
      = (terms.map fun t => star t.coef * t.coef * (((t.groups.map prodFact).prod : ℕ) : GQ)).sum := by
  set S := ((terms.flatMap (termAmps U)).map (·.1)).toFinset with hSdef
  have hA : ∀ K, ampGet (terms.flatMap (termAmps U)) K =
      ∑ i : Fin terms.length, terms[i.val].coef * ampGet (tuples U terms[i.val].groups) K := by
    intro K
    rw [ampGet_flatMap_termAmps,
      ← Fin.sum_univ_fun_getElem terms (fun t => t.coef * ampGet (tuples U t.groups) K)]
  have hkeys : ∀ i : Fin terms.length, ∀ K ∈ (tuples U terms[i.val].groups).map (·.1), K ∈ S := by
    intro i K hK
    rw [hSdef, List.mem_toFinset]
    obtain ⟨p, hp, rfl⟩ := List.mem_map.1 hK
    refine List.mem_map.2 ⟨(p.1, terms[i.val].coef * p.2), ?_, rfl⟩
    refine List.mem_flatMap.2 ⟨terms[i.val], List.getElem_mem _, ?_⟩
    exact List.mem_map.2 ⟨p, hp, rfl⟩
  calc ∑ K ∈ S, star (ampGet (terms.flatMap (termAmps U)) K) *
          ampGet (terms.flatMap (termAmps U)) K * ginv K
      = ∑ K ∈ S, ∑ i : Fin terms.length, ∑ j : Fin terms.length,
          (star terms[i.val].coef * terms[j.val].coef) *
            (star (ampGet (tuples U terms[i.val].groups) K) * ampGet (tuples U terms[j.val].groups) K *
              ginv K) := by
        refine Finset.sum_congr rfl fun K _ => ?_
        rw [hA K, star_sum, Finset.sum_mul_sum, Finset.sum_mul]
        refine Finset.sum_congr rfl fun i _ => ?_
        rw [Finset.sum_mul]
        refine Finset.sum_congr rfl fun j _ => ?_
        rw [star_mul']
        ring
    _ = ∑ i : Fin terms.length, ∑ j : Fin terms.length,
          (star terms[i.val].coef * terms[j.val].coef) * tupIP U terms[i.val].groups terms[j.val].groups := by
        rw [Finset.sum_comm]
        refine Finset.sum_congr rfl fun i _ => ?_
        rw [Finset.sum_comm]
        refine Finset.sum_congr rfl fun j _ => ?_
        rw [← Finset.mul_sum, sum_keys_eq_tupIP U _ _ S (hkeys i)]
    _ = ∑ i : Fin terms.length,
          star terms[i.val].coef * terms[i.val].coef * (((terms[i.val].groups.map prodFact).prod : ℕ) : GQ) := by
        refine Finset.sum_congr rfl fun i _ => ?_
        rw [Finset.sum_eq_single i]
        · rw [tupIP_eq U hU terms[i.val].groups terms[i.val].groups (hlen _ (List.getElem_mem _))
            (hlen _ (List.getElem_mem _)), if_pos rfl]
        · intro j _ hji
          rw [tupIP_eq U hU terms[i.val].groups terms[j.val].groups (hlen _ (List.getElem_mem _))
            (hlen _ (List.getElem_mem _)), if_neg, mul_zero]
          intro e
          apply hji
          have := (List.Nodup.getElem_inj_iff hnd (i := i.val) (j := j.val)
            (hi := by simp) (hj := by simp)).1 (by simpa using e)
          exact Fin.ext this.symm
        · intro h; exact absurd (Finset.mem_univ i) h
    _ = _ := Fin.sum_univ_fun_getElem terms
          (fun t => star t.coef * t.coef * (((t.groups.map prodFact).prod : ℕ) : GQ))

theorem normSq_div_eq (v : GQ) (K : List Fock) :
    GQ.normSq v / (((K.map prodFact).prod : ℕ) : ℚ) = reHom (star v * v * ginv K) := by
  show _ = (star v * v * ginv K).re
  rw [mul_ginv_re]
  congr 1
  simp [GQ.normSq]

/-- total probability of a superposed member, before using unitarity -/
theorem mass_probsSV {m : ℕ} (U : Matrix (Fin m) (Fin m) GQ) (terms : List Term) :
    mass (probsSV U terms) =
      reHom (∑ K ∈ ((terms.flatMap (termAmps U)).map (·.1)).toFinset,
        star (ampGet (terms.flatMap (termAmps U)) K) * ampGet (terms.flatMap (termAmps U)) K * ginv K)
        / svNorm2 terms := by
  have h := sum_gatherAmps (terms.flatMap (termAmps U))
    (fun K v => GQ.normSq v / (((K.map prodFact).prod : ℕ) : ℚ) / svNorm2 terms)
  have e : mass (probsSV U terms) = ((gatherAmps (terms.flatMap (termAmps U))).map fun p =>
      GQ.normSq p.2 / (((p.1.map prodFact).prod : ℕ) : ℚ) / svNorm2 terms).sum := by
    simp [mass, probsSV, svAmps, Function.comp_def]
  rw [e, h, map_sum, div_eq_mul_inv, Finset.sum_mul]
  refine Finset.sum_congr rfl fun K _ => ?_
  rw [normSq_div_eq, div_eq_mul_inv]

theorem probsSV_mass_one_aux {m : ℕ} (U : Matrix (Fin m) (Fin m) GQ) (hU : Uᴴ * U = 1)
    (terms : List Term) (hlen : ∀ t ∈ terms, ∀ s ∈ t.groups, s.length = m)
    (hnd : (terms.map (·.groups)).Nodup) (hN : svNorm2 terms ≠ 0) : mass (probsSV U terms) = 1 := by
  rw [mass_probsSV, sv_norm_core U hU terms hlen hnd, map_list_sum, List.map_map]
  have : (terms.map (reHom ∘ fun t : Term =>
      star t.coef * t.coef * (((t.groups.map prodFact).prod : ℕ) : GQ))) =
      terms.map fun t => GQ.normSq t.coef * ((t.groups.map prodFact).prod : ℚ) := by
    apply List.map_congr_left
    intro t _
    show (star t.coef * t.coef * (((t.groups.map prodFact).prod : ℕ) : GQ)).re = _
    rw [GQ_natCast]
    simp [GQ.ofRat, GQ.normSq]
  rw [this]
  exact div_self hN

/-- the squared norm of a superposition is non-zero as soon as one coefficient is -/
theorem svNorm2_ne_zero (terms : List Term) (h : ∃ t ∈ terms, t.coef ≠ 0) : svNorm2 terms ≠ 0 := by
  have hnn : ∀ t : Term, 0 ≤ GQ.normSq t.coef * ((t.groups.map prodFact).prod : ℚ) := by
    intro t
    apply mul_nonneg
    · unfold GQ.normSq
      exact add_nonneg (mul_self_nonneg _) (mul_self_nonneg _)
    · positivity
  obtain ⟨t, ht, hc⟩ := h
  have hpos : 0 < GQ.normSq t.coef * ((t.groups.map prodFact).prod : ℚ) := by
    apply mul_pos
    · unfold GQ.normSq
      by_contra hle
      have h1 := mul_self_nonneg t.coef.re
      have h2 := mul_self_nonneg t.coef.im
      have e1 : t.coef.re * t.coef.re = 0 := by linarith
      have e2 : t.coef.im * t.coef.im = 0 := by linarith
      apply hc
      ext
      · simpa using e1
      · simpa using e2
    · have : ((t.groups.map prodFact).prod : ℕ) ≠ 0 := by
        apply List.prod_ne_zero
        intro h0
        obtain ⟨s, _, hs⟩ := List.mem_map.1 h0
        exact prodFact_ne_zero s hs
      exact_mod_cast Nat.pos_of_ne_zero this
  have hle : GQ.normSq t.coef * ((t.groups.map prodFact).prod : ℚ) ≤ svNorm2 terms := by
    unfold svNorm2
    exact List.single_le_sum (fun x hx => by
      obtain ⟨t', _, rfl⟩ := List.mem_map.1 hx
      exact hnn t') _ (List.mem_map.2 ⟨t, ht, rfl⟩)
  exact ne_of_gt (lt_of_lt_of_le hpos hle)

/-- a well-formed member of a mixture of superpositions: `m`-mode groups, pairwise distinct basis states,
not the zero vector -/
def MemberOK (m : ℕ) (mb : Member) : Prop :=
  (∀ t ∈ mb.terms, ∀ s ∈ t.groups, s.length = m) ∧ (mb.terms.map (·.groups)).Nodup ∧
    svNorm2 mb.terms ≠ 0

/-- witness for `Props/C03.lean`: `|2,0>_a|0,1>_b + i·|1,1>_a|1,0>_b` (rescaled coefficients) -/
def exSV : List Term := [⟨1, [[2, 0], [0, 1]]⟩, ⟨⟨0, 1⟩, [[1, 1], [1, 0]]⟩]

end PM.C03
