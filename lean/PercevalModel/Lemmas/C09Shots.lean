/-
  C09 (extension) — the shots of the sampling loop, run by the lazy provider on independent streams, are
  independent draws.
-/
import PercevalModel.Lemmas.C09Fubini

set_option linter.unusedSimpArgs false
set_option linter.unusedVariables false

namespace PM.C09

open PM.Dist (D mass)

/-- the sites of randomness of the sampling loop -/
inductive Site where
  | bk (k : Fock)      -- the sampling backend's stream for the input state k
  | det (st : Fock)    -- the detectors' stream for the incoming state st
  deriving DecidableEq

def siteLaw (bk detK : Fock → D) : Site → D
  | .bk k => bk k
  | .det st => detK st

theorem siteLaw_mass (bk detK : Fock → D) (hbk : ∀ k, mass (bk k) = 1) (hdet : ∀ st, mass (detK st) = 1) :
    ∀ s, mass (siteLaw bk detK s) = 1
  | .bk k => hbk k
  | .det st => hdet st

/-! ### the backend reads of one shot -/

/-- the reads of one shot: one draw per component, from the backend stream of that component's input state -/
def readComps : List Fock → Reader Site (List Fock)
  | [] => .done []
  | k :: ks => .read (.bk k) fun v => (readComps ks).map (v :: ·)

theorem readComps_exR (bk detK : Fock → D) (ks : List Fock) (F : List Fock → ℚ) :
    (readComps ks).exR (siteLaw bk detK) F = exComps bk ks F := by
  induction ks generalizing F with
  | nil => rfl
  | cons k ks ih =>
    simp only [readComps, Reader.exR, exComps, siteLaw]
    apply ex_congr'
    intro v
    rw [Reader.exR_map, ih]

/-! ### one shot -/

/-- what follows the backend reads: the merge, then the detectors -/
def detRd (dm : DetMode) (vs : List Fock) : Reader Site (Option Fock) :=
  match mergeAll vs with
  | none => .done none
  | some st0 =>
    match dm with
    | .none => .done (some st0)
    | .threshold => .done (some (st0.map (min 1)))
    | .random => .read (.det st0) fun x => .done (some x)

/-- the reads of ONE shot for the emitted input `inp`; result = the detected state (`none` when the merge
fails: the input has no component) -/
def shotRd (dm : DetMode) (inp : InDraw) : Reader Site (Option Fock) :=
  (readComps inp).bind fun vs =>
    match mergeAll vs with
    | none => .done none
    | some st0 =>
      match dm with
      | .none => .done (some st0)
      | .threshold => .done (some (st0.map (min 1)))
      | .random => .read (.det st0) fun x => .done (some x)

theorem shotRd_eq_bind (dm : DetMode) (inp : InDraw) : shotRd dm inp = (readComps inp).bind (detRd dm) := rfl

theorem shotRd_exR (bk detK : Fock → D) (inp : InDraw) (g : Option Fock → ℚ) :
    (shotRd .random inp).exR (siteLaw bk detK) g =
      exComps bk inp fun vs =>
        match mergeAll vs with
        | some st => ex (detK st) (fun x => g (some x))
        | none => g none := by
  rw [shotRd_eq_bind, Reader.exR_bind, readComps_exR]
  congr 1
  funext vs
  unfold detRd
  cases mergeAll vs <;> rfl

theorem shotRd_exR_none (bk detK : Fock → D) (inp : InDraw) (g : Option Fock → ℚ) :
    (shotRd .none inp).exR (siteLaw bk detK) g = exComps bk inp fun vs => g (mergeAll vs) := by
  rw [shotRd_eq_bind, Reader.exR_bind, readComps_exR]
  congr 1
  funext vs
  unfold detRd
  cases mergeAll vs <;> rfl

theorem shotRd_exR_threshold (bk detK : Fock → D) (inp : InDraw) (g : Option Fock → ℚ) :
    (shotRd .threshold inp).exR (siteLaw bk detK) g =
      exComps bk inp fun vs => g ((mergeAll vs).map fun st => st.map (min 1)) := by
  rw [shotRd_eq_bind, Reader.exR_bind, readComps_exR]
  congr 1
  funext vs
  unfold detRd
  cases mergeAll vs <;> rfl

/-- the one-shot law `exShot` is the mixture over the emitted input of the law of the reader of one shot -/
theorem exShot_eq_shotRd (inputs : List (ℚ × InDraw)) (bk detK : Fock → D) (f : Fock → ℚ) :
    exShot inputs bk detK f =
      (inputs.map fun p => p.1 * (shotRd .random p.2).exR (siteLaw bk detK)
        (fun o => match o with | some x => f x | none => 0)).sum := by
  unfold exShot
  congr 1
  apply List.map_congr_left
  intro p _
  rw [shotRd_exR]
  congr 2

/-! ### N shots in a row -/

def shotsRd (dm : DetMode) : List InDraw → Reader Site (List (Option Fock))
  | [] => .done []
  | inp :: rest => (shotRd dm inp).bind fun o => (shotsRd dm rest).map (o :: ·)

/-- iterated expectation: every shot independent of the previous ones -/
def exShots (bk detK : Fock → D) (dm : DetMode) : List InDraw → (List (Option Fock) → ℚ) → ℚ
  | [], F => F []
  | inp :: rest, F =>
    (shotRd dm inp).exR (siteLaw bk detK) fun o => exShots bk detK dm rest fun l => F (o :: l)

theorem shotsRd_exR (bk detK : Fock → D) (dm : DetMode) (inps : List InDraw) (F : List (Option Fock) → ℚ) :
    (shotsRd dm inps).exR (siteLaw bk detK) F = exShots bk detK dm inps F := by
  induction inps generalizing F with
  | nil => rfl
  | cons inp rest ih =>
    simp only [shotsRd, exShots]
    rw [Reader.exR_bind]
    congr 1
    funext o
    rw [Reader.exR_map, ih]

/-- **the shots of the lazy provider on independent streams are independent draws** -/
theorem lazy_shots_independent (bk detK : Fock → D) (hbk : ∀ k, PM.Dist.mass (bk k) = 1)
    (hdet : ∀ st, PM.Dist.mass (detK st) = 1)
    (dm : DetMode) (inps : List InDraw) (sites : List Site) (hnd : sites.Nodup) (len : Site → ℕ)
    (hfit : (shotsRd dm inps).Fits len) (hout : ∀ s, s ∉ sites → len s = 0) (F : List (Option Fock) → ℚ) :
    exStreams (siteLaw bk detK) len sites
        (fun q => match (shotsRd dm inps).run q with | some l => F l | none => 0)
      = exShots bk detK dm inps F := by
  rw [← shotsRd_exR, ← adaptive_reading (siteLaw bk detK) (siteLaw_mass bk detK hbk hdet) sites hnd
    (shotsRd dm inps) len hfit hout F]
  apply exStreams_congr
  intro q
  cases (shotsRd dm inps).run q <;> rfl


/-! ### fitting the streams on the SUPPORT of the laws

`Reader.Fits` asks the streams to be long enough for every value a read may return, in the support of the law
of the site or not.  With random detectors the site read after the backend draws is `.det (merged state)`, so
`(shotsRd .random inps).Fits len` would need `0 < len (.det st)` for EVERY state `st`, which no finite list of
sites allows.  `Reader.FitsS` only follows the values in the support of the laws; `adaptive_reading` holds
with it, and `shotsRd_fitsS` gives explicit stream lengths that are enough. -/

section supp
variable {K ρ : Type} [DecidableEq K]

/-- the streams are long enough for every path of the strategy that the laws `μ` allow -/
def Reader.FitsS (μ : K → D) : Reader K ρ → (K → ℕ) → Prop
  | .done _, _ => True
  | .read k c, len => 0 < len k ∧ ∀ p ∈ μ k, (c p.1).FitsS μ (Function.update len k (len k - 1))

/-- every result the laws `μ` allow satisfies `P` -/
def Reader.AllS (μ : K → D) (P : ρ → Prop) : Reader K ρ → Prop
  | .done r => P r
  | .read k c => ∀ p ∈ μ k, (c p.1).AllS μ P

theorem Reader.Fits.fitsS (μ : K → D) (rd : Reader K ρ) (len : K → ℕ) (h : rd.Fits len) : rd.FitsS μ len := by
  induction rd generalizing len with
  | done r => trivial
  | read k c ih => exact ⟨h.1, fun p _ => ih p.1 _ (h.2 p.1)⟩

/-- `adaptive_reading` with the fit only asked on the support of the laws -/
theorem adaptive_reading_supp (μ : K → D) (hμ : ∀ k, PM.Dist.mass (μ k) = 1) (ks : List K) (hnd : ks.Nodup)
    (rd : Reader K ρ) (len : K → ℕ) (hfit : rd.FitsS μ len) (hout : ∀ k, k ∉ ks → len k = 0) (g : ρ → ℚ) :
    exStreams μ len ks (fun q => match rd.run q with | some r => g r | none => 0) = rd.exR μ g := by
  induction rd generalizing len with
  | done r =>
    simp only [Reader.run, Reader.exR]
    exact exStreams_const μ hμ len (g r) ks
  | read k c ih =>
    obtain ⟨hpos, hfit'⟩ := hfit
    have hk : k ∈ ks := by
      by_contra h
      have := hout k h
      omega
    obtain ⟨n, hn⟩ : ∃ n, len k = n + 1 := ⟨len k - 1, by omega⟩
    rw [exStreams_head μ k n ks len _ hk hnd hn]
    simp only [Reader.exR]
    apply ex_congr
    intro p hp
    have hn' : len k - 1 = n := by omega
    rw [← ih p.1 (Function.update len k n) (hn' ▸ hfit' p hp) ?_]
    · apply exStreams_congr
      intro q
      rw [Reader.run_read_cons]
    · intro k' hk'
      have hne : k' ≠ k := fun h => hk' (h ▸ hk)
      rw [Function.update_of_ne hne]
      exact hout k' hk'

theorem Reader.fitsS_mono (μ : K → D) (rd : Reader K ρ) (len len' : K → ℕ) (h : ∀ k, len k ≤ len' k)
    (hf : rd.FitsS μ len) : rd.FitsS μ len' := by
  induction rd generalizing len len' with
  | done r => trivial
  | read k c ih =>
    obtain ⟨hpos, hf'⟩ := hf
    refine ⟨lt_of_lt_of_le hpos (h k), fun p hp => ih p.1 _ _ ?_ (hf' p hp)⟩
    intro k'
    by_cases hk : k' = k
    · subst hk
      simp only [Function.update_self]
      have := h k'
      omega
    · rw [Function.update_of_ne hk, Function.update_of_ne hk]
      exact h k'

theorem Reader.fitsS_map {σ : Type} (μ : K → D) (f : ρ → σ) (rd : Reader K ρ) (len : K → ℕ) :
    (rd.map f).FitsS μ len ↔ rd.FitsS μ len := by
  induction rd generalizing len with
  | done r => exact Iff.rfl
  | read k c ih =>
    simp only [Reader.map, Reader.FitsS, ih]

omit [DecidableEq K] in
theorem Reader.allS_map {σ : Type} (μ : K → D) (f : ρ → σ) (P : σ → Prop) (rd : Reader K ρ) :
    (rd.map f).AllS μ P ↔ rd.AllS μ (fun r => P (f r)) := by
  induction rd with
  | done r => exact Iff.rfl
  | read k c ih =>
    simp only [Reader.map, Reader.AllS, ih]

/-- a sequence fits streams that hold what its first part needs plus what its second part needs -/
theorem Reader.fitsS_bind {σ : Type} (μ : K → D) (P : ρ → Prop) (rd : Reader K ρ) (f : ρ → Reader K σ)
    (a b : K → ℕ) (ha : rd.FitsS μ a) (hP : rd.AllS μ P) (hb : ∀ r, P r → (f r).FitsS μ b) :
    (rd.bind f).FitsS μ (fun k => a k + b k) := by
  induction rd generalizing a with
  | done r => exact Reader.fitsS_mono μ (f r) b _ (fun k => Nat.le_add_left _ _) (hb r hP)
  | read k c ih =>
    obtain ⟨hpos, ha'⟩ := ha
    refine ⟨Nat.lt_of_lt_of_le hpos (Nat.le_add_right _ _), fun p hp => ?_⟩
    have h1 := ih p.1 (Function.update a k (a k - 1)) (ha' p hp) (hP p hp)
    have h2 : (Function.update (fun k => a k + b k) k (a k + b k - 1)) =
        fun k' => Function.update a k (a k - 1) k' + b k' := by
      funext k'
      by_cases hk : k' = k
      · subst hk
        simp only [Function.update_self]
        omega
      · simp only [Function.update_of_ne hk]
    rw [h2]
    exact h1

end supp

/-- the values the backend laws allow for the components `ks` -/
def CompVals (bk : Fock → D) (ks vs : List Fock) : Prop := List.Forall₂ (fun k v => ∃ w, (v, w) ∈ bk k) ks vs

theorem readComps_allS (bk detK : Fock → D) (ks : List Fock) :
    (readComps ks).AllS (siteLaw bk detK) (CompVals bk ks) := by
  induction ks with
  | nil => exact List.Forall₂.nil
  | cons k ks ih =>
    intro p hp
    rw [Reader.allS_map]
    have hp' : (p.1, p.2) ∈ bk k := hp
    have : ∀ (P Q : List Fock → Prop), (∀ vs, P vs → Q vs) →
        (readComps ks).AllS (siteLaw bk detK) P → (readComps ks).AllS (siteLaw bk detK) Q := by
      intro P Q hPQ
      generalize readComps ks = rd
      induction rd with
      | done r => exact hPQ r
      | read k c ih' => exact fun h p hp => ih' p.1 (h p hp)
    exact this _ _ (fun vs hvs => List.Forall₂.cons ⟨p.2, hp'⟩ hvs) ih

theorem readComps_fits (ks : List Fock) (len : Site → ℕ) (h : ∀ k, ks.count k ≤ len (.bk k)) :
    (readComps ks).Fits len := by
  induction ks generalizing len with
  | nil => trivial
  | cons k ks ih =>
    have hk := h k
    rw [List.count_cons_self] at hk
    refine ⟨by omega, fun v => ?_⟩
    rw [Reader.fits_map]
    apply ih
    intro k'
    by_cases hkk : k' = k
    · subst hkk
      rw [Function.update_self]; omega
    · rw [Function.update_of_ne (fun e => hkk (Site.bk.inj e))]
      have := h k'
      rwa [List.count_cons_of_ne (Ne.symm hkk)] at this

/-- stream lengths that are enough for the shots on the emitted inputs `inps`: for every input state as many
backend draws as the inputs have components with that state, and one detector draw per shot for every state of
`T` (the states that may reach the detectors) -/
def shotsLen (T : List Fock) (inps : List InDraw) : Site → ℕ
  | .bk k => inps.flatten.count k
  | .det st => if st ∈ T then inps.length else 0

theorem shotRd_fitsS (bk detK : Fock → D) (dm : DetMode) (T : List Fock) (inp : InDraw)
    (hT : ∀ vs st, CompVals bk inp vs → mergeAll vs = some st → st ∈ T) :
    (shotRd dm inp).FitsS (siteLaw bk detK) (shotsLen T [inp]) := by
  have h := Reader.fitsS_bind (siteLaw bk detK) (CompVals bk inp) (readComps inp) (detRd dm)
    (fun s => match s with | .bk k => inp.count k | .det _ => 0)
    (fun s => match s with | .bk _ => 0 | .det st => if st ∈ T then 1 else 0)
    (Reader.Fits.fitsS _ _ _ (readComps_fits inp _ (fun k => Nat.le_refl _)))
    (readComps_allS bk detK inp) ?_
  · rw [shotRd_eq_bind]
    refine Reader.fitsS_mono _ _ _ _ ?_ h
    intro s
    cases s with
    | bk k => simp only [shotsLen, List.flatten_cons, List.flatten_nil, List.append_nil, Nat.add_zero, Nat.le_refl]
    | det st => simp only [shotsLen, List.length_cons, List.length_nil, Nat.zero_add, Nat.le_refl]
  · intro vs hvs
    unfold detRd
    cases hm : mergeAll vs with
    | none => trivial
    | some st0 =>
      cases dm with
      | none => trivial
      | threshold => trivial
      | random =>
        refine ⟨?_, fun p hp => trivial⟩
        simp only [hT vs st0 hvs hm, if_true, Nat.lt_one_iff, Nat.zero_lt_one]

/-- **the streams of `shotsLen` are enough** (on the support of the backend laws) -/
theorem shotsRd_fitsS (bk detK : Fock → D) (dm : DetMode) (T : List Fock) (inps : List InDraw)
    (hT : ∀ inp ∈ inps, ∀ vs st, CompVals bk inp vs → mergeAll vs = some st → st ∈ T)
    (len : Site → ℕ) (hlen : ∀ s, shotsLen T inps s ≤ len s) :
    (shotsRd dm inps).FitsS (siteLaw bk detK) len := by
  refine Reader.fitsS_mono _ _ _ _ hlen ?_
  clear hlen
  induction inps with
  | nil => trivial
  | cons inp rest ih =>
    have h := Reader.fitsS_bind (siteLaw bk detK) (fun _ => True) (shotRd dm inp)
      (fun o => (shotsRd dm rest).map (o :: ·)) (shotsLen T [inp]) (shotsLen T rest)
      (shotRd_fitsS bk detK dm T inp (hT inp List.mem_cons_self)) ?_ ?_
    · refine Reader.fitsS_mono _ _ _ _ ?_ h
      intro s
      cases s with
      | bk k =>
        simp only [shotsLen, List.flatten_cons, List.flatten_nil, List.append_nil, List.count_append, Nat.le_refl]
      | det st =>
        by_cases hst : st ∈ T
        · simp only [shotsLen, hst, if_true, List.length_cons, List.length_nil]; omega
        · simp only [shotsLen, hst, if_false, Nat.le_refl]
    · generalize shotRd dm inp = rd
      induction rd with
      | done r => trivial
      | read k c ih' => exact fun p hp => ih' p.1
    · intro o _
      rw [Reader.fitsS_map]
      exact ih (fun inp' hi => hT inp' (List.mem_cons_of_mem _ hi))

/-- **the shots of the lazy provider on independent streams are independent draws**, the streams being long
enough on the support of the laws (`shotsRd_fitsS` gives lengths that are) -/
theorem lazy_shots_independent_supp (bk detK : Fock → D) (hbk : ∀ k, PM.Dist.mass (bk k) = 1)
    (hdet : ∀ st, PM.Dist.mass (detK st) = 1)
    (dm : DetMode) (inps : List InDraw) (sites : List Site) (hnd : sites.Nodup) (len : Site → ℕ)
    (hfit : (shotsRd dm inps).FitsS (siteLaw bk detK) len) (hout : ∀ s, s ∉ sites → len s = 0)
    (F : List (Option Fock) → ℚ) :
    exStreams (siteLaw bk detK) len sites
        (fun q => match (shotsRd dm inps).run q with | some l => F l | none => 0)
      = exShots bk detK dm inps F := by
  rw [← shotsRd_exR, ← adaptive_reading_supp (siteLaw bk detK) (siteLaw_mass bk detK hbk hdet) sites hnd
    (shotsRd dm inps) len hfit hout F]
  apply exStreams_congr
  intro q
  cases (shotsRd dm inps).run q <;> rfl


/-- the sites that hold draws under `shotsLen`: `bks` lists the input states of the components -/
def shotSites (bks T : List Fock) : List Site := bks.map Site.bk ++ T.map Site.det

theorem shotSites_nodup (bks T : List Fock) (hb : bks.Nodup) (hT : T.Nodup) : (shotSites bks T).Nodup := by
  unfold shotSites
  refine List.nodup_append.mpr ⟨?_, ?_, ?_⟩
  · exact List.Pairwise.map Site.bk (fun a b hab e => hab (Site.bk.inj e)) hb
  · exact List.Pairwise.map Site.det (fun a b hab e => hab (Site.det.inj e)) hT
  · intro s h1 s' h2 e
    obtain ⟨k, _, rfl⟩ := List.mem_map.mp h1
    obtain ⟨st, _, rfl⟩ := List.mem_map.mp h2
    exact Site.noConfusion e

theorem shotsLen_out (bks T : List Fock) (inps : List InDraw) (hb : ∀ k ∈ inps.flatten, k ∈ bks) (s : Site)
    (h : s ∉ shotSites bks T) : shotsLen T inps s = 0 := by
  unfold shotSites at h
  simp only [List.mem_append, List.mem_map, not_or, not_exists, not_and] at h
  cases s with
  | bk k =>
    simp only [shotsLen]
    exact List.count_eq_zero.mpr (fun hk => h.1 k (hb k hk) rfl)
  | det st =>
    have : st ∉ T := fun hst => h.2 st hst rfl
    simp only [shotsLen, this, if_false]

/-- **closed form**: on the streams of `shotsLen` (sites `shotSites`), the shots of the lazy provider are
independent draws — no fit hypothesis left, only that `bks` holds the input states of the components and `T`
every state that may reach the detectors -/
theorem lazy_shots_independent_closed (bk detK : Fock → D) (hbk : ∀ k, PM.Dist.mass (bk k) = 1)
    (hdet : ∀ st, PM.Dist.mass (detK st) = 1) (dm : DetMode) (inps : List InDraw) (bks T : List Fock)
    (hbn : bks.Nodup) (hTn : T.Nodup) (hb : ∀ k ∈ inps.flatten, k ∈ bks)
    (hT : ∀ inp ∈ inps, ∀ vs st, CompVals bk inp vs → mergeAll vs = some st → st ∈ T)
    (F : List (Option Fock) → ℚ) :
    exStreams (siteLaw bk detK) (shotsLen T inps) (shotSites bks T)
        (fun q => match (shotsRd dm inps).run q with | some l => F l | none => 0)
      = exShots bk detK dm inps F :=
  lazy_shots_independent_supp bk detK hbk hdet dm inps (shotSites bks T) (shotSites_nodup bks T hbn hTn)
    (shotsLen T inps) (shotsRd_fitsS bk detK dm T inps hT _ (fun _ => Nat.le_refl _))
    (shotsLen_out bks T inps hb) F



/-! ### the tie to the model of the code: one shot of the loop body with the lazy provider -/

theorem Reader.rest_map {K ρ σ : Type} [DecidableEq K] (f : ρ → σ) (rd : Reader K ρ) (q : K → List Fock) :
    (rd.map f).rest q = rd.rest q := by
  induction rd generalizing q with
  | done r => rfl
  | read k c ih =>
    simp only [Reader.map, Reader.rest]
    cases q k with
    | nil => rfl
    | cons v vs => exact ih v _

theorem Reader.rest_bind {K ρ σ : Type} [DecidableEq K] (rd : Reader K ρ) (f : ρ → Reader K σ)
    (q : K → List Fock) :
    (rd.bind f).rest q =
      match rd.run q, rd.rest q with
      | some r, some q' => (f r).rest q'
      | _, _ => none := by
  induction rd generalizing q with
  | done r => rfl
  | read k c ih =>
    simp only [Reader.bind, Reader.run, Reader.rest]
    cases q k with
    | nil => rfl
    | cons v vs => exact ih v _

/-- the joint streams: the provider state of `sfLazy` for the backend, the detector draws of the loop state -/
def joint (q : Fock → List Fock) (d : AL (List Fock)) : Site → List Fock
  | .bk k => q k
  | .det st => agetD st d []

theorem joint_update_bk (q : Fock → List Fock) (d : AL (List Fock)) (k : Fock) (xs : List Fock) :
    Function.update (joint q d) (.bk k) xs = joint (Function.update q k xs) d := by
  funext s
  cases s with
  | bk k' =>
    by_cases h : k' = k
    · subst h; simp only [Function.update_self, joint]
    · rw [Function.update_of_ne (fun e => h (Site.bk.inj e))]
      simp only [joint, Function.update_of_ne h]
  | det st =>
    rw [Function.update_of_ne (fun e => Site.noConfusion e)]
    rfl

theorem joint_update_det (q : Fock → List Fock) (d : AL (List Fock)) (st : Fock) (xs : List Fock) :
    Function.update (joint q d) (.det st) xs = joint q (aset st xs d) := by
  funext s
  cases s with
  | bk k =>
    rw [Function.update_of_ne (fun e => Site.noConfusion e)]
    rfl
  | det st' =>
    by_cases h : st' = st
    · subst h; simp only [Function.update_self, joint, agetD_aset_same]
    · rw [Function.update_of_ne (fun e => h (Site.det.inj e))]
      simp only [joint, agetD_aset_ne st st' xs [] d h]

/-- the backend reads of one shot on the joint streams are what `sampleAll sfLazy` does -/
theorem readComps_joint (d : AL (List Fock)) (ks : List Fock) (q : Fock → List Fock) (vs : List Fock)
    (q' : Fock → List Fock) (h : sampleAll sfLazy q ks = .ok (vs, q')) :
    (readComps ks).run (joint q d) = some vs ∧ (readComps ks).rest (joint q d) = some (joint q' d) := by
  induction ks generalizing q vs q' with
  | nil =>
    simp only [sampleAll, Except.ok.injEq, Prod.mk.injEq] at h
    obtain ⟨h1, h2⟩ := h
    subst h1; subst h2
    exact ⟨rfl, rfl⟩
  | cons k ks ih =>
    simp only [sampleAll, sfLazy] at h
    cases hq : q k with
    | nil => rw [hq] at h; simp only at h; cases h
    | cons v xs =>
      rw [hq] at h
      simp only [sfLazy_update] at h
      cases hs : sampleAll sfLazy (Function.update q k xs) ks with
      | error e => rw [hs] at h; simp only at h; cases h
      | ok r =>
        obtain ⟨ws, q''⟩ := r
        rw [hs] at h
        simp only [Except.ok.injEq, Prod.mk.injEq] at h
        obtain ⟨h1, h2⟩ := h
        subst h1; subst h2
        obtain ⟨ihr, ihs⟩ := ih _ _ _ hs
        have hj : joint q d (.bk k) = v :: xs := hq
        simp only [readComps, Reader.run, Reader.rest, hj, joint_update_bk, Reader.run_map, Reader.rest_map,
          ihr, ihs, Option.map_some, and_self]

/-- **one shot of the loop body with the lazy provider is the run of `shotRd`** on the joint streams -/
theorem shotG_lazy_is_shotRd (c : SelCfg) (q : Fock → List Fock) (s : Core) (inp : InDraw) (rest : List InDraw)
    (q' : Fock → List Fock) (s' : Core) (h : shotG sfLazy c q s inp rest = .ok (q', s')) :
    ∃ st, (shotRd c.det inp).run (joint q s.det) = some (some st) ∧ s'.seen = st :: s.seen ∧
      (shotRd c.det inp).rest (joint q s.det) = some (joint q' s'.det) := by
  unfold shotG at h
  cases hs : sampleAll sfLazy q inp with
  | error e => rw [hs] at h; simp only at h; cases h
  | ok r =>
    obtain ⟨vs, p⟩ := r
    rw [hs] at h
    simp only at h
    obtain ⟨hrun, hrest⟩ := readComps_joint s.det inp q vs p hs
    cases hm : mergeAll vs with
    | none => rw [hm] at h; simp only at h; cases h
    | some st0 =>
      rw [hm] at h
      simp only at h
      cases hd : detect c st0 s.det with
      | error e => rw [hd] at h; simp only at h; cases h
      | ok r2 =>
        obtain ⟨st, d⟩ := r2
        rw [hd] at h
        simp only at h
        have key : q' = p ∧ s'.seen = st :: s.seen ∧ s'.det = d := by
          split at h <;>
            (simp only [Except.ok.injEq, Prod.mk.injEq] at h
             obtain ⟨h1, h2⟩ := h
             subst h1; subst h2
             exact ⟨rfl, rfl, rfl⟩)
        obtain ⟨hq', hseen, hdet'⟩ := key
        refine ⟨st, ?_, hseen, ?_⟩
        · rw [shotRd_eq_bind, Reader.run_bind, hrun, hrest]
          simp only [detRd, hm]
          unfold detect at hd
          cases hdm : c.det with
          | none =>
            rw [hdm] at hd
            simp only [Except.ok.injEq, Prod.mk.injEq] at hd
            simp only [Reader.run, hd.1]
          | threshold =>
            rw [hdm] at hd
            simp only [Except.ok.injEq, Prod.mk.injEq] at hd
            simp only [Reader.run, hd.1]
          | random =>
            rw [hdm] at hd
            simp only at hd
            cases ha : agetD st0 s.det [] with
            | nil => rw [ha] at hd; simp only at hd; cases hd
            | cons x xs =>
              rw [ha] at hd
              simp only [Except.ok.injEq, Prod.mk.injEq] at hd
              have hj : joint p s.det (.det st0) = x :: xs := ha
              simp only [Reader.run, hj, hd.1]
        · rw [shotRd_eq_bind, Reader.rest_bind, hrun, hrest, hq', hdet']
          simp only [detRd, hm]
          unfold detect at hd
          cases hdm : c.det with
          | none =>
            rw [hdm] at hd
            simp only [Except.ok.injEq, Prod.mk.injEq] at hd
            simp only [Reader.rest, hd.2]
          | threshold =>
            rw [hdm] at hd
            simp only [Except.ok.injEq, Prod.mk.injEq] at hd
            simp only [Reader.rest, hd.2]
          | random =>
            rw [hdm] at hd
            simp only at hd
            cases ha : agetD st0 s.det [] with
            | nil => rw [ha] at hd; simp only at hd; cases hd
            | cons x xs =>
              rw [ha] at hd
              simp only [Except.ok.injEq, Prod.mk.injEq] at hd
              have hj : joint p s.det (.det st0) = x :: xs := ha
              simp only [Reader.rest, hj, joint_update_det, hd.2]

end PM.C09
