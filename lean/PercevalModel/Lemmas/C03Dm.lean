/-
  C03 — helper lemmas for the density-matrix route over ℚ[i]: positivity of populations.
  Used by `Props/C03.lean` (`dm_mixture_zero_population`, `dm_skip_unpopulated_exact`,
  `dm_population_threshold_error`).
-/
import PercevalModel.Num.GQ
import Mathlib.Algebra.BigOperators.Group.Finset.Basic
import Mathlib.Algebra.Order.BigOperators.Group.Finset
import Mathlib.Algebra.Order.Field.Rat
import Mathlib.Tactic.Linarith
import Mathlib.Tactic.Positivity

namespace PM.C03.Dm

theorem re_sum {ι : Type*} (S : Finset ι) (f : ι → GQ) : (∑ i ∈ S, f i).re = ∑ i ∈ S, (f i).re := by
  classical
  induction S using Finset.induction_on with
  | empty => simp
  | insert a S ha ih => rw [Finset.sum_insert ha, Finset.sum_insert ha, GQ.add_re, ih]

theorem normSq_nonneg (a : GQ) : 0 ≤ GQ.normSq a := by
  unfold GQ.normSq
  nlinarith [mul_self_nonneg a.re, mul_self_nonneg a.im]

theorem normSq_eq_zero {a : GQ} (h : GQ.normSq a = 0) : a = 0 := by
  unfold GQ.normSq at h
  have h1 : a.re * a.re = 0 := by nlinarith [mul_self_nonneg a.re, mul_self_nonneg a.im]
  have h2 : a.im * a.im = 0 := by nlinarith [mul_self_nonneg a.re, mul_self_nonneg a.im]
  ext
  · simpa using mul_self_eq_zero.mp h1
  · simpa using mul_self_eq_zero.mp h2

/-- the population `(w · a · ā).re = w · |a|²` -/
theorem pop_re (w : ℚ) (a : GQ) : (GQ.ofRat w * (a * star a)).re = w * GQ.normSq a := by
  simp only [GQ.mul_re, GQ.mul_im, GQ.star_re, GQ.star_im, GQ.ofRat, GQ.normSq]; ring

/-- a vanishing sum of populations with non-negative weights: every weighted amplitude vanishes -/
theorem weighted_amp_zero {ι : Type*} [Fintype ι] (w : ι → ℚ) (hw : ∀ i, 0 ≤ w i) (a : ι → GQ)
    (h : ∑ i, GQ.ofRat (w i) * (a i * star (a i)) = 0) (i : ι) : GQ.ofRat (w i) * a i = 0 := by
  have hre : ∑ i, w i * GQ.normSq (a i) = 0 := by
    have := congrArg GQ.re h
    rw [re_sum] at this
    simpa only [pop_re, GQ.zero_re] using this
  have hz := (Finset.sum_eq_zero_iff_of_nonneg
    (fun i _ => mul_nonneg (hw i) (normSq_nonneg (a i)))).mp hre i (Finset.mem_univ i)
  rcases mul_eq_zero.mp hz with h0 | h0
  · rw [h0]; ext <;> simp [GQ.ofRat]
  · rw [normSq_eq_zero h0, mul_zero]

theorem star_ofRat (q : ℚ) : star (GQ.ofRat q) = GQ.ofRat q := by
  ext <;> simp [GQ.ofRat]

/-- the same for the conjugated amplitude -/
theorem weighted_amp_zero_star {ι : Type*} [Fintype ι] (w : ι → ℚ) (hw : ∀ i, 0 ≤ w i) (a : ι → GQ)
    (h : ∑ i, GQ.ofRat (w i) * (a i * star (a i)) = 0) (i : ι) : GQ.ofRat (w i) * star (a i) = 0 := by
  have h0 := congrArg star (weighted_amp_zero w hw a h i)
  rwa [star_mul', star_ofRat, star_zero] at h0

end PM.C03.Dm
