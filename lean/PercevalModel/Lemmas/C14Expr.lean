/-
  C14 (extension 2) — helper lemmas about `Model/C14Expr.lean`: evaluation depends on the occurring symbols only,
  `subs` then `float` is evaluation in the environment, the first expression language embeds, sessions project
  onto the raw parameters and onto each Expression object, what operations keep an Expression live / frozen.
-/
import PercevalModel.Model.C14Expr
import PercevalModel.Lemmas.C14Life
import Mathlib.Algebra.Order.Field.Rat
import Mathlib.Data.Rat.Cast.Lemmas

open PM.SM

namespace PM.C14

section eval
variable {K : Type*} [Field K] [DecidableEq K]

theorem XExpr.eval_congr (I : Interp K) (e : XExpr) {env₁ env₂ : String → Option K}
    (h : ∀ x ∈ e.vars, env₁ x = env₂ x) : e.eval I env₁ = e.eval I env₂ := by
  induction e with
  | var x => exact h x (by simp [XExpr.vars])
  | const q => rfl
  | pi => rfl
  | add a b iha ihb | sub a b iha ihb | mul a b iha ihb | div a b iha ihb =>
    simp only [XExpr.eval]
    rw [iha fun x hx => h x (by simp [XExpr.vars, hx]), ihb fun x hx => h x (by simp [XExpr.vars, hx])]
  | powi a n iha | neg a iha | app f a iha =>
    simp only [XExpr.eval]
    rw [iha fun x hx => h x (by simp [XExpr.vars, hx])]

end eval

/-- `float(expr.subs(values))`: substituting numbers for the symbols and evaluating the closed expression is
evaluating the expression at those values (symbols without a value fall back on `env`). -/
theorem XExpr.eval_subst (I : Interp ℚ) (σ env : String → Option ℚ) (e : XExpr) :
    (e.subst σ).eval I env = e.eval I fun x => (σ x).orElse fun _ => env x := by
  induction e with
  | var x =>
    simp only [XExpr.subst, XExpr.eval]
    cases h : σ x with
    | none => simp [XExpr.eval]
    | some v => simp [XExpr.eval]
  | const q => rfl
  | pi => rfl
  | add a b iha ihb | sub a b iha ihb | mul a b iha ihb | div a b iha ihb =>
    simp only [XExpr.subst, XExpr.eval, iha, ihb]
  | powi a n iha | neg a iha | app f a iha =>
    simp only [XExpr.subst, XExpr.eval, iha]

theorem Expr.toX_vars (e : Expr) : e.toX.vars = e.vars := by
  induction e with
  | var x => rfl
  | const q => rfl
  | add a b iha ihb | sub a b iha ihb | mul a b iha ihb | div a b iha ihb =>
    simp only [Expr.toX, XExpr.vars, Expr.vars, iha, ihb]
  | pow a n iha | neg a iha => simp only [Expr.toX, XExpr.vars, Expr.vars, iha]

theorem Expr.toX_eval (I : Interp ℚ) (env : String → Option ℚ) (e : Expr) :
    e.toX.eval I env = e.eval env := by
  induction e with
  | var x => rfl
  | const q => simp [Expr.toX, XExpr.eval, Expr.eval]
  | add a b iha ihb | sub a b iha ihb | mul a b iha ihb | div a b iha ihb =>
    simp only [Expr.toX, XExpr.eval, Expr.eval, iha, ihb]
  | pow a n iha =>
    simp only [Expr.toX, XExpr.eval, Expr.eval, iha]
    cases a.eval env with
    | none => rfl
    | some x => simp
  | neg a iha => simp only [Expr.toX, XExpr.eval, Expr.eval, iha]

/-! ### operations on one Expression object -/

theorem estep_e (sound : Bool) (o : EObj) (op : POp) : (estep sound o op).1.e = o.e := by
  cases op <;> rfl

theorem exec_estep_e (sound : Bool) (o : EObj) (ops : List POp) : (exec (estep sound) o ops).e = o.e := by
  induction ops generalizing o with
  | nil => rfl
  | cons op rest ih => rw [exec_cons, ih, estep_e]

/-- "live": no override, `_symbol` present -/
def EObj.Live (o : EObj) : Prop := o.par.val = none ∧ o.par.sym = true

theorem EObj.init_live (e : XExpr) : (EObj.init e).Live := ⟨rfl, rfl⟩

theorem estep_live (sound : Bool) (o : EObj) (op : POp) (h : o.Live) (hop : op.overrides = false) :
    (estep sound o op).1.Live := by
  obtain ⟨h1, h2⟩ := h
  cases op with
  | set v f => simp [POp.overrides] at hop
  | fix v => simp [POp.overrides] at hop
  | reset => simp [estep, pstep, EObj.Live, h2]
  | setPeriodic b => simp [estep, pstep, EObj.Live, h1, h2]
  | bind lo hi per => simp [estep, EObj.Live, h1, h2]

theorem exec_estep_live (sound : Bool) (o : EObj) (ops : List POp) (h : o.Live)
    (hops : ∀ op ∈ ops, op.overrides = false) : (exec (estep sound) o ops).Live := by
  induction ops generalizing o with
  | nil => exact h
  | cons op rest ih =>
    rw [exec_cons]
    exact ih _ (estep_live sound o op h (hops op (by simp))) fun o' ho' => hops o' (by simp [ho'])

/-- the operation neither overrides nor resets -/
def POp.keepsValue : POp → Bool
  | .set _ _ => false
  | .fix _ => false
  | .reset => false
  | _ => true

theorem estep_val (sound : Bool) (o : EObj) (op : POp) (hop : op.keepsValue = true) :
    (estep sound o op).1.par.val = o.par.val := by
  cases op with
  | set v f => simp [POp.keepsValue] at hop
  | fix v => simp [POp.keepsValue] at hop
  | reset => simp [POp.keepsValue] at hop
  | setPeriodic b => simp [estep, pstep]
  | bind lo hi per => simp [estep]

theorem exec_estep_val (sound : Bool) (o : EObj) (ops : List POp)
    (hops : ∀ op ∈ ops, op.keepsValue = true) : (exec (estep sound) o ops).par.val = o.par.val := by
  induction ops generalizing o with
  | nil => rfl
  | cons op rest ih =>
    rw [exec_cons, ih _ fun o' ho' => hops o' (by simp [ho']), estep_val sound o op (hops op (by simp))]

/-- an accepted `set_value` on an Expression object stores the checked value -/
theorem estep_set_ok (sound : Bool) (o : EObj) (v : ℚ) (force : Bool)
    (h : (estep sound o (.set v force)).2 = none) :
    ∃ w, o.par.check v = .inr w ∧ (estep sound o (.set v force)).1.par.val = some w := by
  simp only [estep] at h ⊢
  cases hc : o.par.check v with
  | inl e => rw [pstep_set_inl sound force hc] at h; simp at h
  | inr w =>
    rw [pstep_set_inr sound force hc] at h ⊢
    refine ⟨w, rfl, ?_⟩
    by_cases hs : (!o.par.sym && !force) = true
    · simp [hs] at h
    · simp [hs]

/-! ### sessions -/

theorem xexec_fst (sound : Bool) (s : XSt) (ops : List XOp) :
    (exec (xstep sound) s ops).1 = exec (sstep sound) s.1 (XOp.baseOps ops) := by
  induction ops generalizing s with
  | nil => rfl
  | cons op rest ih =>
    rw [exec_cons, ih]
    cases op with
    | base b => simp [xstep, XOp.baseOps, exec_cons]
    | xnew id e => simp [xstep, XOp.baseOps]
    | xpar id p =>
      simp only [xstep, XOp.baseOps]
      cases s.2 id <;> rfl

theorem xexec_obj (sound : Bool) (s : XSt) (ops : List XOp) (id : String) (o : EObj)
    (h0 : s.2 id = some o) (hc : ∀ op ∈ ops, op.creates id = false) :
    (exec (xstep sound) s ops).2 id = some (exec (estep sound) o (XOp.objOps id ops)) := by
  induction ops generalizing s o with
  | nil => simpa [exec_nil, XOp.objOps] using h0
  | cons op rest ih =>
    rw [exec_cons]
    have hrest : ∀ op' ∈ rest, op'.creates id = false := fun o' ho' => hc o' (by simp [ho'])
    cases op with
    | base b =>
      simp only [XOp.objOps]
      exact ih _ o (by simpa [xstep] using h0) hrest
    | xnew id' e =>
      have hne : id' ≠ id := by
        have := hc (.xnew id' e) (by simp)
        simpa [XOp.creates] using this
      simp only [XOp.objOps]
      exact ih _ o (by simp [xstep, Function.update_of_ne (Ne.symm hne), h0]) hrest
    | xpar id' p =>
      by_cases e : id' = id
      · subst e
        simp only [XOp.objOps, if_true, exec_cons]
        exact ih _ _ (by simp [xstep, h0]) hrest
      · simp only [XOp.objOps, e, if_false]
        refine ih _ o ?_ hrest
        simp only [xstep]
        cases s.2 id' with
        | none => exact h0
        | some o' => simp [Function.update_of_ne (Ne.symm e), h0]

/-! ### what a component reads from an Expression object after a history -/

/-- `float()` of a live Expression object -/
theorem EObj.float_live (I : Interp ℚ) (st : LStore) (o : EObj) (h : o.Live) :
    o.float I st =
      if o.defined st then floatOfEval (o.e.eval I (LStore.env st)) else .inl .ValueError := by
  obtain ⟨h1, h2⟩ := h
  unfold EObj.float
  by_cases hd : o.defined st = true
  · simp [hd, h1, h2]
  · simp [hd]

/-- `float()` of an overridden Expression object -/
theorem EObj.float_override (I : Interp ℚ) (st : LStore) (o : EObj) {w : ℚ} (h : o.par.val = some w) :
    o.float I st = if o.defined st then .inr w else .inl .ValueError := by
  unfold EObj.float
  by_cases hd : o.defined st = true
  · simp [hd, h]
  · simp [hd]

theorem EObj.defined_congr (st : LStore) (o o' : EObj) (h : o'.e = o.e) : o'.defined st = o.defined st := by
  unfold EObj.defined; rw [h]

/-- evaluation is strict: a value means every occurring symbol has one -/
theorem XExpr.eval_some_defined {K : Type*} [Field K] [DecidableEq K] (I : Interp K) (e : XExpr)
    {env : String → Option K} {v : K} (h : e.eval I env = some v) : ∀ x ∈ e.vars, (env x).isSome = true := by
  induction e generalizing v with
  | var x =>
    intro y hy
    simp only [XExpr.vars, List.mem_singleton] at hy
    subst hy
    simp only [XExpr.eval] at h
    simp [h]
  | const q => intro y hy; simp [XExpr.vars] at hy
  | pi => intro y hy; simp [XExpr.vars] at hy
  | add a b iha ihb | sub a b iha ihb | mul a b iha ihb | div a b iha ihb =>
    simp only [XExpr.eval, Option.bind_eq_bind, Option.bind_eq_some_iff] at h
    obtain ⟨x, hx, y, hy, _⟩ := h
    intro z hz
    simp only [XExpr.vars, List.mem_append] at hz
    rcases hz with hz | hz
    · exact iha hx z hz
    · exact ihb hy z hz
  | powi a n iha | neg a iha | app f a iha =>
    simp only [XExpr.eval, Option.bind_eq_bind, Option.bind_eq_some_iff] at h
    obtain ⟨x, hx, _⟩ := h
    intro z hz
    simp only [XExpr.vars] at hz
    exact iha hx z hz

/-- operations that only touch the bounds / the periodic flag -/
def POp.boundsOnly : POp → Bool
  | .bind .. => true
  | .setPeriodic _ => true
  | _ => false

theorem estep_boundsOnly (sound : Bool) (o : EObj) (op : POp) (h : op.boundsOnly = true) :
    (estep sound o op).1.par.val = o.par.val ∧ (estep sound o op).1.par.sym = o.par.sym ∧
      (estep sound o op).1.e = o.e := by
  cases op with
  | set v f => simp [POp.boundsOnly] at h
  | fix v => simp [POp.boundsOnly] at h
  | reset => simp [POp.boundsOnly] at h
  | setPeriodic b => simp [estep, pstep]
  | bind lo hi per => simp [estep]

theorem EObj.float_congr (I : Interp ℚ) (st : LStore) (o o' : EObj) (h1 : o'.par.val = o.par.val)
    (h2 : o'.par.sym = o.par.sym) (h3 : o'.e = o.e) : o'.float I st = o.float I st := by
  unfold EObj.float EObj.defined
  rw [h1, h2, h3]

theorem exec_estep_boundsOnly (sound : Bool) (o : EObj) (ops : List POp) (h : ∀ op ∈ ops, op.boundsOnly = true) :
    (exec (estep sound) o ops).par.val = o.par.val ∧ (exec (estep sound) o ops).par.sym = o.par.sym ∧
      (exec (estep sound) o ops).e = o.e := by
  induction ops generalizing o with
  | nil => exact ⟨rfl, rfl, rfl⟩
  | cons op rest ih =>
    rw [exec_cons]
    obtain ⟨a, b, c⟩ := ih (estep sound o op).1 fun o' ho' => h o' (by simp [ho'])
    obtain ⟨a', b', c'⟩ := estep_boundsOnly sound o op (h op (by simp))
    exact ⟨a.trans a', b.trans b', c.trans c'⟩

end PM.C14
