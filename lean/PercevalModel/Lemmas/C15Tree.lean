/-
  C15 — dict / list containers: lemmas and the round-trip theorems (model: `Model/C15Tree.lean`).
-/
import PercevalModel.Model.C15Tree

namespace PM.C15.Tree

open PM.C15 (Text pcvlPrefix)

/-! ## Insertion-ordered dicts -/

section dicts
variable {κ β : Type} [DecidableEq κ]

omit [DecidableEq κ] in
theorem keys_cons (e : κ × β) (l : List (κ × β)) : keys (e :: l) = e.1 :: keys l := rfl

omit [DecidableEq κ] in
theorem keys_append (l₁ l₂ : List (κ × β)) : keys (l₁ ++ l₂) = keys l₁ ++ keys l₂ := by
  simp [keys]

/-- assigning a key the dict does not hold appends the item -/
theorem assign_of_not_mem (k : κ) (v : β) (d : List (κ × β)) (h : k ∉ keys d) :
    assign k v d = d ++ [(k, v)] := by
  induction d with
  | nil => rfl
  | cons e t ih =>
    obtain ⟨k', v'⟩ := e
    rw [keys_cons, List.mem_cons, not_or] at h
    have hne : ¬ k' = k := fun e => h.1 e.symm
    simp only [assign, hne, if_false, List.cons_append, ih h.2]

/-- assigning a key the dict holds keeps the number of items (the older value is lost) -/
theorem length_assign_of_mem (k : κ) (v : β) (d : List (κ × β)) (h : k ∈ keys d) :
    (assign k v d).length = d.length := by
  induction d with
  | nil => simp [keys] at h
  | cons e t ih =>
    obtain ⟨k', v'⟩ := e
    by_cases hk : k' = k
    · simp [assign, hk]
    · rw [keys_cons, List.mem_cons] at h
      have : k ∈ keys t := h.resolve_left (fun e => hk e.symm)
      simp [assign, hk, ih this]

/-- a loop of assignments of pairwise distinct new keys appends the items in order: nothing is overwritten -/
theorem assignAll_of_nodup (items d : List (κ × β)) (h : (keys (d ++ items)).Nodup) :
    assignAll d items = d ++ items := by
  induction items generalizing d with
  | nil => simp [assignAll]
  | cons e rest ih =>
    obtain ⟨k, v⟩ := e
    have hk : k ∉ keys d := by
      rw [keys_append, List.nodup_append] at h
      intro hm
      exact h.2.2 k hm k (by simp [keys]) rfl
    have h' : (keys ((d ++ [(k, v)]) ++ rest)).Nodup := by
      simpa [List.append_assoc] using h
    simp only [assignAll]
    rw [assign_of_not_mem k v d hk, ih _ h']
    simp [List.append_assoc]

/-- `build` is the identity on an item list whose keys are pairwise distinct -/
theorem build_of_nodup (items : List (κ × β)) (h : (keys items).Nodup) : build items = items := by
  have := assignAll_of_nodup items [] (by simpa using h)
  simpa [build] using this

omit [DecidableEq κ] in
theorem nodup_map_of_inj_on {γ : Type} (f : κ → γ) (l : List κ)
    (hinj : ∀ a ∈ l, ∀ b ∈ l, f a = f b → a = b) (h : l.Nodup) : (l.map f).Nodup := by
  induction l with
  | nil => exact List.nodup_nil
  | cons a t ih =>
    rw [List.nodup_cons] at h
    rw [List.map_cons, List.nodup_cons]
    refine ⟨?_, ih (fun x hx y hy => hinj x (List.mem_cons_of_mem _ hx) y (List.mem_cons_of_mem _ hy)) h.2⟩
    intro hm
    obtain ⟨b, hb, e⟩ := List.mem_map.mp hm
    have : b = a := hinj b (List.mem_cons_of_mem _ hb) a (List.mem_cons_self) e
    exact h.1 (this ▸ hb)

theorem nodupb_iff (l : List κ) : nodupb l = true ↔ l.Nodup := by
  induction l with
  | nil => simp [nodupb]
  | cons a t ih => simp [nodupb, List.nodup_cons, ih]

end dicts

variable {α C : Type}

/-! ## Keys on the wire -/

/-- the wire keys of a dict are the serialised keys, in order -/
theorem keys_encodeD (enc : C → α → Text) (c : C) (kvs : List (Key α × Tree α)) :
    keys (encodeD enc c kvs) = (keys kvs).map (encKey enc c) := by
  induction kvs with
  | nil => simp [encodeD, keys]
  | cons e rest ih =>
    obtain ⟨k, v⟩ := e
    simp only [encodeD, keys_cons, List.map_cons, ih]

theorem keys_ok_of_WFD (kvs : List (Key α × Tree α)) (h : WFD kvs) : ∀ k ∈ keys kvs, k.ok := by
  induction kvs with
  | nil => intro k hk; simp [keys] at hk
  | cons e rest ih =>
    obtain ⟨k, v⟩ := e
    simp only [WFD] at h
    intro k' hk'
    rw [keys_cons, List.mem_cons] at hk'
    rcases hk' with rfl | hk'
    · exact h.1
    · exact ih h.2.2 k' hk'

/-- Two admissible keys with the same serialised text are the same key: the writer of a supported object is
injective because the reader inverts it, and the text of an object starts with `":PCVL:"` whereas an admissible
string key does not. -/
theorem encKey_inj {enc : C → α → Text} {dec : Text → Option α} (H : LeafCodec enc dec) (c : C)
    {k k' : Key α} (hk : k.ok) (hk' : k'.ok) (e : encKey enc c k = encKey enc c k') : k = k' := by
  cases k with
  | obj a =>
    cases k' with
    | obj b =>
      have h1 := H.inv c a
      rw [show enc c a = enc c b from e, H.inv c b] at h1
      exact congrArg Key.obj (Option.some.inj h1).symm
    | str s =>
      have h1 := H.pre c a
      rw [show enc c a = s from e] at h1
      simp only [Key.ok] at hk'
      rw [hk'] at h1
      exact absurd h1 (by decide)
  | str s =>
    cases k' with
    | obj b =>
      have h1 := H.pre c b
      rw [← show s = enc c b from e] at h1
      simp only [Key.ok] at hk
      rw [hk] at h1
      exact absurd h1 (by decide)
    | str s' => exact congrArg Key.str e

/-- The serialised keys of a well-formed dict are pairwise distinct: no assignment of the writer's loop
overwrites an earlier one. -/
theorem nodup_keys_encodeD {enc : C → α → Text} {dec : Text → Option α} (H : LeafCodec enc dec) (c : C)
    (kvs : List (Key α × Tree α)) (hw : WFD kvs) (hn : (keys kvs).Nodup) :
    (keys (encodeD enc c kvs)).Nodup := by
  rw [keys_encodeD]
  have ok := keys_ok_of_WFD kvs hw
  exact nodup_map_of_inj_on _ _ (fun a ha b hb e => encKey_inj H c (ok a ha) (ok b hb) e) hn

/-- the writer on a well-formed dict: one wire item per item, in order -/
theorem encode_dict {enc : C → α → Text} {dec : Text → Option α} (H : LeafCodec enc dec) (c : C)
    (kvs : List (Key α × Tree α)) (hw : WFD kvs) (hn : (keys kvs).Nodup) :
    encode enc c (.dict kvs) = .dict (encodeD enc c kvs) := by
  simp only [encode, build_of_nodup _ (nodup_keys_encodeD H c kvs hw hn)]

/-! ## Round trip -/

section roundtrip
variable [DecidableEq α] {enc : C → α → Text} {dec : Text → Option α}

omit [DecidableEq α] in
theorem decKey_encKey (H : LeafCodec enc dec) (c : C) (k : Key α) (hk : k.ok) :
    decKey dec (encKey enc c k) = some k := by
  cases k with
  | obj a => simp [decKey, encKey, H.pre, H.inv]
  | str s =>
    simp only [Key.ok] at hk
    simp [decKey, encKey, hk]

mutual
  theorem decode_encode (H : LeafCodec enc dec) (c : C) :
      (t : Tree α) → t.WF → decode dec (encode enc c t) = some t
    | .obj a, _ => by simp [encode, decode, H.pre, H.inv]
    | .raw r, h => by
      cases r with
      | str s =>
        simp only [Tree.WF, Raw.ok] at h
        simp [encode, decode, h]
      | null => simp [encode, decode]
      | bool b => simp [encode, decode]
      | int i => simp [encode, decode]
      | num q => simp [encode, decode]
    | .list l, h => by
      simp only [Tree.WF] at h
      simp [encode, decode, decodeL_encodeL H c l h]
    | .dict kvs, h => by
      simp only [Tree.WF] at h
      rw [encode_dict H c kvs h.1 h.2]
      simp [decode, decodeD_encodeD H c kvs h.1, build_of_nodup kvs h.2]
  theorem decodeL_encodeL (H : LeafCodec enc dec) (c : C) :
      (l : List (Tree α)) → WFL l → decodeL dec (encodeL enc c l) = some l
    | [], _ => by simp [encodeL, decodeL]
    | t :: rest, h => by
      simp only [WFL] at h
      simp [encodeL, decodeL, decode_encode H c t h.1, decodeL_encodeL H c rest h.2]
  theorem decodeD_encodeD (H : LeafCodec enc dec) (c : C) :
      (kvs : List (Key α × Tree α)) → WFD kvs → decodeD dec (encodeD enc c kvs) = some kvs
    | [], _ => by simp [encodeD, decodeD]
    | (k, v) :: rest, h => by
      simp only [WFD] at h
      simp [encodeD, decodeD, decKey_encKey H c k h.1, decode_encode H c v h.2.1,
        decodeD_encodeD H c rest h.2.2]
end

/-- **Containers round-trip.**  For every leaf codec that inverts and marks its texts, every `compress` argument
`c`, and every well-formed tree of dicts / lists / objects / passthrough values (any depth, any mix, empty
containers included): `deserialize(serialize(t, compress=c)) = t`. -/
theorem roundtrip_tree (H : LeafCodec enc dec) (c : C) (t : Tree α) (h : t.WF) :
    decode dec (encode enc c t) = some t :=
  decode_encode H c t h

/-- The same through `serialize_to_file` / `deserialize_file`.  `json.dumps` / `json.loads` are TRUSTED (modelled
as the identity on `Wire`); this is why keys are restricted to strings and serialisable objects. -/
theorem roundtrip_tree_file (H : LeafCodec enc dec) (c : C) (t : Tree α) (h : t.WF) :
    fileRoundtrip enc dec c t = some t := by
  simp [fileRoundtrip, jsonLoads, jsonDumps, decode_encode H c t h]

/-- what comes back does not depend on the `compress` argument -/
theorem decode_encode_compress_irrelevant (H : LeafCodec enc dec) (c c' : C) (t : Tree α) (h : t.WF) :
    decode dec (encode enc c t) = decode dec (encode enc c' t) := by
  rw [decode_encode H c t h, decode_encode H c' t h]

end roundtrip

/-! ## `WF` is decidable (the driver reports it) -/

theorem Raw.okb_iff (r : Raw) : r.okb = true ↔ r.ok := by
  cases r <;> simp [Raw.okb, Raw.ok]

theorem Key.okb_iff (k : Key α) : k.okb = true ↔ k.ok := by
  cases k <;> simp [Key.okb, Key.ok]

section wfb
variable [DecidableEq α]

mutual
  theorem wfb_iff : (t : Tree α) → (t.wfb = true ↔ t.WF)
    | .obj _ => by simp [Tree.wfb, Tree.WF]
    | .raw r => by simp [Tree.wfb, Tree.WF, Raw.okb_iff]
    | .list l => by simp [Tree.wfb, Tree.WF, wfbL_iff l]
    | .dict kvs => by simp [Tree.wfb, Tree.WF, wfbD_iff kvs, nodupb_iff]
  theorem wfbL_iff : (l : List (Tree α)) → (wfbL l = true ↔ WFL l)
    | [] => by simp [wfbL, WFL]
    | t :: rest => by simp [wfbL, WFL, wfb_iff t, wfbL_iff rest]
  theorem wfbD_iff : (kvs : List (Key α × Tree α)) → (wfbD kvs = true ↔ WFD kvs)
    | [] => by simp [wfbD, WFD]
    | (k, v) :: rest => by simp [wfbD, WFD, Key.okb_iff, wfb_iff v, wfbD_iff rest, and_assoc]
end

end wfb

/-! ## Boundaries (why `WF` asks what it asks) and non-vacuity -/

section boundaries
variable [DecidableEq α]

/-- (a) A passthrough string that itself starts with `":PCVL:"` never comes back as that string: the reader takes
it for a serialised object (it raises, or returns whatever object the text denotes).  Whatever the codec. -/
theorem prefixed_raw_string_not_preserved (enc : C → α → Text) (dec : Text → Option α) (c : C) (s : Text)
    (h : isPcvl s = true) :
    decode dec (encode enc c (.raw (.str s))) ≠ some (.raw (.str s)) := by
  simp only [encode, decode, h, if_true]
  cases dec s <;> simp

/-- the same for a string key -/
theorem prefixed_string_key_not_preserved (enc : C → α → Text) (dec : Text → Option α) (c : C) (s : Text)
    (v : Tree α) (h : isPcvl s = true) :
    decode dec (encode enc c (.dict [(.str s, v)])) ≠ some (.dict [(.str s, v)]) := by
  simp only [encode, encodeD, encKey, build, assignAll, assign, decode, decodeD, decKey, h, if_true]
  cases dec s <;> cases decode dec (encode enc c v) <;> simp [assignAll, assign]

end boundaries

/-- The `pre` hypothesis of `LeafCodec` holds for every text the envelope layer of `Model/C15.lean` produces,
compressed or not (`":PCVL:zip:"` itself starts with `":PCVL:"`). -/
theorem isPcvl_envelope (z : PM.C15.Codec) (tag payload : Text) (doCompress : Bool) :
    isPcvl (PM.C15.handleCompression z (PM.C15.mkEnv tag payload) doCompress) = true := by
  cases doCompress with
  | false =>
    simp only [PM.C15.handleCompression, Bool.false_eq_true, if_false, PM.C15.mkEnv, isPcvl,
      List.isPrefixOf_iff_prefix]
    exact List.prefix_append _ _
  | true =>
    have hz : PM.C15.zipPrefix = pcvlPrefix ++ "zip:".toList := by decide
    simp only [PM.C15.handleCompression, if_true, isPcvl, List.isPrefixOf_iff_prefix, hz, List.append_assoc]
    exact List.prefix_append _ _

/-- a toy leaf codec: object `n` ↦ `":PCVL:"` followed by `n` times `x` -/
def toyEnc : Unit → Nat → Text := fun _ n => pcvlPrefix ++ List.replicate n 'x'
def toyDec : Text → Option Nat := fun s => some (s.length - 6)

theorem toy_codec : LeafCodec toyEnc toyDec where
  inv := by intro _ n; simp [toyEnc, toyDec, pcvlPrefix]
  pre := by
    intro _ n
    simp only [isPcvl, toyEnc, List.isPrefixOf_iff_prefix]
    exact List.prefix_append _ _

/-- non-vacuity of `roundtrip_tree`: a well-formed tree with every constructor, nested containers, an object key,
string keys (one empty, one almost the prefix), an almost-prefix string value and empty containers -/
def sampleTree : Tree Nat :=
  .dict [(.obj 2, .list [.obj 0, .raw .null, .list [], .dict []]),
         (.str "results".toList,
            .dict [(.obj 1, .raw (.num (1/2))), (.str ":PCVL".toList, .raw (.str "PCVL:".toList))]),
         (.str [], .raw (.bool true))]

theorem sampleTree_wf : sampleTree.WF := (wfb_iff sampleTree).mp (by decide)

example : decode toyDec (encode toyEnc () sampleTree) = some sampleTree :=
  roundtrip_tree toy_codec () sampleTree sampleTree_wf

/-- (b1) `keys distinct` is a hypothesis on the SOURCE dict only, and it is needed: an item list with a repeated
key is collapsed by the writer's own assignments, so it cannot come back.  (With string or value-hashed keys this
is not a Python dict; with keys hashed by identity it is: `{Circuit(2)//BS(): 1, Circuit(2)//BS(): 2}` has two
items and serialises to one.) -/
theorem repeated_source_key_collapses :
    encode toyEnc () (.dict [(.str ['a'], .raw (.int 1)), (.str ['a'], .raw (.int 2))])
      = .dict [(['a'], .raw (.int 2))] := rfl

/-- (b2) The one way two DISTINCT keys collide on the wire: a string key that is exactly the serialised text of an
object key of the same dict (`{BasicState("|1,0>"): 1, ":PCVL:BasicState:|1,0>": 2}`).  Excluded by `Key.ok`
(strings must not start with the prefix); the writer silently keeps one item. -/
theorem prefixed_string_key_collides_with_object_key :
    (keys [(Key.obj 3, (Tree.raw (.int 1) : Tree Nat)), (Key.str (toyEnc () 3), Tree.raw (.int 2))]).Nodup ∧
    encode toyEnc () (.dict [(.obj 3, .raw (.int 1)), (.str (toyEnc () 3), .raw (.int 2))])
      = .dict [(toyEnc () 3, .raw (.int 2))] :=
  ⟨(nodupb_iff _).mp (by decide), rfl⟩

/-- … and what is read back is a one-item dict (the object key with the string key's value). -/
theorem prefixed_string_key_collision_readback :
    decode toyDec (encode toyEnc () (.dict [(.obj 3, .raw (.int 1)), (.str (toyEnc () 3), .raw (.int 2))]))
      = some (.dict [(.obj 3, .raw (.int 2))]) := rfl

/-- a string that merely resembles the prefix is left alone (`":PCVL"`, `"PCVL:"`, `":pcvl:"`) -/
example : isPcvl ":PCVL".toList = false ∧ isPcvl "PCVL:".toList = false ∧ isPcvl ":pcvl:x".toList = false ∧
    isPcvl ":PCVL:".toList = true := by decide

end PM.C15.Tree
