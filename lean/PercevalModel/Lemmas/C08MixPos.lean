/-
  C08 — when the two positivity hypotheses of `probs_svd_mix_pnr_law` hold (`Model/C08Mix.lean`):
  * `0 < prePhys F ms` (the input filter's `physical_perf`);
  * `0 < mass (mixRaw h mask (preKept …)).1` (the accumulated mixture before `normalize()`).
  Everything is about `_preprocess_svd` and the loop of `_probs_svd_fast`, at EVERY `min_p` and precision.
-/
import PercevalModel.Lemmas.C08Mix

set_option linter.unusedSectionVars false

namespace PM.C08

section mixPos
variable {K : Type} [Field K] [LinearOrder K] [IsStrictOrderedRing K]

/-! ### `max_p` -/

/-- the running maximum of `_preprocess_svd` from an arbitrary start -/
def maxFold (F : ℕ) (ms : List (Member K)) (a : K) : K :=
  ms.foldl (fun a m => if F ≤ m.n then max m.p a else a) a

theorem preMaxP_eq_maxFold (F : ℕ) (ms : List (Member K)) : preMaxP F ms = maxFold F ms 0 := rfl

theorem maxFold_ge_init (F : ℕ) (ms : List (Member K)) : ∀ a : K, a ≤ maxFold F ms a := by
  induction ms with
  | nil => intro a; exact le_refl a
  | cons m ms ih =>
    intro a
    simp only [maxFold, List.foldl_cons]
    split
    · exact le_trans (le_max_right _ _) (ih _)
    · exact ih _

theorem maxFold_ge_member (F : ℕ) (ms : List (Member K)) :
    ∀ a : K, ∀ m ∈ ms, F ≤ m.n → m.p ≤ maxFold F ms a := by
  induction ms with
  | nil => intro a m hm; cases hm
  | cons m0 ms ih =>
    intro a m hm hF
    simp only [maxFold, List.foldl_cons]
    rcases List.mem_cons.mp hm with rfl | hm'
    · rw [if_pos hF]
      exact le_trans (le_max_left _ _) (maxFold_ge_init F ms _)
    · exact ih _ m hm' hF

theorem maxFold_attained (F : ℕ) (ms : List (Member K)) :
    ∀ a : K, maxFold F ms a = a ∨ ∃ m ∈ ms, F ≤ m.n ∧ maxFold F ms a = m.p := by
  induction ms with
  | nil => intro a; exact Or.inl rfl
  | cons m0 ms ih =>
    intro a
    simp only [maxFold, List.foldl_cons]
    by_cases hF : F ≤ m0.n
    · rw [if_pos hF]
      rcases ih (max m0.p a) with h | ⟨m, hm, hmF, e⟩
      · rcases max_cases m0.p a with ⟨hmx, _⟩ | ⟨hmx, _⟩
        · right
          refine ⟨m0, List.mem_cons_self, hF, ?_⟩
          show maxFold F ms (max m0.p a) = m0.p
          rw [h, hmx]
        · left
          show maxFold F ms (max m0.p a) = a
          rw [h, hmx]
      · exact Or.inr ⟨m, List.mem_cons_of_mem _ hm, hmF, e⟩
    · rw [if_neg hF]
      rcases ih a with h | ⟨m, hm, hmF, e⟩
      · exact Or.inl h
      · exact Or.inr ⟨m, List.mem_cons_of_mem _ hm, hmF, e⟩

theorem preMaxP_nonneg (F : ℕ) (ms : List (Member K)) : 0 ≤ preMaxP F ms := maxFold_ge_init F ms 0

/-- **which members survive `_preprocess_svd`**: some member is kept iff the threshold is below `max_p` — for every
`min_p`, precision, filter and list of members (no sign condition on the weights) -/
theorem preKept_ne_nil_iff (minP rel : K) (F : ℕ) (ms : List (Member K)) :
    preKept minP rel F ms ≠ [] ↔ preThreshold minP rel F ms < preMaxP F ms := by
  constructor
  · intro hne
    obtain ⟨m, hm⟩ := List.exists_mem_of_ne_nil _ hne
    unfold preKept at hm
    obtain ⟨hmem, hc⟩ := List.mem_filter.mp hm
    simp only [Bool.and_eq_true, decide_eq_true_eq] at hc
    exact lt_of_lt_of_le hc.1 (maxFold_ge_member F ms 0 m hmem hc.2)
  · intro hlt
    rcases maxFold_attained F ms (0 : K) with h0 | ⟨m, hm, hmF, e⟩
    · exfalso
      have h0' : preMaxP F ms = 0 := h0
      have : preMaxP F ms * rel ≤ preThreshold minP rel F ms := le_max_right _ _
      rw [h0', zero_mul] at this
      rw [h0'] at hlt
      exact absurd hlt (not_lt.mpr this)
    · intro hnil
      have hmk : m ∈ preKept minP rel F ms := by
        unfold preKept
        refine List.mem_filter.mpr ⟨hm, ?_⟩
        simp only [Bool.and_eq_true, decide_eq_true_eq]
        refine ⟨?_, hmF⟩
        have e' : preMaxP F ms = m.p := e
        rw [← e']; exact hlt
      rw [hnil] at hmk
      cases hmk

/-- the threshold is below `max_p` exactly when `min_p < max_p` and `max_p·precision < max_p` -/
theorem preThreshold_lt_iff (minP rel : K) (F : ℕ) (ms : List (Member K)) :
    preThreshold minP rel F ms < preMaxP F ms ↔ minP < preMaxP F ms ∧ preMaxP F ms * rel < preMaxP F ms := by
  unfold preThreshold
  exact max_lt_iff

/-- at the shipped kind of parameters (`precision < 1`): a member is kept iff `min_p < max_p` and `0 < max_p` -/
theorem preKept_ne_nil_iff_of_rel_lt_one (minP : K) {rel : K} (hrel : rel < 1) (F : ℕ) (ms : List (Member K)) :
    preKept minP rel F ms ≠ [] ↔ minP < preMaxP F ms ∧ 0 < preMaxP F ms := by
  rw [preKept_ne_nil_iff, preThreshold_lt_iff]
  have h0 := preMaxP_nonneg (K := K) F ms
  constructor
  · rintro ⟨h1, h2⟩
    refine ⟨h1, lt_of_le_of_ne h0 ?_⟩
    intro he
    rw [← he, zero_mul] at h2
    exact lt_irrefl _ h2
  · rintro ⟨h1, h2⟩
    refine ⟨h1, ?_⟩
    calc preMaxP F ms * rel < preMaxP F ms * 1 := mul_lt_mul_of_pos_left hrel h2
      _ = preMaxP F ms := mul_one _

/-! ### the input filter's `physical_perf` -/

theorem sum_map_p_nonneg (l : List (Member K)) (hp : ∀ m ∈ l, 0 ≤ m.p) : 0 ≤ (l.map (·.p)).sum := by
  apply List.sum_nonneg
  intro x hx
  obtain ⟨m, hm, rfl⟩ := List.mem_map.mp hx
  exact hp m hm

theorem sum_map_p_pos (l : List (Member K)) (hp : ∀ m ∈ l, 0 ≤ m.p) (m : Member K) (hm : m ∈ l) (hmp : 0 < m.p) :
    0 < (l.map (·.p)).sum := by
  induction l with
  | nil => cases hm
  | cons x l ih =>
    rw [List.map_cons, List.sum_cons]
    rcases List.mem_cons.mp hm with rfl | hm'
    · exact add_pos_of_pos_of_nonneg hmp (sum_map_p_nonneg l fun y hy => hp y (List.mem_cons_of_mem _ hy))
    · exact add_pos_of_nonneg_of_pos (hp x List.mem_cons_self)
        (ih (fun y hy => hp y (List.mem_cons_of_mem _ hy)) hm')

/-- `prePhys` in terms of the weight that passes the filter: `1 − ∑ p + ∑_{passing} p` -/
theorem prePhys_eq_pass (F : ℕ) (ms : List (Member K)) :
    prePhys F ms = 1 - (ms.map (·.p)).sum + ((ms.filter fun m => decide (F ≤ m.n)).map (·.p)).sum := by
  rw [prePhys_eq]
  have := sum_filter_split ms (fun m => decide (F ≤ m.n))
  have e : (fun m : Member K => !decide (F ≤ m.n)) = fun m => decide (¬ F ≤ m.n) := by
    funext m
    by_cases hm : F ≤ m.n <;> simp [hm]
  rw [e] at this
  linarith

/-- **positive `physical_perf` of the input filter**: non-negative weights of total at most one, and one member of
positive weight with at least `F` photons -/
theorem prePhys_pos_of_weights (F : ℕ) (ms : List (Member K)) (hp : ∀ m ∈ ms, 0 ≤ m.p)
    (hsum : (ms.map (·.p)).sum ≤ 1) (m : Member K) (hm : m ∈ ms) (hF : F ≤ m.n) (hmp : 0 < m.p) :
    0 < prePhys F ms := by
  rw [prePhys_eq_pass]
  have hpos : 0 < ((ms.filter fun m => decide (F ≤ m.n)).map (·.p)).sum :=
    sum_map_p_pos _ (fun x hx => hp x (List.mem_filter.mp hx).1) m
      (List.mem_filter.mpr ⟨hm, by simpa using hF⟩) hmp
  linarith

/-- for a NORMALISED input with positive weights the condition is exact: the filter's `physical_perf` is positive
iff some member has at least `F` photons (otherwise it is `0`) -/
theorem prePhys_pos_iff (F : ℕ) (ms : List (Member K)) (hp : ∀ m ∈ ms, 0 < m.p) (hsum : (ms.map (·.p)).sum = 1) :
    0 < prePhys F ms ↔ ∃ m ∈ ms, F ≤ m.n := by
  constructor
  · intro h
    rw [prePhys_eq_pass, hsum] at h
    by_contra hne
    have : (ms.filter fun m => decide (F ≤ m.n)) = [] := by
      apply List.filter_eq_nil_iff.mpr
      intro m hm hc
      exact hne ⟨m, hm, by simpa using hc⟩
    rw [this] at h
    simp at h
  · rintro ⟨m, hm, hF⟩
    exact prePhys_pos_of_weights F ms (fun x hx => (hp x hx).le) (le_of_eq hsum) m hm hF (hp m hm)

/-! ### the mass of the accumulated mixture -/

theorem memberRaw_nonneg (h : List (ℕ × ℕ)) (mask : Bool) (m : Member K) (hb : Nonneg m.base) :
    Nonneg (memberRaw h mask m) := by
  unfold memberRaw
  split
  · intro e he
    exact hb e (List.mem_of_mem_filter he)
  · exact hb

theorem sum_weighted_pos_iff (l : List (Member K)) (g : Member K → K) (hp : ∀ m ∈ l, 0 < m.p)
    (hg : ∀ m ∈ l, 0 ≤ g m) :
    0 < (l.map fun m => m.p * g m).sum ↔ ∃ m ∈ l, 0 < g m := by
  induction l with
  | nil => simp
  | cons x l ih =>
    have hp' : ∀ m ∈ l, 0 < m.p := fun m hm => hp m (List.mem_cons_of_mem _ hm)
    have hg' : ∀ m ∈ l, 0 ≤ g m := fun m hm => hg m (List.mem_cons_of_mem _ hm)
    have hx : 0 ≤ x.p * g x := mul_nonneg (hp x List.mem_cons_self).le (hg x List.mem_cons_self)
    have hrest : 0 ≤ (l.map fun m => m.p * g m).sum := by
      apply List.sum_nonneg
      intro y hy
      obtain ⟨m, hm, rfl⟩ := List.mem_map.mp hy
      exact mul_nonneg (hp' m hm).le (hg' m hm)
    rw [List.map_cons, List.sum_cons]
    constructor
    · intro hpos
      by_cases hgx : 0 < g x
      · exact ⟨x, List.mem_cons_self, hgx⟩
      · have hgx0 : g x = 0 := le_antisymm (not_lt.mp hgx) (hg x List.mem_cons_self)
        rw [hgx0, mul_zero, zero_add] at hpos
        obtain ⟨m, hm, hgm⟩ := (ih hp' hg').mp hpos
        exact ⟨m, List.mem_cons_of_mem _ hm, hgm⟩
    · rintro ⟨m, hm, hgm⟩
      rcases List.mem_cons.mp hm with rfl | hm'
      · exact add_pos_of_pos_of_nonneg (mul_pos (hp m List.mem_cons_self) hgm) hrest
      · exact add_pos_of_nonneg_of_pos hx ((ih hp' hg').mpr ⟨m, hm', hgm⟩)

/-- **the accumulated mixture has positive mass iff some member contributes**: positive weights and non-negative
member dictionaries; with the heralds mask a member contributes iff its herald-satisfying part has positive mass -/
theorem mixRaw_mass_pos_iff (h : List (ℕ × ℕ)) (mask : Bool) (ms : List (Member K)) (hp : ∀ m ∈ ms, 0 < m.p)
    (hb : ∀ m ∈ ms, Nonneg m.base) :
    0 < mass (mixRaw h mask ms).1 ↔ ∃ m ∈ ms, 0 < mass (memberRaw h mask m) := by
  rw [mixRaw_mass]
  exact sum_weighted_pos_iff ms (fun m => mass (memberRaw h mask m)) hp
    (fun m hm => mass_nonneg _ (memberRaw_nonneg h mask m (hb m hm)))

/-- without the mask and with normalised members: positive mass iff the list is not empty -/
theorem mixRaw_mass_pos_iff_nomask (h : List (ℕ × ℕ)) (ms : List (Member K)) (hp : ∀ m ∈ ms, 0 < m.p)
    (hb : ∀ m ∈ ms, mass m.base = 1) :
    0 < mass (mixRaw h false ms).1 ↔ ms ≠ [] := by
  rw [mixRaw_mass]
  have hraw : ∀ m : Member K, memberRaw h false m = m.base := fun m => rfl
  have e : (ms.map fun m => m.p * mass (memberRaw h false m)) = ms.map (·.p) := by
    apply List.map_congr_left
    intro m hm
    rw [hraw, hb m hm, mul_one]
  rw [e]
  constructor
  · intro hpos hnil
    rw [hnil] at hpos
    simp at hpos
  · intro hne
    obtain ⟨m, hm⟩ := List.exists_mem_of_ne_nil _ hne
    exact sum_map_p_pos ms (fun x hx => (hp x hx).le) m hm (hp m hm)

end mixPos

end PM.C08
