/-
  C20 — the labelling computed by `label_cnots_in_gate_sequence` always satisfies the cut condition.

  `_find_max_ralph_pairs` tries the subsets of the REVERSED CNOT list in `itertools.combinations` order and keeps
  the first acyclic one of the largest size.  Claim proved here (`label_cut`): for every CNOT the loop labels
  post-processed, its two qubits are separated by a set of qubits closed under every two-qubit gate that FOLLOWS it
  in the circuit (the later CNOTs of both kinds and ALL the other two-qubit gates) — the hypothesis `CutOk` of
  `forest_circuit_implements`.

  Proof.  Graph part, on the leaf-based definition `Forest` (no paths are used):
    * `two_leaves`        a non-empty forest has two distinct leaves;
    * `forest_cons_cross` a forest stays one when an edge crossing a closed vertex set is added;
    * `forest_separates`  an edge of a forest is separated from the rest by a closed vertex set.
  Order part (`first_cut`, structural induction over `combos`): if `S` is the FIRST forest among the `r`-subsets of
  `x :: xs` and does not start with `x`, no `r`-subset starting with `x` is a forest; so when `x` crosses the cut
  that separates a chosen edge `e` from `S − e`, the subset `x :: (S − e)` would be an earlier forest (exchange).
  `findMaxRalph_first`: the fold returns such a first forest (or nothing).  `assign_true`: the loop marks the first
  occurrence of every chosen value.
-/
import PercevalModel.Lemmas.C20
import PercevalModel.Model.C20Conv

namespace PM.C20

/-! ### graph part -/

/-- how often `v` is an end of `e` -/
def inc (e : Edge) (v : ℕ) : ℕ := (if e.1 = v then 1 else 0) + (if e.2 = v then 1 else 0)

theorem deg_cons' (v : ℕ) (e : Edge) (S : List Edge) : deg v (e :: S) = inc e v + deg v S := deg_cons v e S

theorem inc_eq_zero {e : Edge} {v : ℕ} (h1 : e.1 ≠ v) (h2 : e.2 ≠ v) : inc e v = 0 := by
  simp [inc, h1, h2]

theorem inc_pos {e : Edge} {v : ℕ} (h : e.1 = v ∨ e.2 = v) : 0 < inc e v := by
  unfold inc
  rcases h with h | h <;> simp [h]

theorem deg_pos_exists {v : ℕ} : ∀ {S : List Edge}, 0 < deg v S → ∃ e ∈ S, e.1 = v ∨ e.2 = v
  | [], h => by simp [deg] at h
  | e :: S, h => by
    by_cases he : e.1 = v ∨ e.2 = v
    · exact ⟨e, List.mem_cons_self, he⟩
    · have h1 : e.1 ≠ v := fun h' => he (Or.inl h')
      have h2 : e.2 ≠ v := fun h' => he (Or.inr h')
      rw [deg_cons', inc_eq_zero h1 h2, Nat.zero_add] at h
      obtain ⟨f, hf, hv⟩ := deg_pos_exists h
      exact ⟨f, List.mem_cons_of_mem _ hf, hv⟩

theorem deg_erase {v : ℕ} {S : List Edge} {e : Edge} (he : e ∈ S) : deg v S = inc e v + deg v (S.erase e) := by
  rw [deg_perm (List.perm_cons_erase he) v, deg_cons']

/-- a non-empty forest has two distinct leaves -/
theorem two_leaves : ∀ (n : ℕ) (T : List Edge), T.length = n → T ≠ [] → Forest T →
    ∃ w₁ w₂, w₁ ≠ w₂ ∧ deg w₁ T = 1 ∧ deg w₂ T = 1 := by
  intro n
  induction n using Nat.strong_induction_on with
  | _ n ih =>
    intro T hlen hne hF
    obtain ⟨w, hw⟩ := hF T (List.Subperm.refl T) hne
    obtain ⟨g, hg, hgw⟩ := deg_pos_exists (v := w) (S := T) (by omega)
    have hsplit := deg_erase (v := w) hg
    have hincw : 0 < inc g w := inc_pos hgw
    have hinc1 : inc g w = 1 := by omega
    have hdeg0 : deg w (T.erase g) = 0 := by omega
    have hloop : g.1 ≠ g.2 := hF.no_loop hg
    -- the other end of `g`
    obtain ⟨x, hxw, hincx, hother⟩ : ∃ x, x ≠ w ∧ inc g x = 1 ∧ ∀ y, y ≠ w → y ≠ x → inc g y = 0 := by
      rcases hgw with h | h
      · refine ⟨g.2, fun h' => hloop (h.trans h'.symm), ?_, ?_⟩
        · unfold inc; simp [hloop]
        · intro y hy1 hy2
          exact inc_eq_zero (fun h' => hy1 (h'.symm.trans h)) (fun h' => hy2 h'.symm)
      · refine ⟨g.1, fun h' => hloop (h'.trans h.symm), ?_, ?_⟩
        · unfold inc; simp [Ne.symm hloop]
        · intro y hy1 hy2
          exact inc_eq_zero (fun h' => hy2 h'.symm) (fun h' => hy1 (h'.symm.trans h))
    by_cases hT' : T.erase g = []
    · refine ⟨w, x, hxw.symm, hw, ?_⟩
      rw [deg_erase hg, hT', deg_nil, hincx]
    · have hF' : Forest (T.erase g) := hF.subperm (List.erase_sublist).subperm
      have hl' : (T.erase g).length < n := by
        rw [List.length_erase_of_mem hg]
        have : 0 < T.length := List.length_pos_iff.mpr hne
        omega
      obtain ⟨y₁, y₂, hy, hy1, hy2⟩ := ih _ hl' (T.erase g) rfl hT' hF'
      -- one of them is not `x`
      obtain ⟨y, hyx, hyd⟩ : ∃ y, y ≠ x ∧ deg y (T.erase g) = 1 := by
        by_cases h1 : y₁ = x
        · exact ⟨y₂, fun h2 => hy (h1.trans h2.symm), hy2⟩
        · exact ⟨y₁, h1, hy1⟩
      have hyw : y ≠ w := by
        intro h'; rw [h'] at hyd; omega
      refine ⟨w, y, hyw.symm, hw, ?_⟩
      rw [deg_erase hg, hother y hyw hyx, hyd]

/-- a non-empty forest has a leaf different from any given vertex -/
theorem other_leaf {T : List Edge} (hne : T ≠ []) (hF : Forest T) (u : ℕ) : ∃ w, w ≠ u ∧ deg w T = 1 := by
  obtain ⟨w₁, w₂, h12, h1, h2⟩ := two_leaves T.length T rfl hne hF
  by_cases h : w₁ = u
  · exact ⟨w₂, fun h' => h12 (h.trans h'.symm), h2⟩
  · exact ⟨w₁, h, h1⟩

/-- `A` is closed under the edges of `G`: no edge of `G` leaves `A` -/
def Closed (A : ℕ → Prop) (G : List Edge) : Prop := ∀ g ∈ G, (A g.1 ↔ A g.2)

theorem Closed.mono {A : ℕ → Prop} {G G' : List Edge} (h : Closed A G) (hs : ∀ g ∈ G', g ∈ G) : Closed A G' :=
  fun g hg => h g (hs g hg)

theorem deg_eq_zero' {w : ℕ} {S : List Edge} (h : ∀ e ∈ S, e.1 ≠ w ∧ e.2 ≠ w) : deg w S = 0 := by
  induction S with
  | nil => rfl
  | cons e S ih =>
    rw [deg_cons', inc_eq_zero (h e List.mem_cons_self).1 (h e List.mem_cons_self).2, Nat.zero_add]
    exact ih fun f hf => h f (List.mem_cons_of_mem _ hf)

open Classical in
/-- degrees split along a closed set -/
theorem deg_split (A : ℕ → Prop) (S : List Edge) (w : ℕ) :
    deg w S = deg w (S.filter fun g => decide (A g.1)) + deg w (S.filter fun g => !decide (A g.1)) := by
  induction S with
  | nil => rfl
  | cons e S ih =>
    by_cases h : A e.1
    · simp only [List.filter_cons, h, decide_true, Bool.not_true, if_true, Bool.false_eq_true, if_false,
        deg_cons', ih]
      omega
    · simp only [List.filter_cons, h, decide_false, Bool.not_false, if_true, Bool.false_eq_true, if_false,
        deg_cons', ih]
      omega

open Classical in
/-- **adding an edge that crosses a closed set keeps a forest a forest** -/
theorem forest_cons_cross {G : List Edge} (hF : Forest G) (A : ℕ → Prop) (hA : Closed A G) (f : Edge)
    (hf : ¬ (A f.1 ↔ A f.2)) : Forest (f :: G) := by
  intro S hS hne
  by_cases hfS : f ∈ S
  · -- `S = f :: S'`, `S' ⊆ G`
    have hS' : (S.erase f).Subperm G := by simpa using hS.erase f
    have hcl : Closed A (S.erase f) := hA.mono fun g hg => hS'.subset hg
    -- the statement is symmetric in the two sides of the cut: prove it for the side of an end `u` of `f`
    have key : ∀ (B : ℕ → Prop) (u v : ℕ), Closed B (S.erase f) → B u → ¬ B v → inc f u = 1 →
        (∀ y, y ≠ u → y ≠ v → inc f y = 0) → ∃ w, deg w S = 1 := by
      intro B u v hB hu hv hfu hfo
      have hsp := fun w => deg_split B (S.erase f) w
      have hin : ∀ g ∈ (S.erase f).filter (fun g => decide (B g.1)), B g.1 ∧ B g.2 := by
        intro g hg
        rw [List.mem_filter] at hg
        have h1 : B g.1 := by simpa using hg.2
        exact ⟨h1, (hB g hg.1).1 h1⟩
      have hout : ∀ g ∈ (S.erase f).filter (fun g => !decide (B g.1)), ¬ B g.1 ∧ ¬ B g.2 := by
        intro g hg
        rw [List.mem_filter] at hg
        have h1 : ¬ B g.1 := by simpa using hg.2
        exact ⟨h1, fun h2 => h1 ((hB g hg.1).2 h2)⟩
      have hzero_out : ∀ w, B w → deg w ((S.erase f).filter fun g => !decide (B g.1)) = 0 := by
        intro w hw
        apply deg_eq_zero'
        intro e he
        exact ⟨fun h => (hout e he).1 (h ▸ hw), fun h => (hout e he).2 (h ▸ hw)⟩
      by_cases hemp : (S.erase f).filter (fun g => decide (B g.1)) = []
      · refine ⟨u, ?_⟩
        rw [deg_erase hfS, hsp u, hemp, deg_nil, hzero_out u hu, hfu]
      · have hFA : Forest ((S.erase f).filter fun g => decide (B g.1)) :=
          hF.subperm ((List.filter_sublist).subperm.trans hS')
        obtain ⟨w, hwu, hwd⟩ := other_leaf hemp hFA u
        have hBw : B w := by
          obtain ⟨e, he, hev⟩ := deg_pos_exists (v := w)
            (S := (S.erase f).filter fun g => decide (B g.1)) (by rw [hwd]; exact Nat.one_pos)
          rcases hev with h | h
          · exact h ▸ (hin e he).1
          · exact h ▸ (hin e he).2
        have hwv : w ≠ v := fun h => hv (h ▸ hBw)
        refine ⟨w, ?_⟩
        rw [deg_erase hfS, hsp w, hwd, hzero_out w hBw, hfo w hwu hwv]
    have hne12 : f.1 ≠ f.2 := fun h => hf (by rw [h])
    have hinc1 : inc f f.1 = 1 := by unfold inc; simp [Ne.symm hne12]
    have hinc2 : inc f f.2 = 1 := by unfold inc; simp [hne12]
    by_cases h1 : A f.1
    · have h2 : ¬ A f.2 := fun h2 => hf ⟨fun _ => h2, fun _ => h1⟩
      exact key A f.1 f.2 hcl h1 h2 hinc1 fun y hy1 hy2 => inc_eq_zero (Ne.symm hy1) (Ne.symm hy2)
    · have h2 : A f.2 := by
        by_contra h2
        exact hf ⟨fun h => absurd h h1, fun h => absurd h h2⟩
      have hcl' : Closed (fun p => ¬ A p) (S.erase f) := fun g hg => not_congr (hcl g hg)
      exact key (fun p => ¬ A p) f.1 f.2 hcl' h1 (fun h => h h2) hinc1
        fun y hy1 hy2 => inc_eq_zero (Ne.symm hy1) (Ne.symm hy2)
  · have hS' : S.Subperm G := by
      have := hS.erase f
      rwa [List.erase_of_not_mem hfS, List.erase_cons_head] at this
    exact hF S hS' hne

/-- **an edge of a forest is separated from the rest**: some set closed under the other edges holds exactly one
of its ends -/
theorem forest_separates : ∀ (n : ℕ) (G : List Edge) (e : Edge), G.length = n → Forest (e :: G) →
    ∃ A : ℕ → Prop, Closed A G ∧ A e.1 ∧ ¬ A e.2 := by
  intro n
  induction n with
  | zero =>
    intro G e hlen hF
    have : G = [] := List.length_eq_zero_iff.mp hlen
    subst this
    exact ⟨fun p => p = e.1, fun g hg => by simp at hg, rfl, fun h => hF.no_loop List.mem_cons_self h.symm⟩
  | succ n ih =>
    intro G e hlen hF
    have hloop : e.1 ≠ e.2 := hF.no_loop List.mem_cons_self
    -- a leaf of `e :: G` which is not an end of `e`, if there is one
    by_cases hex : ∃ w, w ≠ e.1 ∧ w ≠ e.2 ∧ deg w (e :: G) = 1
    · obtain ⟨w, hw1, hw2, hwd⟩ := hex
      rw [deg_cons', inc_eq_zero (Ne.symm hw1) (Ne.symm hw2), Nat.zero_add] at hwd
      obtain ⟨g, hg, hgw⟩ := deg_pos_exists (v := w) (S := G) (by omega)
      have hsplit := deg_erase (v := w) hg
      have hincw : 0 < inc g w := inc_pos hgw
      have hdeg0 : deg w (G.erase g) = 0 := by omega
      have hF' : Forest (e :: G.erase g) :=
        hF.subperm ((List.erase_sublist).cons_cons e).subperm
      have hl' : (G.erase g).length = n := by rw [List.length_erase_of_mem hg]; omega
      obtain ⟨A', hA', ha, hb⟩ := ih (G.erase g) e hl' hF'
      have hgl : g.1 ≠ g.2 := hF.no_loop (List.mem_cons_of_mem _ hg)
      -- no edge of `G.erase g` touches `w`
      have hnot : ∀ f ∈ G.erase g, f.1 ≠ w ∧ f.2 ≠ w := by
        intro f hf
        by_contra hcon
        have hpos : 0 < inc f w := by
          apply inc_pos
          by_cases h1 : f.1 = w
          · exact Or.inl h1
          · by_cases h2 : f.2 = w
            · exact Or.inr h2
            · exact absurd ⟨h1, h2⟩ hcon
        have := deg_erase (v := w) hf
        omega
      -- the other end of `g`
      let x := if g.1 = w then g.2 else g.1
      have hxw : x ≠ w := by
        simp only [x]
        split
        · rename_i h; exact fun h' => hgl (h.trans h'.symm)
        · rename_i h; exact h
      refine ⟨fun p => if p = w then A' x else A' p, ?_, ?_, ?_⟩
      · intro f hf
        by_cases hfg : f = g
        · subst hfg
          rcases hgw with h | h
          · have hx : x = f.2 := by simp [x, h]
            have h2 : f.2 ≠ w := fun h' => hgl (h.trans h'.symm)
            simp only [h, if_true, h2, if_false, hx]
          · have h1 : f.1 ≠ w := fun h' => hgl (h'.trans h.symm)
            have hx : x = f.1 := by simp [x, h1]
            simp only [h, if_true, h1, if_false, hx]
        · have hf' : f ∈ G.erase g := (List.mem_erase_of_ne hfg).mpr hf
          obtain ⟨h1, h2⟩ := hnot f hf'
          simp only [h1, h2, if_false]
          exact hA' f hf'
      · simp only [Ne.symm hw1, if_false]; exact ha
      · simp only [Ne.symm hw2, if_false]; exact hb
    · -- every leaf is an end of `e`: both ends are leaves, nothing else touches them
      obtain ⟨w₁, w₂, h12, hd1, hd2⟩ := two_leaves _ (e :: G) rfl (by simp) hF
      have hends : ∀ w, deg w (e :: G) = 1 → w = e.1 ∨ w = e.2 := by
        intro w hw
        by_contra hcon
        exact hex ⟨w, fun h => hcon (Or.inl h), fun h => hcon (Or.inr h), hw⟩
      have hd : deg e.1 (e :: G) = 1 := by
        rcases hends w₁ hd1 with h1 | h1 <;> rcases hends w₂ hd2 with h2 | h2
        · exact absurd (h1.trans h2.symm) h12
        · exact h1 ▸ hd1
        · exact h2 ▸ hd2
        · exact absurd (h1.trans h2.symm) h12
      have hinc : inc e e.1 = 1 := by unfold inc; simp [Ne.symm hloop]
      rw [deg_cons', hinc] at hd
      have hd0 : deg e.1 G = 0 := by omega
      refine ⟨fun p => p = e.1, ?_, rfl, fun h => hloop h.symm⟩
      intro g hg
      have hsp := deg_erase (v := e.1) hg
      have h0 : inc g e.1 = 0 := by omega
      have h1 : g.1 ≠ e.1 := fun h => by have := inc_pos (e := g) (v := e.1) (Or.inl h); omega
      have h2 : g.2 ≠ e.1 := fun h => by have := inc_pos (e := g) (v := e.1) (Or.inr h); omega
      exact ⟨fun h => absurd h h1, fun h => absurd h h2⟩

/-! ### order part -/

/-- the first acyclic `r`-subset (in `itertools.combinations` order) given the always-present edges `X` -/
def firstF (X : List Edge) (r : ℕ) (xs : List Edge) : Option (List Edge) :=
  (combos r xs).find? fun S => forestB (S ++ X)

theorem forestB_middle (x : Edge) (T X : List Edge) : forestB (x :: T ++ X) = forestB (T ++ x :: X) := by
  apply Bool.eq_iff_iff.mpr
  rw [forestB_iff, forestB_iff]
  exact ⟨fun h => h.perm List.perm_middle.symm, fun h => h.perm List.perm_middle⟩

theorem firstF_cons (X : List Edge) (r : ℕ) (x : Edge) (xs : List Edge) :
    firstF X (r + 1) (x :: xs) = ((firstF (x :: X) r xs).map (x :: ·)).or (firstF X (r + 1) xs) := by
  unfold firstF
  rw [combos, List.find?_append, List.find?_map]
  congr 3
  funext T
  exact forestB_middle x T X

theorem firstF_some {X : List Edge} {r : ℕ} {xs S : List Edge} (h : firstF X r xs = some S) :
    S.Sublist xs ∧ S.length = r ∧ Forest (S ++ X) := by
  obtain ⟨h1, h2⟩ := (mem_combos r xs S).1 (List.mem_of_find?_eq_some h)
  have h3 : forestB (S ++ X) = true := List.find?_some (p := fun S => forestB (S ++ X)) h
  exact ⟨h1, h2, (forestB_iff _).1 h3⟩

theorem firstF_none {X : List Edge} {r : ℕ} {xs : List Edge} (h : firstF X r xs = none)
    (T : List Edge) (hT : T.Sublist xs) (hl : T.length = r) : ¬ Forest (T ++ X) := by
  intro hF
  have := List.find?_eq_none.1 h T ((mem_combos r xs T).2 ⟨hT, hl⟩)
  exact this ((forestB_iff _).2 hF)

/-- **the exchange argument along `itertools.combinations`**: every edge `e` of the first acyclic `r`-subset `S`,
at its first occurrence `k` in the list, is separated by a set closed under the rest of `S`, under everything
that PRECEDES it in the list, and under the always-present edges -/
theorem first_cut : ∀ (xs : List Edge) (r : ℕ) (X S : List Edge), firstF X r xs = some S →
    ∀ (k : ℕ) (e : Edge), xs[k]? = some e → e ∈ S → e ∉ xs.take k →
      ∃ A : ℕ → Prop, Closed A (S.erase e ++ xs.take k ++ X) ∧ A e.1 ∧ ¬ A e.2
  | [], _, _, _, _, k, e, hk, _, _ => by simp at hk
  | x :: rest, 0, X, S, h, k, e, _, he, _ => by
    have := (firstF_some h).2.1
    rw [List.length_eq_zero_iff.mp this] at he
    simp at he
  | x :: rest, r + 1, X, S, h, k, e, hk, he, hnot => by
    rw [firstF_cons] at h
    cases hfirst : firstF (x :: X) r rest with
    | some S0 =>
      rw [hfirst] at h
      simp only [Option.map_some, Option.some_or, Option.some.injEq] at h
      subst h
      obtain ⟨_, _, hF0⟩ := firstF_some hfirst
      cases k with
      | zero =>
        simp only [List.getElem?_cons_zero, Option.some.injEq] at hk
        subst hk
        have hF : Forest (x :: (S0 ++ X)) := hF0.perm List.perm_middle
        obtain ⟨A, hA, ha, hb⟩ := forest_separates _ (S0 ++ X) x rfl hF
        refine ⟨A, hA.mono ?_, ha, hb⟩
        intro g hg
        simpa using hg
      | succ k' =>
        simp only [List.getElem?_cons_succ] at hk
        simp only [List.take_succ_cons, List.mem_cons, not_or] at hnot
        obtain ⟨hex, hnot'⟩ := hnot
        have he0 : e ∈ S0 := by
          rcases List.mem_cons.1 he with h' | h'
          · exact absurd h' hex
          · exact h'
        obtain ⟨A, hA, ha, hb⟩ := first_cut rest r (x :: X) S0 hfirst k' e hk he0 hnot'
        refine ⟨A, hA.mono ?_, ha, hb⟩
        intro g hg
        have hxe : (x == e) = false := by simpa using Ne.symm hex
        simp only [List.erase_cons, hxe, List.take_succ_cons, List.mem_append, List.mem_cons,
          Bool.false_eq_true, if_false] at hg ⊢
        tauto
    | none =>
      rw [hfirst] at h
      simp only [Option.map_none, Option.none_or] at h
      obtain ⟨hsub, hlen, hF⟩ := firstF_some h
      cases k with
      | zero =>
        simp only [List.getElem?_cons_zero, Option.some.injEq] at hk
        subst hk
        exfalso
        apply firstF_none hfirst (S.erase x) ((List.erase_sublist).trans hsub)
          (by rw [List.length_erase_of_mem he, hlen]; rfl)
        have hp : (S.erase x ++ x :: X).Perm (S ++ X) :=
          List.perm_middle.trans ((List.perm_cons_erase he).symm.append_right X)
        exact hF.perm hp.symm
      | succ k' =>
        simp only [List.getElem?_cons_succ] at hk
        simp only [List.take_succ_cons, List.mem_cons, not_or] at hnot
        obtain ⟨hex, hnot'⟩ := hnot
        obtain ⟨A, hA, ha, hb⟩ := first_cut rest (r + 1) X S h k' e hk he hnot'
        by_cases hx : A x.1 ↔ A x.2
        · refine ⟨A, ?_, ha, hb⟩
          intro g hg
          simp only [List.take_succ_cons, List.mem_append, List.mem_cons] at hg
          rcases hg with (hg | hg | hg) | hg
          · exact hA g (by simp [hg])
          · rw [hg]; exact hx
          · exact hA g (by simp [hg])
          · exact hA g (by simp [hg])
        · exfalso
          apply firstF_none hfirst (S.erase e) ((List.erase_sublist).trans hsub)
            (by rw [List.length_erase_of_mem he, hlen]; rfl)
          have hF' : Forest (S.erase e ++ X) :=
            hF.subperm ((List.erase_sublist).append_right X).subperm
          have hcl : Closed A (S.erase e ++ X) := hA.mono fun g hg => by
            simp only [List.mem_append] at hg ⊢
            tauto
          exact (forest_cons_cross hF' A hcl x hx).perm List.perm_middle.symm

/-! ### the fold of `_find_max_ralph_pairs` returns a first acyclic subset -/

theorem foldl_best_full (P : List Edge → Bool) (r : ℕ) : ∀ (L : List (List Edge)) (best : List Edge),
    (∀ S ∈ L, S.length = r) → r ≤ best.length → L.foldl (bestStep P) best = best
  | [], _, _, _ => rfl
  | x :: xs, best, hL, hb => by
    have hx : x.length = r := hL x List.mem_cons_self
    have : bestStep P best x = best := by
      unfold bestStep
      have : ¬ x.length > best.length := by omega
      simp [this]
    rw [List.foldl_cons, this]
    exact foldl_best_full P r xs best (fun S hS => hL S (List.mem_cons_of_mem _ hS)) hb

theorem foldl_best_block (P : List Edge → Bool) (r : ℕ) : ∀ (L : List (List Edge)) (best : List Edge),
    (∀ S ∈ L, S.length = r) → best.length < r → L.foldl (bestStep P) best = (L.find? P).getD best
  | [], _, _, _ => rfl
  | x :: xs, best, hL, hb => by
    have hx : x.length = r := hL x List.mem_cons_self
    have hL' : ∀ S ∈ xs, S.length = r := fun S hS => hL S (List.mem_cons_of_mem _ hS)
    rw [List.foldl_cons]
    by_cases hp : P x = true
    · have : bestStep P best x = x := by
        unfold bestStep
        have : x.length > best.length := by omega
        simp [hp, this]
      rw [this, foldl_best_full P r xs x hL' (by omega), List.find?_cons_of_pos (l := xs) hp]
      rfl
    · have : bestStep P best x = best := by
        unfold bestStep
        simp [hp]
      rw [this, List.find?_cons_of_neg (l := xs) hp]
      exact foldl_best_block P r xs best hL' hb

theorem findMaxRalph_first_aux (P X : List Edge) : ∀ n : ℕ,
    let res := ((List.range n).flatMap fun r => combos (r + 1) P).foldl
      (bestStep fun S => forestB (S ++ X)) []
    res.length ≤ n ∧ (res = [] ∨ ∃ r, firstF X r P = some res)
  | 0 => by simp
  | n + 1 => by
    obtain ⟨ih1, ih2⟩ := findMaxRalph_first_aux P X n
    simp only [List.range_succ, List.flatMap_append, List.flatMap_cons, List.flatMap_nil, List.append_nil,
      List.foldl_append] at ih1 ih2 ⊢
    rw [foldl_best_block _ (n + 1) _ _ (fun S hS => ((mem_combos _ _ _).1 hS).2) (by omega)]
    cases hf : (combos (n + 1) P).find? (fun S => forestB (S ++ X)) with
    | none =>
      simp only [Option.getD_none]
      exact ⟨by omega, ih2⟩
    | some S =>
      simp only [Option.getD_some]
      have hlen : S.length = n + 1 := ((mem_combos _ _ _).1 (List.mem_of_find?_eq_some hf)).2
      exact ⟨by omega, Or.inr ⟨n + 1, hf⟩⟩

/-- `_find_max_ralph_pairs` returns nothing, or the first acyclic subset of its size in `combinations` order -/
theorem findMaxRalph_first (P X : List Edge) :
    findMaxRalph P X = [] ∨ ∃ r, firstF X r P = some (findMaxRalph P X) :=
  (findMaxRalph_first_aux P X P.length).2

/-! ### the labelling loop marks the first occurrence of every chosen value -/

theorem Forest.nodup_left : ∀ {S X : List Edge}, Forest (S ++ X) → S.Nodup
  | [], _, _ => List.nodup_nil
  | e :: S, X, h => by
    have h' : Forest (S ++ X) := h.subperm (List.sublist_cons_self e (S ++ X)).subperm
    refine List.nodup_cons.2 ⟨fun he => ?_, Forest.nodup_left h'⟩
    have hsub : [e, e].Sublist (e :: S ++ X) :=
      ((List.singleton_sublist.2 he).cons_cons e).trans (List.sublist_append_left (e :: S) X)
    exact h.no_parallel hsub.subperm (Or.inl ⟨rfl, rfl⟩)

theorem assign_true : ∀ (L R : List Edge) (k : ℕ), R.Nodup → (assign L R)[k]? = some true →
    ∃ e, L[k]? = some e ∧ e ∈ R ∧ e ∉ L.take k
  | [], _, k, _, h => by simp [assign] at h
  | x :: xs, R, k, hnd, h => by
    unfold assign at h
    by_cases hx : x ∈ R
    · rw [if_pos hx] at h
      cases k with
      | zero => exact ⟨x, by simp, hx, by simp⟩
      | succ k' =>
        simp only [List.getElem?_cons_succ] at h
        obtain ⟨e, h1, h2, h3⟩ := assign_true xs (R.erase x) k' (hnd.erase x) h
        obtain ⟨hne, hR⟩ := (hnd.mem_erase_iff).1 h2
        exact ⟨e, by simpa using h1, hR, by simp [hne, h3]⟩
    · rw [if_neg hx] at h
      cases k with
      | zero => simp at h
      | succ k' =>
        simp only [List.getElem?_cons_succ] at h
        obtain ⟨e, h1, h2, h3⟩ := assign_true xs R k' hnd h
        have hne : e ≠ x := fun h' => hx (h' ▸ h2)
        exact ⟨e, by simpa using h1, h2, by simp [hne, h3]⟩

/-- **reversed-list form of the cut property**: a CNOT the loop labels post-processed (index `k` of the reversed
CNOT list `P`) is separated by a set closed under the CNOTs before it in `P` — the LATER ones of the circuit — and
under all the other two-qubit gates `X` -/
theorem label_cut_rev (P X : List Edge) (k : ℕ) (h : (assign P (findMaxRalph P X))[k]? = some true) :
    ∃ e, P[k]? = some e ∧ ∃ A : ℕ → Prop, Closed A (P.take k ++ X) ∧ A e.1 ∧ ¬ A e.2 := by
  rcases findMaxRalph_first P X with h0 | ⟨r, hr⟩
  · rw [h0] at h
    obtain ⟨e, _, he, _⟩ := assign_true P [] k List.nodup_nil h
    simp at he
  · obtain ⟨_, _, hF⟩ := firstF_some hr
    obtain ⟨e, h1, h2, h3⟩ := assign_true P _ k hF.nodup_left h
    obtain ⟨A, hA, ha, hb⟩ := first_cut P r X _ hr k e h1 h2 h3
    refine ⟨e, h1, A, hA.mono ?_, ha, hb⟩
    intro g hg
    simp only [List.mem_append] at hg ⊢
    tauto

/-- the flags of a CNOT list in CIRCUIT order satisfy the cut property -/
def Good (cn : List Edge) (fl : List Bool) (X : List Edge) : Prop :=
  ∀ i, fl[i]? = some true →
    ∃ e, cn[i]? = some e ∧ ∃ A : ℕ → Prop, Closed A (cn.drop (i + 1) ++ X) ∧ A e.1 ∧ ¬ A e.2

/-- **circuit-order form** for the flags `_gate_list_optimized_cnots` computes -/
theorem label_cut (cn X : List Edge) :
    Good cn (assign cn.reverse (findMaxRalph cn.reverse X)).reverse X := by
  intro i hi
  have hlen : (assign cn.reverse (findMaxRalph cn.reverse X)).length = cn.length := by
    rw [assign_length, List.length_reverse]
  have hi' : i < cn.length := by
    by_contra hcon
    rw [List.getElem?_eq_none (by rw [List.length_reverse, hlen]; omega)] at hi
    cases hi
  rw [List.getElem?_reverse (by rw [hlen]; exact hi'), hlen] at hi
  obtain ⟨e, he, A, hA, ha, hb⟩ := label_cut_rev cn.reverse X _ hi
  rw [List.getElem?_reverse (by omega)] at he
  have hidx : cn.length - 1 - (cn.length - 1 - i) = i := by omega
  rw [hidx] at he
  refine ⟨e, he, A, hA.mono ?_, ha, hb⟩
  intro g hg
  rw [List.take_reverse]
  have : cn.length - (cn.length - 1 - i) = i + 1 := by omega
  rw [this]
  simp only [List.mem_append, List.mem_reverse] at hg ⊢
  exact hg

end PM.C20
