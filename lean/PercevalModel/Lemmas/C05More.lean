/-
  C05 — wave 7 (proofs only): lemmas for
  * the hypothesis `Pr.inputCurrent` discharged from the SHAPE of the history (`inputTracked`);
  * the configuration of each machine as a function of the history alone (cache-free configuration machines
    `cfgStepB`, `cfgStepSt`, `cfgStepSi`): a query never changes it, a setter's effect on it depends on the
    configuration only;
  * the exact content of `Pr.inputCurrent` for a Fock-state input with a user filter (`iff`).
-/
import PercevalModel.Lemmas.C05Backend

namespace PM.C05

open SM

/-! ## generic: running a machine through a relation that queries do not disturb -/

/-- if queries keep `Rel` against an untouched partner and every other operation keeps it when done on both
sides, the state after a history is related to the state after the same history without its queries -/
theorem exec_filter_rel {S Op Out : Type} (step : S → Op → S × Out) (isQ : Op → Bool) (Rel : S → S → Prop)
    (hq : ∀ s s' op, isQ op = true → Rel s s' → Rel (step s op).1 s')
    (hs : ∀ s s' op, isQ op = false → Rel s s' → Rel (step s op).1 (step s' op).1)
    (s s' : S) (h : Rel s s') (ops : List Op) :
    Rel (exec step s ops) (exec step s' (ops.filter fun op => !isQ op)) := by
  induction ops generalizing s s' with
  | nil => exact h
  | cons x xs ih =>
    rw [exec_cons]
    cases hx : isQ x with
    | true =>
      simp only [List.filter_cons, hx, Bool.not_true, Bool.false_eq_true, if_false]
      exact ih _ _ (hq s s' x hx h)
    | false =>
      simp only [List.filter_cons, hx, Bool.not_false, if_true]
      rw [exec_cons]
      exact ih _ _ (hs s s' x hx h)

/-- the configuration after a history computed by a configuration-level step function -/
theorem exec_config_fold {S Op Out C : Type} (step : S → Op → S × Out) (cfg : S → C) (cstep : C → Op → C)
    (h : ∀ s op, cfg (step s op).1 = cstep (cfg s) op) (s : S) (ops : List Op) :
    cfg (exec step s ops) = ops.foldl cstep (cfg s) := by
  induction ops generalizing s with
  | nil => rfl
  | cons x xs ih => rw [exec_cons, ih, h, List.foldl_cons]

/-! ## Stepper -/

def StOp.isQuery : StOp → Bool
  | .evolve _ => true
  | _ => false

/-- the cache-free configuration machine of the Stepper -/
def cfgStepSt (cfg : StCfg) : StOp → StCfg
  | .setCircuit c => { cfg with circ := some c }
  | .setParams pv => { cfg with pv := pv }
  | .setFilter k => { cfg with filt := k }
  | .evolve _ => cfg

theorem stepSt_config (fixed : Bool) (s : St) (op : StOp) :
    (stepSt fixed s op).1.config = cfgStepSt s.config op := by
  cases op with
  | evolve inp =>
    simp only [stepSt, cfgStepSt]
    split
    · rfl
    · repeat' split
      all_goals rfl
  | _ => rfl

theorem cfgStepSt_query (cfg : StCfg) (op : StOp) (h : op.isQuery = true) : cfgStepSt cfg op = cfg := by
  cases op <;> first | rfl | simp [StOp.isQuery] at h

/-! ## Simulator -/

/-- the cache-free configuration machine of the Simulator -/
def cfgStepSi (cfg : SiCfg) : SiOp → SiCfg
  | .setCircuit c => { cfg with circ := some c }
  | .setHeralds h n => { cfg with heralds := h, nHeralds := n }
  | .clearHeralds => { cfg with heralds := 0, nHeralds := 0 }
  | .setOther o => { cfg with other := o }
  | _ => cfg

theorem evolveAllF_config (c : Nat) (bm0 : BMask) (fk : List (Bool × SiKey)) (s : Si) :
    (evolveAllF s c bm0 fk).1.config = s.config := by
  induction fk generalizing s with
  | nil => rfl
  | cons x xs ih =>
    obtain ⟨fl, st, nExt, nOwn⟩ := x
    simp only [evolveAllF]
    split
    · exact ih s
    · rw [ih]; rfl

theorem bareAll_config (c : Nat) (sts : List Nat) (s : Si) : (bareAll s c sts).1.config = s.config := by
  induction sts generalizing s with
  | nil => rfl
  | cons x xs ih =>
    simp only [bareAll]
    split
    · exact ih s
    · rw [ih]; rfl

theorem clearB_config (fixed : Bool) (s : Si) : (clearB fixed s).config = s.config := by
  unfold clearB; split <;> rfl

theorem initUseMask_config (fixed : Bool) (s : Si) (pnr : Bool) : (initUseMask fixed s pnr).config = s.config := by
  unfold initUseMask
  rw [clearB_config]
  split <;> rfl

theorem initUseMask_circ (fixed : Bool) (s : Si) (pnr : Bool) : (initUseMask fixed s pnr).circ = s.circ :=
  congrArg SiCfg.circ (initUseMask_config fixed s pnr)

theorem stepSi_config (fixed : Bool) (s : Si) (op : SiOp) :
    (stepSi fixed s op).1.config = cfgStepSi s.config op := by
  cases op with
  | setCircuit c => rfl
  | setHeralds h n => rfl
  | clearHeralds => rfl
  | setOther o => rfl
  | probsSvd pnr generic keys =>
    simp only [stepSi, cfgStepSi]
    split
    · rfl
    · split
      · rw [evolveAllF_config, initUseMask_config]
      · show Si.config { (evolveAllF _ _ _ _).1 with evolve := _ } = _
        have := evolveAllF_config ‹Nat› (initUseMask fixed s pnr).bmask (allT keys)
          { initUseMask fixed s pnr with evolve := [] }
        simp only [Si.config] at this ⊢
        rw [this]
        exact initUseMask_config fixed s pnr
  | evolve keys =>
    simp only [stepSi, cfgStepSi]
    split
    · rfl
    · rw [evolveAllF_config]
      split
      · exact initUseMask_config fixed s true
      · rfl
  | evolveSvd groups =>
    simp only [stepSi, cfgStepSi]
    split
    · rfl
    · rw [evolveAllF_config, initUseMask_config]
  | probs sts =>
    simp only [stepSi, cfgStepSi]
    split
    · rfl
    · rw [bareAll_config, clearB_config]
  | direct sts =>
    simp only [stepSi, cfgStepSi]
    split
    · rfl
    · exact clearB_config fixed s

theorem cfgStepSi_query (cfg : SiCfg) (op : SiOp) (h : op.isQuery = true) : cfgStepSi cfg op = cfg := by
  cases op <;> first | rfl | simp [SiOp.isQuery] at h

/-! ## Backends -/

def Op.isQuery : Op → Bool
  | .query _ => true
  | _ => false

/-- the cache-free configuration machine of a backend of kind `k`: what each operation does to what the user
set last (the refusals — input before circuit, lengths that do not match, `set_cutoff` on another engine — leave
it alone) -/
def cfgStepB (k : Kind) (cfg : BCfg) : Op → BCfg
  | .setCircuit c => ⟨some c, none, cfg.mask, cfg.cutoff⟩
  | .setInput inp =>
    match cfg.circ with
    | none => cfg
    | some c =>
      if inp.length ≠ c.m then cfg
      else if badLen cfg.mask inp.length then cfg
      else ⟨cfg.circ, some inp, cfg.mask, cfg.cutoff⟩
  | .setMask sid len n =>
    if badLenI cfg.input len then cfg else ⟨cfg.circ, cfg.input, some ⟨sid, len, n⟩, cfg.cutoff⟩
  | .clearMask => ⟨cfg.circ, cfg.input, none, cfg.cutoff⟩
  | .setCutoff c => if k = .mps then ⟨cfg.circ, cfg.input, cfg.mask, some c⟩ else cfg
  | .query _ => cfg

theorem stepB_config (s : B) (op : Op) : (stepB true s op).1.config = cfgStepB s.kind s.config op := by
  cases op with
  | setCircuit c =>
    simp only [stepB, cfgStepB]
    split
    · split
      · split <;> rfl
      · rfl
    · split <;> rfl
  | setInput inp =>
    cases hc : s.circ with
    | none => simp [stepB, cfgStepB, B.config, hc]
    | some c =>
      by_cases h1 : inp.length ≠ c.m
      · simp [stepB, cfgStepB, B.config, hc, h1]
      · by_cases h2 : badLen s.mask inp.length = true
        · simp [stepB, cfgStepB, B.config, hc, h1, h2]
        · have hl : (stepB true s (.setInput inp)).1.config =
              (initMask true { s with input := some inp }).config := by
            simp only [stepB, hc, h1, h2, if_false]
            cases s.kind
            · rfl
            · rfl
            · exact deploy_config _ _
            · exact compile_config _ _
          rw [hl, initMask_config]
          simp [cfgStepB, B.config, hc, h1, h2]
  | setMask sid len n =>
    simp only [stepB, cfgStepB]
    by_cases h1 : badLenI s.input len = true
    · simp [h1, B.config]
    · have h1' : badLenI s.config.input len = false := by simpa [B.config] using h1
      simp only [h1, h1', if_false, initMask_config, Bool.false_eq_true]
      split <;> rfl
  | clearMask =>
    simp only [stepB, cfgStepB]
    split <;> rfl
  | setCutoff k =>
    simp only [stepB, cfgStepB]
    by_cases hk : s.kind = .mps
    · simp only [hk, if_true]
      split
      · rw [compile_config]; rfl
      · rfl
    · simp [hk]
  | query q => exact (queryB_kind_config s q).2

theorem cfgStepB_query (k : Kind) (cfg : BCfg) (op : Op) (h : op.isQuery = true) : cfgStepB k cfg op = cfg := by
  cases op <;> first | rfl | simp [Op.isQuery] at h

/-- folding the configuration machine: queries can be dropped -/
theorem foldl_filter_query {C Op : Type} (cstep : C → Op → C) (isQ : Op → Bool)
    (hq : ∀ c op, isQ op = true → cstep c op = c) (c : C) (ops : List Op) :
    (ops.filter fun op => !isQ op).foldl cstep c = ops.foldl cstep c := by
  induction ops generalizing c with
  | nil => rfl
  | cons x xs ih =>
    cases hx : isQ x with
    | true => simp only [List.filter_cons, hx, Bool.not_true, Bool.false_eq_true, if_false, List.foldl_cons,
        hq c x hx]; exact ih c
    | false => simp only [List.filter_cons, hx, Bool.not_false, if_true, List.foldl_cons]; exact ih _

/-! ## Processor: `inputCurrent` from the shape of the history -/

/-- reading a history left to right: `with_input` makes the input current, `add_herald` makes it (possibly)
outdated, nothing else matters.  Starts `true` (no input yet). -/
def inputTracked (ops : List PrOp) : Bool :=
  ops.foldl (fun b op => match op with
    | .withInput .. => true
    | .addHerald .. => false
    | _ => b) true

def trackStep (b : Bool) (op : PrOp) : Bool :=
  match op with
  | .withInput .. => true
  | .addHerald .. => false
  | _ => b

theorem inputTracked_eq (ops : List PrOp) : inputTracked ops = ops.foldl trackStep true := rfl

theorem inputCurrent_init : initPr.inputCurrent := by
  intro i hi
  simp [initPr] at hi

theorem inputCurrent_withInput (persist : Bool) (s : Pr) (k : InKind) (i n : Nat) :
    (stepPr persist s (.withInput k i n)).1.inputCurrent := by
  intro j hj
  simp only [stepPr, Option.some.injEq] at hj
  subst hj
  simp [stepPr]

/-- an operation other than `with_input` / `add_herald` touches neither the merged input nor the heralds -/
theorem stepPr_core (persist : Bool) (s : Pr) (op : PrOp)
    (h1 : ∀ h n, op ≠ .addHerald h n) (h2 : ∀ k i n, op ≠ .withInput k i n) :
    (stepPr persist s op).1.input = s.input ∧ (stepPr persist s op).1.her = s.her ∧
      (stepPr persist s op).1.nHer = s.nHer := by
  cases op with
  | addHerald h n => exact absurd rfl (h1 h n)
  | withInput k i n => exact absurd rfl (h2 k i n)
  | clearPs => simp only [stepPr]; split <;> exact ⟨rfl, rfl, rfl⟩
  | probs prec =>
    simp only [stepPr]
    split
    · exact ⟨rfl, rfl, rfl⟩
    · split <;> exact ⟨rfl, rfl, rfl⟩
  | samples =>
    simp only [stepPr]
    split
    · exact ⟨rfl, rfl, rfl⟩
    · split <;> exact ⟨rfl, rfl, rfl⟩
  | _ => exact ⟨rfl, rfl, rfl⟩

theorem inputCurrent_track_step (persist : Bool) (s : Pr) (b : Bool) (op : PrOp)
    (h : b = true → s.inputCurrent) : trackStep b op = true → (stepPr persist s op).1.inputCurrent := by
  intro ht
  by_cases h1 : ∃ hh n, op = .addHerald hh n
  · obtain ⟨hh, n, rfl⟩ := h1
    simp [trackStep] at ht
  · by_cases h2 : ∃ k i n, op = .withInput k i n
    · obtain ⟨k, i, n, rfl⟩ := h2
      exact inputCurrent_withInput persist s k i n
    · have h1' : ∀ hh n, op ≠ .addHerald hh n := fun hh n e => h1 ⟨hh, n, e⟩
      have h2' : ∀ k i n, op ≠ .withInput k i n := fun k i n e => h2 ⟨k, i, n, e⟩
      obtain ⟨e1, e2, e3⟩ := stepPr_core persist s op h1' h2'
      have hb : b = true := by
        cases op <;> first | exact ht | exact absurd rfl (h1' _ _) | exact absurd rfl (h2' _ _ _)
      have hs := h hb
      intro j hj
      rw [e1] at hj
      rw [e2, e3]
      exact hs j hj

theorem inputCurrent_track (persist : Bool) (ops : List PrOp) (s : Pr) (b : Bool)
    (h : b = true → s.inputCurrent) :
    ops.foldl trackStep b = true → (exec (stepPr persist) s ops).inputCurrent := by
  induction ops generalizing s b with
  | nil => exact h
  | cons x xs ih =>
    rw [exec_cons, List.foldl_cons]
    exact ih _ _ (inputCurrent_track_step persist s b x h)

/-- the hypothesis `Pr.inputCurrent` holds after every history in which no `add_herald` follows the last
`with_input` (in particular: every history without `add_herald`, every history ending in `with_input`) -/
theorem inputCurrent_of_tracked (persist : Bool) (ops : List PrOp) (h : inputTracked ops = true) :
    (exec (stepPr persist) initPr ops).inputCurrent :=
  inputCurrent_track persist ops initPr true (fun _ => inputCurrent_init) h

/-! ## Processor: what `inputCurrent` is needed for, exactly (Fock-state input, user filter) -/

/-- the raw answer of `probs(precision)` under the invariant alone (no `inputCurrent`) when a filter is stored
and the input is a Fock state: everything is the current configuration EXCEPT the heralds written into the
merged input, which are the ones of the last `with_input` -/
theorem probsPr_raw (persist : Bool) (s : Pr) (prec : Option Nat) (h : InvPr persist s) (i : PrIn) (f : Nat)
    (hi : s.input = some i) (hk : i.kind = .bs) (hf : s.filt = some f) :
    (stepPr persist s (.probs prec)).2 =
      .res ⟨s.comps, s.her, s.ps, s.det, s.noise.1, some s.noise.1, .bs, i.id, i.her, f, prec⟩ := by
  obtain ⟨h1, h2, h3, _, _⟩ := h
  have e2 : s.inputsMap.getD (genMap s.source i) = genMap s.noise i := by
    cases hm : s.inputsMap with
    | none => simp [h1]
    | some y =>
      obtain ⟨i', hi', hy⟩ := h3 _ hm
      rw [hi] at hi'; cases hi'; simpa using hy
  simp only [stepPr, hi, effFilter, autoFilter, hf, simFor_eq s prec h2]
  rw [e2]
  simp only [genMap, hk, if_true]

theorem specPr_bs_filter (s : Pr) (prec : Option Nat) (i : PrIn) (f : Nat)
    (hi : s.input = some i) (hk : i.kind = .bs) (hf : s.filtUser = some f) :
    specPr s.config prec =
      .res ⟨s.comps, s.her, s.ps, s.det, s.noise.1, some s.noise.1, .bs, i.id, s.her, f, prec⟩ := by
  simp [specPr, Pr.config, hi, hk, hf, autoFilter]

end PM.C05
