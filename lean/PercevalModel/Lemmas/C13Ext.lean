/-
  C13 — helper lemmas for sections 12–14 of `Props/C13.lean`: the state-vector path (`evolve`,
  annotated output states), `convert_polarized_state(inverse=True)`, and heralds / post-selection /
  photon filter on a polarised simulation.
-/
import PercevalModel.Lemmas.C13More
import PercevalModel.Found.SimSpec
import Mathlib.Tactic.FieldSimp
import Mathlib.Tactic.LinearCombination

open Matrix

namespace PM.C13

variable {R : Type}

/-! ### annotated states -/

theorem annotState_injective : ∀ (m : ℕ) (s t : List ℕ), s.length = m * 2 → t.length = m * 2 →
    annotState s = annotState t → s = t
  | 0, s, t, hs, ht, _ => by
    have h1 : s = [] := List.length_eq_zero_iff.mp (by simpa using hs)
    have h2 : t = [] := List.length_eq_zero_iff.mp (by simpa using ht)
    rw [h1, h2]
  | m + 1, s, t, hs, ht, h => by
    match s, hs, t, ht, h with
    | [], hs, _, _, _ => simp at hs
    | [_], hs, _, _, _ => simp at hs; omega
    | _ :: _ :: _, _, [], ht, _ => simp at ht
    | _ :: _ :: _, _, [_], ht, _ => simp at ht; omega
    | a :: b :: r, hs, a' :: b' :: r', ht, h =>
      simp only [annotState, List.cons.injEq, Prod.mk.injEq] at h
      obtain ⟨⟨ha, hb⟩, hr⟩ := h
      have hr1 : r.length = m * 2 := by simp at hs; omega
      have hr2 : r'.length = m * 2 := by simp at ht; omega
      rw [ha, hb, annotState_injective m r r' hr1 hr2 hr]

theorem spatialOf_annotState : ∀ t : List ℕ, spatialOf (annotState t) = mergeState t
  | [] => rfl
  | [_] => rfl
  | a :: b :: r => by
    simp only [annotState, spatialOf, List.map_cons, mergeState] at *
    rw [← spatialOf_annotState r]; rfl

/-- number of `P:H` photons / `P:V` photons of an annotated state -/
def countH (k : AFock) : ℕ := (k.map (·.1)).sum
def countV (k : AFock) : ℕ := (k.map (·.2)).sum

theorem count_annotState : ∀ (m : ℕ) (t : List ℕ), t.length = m * 2 →
    countH (annotState t) + countV (annotState t) = t.sum ∧ (annotState t).length = m
  | 0, t, h => by
    have : t = [] := List.length_eq_zero_iff.mp (by simpa using h)
    subst this; simp [annotState, countH, countV]
  | m + 1, t, h => by
    match t, h with
    | [], h => simp at h
    | [_], h => simp at h; omega
    | a :: b :: r, h =>
      have hr : r.length = m * 2 := by simp at h; omega
      obtain ⟨h1, h2⟩ := count_annotState m r hr
      simp only [annotState, countH, countV, List.map_cons, List.sum_cons, List.length_cons] at *
      omega

/-! ### sums over filtered lists -/

theorem sum_filter_map {α M : Type} [AddCommMonoid M] (p : α → Bool) (g : α → M) :
    ∀ L : List α, ((L.filter p).map g).sum = (L.map fun a => if p a then g a else 0).sum
  | [] => rfl
  | a :: L => by
    by_cases h : p a <;> simp [h, sum_filter_map p g L]

/-- in a duplicate-free list on which `f` is injective, exactly one element has the image `f t` -/
theorem sum_single_of_injOn {α β M : Type} [DecidableEq β] [AddCommMonoid M] (f : α → β) (g : α → M)
    (t : α) : ∀ L : List α, L.Nodup → t ∈ L → (∀ a ∈ L, f a = f t → a = t) →
      (L.map fun a => if f a = f t then g a else 0).sum = g t
  | [], _, h, _ => by simp at h
  | a :: L, hn, hm, hinj => by
    rw [List.nodup_cons] at hn
    by_cases ha : a = t
    · subst ha
      have : (L.map fun b => if f b = f a then g b else 0).sum = 0 := by
        apply List.sum_eq_zero
        intro y hy
        obtain ⟨b, hb, rfl⟩ := List.mem_map.1 hy
        have hne : ¬ f b = f a := fun e =>
          hn.1 (hinj b (List.mem_cons_of_mem _ hb) e ▸ hb)
        simp [hne]
      simp [this]
    · have hfa : ¬ f a = f t := fun e => ha (hinj a (List.mem_cons_self ..) e)
      have ht : t ∈ L := by
        rcases List.mem_cons.1 hm with e | e
        · exact absurd e.symm ha
        · exact e
      simp only [List.map_cons, List.sum_cons, hfa, ↓reduceIte, zero_add]
      exact sum_single_of_injOn f g t L hn.2 ht
        (fun b hb e => hinj b (List.mem_cons_of_mem _ hb) e)

/-! ### the state vector of the model -/

theorem polSV_eq [CommRing R] {N : ℕ} (U : Matrix (Fin N) (Fin N) R) (s : List ℕ) :
    polSV U s = (Fock.allStates N s.sum).map fun t =>
      (⟨annotState t, Fock.pamp U s t, Fock.prodFact s * Fock.prodFact t⟩ : SVEntry AFock R) := by
  simp [polSV, spatialSV, List.map_map, Function.comp_def]

theorem amp2_mk {K : Type} {N : ℕ} (U : Matrix (Fin N) (Fin N) GQ) (s t : List ℕ) (k : K) :
    SVEntry.amp2 (⟨k, Fock.pamp U s t, Fock.prodFact s * Fock.prodFact t⟩ : SVEntry K GQ) =
      Fock.prob U s t := by
  simp [SVEntry.amp2, Fock.prob, Nat.cast_mul]

/-! ### 2×2 inverses -/

theorem det2_mul [CommRing R] (A B : Matrix (Fin 2) (Fin 2) R) :
    det2 (A * B) = det2 A * det2 B := by
  simp only [det2, Matrix.mul_apply, Fin.sum_univ_two]
  ring

theorem det2_one [CommRing R] : det2 (1 : Matrix (Fin 2) (Fin 2) R) = 1 := by
  simp [det2]

theorem inv2_mul_self [CommRing R] (dinv : R) (M : Matrix (Fin 2) (Fin 2) R)
    (h : dinv * det2 M = 1) : inv2 dinv M * M = 1 := by
  simp only [det2] at h
  ext a b
  fin_cases a <;> fin_cases b <;>
    simp [inv2, Matrix.mul_apply, Fin.sum_univ_two] <;>
    first | linear_combination h | linear_combination -h | ring

theorem self_mul_inv2 [CommRing R] (dinv : R) (M : Matrix (Fin 2) (Fin 2) R)
    (h : dinv * det2 M = 1) : M * inv2 dinv M = 1 := by
  simp only [det2] at h
  ext a b
  fin_cases a <;> fin_cases b <;>
    simp [inv2, Matrix.mul_apply, Fin.sum_univ_two] <;>
    first | linear_combination h | linear_combination -h | ring

theorem GQ_normSq_eq_zero (a : GQ) (h : GQ.normSq a = 0) : a = 0 := by
  simp only [GQ.normSq] at h
  obtain ⟨h1, h2⟩ := (mul_self_add_mul_self_eq_zero (a := a.re) (b := a.im)).1 h
  ext <;> simpa

theorem gqInv_mul (a : GQ) (h : a ≠ 0) : gqInv a * a = 1 := by
  have hn : GQ.normSq a ≠ 0 := fun e => h (GQ_normSq_eq_zero a e)
  simp only [GQ.normSq] at hn
  ext
  · show a.re / GQ.normSq a * a.re - -a.im / GQ.normSq a * a.im = 1
    simp only [GQ.normSq]
    have e : a.re / (a.re * a.re + a.im * a.im) * a.re - -a.im / (a.re * a.re + a.im * a.im) * a.im =
        (a.re * a.re + a.im * a.im) / (a.re * a.re + a.im * a.im) := by ring
    rw [e, div_self hn]
  · show a.re / GQ.normSq a * a.im + -a.im / GQ.normSq a * a.re = 0
    simp only [GQ.normSq]; ring

/-- the blocks `convert_polarized_state(state, use_symbolic, inverse)` writes, mode by mode (as
`blocksOf`, with the `inverse` flag) -/
def blocksOfX [CommRing R] [StarRing R] (fixed inverse : Bool) (ρ : List (R × R) → R)
    (dinv : Matrix (Fin 2) (Fin 2) R → R) (scans : List (Scan R)) (m : ℕ) :
    Fin m → Matrix (Fin 2) (Fin 2) R :=
  fun k => modeBlockX fixed inverse (ρ (scans.getD k.val ⟨[], 0, 0⟩).vectors) dinv
    (scans.getD k.val ⟨[], 0, 0⟩).vectors

theorem GQ_one_ne_zero : (1 : GQ) ≠ 0 := by
  intro h
  have := congrArg GQ.re h
  simp at this

/-! ### distributions whose keys all have the same photon number -/

theorem restrict_all (ok : Dist.Fock → Bool) (d : Dist.D) (h : ∀ p ∈ d, ok p.1 = true) :
    Dist.restrict ok d = d := by
  simp only [Dist.restrict]
  exact List.filter_eq_self.2 h

theorem restrict_none (ok : Dist.Fock → Bool) (d : Dist.D) (h : ∀ p ∈ d, ok p.1 = false) :
    Dist.restrict ok d = [] := by
  simp only [Dist.restrict]
  exact List.filter_eq_nil_iff.2 (fun p hp => by simp [h p hp])

theorem normalize_nil : Dist.normalize [] = [] := by simp [Dist.normalize]

theorem mem_mapKeys_merge {m n : ℕ} (d0 : Dist.D)
    (hk : ∀ p ∈ d0, p.1.length = m * 2 ∧ p.1.sum = n) :
    ∀ p ∈ Dist.mapKeys mergeState d0, p.1.length = m ∧ p.1.sum = n := by
  intro p hp
  simp only [Dist.mapKeys, List.mem_map] at hp
  obtain ⟨q, hq, rfl⟩ := hp
  obtain ⟨h1, h2⟩ := hk q hq
  obtain ⟨h3, h4⟩ := mergeState_length_sum m q.1 h1
  exact ⟨h3, h4.trans h2⟩

theorem removeModes_nil (t : List ℕ) : SimSpec.removeModes [] t = t := by
  simp [SimSpec.removeModes]

theorem keys_spatialDist {N : ℕ} (U : Matrix (Fin N) (Fin N) GQ) (s : List ℕ) :
    ∀ p ∈ spatialDist U s, p.1.length = N ∧ p.1.sum = s.sum := by
  intro p hp
  simp only [spatialDist, List.mem_map] at hp
  obtain ⟨t, ht, rfl⟩ := hp
  exact (Fock.mem_allStates_iff _ _ _).1 ht

/-! ### selection: helper facts -/

theorem polDist_eq {N : ℕ} (U : Matrix (Fin N) (Fin N) GQ) (s : List ℕ) :
    polDist U s = (Fock.allStates N s.sum).map fun t => (mergeState t, Fock.prob U s t) := by
  simp [polDist, spatialDist, Dist.mapKeys, List.map_map, Function.comp_def]

theorem nonempty_of_mass_one (d : Dist.D) (h : Dist.mass d = 1) : d.isEmpty = false := by
  cases d with
  | nil => simp at h
  | cons p r => rfl

/-- without post-selection condition and without herald every state is kept and reported as it is -/
theorem trivial_logicOk (c : SimSpec.Cond)
    (h : (!psHasCondition c.ps && c.heralds.isEmpty) = true) (t : Dist.Fock) :
    SimSpec.logicOk c t = true ∧ SimSpec.reported c t = t := by
  simp only [Bool.and_eq_true, Bool.not_eq_true', List.isEmpty_iff] at h
  obtain ⟨h1, h2⟩ := h
  have hps : c.ps = .tt := by
    cases hp : c.ps <;> simp [hp, psHasCondition] at h1 ⊢
  constructor
  · simp [SimSpec.logicOk, SimSpec.heraldsOk, h2, hps, SimSpec.PS.eval]
  · simp [SimSpec.reported, h2, removeModes_nil]

theorem mapKeys_id' (d : Dist.D) (f : Dist.Fock → Dist.Fock) (h : ∀ t, f t = t) :
    Dist.mapKeys f d = d := by
  simp only [Dist.mapKeys, h]
  exact List.map_id' d

end PM.C13
