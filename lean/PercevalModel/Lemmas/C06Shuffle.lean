/-
  C06 — generic lemmas about list distributions: Fubini, iid sequences and the uniform shuffle
  (a uniformly shuffled iid sequence is iid), independent draws from permuted laws, point masses of an
  observable determine the expectation of every function of it, block splitting of an iid sequence, iid as a
  product law and its two-stage (mixture) decomposition.
-/
import PercevalModel.Lemmas.C06PlaceDefs
import Mathlib.Data.List.Permutation
import Mathlib.Data.List.Perm.Basic
import Mathlib.Algebra.BigOperators.Group.Finset.Basic
import Mathlib.Data.Nat.Factorial.Basic

namespace PM.C06

section shuffle
variable {α β γ : Type}

/-! ### linearity, Fubini -/

theorem E_zero_fun (d : Dist α) : E (fun _ => (0 : ℚ)) d = 0 := by
  induction d with
  | nil => rfl
  | cons e d ih => rw [E_cons, ih]; ring

theorem E_mul_const (c : ℚ) (g : α → ℚ) (d : Dist α) : E (fun x => g x * c) d = E g d * c := by
  rw [E_congr (g' := fun x => c * g x) (fun x => mul_comm _ _), E_const_mul, mul_comm]

/-- Fubini for finite (list) sums -/
theorem E_comm (F : α → β → ℚ) (d : Dist α) (d' : Dist β) :
    E (fun a => E (fun b => F a b) d') d = E (fun b => E (fun a => F a b) d) d' := by
  induction d with
  | nil => simp only [E_nil]; exact (E_zero_fun d').symm
  | cons e d ih =>
    simp only [E_cons]
    rw [E_add, E_const_mul, ih]

/-- expectation of a finite sum of test functions -/
theorem E_list_sum {ι : Type} (L : List ι) (F : ι → α → ℚ) (d : Dist α) :
    E (fun x => (L.map fun i => F i x).sum) d = (L.map fun i => E (F i) d).sum := by
  induction L with
  | nil => simp only [List.map_nil, List.sum_nil]; exact E_zero_fun d
  | cons i L ih => simp only [List.map_cons, List.sum_cons]; rw [E_add, ih]

theorem sum_map_flatMap' {ι κ : Type} (L : List ι) (f : ι → List κ) (H : κ → ℚ) :
    ((L.flatMap f).map H).sum = (L.map fun i => ((f i).map H).sum).sum := by
  induction L with
  | nil => rfl
  | cons i L ih => simp only [List.flatMap_cons, List.map_append, List.sum_append, List.map_cons,
      List.sum_cons, ih]

/-! ### iid sequences -/

theorem E_iid_zero (d : Dist α) (G : List α → ℚ) : E G (iid d 0) = G [] := by
  simp [iid, E]

theorem E_iid_succ (d : Dist α) (n : ℕ) (G : List α → ℚ) :
    E G (iid d (n + 1)) = E (fun a => E (fun xs => G (a :: xs)) (iid d n)) d := by
  simp only [iid, E_flatMap, E_map_cons_scale]
  rfl

theorem iid_length (d : Dist α) (n : ℕ) : ∀ e ∈ iid d n, e.1.length = n := by
  induction n with
  | zero => intro e he; simp only [iid, List.mem_singleton] at he; subst he; rfl
  | succ n ih =>
    intro e he
    simp only [iid, List.mem_flatMap, List.mem_map] at he
    obtain ⟨x, _, r, hr, rfl⟩ := he
    simp [ih r hr]

/-- insertion exchangeability: inserting an independent draw at all positions of an iid sequence -/
theorem E_iid_insert (d : Dist α) (n : ℕ) (H : List α → ℚ) :
    E (fun a => E (fun xs => ((List.permutations'Aux a xs).map H).sum) (iid d n)) d =
      ((n : ℚ) + 1) * E H (iid d (n + 1)) := by
  induction n generalizing H with
  | zero =>
    rw [E_iid_succ]
    simp only [E_iid_zero, List.permutations'Aux, List.map_cons, List.map_nil, List.sum_cons,
      List.sum_nil, add_zero, Nat.cast_zero, zero_add, one_mul]
  | succ n ih =>
    have h1 : ∀ a, E (fun xs => ((List.permutations'Aux a xs).map H).sum) (iid d (n + 1)) =
        E (fun y => E (fun ys => H (a :: y :: ys)) (iid d n)) d +
        E (fun y => E (fun ys => ((List.permutations'Aux a ys).map fun l => H (y :: l)).sum)
          (iid d n)) d := by
      intro a
      rw [E_iid_succ, ← E_add]
      apply E_congr
      intro y
      rw [← E_add]
      apply E_congr
      intro ys
      simp only [List.permutations'Aux, List.map_cons, List.sum_cons, List.map_map,
        Function.comp_def]
    rw [E_congr h1, E_add]
    have h2 : E (fun a => E (fun y => E (fun ys => H (a :: y :: ys)) (iid d n)) d) d =
        E H (iid d (n + 1 + 1)) := by
      rw [E_iid_succ]
      apply E_congr
      intro a
      rw [E_iid_succ]
    have h3 : E (fun a => E (fun y => E (fun ys =>
          ((List.permutations'Aux a ys).map fun l => H (y :: l)).sum) (iid d n)) d) d =
        ((n : ℚ) + 1) * E H (iid d (n + 1 + 1)) := by
      rw [E_comm]
      rw [E_congr (g' := fun y => ((n : ℚ) + 1) * E (fun l => H (y :: l)) (iid d (n + 1)))
        (fun y => ih (fun l => H (y :: l)))]
      rw [E_const_mul, ← E_iid_succ]
    rw [h2, h3]
    push_cast
    ring

/-- S1: the sum over all permutations of an iid sequence -/
theorem E_iid_perms {α : Type} (d : Dist α) (n : ℕ) (H : List α → ℚ) :
    E (fun x => (x.permutations'.map H).sum) (iid d n) = (n.factorial : ℚ) * E H (iid d n) := by
  induction n generalizing H with
  | zero => simp [E_iid_zero]
  | succ n ih =>
    rw [E_iid_succ]
    have h1 : ∀ a, E (fun xs => ((a :: xs).permutations'.map H).sum) (iid d n) =
        (n.factorial : ℚ) * E (fun xs => ((List.permutations'Aux a xs).map H).sum) (iid d n) := by
      intro a
      rw [← ih]
      apply E_congr
      intro xs
      simp only [List.permutations']
      exact sum_map_flatMap' _ _ _
    rw [E_congr h1, E_const_mul, E_iid_insert, Nat.factorial_succ]
    push_cast
    ring

/-! ### the uniform shuffle -/

theorem E_map_const_weight {ι : Type} (L : List ι) (c : ℚ) (g : ι → ℚ) :
    E g (L.map fun p => (p, c)) = c * (L.map g).sum := by
  induction L with
  | nil => simp
  | cons i L ih => simp only [List.map_cons, E_cons, List.sum_cons, ih]; ring

/-- S2: the uniform shuffle as an average over `permutations'` -/
theorem shuffle_avg {α : Type} (dflt : α) (l : List α) (H : List α → ℚ) :
    E (fun p => H (permute dflt l p)) (shuffleLaw l.length) =
      (l.permutations'.map H).sum / (l.length.factorial : ℚ) := by
  rw [shuffleLaw, E_map_const_weight]
  have hp := ((List.permutations_perm_permutations' (List.range l.length)).map
    (fun p => H (permute dflt l p))).sum_eq
  rw [hp]
  have hm : (List.range l.length).permutations'.map (fun p => H (permute dflt l p)) =
      l.permutations'.map H := by
    have h0 := List.map_permutations' (fun i => l.getD i dflt) (List.range l.length)
    have h1 : (List.range l.length).map (fun i => l.getD i dflt) = l := by
      have := range_map_getD l dflt (fun x => x)
      simpa using this
    rw [h1] at h0
    rw [← h0, List.map_map]
    rfl
  rw [hm]
  ring

/-- S3a: the shuffled law depends on the multiset of the entries only -/
theorem shuffle_perm_invariant {α : Type} (dflt : α) {l l' : List α} (h : l.Perm l')
    (H : List α → ℚ) :
    E (fun p => H (permute dflt l p)) (shuffleLaw l.length) =
      E (fun p => H (permute dflt l' p)) (shuffleLaw l'.length) := by
  rw [shuffle_avg, shuffle_avg, h.length_eq, (h.permutations'.map H).sum_eq]

/-- S3b: a uniformly shuffled iid sequence is iid -/
theorem iid_shuffle {α : Type} (dflt : α) (d : Dist α) (n : ℕ) (H : List α → ℚ) :
    E (fun x => E (fun p => H (permute dflt x p)) (shuffleLaw n)) (iid d n) = E H (iid d n) := by
  have hn : (n.factorial : ℚ) ≠ 0 := by exact_mod_cast n.factorial_ne_zero
  have h1 : ∀ e ∈ iid d n, E (fun p => H (permute dflt e.1 p)) (shuffleLaw n) =
      (1 / (n.factorial : ℚ)) * (e.1.permutations'.map H).sum := by
    intro e he
    have hl := iid_length d n e he
    have := shuffle_avg dflt e.1 H
    rw [hl] at this
    rw [this]
    ring
  rw [E_congr_mem (g' := fun x => (1 / (n.factorial : ℚ)) * (x.permutations'.map H).sum) _ h1,
    E_const_mul, E_iid_perms]
  field_simp

/-! ### independent draws from permuted laws -/

/-- S4 -/
theorem E_prodLaw_perm {α : Type} (K : List α → ℚ)
    (hK : ∀ l l' : List α, l.Perm l' → K l = K l')
    {ds ds' : List (Dist α)} (h : ds.Perm ds') : E K (prodLaw ds) = E K (prodLaw ds') := by
  induction h generalizing K with
  | nil => rfl
  | cons a _ ih =>
    rw [E_prodLaw_cons, E_prodLaw_cons]
    apply E_congr
    intro x
    exact ih (fun r => K (x :: r)) (fun l l' hl => hK _ _ (hl.cons x))
  | swap a b l =>
    rw [E_prodLaw_cons, E_prodLaw_cons]
    rw [E_congr (g' := fun x => E (fun y => E (fun r => K (x :: y :: r)) (prodLaw l)) a)
      (fun x => E_prodLaw_cons _ a l)]
    rw [E_comm]
    apply E_congr
    intro y
    rw [E_prodLaw_cons]
    apply E_congr
    intro x
    apply E_congr
    intro r
    exact hK _ _ (List.Perm.swap _ _ _)
  | trans _ _ ih1 ih2 => exact (ih1 K hK).trans (ih2 K hK)

/-! ### point masses of an observable -/

theorem E_eq_sum_point_masses [DecidableEq β] (g : α → β) (d : Dist α) (Φ : β → ℚ)
    (V : Finset β) (hV : ∀ e ∈ d, g e.1 ∈ V) :
    E (fun a => Φ (g a)) d = ∑ v ∈ V, Φ v * massP (fun a => decide (g a = v)) d := by
  induction d with
  | nil => simp [massP]
  | cons e d ih =>
    have h1 : g e.1 ∈ V := hV e (by simp)
    rw [E_cons, ih (fun x hx => hV x (by simp [hx]))]
    have : ∀ v ∈ V, Φ v * massP (fun a => decide (g a = v)) (e :: d) =
        (if g e.1 = v then e.2 * Φ v else 0) + Φ v * massP (fun a => decide (g a = v)) d := by
      intro v _
      simp only [massP, E_cons, decide_eq_true_eq]
      split <;> ring
    rw [Finset.sum_congr rfl this, Finset.sum_add_distrib, Finset.sum_ite_eq, if_pos h1]

/-- S5: equal point masses of an observable ⇒ equal expectations of every function of it -/
theorem E_of_point_masses {α α' β : Type} [DecidableEq β] (g : α → β) (d : Dist α) (g' : α' → β)
    (d' : Dist α')
    (h : ∀ v, massP (fun a => decide (g a = v)) d = massP (fun a => decide (g' a = v)) d')
    (Φ : β → ℚ) :
    E (fun a => Φ (g a)) d = E (fun a => Φ (g' a)) d' := by
  let V : Finset β := (d.map fun e => g e.1).toFinset ∪ (d'.map fun e => g' e.1).toFinset
  rw [E_eq_sum_point_masses g d Φ V (fun e he => by
      simp only [V, Finset.mem_union, List.mem_toFinset, List.mem_map]
      exact Or.inl ⟨e, he, rfl⟩),
    E_eq_sum_point_masses g' d' Φ V (fun e he => by
      simp only [V, Finset.mem_union, List.mem_toFinset, List.mem_map]
      exact Or.inr ⟨e, he, rfl⟩)]
  exact Finset.sum_congr rfl (fun v _ => by rw [h v])

/-! ### blocks of an iid sequence -/

/-- S6: splitting an iid sequence into two blocks -/
theorem E_iid_split {α : Type} (d : Dist α) (a b : ℕ) (A B : List α → ℚ) :
    E (fun x => A (x.take a) * B (x.drop a)) (iid d (a + b)) = E A (iid d a) * E B (iid d b) := by
  induction a generalizing A with
  | zero =>
    rw [Nat.zero_add, E_iid_zero]
    simp only [List.take_zero, List.drop_zero]
    exact E_const_mul _ _ _
  | succ a ih =>
    rw [Nat.succ_add, E_iid_succ, E_iid_succ]
    simp only [List.take_succ_cons, List.drop_succ_cons]
    rw [E_congr (g' := fun y => E (fun l => A (y :: l)) (iid d a) * E B (iid d b))
      (fun y => ih (fun l => A (y :: l)))]
    exact E_mul_const _ _ _

/-! ### iid as a product law, two-stage decomposition -/

/-- S7a -/
theorem iid_eq_prodLaw {α : Type} (d : Dist α) (n : ℕ) : iid d n = prodLaw (List.replicate n d) := by
  induction n with
  | zero => rfl
  | succ n ih => simp only [iid, List.replicate_succ, prodLaw, ih]

/-- S7b: an iid sequence of a mixture: draw the mixing variables first -/
theorem E_iid_two_stage {γ α : Type} (c : Dist γ) (κ : γ → Dist α) (m : Dist α)
    (hm : ∀ g : α → ℚ, E g m = E (fun y => E g (κ y)) c) (n : ℕ) (G : List α → ℚ) :
    E G (iid m n) = E (fun ys => E G (prodLaw (ys.map κ))) (iid c n) := by
  induction n generalizing G with
  | zero => simp [E_iid_zero, E_prodLaw_nil]
  | succ n ih =>
    rw [E_iid_succ, E_iid_succ, hm]
    apply E_congr
    intro y
    simp only [List.map_cons, E_prodLaw_cons]
    rw [E_congr (g' := fun a => E (fun ys => E (fun xs => G (a :: xs)) (prodLaw (ys.map κ))) (iid c n))
      (fun a => ih (fun xs => G (a :: xs)))]
    exact E_comm _ _ _

end shuffle

end PM.C06
