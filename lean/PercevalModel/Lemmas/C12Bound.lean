/-
  C12 — the size of the floating residue of `decompose_triangle` (over ℂ, Frobenius norm).

  `triangle_reconstruct_with_error` is exact: `circMat comps · u_final + err = U`, `err` being the sum of the entries
  overwritten by `u[n, j] = 0`, each propagated through the components prepended so far.  Here: with unitary blocks
  every summand has the Frobenius norm of the overwritten entry, so `‖U − circMat comps · u_final‖_F ≤ Σ |z_k|`,
  the `z_k` being the overwritten values recorded by `trace` (`Model/C12Block.lean`).
-/
import PercevalModel.Lemmas.C12
import PercevalModel.Lemmas.C12Solve
import PercevalModel.Model.C12Block
import PercevalModel.Lemmas.C12Frob

open Matrix

namespace PM.C12

variable {R : Type}

/-! ### one cell: what `step` does, in terms of `preZero` -/

theorem swapMat_mul_row [CommRing R] {m n k : ℕ} (hn : n < m) (hk : k < m)
    (M : Matrix (Fin m) (Fin m) R) (b : Fin m) :
    (swapMat (R := R) m n k * M : Matrix (Fin m) (Fin m) R) ⟨n, hn⟩ b = M ⟨k, hk⟩ b := by
  rw [Matrix.mul_apply, Finset.sum_eq_single (⟨k, hk⟩ : Fin m)]
  · simp [swapMat]
  · intro l _ hl
    have : l.val ≠ k := fun e => hl (Fin.ext e)
    simp [swapMat, this]
  · simp

theorem step_char [CommRing R] (cfg : Cfg R) {m : ℕ} {st st' : St R m} {cell : ℕ × ℕ}
    (hc : cell.2 < cell.1 ∧ cell.1 < m) (hs : step cfg st cell = some st') :
    ∃ M' sv, preZero cfg st cell = some (M', sv) ∧
      st'.u.toMatrix = zeroAt M' cell.2 cell.1 ∧
      st'.err.toMatrix = st.err.toMatrix + circMat m st'.comps * entryAt M' cell.2 cell.1 ∧
      ((sv = false ∧ st'.rest = st.rest ∧ cfg.small (getN M' cell.2 cell.1) = true ∧
          ((st'.comps = st.comps ∧ M' = st.u.toMatrix) ∨
            ∃ d, 1 ≤ d ∧ cell.2 + d ≤ cell.1 ∧ st'.comps = .perm cell.2 d :: st.comps ∧
              M' = swapMat m cell.2 (cell.2 + d) * st.u.toMatrix)) ∨
       (sv = true ∧ ∃ B Binv, st.rest = (B, Binv) :: st'.rest ∧ st'.comps = .block cell.2 B :: st.comps ∧
          M' = embed m cell.2 Binv * st.u.toMatrix)) := by
  unfold step at hs
  unfold preZero
  simp only at hs ⊢
  by_cases h1 : (cfg.small (getN st.u.toMatrix cell.2 cell.1) && cfg.ignoreId) = true
  · rw [if_pos h1] at hs ⊢
    cases hs
    refine ⟨_, _, rfl, ?_, ?_, Or.inl ⟨rfl, rfl, ?_, Or.inl ⟨rfl, rfl⟩⟩⟩
    · simp only [finish, MatV.toMatrix_ofMatrix]
    · simp only [finish, MatV.toMatrix_ofMatrix]; rfl
    · simp only [Bool.and_eq_true] at h1
      exact h1.1
  · rw [if_neg h1] at hs ⊢
    split at hs
    · rename_i k hk
      cases hs
      have hk' : findK cfg st.u.toMatrix cell.2 cell.1 = some k := by
        by_cases hp : cfg.usePerm
        · simpa [hp] using hk
        · simp [hp] at hk
      obtain ⟨a1, a2⟩ := findK_spec cfg _ hk'
      simp only [hk]
      refine ⟨_, _, rfl, ?_, ?_, Or.inl ⟨rfl, rfl, ?_, Or.inr ⟨k - cell.2, by omega, by omega, rfl, ?_⟩⟩⟩
      · simp only [finish, MatV.toMatrix_ofMatrix]
      · simp only [finish, MatV.toMatrix_ofMatrix]; rfl
      · have hf := List.find?_some hk'
        simp only [Bool.and_eq_true] at hf
        have hn : cell.2 < m := by omega
        have hj : cell.1 < m := hc.2
        have hkm : k < m := by omega
        have e : getN (swapMat m cell.2 k * st.u.toMatrix) cell.2 cell.1 = getN st.u.toMatrix k cell.1 := by
          simp only [getN, dif_pos (And.intro hn hj), dif_pos (And.intro hkm hj)]
          exact swapMat_mul_row (R := R) hn hkm _ _
        rw [e]
        exact hf.1
      · have e : cell.2 + (k - cell.2) = k := by omega
        rw [e]
    · rename_i hk
      simp only [hk]
      split at hs
      · cases hs
      · rename_i B Binv rest hrest
        cases hs
        simp only [hrest]
        exact ⟨_, _, rfl, by simp only [finish, MatV.toMatrix_ofMatrix],
          by simp only [finish, MatV.toMatrix_ofMatrix]; rfl, Or.inr ⟨rfl, B, Binv, by simp [finish], rfl, rfl⟩⟩

theorem trace_cons_of_step [CommRing R] (cfg : Cfg R) {m : ℕ} {st st' : St R m} {c : ℕ × ℕ} (cs : List (ℕ × ℕ))
    {M' : Matrix (Fin m) (Fin m) R} {sv : Bool} (hs : step cfg st c = some st')
    (hp : preZero cfg st c = some (M', sv)) :
    trace cfg st (c :: cs) =
      { j := c.1, n := c.2, solved := sv, a := getN st.u.toMatrix c.2 c.1,
        b := getN st.u.toMatrix (c.2 + 1) c.1, z := getN M' c.2 c.1 } :: trace cfg st' cs := by
  simp only [trace, hs, hp]

theorem trace_length_le [CommRing R] (cfg : Cfg R) {m : ℕ} (cs : List (ℕ × ℕ)) :
    ∀ st : St R m, (trace cfg st cs).length ≤ cs.length := by
  induction cs with
  | nil => intro st; simp [trace]
  | cons c cs ih =>
    intro st
    unfold trace
    split
    · simp only [List.length_cons]
      exact Nat.succ_le_succ (ih _)
    · simp

/-! ### unitarity of the accumulated circuit -/

theorem swapMat_isUnitary {m n k : ℕ} (hn : n < m) (hk : k < m) : IsUnitary (swapMat (R := ℂ) m n k) := by
  rw [swapMat_eq_permMatF hn hk]
  exact permMatF_isUnitary _ (fun x => Equiv.swap (⟨n, hn⟩ : Fin m) ⟨k, hk⟩ x) (by intro x; simp)
    (by intro x; simp)

/-- every pending solver result is a unitary block -/
def UnitarySols (sols : List (Sol ℂ)) : Prop := ∀ s ∈ sols, IsUnitary s.1

theorem frob_entryAt {m : ℕ} (M : Matrix (Fin m) (Fin m) ℂ) (n j : ℕ) :
    frob (entryAt M n j) = ‖getN M n j‖ := by
  by_cases h : n < m ∧ j < m
  · have e : entryAt M n j =
        fun a b => if a = (⟨n, h.1⟩ : Fin m) ∧ b = (⟨j, h.2⟩ : Fin m) then M ⟨n, h.1⟩ ⟨j, h.2⟩ else 0 := by
      funext a b
      simp only [entryAt, Fin.ext_iff]
      split_ifs with h1
      · obtain ⟨e1, e2⟩ := h1
        congr 1 <;> exact Fin.ext (by assumption)
      · rfl
    rw [e, frob_single, getN, dif_pos h]
  · have e : entryAt M n j = 0 := by
      funext a b
      simp only [entryAt]
      rw [if_neg]
      · rfl
      · rintro ⟨h1, h2⟩
        exact h ⟨h1 ▸ a.isLt, h2 ▸ b.isLt⟩
    rw [e, frob_zero, getN, dif_neg h, norm_zero]

theorem step_err (cfg : Cfg ℂ) {m : ℕ} {st st' : St ℂ m} {cell : ℕ × ℕ}
    (hc : cell.2 < cell.1 ∧ cell.1 < m) (hs : step cfg st cell = some st')
    (hu : UnitarySols st.rest) (hQ : IsUnitary (circMat m st.comps)) :
    UnitarySols st'.rest ∧ IsUnitary (circMat m st'.comps) ∧
      ∃ M' sv, preZero cfg st cell = some (M', sv) ∧
        frob st'.err.toMatrix ≤ frob st.err.toMatrix + ‖getN M' cell.2 cell.1‖ := by
  obtain ⟨M', sv, hp, -, herr, hcase⟩ := step_char cfg hc hs
  have hQ' : UnitarySols st'.rest ∧ IsUnitary (circMat m st'.comps) := by
    rcases hcase with ⟨-, hrest, -, ⟨hcomps, -⟩ | ⟨d, hd1, hd2, hcomps, -⟩⟩ | ⟨-, B, Binv, hrest, hcomps, -⟩
    · rw [hrest, hcomps]; exact ⟨hu, hQ⟩
    · rw [hrest, hcomps, circMat_cons, perm_comp_eq_swap hd1 (by omega)]
      exact ⟨hu, hQ.mul (swapMat_isUnitary (by omega) (by omega))⟩
    · rw [hcomps, circMat_cons]
      refine ⟨fun s hs' => hu s (by rw [hrest]; exact List.mem_cons_of_mem _ hs'), hQ.mul ?_⟩
      have hB : IsUnitary B := hu (B, Binv) (by rw [hrest]; exact List.mem_cons_self)
      show IsUnitary (embed m cell.2 B)
      exact IsUnitary.embed (by omega) hB
  refine ⟨hQ'.1, hQ'.2, M', sv, hp, ?_⟩
  rw [herr]
  refine le_trans (frob_add_le _ _) ?_
  rw [frob_unitary_mul _ hQ'.2.2, frob_entryAt]

/-- the loop: the accumulated circuit stays unitary and the ghost error term grows by at most the modulus of every
overwritten entry -/
theorem run_err_bound (cfg : Cfg ℂ) {m : ℕ} (cs : List (ℕ × ℕ)) (hcs : ∀ c ∈ cs, c.2 < c.1 ∧ c.1 < m) :
    ∀ {st st' : St ℂ m}, run cfg st cs = some st' → UnitarySols st.rest → IsUnitary (circMat m st.comps) →
      IsUnitary (circMat m st'.comps) ∧
        frob st'.err.toMatrix ≤ frob st.err.toMatrix + ((trace cfg st cs).map fun r => ‖r.z‖).sum := by
  induction cs with
  | nil =>
    intro st st' hr _ hQ
    simp only [run, Option.some.injEq] at hr
    subst hr
    simp [trace, hQ]
  | cons c cs ih =>
    intro st st' hr hu hQ
    simp only [run] at hr
    cases hstep : step cfg st c with
    | none => simp [hstep] at hr
    | some st1 =>
      simp only [hstep, Option.bind_some] at hr
      obtain ⟨hu1, hQ1, M', sv, hp, hle⟩ := step_err cfg (hcs c List.mem_cons_self) hstep hu hQ
      obtain ⟨hQ', hle'⟩ := ih (fun c' hc' => hcs c' (List.mem_cons_of_mem _ hc')) hr hu1 hQ1
      refine ⟨hQ', ?_⟩
      rw [trace_cons_of_step cfg cs hstep hp]
      simp only [List.map_cons, List.sum_cons]
      linarith

/-- what the records of `trace` say: in a cell where the solver was not called the overwritten value passed the
threshold test; in a solved cell it is the value of the equation handed to the solver at the block used -/
theorem trace_spec [CommRing R] (cfg : Cfg R) {m : ℕ} (cs : List (ℕ × ℕ)) (hcs : ∀ c ∈ cs, c.2 < c.1 ∧ c.1 < m) :
    ∀ (st : St R m), ∀ r ∈ trace cfg st cs,
      (r.solved = false → cfg.small r.z = true) ∧
      (r.solved = true → ∃ B Binv, r.z = nullEq Binv r.a r.b ∧ (B, Binv) ∈ st.rest) := by
  induction cs with
  | nil => intro st r hr; simp [trace] at hr
  | cons c cs ih =>
    intro st r hr
    cases hstep : step cfg st c with
    | none => simp [trace, hstep] at hr
    | some st1 =>
      have hc := hcs c List.mem_cons_self
      obtain ⟨M', sv, hp, -, -, hcase⟩ := step_char cfg hc hstep
      rw [trace_cons_of_step cfg cs hstep hp, List.mem_cons] at hr
      rcases hr with rfl | hr
      · rcases hcase with ⟨hsv, -, hsm, -⟩ | ⟨hsv, B, Binv, hrest, -, hM⟩
        · subst hsv
          exact ⟨fun _ => hsm, fun h => by simp at h⟩
        · subst hsv
          refine ⟨fun h => by simp at h, fun _ => ⟨B, Binv, ?_, by rw [hrest]; exact List.mem_cons_self⟩⟩
          have hn1 : c.2 + 1 < m := by omega
          have hn : c.2 < m := by omega
          simp only [hM, getN, dif_pos (And.intro hn hc.2), dif_pos (And.intro hn1 hc.2), nullEq]
          exact embed2_mul_row hn1 Binv _ _
      · obtain ⟨h1, h2⟩ := ih (fun c' hc' => hcs c' (List.mem_cons_of_mem _ hc')) st1 r hr
        refine ⟨h1, fun hsv => ?_⟩
        obtain ⟨B, Binv, hz, hmem⟩ := h2 hsv
        refine ⟨B, Binv, hz, ?_⟩
        rcases hcase with ⟨-, hrest, -, -⟩ | ⟨-, B', Binv', hrest, -, -⟩
        · rw [← hrest]; exact hmem
        · rw [hrest]; exact List.mem_cons_of_mem _ hmem

/-- the sum of the moduli of the overwritten entries is at most `(#cells)·ε` when each of them is at most `ε` -/
theorem trace_sum_le (cfg : Cfg ℂ) {m : ℕ} (cs : List (ℕ × ℕ)) (st : St ℂ m) (ε : ℝ) (hε0 : 0 ≤ ε)
    (hε : ∀ r ∈ trace cfg st cs, ‖r.z‖ ≤ ε) :
    ((trace cfg st cs).map fun r => ‖r.z‖).sum ≤ (cs.length : ℝ) * ε := by
  have h1 : ((trace cfg st cs).map fun r => ‖r.z‖).sum ≤
      ((trace cfg st cs).map fun r => ‖r.z‖).length • ε := by
    apply List.sum_le_card_nsmul
    intro x hx
    simp only [List.mem_map] at hx
    obtain ⟨r, hr, rfl⟩ := hx
    exact hε r hr
  refine le_trans h1 ?_
  rw [List.length_map, nsmul_eq_mul]
  apply mul_le_mul_of_nonneg_right _ hε0
  exact_mod_cast trace_length_le cfg cs st

/-- right multiplication by a diagonal of unit-modulus entries does not change the Frobenius norm -/
theorem frob_mul_unit_diagonal {m : ℕ} (A : Matrix (Fin m) (Fin m) ℂ) (d : Fin m → ℂ) (hd : ∀ i, ‖d i‖ = 1) :
    frob (A * Matrix.diagonal d) = frob A := by
  unfold frob frob2
  congr 1
  apply Finset.sum_congr rfl
  intro i _
  apply Finset.sum_congr rfl
  intro j _
  rw [Matrix.mul_diagonal, Complex.normSq_mul, Complex.normSq_eq_norm_sq (d j), hd j]
  simp

theorem range_sum_mul_two : ∀ m : ℕ, (List.range m).sum * 2 = m * (m - 1)
  | 0 => by simp
  | 1 => by simp
  | (j + 2) => by
    have ih := range_sum_mul_two (j + 1)
    rw [List.range_succ, List.sum_append]
    have e1 : j + 2 - 1 = j + 1 := by omega
    have e2 : j + 1 - 1 = j := by omega
    rw [e1]
    rw [e2] at ih
    simp only [List.sum_cons, List.sum_nil, Nat.add_zero] at ih ⊢
    have e : (j + 2) * (j + 1) = (j + 1) * j + 2 * (j + 1) := by ring
    omega

theorem cells_length (m : ℕ) : (cells m).length * 2 = m * (m - 1) := by
  have h : (cells m).length = (List.range m).sum := by
    unfold cells
    rw [List.length_flatMap, List.map_reverse, List.sum_reverse]
    congr 1
    conv_rhs => rw [← List.map_id (List.range m)]
    apply List.map_congr_left
    intro j _
    simp
  rw [h, range_sum_mul_two]

end PM.C12
