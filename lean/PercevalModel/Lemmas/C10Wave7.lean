/-
  C10 (wave 7, proofs only) — helper lemmas: the distance between the counter `_n_heralds` and the herald ports of
  `_out_ports` along the calls of a history (`HerGap`), and the inversion of a refused add of a bare component.
-/
import PercevalModel.Lemmas.C10HistR

namespace PM.C10

/-! # Wave 7: the herald counter against the herald ports, as an equivalence -/

/-- `_n_heralds` is ahead of the herald ports of `_out_ports` by `g` -/
def HerGap (e : Exp) (g : Nat) : Prop := e.nher = (heraldsOf e.outp).length + g

/-- `remove_port` of a herald port takes exactly one entry off `heralds` -/
theorem heraldsOf_removeFirst_herald {ports out : List Port} {m : Nat}
    (h : removeFirst ports m = some out)
    (hk : ((portAt ports m).map (·.herald)).getD false = true) :
    (heraldsOf out).length + 1 = (heraldsOf ports).length := by
  induction ports generalizing out with
  | nil => simp [removeFirst] at h
  | cons p ps ih =>
    by_cases hp : (decide (p.start ≤ m) && decide (m < p.start + p.size)) = true
    · have hout : out = ps := by
        unfold removeFirst at h
        simp only [List.findIdx?_cons, hp, if_true] at h
        simpa using h.symm
      have hh : p.herald = true := by
        simpa [portAt, List.find?_cons, hp] using hk
      subst hout
      simp [heraldsOf, hh]
    · have hp' : (decide (p.start ≤ m) && decide (m < p.start + p.size)) = false := by simpa using hp
      have hk' : ((portAt ps m).map (·.herald)).getD false = true := by
        simpa [portAt, List.find?_cons, hp'] using hk
      cases hr : removeFirst ps m with
      | none =>
        unfold removeFirst at h hr
        simp only [List.findIdx?_cons, hp'] at h
        split at hr
        · rename_i hn; simp [hn] at h
        · cases hr
      | some out' =>
        have hout : out = p :: out' := by
          unfold removeFirst at h hr
          simp only [List.findIdx?_cons, hp'] at h
          split at hr
          · cases hr
          · rename_i i hi
            cases hr
            simp [hi] at h
            exact h.symm
        subst hout
        have := ih hr hk'
        simp only [heraldsOf, List.filter_cons, List.length_map] at this ⊢
        split_ifs <;> first | omega | (simp only [List.length_cons]; omega)

theorem removePort_gap (e e' : Exp) (m : Nat) (loc : Loc) (g : Nat) (hc : HerGap e g)
    (h : removePort e m loc = .ok e') :
    HerGap e' (if (HOp.rmport m loc).keepsHeraldOut e = true then g else g + 1) := by
  unfold removePort at h
  split at h
  · cases h
  · split at h
    · cases h
    · rename_i outp houtp
      cases h
      unfold HerGap at hc ⊢
      show e.nher = (heraldsOf outp).length + _
      by_cases hl : loc.hasOut = true
      · rw [if_pos hl] at houtp
        by_cases hk : ((portAt e.outp m).map (·.herald)).getD false = true
        · have hk2 : ¬ ((HOp.rmport m loc).keepsHeraldOut e = true) := by
            simp [HOp.keepsHeraldOut, hl, hk]
          rw [if_neg hk2]
          have := heraldsOf_removeFirst_herald houtp hk
          omega
        · have hk' : ((portAt e.outp m).map (·.herald)).getD false = false := by simpa using hk
          have hk2 : (HOp.rmport m loc).keepsHeraldOut e = true := by
            simp [HOp.keepsHeraldOut, hl, hk']
          rw [if_pos hk2, heraldsOf_removeFirst houtp hk']
          exact hc
      · rw [if_neg hl] at houtp
        cases houtp
        have hk2 : (HOp.rmport m loc).keepsHeraldOut e = true := by
          simp [HOp.keepsHeraldOut, hl]
        rw [if_pos hk2]
        exact hc

theorem addHerald_gap (e e' : Exp) (mode expected : Nat) (name : Option String) (g : Nat) (hc : HerGap e g)
    (h : addHerald e mode expected name = .ok e') : HerGap e' g := by
  unfold addHerald at h
  split_ifs at h
  cases h
  unfold HerGap at hc ⊢
  show e.nher + 1 =
    (heraldsOf (e.outp ++ [(⟨mode, 1, name.getD "herald#", true, expected, name⟩ : Port)])).length + g
  rw [heraldsOf_append, heraldsOf_single_herald _ rfl, hc]
  simp
  omega

theorem addPort_gap (e e' : Exp) (mode size : Nat) (name : String) (loc : Loc) (g : Nat) (hc : HerGap e g)
    (h : addPort e mode size name loc = .ok e') : HerGap e' g := by
  unfold addPort at h
  split_ifs at h
  cases h
  unfold HerGap at hc ⊢
  show e.nher = (heraldsOf (appIf loc.hasOut e.outp ⟨mode, size, name, false, 0, none⟩)).length + g
  rw [heraldsOf_appIf _ _ _ rfl, hc]

theorem defaultM_gap (e e' : Exp) (value : Except HErr Int) (g : Nat) (hc : HerGap e g)
    (h : defaultM true e value = .ok e') : HerGap e' g := by
  unfold defaultM at h
  cases value with
  | error x =>
    simp only at h
    split_ifs at h
    cases h; exact hc
  | ok v =>
    simp only at h
    split_ifs at h
    · cases h; exact hc
    · cases h; exact hc

theorem addDet_gap (e e' : Exp) (mode : Nat) (name : String) (g : Nat) (hc : HerGap e g)
    (h : addDet true e mode name = .ok e') : HerGap e' g := by
  unfold addDet at h
  split at h
  · cases h
  · rename_i e1 h1
    have hc1 := defaultM_gap e e1 _ g hc h1
    split at h
    · cases h
    · cases h
    · split_ifs at h
      cases h
      exact hc1

/-- inversion of a refused add of a bare component: the error is the one of `resolve`, or an `AssertionError`
raised after the mapping was resolved -/
theorem compose_comp_error_inv (f1 : RFlags) (f2 f3 : Bool) (l r : Side) (raw : RawMap) (keep : Bool) (x : Err)
    (hr : r.comp = true) (h : compose f1 f2 f3 l r raw keep = .error x) :
    resolve f1 l r raw = .error x ∨ (∃ d, resolve f1 l r raw = .ok d ∧ x = .assertion) := by
  unfold compose at h
  simp only [bind, Except.bind, pure, Except.pure, throw, throwThe, MonadExceptOf.throw, hr,
    if_true] at h
  split at h
  · rename_i e he
    cases h
    exact Or.inl he
  · rename_i d hd
    refine Or.inr ⟨d, hd, ?_⟩
    split at h
    · rename_i e he
      cases h
      unfold validatePS at he
      split at he
      · split_ifs at he
        cases he; rfl
      · cases he
    · split at h
      · cases h; rfl
      · rename_i mp hmp
        split at h
        · rename_i e he
          cases h
          simp only [genPerm] at he
          split_ifs at he
          cases he; rfl
        · cases h

end PM.C10
