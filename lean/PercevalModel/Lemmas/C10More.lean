/-
  C10 — more helper lemmas: completeness of PERM's assertion on legal mappings, dictionaries built by
  `resolve`, the port loops of `_compose_experiment`, inversion of the monadic `compose`.
-/
import PercevalModel.Lemmas.C10

namespace PM.C10

/-! ### a duplicate-free list of `n` naturals `< n` contains every one of them -/

theorem isPermList_perm_range {n : Nat} {v : List Nat} (h : IsPermList n v) :
    v.Perm (List.range n) := by
  obtain ⟨hl, hn, hb⟩ := h
  have hsub : v ⊆ List.range n := fun x hx => List.mem_range.2 (hb x hx)
  exact (List.subperm_of_subset hn hsub).perm_of_length_le (by simp [hl])

theorem isPermList_mem {n : Nat} {v : List Nat} (h : IsPermList n v) {i : Nat} (hi : i < n) :
    i ∈ v :=
  (isPermList_perm_range h).symm.subset (List.mem_range.2 hi)

theorem minN_eq_zero {v : List Nat} (h : 0 ∈ v) : minN v = 0 :=
  Nat.le_zero.1 (minN_le h)

/-- completeness of `PERM.__init__`'s assertion: every permutation of `0 … L-1` (`L ≥ 1`) passes -/
theorem permValid_of_isPerm (v : List Nat) (hne : v ≠ []) (h : IsPermList v.length v) :
    permValid v = true := by
  have hpos : 0 < v.length := List.length_pos_iff.2 hne
  have h0 : minN v = 0 := minN_eq_zero (isPermList_mem h hpos)
  have hmax : maxN v + 1 = v.length := by
    have h1 : v.length - 1 ≤ maxN v := le_maxN (isPermList_mem h (by omega))
    have h2 : maxN v < v.length := maxN_lt hpos h.2.2
    omega
  simp only [permValid, Bool.and_eq_true, decide_eq_true_eq, beq_iff_eq, bne_iff_ne, ne_eq,
    Bool.not_eq_true', decide_eq_false_iff_not]
  exact ⟨⟨⟨by simpa using hne, h0⟩, hmax⟩, h.2.1⟩

/-! ### dictionaries built by `resolve` -/

theorem dictSet_keys (d : Dict) (k v : Int) :
    (dictSet d k v).keys = if d.any (fun p => p.1 == k) then d.keys else d.keys ++ [k] := by
  unfold dictSet
  split_ifs with hc
  · simp only [Dict.keys, List.map_map]
    apply List.map_congr_left
    intro p _
    by_cases e : p.1 = k <;> simp [e]
  · simp [Dict.keys]

theorem dictSet_keys_nodup (d : Dict) (k v : Int) (h : d.keys.Nodup) :
    (dictSet d k v).keys.Nodup := by
  rw [dictSet_keys]
  split_ifs with hc
  · exact h
  · refine List.Nodup.append h (List.nodup_singleton _) ?_
    intro x hx hx'
    rw [List.mem_singleton] at hx'
    subst hx'
    apply hc
    obtain ⟨p, hp, e⟩ := List.mem_map.1 hx
    exact List.any_eq_true.2 ⟨p, hp, by simp [e]⟩

theorem dictSetAll_keys_nodup (l : List (Int × Int)) (d : Dict) (h : d.keys.Nodup) :
    (dictSetAll d l).keys.Nodup := by
  induction l generalizing d with
  | nil => exact h
  | cons p rest ih => exact ih _ (dictSet_keys_nodup d p.1 p.2 h)

theorem dictSet_vals_subset (d : Dict) (k v : Int) :
    ∀ x ∈ (dictSet d k v).vals, x ∈ d.vals ∨ x = v := by
  intro x hx
  unfold dictSet at hx
  split_ifs at hx with hc
  · simp only [Dict.vals, List.map_map, List.mem_map, Function.comp] at hx
    obtain ⟨p, hp, e⟩ := hx
    by_cases e' : p.1 = k
    · right; simpa [e'] using e.symm
    · left; exact List.mem_map.2 ⟨p, hp, by simpa [e'] using e⟩
  · simp only [Dict.vals, List.map_append, List.mem_append, List.map_cons, List.map_nil,
      List.mem_singleton] at hx
    exact hx

theorem dictSetAll_vals_subset (l : List (Int × Int)) (d : Dict) :
    ∀ x ∈ (dictSetAll d l).vals, x ∈ d.vals ∨ x ∈ l.map (·.2) := by
  induction l generalizing d with
  | nil => intro x hx; exact Or.inl hx
  | cons p rest ih =>
    intro x hx
    rcases ih (dictSet d p.1 p.2) x hx with h | h
    · rcases dictSet_vals_subset d p.1 p.2 x h with h | h
      · exact Or.inl h
      · exact Or.inr (by simp [h])
    · exact Or.inr (by simp only [List.map_cons, List.mem_cons]; exact Or.inr h)

theorem dictOf_keys_nodup (l : List (Int × Int)) : (dictOf l).keys.Nodup :=
  dictSetAll_keys_nodup l [] List.nodup_nil

theorem dictOf_vals_subset (l : List (Int × Int)) : ∀ x ∈ (dictOf l).vals, x ∈ l.map (·.2) := by
  intro x hx
  rcases dictSetAll_vals_subset l [] x hx with h | h
  · simp [Dict.vals] at h
  · exact h

/-! ### the dictionary branch in closed form -/

theorem dictSetAll_append (d : Dict) (a b : List (Int × Int)) :
    dictSetAll d (a ++ b) = dictSetAll (dictSetAll d a) b := by
  simp [dictSetAll, List.foldl_append]

theorem dictSetAll_nil (d : Dict) : dictSetAll d [] = d := rfl

theorem dictSetAll_singleton (d : Dict) (k v : Int) : dictSetAll d [(k, v)] = dictSet d k v := rfl

/-- storing the same pair twice is storing it once -/
theorem dictSet_idem (d : Dict) (k v : Int) : dictSet (dictSet d k v) k v = dictSet d k v := by
  have hf : ∀ p : Int × Int, (if ((if (p.1 == k) = true then (k, v) else p).1 == k) = true then (k, v)
      else (if (p.1 == k) = true then (k, v) else p)) = (if (p.1 == k) = true then (k, v) else p) := by
    intro p
    by_cases e : (p.1 == k) = true
    · simp [e]
    · simp [e]
  by_cases hc : d.any (fun p => p.1 == k) = true
  · have e1 : dictSet d k v = d.map (fun p => if (p.1 == k) = true then (k, v) else p) := by
      unfold dictSet; rw [if_pos hc]
    have hc' : (d.map fun p => if (p.1 == k) = true then (k, v) else p).any
        (fun p => p.1 == k) = true := by
      obtain ⟨p, hp, e⟩ := List.any_eq_true.1 hc
      exact List.any_eq_true.2 ⟨(k, v), List.mem_map.2 ⟨p, hp, by simp [e]⟩, by simp⟩
    rw [e1]
    conv_lhs => unfold dictSet
    rw [if_pos hc', List.map_map]
    apply List.map_congr_left
    intro p _
    exact hf p
  · have e1 : dictSet d k v = d ++ [(k, v)] := by
      unfold dictSet; rw [if_neg hc]
    have hc' : (d ++ [(k, v)]).any (fun p => p.1 == k) = true := by simp
    rw [e1]
    conv_lhs => unfold dictSet
    rw [if_pos hc', List.map_append]
    congr 1
    · have : ∀ p ∈ d, (p.1 == k) = false := by
        intro p hp
        by_contra hne
        exact hc (List.any_eq_true.2 ⟨p, hp, by simpa using hne⟩)
      conv_rhs => rw [← List.map_id d]
      apply List.map_congr_left
      intro p hp
      simp [this p hp]
    · simp

/-- `pairItem` stores exactly `zip lidx ridx` (the early store of the `{'name': int}` branch is the same
pair again) -/
theorem pairItem_eq (fx : RFlags) (r : Side) (res : Dict) (lidx : List Int) (v : MVal) :
    pairItem fx r res lidx v =
      (match rightIdx fx r lidx.length v with
       | .error e => .error e
       | .ok ridx => if lidx.length ≠ ridx.length then .error .invalid
                     else .ok (dictSetAll res (lidx.zip ridx))) := by
  cases v with
  | int v =>
    simp only [pairItem, rightIdx, bind, Except.bind]
    by_cases h1 : lidx.length = 1
    · simp only [h1, if_true]
      cases hn : fx.name
      · simp
      · simp only [if_true, List.length_singleton, ne_eq, not_true_eq_false, if_false]
        obtain ⟨a, rfl⟩ := List.length_eq_one_iff.1 h1
        show Except.ok (dictSetAll (dictSet res a v) [(a, v)]) = Except.ok (dictSetAll res [(a, v)])
        rw [dictSetAll_singleton, dictSetAll_singleton, dictSet_idem]
    · simp only [h1, if_false]
      cases r.comp <;> simp
  | list vs => simp [pairItem, rightIdx, bind, Except.bind]
  | name s =>
    simp only [pairItem, rightIdx, bind, Except.bind]
    cases r.comp
    · simp only [Bool.false_eq_true, if_false]
      cases resolvePort r.inNames s <;> simp
    · simp

/-- one item of a dictionary mapping: the code stores the pairs `itemPairs` says it stands for -/
theorem resolveItem_eq (fx : RFlags) (l r : Side) (res : Dict) (it : MKey × MVal) :
    resolveItem fx l r res it =
      (match itemPairs fx l r it with
       | .error e => .error e
       | .ok ps => .ok (dictSetAll res ps)) := by
  obtain ⟨k, v⟩ := it
  cases k with
  | int k =>
    cases v with
    | int v => simp [resolveItem, itemPairs, dictSetAll_singleton]
    | name s =>
      simp only [resolveItem, itemPairs, leftIdx, bind, Except.bind]
      cases fx.skip
      · simp [dictSetAll_nil]
      · simp only [if_true, pairItem_eq]
        cases rightIdx fx r [k].length (.name s) with
        | error e => rfl
        | ok ridx => simp only []; split_ifs <;> rfl
    | list vs =>
      simp only [resolveItem, itemPairs, leftIdx, bind, Except.bind]
      cases fx.skip
      · simp [dictSetAll_nil]
      · simp only [if_true, pairItem_eq]
        cases rightIdx fx r [k].length (.list vs) with
        | error e => rfl
        | ok ridx => simp only []; split_ifs <;> rfl
  | name k =>
    simp only [resolveItem, itemPairs, leftIdx, bind, Except.bind]
    cases resolvePort l.outNames k with
    | none => rfl
    | some lidx =>
      simp only [pairItem_eq]
      cases rightIdx fx r lidx.length v with
      | error e => rfl
      | ok ridx => simp only []; split_ifs <;> rfl

/-- **the dictionary loop in closed form**: `resolve` stores, in order, the pairs of every item -/
theorem resolveItems_eq (fx : RFlags) (l r : Side) (items : List (MKey × MVal)) (res : Dict) :
    resolveItems fx l r res items =
      (match allPairs fx l r items with
       | .error e => .error e
       | .ok ps => .ok (dictSetAll res ps)) := by
  induction items generalizing res with
  | nil => simp [resolveItems, allPairs, dictSetAll_nil]
  | cons it rest ih =>
    simp only [resolveItems, allPairs, bind, Except.bind, resolveItem_eq]
    cases itemPairs fx l r it with
    | error e => rfl
    | ok ps =>
      simp only [ih]
      cases allPairs fx l r rest with
      | error e => rfl
      | ok qs => simp [pure, Except.pure, dictSetAll_append]

/-- the modes a port name stands for: `count` consecutive positions from the first occurrence -/
def portModes (names : List String) (name : String) : List Int :=
  (List.range (names.count name)).map fun (i : Nat) => Int.ofNat (names.idxOf name + i)

theorem portModes_length (names : List String) (name : String) :
    (portModes names name).length = names.count name := by simp [portModes]

theorem resolvePort_eq (names : List String) (name : String) :
    resolvePort names name = if names.count name = 0 then none else some (portModes names name) := rfl

theorem resolvePort_some_iff (names : List String) (name : String) (x : List Int) :
    resolvePort names name = some x ↔ 0 < names.count name ∧ x = portModes names name := by
  rw [resolvePort_eq]
  split_ifs with h
  · constructor
    · intro h'; cases h'
    · rintro ⟨h', -⟩; omega
  · constructor
    · intro h'; cases h'; exact ⟨by omega, rfl⟩
    · rintro ⟨-, rfl⟩; rfl

theorem resolvePort_none_iff (names : List String) (name : String) :
    resolvePort names name = none ↔ names.count name = 0 := by
  rw [resolvePort_eq]; split_ifs with h <;> simp [h]

theorem allPairs_nil (fx : RFlags) (l r : Side) : allPairs fx l r [] = .ok [] := rfl

theorem allPairs_cons (fx : RFlags) (l r : Side) (it : MKey × MVal) (rest : List (MKey × MVal)) :
    allPairs fx l r (it :: rest) =
      (match itemPairs fx l r it with
       | .error e => .error e
       | .ok ps => match allPairs fx l r rest with
         | .error e => .error e
         | .ok qs => .ok (ps ++ qs)) := by
  simp only [allPairs, bind, Except.bind, pure, Except.pure]
  cases itemPairs fx l r it with
  | error e => rfl
  | ok ps => cases allPairs fx l r rest <;> rfl

/-- the dictionary form of `resolve`, unfolded once -/
theorem resolve_dict_eq (fx : RFlags) (l r : Side) (items : List (MKey × MVal)) :
    resolve fx l r (.ofDict items) =
      if typeChecks r items = false then .error .assertion
      else match allPairs fx l r items with
        | .error e => .error e
        | .ok ps => match checkConsistency l.cs l.conn r.m (dictOf ps) with
          | .ok _ => .ok (dictOf ps)
          | .error e => .error e := by
  simp only [resolve, bind, Except.bind, pure, Except.pure, throw, throwThe, MonadExceptOf.throw,
    resolveItems_eq]
  cases typeChecks r items
  · simp
  · simp only [Bool.not_true, Bool.false_eq_true, if_false]
    cases allPairs fx l r items with
    | error e => rfl
    | ok ps =>
      unfold dictOf
      simp only []
      cases checkConsistency l.cs l.conn r.m (dictSetAll [] ps) <;> rfl

theorem resolveItems_keys_nodup (fixed : RFlags) (l r : Side) (items : List (MKey × MVal))
    (res res' : Dict) (h : resolveItems fixed l r res items = .ok res') (hn : res.keys.Nodup) :
    res'.keys.Nodup := by
  rw [resolveItems_eq] at h
  split at h
  · cases h
  · cases h; exact dictSetAll_keys_nodup _ _ hn

/-- inversion of `resolve`: an accepted mapping passed `_check_consistency` and is a dictionary -/
theorem resolve_inv (fixed : RFlags) (l r : Side) (raw : RawMap) (d : Dict)
    (h : resolve fixed l r raw = .ok d) :
    checkConsistency l.cs l.conn r.m d = .ok () ∧ d.keys.Nodup := by
  unfold resolve at h
  cases raw with
  | ofInt b =>
    simp only [bind, Except.bind, pure, Except.pure] at h
    split at h
    · cases h
    · rename_i u hc
      cases h; cases u
      exact ⟨hc, dictOf_keys_nodup _⟩
  | ofList ks =>
    simp only [bind, Except.bind, pure, Except.pure, throw, throwThe, MonadExceptOf.throw] at h
    repeat' split at h
    all_goals first
      | (cases h; done)
      | (rename_i u hc; cases h; cases u; exact ⟨hc, dictOf_keys_nodup _⟩)
  | ofDict items =>
    simp only [bind, Except.bind, pure, Except.pure, throw, throwThe, MonadExceptOf.throw] at h
    repeat' split at h
    all_goals first
      | (cases h; done)
      | (cases h; rename_i u hd hc; cases u
         exact ⟨hc, resolveItems_keys_nodup fixed l r items [] _ hd List.nodup_nil⟩)

theorem checkConsistency_ok (cs : Nat) (conn : List Bool) (n : Nat) (d : Dict)
    (h : checkConsistency cs conn n d = .ok ()) :
    d ≠ [] ∧ d.length = n ∧ d.vals.Nodup ∧ ∀ p ∈ d, connectible cs conn p.1 = true := by
  unfold checkConsistency at h
  split_ifs at h with h1 h2 h3 h4 h5
  refine ⟨h2, not_not.1 h1, h5, fun p hp => ?_⟩
  by_contra hc
  exact h4 (List.any_eq_true.2 ⟨p, hp, by simpa using hc⟩)

theorem connectible_bounds {cs : Nat} {conn : List Bool} {k : Int}
    (h : connectible cs conn k = true) : 0 ≤ k ∧ k < (cs : Int) := by
  unfold connectible at h
  split_ifs at h with h1 h2
  omega

/-- everything `_check_consistency` guarantees, in one place -/
theorem resolve_facts (fixed : RFlags) (l r : Side) (raw : RawMap) (d : Dict)
    (h : resolve fixed l r raw = .ok d) :
    d ≠ [] ∧ d.length = r.m ∧ d.keys.Nodup ∧ d.vals.Nodup ∧
      ∀ p ∈ d, connectible l.cs l.conn p.1 = true := by
  obtain ⟨hc, hk⟩ := resolve_inv fixed l r raw d h
  obtain ⟨hne, h1, h3, h2⟩ := checkConsistency_ok _ _ _ _ hc
  exact ⟨hne, h1, hk, h3, h2⟩

/-! ### natural-number mappings, `add_heralded_modes`, `keyOfVal` -/

theorem toNMap_inv (d : Dict) (mp : NMap) (h : toNMap d = some mp) :
    mp = d.map (fun p => (p.1.toNat, p.2.toNat)) ∧ ∀ p ∈ d, 0 ≤ p.1 ∧ 0 ≤ p.2 := by
  unfold toNMap at h
  split_ifs at h with hc
  cases h
  refine ⟨rfl, fun p hp => ?_⟩
  have := List.all_eq_true.1 hc p hp
  simpa using this

theorem toNMap_isSome (d : Dict) (h : ∀ p ∈ d, 0 ≤ p.1 ∧ 0 ≤ p.2) :
    toNMap d = some (d.map fun p => (p.1.toNat, p.2.toNat)) := by
  unfold toNMap
  rw [if_pos]
  exact List.all_eq_true.2 fun p hp => by simpa using h p hp

theorem toNMap_keys (d : Dict) (mp : NMap) (h : toNMap d = some mp) :
    mp.keys = d.keys.map Int.toNat := by
  rw [(toNMap_inv d mp h).1]; simp [NMap.keys, Dict.keys]

theorem toNMap_vals (d : Dict) (mp : NMap) (h : toNMap d = some mp) :
    mp.vals = d.vals.map Int.toNat := by
  rw [(toNMap_inv d mp h).1]; simp [NMap.vals, Dict.vals]

theorem nodup_map_toNat (l : List Int) (hn : l.Nodup) (h0 : ∀ x ∈ l, 0 ≤ x) :
    (l.map Int.toNat).Nodup := by
  refine List.Nodup.map_on ?_ hn
  intro x hx y hy e
  have := h0 x hx; have := h0 y hy
  omega

/-- the natural-number mapping of an accepted mapping: distinct keys inside the left circuit,
distinct values, right size -/
theorem resolved_nmap_facts (fixed : RFlags) (l r : Side) (raw : RawMap) (d : Dict) (mp : NMap)
    (h : resolve fixed l r raw = .ok d) (hm : toNMap d = some mp) :
    mp ≠ [] ∧ mp.length = r.m ∧ mp.keys.Nodup ∧ mp.vals.Nodup ∧ (∀ k ∈ mp.keys, k < l.cs) ∧
      ∀ k ∈ mp.keys, connectible l.cs l.conn (k : Int) = true := by
  obtain ⟨hne, hlen, hk, hv, hc⟩ := resolve_facts fixed l r raw d h
  obtain ⟨e, h0⟩ := toNMap_inv d mp hm
  have hkeys := toNMap_keys d mp hm
  have hvals := toNMap_vals d mp hm
  have hconn : ∀ k ∈ mp.keys, connectible l.cs l.conn (k : Int) = true := by
    intro k hk'
    rw [hkeys] at hk'
    obtain ⟨x, hx, rfl⟩ := List.mem_map.1 hk'
    obtain ⟨p, hp, rfl⟩ := List.mem_map.1 hx
    have := (h0 p hp).1
    rw [Int.toNat_of_nonneg this]
    exact hc p hp
  refine ⟨?_, by rw [e]; simpa using hlen, ?_, ?_, ?_, hconn⟩
  · rw [e]; simpa using hne
  · rw [hkeys]
    exact nodup_map_toNat _ hk fun x hx => by
      obtain ⟨p, hp, rfl⟩ := List.mem_map.1 hx
      exact (h0 p hp).1
  · rw [hvals]
    exact nodup_map_toNat _ hv fun x hx => by
      obtain ⟨p, hp, rfl⟩ := List.mem_map.1 hx
      exact (h0 p hp).2
  · intro k hk'
    have := (connectible_bounds (hconn k hk')).2
    omega

/-! addHeraldedModes -/

theorem addHeraldedModes_keys (cs : Nat) (mp : NMap) (hpos : List Nat) :
    (addHeraldedModes cs mp hpos).keys = mp.keys ++ (List.range hpos.length).map (cs + ·) := by
  simp only [addHeraldedModes, keys_append]
  congr 1
  simp only [NMap.keys]
  apply List.ext_getElem
  · simp
  · intro i h1 h2
    simp

theorem addHeraldedModes_vals (cs : Nat) (mp : NMap) (hpos : List Nat) :
    (addHeraldedModes cs mp hpos).vals = mp.vals ++ hpos := by
  simp only [addHeraldedModes, vals_append]
  congr 1
  simp only [NMap.vals]
  apply List.ext_getElem
  · simp
  · intro i h1 h2
    simp

theorem addHeraldedModes_keys_nodup (cs : Nat) (mp : NMap) (hpos : List Nat)
    (hk : mp.keys.Nodup) (hlt : ∀ k ∈ mp.keys, k < cs) :
    (addHeraldedModes cs mp hpos).keys.Nodup := by
  rw [addHeraldedModes_keys]
  refine List.Nodup.append hk ?_ ?_
  · exact List.Nodup.map (fun a b e => by simpa using e) List.nodup_range
  · intro x hx hx'
    obtain ⟨i, _, rfl⟩ := List.mem_map.1 hx'
    have := hlt _ hx
    omega

theorem addHeraldedModes_mem (cs : Nat) (mp : NMap) (hpos : List Nat) (i : Nat)
    (hi : i < hpos.length) : (cs + i, hpos[i]) ∈ addHeraldedModes cs mp hpos := by
  simp only [addHeraldedModes, List.mem_append]
  right
  rw [List.mem_iff_getElem]
  exact ⟨i, by simpa using hi, by simp⟩

/-! fill / keyOfVal -/

theorem fill_prefix (mp : NMap) (ms : List Nat) : ∃ t, fill mp ms = mp ++ t := by
  induction ms generalizing mp with
  | nil => exact ⟨[], by simp [fill]⟩
  | cons m rest ih =>
    obtain ⟨t, ht⟩ := ih (mp ++ [(m, maxN mp.vals + 1)])
    exact ⟨(m, maxN mp.vals + 1) :: t, by rw [fill, ht]; simp⟩

theorem mem_filled {mp : NMap} {p : Nat × Nat} (h : p ∈ mp) : p ∈ filled mp := by
  obtain ⟨t, ht⟩ := fill_prefix mp (missingModes mp)
  rw [filled, ht]
  exact List.mem_append_left _ h

theorem keyOfVal_of_mem {fl : NMap} (hv : fl.vals.Nodup) {k v : Nat} (h : (k, v) ∈ fl) :
    keyOfVal fl v = some k := by
  induction fl with
  | nil => simp at h
  | cons p rest ih =>
    obtain ⟨k', v'⟩ := p
    simp only [NMap.vals, List.map_cons, List.nodup_cons] at hv
    unfold keyOfVal
    rcases List.mem_cons.1 h with e | h'
    · cases e; simp
    · have hne : v' ≠ v := by
        rintro rfl
        exact hv.1 (List.mem_map.2 ⟨(k, v'), h', rfl⟩)
      rw [List.find?_cons_of_neg (by simpa using hne)]
      exact ih hv.2 h'

/-- when `generate_permutation` succeeds on a mapping with distinct keys, the completed mapping has
distinct values -/
theorem filled_vals_nodup_of_genPerm (mp : NMap) (hk : mp.keys.Nodup) (σ : Option (List Nat))
    (h : genPerm mp = .ok σ) : (filled mp).vals.Nodup := by
  have hp := permVect_perm_vals mp hk
  rw [← hp.nodup_iff]
  simp only [genPerm] at h
  split_ifs at h with h1 h2
  · rw [h1]; exact List.nodup_range
  · simp only [permValid, Bool.and_eq_true, decide_eq_true_eq] at h2
    exact h2.2

/-! ### the port loops -/

theorem heraldsOf_append (a b : List Port) : heraldsOf (a ++ b) = heraldsOf a ++ heraldsOf b := by
  simp [heraldsOf]

theorem heraldsOf_single_herald (p : Port) (hp : p.herald = true) :
    heraldsOf [p] = [(p.start, p.expected)] := by
  simp [heraldsOf, hp]

theorem heraldsOf_single_nonherald (p : Port) (hp : p.herald = false) : heraldsOf [p] = [] := by
  simp [heraldsOf, hp]

/-- what the output-port loop does to the port lists: the old ports are kept, in order; the heralds of
the added processor are appended as one-mode herald ports, in order, on the modes the completed
mapping attaches to their positions -/
theorem transferOut_spec (fp : Bool) (fl : NMap) (ports : List Port) (inp outp inp' outp' : List Port)
    (h : transferOut fp fl (inp, outp) ports = .ok (inp', outp')) :
    ∃ new, outp' = outp ++ new ∧
      heraldsOf new = (ports.filter (·.herald)).map
        (fun p => ((keyOfVal fl p.start).getD 0, p.expected)) ∧
      ∀ q ∈ new, q.herald = true → q.size = 1 := by
  induction ports generalizing inp outp with
  | nil =>
    simp only [transferOut] at h
    cases h
    exact ⟨[], by simp, by simp [heraldsOf], by simp⟩
  | cons p rest ih =>
    simp only [transferOut] at h
    split at h
    · cases h
    · rename_i pm hpm
      by_cases hh : p.herald = true
      · rw [if_pos hh] at h
        split_ifs at h
        obtain ⟨new, e, hh', hs⟩ := ih _ _ h
        refine ⟨{ p with start := pm, size := 1, name := heraldName p } :: new, by rw [e]; simp, ?_, ?_⟩
        · have : heraldsOf ({ p with start := pm, size := 1, name := heraldName p } :: new) =
              (pm, p.expected) :: heraldsOf new := by
            simp [heraldsOf, hh]
          rw [this, hh', List.filter_cons_of_pos (by simpa using hh), List.map_cons, hpm]
          rfl
        · intro q hq hqh
          rcases List.mem_cons.1 hq with rfl | hq
          · rfl
          · exact hs q hq hqh
      · rw [if_neg hh] at h
        have hf : p.herald = false := by simpa using hh
        split_ifs at h
        · obtain ⟨new, e, hh', hs⟩ := ih _ _ h
          refine ⟨{ p with start := pm } :: new, by rw [e]; simp, ?_, ?_⟩
          · have : heraldsOf ({ p with start := pm } :: new) = heraldsOf new := by
              simp [heraldsOf, hf]
            rw [this, hh', List.filter_cons_of_neg (by simpa using hh)]
          · intro q hq hqh
            rcases List.mem_cons.1 hq with rfl | hq
            · simp [hf] at hqh
            · exact hs q hq hqh
        · obtain ⟨new, e, hh', hs⟩ := ih _ _ h
          exact ⟨new, e, by rw [hh', List.filter_cons_of_neg (by simpa using hh)], hs⟩

/-- herald ports on modes that are not connectible survive `removePorts` (the ports removed are those
covering a mapped, hence connectible, mode) -/
theorem removePorts_herald_filter (keep : Bool) (outp : List Port) (keys : List Nat)
    (h : ∀ p ∈ outp, p.herald = true → ∀ k ∈ keys, ¬ (p.start ≤ k ∧ k < p.start + p.size)) :
    (removePorts keep outp keys).filter (·.herald) = outp.filter (·.herald) := by
  unfold removePorts
  split_ifs
  · rfl
  · rw [List.filter_filter]
    apply List.filter_congr
    intro p hp
    by_cases hh : p.herald = true
    · have : (keys.any fun k => decide (p.start ≤ k) && decide (k < p.start + p.size)) = false := by
        rw [List.any_eq_false]
        intro k hk
        have := h p hp hh k hk
        simpa using this
      simp [hh, this]
    · simp [hh]

theorem removePorts_subset (keep : Bool) (outp : List Port) (keys : List Nat) :
    ∀ p ∈ removePorts keep outp keys, p ∈ outp := by
  intro p hp
  unfold removePorts at hp
  split_ifs at hp
  · exact hp
  · exact (List.mem_filter.1 hp).1

/-! ### inversion of `compose` -/

/-- inversion of the monadic `compose` for an added **processor**: every intermediate computation
succeeded and the result is assembled from them -/
theorem compose_proc_inv (f1 : RFlags) (f2 f3 : Bool) (l r : Side) (raw : RawMap) (keep : Bool) (res : Result)
    (hr : r.comp = false) (h : compose f1 f2 f3 l r raw keep = .ok res) :
    ∃ d mp perm inp1 outp1 inp2,
      resolve f1 l r raw = .ok d ∧ toNMap d = some mp ∧
      genPerm (addHeraldedModes l.cs mp (r.heralds.map (·.1))) = .ok perm ∧
      transferOut f3 (filled (addHeraldedModes l.cs mp (r.heralds.map (·.1))))
        (l.inp, removePorts keep l.outp (d.keys.map Int.toNat)) r.outp = .ok (inp1, outp1) ∧
      transferIn f3 (filled (addHeraldedModes l.cs mp (r.heralds.map (·.1)))) inp1 r.inp = .ok inp2 ∧
      res.map = mp ∧ res.full = filled (addHeraldedModes l.cs mp (r.heralds.map (·.1))) ∧
      res.first = minN (addHeraldedModes l.cs mp (r.heralds.map (·.1))).keys ∧
      res.perm = perm ∧ res.inv = perm.map invPerm ∧
      res.cs = l.cs + r.heralds.length ∧
      res.conn = l.conn ++ List.replicate r.heralds.length false ∧
      res.heralds = heraldsOf outp1 ∧
      res.dets = l.dets ++ (r.heralds.map (·.1)).map (fun p => r.dets.getD p none) ∧
      res.inp = inp2 ∧ res.outp = outp1 := by
  unfold compose at h
  simp only [bind, Except.bind, pure, Except.pure, throw, throwThe, MonadExceptOf.throw, hr,
    Bool.false_eq_true, if_false] at h
  split at h
  · cases h
  · rename_i d hd
    split at h
    · cases h
    · split at h
      · cases h
      · rename_i mp hmp
        split at h
        · cases h
        · rename_i perm hperm
          split at h
          · cases h
          · rename_i pr hpr
            obtain ⟨inp1, outp1⟩ := pr
            simp only at h
            split at h
            · cases h
            · rename_i inp2 hin
              split at h
              · cases h
              · cases h
                exact ⟨d, mp, perm, inp1, outp1, inp2, hd, hmp, hperm, hpr, hin, rfl, rfl, rfl, rfl,
                  rfl, by simp [csAfter, hr], by simp [connAfter, hr], rfl, rfl, rfl, rfl⟩

/-! ### the output ports after a composition -/

/-- inversion of `compose` for a bare **component** (`_add_component`) -/
theorem compose_comp_inv (f1 : RFlags) (f2 f3 : Bool) (l r : Side) (raw : RawMap) (keep : Bool) (res : Result)
    (hr : r.comp = true) (h : compose f1 f2 f3 l r raw keep = .ok res) :
    ∃ d mp perm,
      resolve f1 l r raw = .ok d ∧ toNMap d = some mp ∧ genPerm mp = .ok perm ∧
      res.map = mp ∧ res.full = filled mp ∧ res.first = minN mp.keys ∧ res.perm = perm ∧
      res.inv = none ∧ res.cs = l.cs ∧ res.conn = l.conn ∧
      res.heralds = heraldsOf (removePorts keep l.outp (d.keys.map Int.toNat)) ∧
      res.dets = l.dets ∧ res.inp = l.inp ∧
      res.outp = removePorts keep l.outp (d.keys.map Int.toNat) ∧ res.ps = l.ps := by
  unfold compose at h
  simp only [bind, Except.bind, pure, Except.pure, throw, throwThe, MonadExceptOf.throw, hr,
    if_true] at h
  split at h
  · cases h
  · rename_i d hd
    split at h
    · cases h
    · split at h
      · cases h
      · rename_i mp hmp
        split at h
        · cases h
        · rename_i perm hperm
          cases h
          exact ⟨d, mp, perm, hd, hmp, hperm, rfl, rfl, rfl, rfl, rfl, by simp [csAfter, hr],
            by simp [connAfter, hr], rfl, rfl, rfl, rfl, rfl⟩

/-- the mapped modes never lie under a herald port that sits on modes that are not connectible -/
theorem keys_avoid_heralds (l : Side) (keys : List Nat)
    (hkeys : ∀ k : Nat, k ∈ keys → connectible l.cs l.conn (k : Int) = true)
    (hlc : ∀ p ∈ l.outp, p.herald = true → ∀ k : Nat, p.start ≤ k → k < p.start + p.size →
      connectible l.cs l.conn (k : Int) = false) :
    ∀ p ∈ l.outp, p.herald = true → ∀ k ∈ keys, ¬ (p.start ≤ k ∧ k < p.start + p.size) := by
  intro p hp hh k hk ⟨h1, h2⟩
  have := hlc p hp hh k h1 h2
  rw [hkeys k hk] at this
  cases this

/-- the output ports after a processor was added: the old ports minus those under the mapped modes,
then new ports; the new herald ports are one-mode ports on `circuit_size + i`, in the order of the
added processor's heralds, with their expected values -/
theorem compose_proc_ports (f1 : RFlags) (f2 f3 : Bool) (l r : Side) (raw : RawMap) (keep : Bool) (res : Result)
    (hr : r.comp = false) (hrh : r.heralds = heraldsOf r.outp)
    (h : compose f1 f2 f3 l r raw keep = .ok res) :
    ∃ (keys : List Nat) (new : List Port), (∀ k : Nat, k ∈ keys → connectible l.cs l.conn (k : Int) = true) ∧
      res.outp = removePorts keep l.outp keys ++ new ∧
      heraldsOf new =
        (List.range r.heralds.length).zipWith (fun i h => (l.cs + i, h.2)) r.heralds ∧
      ∀ q ∈ new, q.herald = true → q.size = 1 := by
  obtain ⟨d, mp, perm, inp1, outp1, inp2, hd, hmp, hperm, hout, -, -, -, -, -, -, -, -, -, -, -, ho⟩ :=
    compose_proc_inv f1 f2 f3 l r raw keep res hr h
  obtain ⟨-, -, hk, -, hlt, hconn⟩ := resolved_nmap_facts f1 l r raw d mp hd hmp
  have hkH := addHeraldedModes_keys_nodup l.cs mp (r.heralds.map (·.1)) hk hlt
  have hvn := filled_vals_nodup_of_genPerm _ hkH perm hperm
  obtain ⟨new, e, hnew, hsz⟩ := transferOut_spec f3 _ _ _ _ _ _ hout
  refine ⟨d.keys.map Int.toNat, new, ?_, by rw [ho, e], ?_, hsz⟩
  · rw [← toNMap_keys d mp hmp]; exact hconn
  · rw [hnew]
    have hmemfl : ∀ i (hi : i < r.heralds.length),
        keyOfVal (filled (addHeraldedModes l.cs mp (r.heralds.map (·.1)))) (r.heralds[i]).1 =
          some (l.cs + i) := by
      intro i hi
      have hmem := mem_filled (addHeraldedModes_mem l.cs mp (r.heralds.map (·.1)) i (by simpa using hi))
      have hkv := keyOfVal_of_mem hvn hmem
      simpa only [List.getElem_map] using hkv
    generalize filled (addHeraldedModes l.cs mp (r.heralds.map (·.1))) = fl at hmemfl ⊢
    have e1 : (r.outp.filter (·.herald)).map
          (fun p => ((keyOfVal fl p.start).getD 0, p.expected)) =
        r.heralds.map (fun h => ((keyOfVal fl h.1).getD 0, h.2)) := by
      rw [hrh]
      simp [heraldsOf, List.map_map, Function.comp_def]
    rw [e1]
    apply List.ext_getElem
    · simp
    · intro i h1 h2
      have hi : i < r.heralds.length := by simpa using h1
      simp [hmemfl i hi]

/-! ### completeness of `generate_permutation` -/

theorem maxN_append (a b : List Nat) : maxN (a ++ b) = max (maxN a) (maxN b) := by
  induction a with
  | nil => simp [maxN]
  | cons x a ih =>
    show max x (maxN (a ++ b)) = max (max x (maxN a)) (maxN b)
    rw [ih, max_assoc]

theorem maxN_singleton (x : Nat) : maxN [x] = x := by simp [maxN]

/-- the values `generate_permutation` gives to the missing modes: `max+1, max+2, …` -/
theorem fill_vals (mp : NMap) (ms : List Nat) :
    (fill mp ms).vals = mp.vals ++ (List.range ms.length).map (fun i => maxN mp.vals + 1 + i) := by
  induction ms generalizing mp with
  | nil => simp [fill]
  | cons m rest ih =>
    rw [fill, ih, vals_append]
    have e : NMap.vals [(m, maxN mp.vals + 1)] = [maxN mp.vals + 1] := rfl
    rw [e, maxN_append, maxN_singleton, max_eq_right (Nat.le_succ _), List.length_cons,
      List.range_succ_eq_map, List.map_cons, List.map_map, List.append_assoc]
    congr 1
    rw [List.singleton_append, Nat.add_zero]
    congr 1
    apply List.map_congr_left
    intro i _
    simp only [Function.comp, Nat.succ_eq_add_one]
    omega

theorem permVect_length' (mp : NMap) (hk : mp.keys.Nodup) :
    (permVect mp).length = mp.length + (missingModes mp).length := by
  rw [(permVect_perm_vals mp hk).length_eq]
  simp [NMap.vals, filled, fill_length]

theorem permVect_ne_nil (mp : NMap) (hne : mp ≠ []) (hk : mp.keys.Nodup) : permVect mp ≠ [] := by
  intro h
  have := permVect_length' mp hk
  rw [h] at this
  have : 0 < mp.length := List.length_pos_iff.2 hne
  simp at *
  omega

/-- `generate_permutation` on a mapping with distinct keys: whenever it does not raise, the PERM vector is
a permutation of `0 … L-1` -/
theorem genPerm_ok_isPerm (mp : NMap) (σ : Option (List Nat)) (h : genPerm mp = .ok σ) :
    IsPermList (permVect mp).length (permVect mp) := by
  simp only [genPerm] at h
  split_ifs at h with h1 h2
  · refine ⟨rfl, by rw [h1]; exact List.nodup_range, fun x hx => ?_⟩
    rw [h1] at hx
    exact List.mem_range.1 hx
  · simp only [permValid, Bool.and_eq_true, decide_eq_true_eq, beq_iff_eq] at h2
    obtain ⟨⟨⟨_, _⟩, hmax⟩, hnd⟩ := h2
    refine ⟨rfl, hnd, fun x hx => ?_⟩
    have := le_maxN hx
    omega

/-- converse of `genPerm_isPerm`: if `generate_permutation` does not raise, the mapping was legal -/
theorem legal_of_genPerm_ok (mp : NMap) (hk : mp.keys.Nodup) (σ : Option (List Nat))
    (h : genPerm mp = .ok σ) : mp.vals.Nodup ∧ ∀ v ∈ mp.vals, v < mp.length := by
  have hperm := genPerm_ok_isPerm mp σ h
  have hpv := permVect_perm_vals mp hk
  have hlen := permVect_length' mp hk
  have hfv : (filled mp).vals = mp.vals ++
      (List.range (missingModes mp).length).map (fun i => maxN mp.vals + 1 + i) := fill_vals mp _
  have hnd : (filled mp).vals.Nodup := hpv.nodup_iff.1 hperm.2.1
  have hlt : ∀ v ∈ (filled mp).vals, v < mp.length + (missingModes mp).length := by
    intro v hv
    have := hperm.2.2 v (hpv.symm.subset hv)
    omega
  rw [hfv] at hnd hlt
  refine ⟨(List.nodup_append.1 hnd).1, fun v hv => ?_⟩
  cases hj : (missingModes mp).length with
  | zero =>
    have := hlt v (List.mem_append_left _ hv)
    omega
  | succ j =>
    have hm : maxN mp.vals + 1 + j ∈ mp.vals ++
        (List.range (missingModes mp).length).map (fun i => maxN mp.vals + 1 + i) := by
      apply List.mem_append_right
      exact List.mem_map.2 ⟨j, List.mem_range.2 (by omega), rfl⟩
    have h1 := hlt _ hm
    have h2 := le_maxN hv
    omega

/-! ### the modes of interest of the right-hand object -/

/-- well-formed right-hand processor: herald positions are distinct modes of its circuit and
`m = circuit_size − #heralds` (nothing is asked of a bare component) -/
def RightWF (r : Side) : Prop :=
  r.comp = false → (r.heralds.map (·.1)).Nodup ∧ (∀ p ∈ r.heralds.map (·.1), p < r.cs) ∧
    r.m + r.heralds.length = r.cs

theorem mem_orderedRModes_comp {r : Side} (hr : r.comp = true) {x : Nat} :
    x ∈ orderedRModes r ↔ x < r.m := by
  simp [orderedRModes, hr]

theorem mem_orderedRModes_proc {r : Side} (hr : r.comp = false) {x : Nat} :
    x ∈ orderedRModes r ↔ x < r.cs ∧ x ∉ r.heralds.map (·.1) := by
  simp [orderedRModes, hr]

theorem orderedRModes_nodup (r : Side) : (orderedRModes r).Nodup := by
  unfold orderedRModes
  split_ifs
  · exact List.nodup_range
  · exact List.Nodup.filter _ List.nodup_range

theorem orderedRModes_length (r : Side) (hwf : RightWF r) : (orderedRModes r).length = r.m := by
  cases hr : r.comp with
  | true => simp [orderedRModes, hr]
  | false =>
    obtain ⟨hnd, hlt, hm⟩ := hwf hr
    simp only [orderedRModes, hr, Bool.false_eq_true, if_false]
    have hsplit := List.length_eq_length_filter_add (l := List.range r.cs)
      (fun x => (r.heralds.map (·.1)).contains x)
    have hperm : ((List.range r.cs).filter fun x => (r.heralds.map (·.1)).contains x).Perm
        (r.heralds.map (·.1)) := by
      apply (List.perm_ext_iff_of_nodup (List.Nodup.filter _ List.nodup_range) hnd).2
      intro x
      simp only [List.mem_filter, List.mem_range, List.contains_eq_mem, decide_eq_true_eq]
      exact ⟨fun h => h.2, fun h => ⟨hlt x h, h⟩⟩
    have := hperm.length_eq
    simp only [List.length_range, List.length_map] at hsplit this
    omega

/-! ### accepted mappings are legal for `generate_permutation` -/

/-- the mapping `compose` hands to `generate_permutation` -/
def permInput (l r : Side) (mp : NMap) : NMap :=
  if r.comp then mp else addHeraldedModes l.cs mp (r.heralds.map (·.1))

/-- an accepted mapping whose right-hand values are modes of interest of a well-formed right-hand object
is legal for `generate_permutation`, heralded modes included -/
theorem permInput_legal (fixed : RFlags) (l r : Side) (raw : RawMap) (d : Dict) (mp : NMap)
    (h : resolve fixed l r raw = .ok d) (hm : toNMap d = some mp) (hwf : RightWF r)
    (hvals : ∀ v ∈ mp.vals, v ∈ orderedRModes r) :
    permInput l r mp ≠ [] ∧ (permInput l r mp).keys.Nodup ∧ (permInput l r mp).vals.Nodup ∧
      ∀ v ∈ (permInput l r mp).vals, v < (permInput l r mp).length := by
  obtain ⟨hne, hlen, hk, hv, hlt, -⟩ := resolved_nmap_facts fixed l r raw d mp h hm
  cases hr : r.comp with
  | true =>
    simp only [permInput, hr, if_true]
    refine ⟨hne, hk, hv, fun v hv' => ?_⟩
    rw [hlen]
    exact (mem_orderedRModes_comp hr).1 (hvals v hv')
  | false =>
    obtain ⟨hnd, hpl, hmm⟩ := hwf hr
    simp only [permInput, hr, Bool.false_eq_true, if_false]
    refine ⟨?_, addHeraldedModes_keys_nodup l.cs mp _ hk hlt, ?_, ?_⟩
    · intro e
      apply hne
      have := congrArg List.length e
      simp only [addHeraldedModes, List.length_append, List.length_nil] at this
      exact List.eq_nil_of_length_eq_zero (by omega)
    · rw [addHeraldedModes_vals]
      refine List.Nodup.append hv hnd ?_
      intro x hx hx'
      exact ((mem_orderedRModes_proc hr).1 (hvals x hx)).2 hx'
    · have hL : (addHeraldedModes l.cs mp (r.heralds.map (·.1))).length = r.cs := by
        simp [addHeraldedModes, hlen, hmm]
      rw [hL, addHeraldedModes_vals]
      intro v hv'
      rcases List.mem_append.1 hv' with hv' | hv'
      · exact ((mem_orderedRModes_proc hr).1 (hvals v hv')).1
      · exact hpl v hv'

/-- offset and list mappings only name modes of interest of the right-hand object -/
theorem resolve_simple_vals (fixed : RFlags) (l r : Side) (raw : RawMap) (d : Dict)
    (hraw : ∀ items, raw ≠ .ofDict items) (hwf : RightWF r)
    (h : resolve fixed l r raw = .ok d) :
    ∀ v ∈ d.vals, ∃ x ∈ orderedRModes r, v = Int.ofNat x := by
  have hrl := orderedRModes_length r hwf
  unfold resolve at h
  cases raw with
  | ofInt b =>
    simp only [bind, Except.bind, pure, Except.pure] at h
    split at h
    · cases h
    · cases h
      intro v hv
      have := dictOf_vals_subset _ v hv
      simp only [List.map_map, List.mem_map, List.mem_range, Function.comp] at this
      obtain ⟨i, hi, rfl⟩ := this
      refine ⟨(orderedRModes r).getD i 0, ?_, rfl⟩
      rw [List.getD_eq_getElem?_getD, List.getElem?_eq_getElem (by omega)]
      exact List.getElem_mem _
  | ofList ks =>
    simp only [bind, Except.bind, pure, Except.pure, throw, throwThe, MonadExceptOf.throw] at h
    repeat' split at h
    all_goals first
      | (cases h; done)
      | skip
    cases h
    intro v hv
    have := dictOf_vals_subset _ v hv
    rw [List.mem_map] at this
    obtain ⟨p, hp, rfl⟩ := this
    have := (List.of_mem_zip hp).2
    obtain ⟨x, hx, e⟩ := List.mem_map.1 this
    exact ⟨x, hx, e.symm⟩
  | ofDict items => exact absurd rfl (hraw items)

theorem resolve_simple_toNMap (fixed : RFlags) (l r : Side) (raw : RawMap) (d : Dict)
    (hraw : ∀ items, raw ≠ .ofDict items) (hwf : RightWF r)
    (h : resolve fixed l r raw = .ok d) :
    ∃ mp, toNMap d = some mp ∧ ∀ v ∈ mp.vals, v ∈ orderedRModes r := by
  have hv := resolve_simple_vals fixed l r raw d hraw hwf h
  obtain ⟨-, -, -, -, hc⟩ := resolve_facts fixed l r raw d h
  have h0 : ∀ p ∈ d, 0 ≤ p.1 ∧ 0 ≤ p.2 := by
    intro p hp
    refine ⟨(connectible_bounds (hc p hp)).1, ?_⟩
    obtain ⟨x, -, e⟩ := hv p.2 (List.mem_map.2 ⟨p, hp, rfl⟩)
    rw [e]; exact Int.natCast_nonneg x
  refine ⟨_, toNMap_isSome d h0, ?_⟩
  intro v hv'
  simp only [NMap.vals, List.map_map, List.mem_map, Function.comp] at hv'
  obtain ⟨p, hp, rfl⟩ := hv'
  obtain ⟨x, hx, e⟩ := hv p.2 (List.mem_map.2 ⟨p, hp, rfl⟩)
  rw [e]; exact hx

/-! ### dictionary comprehensions -/

theorem dictSet_of_not_mem (d : Dict) (k v : Int) (h : k ∉ d.keys) : dictSet d k v = d ++ [(k, v)] := by
  unfold dictSet
  rw [if_neg]
  intro hc
  obtain ⟨p, hp, e⟩ := List.any_eq_true.1 hc
  exact h (List.mem_map.2 ⟨p, hp, by simpa using e⟩)

theorem dictSet_length_le (d : Dict) (k v : Int) : (dictSet d k v).length ≤ d.length + 1 := by
  unfold dictSet; split_ifs <;> simp

theorem dictSet_length_eq (d : Dict) (k v : Int) (h : (dictSet d k v).length = d.length + 1) :
    k ∉ d.keys := by
  intro hk
  unfold dictSet at h
  rw [if_pos] at h
  · simp at h
  · obtain ⟨p, hp, e⟩ := List.mem_map.1 hk
    exact List.any_eq_true.2 ⟨p, hp, by simp [e]⟩

/-- a comprehension over pairs with distinct keys is that list of pairs -/
theorem dictSetAll_of_nodup (l : List (Int × Int)) (d : Dict)
    (h : (d.keys ++ l.map (·.1)).Nodup) : dictSetAll d l = d ++ l := by
  induction l generalizing d with
  | nil => simp [dictSetAll]
  | cons p rest ih =>
    have hp : p.1 ∉ d.keys := by
      intro hm
      exact (List.nodup_append.1 h).2.2 _ hm _ (by simp) rfl
    show dictSetAll (dictSet d p.1 p.2) rest = d ++ p :: rest
    rw [dictSet_of_not_mem d p.1 p.2 hp, ih]
    · simp
    · simpa [Dict.keys, List.append_assoc] using h

theorem dictOf_of_nodup (l : List (Int × Int)) (h : (l.map (·.1)).Nodup) : dictOf l = l := by
  have := dictSetAll_of_nodup l [] (by simpa [Dict.keys] using h)
  simpa [dictOf] using this

theorem dictSetAll_length_le (l : List (Int × Int)) (d : Dict) :
    (dictSetAll d l).length ≤ d.length + l.length := by
  induction l generalizing d with
  | nil => simp [dictSetAll]
  | cons p rest ih =>
    have := ih (dictSet d p.1 p.2)
    have := dictSet_length_le d p.1 p.2
    show (dictSetAll (dictSet d p.1 p.2) rest).length ≤ _
    simp only [List.length_cons]
    omega

/-- … and a comprehension that keeps every pair had distinct keys -/
theorem nodup_of_dictSetAll_length (l : List (Int × Int)) (d : Dict) (hd : d.keys.Nodup)
    (h : (dictSetAll d l).length = d.length + l.length) : (d.keys ++ l.map (·.1)).Nodup := by
  induction l generalizing d with
  | nil => simpa using hd
  | cons p rest ih =>
    have h1 := dictSetAll_length_le rest (dictSet d p.1 p.2)
    have h2 := dictSet_length_le d p.1 p.2
    have h' : (dictSetAll (dictSet d p.1 p.2) rest).length = d.length + (rest.length + 1) := h
    have hlen : (dictSet d p.1 p.2).length = d.length + 1 := by omega
    have hp := dictSet_length_eq d p.1 p.2 hlen
    have := ih (dictSet d p.1 p.2) (dictSet_keys_nodup d p.1 p.2 hd) (by omega)
    rw [dictSet_of_not_mem d p.1 p.2 hp] at this
    simpa [Dict.keys, List.append_assoc] using this

theorem dictOf_length_iff (l : List (Int × Int)) :
    (dictOf l).length = l.length ↔ (l.map (·.1)).Nodup := by
  constructor
  · intro h
    have := nodup_of_dictSetAll_length l [] List.nodup_nil (by simpa [dictOf] using h)
    simpa [Dict.keys] using this
  · intro h; rw [dictOf_of_nodup l h]

theorem dictOf_length_le (l : List (Int × Int)) : (dictOf l).length ≤ l.length := by
  simpa [dictOf] using dictSetAll_length_le l []

/-! ### the offset and list forms of `resolve` -/

/-- the dictionary an offset mapping `b` stands for: `{b+i : r_list[i]}` -/
def intMap (b : Int) (r : Side) : Dict :=
  (List.range r.m).map fun (i : Nat) => (b + Int.ofNat i, Int.ofNat ((orderedRModes r).getD i 0))

/-- the pairs a list mapping stands for: `zip(keys, r_list)` -/
def listMap (ks : List Int) (r : Side) : Dict := ks.zip ((orderedRModes r).map Int.ofNat)

theorem intMap_keys (b : Int) (r : Side) :
    (intMap b r).keys = (List.range r.m).map fun (i : Nat) => b + Int.ofNat i := by
  simp [intMap, Dict.keys, List.map_map, Function.comp_def]

theorem intMap_keys_nodup (b : Int) (r : Side) : (intMap b r).keys.Nodup := by
  rw [intMap_keys]
  refine List.Nodup.map ?_ List.nodup_range
  intro i j e
  simp only [Int.ofNat_eq_natCast] at e
  omega

theorem intMap_vals (b : Int) (r : Side) (hwf : RightWF r) :
    (intMap b r).vals = (orderedRModes r).map Int.ofNat := by
  have hl := orderedRModes_length r hwf
  simp only [intMap, Dict.vals, List.map_map, Function.comp_def]
  apply List.ext_getElem
  · simp [hl]
  · intro i h1 h2
    have hi : i < (orderedRModes r).length := by simpa using h2
    simp [List.getD_eq_getElem?_getD, List.getElem?_eq_getElem hi]

theorem map_ofNat_nodup (l : List Nat) (h : l.Nodup) : (l.map Int.ofNat).Nodup :=
  List.Nodup.map (fun a b e => by simpa using e) h

theorem resolve_int_eq (fixed : RFlags) (l r : Side) (b : Int) :
    resolve fixed l r (.ofInt b) =
      match checkConsistency l.cs l.conn r.m (intMap b r) with
      | .ok _ => .ok (intMap b r)
      | .error e => .error e := by
  have e : dictOf ((List.range r.m).map fun (i : Nat) =>
      (b + Int.ofNat i, Int.ofNat ((orderedRModes r).getD i 0))) = intMap b r :=
    dictOf_of_nodup _ (intMap_keys_nodup b r)
  simp only [resolve, bind, Except.bind, pure, Except.pure, e]
  cases checkConsistency l.cs l.conn r.m (intMap b r) <;> rfl

theorem resolve_list_eq (fixed : RFlags) (l r : Side) (ks : List Int) :
    resolve fixed l r (.ofList ks) =
      if ks.length ≠ (orderedRModes r).length then .error .invalid
      else match checkConsistency l.cs l.conn r.m (dictOf (listMap ks r)) with
        | .ok _ => .ok (dictOf (listMap ks r))
        | .error e => .error e := by
  simp only [resolve, bind, Except.bind, pure, Except.pure, throw, throwThe, MonadExceptOf.throw,
    listMap]
  split_ifs
  · rfl
  · cases checkConsistency l.cs l.conn r.m (dictOf (ks.zip ((orderedRModes r).map Int.ofNat))) <;> rfl

theorem listMap_keys (ks : List Int) (r : Side) (h : ks.length = (orderedRModes r).length) :
    (listMap ks r).map (·.1) = ks := by
  unfold listMap
  exact List.map_fst_zip (by simp [h])

theorem listMap_vals (ks : List Int) (r : Side) (h : ks.length = (orderedRModes r).length) :
    (listMap ks r).vals = (orderedRModes r).map Int.ofNat := by
  unfold listMap Dict.vals
  exact List.map_snd_zip (by simp [h])

theorem listMap_length (ks : List Int) (r : Side) (h : ks.length = (orderedRModes r).length) :
    (listMap ks r).length = ks.length := by
  simp [listMap, h]

/-! ### herald bookkeeping invariant -/

/-- well-formed herald bookkeeping: every herald port is a one-mode port on a mode that is not connectible -/
def HeraldPortsReserved (cs : Nat) (conn : List Bool) (outp : List Port) : Prop :=
  ∀ p ∈ outp, p.herald = true → p.size = 1 ∧ connectible cs conn (p.start : Int) = false

theorem HeraldPortsReserved.covered {cs : Nat} {conn : List Bool} {outp : List Port}
    (h : HeraldPortsReserved cs conn outp) :
    ∀ p ∈ outp, p.herald = true → ∀ k : Nat, p.start ≤ k → k < p.start + p.size →
      connectible cs conn (k : Int) = false := by
  intro p hp hh k h1 h2
  obtain ⟨hs, hc⟩ := h p hp hh
  have : k = p.start := by omega
  rw [this]; exact hc

theorem mem_heraldsOf {outp : List Port} {x : Nat × Nat} (h : x ∈ heraldsOf outp) :
    ∃ p ∈ outp, p.herald = true ∧ p.start = x.1 ∧ p.expected = x.2 := by
  simp only [heraldsOf, List.mem_map, List.mem_filter] at h
  obtain ⟨p, ⟨hp, hh⟩, rfl⟩ := h
  exact ⟨p, hp, hh, rfl, rfl⟩

theorem heraldsOf_mem {outp : List Port} {p : Port} (hp : p ∈ outp) (hh : p.herald = true) :
    (p.start, p.expected) ∈ heraldsOf outp := by
  simp only [heraldsOf, List.mem_map, List.mem_filter]
  exact ⟨p, ⟨hp, hh⟩, rfl⟩

/-! ### no `AssertionError` from PERM on offset / list mappings -/

theorem checkConsistency_err (cs : Nat) (conn : List Bool) (n : Nat) (d : Dict) (e : Err)
    (h : checkConsistency cs conn n d = .error e) : e ≠ .assertion := by
  unfold checkConsistency at h
  split_ifs at h <;> cases h <;> decide

theorem resolve_simple_err (fixed : RFlags) (l r : Side) (raw : RawMap)
    (hraw : ∀ items, raw ≠ .ofDict items) (e : Err) (h : resolve fixed l r raw = .error e) :
    e ≠ .assertion := by
  cases raw with
  | ofInt b =>
    rw [resolve_int_eq] at h
    split at h
    · cases h
    · rename_i e' hc
      cases h
      exact checkConsistency_err _ _ _ _ _ hc
  | ofList ks =>
    rw [resolve_list_eq] at h
    split_ifs at h
    · cases h; decide
    · split at h
      · cases h
      · rename_i e' hc
        cases h
        exact checkConsistency_err _ _ _ _ _ hc
  | ofDict items => exact absurd rfl (hraw items)

theorem transferOut_err (fp : Bool) (fl : NMap) (ports : List Port) (st : List Port × List Port)
    (e : Err) (h : transferOut fp fl st ports = .error e) : e ≠ .assertion := by
  induction ports generalizing st with
  | nil => obtain ⟨a, b⟩ := st; simp [transferOut] at h
  | cons p rest ih =>
    obtain ⟨inp, outp⟩ := st
    simp only [transferOut] at h
    split at h
    · cases h; decide
    · split_ifs at h
      · exact ih _ h
      · cases h; decide
      · exact ih _ h
      · exact ih _ h

theorem transferIn_err (fp : Bool) (fl : NMap) (ports : List Port) (inp : List Port)
    (e : Err) (h : transferIn fp fl inp ports = .error e) : e ≠ .assertion := by
  induction ports generalizing inp with
  | nil => simp [transferIn] at h
  | cons p rest ih =>
    simp only [transferIn] at h
    split at h
    · cases h; decide
    · split_ifs at h
      · exact ih _ h
      · exact ih _ h

/-- for an offset or list mapping onto a well-formed right-hand object, the only `AssertionError`
`Processor.add` can die of is the explicit `can_compose_with` assertion on the left post-selection:
never PERM's -/
theorem compose_assertion_inv (f1 : RFlags) (f2 f3 : Bool) (l r : Side) (raw : RawMap) (keep : Bool)
    (hraw : ∀ items, raw ≠ .ofDict items) (hwf : RightWF r)
    (hgp : ∀ d mp, resolve f1 l r raw = .ok d → toNMap d = some mp →
      ∃ σ, genPerm (permInput l r mp) = .ok σ)
    (h : compose f1 f2 f3 l r raw keep = .error .assertion) :
    ∃ d, resolve f1 l r raw = .ok d ∧ validatePS l (d.keys.map Int.toNat) = .error .assertion := by
  unfold compose at h
  cases hr : r.comp with
  | true =>
    simp only [bind, Except.bind, pure, Except.pure, throw, throwThe, MonadExceptOf.throw, hr,
      if_true] at h
    split at h
    · rename_i e he
      cases h
      exact absurd rfl (resolve_simple_err f1 l r raw hraw _ he)
    · rename_i d hd
      split at h
      · rename_i e he
        cases h
        exact ⟨d, hd, he⟩
      · obtain ⟨mp, hm, -⟩ := resolve_simple_toNMap f1 l r raw d hraw hwf hd
        obtain ⟨σ, hσ⟩ := hgp d mp hd hm
        simp only [permInput, hr, if_true] at hσ
        rw [hm] at h
        simp only [hσ] at h
        cases h
  | false =>
    simp only [bind, Except.bind, pure, Except.pure, throw, throwThe, MonadExceptOf.throw, hr,
      Bool.false_eq_true, if_false] at h
    split at h
    · rename_i e he
      cases h
      exact absurd rfl (resolve_simple_err f1 l r raw hraw _ he)
    · rename_i d hd
      split at h
      · rename_i e he
        cases h
        exact ⟨d, hd, he⟩
      · obtain ⟨mp, hm, -⟩ := resolve_simple_toNMap f1 l r raw d hraw hwf hd
        obtain ⟨σ, hσ⟩ := hgp d mp hd hm
        simp only [permInput, hr, Bool.false_eq_true, if_false] at hσ
        rw [hm] at h
        simp only [hσ] at h
        split at h
        · rename_i e he
          cases h
          exact absurd rfl (transferOut_err _ _ _ _ _ he)
        · split at h
          · rename_i e he
            cases h
            exact absurd rfl (transferIn_err _ _ _ _ _ he)
          · split at h
            · rename_i e he
              cases h
              exfalso
              revert he
              split
              · intro he; cases he
              · split
                · intro he; cases he
                · split_ifs <;> intro he <;> cases he
            · cases h

theorem intMap_ne_nil (b : Int) (r : Side) (hm : 0 < r.m) : intMap b r ≠ [] := by
  intro h
  have := congrArg List.length h
  simp [intMap] at this
  omega

theorem intMap_forall (b : Int) (r : Side) (P : Int → Prop) :
    (∀ p ∈ intMap b r, P p.1) ↔ ∀ i : Nat, i < r.m → P (b + i) := by
  simp only [intMap, List.mem_map, List.mem_range]
  constructor
  · intro h i hi
    exact h _ ⟨i, hi, rfl⟩
  · rintro h p ⟨i, hi, rfl⟩
    exact h i hi

theorem genPerm_ok_cases (mp : NMap) (perm : Option (List Nat)) (h : genPerm mp = .ok perm) :
    (perm = none ∧ permVect mp = List.range (permVect mp).length) ∨ perm = some (permVect mp) := by
  simp only [genPerm] at h
  split_ifs at h with h1 h2
  · cases h; exact Or.inl ⟨rfl, h1⟩
  · cases h; exact Or.inr rfl

end PM.C10
